/-
  Ark.Proofs.RelRefineBatchHist — the invariant of the relation refinement machine WITH batch
  steps holds along every history that stays within the size bounds.

  * `grow`, `need`, `Fits`, `budget` — the size bound of a history.  A triple `(T, A, E)` bounds
    the number of tables, of relation archetypes and of index slots.  A single operation needs
    `T + A + 1 ≤ 2^32−1`, `2·E < 2^32` and costs `(1 + A, 1, 1)` (`RemoveEntity` of a relation target
    may create one table per relation archetype); `delb` needs `T + E·A + 1 ≤ 2^32−1` (every removed
    entity may be a target) and costs `(E·A, 0, 0)`; `setrelb` creates at most one table per
    selected table: it needs `2·T ≤ 2^32−1` and at most doubles `T`; the single `xchg` is like a
    single operation; `xchgb` creates at most one table AND one relation archetype per selected
    table: it needs `2·T < 2^32−1` and costs `(T, T, 0)`.  `Fits b ops`: every operation
    of `ops` finds what it needs, starting from the budget `b`.  `NewWorld` is `(1, 0, 2)`.
  * `stepRB_goal` — one step: the invariant `HInvRB` is kept, the sizes stay within the budget, an
    expressible operation whose precondition fails is rejected with NOTHING changed (world,
    issued handles, specification), one whose precondition holds succeeds.
  * `runRB_inv`, `reachRB_inv`, `reachRB_sized`, `reachRB_step` — along histories.
  * `fits_base` — histories of `Ark.RelRefine` below its bound (`ops.length < 2^16`) fit;
    `fits_of_length` — histories of fewer than `2^10` single operations (`xchg` included) and batch removals fit.

  Kernel-only proofs, core Lean only.
-/
import Ark.Proofs.RelRefineBatchXchg

set_option autoImplicit false

namespace Ark

open World Ark.Props.C01World QueryRel

namespace RelRefineB

open RelRefine
open RelRefine3 (XchgOK xchgEntry specXchg preXchg guardXchg)
open Refine (Comps keys sortedIds writeComps zeros)

/-! ## the size budget -/

/-- the budget: tables, relation archetypes, index slots -/
structure Budget where
  tables : Nat
  relArchs : Nat
  slots : Nat
  deriving DecidableEq, Repr

/-- what a step may add to the budget -/
def grow (b : Budget) : OpRB → Budget
  | .base _ => ⟨b.tables + 1 + b.relArchs, b.relArchs + 1, b.slots + 1⟩
  | .delb _ _ => ⟨b.tables + b.slots * b.relArchs, b.relArchs, b.slots⟩
  | .setrelb _ _ _ _ => ⟨2 * b.tables, b.relArchs, b.slots⟩
  | .xchg _ _ _ _ _ _ => ⟨b.tables + 1 + b.relArchs, b.relArchs + 1, b.slots + 1⟩
  | .xchgb _ _ _ _ _ _ => ⟨2 * b.tables, b.relArchs + b.tables, b.slots⟩

/-- what a step needs of the budget -/
def need (b : Budget) : OpRB → Prop
  | .base _ => b.tables + b.relArchs + 1 ≤ maxU32 ∧ 2 * b.slots < 2 ^ 32
  | .delb _ _ => b.tables + b.slots * b.relArchs + 1 ≤ maxU32 ∧ 2 * b.slots < 2 ^ 32
  | .setrelb _ _ _ _ => 2 * b.tables ≤ maxU32 ∧ 2 * b.slots < 2 ^ 32
  | .xchg _ _ _ _ _ _ => b.tables + b.relArchs + 1 ≤ maxU32 ∧ 2 * b.slots < 2 ^ 32
  | .xchgb _ _ _ _ _ _ => 2 * b.tables < maxU32 ∧ 2 * b.slots < 2 ^ 32

instance (b : Budget) (op : OpRB) : Decidable (need b op) := by
  cases op <;> simp only [need] <;> exact inferInstance

/-- every operation of the history finds the room it needs -/
def Fits (b : Budget) : List OpRB → Prop
  | [] => True
  | op :: ops => need b op ∧ Fits (grow b op) ops

def Fits.dec : ∀ (ops : List OpRB) (b : Budget), Decidable (Fits b ops)
  | [], _ => isTrue trivial
  | op :: ops, b =>
    have : Decidable (Fits (grow b op) ops) := Fits.dec ops (grow b op)
    inferInstanceAs (Decidable (need b op ∧ Fits (grow b op) ops))

instance (b : Budget) (ops : List OpRB) : Decidable (Fits b ops) := Fits.dec ops b

/-- the budget after a history -/
def budget (b : Budget) (ops : List OpRB) : Budget := ops.foldl grow b

/-- the budget of `NewWorld` -/
def Budget.init : Budget := ⟨1, 0, 2⟩

theorem fits_append (b : Budget) (l1 l2 : List OpRB) :
    Fits b (l1 ++ l2) ↔ Fits b l1 ∧ Fits (budget b l1) l2 := by
  induction l1 generalizing b with
  | nil => simp [Fits, budget]
  | cons op l1 ih =>
    simp only [List.cons_append, Fits, budget, List.foldl_cons]
    rw [ih]
    exact and_assoc.symm

theorem fits_snoc (b : Budget) (ops : List OpRB) (op : OpRB) :
    Fits b (ops ++ [op]) ↔ Fits b ops ∧ need (budget b ops) op := by
  rw [fits_append]
  simp [Fits]

/-- the sizes of the world are within the budget -/
def Sized (s : St) (b : Budget) : Prop :=
  s.w.tables.length ≤ b.tables ∧ s.w.relationArchetypes.length ≤ b.relArchs ∧
    s.w.entities.length ≤ b.slots

/-- the budget provides the room a step needs -/
theorem room_of_need {s : St} {b : Budget} (hs : Sized s b) (op : OpRB) (hn : need b op) :
    Room s op := by
  obtain ⟨h1, h2, h3⟩ := hs
  cases op with
  | base op => exact ⟨by have := hn.1; omega, by have := hn.2; omega⟩
  | delb f frels =>
    have := Nat.mul_le_mul h3 h2
    exact ⟨by have := hn.1; omega, by have := hn.2; omega⟩
  | setrelb p f frels rels => exact ⟨by have := hn.1; omega, by have := hn.2; omega⟩
  | xchg p e add vals rem rels => exact ⟨by have := hn.1; omega, by have := hn.2; omega⟩
  | xchgb p f frels add rem rels => exact ⟨by have := hn.1; omega, by have := hn.2; omega⟩

/-- a step that does not move keeps the sizes within the grown budget -/
theorem sized_grow {s : St} {b : Budget} (hs : Sized s b) (op : OpRB) : Sized s (grow b op) := by
  obtain ⟨h1, h2, h3⟩ := hs
  cases op with
  | base op => exact ⟨by show _ ≤ b.tables + 1 + b.relArchs; omega,
      by show _ ≤ b.relArchs + 1; omega, by show _ ≤ b.slots + 1; omega⟩
  | delb f frels => exact ⟨by show _ ≤ b.tables + b.slots * b.relArchs; omega, h2, h3⟩
  | setrelb p f frels rels => exact ⟨by show _ ≤ 2 * b.tables; omega, h2, h3⟩
  | xchg p e add vals rem rels => exact ⟨by show _ ≤ b.tables + 1 + b.relArchs; omega,
      by show _ ≤ b.relArchs + 1; omega, by show _ ≤ b.slots + 1; omega⟩
  | xchgb p f frels add rem rels => exact ⟨by show _ ≤ 2 * b.tables; omega,
      by show _ ≤ b.relArchs + b.tables; omega, h3⟩

/-! ## one step -/

theorem execRB_base (run : ProbeRunner) (w : World) (op : Op) :
    execRB run w (.base op) =
      match exec run w op with
      | .ok r w' => .ok r.toList w'
      | .panic k w' => .panic k w' := rfl

/-- every step of `Ark.RelRefine` keeps what the batches need: rows hold alive handles, the lock
    is untouched -/
theorem step_base_keeps (run : ProbeRunner) {s : St} {fl : List Nat} (H : HInvRB s fl)
    (hfew : s.w.tables.length + s.w.relationArchetypes.length + 1 ≤ maxU32)
    (hent : 2 * s.w.entities.length < 2 ^ 32) (op : Op) (G : StepGoal run s op) :
    RowsAlive (step run s op).w ∧ (step run s op).w.locks = s.w.locks := by
  obtain ⟨_, _, _, _, g4, g5⟩ := G
  by_cases hg : guard s op = true
  case neg =>
    have : step run s op = s := by rw [step, if_neg hg]
    rw [this]; exact ⟨H.rows, rfl⟩
  have hw : (step run s op).w = (exec run s.w op).state := by rw [step_of_guard hg]
  rcases Classical.em (pre s.ss op) with hp | hnp
  · obtain ⟨r, w', hex⟩ := g5 hg hp
    have hw' : (step run s op).w = w' := by rw [hw, hex]; rfl
    rw [hw']
    have k := RelRefine2.exec_kept run H.hinv hfew hent hg hp hex
    exact ⟨k.q.rows H.rows, k.locks⟩
  · obtain ⟨k, hex⟩ := g4 hg hnp
    have hw' : (step run s op).w = s.w := by rw [hw, hex]; rfl
    rw [hw']; exact ⟨H.rows, rfl⟩

/-- **one step of the machine**, single or batch -/
theorem stepRB_goal (run : ProbeRunner) {s : St} {fl : List Nat} (H : HInvRB s fl) {b : Budget}
    (hs : Sized s b) (op : OpRB) (hn : need b op) :
    (∃ fl', HInvRB (stepRB run s op) fl') ∧ Sized (stepRB run s op) (grow b op) ∧
    (guardRB s op = true → ¬ preRB s.ss op →
      (∃ k, execRB run s.w op = .panic k s.w) ∧ stepRB run s op = s) ∧
    (guardRB s op = true → preRB s.ss op → ∃ r w', execRB run s.w op = .ok r w') := by
  have hroom := room_of_need hs op hn
  have hs0 := hs
  obtain ⟨h1, h2, h3⟩ := hs
  cases op with
  | base op =>
    obtain ⟨hfew, hent⟩ := hroom
    have G := step_goal run H.hinv hfew hent op
    obtain ⟨hrows', hlk'⟩ := step_base_keeps run H hfew hent op G
    obtain ⟨⟨fl1, g0⟩, g1, g2, g3, grej, gok⟩ := G
    refine ⟨⟨fl1, g0, hrows', by
        show ∃ (lf : List Nat), Lock.LInv ⟨(step run s op).w.locks, []⟩ lf
        rw [hlk']; exact H.lock⟩,
      ⟨by show (step run s op).w.tables.length ≤ b.tables + 1 + b.relArchs; omega,
       by show (step run s op).w.relationArchetypes.length ≤ b.relArchs + 1; omega,
       by show (step run s op).w.entities.length ≤ b.slots + 1; omega⟩, ?_, ?_⟩
    · intro hg hnp
      obtain ⟨k, hk⟩ := grej hg hnp
      refine ⟨⟨k, by rw [execRB_base, hk]⟩, ?_⟩
      show step run s op = s
      rw [step_of_guard hg, hk]
      simp only [Res.state, retOf, issuedAfter, specStep_of_not_pre _ _ op hnp]
    · intro hg hp
      obtain ⟨r, w', hex⟩ := gok hg hp
      exact ⟨r.toList, w', by rw [execRB_base, hex]⟩
  | delb f frels =>
    by_cases hg : guardRB s (.delb f frels) = true
    case neg =>
      have hst : stepRB run s (.delb f frels) = s := by
        show stepBatch run s (.delb f frels) = s
        rw [stepBatch, if_neg hg]
      rw [hst]
      exact ⟨⟨fl, H⟩, sized_grow hs0 _, fun h => absurd h hg, fun h => absurd h hg⟩
    obtain ⟨w', hop, hst, post, _, g0⟩ := step_delb run H f frels hg hroom
    obtain ⟨_, _, _, _, _, _, hlen⟩ := sel_spec H (show frelsExpr s.ss f frels = true from hg)
    refine ⟨⟨_, g0⟩, ?_, fun _ hnp => absurd trivial hnp,
      fun _ _ => ⟨[], w', by simp only [execRB, hop]⟩⟩
    rw [hst]
    have hmul := Nat.mul_le_mul (Nat.le_trans hlen h3) h2
    exact ⟨by show w'.tables.length ≤ b.tables + b.slots * b.relArchs; have := post.tablesLen; omega,
      by show w'.relationArchetypes.length ≤ b.relArchs; rw [post.relationArchetypes]; exact h2,
      by show w'.entities.length ≤ b.slots; rw [post.entitiesLen]; exact h3⟩
  | setrelb p f frels rels =>
    by_cases hg : guardRB s (.setrelb p f frels rels) = true
    case neg =>
      have hst : stepRB run s (.setrelb p f frels rels) = s := by
        show stepBatch run s (.setrelb p f frels rels) = s
        rw [stepBatch, if_neg hg]
      rw [hst]
      exact ⟨⟨fl, H⟩, sized_grow hs0 _, fun h => absurd h hg, fun h => absurd h hg⟩
    obtain ⟨grej, gok⟩ := step_setrelb run H p f frels rels hg hroom
    rcases Classical.em (preRB s.ss (.setrelb p f frels rels)) with hp | hnp
    · obtain ⟨w', hop, hst, post, more, _, _, g0⟩ := gok hp
      refine ⟨⟨fl, g0⟩, ?_, fun _ hnp => absurd hp hnp,
        fun _ _ => ⟨[], w', by simp only [execRB, hop]⟩⟩
      rw [hst]
      exact ⟨by show w'.tables.length ≤ 2 * b.tables; have := more.tablesLen; omega,
        by show w'.relationArchetypes.length ≤ b.relArchs; rw [more.relArchs]; exact h2,
        by show w'.entities.length ≤ b.slots; rw [post.entitiesLen]; exact h3⟩
    · obtain ⟨⟨k, hk⟩, hst⟩ := grej hnp
      rw [hst]
      exact ⟨⟨fl, H⟩, sized_grow hs0 _, fun _ _ => ⟨⟨k, by simp only [execRB, hk]⟩, rfl⟩,
        fun _ hp => absurd hp hnp⟩
  | xchg p e add vals rem rels =>
    obtain ⟨g0, ⟨g1, g2, g3⟩, grej, gok⟩ := step_xchg run H hroom.1 hroom.2 p e add vals rem rels
    refine ⟨g0, ⟨by show _ ≤ b.tables + 1 + b.relArchs; omega, by show _ ≤ b.relArchs + 1; omega,
      by show _ ≤ b.slots + 1; omega⟩, ?_, ?_⟩
    · intro hg hnp
      obtain ⟨⟨k, hk⟩, hst⟩ := grej hg hnp
      exact ⟨⟨k, by simp only [execRB, hk]⟩, hst⟩
    · intro hg hp
      obtain ⟨w', hop⟩ := gok hg hp
      exact ⟨[], w', by simp only [execRB, hop]⟩
  | xchgb p f frels add rem rels =>
    by_cases hg : guardRB s (.xchgb p f frels add rem rels) = true
    case neg =>
      have hst : stepRB run s (.xchgb p f frels add rem rels) = s := by
        show stepBatch run s (.xchgb p f frels add rem rels) = s
        rw [stepBatch, if_neg hg]
      rw [hst]
      exact ⟨⟨fl, H⟩, sized_grow hs0 _, fun h => absurd h hg, fun h => absurd h hg⟩
    obtain ⟨grej, gok⟩ := step_xchgb run H p f frels add rem rels hg hroom
    rcases Classical.em (preRB s.ss (.xchgb p f frels add rem rels)) with hp | hnp
    · obtain ⟨w', hop, hst, post, more, _, _, g0⟩ := gok hp
      refine ⟨⟨fl, g0⟩, ?_, fun _ hnp => absurd hp hnp,
        fun _ _ => ⟨[], w', by simp only [execRB, hop]⟩⟩
      rw [hst]
      exact ⟨by show w'.tables.length ≤ 2 * b.tables; have := more.tablesLen; omega,
        by show w'.relationArchetypes.length ≤ b.relArchs + b.tables; have := more.relArchs; omega,
        by show w'.entities.length ≤ b.slots; rw [post.entitiesLen]; exact h3⟩
    · obtain ⟨⟨k, hk⟩, hst⟩ := grej hnp
      rw [hst]
      exact ⟨⟨fl, H⟩, sized_grow hs0 _, fun _ _ => ⟨⟨k, by simp only [execRB, hk]⟩, rfl⟩,
        fun _ hp => absurd hp hnp⟩

/-! ## along histories -/

theorem runRB_inv (run : ProbeRunner) (ops : List OpRB) : ∀ (s : St) (fl : List Nat) (b : Budget),
    HInvRB s fl → Sized s b → Fits b ops →
    ∃ fl', HInvRB (runOpsRB run s ops) fl' ∧ Sized (runOpsRB run s ops) (budget b ops) := by
  induction ops with
  | nil => intro s fl b h hs _; exact ⟨fl, h, hs⟩
  | cons op ops ih =>
    intro s fl b h hs hf
    obtain ⟨⟨fl1, h1⟩, hs1, _, _⟩ := stepRB_goal run h hs op hf.1
    exact ih _ fl1 _ h1 hs1 hf.2

theorem sized_init (cap rel : Nat) : Sized (St.init cap rel) Budget.init :=
  ⟨Nat.le_refl _, Nat.le_refl _, Nat.le_refl _⟩

/-- **the invariant holds after every history of single and batch operations within the bound** -/
theorem reachRB_inv (run : ProbeRunner) (cap rel : Nat) (ops : List OpRB)
    (hf : Fits Budget.init ops) : ∃ fl, HInvRB (reachRB run cap rel ops) fl := by
  obtain ⟨fl, h, _⟩ := runRB_inv run ops _ [] Budget.init (hinvRB_init cap rel) (sized_init cap rel) hf
  exact ⟨fl, h⟩

theorem reachRB_sized (run : ProbeRunner) (cap rel : Nat) (ops : List OpRB)
    (hf : Fits Budget.init ops) : Sized (reachRB run cap rel ops) (budget Budget.init ops) := by
  obtain ⟨_, _, h⟩ := runRB_inv run ops _ [] Budget.init (hinvRB_init cap rel) (sized_init cap rel) hf
  exact h

/-- one more step after a history: everything `stepRB_goal` says -/
theorem reachRB_step (run : ProbeRunner) (cap rel : Nat) (ops : List OpRB) (op : OpRB)
    (hf : Fits Budget.init (ops ++ [op])) :
    ∃ fl, HInvRB (reachRB run cap rel ops) fl ∧
    (∃ fl', HInvRB (reachRB run cap rel (ops ++ [op])) fl') ∧
    Room (reachRB run cap rel ops) op ∧
    (guardRB (reachRB run cap rel ops) op = true → ¬ preRB (reachRB run cap rel ops).ss op →
      (∃ k, execRB run (reachRB run cap rel ops).w op = .panic k (reachRB run cap rel ops).w) ∧
      reachRB run cap rel (ops ++ [op]) = reachRB run cap rel ops) ∧
    (guardRB (reachRB run cap rel ops) op = true → preRB (reachRB run cap rel ops).ss op →
      ∃ r w', execRB run (reachRB run cap rel ops).w op = .ok r w') := by
  obtain ⟨hf1, hn⟩ := (fits_snoc _ _ _).mp hf
  obtain ⟨fl, H⟩ := reachRB_inv run cap rel ops hf1
  have hs := reachRB_sized run cap rel ops hf1
  obtain ⟨g0, _, grej, gok⟩ := stepRB_goal run H hs op hn
  rw [reachRB_snoc]
  exact ⟨fl, H, g0, room_of_need hs op hn, grej, gok⟩

/-! ## simple sufficient bounds -/

/-- histories of single operations: the bound of `RelRefine.run_inv` -/
theorem fits_base_gen : ∀ (ops : List Op) (b : Budget),
    b.tables + ops.length * (b.relArchs + ops.length) + b.relArchs + ops.length + 1 ≤ maxU32 →
    2 * (b.slots + ops.length) < 2 ^ 32 → Fits b (ops.map .base)
  | [], _, _, _ => trivial
  | op :: ops, b, h1, h2 => by
    simp only [List.length_cons] at h1 h2
    have e1 : (ops.length + 1) * (b.relArchs + (ops.length + 1)) =
        ops.length * (b.relArchs + 1 + ops.length) + (b.relArchs + 1 + ops.length) := by
      rw [Nat.succ_mul]
      have : b.relArchs + (ops.length + 1) = b.relArchs + 1 + ops.length := by omega
      rw [this]
    rw [e1] at h1
    refine ⟨⟨by omega, by omega⟩, ?_⟩
    apply fits_base_gen ops
    · show b.tables + 1 + b.relArchs + ops.length * (b.relArchs + 1 + ops.length) +
        (b.relArchs + 1) + ops.length + 1 ≤ maxU32
      omega
    · show 2 * (b.slots + 1 + ops.length) < 2 ^ 32
      omega

/-- **histories of `Ark.RelRefine` below its bound fit** -/
theorem fits_base (ops : List Op) (hlen : ops.length < 2 ^ 16) :
    Fits Budget.init (ops.map .base) := by
  have hsq : ops.length * ops.length ≤ 65535 * 65535 := Nat.mul_le_mul (by omega) (by omega)
  apply fits_base_gen
  · show 1 + ops.length * (0 + ops.length) + 0 + ops.length + 1 ≤ maxU32
    rw [Nat.zero_add]; simp only [maxU32]; omega
  · show 2 * (2 + ops.length) < 2 ^ 32; omega

/-- the batches that may double the number of tables -/
def OpRB.doubles : OpRB → Bool
  | .setrelb _ _ _ _ => true
  | .xchgb _ _ _ _ _ _ => true
  | _ => false

/-- histories without `setrelb` / `xchgb`: with at most `N` relation archetypes and `N + 2` index slots at
    the end, every step adds at most `C = (N + 2)·(N + 1)` tables -/
theorem fits_of_length_gen (N : Nat) : ∀ (ops : List OpRB) (b : Budget),
    (∀ op ∈ ops, op.doubles = false) →
    b.relArchs + ops.length ≤ N → b.slots + ops.length ≤ N + 2 →
    b.tables + (ops.length + 1) * ((N + 2) * (N + 1)) + 1 ≤ maxU32 → 2 * (N + 2) < 2 ^ 32 →
    Fits b ops
  | [], _, _, _, _, _, _ => trivial
  | op :: ops, b, hx, hA, hE, hT, hN => by
    simp only [List.length_cons] at hA hE hT
    have hx' : ∀ op' ∈ ops, op'.doubles = false := fun o ho => hx o (List.mem_cons_of_mem _ ho)
    have hC1 : 1 + b.relArchs ≤ (N + 2) * (N + 1) := by
      have : 1 * (N + 1) ≤ (N + 2) * (N + 1) := Nat.mul_le_mul_right _ (by omega)
      omega
    have hC2 : b.slots * b.relArchs ≤ (N + 2) * (N + 1) :=
      Nat.mul_le_mul (by omega) (by omega)
    have hsucc : (ops.length + 1 + 1) * ((N + 2) * (N + 1)) =
        (ops.length + 1) * ((N + 2) * (N + 1)) + (N + 2) * (N + 1) := Nat.succ_mul _ _
    rw [hsucc] at hT
    have hpos : 0 ≤ (ops.length + 1) * ((N + 2) * (N + 1)) := Nat.zero_le _
    cases op with
    | base o =>
      refine ⟨⟨by omega, by omega⟩, ?_⟩
      apply fits_of_length_gen N ops _ hx'
      · show b.relArchs + 1 + ops.length ≤ N; omega
      · show b.slots + 1 + ops.length ≤ N + 2; omega
      · show b.tables + 1 + b.relArchs + (ops.length + 1) * ((N + 2) * (N + 1)) + 1 ≤ maxU32; omega
      · exact hN
    | delb f frels =>
      refine ⟨⟨by omega, by omega⟩, ?_⟩
      apply fits_of_length_gen N ops _ hx'
      · show b.relArchs + ops.length ≤ N; omega
      · show b.slots + ops.length ≤ N + 2; omega
      · show b.tables + b.slots * b.relArchs + (ops.length + 1) * ((N + 2) * (N + 1)) + 1 ≤ maxU32
        omega
      · exact hN
    | setrelb p f frels rels =>
      have := hx _ List.mem_cons_self
      cases this
    | xchg p e add vals rem rels =>
      refine ⟨⟨by omega, by omega⟩, ?_⟩
      apply fits_of_length_gen N ops _ hx'
      · show b.relArchs + 1 + ops.length ≤ N; omega
      · show b.slots + 1 + ops.length ≤ N + 2; omega
      · show b.tables + 1 + b.relArchs + (ops.length + 1) * ((N + 2) * (N + 1)) + 1 ≤ maxU32; omega
      · exact hN
    | xchgb p f frels add rem rels =>
      have := hx _ List.mem_cons_self
      cases this

/-- **histories of fewer than `2^10` single operations and batch removals fit** -/
theorem fits_of_length (ops : List OpRB) (hx : ∀ op ∈ ops, op.doubles = false)
    (hlen : ops.length < 2 ^ 10) : Fits Budget.init ops := by
  apply fits_of_length_gen 1024 ops _ hx
  · show 0 + ops.length ≤ 1024; omega
  · show 2 + ops.length ≤ 1024 + 2; omega
  · show 1 + (ops.length + 1) * ((1024 + 2) * (1024 + 1)) + 1 ≤ maxU32
    have : (ops.length + 1) * ((1024 + 2) * (1024 + 1)) ≤ 1024 * ((1024 + 2) * (1024 + 1)) :=
      Nat.mul_le_mul_right _ (by omega)
    simp only [maxU32]
    omega
  · omega

end RelRefineB

end Ark
