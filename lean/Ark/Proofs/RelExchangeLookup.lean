/-
  Ark.Proofs.RelExchangeLookup — the exchange batch over relation tables (C06 + C04), part 1: the
  table lookup of `exchange` / `exchangeBatch` at table level, usable inside the lookup loop of the
  batch (where the targets of `rels` are not flagged yet).

  * `XchgPreM` — the preconditions of `Exchange` in terms of the mask of the source table
    (`XchgPre w e … ↔ XchgPreM w (w.maskOf e) …`);
  * `AddedRelU` / `RelInv.findOrCreateTableAddU` — `RelInv.findOrCreateTableAdd'` with the flag
    invariant weakened to `FlagsOKUpTo w rels0` (the loop invariant of the batch), `AddedRelU.frame`;
  * `XchgLooked` / `xchgLookup` — `findOrCreateTable t (mask of t) add rem rels` on a non-free table
    `t` never fails for valid arguments; the destination `d ≠ t` is a non-free table with the columns
    `xmask add rem (mask of t)`, and its relation columns hold: the targets of `t` on the components
    that stay, the given targets on the added relation components (`XchgLooked.targetAt_iff`).
  Kernel-only proofs, core Lean only.
-/
import Ark.Proofs.RelExchangeOp
import Ark.Proofs.BatchExchangeSpec

set_option autoImplicit false

namespace Ark

open World Ark.Props.C01World

/-! ## 1. the preconditions at mask level -/

/-- the preconditions of `Exchange(add, rem, rels)` on an entity whose archetype has the mask `m` -/
structure XchgPreM (w : World) (m : Mask) (add rem : List Comp) (rels : List RelID) : Prop where
  nonempty : ¬ (add = [] ∧ rem = [])
  remNodup : rem.Nodup
  remHas : ∀ (c : Comp), c ∈ rem → m.get c = true
  addNodup : add.Nodup
  addReg : ∀ (c : Comp), c ∈ add → c < w.kinds.length
  addNew : ∀ (c : Comp), c ∈ add → m.get c = false
  relsNodup : (rels.map (·.comp)).Nodup
  relsIn : ∀ (r : RelID), r ∈ rels → r.comp ∈ add
  relsRel : ∀ (r : RelID), r ∈ rels → w.isRelComp r.comp = true
  relsAll : ∀ (c : Comp), c ∈ add → w.isRelComp c = true → c ∈ rels.map (·.comp)
  targets : ∀ (r : RelID), r ∈ rels → r.target.isZero = true ∨ w.alive r.target = true

theorem XchgPre.toM {w : World} {e : Ent} {add rem : List Comp} {rels : List RelID}
    (h : XchgPre w e add rem rels) : XchgPreM w (w.maskOf e) add rem rels :=
  ⟨h.nonempty, h.remNodup, h.remHas, h.addNodup, h.addReg, h.addNew, h.relsNodup, h.relsIn,
    h.relsRel, h.relsAll, h.targets⟩

theorem XchgPreM.toPre {w : World} {e : Ent} {add rem : List Comp} {rels : List RelID}
    (h : XchgPreM w (w.maskOf e) add rem rels) : XchgPre w e add rem rels :=
  ⟨h.nonempty, h.remNodup, h.remHas, h.addNodup, h.addReg, h.addNew, h.relsNodup, h.relsIn,
    h.relsRel, h.relsAll, h.targets⟩

/-! ## 2. `findOrCreateTableAdd` while the flags are complete only up to `rels0` -/

/-- `AddedRel` with the flag invariant `FlagsOKUpTo w' rels0` -/
structure AddedRelU (w w' : World) (oldT : Nat) (rels rels0 : List RelID) (mask : Mask) (t a : Nat) :
    Prop where
  foc : FoundOrCreated w w' mask t a
  rel : RelInv w'
  flags : FlagsOKUpTo w' rels0
  freeEmpty : FreeEmpty w'
  untouched : Untouched w w'
  relArchs : w.relationArchetypes.length ≤ w'.relationArchetypes.length
  tgt : ∀ (r : RelID), r ∈ (w.tbl oldT).relIDs ++ rels → w.isRelComp r.comp = true →
    ∀ (i : Nat), (w'.tbl t).colIdx r.comp = some i →
      (w'.tbl t).isRel.getD i false = true ∧ (w'.tbl t).targets.getD i Ent.zero = r.target
  tkeep : t < w.tables.length → w'.tables[t]? = w.tables[t]? ∨ (w.tbl t).isFree = true
  tablesLen : w'.tables.length ≤ w.tables.length + 1

/-- `RelInv.findOrCreateTableAdd'` inside a loop that has not flagged the targets of `rels0` yet:
    every target handed to the lookup is flagged or a target of `rels0` -/
theorem RelInv.findOrCreateTableAddU {w w' : World} (hR : RelInv w) {rels0 : List RelID}
    (hF : FlagsOKUpTo w rels0) (hE : FreeEmpty w) {oldT : Nat} {startMask mask : Mask}
    {add : List Comp} {rels : List RelID} {t a : Nat}
    (hstart : ∀ (c : Nat), startMask.get c = true → c < w.kinds.length)
    (hreg : ∀ (c : Comp), c ∈ add → c < w.kinds.length)
    (hndall : (((w.tbl oldT).relIDs ++ rels).map (·.comp)).Nodup)
    (hsub : ∀ (r : RelID), r ∈ (w.tbl oldT).relIDs ++ rels → r.target.isZero = false →
      w.isTarget.getD r.target.id false = true ∨
        ∃ (r0 : RelID), r0 ∈ rels0 ∧ r0.target = r.target)
    (hok : World.findOrCreateTableAdd oldT startMask add rels w = .ok (t, a, mask) w') :
    mask = add.foldl Mask.set startMask ∧ AddedRelU w w' oldT rels rels0 mask t a := by
  obtain ⟨hmask, foc, hrinv'⟩ := hR.sinv.findOrCreateTableAdd_of_ok_rinv hR.rinv hstart hreg hok
  have hu := findOrCreateTableAdd_untouched hok
  have hlen := findOrCreateTableAdd_tables_len hok
  refine ⟨hmask, ?_⟩
  have hg : graphFindAdd startMask add w = .ok (add.foldl Mask.set startMask) w := by
    rcases graphFindAdd_cases startMask add w with hg | ⟨hg, _⟩
    · exact hg
    · simp only [World.findOrCreateTableAdd, bind, M.bind, hg] at hok; cases hok
  obtain ⟨a1, w1, ha, hmid, hset, halt, hmask1, hpre, hlen1, ht, hk, he, hp, hc1, hcase⟩ :=
    hR.sinv.findOrCreateArch (add.foldl Mask.set startMask) (Mask.get_foldl_set_reg hstart hreg)
  obtain ⟨_, rfl, hbr⟩ := findOrCreateTableAdd_ok_inv hg ha hok
  have hu1 := findOrCreateArch_untouched ha
  have aux1 : RelAux w1 := hR.aux.findOrCreateArch ha
  have hold1 : w1.tbl oldT = w.tbl oldT := by simp only [tbl, ht]
  have hflag1 : FlagsOKUpTo w1 rels0 := by
    intro t0 T0 hT0 hf i hi hz
    rw [ht] at hT0; rw [hu1.isTarget]; exact hF t0 T0 hT0 hf i hi hz
  have hfree1 : FreeEmpty w1 := by
    intro t0 T0 hT0 hf; rw [ht] at hT0; exact hE t0 T0 hT0 hf
  have hrc1 : ∀ (c : Comp), w1.isRelComp c = w.isRelComp c := fun c => by
    simp only [World.isRelComp, hk]
  have hra1 : w.relationArchetypes.length ≤ w1.relationArchetypes.length := by
    rcases hcase with ⟨_, rfl⟩ | ⟨hf, _, _⟩
    · exact Nat.le_refl _
    · have hh := ha
      unfold World.findOrCreateArch at hh
      rw [hf] at hh
      rw [createArchetype_eq] at hh
      injection hh with _ h2
      subst h2
      rw [createArchetypeW_relationArchetypes]
      split
      · simp
      · exact Nat.le_refl _
  rw [hold1] at hbr
  rcases hbr with ⟨hgt, rfl⟩ | ⟨hgt, hct⟩
  · -- an existing table
    refine
      { foc := foc, rel := ⟨foc.sinv, hrinv', aux1⟩, flags := hflag1, freeEmpty := hfree1,
        untouched := hu, relArchs := hra1, tgt := ?_, tkeep := fun _ => Or.inl (by rw [ht]),
        tablesLen := hlen }
    intro r hr hrc i hi
    have hTt := get_of_lt foc.tblLt
    have hcg := Table.colIdx_get hi
    have hrel : (w'.tbl t).isRel.getD i false = true := by
      obtain ⟨A, hA, e1, e2, _⟩ := foc.sinv.tblArch t _ hTt
      rw [e1] at hcg
      rw [e2, (foc.sinv.kindsOf _ A i r.comp hA hcg).1]
      rw [← hrc1] at hrc; exact hrc
    have hhas : (w'.arch a).hasRelations = true := by
      obtain ⟨A, hA, _, e2, _⟩ := foc.sinv.tblArch t _ hTt
      rw [foc.tblArch] at hA
      rw [arch_of_get hA]
      rw [e2] at hrel
      exact (foc.sinv.astruct _ A hA).hasRelations_of_rel hrel
    have hm := getTable_found hgt hhas
    rw [relsForAdd_eq] at hm
    exact (Table.matchesExact_yes hm).2 r hr i hi
  · -- a table created (or recycled)
    have hnr : (w1.arch a).hasRelations = false → (w1.arch a).tables.tables = [] := by
      intro hr
      rw [getTable_noRel _ hr] at hgt
      injection hgt with hgt _
      split at hgt
      · rename_i he
        exact List.isEmpty_iff.1 he
      · cases hgt
    have ct := hmid.createTable halt hnr hct
    rw [relsForAdd_eq] at ct hct
    have aux' : RelAux w' := aux1.created halt ct hct hmid hndall
    obtain ⟨hTt, hTa, hTr, hTf, hTg, hTi⟩ := ct.tbl
    have hu2 := createTable_untouched hct
    refine
      { foc := foc, rel := ⟨foc.sinv, hrinv', aux'⟩, flags := ?_, freeEmpty := hfree1.created ct,
        untouched := hu, relArchs := by rw [(createTable_frame hct).1]; exact hra1,
        tgt := ?_, tkeep := ?_, tablesLen := hlen }
    · apply hflag1.created ct hu2.isTarget
      intro r hr hz
      rw [hu1.isTarget]
      exact hsub r hr hz
    · intro r hr _ i hi
      have hex := aux'.rels t _ hTt hTf
      exact hex.col (ct.sinvMid.ids_nodup hTt) (by rw [hTr]; exact hr) hi
    · intro hlt
      rcases ct.kind with ⟨k1, _⟩ | ⟨_, _, _, k4, _⟩
      · rw [ht] at k1; omega
      · right
        have : w1.tbl t = w.tbl t := by simp only [tbl, ht]
        rw [← this]; exact k4

/-- the lookup frame: every entity reads the same values, components and targets afterwards -/
theorem AddedRelU.frame {w w' : World} {oldT : Nat} {rels rels0 : List RelID} {mask : Mask}
    {t a : Nat} (ar : AddedRelU w w' oldT rels rels0 mask t a) (hI : IdxInv w) (hE : FreeEmpty w)
    (j : Nat) : SameEnt w w' j ∧ ∀ (c : Comp), targetOf w' j c = targetOf w j c := by
  have he := ar.foc.entities
  cases hx : w.entities[j]? with
  | none =>
    exact ⟨same_of_entry (by rw [he]) (fun t r hh => by rw [hx] at hh; cases hh),
      fun c => by simp only [targetOf, he, hx]⟩
  | some p =>
    obtain ⟨tj, r⟩ := p
    by_cases ht : tj = maxU32
    · exact ⟨same_of_entry (by rw [he]) (fun t r hh => by rw [hx] at hh; cases hh; exact ht),
        fun c => by simp only [targetOf, he, hx, ht, if_true]⟩
    · obtain ⟨T, hT, hr, _⟩ := hI.idxRow j tj r hx ht
      have hlt := lt_of_get hT
      obtain ⟨r1, r2, r3, r4, r5, r6⟩ := ar.foc.rows tj hlt
      have hlt' : tj < w'.tables.length := Nat.lt_of_lt_of_le hlt ar.foc.tablesLen
      have hT' := get_of_lt hlt'
      have hTe := tbl_of_get hT
      constructor
      · refine same_of_rows hx (by rw [he]; exact hx) ht ht hT hT' (by rw [r5, hTe]) (fun i => ?_)
        simp only [Table.cell, r3, hTe]
      · intro c
        rw [targetOf_of_entry (by rw [he]; exact hx) ht hT', targetOf_of_entry hx ht hT]
        by_cases htt : tj = t
        · subst htt
          rcases ar.tkeep hlt with h1 | h1
          · rw [hT, hT'] at h1
            rw [Option.some.inj h1]
          · have := hE tj T hT (by rw [← hTe]; exact h1)
            omega
        · have := ar.foc.others tj hlt htt
          rw [hT, hT'] at this
          rw [Option.some.inj this]

/-! ## 3. the lookup of `exchange`, at table level -/

/-- the relations of table `T` on the components that stay under the mask `m` -/
def keptRels (T : Table) (m : Mask) : List RelID := T.relIDs.filter fun r => m.get r.comp

/-- What `findOrCreateTable oldT (mask of oldT) add rem rels` guarantees (`w` before, `w1` after,
    `t` the destination of archetype `a`). -/
structure XchgLooked (w w1 : World) (oldT : Nat) (add rem : List Comp) (rels : List RelID)
    (t a : Nat) : Prop where
  /-- the model's call -/
  call : findOrCreateTable oldT (tmask w oldT) add rem rels w =
    .ok (t, a, xmask add rem (tmask w oldT),
      xchgRelRemoved (w.tbl oldT) (xmask add rem (tmask w oldT)) rem) w1
  /-- … is the lookup tail from the root table -/
  root : findOrCreateTableAdd 0 (xmask add rem (tmask w oldT)) []
    (keptRels (w.tbl oldT) (xmask add rem (tmask w oldT)) ++ rels) w =
      .ok (t, a, xmask add rem (tmask w oldT)) w1
  ar : AddedRelU w w1 0 (keptRels (w.tbl oldT) (xmask add rem (tmask w oldT)) ++ rels) rels
    (xmask add rem (tmask w oldT)) t a
  mreg : ∀ (c : Nat), (xmask add rem (tmask w oldT)).get c = true → c < w.kinds.length
  ne : oldT ≠ t
  relArchs : w1.relationArchetypes.length ≤ w.relationArchetypes.length + 1
  /-- the columns of the destination -/
  idsEq : (w1.tbl t).ids = (xmask add rem (tmask w oldT)).toList w.kinds.length
  ids : ∀ (c : Comp), c ∈ (w1.tbl t).ids ↔
    (((tmask w oldT).get c = true ∧ c ∉ rem) ∨ c ∈ add)
  /-- **the relation columns of the destination**: the targets of the source on the components
      that stay, and the given targets -/
  targetAt_iff : ∀ (c : Comp) (x : Ent), (w1.tbl t).targetAt c = some x ↔
    ((c ∉ rem ∧ (w.tbl oldT).targetAt c = some x) ∨ (⟨c, x⟩ : RelID) ∈ rels)

/-- **the table lookup of `exchange` never fails for valid arguments** — `oldT` a non-free table,
    `XchgPreM` on its mask — also inside the lookup loop of the batch (`FlagsOKUpTo w rels`) -/
theorem xchgLookup {w : World} (hR : RelInv w) {rels : List RelID} (hF : FlagsOKUpTo w rels)
    (hE : FreeEmpty w) (hk256 : w.kinds.length ≤ 256) {oldT : Nat} (hlt : oldT < w.tables.length)
    (hTf : (w.tbl oldT).isFree = false) {add rem : List Comp}
    (hp : XchgPreM w (tmask w oldT) add rem rels) :
    ∃ (t a : Nat) (w1 : World), XchgLooked w w1 oldT add rem rels t a := by
  obtain ⟨hne, hrnd, hpres, hand, hreg, hnew, hrelnd, hin, hrc, hall, hval⟩ := hp
  have hT := get_of_lt hlt
  have hSS := hR.sinv
  have hS := hSS.toSInvMid
  obtain ⟨A, hA, i1, i2, i3, _⟩ := hS.tblArch oldT _ hT
  have hAe := arch_of_get hA
  have hTex := hR.aux.rels oldT _ hT hTf
  have htm : tmask w oldT = A.mask := by simp only [tmask, hAe]
  have hb256 : ∀ (c : Comp), c ∈ add → c < 256 := fun c hc => Nat.lt_of_lt_of_le (hreg c hc) hk256
  have holdIds : ∀ (c : Comp), c ∈ (w.tbl oldT).ids ↔ A.mask.get c = true := by
    intro c; rw [i1]; exact hS.mem_comps hA c
  have hpres' : ∀ (c : Comp), c ∈ rem → A.mask.get c = true :=
    fun c hc => by rw [← htm]; exact hpres c hc
  have hnew' : ∀ (c : Comp), c ∈ add → A.mask.get c = false :=
    fun c hc => by rw [← htm]; exact hnew c hc
  have hg := graphFind_ok (tmask w oldT) add rem w hb256 hrnd hpres hand hnew
  -- the mask after the walk, abstractly
  obtain ⟨m, hm⟩ : ∃ (m : Mask), m = xmask add rem (tmask w oldT) := ⟨_, rfl⟩
  have hg' : graphFind (tmask w oldT) (tmask w oldT) add rem w = .ok m w := by rw [hm]; exact hg
  have mget : ∀ (c : Comp), m.get c =
      ((A.mask.get c && !decide (c ∈ rem)) || (decide (c < 256) && decide (c ∈ add))) := by
    intro c; rw [hm, xmask_get, htm]
  have mgetP : ∀ (c : Comp), m.get c = true ↔ ((A.mask.get c = true ∧ c ∉ rem) ∨ c ∈ add) := by
    intro c
    rw [mget]
    constructor
    · intro hh
      simp only [Bool.or_eq_true, Bool.and_eq_true, Bool.not_eq_true', decide_eq_false_iff_not,
        decide_eq_true_eq] at hh
      rcases hh with k | k
      · exact Or.inl k
      · exact Or.inr k.2
    · rintro (k | k)
      · simp [k.1, k.2]
      · simp [hb256 c k, k]
  have hroot : (w.tbl 0).relIDs = [] :=
    hS.relIDs_nil (get_of_lt hSS.root.1) (by rw [hSS.root.2.1]; exact hS.root_noRel)
  have hmreg : ∀ (c : Nat), m.get c = true → c < w.kinds.length := by
    intro c hc
    rcases (mgetP c).1 hc with k | k
    · exact hS.maskReg _ A hA c k.1
    · exact hreg c k
  have hom : ∀ (r : RelID), r ∈ (w.tbl oldT).relIDs → A.mask.get r.comp = true := by
    intro r hr
    obtain ⟨i, hi, _⟩ := hS.relCols oldT _ hT r hr
    exact (hS.mem_comps hA r.comp).1 (by rw [← i1]; exact List.mem_of_getElem? hi)
  have hkeptMem : ∀ (r : RelID), r ∈ keptRels (w.tbl oldT) m ↔
      r ∈ (w.tbl oldT).relIDs ∧ m.get r.comp = true := by
    intro r; simp only [keptRels, List.mem_filter]
  have hxr : xchgRels (w.tbl oldT) m rem rels = keptRels (w.tbl oldT) m ++ rels := by
    apply xchgRels_eq
    intro hre r hr
    rw [mget, hom r hr, hre]; rfl
  have hndL : ((keptRels (w.tbl oldT) m ++ rels).map (·.comp)).Nodup := by
    rw [List.map_append, List.nodup_append]
    refine ⟨(hTex.nodup).sublist (List.Sublist.map _ List.filter_sublist), hrelnd, ?_⟩
    intro c hc1 c' hc2 heq
    obtain ⟨r1, hr1, rfl⟩ := List.mem_map.1 hc1
    obtain ⟨r2, hr2, rfl⟩ := List.mem_map.1 hc2
    have k1 := hom r1 ((hkeptMem r1).1 hr1).1
    have k2 := hnew' r2.comp (hin r2 hr2)
    rw [← heq, k1] at k2; cases k2
  -- the lookup succeeds
  obtain ⟨a, w1', ha', ht', hlook⟩ := hR.lookup_total hmreg
    (L := keptRels (w.tbl oldT) m ++ rels)
    (by
      intro r hr
      rcases List.mem_append.1 hr with k | k
      · exact ((hkeptMem r).1 k).2
      · exact (mgetP r.comp).2 (Or.inr (hin r k)))
    (by
      intro c hc hrel
      rw [List.map_append, List.mem_append]
      rcases (mgetP c).1 hc with k | k
      · left
        have hc0 : c ∈ (w.tbl oldT).ids := (holdIds c).2 k.1
        obtain ⟨j, hj⟩ := List.getElem?_of_mem hc0
        have hjr : (w.tbl oldT).isRel.getD j false = true := by
          have hj' := hj
          rw [i1] at hj'
          rw [i2, (hS.kindsOf _ A j c hA hj').1]; exact hrel
        exact List.mem_map.2 ⟨_, (hkeptMem _).2 ⟨hTex.complete j c hj hjr, hc⟩, rfl⟩
      · exact Or.inr (hall c k hrel))
    hndL
    (by
      intro r hr
      rcases List.mem_append.1 hr with k | k
      · obtain ⟨i, k1, k2, k3⟩ := hTex.sound r ((hkeptMem r).1 k).1
        refine ⟨hS.isRelComp_of_col hT k1 k2, ?_⟩
        rw [← k3]; exact hR.aux.targets oldT _ hT hTf i k2
      · exact ⟨hrc r k, hval r k⟩)
  have hrf : relsForAdd (w1'.tbl 0) (keptRels (w.tbl oldT) m ++ rels) =
      keptRels (w.tbl oldT) m ++ rels := by
    have : w1'.tbl 0 = w.tbl 0 := by simp only [tbl, ht']
    rw [this, relsForAdd_eq, hroot, List.nil_append]
  obtain ⟨t, w1, hadd⟩ : ∃ (t : Nat) (w1 : World),
      findOrCreateTableAdd 0 m [] (keptRels (w.tbl oldT) m ++ rels) w = .ok (t, a, m) w1 := by
    rcases hlook with ⟨t, hres⟩ | ⟨hres, t, w', hct⟩
    · exact ⟨t, w1', by
        simp only [World.findOrCreateTableAdd, bind, M.bind, graphFindAdd, graphFindAdd.go, ha',
          M.get, hrf, hres, pure, M.pure]⟩
    · exact ⟨t, w', by
        simp only [World.findOrCreateTableAdd, bind, M.bind, graphFindAdd, graphFindAdd.go, ha',
          M.get, hrf, hres, hct, pure, M.pure]⟩
  have hf : findOrCreateTable oldT (tmask w oldT) add rem rels w =
      .ok (t, a, m, xchgRelRemoved (w.tbl oldT) m rem) w1 := by
    rw [findOrCreateTable_eq_add_rel oldT _ _ add rem rels w hg' hroot, hxr, hadd]
  -- what the lookup guarantees
  obtain ⟨_, ar⟩ := hR.findOrCreateTableAddU hF hE (rels0 := rels) hmreg
    (fun c hc => by cases hc)
    (by rw [hroot, List.nil_append]; exact hndL)
    (by
      intro r hr hz
      rw [hroot, List.nil_append] at hr
      rcases List.mem_append.1 hr with k | k
      · obtain ⟨j, _, k2, k3⟩ := hTex.sound r ((hkeptMem r).1 k).1
        rw [← k3] at hz ⊢
        exact hF oldT _ hT hTf j k2 hz
      · exact Or.inr ⟨r, k, rfl⟩) hadd
  have hra := findOrCreateTableAdd_relArchs hSS hmreg (fun c hc => by cases hc) hadd
  have foc := ar.foc
  have hne' : oldT ≠ t := by
    refine Ne.symm (foc.ne_old hSS hlt ?_)
    rw [hAe]
    intro heq
    cases hadd' : add with
    | cons c rest =>
      have hc : c ∈ add := by rw [hadd']; exact List.mem_cons_self
      have k1 := (mgetP c).2 (Or.inr hc)
      rw [heq, hnew' c hc] at k1; cases k1
    | nil =>
      cases hrem' : rem with
      | nil => exact hne ⟨hadd', hrem'⟩
      | cons c rest =>
        have hc : c ∈ rem := by rw [hrem']; exact List.mem_cons_self
        have k1 := hpres' c hc
        rw [← heq] at k1
        rcases (mgetP c).1 k1 with k | k
        · exact k.2 hc
        · rw [hadd'] at k; cases k
  have hTt := get_of_lt foc.tblLt
  have hrc1 : ∀ (c : Comp), w1.isRelComp c = w.isRelComp c := fun c => by
    simp only [World.isRelComp, foc.kinds]
  have hnewIds : ∀ (c : Comp), c ∈ (w1.tbl t).ids ↔ ((A.mask.get c = true ∧ c ∉ rem) ∨ c ∈ add) := by
    intro c
    rw [foc.tblIds, Mask.mem_toList, ← mgetP]
    exact ⟨fun hh => hh.2, fun hh => ⟨hmreg c hh, hh⟩⟩
  have hcolOf : ∀ (r : RelID), r ∈ keptRels (w.tbl oldT) m ++ rels → w.isRelComp r.comp = true →
      ∀ (j : Nat), (w1.tbl t).colIdx r.comp = some j →
        (w1.tbl t).isRel.getD j false = true ∧ (w1.tbl t).targets.getD j Ent.zero = r.target := by
    intro r hr hrcr j hj
    exact ar.tgt r (by rw [hroot, List.nil_append]; exact hr) hrcr j hj
  -- a target of the source table is the target of a listed relation
  have holdTgt : ∀ (c : Comp) (x : Ent), (w.tbl oldT).targetAt c = some x →
      ∃ (i : Nat), (w.tbl oldT).colIdx c = some i ∧ (w.tbl oldT).isRel.getD i false = true ∧
        (w.tbl oldT).targets.getD i Ent.zero = x := by
    intro c x hx
    simp only [Table.targetAt] at hx
    cases hci : (w.tbl oldT).colIdx c with
    | none => rw [hci] at hx; cases hx
    | some i =>
      rw [hci] at hx
      simp only [Option.bind_some] at hx
      split at hx
      · rename_i hir
        exact ⟨i, rfl, hir, Option.some.inj hx⟩
      · cases hx
  subst hm
  refine ⟨t, a, w1,
    { call := hf, root := hadd, ar := ar, mreg := hmreg, ne := hne', relArchs := hra,
      idsEq := foc.tblIds, ids := fun c => by rw [hnewIds, htm], targetAt_iff := ?_ }⟩
  intro c x
  constructor
  · intro hx
    simp only [Table.targetAt] at hx
    cases hcj : (w1.tbl t).colIdx c with
    | none => rw [hcj] at hx; cases hx
    | some j =>
      rw [hcj] at hx
      simp only [Option.bind_some] at hx
      split at hx
      · rename_i hjr
        have hxj : (w1.tbl t).targets.getD j Ent.zero = x := Option.some.inj hx
        have hrcc : w.isRelComp c = true := by
          rw [← hrc1]; exact foc.sinv.toSInvMid.isRelComp_of_col hTt (Table.colIdx_get hcj) hjr
        have hcnew : c ∈ (w1.tbl t).ids := colIdx_some_iff_mem.1 ⟨j, hcj⟩
        rcases (hnewIds c).1 hcnew with k | k
        · left
          refine ⟨k.2, ?_⟩
          have hc0 : c ∈ (w.tbl oldT).ids := (holdIds c).2 k.1
          obtain ⟨i, hi⟩ := colIdx_some_iff_mem.mpr hc0
          have hi' := Table.colIdx_get hi
          have hir : (w.tbl oldT).isRel.getD i false = true := by
            have hi'' := hi'
            rw [i1] at hi''
            rw [i2, (hS.kindsOf _ A i c hA hi'').1]; exact hrcc
          have hmem := hTex.complete i c hi' hir
          have hmc : (xmask add rem (tmask w oldT)).get c = true := (mgetP c).2 (Or.inl k)
          obtain ⟨_, k3⟩ := hcolOf ⟨c, (w.tbl oldT).targets.getD i Ent.zero⟩
            (List.mem_append_left _ ((hkeptMem _).2 ⟨hmem, hmc⟩)) hrcc j hcj
          rw [Table.targetAt_of_col hi hir, ← hxj, k3]
        · right
          obtain ⟨r, hr, hrc'⟩ := List.mem_map.1 (hall c k hrcc)
          obtain ⟨_, k3⟩ := hcolOf r (List.mem_append_right _ hr) (hrc r hr) j
            (by rw [hrc']; exact hcj)
          have : r = ⟨c, x⟩ := by
            cases r with
            | mk rc rt =>
              simp only at hrc' k3
              rw [hrc', ← hxj, k3]
          rw [← this]; exact hr
      · cases hx
  · rintro (⟨hnr, hx⟩ | hr)
    · obtain ⟨i, hci, hir, hxi⟩ := holdTgt c x hx
      have hmem := hTex.complete i c (Table.colIdx_get hci) hir
      rw [hxi] at hmem
      have hrcc : w.isRelComp c = true := hS.isRelComp_of_col hT (Table.colIdx_get hci) hir
      have hcold : c ∈ (w.tbl oldT).ids := colIdx_some_iff_mem.1 ⟨i, hci⟩
      have hmaskc : (xmask add rem (tmask w oldT)).get c = true :=
        (mgetP c).2 (Or.inl ⟨(holdIds c).1 hcold, hnr⟩)
      have hcnew : c ∈ (w1.tbl t).ids := (hnewIds c).2 (Or.inl ⟨(holdIds c).1 hcold, hnr⟩)
      obtain ⟨j, hj⟩ := colIdx_some_iff_mem.mpr hcnew
      obtain ⟨k2, k3⟩ := hcolOf ⟨c, x⟩
        (List.mem_append_left _ ((hkeptMem _).2 ⟨hmem, hmaskc⟩)) hrcc j hj
      rw [Table.targetAt_of_col hj k2, k3]
    · have hc : c ∈ (w1.tbl t).ids := (hnewIds c).2 (Or.inr (hin _ hr))
      obtain ⟨j, hj⟩ := colIdx_some_iff_mem.mpr hc
      obtain ⟨k2, k3⟩ := hcolOf ⟨c, x⟩ (List.mem_append_right _ hr) (hrc _ hr) j hj
      rw [Table.targetAt_of_col hj k2, k3]

end Ark
