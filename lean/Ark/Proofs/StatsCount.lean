/-
  Ark.Proofs.StatsCount — property C19 over whole histories, part 2: the figures agree with the
  actual contents of a reachable world.

  At every state `s` of the history machine that satisfies the invariant `Refine.HInv s fl`
  (world `s.w`, handles issued `s.issued`, specification `s.ss.ents : handle ↦ component ↦ value`):

  * `HInv.used_eq` — `pool.Len()` = number of specification entries;
  * `HInv.alive_count` — … = number of issued handles that are alive;
  * `HInv.table_count` — the length of table `t` = number of specification entries indexed to `t`;
  * `HInv.arch_count` — the `size` of archetype `a` = number of specification entries whose
    (sorted) component set is the component list of `a`;
  * `HInv.sum_arch_sizes` — Σ archetype sizes = number of specification entries;
  * `HInv.total`, `HInv.table_le`, the one-table shape of every archetype entry, memory figures.

  Kernel-only proofs, core Lean only.
-/
import Ark.Proofs.StatsHist
import Ark.Proofs.QueryExact

set_option autoImplicit false

namespace Ark

open World Ark.Props.C01World

/-! ## 0. counting with lists -/

theorem length_eq_of_nodup_ext {α : Type} {l₁ l₂ : List α} (h₁ : l₁.Nodup) (h₂ : l₂.Nodup)
    (h : ∀ (a : α), a ∈ l₁ ↔ a ∈ l₂) : l₁.length = l₂.length :=
  ((List.perm_ext_iff_of_nodup h₁ h₂).mpr h).length_eq

/-- the classes of a function into a duplicate-free key list partition a list -/
theorem sum_filter_partition {α κ : Type} [DecidableEq κ] (g : α → κ) :
    ∀ (ks : List κ), ks.Nodup → ∀ (L : List α), (∀ (x : α), x ∈ L → g x ∈ ks) →
      (ks.map fun k => (L.filter fun x => decide (g x = k)).length).sum = L.length := by
  intro ks
  induction ks with
  | nil =>
    intro _ L h
    cases L with
    | nil => rfl
    | cons x xs => exact absurd (h x (by simp)) (by simp)
  | cons k ks ih =>
    intro hnd L h
    obtain ⟨hk, hnd'⟩ := List.nodup_cons.mp hnd
    have hrest := ih hnd' (L.filter fun x => !decide (g x = k)) (by
      intro x hx
      obtain ⟨hxL, hne⟩ := List.mem_filter.mp hx
      have hne' : g x ≠ k := by simpa using hne
      rcases List.mem_cons.mp (h x hxL) with e | e
      · exact absurd e hne'
      · exact e)
    have hsame : (ks.map fun k' => ((L.filter fun x => !decide (g x = k)).filter
        fun x => decide (g x = k')).length) =
        (ks.map fun k' => (L.filter fun x => decide (g x = k')).length) := by
      apply List.map_congr_left
      intro k' hk'
      rw [List.filter_filter]
      congr 1
      apply List.filter_congr
      intro x _
      have hkk : k' ≠ k := fun e => hk (e ▸ hk')
      by_cases hx : g x = k'
      · simp [hx, hkk]
      · simp [hx]
    rw [hsame] at hrest
    simp only [List.map_cons, List.sum_cons, hrest]
    have hsplit : ∀ (L : List α), (L.filter fun x => decide (g x = k)).length +
        (L.filter fun x => !decide (g x = k)).length = L.length := by
      intro L
      induction L with
      | nil => rfl
      | cons x xs ihx =>
        by_cases hx : g x = k
        · simp [hx]; omega
        · simp [hx]; omega
    exact hsplit L

theorem sum_map_single {α : Type} (f : α → Nat) (x : α) : ([x].map f).sum = f x := by simp

namespace Refine

variable {s : St} {fl : List Nat}

/-! ## 1. the pool: used = specification entries = alive issued handles -/

/-- `entityPool.Len()` is the number of specification entries -/
theorem HInv.used_eq (H : HInv s fl) : s.w.pool.len = s.ss.ents.length := by
  have hcount := H.ginv.count
  have havail := H.cinv.pool.avail
  simp only [St.ps, List.length_map] at hcount
  simp only [Pool.len, Pool.reserved]
  omega

/-- `used + recycled = total` -/
theorem HInv.total_eq (H : HInv s fl) : s.w.pool.len + s.w.pool.available = s.w.pool.cap := by
  have hcount := H.ginv.count
  have havail := H.cinv.pool.avail
  simp only [St.ps, List.length_map] at hcount
  simp only [Pool.len, Pool.cap, Pool.reserved]
  omega

/-- the alive issued handles are exactly the handles of the specification -/
theorem HInv.alive_count (H : HInv s fl) :
    (s.issued.filter fun e => s.w.alive e).length = s.ss.ents.length := by
  have h1 : (s.issued.filter fun e => s.w.alive e).Nodup := List.Pairwise.filter _ H.nodup
  have h2 : (s.ss.ents.map (·.1)).Nodup := H.ginv.live_nodup
  rw [length_eq_of_nodup_ext h1 h2, List.length_map]
  intro e
  rw [List.mem_filter]
  constructor
  · rintro ⟨hi, ha⟩
    exact (Pool.alive_iff_live s.ps fl H.ginv e hi).mp ha
  · intro hl
    have hi := H.ginv.live_issued e hl
    exact ⟨hi, (Pool.alive_iff_live s.ps fl H.ginv e hi).mpr hl⟩

/-! ## 2. tables: rows ↔ specification entries -/

/-- the IDs of the specification entries are pairwise different -/
theorem HInv.ids_nodup (H : HInv s fl) : (s.ss.ents.map fun x => x.1.id).Nodup := by
  refine QueryExact.nodup_map_of_nodup_map s.ss.ents (·.1) (fun x => x.1.id) H.ginv.live_nodup ?_
  intro a ha b hb hid
  exact H.id_inj (cs := a.2) (cs' := b.2) ha hb hid

/-- where a specification entry lives -/
theorem HInv.entry_row (H : HInv s fl) {e : Ent} {cs : Comps} (hm : (e, cs) ∈ s.ss.ents) :
    ∃ (t r : Nat), s.w.entities[e.id]? = some (t, r) ∧ t ≠ maxU32 ∧ t < s.w.tables.length ∧
      r < (s.w.tbl t).len ∧ ((s.w.tbl t).getEntity r).id = e.id ∧
      (s.w.tbl t).arch < s.w.archetypes.length ∧
      sortedIds s.w.kinds.length (keys cs) = (s.w.arch (s.w.tbl t).arch).comps := by
  obtain ⟨_, ha, h2, hnf, _, hsl⟩ := H.live_facts hm
  obtain ⟨t, r, hentry, htm, _⟩ :=
    H.cinv.live_entry h2 hnf ha (List.getElem?_eq_some_iff.mp hsl).1
  obtain ⟨hTlt, hr, hid, halt, _, _⟩ := H.cinv.table_of_entry hentry htm
  refine ⟨t, r, hentry, htm, hTlt, hr, hid, halt, ?_⟩
  have hT := get_of_lt hTlt
  obtain ⟨A, hA, e1, _⟩ := H.cinv.sinv.tblArch t _ hT
  have hco := (H.ok e cs hm).comps
  simp only [compsOf, hentry, htm, if_false, hT, Option.map_some, Option.some.injEq] at hco
  rw [← hco, e1, arch_of_get hA]

/-- **the length of table `t` is the number of specification entries indexed to `t`** -/
theorem HInv.table_count (H : HInv s fl) {t : Nat} (ht : t < s.w.tables.length) :
    (s.w.tbl t).len = (s.ss.ents.filter fun x => decide ((s.w.index x.1.id).1 = t)).length := by
  have hc := H.cinv
  have hrow := fun (r : Nat) (hr : r < (s.w.tbl t).len) => hc.row_live_id ht hr
  -- the IDs stored in the rows of `t`
  have h1 : ((List.range (s.w.tbl t).len).map fun r => ((s.w.tbl t).getEntity r).id).Nodup := by
    rw [List.Nodup, List.pairwise_map]
    refine List.Pairwise.imp_of_mem ?_ (List.nodup_range (n := (s.w.tbl t).len))
    intro a b ha hb hab heq
    obtain ⟨_, _, _, ea⟩ := hrow a (List.mem_range.mp ha)
    obtain ⟨_, _, _, eb⟩ := hrow b (List.mem_range.mp hb)
    rw [heq, eb] at ea
    exact hab (Prod.mk.inj (Option.some.inj ea)).2.symm
  have h2 : ((s.ss.ents.filter fun x => decide ((s.w.index x.1.id).1 = t)).map
      fun x => x.1.id).Nodup :=
    List.Nodup.sublist (List.Sublist.map _ List.filter_sublist) H.ids_nodup
  have := length_eq_of_nodup_ext h1 h2 (by
    intro i
    simp only [List.mem_map, List.mem_range, List.mem_filter, decide_eq_true_eq]
    constructor
    · rintro ⟨r, hr, rfl⟩
      obtain ⟨r2, rnf, rlt, rix⟩ := hrow r hr
      -- the handle in the pool slot of this ID is live
      have hplt : ((s.w.tbl t).getEntity r).id < s.w.pool.ents.length := by
        rw [← hc.lenEq]; exact rlt
      have hslot := List.getElem?_eq_getElem hplt
      have hself := hc.pool.self _ _ hslot rnf
      have hlive : s.w.pool.ents[((s.w.tbl t).getEntity r).id] ∈ s.ps.live :=
        (H.ginv.live_iff _).mpr ⟨by rw [hself]; exact r2, by rw [hself]; exact rnf,
          by rw [hself]; exact hslot⟩
      obtain ⟨x, hx, hx1⟩ := List.mem_map.mp hlive
      refine ⟨x, ⟨hx, ?_⟩, ?_⟩
      · rw [hx1, hself, index_of_get rix]
      · rw [hx1, hself]
    · rintro ⟨x, ⟨hx, hxt⟩, rfl⟩
      obtain ⟨t', r, hentry, _, _, hr, hid, _⟩ := H.entry_row (e := x.1) (cs := x.2) hx
      rw [index_of_get hentry] at hxt
      simp only at hxt
      subst hxt
      exact ⟨r, hr, hid⟩)
  simpa only [List.length_map, List.length_range] using this

/-! ## 3. archetypes -/

/-- the component set the specification records for an entry, as the world lists it -/
def specComps (s : St) (x : Ent × Comps) : List Comp := sortedIds s.ss.zst.length (keys x.2)

/-- an entry is indexed to THE table of archetype `a` iff its component set is that of `a` -/
theorem HInv.in_table_iff (H : HInv s fl) {a t : Nat} (ha : a < s.w.archetypes.length)
    (hts : (s.w.arch a).tables.tables = [t]) (hta : (s.w.tbl t).arch = a)
    {x : Ent × Comps} (hx : x ∈ s.ss.ents) :
    (s.w.index x.1.id).1 = t ↔ specComps s x = (s.w.arch a).comps := by
  obtain ⟨t', r, hentry, _, hTlt, _, _, halt, hco⟩ := H.entry_row (e := x.1) (cs := x.2) hx
  rw [index_of_get hentry, specComps, H.zlen, hco]
  simp only
  constructor
  · intro e; subst e; rw [hta]
  · intro e
    have : (s.w.tbl t').arch = a :=
      H.cinv.sinv.toSInvMid.archetype_comps_unique halt ha e
    have hf := (H.cinv.table_is_first hTlt).2
    rw [this, hts] at hf
    simpa using hf.symm

/-- **the `size` of archetype `a`** (as `archetype.Stats` reports it) is the number of
    specification entries whose component set is the component list of `a` -/
theorem HInv.arch_count (H : HInv s fl) {a : Nat} (ha : a < s.w.archetypes.length) :
    (s.w.archStatsFresh (s.w.arch a)).size =
      (s.ss.ents.filter fun x => decide (specComps s x = (s.w.arch a).comps)).length := by
  obtain ⟨t, hts, htl, hta⟩ := H.cinv.oneTable ha
  rw [fresh_size, hts, sum_map_single, H.table_count htl]
  congr 1
  apply List.filter_congr
  intro x hx
  exact decide_eq_decide.mpr (H.in_table_iff ha hts hta hx)

/-- the component lists of the archetypes: no two are equal -/
theorem HInv.comps_nodup (H : HInv s fl) : (s.w.archetypes.map (·.comps)).Nodup := by
  rw [List.Nodup, List.pairwise_map, List.pairwise_iff_getElem]
  intro i j hi hj hij heq
  have := H.cinv.sinv.toSInvMid.archetype_comps_unique (w := s.w) hi hj (by
    rw [arch_of_get (List.getElem?_eq_getElem hi), arch_of_get (List.getElem?_eq_getElem hj)]
    exact heq)
  omega

/-- the component set of every specification entry is the component list of an archetype -/
theorem HInv.specComps_mem (H : HInv s fl) {x : Ent × Comps} (hx : x ∈ s.ss.ents) :
    specComps s x ∈ s.w.archetypes.map (·.comps) := by
  obtain ⟨t', r, _, _, _, _, _, halt, hco⟩ := H.entry_row (e := x.1) (cs := x.2) hx
  rw [specComps, H.zlen, hco]
  exact List.mem_map.mpr ⟨_, List.mem_of_getElem? (aget_of_lt halt), rfl⟩

/-- **Σ archetype sizes = number of specification entries** -/
theorem HInv.sum_arch_sizes (H : HInv s fl) :
    ((s.w.archetypes.map s.w.archStatsFresh).map (·.size)).sum = s.ss.ents.length := by
  have hp := sum_filter_partition (specComps s) (s.w.archetypes.map (·.comps)) H.comps_nodup
    s.ss.ents (fun x hx => H.specComps_mem hx)
  rw [← hp, List.map_map, List.map_map]
  congr 1
  apply List.map_congr_left
  intro A hA
  obtain ⟨a, haA⟩ := List.getElem?_of_mem hA
  have ha : a < s.w.archetypes.length := (List.getElem?_eq_some_iff.mp haA).1
  have := H.arch_count ha
  rw [arch_of_get haA] at this
  simpa only [Function.comp] using this

end Refine

/-! ## 4. the figures `Stats()` reports agree with the contents -/

namespace StatsHist

open Refine CacheHist

/-- **what C19 demands of the statistics `st` reported at the state `s`** of the history machine
    (`s.w` the world, `s.issued` the handles handed out so far, `s.ss.ents` the specification:
    alive handle ↦ component ↦ value, `s.ss.zst` the registered component types). -/
structure Agree (s : St) (st : WorldStats) : Prop where
  /-- `used` = number of specification entries … -/
  used_spec : st.used = s.ss.ents.length
  /-- … = number of issued handles that are alive … -/
  used_alive : st.used = (s.issued.filter fun e => s.w.alive e).length
  /-- … = Σ archetype sizes … -/
  used_archs : st.used = (st.archetypes.map (·.size)).sum
  /-- … = Σ table sizes -/
  used_tables : st.used = ((st.archetypes.flatMap (·.tables)).map (·.size)).sum
  /-- `total = used + recycled` -/
  total : st.total = st.used + st.recycled
  /-- one archetype entry per archetype of the world -/
  arch_len : st.archetypes.length = s.w.archetypes.length
  /-- per archetype: `size` = number of specification entries with exactly its component set -/
  arch_size : ∀ (a : ArchStats), a ∈ st.archetypes →
    a.size = (s.ss.ents.filter fun x => decide (specComps s x = a.componentIDs)).length
  /-- no two archetype entries have the same component list -/
  arch_unique : ∀ (i j : Nat) (a b : ArchStats), st.archetypes[i]? = some a →
    st.archetypes[j]? = some b → a.componentIDs = b.componentIDs → i = j
  /-- the component set of every entity is the component list of an archetype entry -/
  arch_complete : ∀ (x : Ent × Comps), x ∈ s.ss.ents →
    ∃ (a : ArchStats), a ∈ st.archetypes ∧ a.componentIDs = specComps s x
  /-- the component lists name registered components -/
  arch_reg : ∀ (a : ArchStats), a ∈ st.archetypes → ∀ (c : Comp), c ∈ a.componentIDs →
    c < s.ss.zst.length
  /-- in the relation-free fragment every archetype has one table for ever, no free table and no
      relation column; the archetype figures are those of the table -/
  arch_shape : ∀ (a : ArchStats), a ∈ st.archetypes → ∃ (t : TableStats), a.tables = [t] ∧
    t.size = a.size ∧ t.capacity = a.capacity ∧ a.freeTables = 0 ∧ a.numRelations = 0
  /-- every table: `size ≤ capacity` -/
  table_le : ∀ (a : ArchStats), a ∈ st.archetypes → ∀ (t : TableStats), t ∈ a.tables →
    t.size ≤ t.capacity
  /-- memory per entity: 8 bytes for the handle plus the registered sizes of the components -/
  mpe : ∀ (a : ArchStats), a ∈ st.archetypes →
    a.memoryPerEntity = 8 + (a.componentIDs.map fun c => (s.w.kinds.getD c {}).size).sum
  arch_memory : ∀ (a : ArchStats), a ∈ st.archetypes →
    a.memory = a.memoryPerEntity * a.capacity ∧ a.memoryUsed = a.memoryPerEntity * a.size
  table_memory : ∀ (a : ArchStats), a ∈ st.archetypes → ∀ (t : TableStats), t ∈ a.tables →
    t.memory = t.capacity * a.memoryPerEntity ∧ t.memoryUsed = t.size * a.memoryPerEntity
  memory : st.memory = (st.archetypes.map (·.memory)).sum ∧
    st.memoryUsed = (st.archetypes.map (·.memoryUsed)).sum ∧ st.memoryUsed ≤ st.memory
  /-- filter, observer, lock and registry figures -/
  cachedFilters : st.cachedFilters = s.w.cache.filters.length
  observers : st.observers = 0
  locked : st.locked = false
  numComponents : st.numComponents = s.ss.zst.length

/-- every table of every archetype satisfies `len ≤ cap` -/
theorem tables_le {s : St} {fl : List Nat} (H : HInv s fl) (A : Archetype)
    (_hA : A ∈ s.w.archetypes) (t : Nat) (_ht : t ∈ A.tables.tables) :
    (s.w.tbl t).len ≤ (s.w.tbl t).cap :=
  (IdxInv_tbl_shape H.cinv.idx t).len_le

/-- **the fresh statistics of a state satisfying the invariant agree with its contents** -/
theorem agree_fresh {s : St} {fl : List Nat} (H : HInv3 s fl) : Agree s (statsFresh s.w) := by
  have HB := H.base.base
  have hc := HB.cinv
  -- an archetype entry is the fresh statistics of the archetype at its position
  have entry : ∀ (a : ArchStats), a ∈ (statsFresh s.w).archetypes →
      ∃ (i : Nat), i < s.w.archetypes.length ∧ a = s.w.archStatsFresh (s.w.arch i) := by
    intro a ha
    rw [world_archetypes] at ha
    obtain ⟨A, hA, rfl⟩ := List.mem_map.mp ha
    obtain ⟨i, hi⟩ := List.getElem?_of_mem hA
    exact ⟨i, (List.getElem?_eq_some_iff.mp hi).1, by rw [arch_of_get hi]⟩
  have shape : ∀ (i : Nat), i < s.w.archetypes.length →
      ∃ (t : Nat), (s.w.arch i).tables.tables = [t] ∧ (s.w.arch i).freeTables = [] ∧
        (s.w.arch i).numRel = 0 := by
    intro i hi
    obtain ⟨t, hts, _, _⟩ := hc.oneTable hi
    have hnr := hc.noRelArch' hi
    refine ⟨t, hts, (hc.sinv.nonRelLe _ _ (aget_of_lt hi) hnr).2, ?_⟩
    simpa [Archetype.hasRelations] using hnr
  have hused : (statsFresh s.w).used = s.ss.ents.length := HB.used_eq
  have hsum : ((statsFresh s.w).archetypes.map (·.size)).sum = s.ss.ents.length := by
    rw [world_archetypes]; exact HB.sum_arch_sizes
  refine
    { used_spec := hused
      used_alive := hused.trans HB.alive_count.symm
      used_archs := hused.trans hsum.symm
      used_tables := ?_
      total := ?_
      arch_len := by rw [world_archetypes, List.length_map]
      arch_size := ?_
      arch_unique := ?_
      arch_complete := ?_
      arch_reg := ?_
      arch_shape := ?_
      table_le := ?_
      mpe := ?_
      arch_memory := ?_
      table_memory := ?_
      memory := ⟨World.world_memory s.w, World.world_memoryUsed s.w,
        World.world_memoryUsed_le s.w (tables_le HB)⟩
      cachedFilters := rfl
      observers := H.obs0
      locked := HB.unlocked
      numComponents := HB.zlen.symm }
  · -- Σ table sizes: every archetype entry has exactly one table entry, of its size
    rw [hused, ← hsum]
    have : ∀ (l : List ArchStats), (∀ (a : ArchStats), a ∈ l → ∃ (t : TableStats),
        a.tables = [t] ∧ t.size = a.size) →
        ((l.flatMap (·.tables)).map (·.size)).sum = (l.map (·.size)).sum := by
      intro l
      induction l with
      | nil => intro _; rfl
      | cons a l ih =>
        intro h
        obtain ⟨t, h1, h2⟩ := h a (by simp)
        have ih' := ih (fun b hb => h b (by simp [hb]))
        simp only [List.flatMap_cons, List.map_append, List.sum_append, List.map_cons,
          List.sum_cons, h1, List.map_nil, List.sum_nil, h2, ih']
        omega
    refine (this _ ?_).symm
    intro a ha
    obtain ⟨i, hi, rfl⟩ := entry a ha
    obtain ⟨t, hts, _, _⟩ := shape i hi
    refine ⟨tableStats (s.w.tbl t) (s.w.memPerEntity (s.w.arch i)), ?_, ?_⟩
    · rw [fresh_tables, hts]; rfl
    · rw [fresh_size, hts]; simp [tableStats]
  · show s.w.pool.cap = s.w.pool.len + s.w.pool.available
    exact HB.total_eq.symm
  · intro a ha
    obtain ⟨i, hi, rfl⟩ := entry a ha
    exact HB.arch_count hi
  · intro i j a b hi hj hab
    rw [world_archetypes, List.getElem?_map] at hi hj
    cases hAi : s.w.archetypes[i]? with
    | none => rw [hAi] at hi; cases hi
    | some Ai =>
      cases hAj : s.w.archetypes[j]? with
      | none => rw [hAj] at hj; cases hj
      | some Aj =>
        rw [hAi] at hi; rw [hAj] at hj
        cases hi; cases hj
        have := hc.sinv.toSInvMid.archetype_comps_unique (w := s.w)
          (List.getElem?_eq_some_iff.mp hAi).1 (List.getElem?_eq_some_iff.mp hAj).1
          (by rw [arch_of_get hAi, arch_of_get hAj]; exact hab)
        exact this
  · intro x hx
    have := HB.specComps_mem hx
    obtain ⟨A, hA, hAc⟩ := List.mem_map.mp this
    refine ⟨s.w.archStatsFresh A, ?_, hAc⟩
    rw [world_archetypes]; exact List.mem_map.mpr ⟨A, hA, rfl⟩
  · intro a ha c hcm
    obtain ⟨i, hi, rfl⟩ := entry a ha
    rw [HB.zlen]
    exact hc.sinv.toSInvMid.comps_lt (List.mem_of_getElem? (aget_of_lt hi)) hcm
  · intro a ha
    obtain ⟨i, hi, rfl⟩ := entry a ha
    obtain ⟨t, hts, hfree, hnr⟩ := shape i hi
    refine ⟨tableStats (s.w.tbl t) (s.w.memPerEntity (s.w.arch i)), ?_, ?_, ?_, ?_, hnr⟩
    · rw [fresh_tables, hts]; rfl
    · rw [fresh_size, hts]; simp [tableStats]
    · rw [fresh_capacity, hts, hfree]; simp [tableStats]
    · show (s.w.arch i).freeTables.length = 0
      rw [hfree]; rfl
  · intro a ha t ht
    obtain ⟨i, hi, rfl⟩ := entry a ha
    exact fresh_table_size_le s.w _
      (tables_le HB _ (List.mem_of_getElem? (aget_of_lt hi))) t ht
  · intro a ha
    obtain ⟨i, hi, rfl⟩ := entry a ha
    exact World.memPerEntity_eq s.w _
  · intro a ha
    obtain ⟨i, hi, rfl⟩ := entry a ha
    exact ⟨fresh_memory s.w _, fresh_memoryUsed s.w _⟩
  · intro a ha t ht
    obtain ⟨i, hi, rfl⟩ := entry a ha
    exact fresh_table_entry s.w _ t ht

/-- **C19 at every reachable state**: the statistics `Stats()` returns after any history of
    entity operations, filter operations and earlier `Stats()` calls are the fresh statistics of
    the world, and they agree with the contents. -/
theorem reach3_agree (run : ProbeRunner) (cap rel : Nat) (ops : List Op3)
    (hlen : ops.length < 2 ^ 32 - 2) :
    ∃ (st : WorldStats),
      opStats (reach3 run cap rel ops).w =
        .ok st { (reach3 run cap rel ops).w with stats := st } ∧
      st = statsFresh (reach3 run cap rel ops).w ∧
      Agree (reach3 run cap rel ops) st := by
  obtain ⟨fl, H⟩ := reach3_inv run cap rel ops hlen
  exact ⟨_, opStats_eq _ H.compat, rfl, agree_fresh H⟩

end StatsHist

end Ark
