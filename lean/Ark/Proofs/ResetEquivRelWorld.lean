/-
  Ark.Proofs.ResetEquivRelWorld — what the simulation relation `RelRefine2.Sim` of
  `Ark/Proofs/ResetEquivRel.lean` means for the model worlds, and the main theorem of
  `Ark/Proofs/ResetEquivRelHist.lean` on the worlds:

  * `HInv.observe_id` — what one state says about one entity ID, in terms of the specification,
    the pool slice and the free list only;
  * `Sim.observe` — two related states satisfying the invariant agree on the component set, on
    every component value and on every relation target of EVERY entity ID, on `Alive` of every
    handle whose generation is not the sentinel `maxU32` (or whose ID lies inside the pool slice),
    on the free list and on the next handle;
  * `reset_equiv_rel_worlds` — all of this for the states reached by `pre ++ [reset] ++ post` and
    by `regsOf2 pre ++ post`; `reset_equiv_rel_prefix` — `Sim` after every prefix of `post`;
  * decidability of `TraceEq` (for checking concrete histories).

  Kernel-only proofs, core Lean only.
-/
import Ark.Proofs.ResetEquivRelHist

set_option autoImplicit false

namespace Ark

open World Ark.Props.C01World

namespace RelRefine2

open QueryRel QueryExact RelRefine
open Refine (Outcome outcome Reserved2 keys sortedIds)

/-! ## 1. one entity ID -/

theorem unindexed_reads {w : World} {i r : Nat} (h : w.entities[i]? = some (maxU32, r)) :
    compsOf w i = none ∧ (∀ (c : Comp), valOf w i c = none) ∧ ∀ (c : Comp), targetOf w i c = none := by
  refine ⟨?_, fun c => ?_, fun c => ?_⟩
  · simp only [compsOf, h, if_true]
  · simp only [valOf, h, if_true]
  · simp only [targetOf, h, if_true]

theorem beyond_reads {w : World} {i : Nat} (h : w.entities.length ≤ i) :
    compsOf w i = none ∧ (∀ (c : Comp), valOf w i c = none) ∧ ∀ (c : Comp), targetOf w i c = none := by
  refine ⟨?_, fun c => ?_, fun c => ?_⟩
  · simp only [compsOf, List.getElem?_eq_none h]
  · simp only [valOf, List.getElem?_eq_none h]
  · simp only [targetOf, List.getElem?_eq_none h]

/-- what one state says about one ID, in terms of the specification, the pool slice and the free
    list only -/
theorem _root_.Ark.RelRefine.HInv.observe_id {s : St} {fl : List Nat} (H : HInv s fl) (i : Nat) :
    ((i < 2 ∨ s.w.pool.ents.length ≤ i ∨ i ∈ fl) →
      compsOf s.w i = none ∧ (∀ (c : Comp), valOf s.w i c = none) ∧
        ∀ (c : Comp), targetOf s.w i c = none) ∧
    (2 ≤ i → i < s.w.pool.ents.length → i ∉ fl →
      ∃ (e : Ent) (en : Entry), s.w.pool.ents[i]? = some e ∧ e.id = i ∧ (e, en) ∈ s.ss.ents) := by
  have L := H.tinv.link
  constructor
  · rintro (h | h | h)
    · obtain ⟨r, hr⟩ := L.reservedUnindexed i h
      exact unindexed_reads hr
    · exact beyond_reads (by rw [L.lenEq]; exact h)
    · obtain ⟨r, hr⟩ := L.freeUnindexed i h
      exact unindexed_reads hr
  · intro h2 hlt hnf
    have hsl : s.w.pool.ents[i]? = some (s.w.pool.ents[i]'hlt) := List.getElem?_eq_getElem hlt
    have hid := L.pool.self i _ hsl hnf
    have hl : (s.w.pool.ents[i]'hlt) ∈ s.ps.live :=
      (H.ginv.live_iff _).mpr ⟨by rw [hid]; exact h2, by rw [hid]; exact hnf, by rw [hid]; exact hsl⟩
    obtain ⟨x, hx, hxe⟩ := List.mem_map.mp hl
    exact ⟨_, x.2, hsl, hid, by rw [← hxe]; exact hx⟩

/-! ## 2. `Sim` on the model worlds -/

/-- **`Sim` on the model worlds**: two states related by `Sim` that satisfy the invariant agree
    * on the component set, on every component value and on every relation target of EVERY entity
      ID (through the entity index: `compsOf`, `valOf`, `targetOf`),
    * on `Alive` of every handle whose generation is not the sentinel `maxU32` (in particular of
      every issued handle), and of every handle whose ID lies inside the pool slice,
    * on the free list, the number of index slots and the next handle. -/
theorem Sim.observe {L : List Nat} {s1 s2 : St} {fl1 fl2 : List Nat} (S : Sim L s1 s2)
    (H1 : HInv2 s1 fl1) (H2 : HInv2 s2 fl2) :
    fl1 = fl2 ∧ s1.w.entities.length = s2.w.entities.length ∧
    (s1.w.pool.get).2 = (s2.w.pool.get).2 ∧
    (∀ (i : Nat), compsOf s1.w i = compsOf s2.w i ∧
      (∀ (c : Comp), valOf s1.w i c = valOf s2.w i c) ∧
      ∀ (c : Comp), targetOf s1.w i c = targetOf s2.w i c) ∧
    (∀ (h : Ent), h.gen ≠ maxU32 ∨ h.id < s1.w.pool.ents.length → s1.w.alive h = s2.w.alive h) := by
  obtain ⟨hents, _, _⟩ := Pool.core_eq_iff.mp S.core
  have L1 := H1.base.tinv.link
  have L2 := H2.base.tinv.link
  have hfl : fl1 = fl2 := (Refine.PInv.of_core L1.pool S.core).unique L2.pool
  subst hfl
  have hlen : s1.w.entities.length = s2.w.entities.length := by
    rw [L1.lenEq, L2.lenEq, hents]
  refine ⟨rfl, hlen, (Pool.get_core S.core).1, ?_, ?_⟩
  · intro i
    obtain ⟨n1, l1⟩ := H1.base.observe_id i
    obtain ⟨n2, l2⟩ := H2.base.observe_id i
    by_cases hc : i < 2 ∨ s1.w.pool.ents.length ≤ i ∨ i ∈ fl1
    · obtain ⟨a1, b1, c1⟩ := n1 hc
      obtain ⟨a2, b2, c2⟩ := n2 (by rw [← hents]; exact hc)
      exact ⟨a1.trans a2.symm, fun c => (b1 c).trans (b2 c).symm, fun c => (c1 c).trans (c2 c).symm⟩
    · have h2 : 2 ≤ i := by omega
      have hlt : i < s1.w.pool.ents.length := by omega
      have hnf : i ∉ fl1 := fun h => hc (Or.inr (Or.inr h))
      obtain ⟨e, en, hsl, hid, hm⟩ := l1 h2 hlt hnf
      have := spec_reads_agree H1.base H2.base S.ss S.kinds hm
      rw [hid] at this
      exact this
  · intro h hh
    by_cases hlt : h.id < s1.w.pool.ents.length
    · exact Pool.alive_core S.core h hlt
    · have hg : h.gen ≠ maxU32 := by
        rcases hh with hg | hlt'
        · exact hg
        · exact absurd hlt' hlt
      have dead : ∀ {w : World} {fl : List Nat}, PLink w fl → w.pool.ents.length ≤ h.id →
          w.alive h = false := by
        intro w fl C hle
        show w.pool.alive h = false
        simp only [Pool.alive]
        rw [List.getElem?_append_right hle]
        cases hs : w.pool.stale[h.id - w.pool.ents.length]? with
        | none => rfl
        | some x =>
          have := C.stale x (List.mem_of_getElem? hs)
          simp only [this]
          exact beq_false_of_ne (fun hh' => hg hh'.symm)
      rw [dead L1 (by omega), dead L2 (by rw [← hents]; omega)]

/-! ## 3. the main theorem, on the worlds -/

/-- … and the two runs are related after every prefix of `post` -/
theorem reset_equiv_rel_prefix (run1 run2 : ProbeRunner) (cap rel cap' rel' : Nat)
    (pre post : List Op2) (hlen : pre.length + 1 + post.length < 2 ^ 16) (n : Nat) :
    Sim (labels2 run1 [] (reach2 run1 cap rel (pre ++ [.reset])) (post.take n))
      (reach2 run1 cap rel (pre ++ [.reset] ++ post.take n))
      (reach2 run2 cap' rel' (regsOf2 pre ++ post.take n)) := by
  have : (post.take n).length ≤ post.length := by
    rw [List.length_take]; exact Nat.min_le_right _ _
  exact (reset_equiv_rel run1 run2 cap rel cap' rel' pre (post.take n) (by omega)).2

/-- **C16 with relation components, on the model worlds**: with `A` the state after
    `pre ++ [reset] ++ post` and `B` the state after `regsOf2 pre ++ post` on a new world,
    * the specification, the issued handles and the registry are equal;
    * the next handle a creation would return is the same;
    * for EVERY entity ID the component set, all component values and all relation targets agree;
    * `Alive` agrees for every issued handle, and for every handle whatsoever whose generation is
      not the sentinel `maxU32`. -/
theorem reset_equiv_rel_worlds (run1 run2 : ProbeRunner) (cap rel cap' rel' : Nat)
    (pre post : List Op2) (hlen : pre.length + 1 + post.length < 2 ^ 16) :
    (reach2 run1 cap rel (pre ++ [.reset] ++ post)).ss =
      (reach2 run2 cap' rel' (regsOf2 pre ++ post)).ss ∧
    (reach2 run1 cap rel (pre ++ [.reset] ++ post)).issued =
      (reach2 run2 cap' rel' (regsOf2 pre ++ post)).issued ∧
    (reach2 run1 cap rel (pre ++ [.reset] ++ post)).w.kinds =
      (reach2 run2 cap' rel' (regsOf2 pre ++ post)).w.kinds ∧
    ((reach2 run1 cap rel (pre ++ [.reset] ++ post)).w.pool.get).2 =
      ((reach2 run2 cap' rel' (regsOf2 pre ++ post)).w.pool.get).2 ∧
    (∀ (i : Nat),
      compsOf (reach2 run1 cap rel (pre ++ [.reset] ++ post)).w i =
        compsOf (reach2 run2 cap' rel' (regsOf2 pre ++ post)).w i ∧
      (∀ (c : Comp), valOf (reach2 run1 cap rel (pre ++ [.reset] ++ post)).w i c =
        valOf (reach2 run2 cap' rel' (regsOf2 pre ++ post)).w i c) ∧
      ∀ (c : Comp), targetOf (reach2 run1 cap rel (pre ++ [.reset] ++ post)).w i c =
        targetOf (reach2 run2 cap' rel' (regsOf2 pre ++ post)).w i c) ∧
    (∀ (h : Ent), h ∈ (reach2 run1 cap rel (pre ++ [.reset] ++ post)).issued →
      (reach2 run1 cap rel (pre ++ [.reset] ++ post)).w.alive h =
        (reach2 run2 cap' rel' (regsOf2 pre ++ post)).w.alive h) ∧
    (∀ (h : Ent), h.gen ≠ maxU32 →
      (reach2 run1 cap rel (pre ++ [.reset] ++ post)).w.alive h =
        (reach2 run2 cap' rel' (regsOf2 pre ++ post)).w.alive h) := by
  have hl1 : (pre ++ [Op2.reset] ++ post).length = pre.length + 1 + post.length := by
    simp only [List.length_append, List.length_singleton]
  have hl2 : (regsOf2 pre ++ post).length ≤ pre.length + post.length := by
    have := regsOf2_length_le pre
    simp only [List.length_append]; omega
  obtain ⟨fl1, H1⟩ := reach2_inv run1 cap rel (pre ++ [.reset] ++ post) (by omega)
  obtain ⟨fl2, H2⟩ := reach2_inv run2 cap' rel' (regsOf2 pre ++ post) (by omega)
  have S := (reset_equiv_rel run1 run2 cap rel cap' rel' pre post hlen).2
  obtain ⟨_, _, hnext, hobs, hal⟩ := S.observe H1 H2
  refine ⟨S.ss, S.issued, S.kinds, hnext, hobs, ?_, fun h hg => hal h (Or.inl hg)⟩
  intro h hi
  exact hal h (Or.inr (H1.base.issued_in hi))

/-! ## 4. deciding `TraceEq` on concrete traces -/

instance QOut.decEquiv : (a b : QOut) → Decidable (a.Equiv b)
  | .rejected a, .rejected b => inferInstanceAs (Decidable (a = b))
  | .visited a, .visited b => inferInstanceAs (Decidable (a.Perm b))
  | .rejected _, .visited _ => isFalse (fun h => h)
  | .visited _, .rejected _ => isFalse (fun h => h)

instance Out.decEquiv : (a b : Out) → Decidable (a.Equiv b)
  | .call a, .call b => inferInstanceAs (Decidable (a = b))
  | .done, .done => isTrue trivial
  | .query a, .query b => inferInstanceAs (Decidable (a.Equiv b))
  | .call _, .done => isFalse (fun h => h)
  | .call _, .query _ => isFalse (fun h => h)
  | .done, .call _ => isFalse (fun h => h)
  | .done, .query _ => isFalse (fun h => h)
  | .query _, .call _ => isFalse (fun h => h)
  | .query _, .done => isFalse (fun h => h)

instance decOutEq : (a b : Option Out) → Decidable (OutEq a b)
  | none, none => isTrue trivial
  | some a, some b => inferInstanceAs (Decidable (a.Equiv b))
  | none, some _ => isFalse (fun h => h)
  | some _, none => isFalse (fun h => h)

instance decTraceEq : (a b : List (Option Out)) → Decidable (TraceEq a b)
  | [], [] => isTrue trivial
  | a :: as, b :: bs =>
    match decOutEq a b, decTraceEq as bs with
    | isTrue h1, isTrue h2 => isTrue ⟨h1, h2⟩
    | isFalse h1, _ => isFalse (fun h => h1 h.1)
    | _, isFalse h2 => isFalse (fun h => h2 h.2)
  | [], _ :: _ => isFalse (fun h => h)
  | _ :: _, [] => isFalse (fun h => h)

/-! ## 5. reading a trace -/

theorem TraceEq.length_eq : ∀ {a b : List (Option Out)}, TraceEq a b → a.length = b.length
  | [], [], _ => rfl
  | _ :: as, _ :: bs, h => by
    simp only [List.length_cons]
    rw [TraceEq.length_eq (a := as) (b := bs) h.2]
  | [], _ :: _, h => h.elim
  | _ :: _, [], h => h.elim

/-- position by position the two traces show equivalent outputs -/
theorem TraceEq.get : ∀ {a b : List (Option Out)}, TraceEq a b → ∀ (n : Nat) (h1 : n < a.length)
    (h2 : n < b.length), OutEq a[n] b[n]
  | [], _, _, _, h1, _ => by cases h1
  | _ :: _, [], h, _, _, _ => h.elim
  | _ :: as, _ :: bs, h, 0, _, _ => h.1
  | _ :: as, _ :: bs, h, n + 1, h1, h2 => by
    simp only [List.getElem_cons_succ]
    exact TraceEq.get (a := as) (b := bs) h.2 n _ _

/-- the `n`-th entry of the trace is what the client sees of the `n`-th operation, executed on
    the state reached by the first `n` operations, with the filter labels usable then -/
theorem trace2_get (run : ProbeRunner) (ops : List Op2) : ∀ (L : List Nat) (s : St) (n : Nat),
    (trace2 run L s ops)[n]? = (ops[n]?).map fun op =>
      stepOut2 run (labels2 run L s (ops.take n)) (runOps2 run s (ops.take n)) op := by
  induction ops with
  | nil => intro L s n; rfl
  | cons op ops ih =>
    intro L s n
    cases n with
    | zero => rfl
    | succ n =>
      simp only [trace2, List.getElem?_cons_succ, List.take_succ_cons]
      rw [ih (labelsAfter L s op) (step2 run s op) n]
      rfl

end RelRefine2

end Ark
