/-
  Ark.Proofs.RelRefineBatchSetMore — world-level facts about `SetRelationsBatch` that the
  refinement machine needs beyond `SetRelAllPost` (Ark/Proofs/BatchRelSetSpec.lean):

  * `prepLoop_relArchs` — the lookup loop creates tables, never archetypes;
  * `setRelationsBatch_rel_more` — a valid `setRelationsBatch` keeps the entity pool, the mask
    width and the list of relation archetypes, and at most doubles the number of tables (it
    creates at most one table per selected table);
  * `opSetRelationsBatch_ok_eq`, `opSetRelationsBatch_refused`, `opSetRelationsBatch_noRelations`
    — the entry point with the pre-validation of the relation arguments: a list that passes is
    handed to `setRelationsBatch`; a list that fails (a removed entity as target, a component that
    is not a relation component) and the empty list are refused with the world unchanged.

  Kernel-only proofs, core Lean only.
-/
import Ark.Proofs.BatchRelReach
import Ark.Proofs.CallbacksRel
import Ark.Proofs.RelRejects

set_option autoImplicit false

namespace Ark

open World Ark.Props.C01World QueryRel

namespace World

/-! ## the lookup loop creates no archetype -/

theorem getOrCreate_relArchs {a : Nat} {rels : List RelID} {w w' : World} {t : Nat}
    (h : getOrCreate a rels w = .ok t w') : w'.relationArchetypes = w.relationArchetypes := by
  simp only [getOrCreate, bind, M.bind] at h
  cases hg : getTable a rels w with
  | panic k s => rw [hg] at h; cases h
  | ok r s =>
    have hs : s = w := getTable_ok_state hg
    subst hs
    rw [hg] at h
    cases r with
    | some t0 =>
      simp only [pure, M.pure] at h
      injection h with _ hw
      rw [← hw]
    | none => exact (createTable_frame h).1

theorem prepareRelationsMove_relArchs {t n : Nat} {rels : List RelID} {w w' : World}
    {o : Option RelMove} (h : prepareRelationsMove t n rels w = .ok o w') :
    w'.relationArchetypes = w.relationArchetypes := by
  rw [prepareRelationsMove_eq] at h
  have hst := getExchangeTargets_state (w.tbl t) rels w
  cases hx : getExchangeTargets (w.tbl t) rels w with
  | panic k s => rw [hx] at h; cases h
  | ok r s =>
    rw [hx] at hst h
    have hs : s = w := hst
    subst hs
    obtain ⟨newRels, changed, cm⟩ := r
    cases changed with
    | false =>
      simp only [Bool.false_eq_true, if_false] at h
      injection h with _ hw
      rw [← hw]
    | true =>
      simp only [if_true] at h
      cases hg : getOrCreate (s.tbl t).arch newRels s with
      | panic k s' => rw [hg] at h; cases h
      | ok nt s' =>
        rw [hg] at h
        injection h with _ hw
        rw [← hw]
        exact getOrCreate_relArchs hg

theorem prepLoop_relArchs (rels : List RelID) : ∀ (ts : List Nat) (s : List RelMove) (w : World)
    {s' : List RelMove} {w' : World}, prepLoop rels ts s w = .ok s' w' →
    w'.relationArchetypes = w.relationArchetypes
  | [], s, w, s', w', h => by
    simp only [prepLoop, pure, M.pure] at h
    injection h with _ hw
    rw [← hw]
  | t :: ts, s, w, s', w', h => by
    simp only [prepLoop] at h
    split at h
    · exact prepLoop_relArchs rels ts s w h
    · cases hp : prepareRelationsMove t (w.tbl t).len rels w with
      | panic k w1 => rw [hp] at h; cases h
      | ok o w1 =>
        rw [hp] at h
        have h1 := prepareRelationsMove_relArchs hp
        cases o with
        | none => exact (prepLoop_relArchs rels ts s w1 h).trans h1
        | some mv => exact (prepLoop_relArchs rels ts (s ++ [mv]) w1 h).trans h1

end World

/-! ## what `SetRelAllPost` does not mention -/

/-- what a valid `setRelationsBatch` does to the fields `SetRelAllPost` does not mention -/
structure SetRelAllMore (w w' : World) : Prop where
  pool : w'.pool = w.pool
  maxComps : w'.maxComps = w.maxComps
  relArchs : w'.relationArchetypes = w.relationArchetypes
  tablesLen : w'.tables.length ≤ 2 * w.tables.length

/-- **a valid `setRelationsBatch`** (hypotheses of `setRelationsBatch_rel_spec`) keeps the entity
    pool, the mask width and the relation archetypes, and creates at most one table per table -/
theorem setRelationsBatch_rel_more (run : ProbeRunner) {w : World} {fl : List Nat} (h : TInv w fl)
    (hl : w.isLocked = false) (hno : ∀ (evt : Nat), w.obs.hasObservers evt = false)
    (fo : FilterObj) (extra : List RelID) (hc : fo.cache = none)
    (hr : RelsTyped w fo.filter (fo.rels ++ extra)) {rels : List RelID}
    (hne : rels.isEmpty = false) (hnd : (rels.map (·.comp)).Nodup)
    (hcols : ∀ (t : Nat), t < w.tables.length → TblMatch w fo.filter (fo.rels ++ extra) t →
      (w.tbl t).len ≠ 0 → RelCols (w.tbl t) rels)
    (hval : ∀ (r : RelID), r ∈ rels → r.target.isZero = true ∨ w.alive r.target = true)
    {l1 l2 : Lock} {b : Nat} (hcyc : QueryExact.LockCycle w.locks l1 b l2)
    (hfew : 2 * w.tables.length ≤ maxU32) (hrows : 2 * w.entities.length < 2 ^ 32)
    {w' : World} (hok : setRelationsBatch run fo extra rels false w = .ok () w') :
    SetRelAllMore w w' := by
  have h0 : TInv ({ w with locks := l1 } : World) fl := h.withLocks l1
  obtain ⟨ts, hts0, S0, hok0, hnf0⟩ := getBatchTables_rel h0 fo extra hc hr
  have hsel : ∀ (t : Nat), t ∈ ts → t < ({ w with locks := l1 } : World).tables.length ∧
      (({ w with locks := l1 } : World).tbl t).isFree = false ∧
      ((({ w with locks := l1 } : World).tbl t).len ≠ 0 →
        RelCols (({ w with locks := l1 } : World).tbl t) rels) := by
    intro t ht
    exact ⟨S0.lt t ht, hnf0 t ht, fun hlen => hcols t (S0.lt t ht) (hok0.sound t ht).2 hlen⟩
  have hinit : PrepInv rels ({ w with locks := l1 } : World) [] [] ({ w with locks := l1 } : World) :=
    { rel := h0.rel, idx := h0.link.idx, flags := h0.flags.upTo rels, freeEmpty := h0.freeEmpty
      qk := QKeep.refl _, entities := rfl, pool := rfl, isTarget := rfl, kinds := rfl, obs := rfl
      locks := rfl, maxComps := rfl, keepT := fun _ _ _ => rfl, tablesLe := Nat.le_refl _
      lenB := Nat.le_refl _, frame := fun _ => ⟨⟨fun _ => rfl, rfl⟩, fun _ => rfl⟩
      moves := fun _ hm => by cases hm
      srcNodup := List.nodup_nil
      srcDone := fun _ hm => by cases hm
      covered := fun _ hm => by cases hm }
  obtain ⟨moves, w1, hprep, hP⟩ := prepLoop_spec h0.freeEmpty hnd hval ts [] [] _ hinit S0.nodup
    (fun _ _ hm => by cases hm) hsel
  have hno1 : ∀ (evt : Nat), w1.obs.hasObservers evt = false := by
    intro evt; rw [hP.obs]; exact hno evt
  have heq := setRelationsBatch_eq run fo extra rels w hl hne hcyc.lock hts0 hprep hno1
  have hmlen : moves.length ≤ w.tables.length := by
    have := BatchRel.nodup_length_le_of_lt hP.srcNodup (n := w.tables.length) (by
      intro i hi
      obtain ⟨mv, hm, rfl⟩ := List.mem_map.1 hi
      exact (hP.moves mv hm).srcLt)
    rwa [List.length_map] at this
  have hlenB : w1.tables.length ≤ w.tables.length + moves.length := by
    have := hP.lenB
    have e : ({ w with locks := l1 } : World).tables.length = w.tables.length := rfl
    omega
  have hfew1 : w1.tables.length ≤ maxU32 := by omega
  have hrows1 : 2 * w1.entities.length < 2 ^ 32 := by rw [hP.entities]; exact hrows
  have hM := moveLoop_spec hnd h0.rel.aux.rels h0.freeEmpty hP.keepT hP.idx hfew1 hrows1 moves
    hP.moves hP.srcNodup moves [] w1 rfl
    { idx := hP.idx, ms := MetaStep.refl w1, qk := QKeep.refl w1, freeEmpty := hP.freeEmpty
      pool := rfl, isTarget := rfl, obs := rfl, locks := rfl, maxComps := rfl
      idxSame := IdxSame.refl w1, same := fun _ => ⟨fun _ => rfl, rfl⟩
      srcKeep := fun _ _ => rfl
      entKeep := fun _ _ _ hj _ => hj
      tgtKeep := fun _ _ _ => rfl
      tgtMoved := fun _ _ _ _ _ hm => by cases hm }
  have hlocks : (registerW (moves.foldl moveStepR w1) rels).locks.unlock b = some l2 := by
    show (moves.foldl moveStepR w1).locks.unlock b = some l2
    rw [hM.locks, hP.locks]; exact hcyc.unlock
  rw [unlock_ok hlocks] at heq
  rw [heq] at hok
  injection hok with _ hw
  subst hw
  exact
    { pool := by
        show (moves.foldl moveStepR w1).pool = w.pool
        rw [hM.pool, hP.pool]
      maxComps := by
        show (moves.foldl moveStepR w1).maxComps = w.maxComps
        rw [hM.maxComps, hP.maxComps]
      relArchs := by
        show (moves.foldl moveStepR w1).relationArchetypes = w.relationArchetypes
        rw [hM.ms.relationArchetypes, prepLoop_relArchs rels ts [] _ hprep]
      tablesLen := by
        show (moves.foldl moveStepR w1).tables.length ≤ 2 * w.tables.length
        rw [hM.ms.len]; omega }

/-! ## the entry point: pre-validation, then the batch -/

namespace World

/-- a relation list that passes the pre-validation is handed to `setRelationsBatch` -/
theorem opSetRelationsBatch_ok_eq (run : ProbeRunner) (p : Path) (fo : FilterObj)
    (extra : List RelID) (mapperIds : List Comp) (rels : List RelID) (w : World)
    (h : relsVerdict w (checkMask p mapperIds) rels = none) :
    opSetRelationsBatch run p fo extra mapperIds rels false w =
      setRelationsBatch run fo extra rels false w := by
  have hpre : preCheck p mapperIds rels w = .ok () w := by rw [preCheck_eq, h]
  simp only [opSetRelationsBatch, bind, M.bind, hpre]

/-- a relation list that fails the pre-validation is refused before anything is touched -/
theorem opSetRelationsBatch_refused (run : ProbeRunner) (p : Path) (fo : FilterObj)
    (extra : List RelID) (mapperIds : List Comp) (rels : List RelID) (w : World) {k : PanicKind}
    (h : relsVerdict w (checkMask p mapperIds) rels = some k) :
    opSetRelationsBatch run p fo extra mapperIds rels false w = .panic k w := by
  have hpre : preCheck p mapperIds rels w = .panic k w := by rw [preCheck_eq, h]
  simp only [opSetRelationsBatch, bind, M.bind, hpre]

/-- the empty relation list is refused (`noRelations`) before anything is touched -/
theorem opSetRelationsBatch_noRelations (run : ProbeRunner) (p : Path) (fo : FilterObj)
    (extra : List RelID) (w : World) (hl : w.isLocked = false) :
    opSetRelationsBatch run p fo extra [] [] false w = .panic .noRelations w := by
  have hpre : preCheck p [] [] w = .ok () w := preCheck_nil_apply p [] w
  simp only [opSetRelationsBatch, bind, M.bind, hpre, setRelationsBatch, checkLocked_unlocked w hl,
    M.assert, List.isEmpty_nil, Bool.not_true, Bool.false_eq_true, if_false]

end World

end Ark
