/-
  Ark.Proofs.RefineCore — operation-level specifications for the non-relation, observer-free
  fragment WITH components (sections 0–9 of what used to be one file, Ark/Proofs/Refine.lean):
  `Add`, `Remove`, `NewEntity(ids…)`, `NewEntity()`, `RemoveEntity`, `Set`, `registerComponent`.
  The history machine built on these is in Ark/Proofs/Refine.lean; further operations
  (`Exchange`, `CopyEntity`, `Shrink`, `Reset`) are specified in Ark/Proofs/RefineOps.lean.

  * `CInv w fl` — the joint invariant of the fragment: `WInv` without the one-table field `tab0`,
    plus the structural invariant `SInv`, plus "no registered component is a relation"
    (`noRelKinds`; `CInv.noRelArch`: no archetype has a relation column) and the registry bound
    (`kinds.length ≤ maxComps ≤ 256`).  `cinv_init`, `CInv.transfer`, `CInv.row_live_id`.
    Unlike `WInv`, `CInv` does NOT demand `pool.stale = []` (the memory `Reset` keeps behind the
    pool slice): it only holds invalidated handles (`CInv.stale`).  A "live handle" is therefore
    given by four facts: `2 ≤ e.id`, `e.id ∉ fl`, `w.alive e = true` and
    `e.id < w.pool.ents.length` (the ID lies inside the slice; §1b: `Pool.alive_of_lt`,
    `Pool.get_alive_frame`).
  * `SInv.findOrCreateTableRemove_spec` / `findOrCreateTableRemove_reject` — the removal analogue
    of `SInv.findOrCreateTableAdd_spec`; `graphFindAdd_bad` / `graphFindRemove_bad` — the mask
    walks as decision procedures.
  * `CInv.move_spec` (the shared tail "add `e` to the new table, `moveRow`"), `addCore_spec`,
    `removeCore_spec`, `opAdd_spec`, `opRemove_spec`, `opNewEntity_spec`, `opNewEntity0_spec`,
    `opRemoveEntity_spec`, `opSet_spec_c`, `CInv.registerComponent`, `CInv.writeVals`
    (`valOf_writeVals`: last write wins), `CInv.placed`, `CInv.removed`, and the rejections
    `addCore_alreadyHas`, `removeCore_missing`, `opNewEntity_dup`, `opSet_missing_c`, `opAdd_dead`,
    `opRemove_dead` (state unchanged).

  Kernel-only proofs, core Lean only.
-/
import Ark.Proofs.WInv
import Ark.Proofs.SInv
import Ark.Proofs.PoolHistory
import Ark.Proofs.PreCheck

set_option autoImplicit false

namespace Ark

open World Ark.Props.C01World

/-! ## 0. table metadata: what `SInv` reads of a table -/

namespace Table

/-- `T'` has the same layout / bookkeeping fields as `T` (everything but `len`, `cap`, `ents`,
    `cols`) -/
structure SameMeta (T T' : Table) : Prop where
  id : T'.id = T.id
  arch : T'.arch = T.arch
  ids : T'.ids = T.ids
  isRel : T'.isRel = T.isRel
  zst : T'.zst = T.zst
  relIDs : T'.relIDs = T.relIDs
  isFree : T'.isFree = T.isFree
  targets : T'.targets = T.targets

theorem SameMeta.refl (T : Table) : SameMeta T T := ⟨rfl, rfl, rfl, rfl, rfl, rfl, rfl, rfl⟩

theorem SameMeta.trans {A B C : Table} (h1 : SameMeta A B) (h2 : SameMeta B C) : SameMeta A C :=
  ⟨h2.id.trans h1.id, h2.arch.trans h1.arch, h2.ids.trans h1.ids, h2.isRel.trans h1.isRel,
    h2.zst.trans h1.zst, h2.relIDs.trans h1.relIDs, h2.isFree.trans h1.isFree,
    h2.targets.trans h1.targets⟩

theorem add_sameMeta (T : Table) (e : Ent) : SameMeta T (T.add e).1 := by
  simp only [Table.add, Table.alloc, Table.extend]
  split <;> exact ⟨rfl, rfl, rfl, rfl, rfl, rfl, rfl, rfl⟩

theorem remove_sameMeta (T : Table) (i : Nat) : SameMeta T (T.remove i).1 :=
  ⟨rfl, rfl, rfl, rfl, rfl, rfl, rfl, rfl⟩

theorem setCell_sameMeta (T : Table) (col row : Nat) (v : Val) : SameMeta T (T.setCell col row v) := by
  simp only [Table.setCell]
  split <;> exact ⟨rfl, rfl, rfl, rfl, rfl, rfl, rfl, rfl⟩

theorem setComp_sameMeta (T : Table) (c : Comp) (row : Nat) (v : Val) :
    SameMeta T (T.setComp c row v) := by
  simp only [Table.setComp]
  split
  · exact setCell_sameMeta T _ row v
  · exact SameMeta.refl T

theorem foldl_sameMeta {α : Type} (f : Table → α → Table)
    (hf : ∀ (T : Table) (x : α), SameMeta T (f T x)) :
    ∀ (l : List α) (T : Table), SameMeta T (l.foldl f T)
  | [], T => SameMeta.refl T
  | x :: l, T => (hf T x).trans (foldl_sameMeta f hf l (f T x))

end Table

namespace World

theorem copyRow_sameMeta (O : Table) (row newIndex : Nat) (keep : Mask) (N : Table) :
    Table.SameMeta N (copyRow O row newIndex keep N) := by
  apply Table.foldl_sameMeta
  intro T c
  split
  · split
    · exact Table.setComp_sameMeta T c newIndex _
    · exact Table.SameMeta.refl T
  · exact Table.SameMeta.refl T

theorem writeFold_sameMeta (row : Nat) (vals : List (Comp × Val)) (T : Table) :
    Table.SameMeta T (vals.foldl (fun T (cv : Comp × Val) => T.setComp cv.1 row cv.2) T) :=
  Table.foldl_sameMeta _ (fun T cv => Table.setComp_sameMeta T cv.1 row cv.2) vals T

end World

/-- `SInv` only reads the metadata of the tables -/
theorem SInv.of_sameMeta {w w' : World} (h : SInv w) (ha : w'.archetypes = w.archetypes)
    (hk : w'.kinds = w.kinds) (hlen : w'.tables.length = w.tables.length)
    (hm : ∀ (t : Nat), t < w.tables.length → Table.SameMeta (w.tbl t) (w'.tbl t)) : SInv w' := by
  have harch : ∀ a, w'.arch a = w.arch a := fun a => by simp only [arch, ha]
  have hget : ∀ {t : Nat} {T : Table}, w'.tables[t]? = some T →
      t < w.tables.length ∧ T = w'.tbl t ∧ w.tables[t]? = some (w.tbl t) := by
    intro t T hT
    have hlt : t < w.tables.length := by rw [← hlen]; exact lt_of_get hT
    exact ⟨hlt, (tbl_of_get hT).symm, get_of_lt hlt⟩
  have hget' : ∀ {t : Nat} {T : Table}, w.tables[t]? = some T →
      t < w.tables.length ∧ T = w.tbl t ∧ w'.tables[t]? = some (w'.tbl t) := by
    intro t T hT
    have hlt : t < w.tables.length := lt_of_get hT
    exact ⟨hlt, (tbl_of_get hT).symm, get_of_lt (by rw [hlen]; exact hlt)⟩
  have hmid : SInvMid w' := by
    refine ⟨?_, ?_, ?_, ?_, ?_, ?_, ?_, ?_, ?_, ?_, ?_, ?_⟩
    · rw [ha]; exact h.archId
    · rw [ha]; exact h.maskUniq
    · rw [ha, hk]; exact h.maskReg
    · rw [ha, hk]; exact h.comps
    · rw [ha, hk]; exact h.kindsOf
    · intro t T hT
      obtain ⟨hlt, rfl, hT0⟩ := hget hT
      have sm := hm t hlt
      obtain ⟨A, hA, e1, e2, e3, e4⟩ := h.tblArch t _ hT0
      exact ⟨A, by rw [ha, sm.arch]; exact hA, by rw [sm.ids]; exact e1, by rw [sm.isRel]; exact e2,
        by rw [sm.zst]; exact e3, by rw [sm.id]; exact e4⟩
    · intro t T hT r hr
      obtain ⟨hlt, rfl, hT0⟩ := hget hT
      have sm := hm t hlt
      rw [sm.relIDs] at hr
      obtain ⟨i, h1, h2⟩ := h.relCols t _ hT0 r hr
      exact ⟨i, by rw [sm.ids]; exact h1, by rw [sm.isRel]; exact h2⟩
    · intro t T hT
      obtain ⟨hlt, rfl, hT0⟩ := hget hT
      have sm := hm t hlt
      rw [sm.isFree, sm.arch, harch]
      exact h.member t _ hT0
    · intro a A t hA hmem
      rw [ha] at hA
      obtain ⟨T, hT, hTa⟩ := h.owned a A t hA hmem
      obtain ⟨hlt, rfl, hT'⟩ := hget' hT
      exact ⟨_, hT', by rw [(hm t hlt).arch]; exact hTa⟩
    · rw [ha]; exact h.astruct
    · rw [ha]; exact h.nonRelLe
    · obtain ⟨h0, h1, h2⟩ := h.root
      exact ⟨by rw [hlen]; exact h0, by rw [(hm 0 h0).arch]; exact h1, by rw [harch]; exact h2⟩
  exact { hmid with settled := fun a => (h.settled a).congr ha }

/-! ## 1. fields no storage operation touches -/

/-- `w'` has the same observers, locks, target flags and registry bound as `w` -/
structure Untouched (w w' : World) : Prop where
  obs : w'.obs = w.obs
  locks : w'.locks = w.locks
  isTarget : w'.isTarget = w.isTarget
  maxComps : w'.maxComps = w.maxComps

theorem Untouched.refl (w : World) : Untouched w w := ⟨rfl, rfl, rfl, rfl⟩

theorem Untouched.trans {a b c : World} (h1 : Untouched a b) (h2 : Untouched b c) : Untouched a c :=
  ⟨h2.obs.trans h1.obs, h2.locks.trans h1.locks, h2.isTarget.trans h1.isTarget,
    h2.maxComps.trans h1.maxComps⟩

namespace World

theorem createArchetypeW_untouched (w : World) (mask : Mask) :
    Untouched w (createArchetypeW w mask) :=
  ⟨createArchetypeW_proj (·.obs) (fun _ _ _ => rfl) (fun _ _ => rfl) w mask,
    createArchetypeW_proj (·.locks) (fun _ _ _ => rfl) (fun _ _ => rfl) w mask,
    createArchetypeW_proj (·.isTarget) (fun _ _ _ => rfl) (fun _ _ => rfl) w mask,
    createArchetypeW_proj (·.maxComps) (fun _ _ _ => rfl) (fun _ _ => rfl) w mask⟩

theorem findOrCreateArch_untouched {w w' : World} {mask : Mask} {a : Nat}
    (h : findOrCreateArch mask w = .ok a w') : Untouched w w' := by
  unfold findOrCreateArch at h
  split at h
  · injection h with _ h2; subst h2; exact Untouched.refl w
  · rw [createArchetype_eq] at h
    injection h with _ h2; subst h2; exact createArchetypeW_untouched w mask

theorem createTableS_untouched (w : World) (a : Nat) (rels : List RelID) :
    Untouched w (createTableS w a rels).1 := by
  unfold createTableS
  split <;> exact ⟨rfl, rfl, rfl, rfl⟩

theorem cacheAddTable_untouched {w w' : World} {T : Table} (h : w.cacheAddTable T = some w') :
    Untouched w w' := by
  unfold cacheAddTable at h
  simp only at h
  split at h
  · cases h
  · injection h with h; subst h; exact ⟨rfl, rfl, rfl, rfl⟩

theorem createTable_untouched {a : Nat} {rels : List RelID} {w w' : World} {t : Nat}
    (h : createTable a rels w = .ok t w') : Untouched w w' := by
  obtain ⟨_, _, _, _, h5⟩ := createTable_ok h
  exact (createTableS_untouched w a rels).trans (cacheAddTable_untouched h5)

/-- `findOrCreateTableAdd` (on success) touches neither observers, locks, target flags nor the
    registry bound -/
theorem findOrCreateTableAdd_untouched {oldT : Nat} {startMask : Mask} {add : List Comp}
    {rels : List RelID} {w w' : World} {r : Nat × Nat × Mask}
    (hok : findOrCreateTableAdd oldT startMask add rels w = .ok r w') : Untouched w w' := by
  obtain ⟨t, a, mask⟩ := r
  have hg : graphFindAdd startMask add w = .ok (add.foldl Mask.set startMask) w := by
    rcases graphFindAdd_cases startMask add w with hg | ⟨hg, _⟩
    · exact hg
    · simp only [World.findOrCreateTableAdd, bind, M.bind, hg] at hok; cases hok
  cases ha : findOrCreateArch (add.foldl Mask.set startMask) w with
  | panic k s => simp only [World.findOrCreateTableAdd, bind, M.bind, hg, ha] at hok; cases hok
  | ok a1 w1 =>
    obtain ⟨_, _, hbr⟩ := findOrCreateTableAdd_ok_inv hg ha hok
    have u1 := findOrCreateArch_untouched ha
    rcases hbr with ⟨_, rfl⟩ | ⟨_, hct⟩
    · exact u1
    · exact u1.trans (createTable_untouched hct)

end World

/-! ## 1b. `Alive` with memory behind the pool slice

`World.Reset` truncates the pool slice but keeps (and invalidates) the memory behind it
(`Pool.stale`), so an invariant that is to survive `Reset` cannot demand `stale = []`.  For a
handle whose ID lies inside the slice, `Alive` does not read that memory. -/

namespace Pool

/-- for an ID inside the slice, `Alive` reads the slot -/
theorem alive_of_lt {p : Pool} (e : Ent) (hlt : e.id < p.ents.length) :
    p.alive e = match p.ents[e.id]? with
      | some s => s.gen == e.gen
      | none => false := by
  simp only [alive, List.getElem?_append_left hlt]
  cases p.ents[e.id]? <;> rfl

/-- for an ID inside the slice and outside the free list, `Alive` holds exactly for the handle
    stored in the slot -/
theorem PInv.alive_iff_lt {p : Pool} {fl : List Nat} (h : PInv p fl) (e : Ent)
    (hnf : e.id ∉ fl) (hlt : e.id < p.ents.length) :
    p.alive e = true ↔ p.ents[e.id]? = some e := by
  rw [alive_of_lt e hlt]
  cases hs : p.ents[e.id]? with
  | none => simp
  | some s =>
    have hid := h.self e.id s hs hnf
    simp only [beq_iff_eq, Option.some.injEq]
    constructor
    · intro hg; cases s; cases e; simp_all
    · intro he; rw [he]

/-- same memory behind the slice, same slice length, same slot: same answer -/
theorem alive_congr_slot {p p' : Pool} (e : Ent) (hs : p'.stale = p.stale)
    (hl : p'.ents.length = p.ents.length) (h : p'.ents[e.id]? = p.ents[e.id]?) :
    p'.alive e = p.alive e := by
  simp only [alive]
  rcases Nat.lt_or_ge e.id p.ents.length with h1 | h1
  · rw [List.getElem?_append_left h1, List.getElem?_append_left (by rw [hl]; exact h1), h]
  · rw [List.getElem?_append_right h1, List.getElem?_append_right (by rw [hl]; exact h1), hs, hl]

/-- `Get` changes the answer of `Alive` for the returned ID only — also for IDs behind the slice
    (`getNew` consumes the first cell of the memory behind it) -/
theorem get_alive_frame (p : Pool) (fl : List Nat) (h : PInv p fl) (x : Ent)
    (hx : x.id ≠ (p.get).2.id) : (p.get).1.alive x = p.alive x := by
  have g := get_spec p fl h
  by_cases hav : p.available = 0
  · have hget : p.get = p.getNew := by simp [get, hav]
    rw [hget] at hx ⊢
    have hx' : x.id ≠ p.ents.length := hx
    simp only [alive, getNew]
    rcases Nat.lt_or_ge x.id p.ents.length with h1 | h1
    · rw [List.append_assoc, List.getElem?_append_left h1, List.getElem?_append_left h1]
    · have h2 : p.ents.length < x.id := by omega
      rw [List.getElem?_append_right (by simp only [List.length_append, List.length_singleton]; omega),
        List.getElem?_append_right h1, List.getElem?_drop]
      simp only [List.length_append, List.length_singleton]
      rw [show 1 + (x.id - (p.ents.length + 1)) = x.id - p.ents.length by omega]
  · have hget : p.get = p.getRecycled := by simp [get, hav]
    have hst : (p.get).1.stale = p.stale := by rw [hget]; rfl
    have hlen : (p.get).1.ents.length = p.ents.length := by
      rw [g.length]
      rcases g.cases with ⟨_, b, _⟩ | ⟨a, _⟩
      · have := h.avail
        rw [b] at this
        exact absurd this.symm hav
      · rw [if_neg (by omega)]
    exact alive_congr_slot x hst hlen (g.other x.id hx)

/-- `Get` only consumes memory behind the slice -/
theorem get_stale_sub (p : Pool) : ∀ e ∈ (p.get).1.stale, e ∈ p.stale := by
  intro e he
  by_cases hav : p.available = 0
  · have hget : p.get = p.getNew := by simp [get, hav]
    rw [hget] at he
    exact List.mem_of_mem_drop he
  · have hget : p.get = p.getRecycled := by simp [get, hav]
    rw [hget] at he
    exact he

end Pool

/-! ## 2. the joint invariant of the fragment with components -/

/-- **The joint invariant** for the non-relation, observer-free fragment with components.
    `fl` is the (ghost) free list of the entity pool.  Relative to `WInv`: the one-table field
    `tab0` is dropped, the structural invariant `SInv` is added, and the fragment conditions are
    "no registered component is a relation" (`noRelKinds`, which with `SInv` gives "no archetype
    has a relation column", see `CInv.noRelArch`) and the registry bound `kindsLe`. -/
structure CInv (w : World) (fl : List Nat) : Prop where
  /-- I2: entity index ↔ table rows -/
  idx : IdxInv w
  /-- I4/I9/I10: archetypes ↔ tables -/
  sinv : SInv w
  /-- I1: the pool's free list -/
  pool : Pool.PInv w.pool fl
  /-- the memory behind the pool slice (retained by `Reset`) only holds invalidated handles -/
  stale : ∀ e ∈ w.pool.stale, e.gen = maxU32
  lenEq : w.entities.length = w.pool.ents.length
  tgtLen : w.isTarget.length = w.entities.length
  freeUnindexed : ∀ i ∈ fl, ∃ r, w.entities[i]? = some (maxU32, r)
  reservedUnindexed : ∀ i : Nat, i < 2 → ∃ r, w.entities[i]? = some (maxU32, r)
  liveIndexed : ∀ i : Nat, 2 ≤ i → i < w.entities.length → i ∉ fl →
    ∃ t r, w.entities[i]? = some (t, r) ∧ t ≠ maxU32
  /-- table IDs fit `uint32`, `maxU32` is "no table" -/
  fewTables : w.tables.length ≤ maxU32
  /-- fragment: no relation component is registered -/
  noRelKinds : ∀ c : Comp, (w.kinds.getD c {}).isRel = false
  /-- the registry never exceeds the mask width -/
  kindsLe : w.kinds.length ≤ w.maxComps ∧ w.maxComps ≤ 256
  /-- fragment: no relation targets -/
  noTargets : ∀ i : Nat, w.isTarget.getD i false = false
  /-- fragment: no observers registered -/
  noObs : ∀ evt : Nat, w.obs.hasObservers evt = false

namespace CInv

variable {w : World} {fl : List Nat}

/-- no archetype has a relation column -/
theorem noRelArch (h : CInv w fl) {a : Nat} {A : Archetype} (hA : w.archetypes[a]? = some A) :
    A.hasRelations = false :=
  h.sinv.toSInvMid.hasRelations_false_of_kinds hA (fun c _ => h.noRelKinds c)

theorem noRelArch' (h : CInv w fl) {a : Nat} (ha : a < w.archetypes.length) :
    (w.arch a).hasRelations = false := h.noRelArch (aget_of_lt ha)

/-- no table lists a relation -/
theorem relIDs_nil (h : CInv w fl) {t : Nat} (ht : t < w.tables.length) : (w.tbl t).relIDs = [] := by
  have hT := get_of_lt ht
  obtain ⟨A, hA, _⟩ := h.sinv.tblArch t _ hT
  apply h.sinv.toSInvMid.relIDs_nil hT
  rw [arch_of_get hA]; exact h.noRelArch hA

theorem reg_lt_256 (h : CInv w fl) {c : Nat} (hc : c < w.kinds.length) : c < 256 := by
  have := h.kindsLe; omega

/-- liveness is exact for IDs inside the pool slice and outside the free list -/
theorem aliveIff (h : CInv w fl) (e : Ent) (hnf : e.id ∉ fl) (hlt : e.id < w.pool.ents.length) :
    w.alive e = true ↔ w.pool.ents[e.id]? = some e := by
  simp only [World.alive]
  exact h.pool.alive_iff_lt e hnf hlt

/-- a live handle: its index entry and its pool slot -/
theorem live_entry (h : CInv w fl) {e : Ent} (h2 : 2 ≤ e.id) (hnf : e.id ∉ fl)
    (ha : w.alive e = true) (hin : e.id < w.pool.ents.length) :
    ∃ t r, w.entities[e.id]? = some (t, r) ∧ t ≠ maxU32 ∧ w.pool.ents[e.id]? = some e := by
  have hs := (h.aliveIff e hnf hin).mp ha
  have hlt : e.id < w.entities.length := by
    rw [h.lenEq]; exact (List.getElem?_eq_some_iff.mp hs).1
  obtain ⟨t, r, hi, ht⟩ := h.liveIndexed e.id h2 hlt hnf
  exact ⟨t, r, hi, ht, hs⟩

/-- the table of an indexed entity: it exists, its archetype exists, and its column list is the
    ascending list of the registered bits of the archetype's mask -/
theorem table_of_entry (h : CInv w fl) {i t r : Nat} (hi : w.entities[i]? = some (t, r))
    (ht : t ≠ maxU32) :
    t < w.tables.length ∧ r < (w.tbl t).len ∧ ((w.tbl t).getEntity r).id = i ∧
    (w.tbl t).arch < w.archetypes.length ∧
    (w.tbl t).ids = (w.arch (w.tbl t).arch).mask.toList w.kinds.length ∧
    (w.tbl t).zst = (w.arch (w.tbl t).arch).zst := by
  obtain ⟨hT, hr, hid⟩ := h.idx.indexed hi ht
  obtain ⟨A, hA, e1, _, e3, _⟩ := h.sinv.tblArch t _ hT
  refine ⟨lt_of_get hT, hr, hid, alt_of_get hA, ?_, ?_⟩
  · rw [e1, arch_of_get hA]; exact (h.sinv.comps _ A hA).1
  · rw [e3, arch_of_get hA]

/-- **tables → index**: the entity in a live row of a table has a live ID (not reserved, not on
    the free list) that is indexed to exactly that row.  (That the stored handle also carries
    the current generation is not a consequence of the other fields: the index knows IDs only.) -/
theorem row_live_id (h : CInv w fl) {t r : Nat} (ht : t < w.tables.length) (hr : r < (w.tbl t).len) :
    2 ≤ ((w.tbl t).getEntity r).id ∧ ((w.tbl t).getEntity r).id ∉ fl ∧
    ((w.tbl t).getEntity r).id < w.entities.length ∧
    w.entities[((w.tbl t).getEntity r).id]? = some (t, r) := by
  have hx := h.idx.rowIdx t _ r (get_of_lt ht) hr
  have htm : t ≠ maxU32 := by have := h.fewTables; omega
  refine ⟨?_, ?_, (List.getElem?_eq_some_iff.mp hx).1, hx⟩
  · rcases Nat.lt_or_ge ((w.tbl t).getEntity r).id 2 with h1 | h1
    · obtain ⟨r', hr'⟩ := h.reservedUnindexed _ h1
      rw [hr'] at hx
      exact absurd (Prod.mk.inj (Option.some.inj hx)).1.symm htm
    · exact h1
  · intro hm
    obtain ⟨r', hr'⟩ := h.freeUnindexed _ hm
    rw [hr'] at hx
    exact absurd (Prod.mk.inj (Option.some.inj hx)).1.symm htm

end CInv

theorem cinv_init (cap rel : Nat) : CInv (World.init cap rel) [] where
  idx := IdxInv.init cap rel 256
  sinv := sinv_init cap rel
  pool := Pool.pinv_init
  stale := by intro e he; cases he
  lenEq := rfl
  tgtLen := rfl
  freeUnindexed := by intro i hi; cases hi
  reservedUnindexed := by
    intro i hi
    match i, hi with
    | 0, _ => exact ⟨0, rfl⟩
    | 1, _ => exact ⟨0, rfl⟩
  liveIndexed := by
    intro i h2 hlt _
    have : (World.init cap rel).entities.length = 2 := rfl
    omega
  fewTables := by
    show 1 ≤ maxU32
    decide
  noRelKinds := by
    intro c
    show (([] : List CompKind).getD c {}).isRel = false
    rfl
  kindsLe := ⟨Nat.zero_le _, Nat.le_refl _⟩
  noTargets := by
    intro i
    show [false, false].getD i false = false
    match i with
    | 0 => rfl
    | 1 => rfl
    | n + 2 => rfl
  noObs := fun _ => rfl

/-- the index after the step agrees with the index before, up to moving indexed entities
    between (existing) tables -/
structure IdxSame (w w' : World) : Prop where
  len : w'.entities.length = w.entities.length
  entry : ∀ i : Nat, w'.entities[i]? = w.entities[i]? ∨
    ∃ t r t' r', w.entities[i]? = some (t, r) ∧ t ≠ maxU32 ∧
      w'.entities[i]? = some (t', r') ∧ t' ≠ maxU32

theorem IdxSame.refl (w : World) : IdxSame w w := ⟨rfl, fun _ => Or.inl rfl⟩

/-- a step that keeps the pool, the registry, the observers and the target flags, and only moves
    indexed entities between tables, keeps the joint invariant -/
theorem CInv.transfer {w w' : World} {fl : List Nat} (h : CInv w fl) (hidx : IdxInv w')
    (hsinv : SInv w') (hpool : w'.pool = w.pool) (hent : IdxSame w w') (hk : w'.kinds = w.kinds)
    (hu : Untouched w w') (hfew : w'.tables.length ≤ maxU32) : CInv w' fl where
  idx := hidx
  sinv := hsinv
  pool := by rw [hpool]; exact h.pool
  stale := by rw [hpool]; exact h.stale
  lenEq := by rw [hent.len, hpool]; exact h.lenEq
  tgtLen := by rw [hu.isTarget, hent.len]; exact h.tgtLen
  freeUnindexed := by
    intro i hi
    obtain ⟨r, hr⟩ := h.freeUnindexed i hi
    rcases hent.entry i with he | ⟨t, r1, _, _, h1, h2, _⟩
    · exact ⟨r, by rw [he]; exact hr⟩
    · rw [hr] at h1
      exact absurd (Prod.mk.inj (Option.some.inj h1)).1.symm h2
  reservedUnindexed := by
    intro i hi
    obtain ⟨r, hr⟩ := h.reservedUnindexed i hi
    rcases hent.entry i with he | ⟨t, r1, _, _, h1, h2, _⟩
    · exact ⟨r, by rw [he]; exact hr⟩
    · rw [hr] at h1
      exact absurd (Prod.mk.inj (Option.some.inj h1)).1.symm h2
  liveIndexed := by
    intro i h2 hlt hnf
    rcases hent.entry i with he | ⟨_, _, t', r', _, _, h3, h4⟩
    · rw [he]; exact h.liveIndexed i h2 (by rw [← hent.len]; exact hlt) hnf
    · exact ⟨t', r', h3, h4⟩
  fewTables := hfew
  noRelKinds := by rw [hk]; exact h.noRelKinds
  kindsLe := by rw [hk, hu.maxComps]; exact h.kindsLe
  noTargets := by rw [hu.isTarget]; exact h.noTargets
  noObs := by rw [hu.obs]; exact h.noObs

/-! ## 3. `graph.FindRemove` / `graph.FindAdd` as decision procedures -/

namespace Mask

theorem get_foldl_clear (cs : List Nat) (m : Mask) (c : Nat) :
    (cs.foldl clear m).get c = (m.get c && !decide (c ∈ cs)) := by
  induction cs generalizing m with
  | nil => simp
  | cons x xs ih =>
    simp only [List.foldl_cons, ih, get_clear, List.mem_cons]
    by_cases h2 : c = x
    · subst h2; simp
    · by_cases h3 : c ∈ xs <;> simp [h2, h3]

end Mask

namespace World

theorem graphFindRemove_go_ok (w : World) : ∀ (rem : List Comp) (m : Mask),
    (∀ (c : Comp), c ∈ rem → m.get c = true) → rem.Nodup →
    graphFindRemove.go w m rem = .ok (rem.foldl Mask.clear m) w
  | [], _, _, _ => rfl
  | c :: rest, m, hp, hnd => by
    have hc : m.get c = true := hp c List.mem_cons_self
    simp only [graphFindRemove.go, hc, Bool.not_true, Bool.false_eq_true, if_false, List.foldl_cons]
    apply graphFindRemove_go_ok w rest (m.clear c)
    · intro c' hc'
      rw [Mask.get_clear, hp c' (List.mem_cons_of_mem _ hc')]
      have : c' ≠ c := by
        rintro rfl
        exact (List.nodup_cons.1 hnd).1 hc'
      simp [this]
    · exact (List.nodup_cons.1 hnd).2

/-- removing distinct components all of which are present: the mask walk succeeds -/
theorem graphFindRemove_ok (m : Mask) (rem : List Comp) (w : World)
    (hp : ∀ (c : Comp), c ∈ rem → m.get c = true) (hnd : rem.Nodup) :
    graphFindRemove m rem w = .ok (rem.foldl Mask.clear m) w := graphFindRemove_go_ok w rem m hp hnd

theorem graphFindRemove_go_bad (w : World) : ∀ (rem : List Comp) (m : Mask),
    ¬ (rem.Nodup ∧ ∀ (c : Comp), c ∈ rem → m.get c = true) →
    graphFindRemove.go w m rem = .panic .missing w
  | [], _, h => absurd ⟨List.nodup_nil, fun _ hc => by cases hc⟩ h
  | c :: rest, m, h => by
    simp only [graphFindRemove.go]
    cases hc : m.get c with
    | false => rfl
    | true =>
      simp only [Bool.not_true, Bool.false_eq_true, if_false]
      apply graphFindRemove_go_bad w rest (m.clear c)
      rintro ⟨hnd, hall⟩
      apply h
      have hne : ∀ c' ∈ rest, c' ≠ c ∧ m.get c' = true := by
        intro c' hc'
        have := hall c' hc'
        rw [Mask.get_clear] at this
        by_cases he : c' = c
        · subst he; simp at this
        · exact ⟨he, by simpa [he] using this⟩
      refine ⟨List.nodup_cons.2 ⟨fun hm => (hne c hm).1 rfl, hnd⟩, ?_⟩
      intro c' hc'
      rcases List.mem_cons.1 hc' with rfl | hm
      · exact hc
      · exact (hne c' hm).2

/-- **rejection** of `graph.FindRemove`: a component that is absent (or listed twice) is refused
    with `missing`, state unchanged -/
theorem graphFindRemove_bad (m : Mask) (rem : List Comp) (w : World)
    (h : ¬ (rem.Nodup ∧ ∀ (c : Comp), c ∈ rem → m.get c = true)) :
    graphFindRemove m rem w = .panic .missing w := graphFindRemove_go_bad w rem m h

theorem graphFindAdd_go_bad (w : World) : ∀ (add : List Comp) (m : Mask),
    (∀ (c : Comp), c ∈ add → c < 256) →
    ¬ (add.Nodup ∧ ∀ (c : Comp), c ∈ add → m.get c = false) →
    graphFindAdd.go w m add = .panic .alreadyHas w
  | [], _, _, h => absurd ⟨List.nodup_nil, fun _ hc => by cases hc⟩ h
  | c :: rest, m, hb, h => by
    simp only [graphFindAdd.go]
    cases hc : m.get c with
    | true => rfl
    | false =>
      simp only [Bool.false_eq_true, if_false]
      apply graphFindAdd_go_bad w rest (m.set c) (fun c' hc' => hb c' (List.mem_cons_of_mem _ hc'))
      rintro ⟨hnd, hall⟩
      apply h
      have hne : ∀ c' ∈ rest, c' ≠ c ∧ m.get c' = false := by
        intro c' hc'
        have := hall c' hc'
        rw [Mask.get_set] at this
        have hlt : c' < 256 := hb c' (List.mem_cons_of_mem _ hc')
        by_cases he : c' = c
        · subst he; simp [hlt] at this
        · exact ⟨he, by simpa [he] using this⟩
      refine ⟨List.nodup_cons.2 ⟨fun hm => (hne c hm).1 rfl, hnd⟩, ?_⟩
      intro c' hc'
      rcases List.mem_cons.1 hc' with rfl | hm
      · exact hc
      · exact (hne c' hm).2

/-- **rejection** of `graph.FindAdd`: a component that is present (or listed twice) is refused
    with `alreadyHas`, state unchanged -/
theorem graphFindAdd_bad (m : Mask) (add : List Comp) (w : World)
    (hb : ∀ (c : Comp), c ∈ add → c < 256)
    (h : ¬ (add.Nodup ∧ ∀ (c : Comp), c ∈ add → m.get c = false)) :
    graphFindAdd m add w = .panic .alreadyHas w := graphFindAdd_go_bad w add m hb h

theorem findOrCreateArch_tables {w w' : World} {mask : Mask} {a : Nat}
    (h : findOrCreateArch mask w = .ok a w') : w'.tables = w.tables := by
  unfold findOrCreateArch at h
  split at h
  · injection h with _ h2; subst h2; rfl
  · obtain ⟨w1, hok, _, ht, _⟩ := createArchetype_ok mask w
    rw [hok] at h
    injection h with _ h2; subst h2; exact ht

theorem findOrCreateArch_never_panics (mask : Mask) (w : World) :
    ∃ a w', findOrCreateArch mask w = .ok a w' := by
  unfold findOrCreateArch
  split
  · exact ⟨_, _, rfl⟩
  · exact ⟨_, _, createArchetype_eq mask w⟩

/-- when the old table lists no relation, `findOrCreateTableRemove` is the mask walk followed
    by the tail of `findOrCreateTableAdd` for the cleared mask -/
theorem findOrCreateTableRemove_eq_add (oldT : Nat) (startMask m : Mask) (rem : List Comp)
    (w : World) (hg : graphFindRemove startMask rem w = .ok m w)
    (hrel0 : (w.tbl oldT).relIDs = []) :
    findOrCreateTableRemove oldT startMask rem w =
      match findOrCreateTableAdd oldT m [] [] w with
      | .ok r w' => .ok (r.1, r.2.1, r.2.2, false) w'
      | .panic k w' => .panic k w' := by
  obtain ⟨a, w1, ha⟩ := findOrCreateArch_never_panics m w
  have ht : w1.tbl oldT = w.tbl oldT := by simp only [tbl, findOrCreateArch_tables ha]
  simp only [findOrCreateTableRemove, findOrCreateTableAdd, bind, M.bind, hg, graphFindAdd,
    graphFindAdd.go, ha, M.get, ht, hrel0, relsForAdd, List.filter_nil, List.any_nil,
    List.isEmpty_nil, if_true]
  cases hgt : getTable a [] w1 with
  | panic k s => rfl
  | ok r s =>
    cases r with
    | some t => rfl
    | none =>
      simp only
      cases hct : createTable a [] s with
      | panic k s2 => simp only [M.bind, hct]
      | ok t s2 => simp only [M.bind, hct, pure, M.pure]

end World

/-! ## 4. the table lookup for a given mask, and `findOrCreateTableRemove_spec` -/

/-- the returned table differs from `oldT` whenever the new mask differs from the mask of
    `oldT`'s archetype -/
theorem FoundOrCreated.ne_old {w w' : World} {m : Mask} {t a : Nat} (fc : FoundOrCreated w w' m t a)
    (h : SInv w) {oldT : Nat} (hold : oldT < w.tables.length)
    (hm : m ≠ (w.arch (w.tbl oldT).arch).mask) : t ≠ oldT := by
  intro hto
  subst hto
  have harch : (w.tbl t).arch = a := by rw [← (fc.rows t hold).2.2.2.1]; exact fc.tblArch
  obtain ⟨A, hA, _⟩ := h.tblArch t _ (get_of_lt hold)
  have halt0 : a < w.archetypes.length := by rw [← harch]; exact alt_of_get hA
  apply hm
  rw [← fc.archMask, fc.masks a halt0, harch]

/-- **the lookup tail, total** (relation-free fragment): for a mask `m` of registered components,
    `findOrCreateTableAdd oldT m [] []` returns the table of the archetype with mask `m`
    (creating archetype and table as needed); all tables that existed are unchanged. -/
theorem SInv.foc_nil_spec {w : World} (h : SInv w) (hI : IdxInv w)
    (hnoRel : ∀ c : Comp, (w.kinds.getD c {}).isRel = false) {oldT : Nat}
    (hrel0 : (w.tbl oldT).relIDs = []) {m : Mask}
    (hreg : ∀ c : Nat, m.get c = true → c < w.kinds.length) :
    ∃ (t a : Nat) (w' : World),
      World.findOrCreateTableAdd oldT m [] [] w = .ok (t, a, m) w' ∧
      FoundOrCreated w w' m t a ∧ IdxInv w' ∧
      (∀ (t' : Nat), t' < w.tables.length → w'.tables[t']? = w.tables[t']?) := by
  have hg : graphFindAdd m [] w = .ok m w := rfl
  obtain ⟨a, w1, ha, hmid, hset, halt, hmask, hpre, hlen, ht, hk, he, hp, _, hcase⟩ :=
    h.findOrCreateArch m hreg
  have hA1 := aget_of_lt halt
  have hnr1 : (w1.arch a).hasRelations = false :=
    hmid.hasRelations_false_of_kinds hA1 (fun c _ => by rw [hk]; exact hnoRel c)
  have hall : relsForAdd (w1.tbl oldT) [] = [] := by
    have : w1.tbl oldT = w.tbl oldT := by simp only [tbl, ht]
    simp [relsForAdd, this, hrel0]
  have hgt := getTable_noRel (a := a) [] hnr1
  have hres : ∃ (t : Nat) (w' : World),
      World.findOrCreateTableAdd oldT m [] [] w = .ok (t, a, m) w' ∧
      (∀ (t' : Nat), t' < w.tables.length → w'.tables[t']? = w.tables[t']?) := by
    cases hem : (w1.arch a).tables.tables.isEmpty with
    | false =>
      refine ⟨(w1.arch a).tables.tables.getD 0 0, w1, ?_, fun t' _ => by rw [ht]⟩
      simp only [World.findOrCreateTableAdd, bind, M.bind, hg, ha, M.get, hall, hgt, hem,
        Bool.false_eq_true, if_false, pure, M.pure]
    | true =>
      have hemp : (w1.arch a).tables.tables = [] := List.isEmpty_iff.1 hem
      have h0 : (w1.arch a).numRel = 0 := by simpa [Archetype.hasRelations] using hnr1
      have hct0 := createTable_of_valid (a := a) (rels := []) (w := w1) (by omega)
        (by intro r hr; cases hr) List.nodup_nil (by intro r hr; cases hr)
      obtain ⟨A2, Tn, ta, r1, _, _, _⟩ := hmid.createTableS_added hA1 (rels := [])
        (by intro r hr; cases hr) (by intro r hr; cases hr) (fun _ => hemp)
      have hTn : (createTableS w1 a []).1.tbl (createTableS w1 a []).2 = Tn := tbl_of_get ta.tget_self
      obtain ⟨w2, hw2⟩ := cacheAddTable_noRel (createTableS w1 a []).1 Tn
        (by simp [Table.hasRelations, r1])
      have hct : World.createTable a [] w1 = .ok (createTableS w1 a []).2 w2 := by
        rw [hct0, ctFinish, hTn, hw2]
      have ct := hmid.createTable halt (fun _ => hemp) hct
      refine ⟨(createTableS w1 a []).2, w2, ?_, ?_⟩
      · simp only [World.findOrCreateTableAdd, bind, M.bind, hg, ha, M.get, hall, hgt, hem,
          if_true, hct, pure, M.pure]
      · intro t' hlt
        have hne : t' ≠ (createTableS w1 a []).2 := by
          rcases ct.kind with ⟨k1, _⟩ | ⟨_, _, k3, _⟩
          · rw [k1, ht]; omega
          · rw [(hmid.nonRelLe a _ hA1 hnr1).2] at k3; cases k3
        rw [ct.others t' hne, ht]
  obtain ⟨t, w', hok, hsame⟩ := hres
  obtain ⟨_, hfc⟩ := h.findOrCreateTableAdd_of_ok (add := []) hreg (by intro c hc; cases hc) (by
    intro b B hB _ hr
    exfalso
    have := h.toSInvMid.hasRelations_false_of_kinds hB (fun c _ => hnoRel c)
    rw [this] at hr; cases hr) hok
  exact ⟨t, a, w', hok, hfc, hfc.idx hI, hsame⟩

/-- **`findOrCreateTableRemove`, total form, relation-free fragment.**  `oldT` is an existing
    table, `startMask` its archetype's mask; `rem` are distinct components all of which are in
    `startMask`.  Then `findOrCreateTableRemove` succeeds and returns a table `t` of an archetype
    `a` with mask `rem.foldl Mask.clear startMask` (no relation was removed) such that
    `FoundOrCreated` holds; every table that existed before is completely unchanged, and
    `t ≠ oldT` unless `rem = []`. -/
theorem SInv.findOrCreateTableRemove_spec {w : World} (h : SInv w) (hI : IdxInv w)
    (hnoRel : ∀ c : Comp, (w.kinds.getD c {}).isRel = false) {oldT : Nat}
    (hold : oldT < w.tables.length) {startMask : Mask}
    (hstart : startMask = (w.arch (w.tbl oldT).arch).mask)
    {rem : List Comp} (hnd : rem.Nodup) (hpres : ∀ (c : Comp), c ∈ rem → startMask.get c = true) :
    ∃ (t a : Nat) (w' : World),
      World.findOrCreateTableRemove oldT startMask rem w =
        .ok (t, a, rem.foldl Mask.clear startMask, false) w' ∧
      FoundOrCreated w w' (rem.foldl Mask.clear startMask) t a ∧ IdxInv w' ∧ Untouched w w' ∧
      (∀ (t' : Nat), t' < w.tables.length → w'.tables[t']? = w.tables[t']?) ∧
      (rem ≠ [] → t ≠ oldT) := by
  have hT0 := get_of_lt hold
  obtain ⟨Aold, hAold, _⟩ := h.tblArch oldT _ hT0
  have hAoldE := arch_of_get hAold
  have hnrOld : (w.arch (w.tbl oldT).arch).hasRelations = false := by
    rw [hAoldE]; exact h.toSInvMid.hasRelations_false_of_kinds hAold (fun c _ => hnoRel c)
  have hrel0 : (w.tbl oldT).relIDs = [] := h.relIDs_nil hT0 hnrOld
  have hg := graphFindRemove_ok startMask rem w hpres hnd
  have hreg : ∀ c : Nat, (rem.foldl Mask.clear startMask).get c = true → c < w.kinds.length := by
    intro c hc
    rw [Mask.get_foldl_clear] at hc
    have hs : startMask.get c = true := by
      cases hs : startMask.get c with
      | true => rfl
      | false => rw [hs] at hc; simp at hc
    rw [hstart, hAoldE] at hs
    exact h.maskReg _ Aold hAold c hs
  obtain ⟨t, a, w', hok, hfc, hI', hsame⟩ := h.foc_nil_spec hI hnoRel hrel0 hreg
  refine ⟨t, a, w', ?_, hfc, hI', findOrCreateTableAdd_untouched hok, hsame, ?_⟩
  · rw [findOrCreateTableRemove_eq_add oldT startMask _ rem w hg hrel0, hok]
  · intro hne
    apply hfc.ne_old h hold
    cases rem with
    | nil => exact absurd rfl hne
    | cons c rest =>
      intro heq
      have h1 : (List.foldl Mask.clear startMask (c :: rest)).get c = false := by
        rw [Mask.get_foldl_clear]; simp
      rw [heq, ← hstart, hpres c List.mem_cons_self] at h1
      cases h1

/-- **rejection** of `findOrCreateTableRemove`: a component that is absent from the start mask
    (or listed twice) is refused with `missing`, state unchanged -/
theorem findOrCreateTableRemove_reject (oldT : Nat) (startMask : Mask) (rem : List Comp) (w : World)
    (h : ¬ (rem.Nodup ∧ ∀ (c : Comp), c ∈ rem → startMask.get c = true)) :
    World.findOrCreateTableRemove oldT startMask rem w = .panic .missing w := by
  simp only [World.findOrCreateTableRemove, bind, M.bind, graphFindRemove_bad startMask rem w h]

/-- **rejection** of `findOrCreateTableAdd` (decision form): a component that is present in the
    start mask (or listed twice) is refused with `alreadyHas`, state unchanged -/
theorem findOrCreateTableAdd_reject' (oldT : Nat) (startMask : Mask) (add : List Comp)
    (rels : List RelID) (w : World) (hb : ∀ (c : Comp), c ∈ add → c < 256)
    (h : ¬ (add.Nodup ∧ ∀ (c : Comp), c ∈ add → startMask.get c = false)) :
    World.findOrCreateTableAdd oldT startMask add rels w = .panic .alreadyHas w := by
  simp only [World.findOrCreateTableAdd, bind, M.bind, graphFindAdd_bad startMask add w hb h]

/-! ## 5. the tail of `add` / `remove`: "add `e` to `newT`, then `moveRow`" -/

namespace Table

theorem colIdx_get {T : Table} {c : Comp} {i : Nat} (h : T.colIdx c = some i) :
    T.ids[i]? = some c := by
  unfold colIdx at h
  simp only at h
  split at h
  · rename_i hlt
    injection h with h; subst h
    rw [List.getElem?_eq_getElem hlt]
    congr 1
    exact List.getElem_idxOf hlt
  · cases h

theorem has_iff_mem {T : Table} {c : Comp} : T.has c = true ↔ c ∈ T.ids := by
  rw [← colIdx_some_iff_mem]
  simp only [Table.has, Option.isSome_iff_exists]

end Table

/-- the zero-size flag of a column is the registry's flag of its component -/
theorem SInvMid.tbl_zst {w : World} (h : SInvMid w) {t : Nat} {T : Table}
    (hT : w.tables[t]? = some T) {c : Comp} {i : Nat} (hc : T.colIdx c = some i) :
    T.zst.getD i false = (w.kinds.getD c {}).zst := by
  obtain ⟨A, hA, e1, _, e3, _⟩ := h.tblArch t T hT
  have hg := Table.colIdx_get hc
  rw [e1] at hg
  rw [e3]
  exact (h.kindsOf _ A i c hA hg).2

namespace World

theorem addMove_fields (w : World) (e : Ent) (oldT row newT : Nat) (keep : Mask) :
    (addMove w e oldT row newT keep).pool = w.pool ∧
    (addMove w e oldT row newT keep).kinds = w.kinds ∧
    (addMove w e oldT row newT keep).archetypes = w.archetypes ∧
    Untouched w (addMove w e oldT row newT keep) := by
  refine ⟨?_, ?_, ?_, ?_, ?_, ?_, ?_⟩ <;>
  · simp only [addMove, moveRowW]
    split <;> rfl

theorem addMove_tables (w : World) (e : Ent) (oldT row newT : Nat) (keep : Mask)
    (hne : oldT ≠ newT) (hnl : newT < w.tables.length) (hel : e.id < w.entities.length) :
    (addMove w e oldT row newT keep).tables =
      (w.tables.set oldT ((w.tbl oldT).remove row).1).set newT
        (copyRow (w.tbl oldT) row (w.tbl newT).len keep ((w.tbl newT).add e).1) := by
  rw [(addMove_decomp w e oldT row newT keep hne hnl hel).1]
  simp only [setTbl_tables, place_tables, unplace_tables, List.set_set]

theorem addMove_tbl (w : World) (e : Ent) (oldT row newT : Nat) (keep : Mask)
    (hne : oldT ≠ newT) (hnl : newT < w.tables.length) (hol : oldT < w.tables.length)
    (hel : e.id < w.entities.length) :
    (addMove w e oldT row newT keep).tables.length = w.tables.length ∧
    (addMove w e oldT row newT keep).tbl oldT = ((w.tbl oldT).remove row).1 ∧
    (addMove w e oldT row newT keep).tbl newT =
      copyRow (w.tbl oldT) row (w.tbl newT).len keep ((w.tbl newT).add e).1 ∧
    ∀ t : Nat, t ≠ oldT → t ≠ newT → (addMove w e oldT row newT keep).tbl t = w.tbl t := by
  have hT := addMove_tables w e oldT row newT keep hne hnl hel
  refine ⟨by rw [hT]; simp only [List.length_set], ?_, ?_, ?_⟩
  · apply tbl_of_get
    rw [hT, List.getElem?_set_ne (Ne.symm hne)]
    exact List.getElem?_set_self hol
  · apply tbl_of_get
    rw [hT]
    exact List.getElem?_set_self (by rw [List.length_set]; exact hnl)
  · intro t h1 h2
    simp only [tbl, hT, List.getD_eq_getElem?_getD, List.getElem?_set_ne (Ne.symm h2),
      List.getElem?_set_ne (Ne.symm h1)]

theorem addMove_lookup {w : World} (h : IdxInv w) {e : Ent} {oldT row newT : Nat} (keep : Mask)
    (hne : oldT ≠ newT) (he : w.entities[e.id]? = some (oldT, row)) (ht : oldT ≠ maxU32)
    (hnl : newT < w.tables.length) (hb : (w.tbl newT).len + 1 < 2 ^ 32) (i : Nat) :
    (addMove w e oldT row newT keep).entities[i]? =
      if i = e.id then some (newT, (w.tbl newT).len)
      else if row ≠ (w.tbl oldT).len - 1 ∧ i = ((w.tbl oldT).getEntity ((w.tbl oldT).len - 1)).id then
        some (oldT, row)
      else w.entities[i]? := by
  obtain ⟨_, _, hle, _, _, _, _, hune⟩ := h.addMove_steps keep hne he ht hnl hb
  have hel : e.id < w.entities.length := by
    rcases Nat.lt_or_ge e.id w.entities.length with h1 | h1
    · exact h1
    · rw [List.getElem?_eq_none h1] at he; cases he
  rw [(addMove_decomp w e oldT row newT keep hne hnl hel).2, setTbl_entities,
    place_lookup _ e newT hle, hune]
  by_cases hi : i = e.id
  · rw [if_pos hi, if_pos hi]
  · rw [if_neg hi, if_neg hi, unplace_lookup h he ht i, if_neg hi]

theorem addMove_entities_len (w : World) (e : Ent) (oldT row newT : Nat) (keep : Mask) :
    (addMove w e oldT row newT keep).entities.length = w.entities.length := by
  rw [addMove, moveRowW_entities]
  simp only [setTbl_entities, List.length_set]
  split <;> simp only [List.length_modify]

end World

/-- an extension of the world by new tables (entity index and old tables unchanged) reads the
    same for every entity -/
theorem same_of_prefix {w w1 : World} (hI : IdxInv w) (he : w1.entities = w.entities)
    (hs : ∀ (t' : Nat), t' < w.tables.length → w1.tables[t']? = w.tables[t']?) (j : Nat) :
    SameEnt w w1 j := by
  cases hx : w.entities[j]? with
  | none => exact same_of_entry (by rw [he]) (fun t r hh => by rw [hx] at hh; cases hh)
  | some p =>
    obtain ⟨t, r⟩ := p
    by_cases ht : t = maxU32
    · exact same_of_entry (by rw [he]) (fun t r hh => by rw [hx] at hh; cases hh; exact ht)
    · obtain ⟨T, hT, _, _⟩ := hI.idxRow j t r hx ht
      exact same_of_rows hx (by rw [he]; exact hx) ht ht hT (by rw [hs t (lt_of_get hT)]; exact hT)
        rfl (fun _ => rfl)

/-- what the move of `e` from its table `oldT` to the table `newT` of the mask `newMask`
    guarantees -/
structure MovePost (w : World) (fl : List Nat) (e : Ent) (oldMask newMask : Mask) (w' : World) :
    Prop where
  cinv : CInv w' fl
  unlocked : w'.isLocked = w.isLocked
  kinds : w'.kinds = w.kinds
  pool : w'.pool = w.pool
  maxComps : w'.maxComps = w.maxComps
  /-- `Alive` is unchanged for every handle -/
  aliveSame : ∀ x : Ent, w'.alive x = w.alive x
  /-- the entity has exactly the components of the new mask -/
  comps : compsOf w' e.id = some (newMask.toList w.kinds.length)
  /-- a component of the new mask keeps its value if the old mask had it, else reads zero -/
  vals : ∀ c : Comp, c < w.kinds.length → newMask.get c = true →
    valOf w' e.id c = if oldMask.get c = true then valOf w e.id c else some 0
  /-- every other entity is unchanged -/
  frame : ∀ j : Nat, j ≠ e.id → SameEnt w w' j
  /-- at most one table is created; no table grows by more than one row -/
  tablesLen : w'.tables.length ≤ w.tables.length + 1
  entitiesLen : w'.entities.length = w.entities.length

namespace World

theorem createTableS_tables_len (w : World) (a : Nat) (rels : List RelID) :
    (createTableS w a rels).1.tables.length ≤ w.tables.length + 1 := by
  unfold createTableS
  split
  · simp [modArch, setArch, modTbl, setTbl]
  · simp [modArch, setArch]

theorem findOrCreateTableAdd_tables_len {oldT : Nat} {startMask : Mask} {add : List Comp}
    {rels : List RelID} {w w' : World} {r : Nat × Nat × Mask}
    (hok : findOrCreateTableAdd oldT startMask add rels w = .ok r w') :
    w'.tables.length ≤ w.tables.length + 1 := by
  obtain ⟨t, a, mask⟩ := r
  have hg : graphFindAdd startMask add w = .ok (add.foldl Mask.set startMask) w := by
    rcases graphFindAdd_cases startMask add w with hg | ⟨hg, _⟩
    · exact hg
    · simp only [World.findOrCreateTableAdd, bind, M.bind, hg] at hok; cases hok
  cases ha : findOrCreateArch (add.foldl Mask.set startMask) w with
  | panic k s => simp only [World.findOrCreateTableAdd, bind, M.bind, hg, ha] at hok; cases hok
  | ok a1 w1 =>
    obtain ⟨_, _, hbr⟩ := findOrCreateTableAdd_ok_inv hg ha hok
    have u1 := findOrCreateArch_tables ha
    rcases hbr with ⟨_, rfl⟩ | ⟨_, hct⟩
    · rw [u1]; exact Nat.le_succ _
    · obtain ⟨_, _, _, _, h5⟩ := createTable_ok hct
      rw [(cacheAddTable_frame h5).2.1, ← u1]
      exact createTableS_tables_len w1 _ _

end World

/-- **the move**: `e` sits in row `row` of `oldT`; `w1` is the world after the table lookup
    (`FoundOrCreated`, old tables unchanged) which returned the table `newT ≠ oldT` of the mask
    `newMask`.  Then "add `e` to `newT`, `moveRow`" keeps the invariant, gives `e` exactly the
    components of `newMask` with the old values where the old mask had the component and zero
    otherwise, and leaves every other entity unchanged. -/
theorem CInv.move_spec {w : World} {fl : List Nat} (h : CInv w fl) {e : Ent} {oldT row : Nat}
    (he : w.entities[e.id]? = some (oldT, row)) (ht : oldT ≠ maxU32)
    {w1 : World} {newT a : Nat} {newMask : Mask} (fc : FoundOrCreated w w1 newMask newT a)
    (hu : Untouched w w1)
    (hsame : ∀ (t' : Nat), t' < w.tables.length → w1.tables[t']? = w.tables[t']?)
    (hne : newT ≠ oldT) (hlen1 : w1.tables.length ≤ w.tables.length + 1)
    (hfew : w.tables.length < maxU32) (hrows : ∀ t : Nat, (w.tbl t).len + 1 < 2 ^ 32) :
    MovePost w fl e (w.arch (w.tbl oldT).arch).mask newMask (addMove w1 e oldT row newT newMask) ∧
    ((addMove w1 e oldT row newT newMask).arch a).mask = newMask := by
  obtain ⟨holdlt, hrow, hid, halt, hids, _⟩ := h.table_of_entry he ht
  have hI1 : IdxInv w1 := fc.idx h.idx
  have he1 : w1.entities[e.id]? = some (oldT, row) := by rw [fc.entities]; exact he
  have hel : e.id < w1.entities.length := by
    rcases Nat.lt_or_ge e.id w1.entities.length with h1 | h1
    · exact h1
    · rw [List.getElem?_eq_none h1] at he1; cases he1
  have hfew1 : w1.tables.length ≤ maxU32 := by omega
  have hnl : newT < w1.tables.length := fc.tblLt
  have hnm : newT ≠ maxU32 := by omega
  have hold1 : oldT < w1.tables.length := Nat.lt_of_lt_of_le holdlt fc.tablesLen
  have htbl_old : w1.tbl oldT = w.tbl oldT := by
    simp only [tbl, List.getD_eq_getElem?_getD, hsame oldT holdlt]
  have hb : (w1.tbl newT).len + 1 < 2 ^ 32 := by
    rcases Nat.lt_or_ge newT w.tables.length with h1 | h1
    · have : w1.tbl newT = w.tbl newT := by
        simp only [tbl, List.getD_eq_getElem?_getD, hsame newT h1]
      rw [this]; exact hrows newT
    · rw [fc.newEmpty h1]; decide
  have hne' : oldT ≠ newT := Ne.symm hne
  -- the invariant in `w1`
  have h1 : CInv w1 fl := h.transfer hI1 fc.sinv fc.pool
    ⟨by rw [fc.entities], fun i => Or.inl (by rw [fc.entities])⟩ fc.kinds hu hfew1
  -- the moved world
  obtain ⟨fpool, fkinds, farchs, fu⟩ := addMove_fields w1 e oldT row newT newMask
  obtain ⟨tlen, tOld, tNew, tOther⟩ := addMove_tbl w1 e oldT row newT newMask hne' hnl hold1 hel
  have hL := addMove_lookup hI1 newMask hne' he1 ht hnl hb
  have hI' : IdxInv (addMove w1 e oldT row newT newMask) := hI1.addMove newMask hne' he1 ht hnl hb
  have hS' : SInv (addMove w1 e oldT row newT newMask) := by
    apply fc.sinv.of_sameMeta farchs fkinds tlen
    intro t _
    by_cases h1 : t = oldT
    · subst h1; rw [tOld]; exact Table.remove_sameMeta _ _
    · by_cases h2 : t = newT
      · subst h2; rw [tNew]
        exact (Table.add_sameMeta _ e).trans (copyRow_sameMeta _ _ _ _ _)
      · rw [tOther t h1 h2]; exact Table.SameMeta.refl _
  have hIS : IdxSame w1 (addMove w1 e oldT row newT newMask) := by
    refine ⟨addMove_entities_len _ _ _ _ _ _, fun i => ?_⟩
    rw [hL i]
    by_cases hi : i = e.id
    · rw [if_pos hi, hi]
      exact Or.inr ⟨oldT, row, newT, _, he1, ht, rfl, hnm⟩
    · rw [if_neg hi]
      by_cases hsw : row ≠ (w1.tbl oldT).len - 1 ∧
          i = ((w1.tbl oldT).getEntity ((w1.tbl oldT).len - 1)).id
      · rw [if_pos hsw]
        have hse := hI1.rowIdx oldT _ ((w1.tbl oldT).len - 1) (get_of_lt hold1)
          (by rw [htbl_old]; omega)
        rw [← hsw.2] at hse
        exact Or.inr ⟨oldT, _, oldT, row, hse, ht, rfl, ht⟩
      · rw [if_neg hsw]; exact Or.inl rfl
  have hC' : CInv (addMove w1 e oldT row newT newMask) fl :=
    h1.transfer hI' hS' fpool hIS fkinds fu (by rw [tlen]; exact hfew1)
  -- the new row of `e`
  have hent : (addMove w1 e oldT row newT newMask).entities[e.id]? = some (newT, (w1.tbl newT).len) := by
    rw [hL, if_pos rfl]
  have htab : (addMove w1 e oldT row newT newMask).tables[newT]? =
      some ((addMove w1 e oldT row newT newMask).tbl newT) := get_of_lt (by rw [tlen]; exact hnl)
  have hidsN : ((addMove w1 e oldT row newT newMask).tbl newT).ids = newMask.toList w.kinds.length := by
    rw [tNew, (copyRow_sameMeta _ _ _ _ _).ids, (Table.add_sameMeta _ e).ids]; exact fc.tblIds
  have hw1w : ∀ j : Nat, SameEnt w w1 j := same_of_prefix h.idx fc.entities hsame
  refine ⟨?_, ?_⟩
  · refine
      { cinv := hC'
        unlocked := by
          show (addMove w1 e oldT row newT newMask).locks.isLocked = w.locks.isLocked
          rw [fu.locks, hu.locks]
        kinds := fkinds.trans fc.kinds
        pool := fpool.trans fc.pool
        maxComps := fu.maxComps.trans hu.maxComps
        aliveSame := by intro x; simp only [World.alive, fpool, fc.pool]
        comps := by
          simp only [compsOf, hent, hnm, if_false, htab, Option.map_some, hidsN]
        vals := ?_
        frame := ?_
        tablesLen := by rw [tlen]; exact hlen1
        entitiesLen := by rw [addMove_entities_len, fc.entities] }
    · intro c hc hm
      have hcN : (w1.tbl newT).has c = true := by
        rw [Table.has_iff_mem, fc.tblIds, Mask.mem_toList]; exact ⟨hc, hm⟩
      have hz : ∀ (c : Comp) (i j : Nat), (w1.tbl oldT).colIdx c = some i →
          (w1.tbl newT).colIdx c = some j →
          (w1.tbl newT).zst.getD j false = (w1.tbl oldT).zst.getD i false := by
        intro c i j hi hj
        rw [fc.sinv.toSInvMid.tbl_zst (get_of_lt hnl) hj, fc.sinv.toSInvMid.tbl_zst (get_of_lt hold1) hi]
      rw [move_keeps_values hI1 newMask hne' he1 ht hnl hnm hb hz hcN, (hw1w e.id).1 c, htbl_old]
      have hhas : (w.tbl oldT).has c = true ↔ (w.arch (w.tbl oldT).arch).mask.get c = true := by
        rw [Table.has_iff_mem, hids, Mask.mem_toList]
        exact ⟨fun hh => hh.2, fun hh => ⟨hc, hh⟩⟩
      by_cases ho : (w.arch (w.tbl oldT).arch).mask.get c = true
      · rw [if_pos ⟨hm, hhas.2 ho⟩, if_pos ho]
      · rw [if_neg (fun hh => ho (hhas.1 hh.2)), if_neg ho]
    · intro j hj
      have := move_frame hI1 newMask hne' he1 ht hnl hb hj
      exact (hw1w j).trans this
  · have : (addMove w1 e oldT row newT newMask).arch a = w1.arch a := by simp only [arch, farchs]
    rw [this]; exact fc.archMask

/-! ## 6. `World.add` / `World.remove` -/

/-- a component outside the component set reads `none` -/
theorem valOf_none_of_comps {w : World} {i : Nat} {cs : List Comp} {c : Comp}
    (h : compsOf w i = some cs) (hc : c ∉ cs) : valOf w i c = none := by
  unfold compsOf at h
  unfold valOf
  cases hx : w.entities[i]? with
  | none => rfl
  | some p =>
    obtain ⟨t, r⟩ := p
    rw [hx] at h
    simp only at h ⊢
    by_cases ht : t = maxU32
    · rw [if_pos ht]
    · rw [if_neg ht] at h ⊢
      cases hT : w.tables[t]? with
      | none => rfl
      | some T =>
        rw [hT] at h
        simp only [Option.map_some, Option.some.injEq] at h
        subst h
        simp only [Option.bind_some, Table.getComp]
        cases hj : T.colIdx c with
        | none => rfl
        | some j => exact absurd (colIdx_some_iff_mem.mp ⟨j, hj⟩) hc

/-- for a live entity the component set is the ascending list of the registered bits of its
    archetype's mask -/
theorem CInv.comps_of_live {w : World} {fl : List Nat} (h : CInv w fl) {e : Ent} (h2 : 2 ≤ e.id)
    (hnf : e.id ∉ fl) (ha : w.alive e = true)
    (hin : e.id < w.pool.ents.length) :
    compsOf w e.id = some ((w.maskOf e).toList w.kinds.length) ∧
    (∀ c : Nat, (w.maskOf e).get c = true → c < w.kinds.length) := by
  obtain ⟨t, r, he, ht, _⟩ := h.live_entry h2 hnf ha hin
  obtain ⟨hlt, _, _, halt, hids, _⟩ := h.table_of_entry he ht
  have hm : w.maskOf e = (w.arch (w.tbl t).arch).mask := by simp only [maskOf, index_of_get he]
  constructor
  · simp only [compsOf, he, ht, if_false, get_of_lt hlt, Option.map_some, hids, hm]
  · intro c hc
    rw [hm] at hc
    exact h.sinv.maskReg _ _ (aget_of_lt halt) c hc

namespace World

theorem addCore_eq (e : Ent) (add : List Comp) (w : World) (hl : w.isLocked = false)
    (ha : w.alive e = true) (hne : add ≠ []) {oldT row : Nat} (hix : w.index e.id = (oldT, row))
    {t a : Nat} {m : Mask} {w1 : World}
    (hfoc : findOrCreateTableAdd oldT (w.arch (w.tbl oldT).arch).mask add [] w = .ok (t, a, m) w1) :
    addCore e add [] w =
      .ok ((w.arch (w.tbl oldT).arch).mask, ((addMove w1 e oldT row t m).arch a).mask)
        (addMove w1 e oldT row t m) := by
  have hemp : add.isEmpty = false := by
    cases add with
    | nil => exact absurd rfl hne
    | cons _ _ => rfl
  simp only [addCore, bind, M.bind, checkLocked_unlocked w hl, M.get, M.assert, ha, if_true, hemp,
    Bool.not_false, hix, hfoc, moveRow_eq, registerTargets, M.modify, List.foldl_nil, pure, M.pure]
  rfl

theorem removeCore_eq (run : ProbeRunner) (e : Ent) (rem : List Comp) (w : World)
    (hl : w.isLocked = false) (ha : w.alive e = true) (hne : rem ≠ []) {oldT row : Nat}
    (hix : w.index e.id = (oldT, row)) {t a : Nat} {m : Mask} {rr : Bool} {w1 : World}
    (hfoc : findOrCreateTableRemove oldT (w.arch (w.tbl oldT).arch).mask rem w = .ok (t, a, m, rr) w1)
    (hno : ∀ evt : Nat, w1.obs.hasObservers evt = false) :
    removeCore run e rem w = .ok () (addMove w1 e oldT row t m) := by
  have hemp : rem.isEmpty = false := by
    cases rem with
    | nil => exact absurd rfl hne
    | cons _ _ => rfl
  simp only [removeCore, bind, M.bind, checkLocked_unlocked w hl, M.get, M.assert, ha, if_true, hemp,
    Bool.not_false, hix, hfoc, hno, Bool.and_false, Bool.or_false, Bool.false_eq_true, if_false,
    moveRow_eq]
  rfl

/-- **rejection**: adding a component the entity already has (or one listed twice) panics
    `alreadyHas` with the state unchanged -/
theorem addCore_alreadyHas (e : Ent) (add : List Comp) (rels : List RelID) (w : World)
    (hl : w.isLocked = false) (ha : w.alive e = true) (hne : add ≠ [])
    (hb : ∀ (c : Comp), c ∈ add → c < 256)
    (h : ¬ (add.Nodup ∧ ∀ (c : Comp), c ∈ add → (w.maskOf e).get c = false)) :
    addCore e add rels w = .panic .alreadyHas w := by
  have hemp : add.isEmpty = false := by
    cases add with
    | nil => exact absurd rfl hne
    | cons _ _ => rfl
  cases hix : w.index e.id with
  | mk oldT row =>
    have hm : w.maskOf e = (w.arch (w.tbl oldT).arch).mask := by simp only [maskOf, hix]
    rw [hm] at h
    simp only [addCore, bind, M.bind, checkLocked_unlocked w hl, M.get, M.assert, ha, if_true, hemp,
      Bool.not_false, hix, findOrCreateTableAdd_reject' oldT _ add rels w hb h]

/-- **rejection**: removing a component the entity lacks (or one listed twice) panics `missing`
    with the state unchanged -/
theorem removeCore_missing (run : ProbeRunner) (e : Ent) (rem : List Comp) (w : World)
    (hl : w.isLocked = false) (ha : w.alive e = true) (hne : rem ≠ [])
    (h : ¬ (rem.Nodup ∧ ∀ (c : Comp), c ∈ rem → (w.maskOf e).get c = true)) :
    removeCore run e rem w = .panic .missing w := by
  have hemp : rem.isEmpty = false := by
    cases rem with
    | nil => exact absurd rfl hne
    | cons _ _ => rfl
  cases hix : w.index e.id with
  | mk oldT row =>
    have hm : w.maskOf e = (w.arch (w.tbl oldT).arch).mask := by simp only [maskOf, hix]
    rw [hm] at h
    simp only [removeCore, bind, M.bind, checkLocked_unlocked w hl, M.get, M.assert, ha, if_true, hemp,
      Bool.not_false, hix, findOrCreateTableRemove_reject oldT _ rem w h]

end World

/-- what `World.add(e, add)` guarantees -/
structure AddPost (w : World) (fl : List Nat) (e : Ent) (add : List Comp) (w' : World) : Prop where
  /-- the invariant is kept, with the same free list -/
  cinv : CInv w' fl
  unlocked : w'.isLocked = w.isLocked
  kinds : w'.kinds = w.kinds
  pool : w'.pool = w.pool
  maxComps : w'.maxComps = w.maxComps
  /-- `Alive` is unchanged for every handle -/
  aliveSame : ∀ x : Ent, w'.alive x = w.alive x
  /-- the component set is the enlarged mask -/
  comps : compsOf w' e.id = some ((add.foldl Mask.set (w.maskOf e)).toList w.kinds.length)
  /-- the components the entity had keep their values -/
  kept : ∀ c : Comp, (w.maskOf e).get c = true → valOf w' e.id c = valOf w e.id c
  /-- the added components read the zero value -/
  added : ∀ c : Comp, c ∈ add → valOf w' e.id c = some 0
  /-- every other entity is unchanged -/
  frame : ∀ j : Nat, j ≠ e.id → SameEnt w w' j
  tablesLen : w'.tables.length ≤ w.tables.length + 1
  entitiesLen : w'.entities.length = w.entities.length

/-- **addCore_spec** — `World.add(e, add)` for a live handle `e` (ID ≥ 2, not on the free list),
    `add` non-empty, distinct, registered, none of them in the entity's mask, on an unlocked world
    whose table count and row counts leave room for one more. -/
theorem addCore_spec {w : World} {fl : List Nat} (h : CInv w fl) (hl : w.isLocked = false)
    {e : Ent} (h2 : 2 ≤ e.id) (hnf : e.id ∉ fl) (ha : w.alive e = true)
    (hin : e.id < w.pool.ents.length)
    {add : List Comp} (hne : add ≠ []) (hnd : add.Nodup)
    (hreg : ∀ (c : Comp), c ∈ add → c < w.kinds.length)
    (hnew : ∀ (c : Comp), c ∈ add → (w.maskOf e).get c = false)
    (hfew : w.tables.length < maxU32) (hrows : ∀ t : Nat, (w.tbl t).len + 1 < 2 ^ 32) :
    ∃ w', addCore e add [] w = .ok (w.maskOf e, add.foldl Mask.set (w.maskOf e)) w' ∧
      AddPost w fl e add w' := by
  obtain ⟨oldT, row, he, ht, _⟩ := h.live_entry h2 hnf ha hin
  have hix := index_of_get he
  have hm : w.maskOf e = (w.arch (w.tbl oldT).arch).mask := by simp only [maskOf, hix]
  obtain ⟨holdlt, _, _, halt, _, _⟩ := h.table_of_entry he ht
  have hb256 : ∀ (c : Comp), c ∈ add → c < 256 := fun c hc => h.reg_lt_256 (hreg c hc)
  obtain ⟨t, a, w1, hok, fc, _, hsame, hneT⟩ :=
    h.sinv.findOrCreateTableAdd_spec h.idx holdlt (startMask := w.maskOf e) hm (h.noRelArch' halt)
      hnd hnew hreg (fun c _ => h.noRelKinds c)
  have hu := findOrCreateTableAdd_untouched hok
  have hlen1 := findOrCreateTableAdd_tables_len hok
  obtain ⟨mp, hma⟩ := h.move_spec he ht fc hu hsame (hneT hne hb256) hlen1 hfew hrows
  have hok' := hok
  rw [hm] at hok'
  have heq := addCore_eq e add w hl ha hne hix hok'
  rw [← hm] at heq
  rw [hma] at heq
  refine ⟨_, heq, ?_⟩
  · rw [← hm] at mp
    exact
      { cinv := mp.cinv
        unlocked := mp.unlocked
        kinds := mp.kinds
        pool := mp.pool
        maxComps := mp.maxComps
        aliveSame := mp.aliveSame
        comps := mp.comps
        kept := by
          intro c hc
          have hlt := (h.comps_of_live h2 hnf ha hin).2 c hc
          have hn : (add.foldl Mask.set (w.maskOf e)).get c = true := by
            rw [Mask.get_ofList_foldl, hc]; rfl
          rw [mp.vals c hlt hn, if_pos hc]
        added := by
          intro c hc
          have hn : (add.foldl Mask.set (w.maskOf e)).get c = true := by
            rw [Mask.get_ofList_foldl]; simp [hb256 c hc, hc]
          rw [mp.vals c (hreg c hc) hn, if_neg (by rw [hnew c hc]; simp)]
        frame := mp.frame
        tablesLen := mp.tablesLen
        entitiesLen := mp.entitiesLen }

/-- what `World.remove(e, rem)` guarantees -/
structure RemovePost (w : World) (fl : List Nat) (e : Ent) (rem : List Comp) (w' : World) : Prop where
  cinv : CInv w' fl
  unlocked : w'.isLocked = w.isLocked
  kinds : w'.kinds = w.kinds
  pool : w'.pool = w.pool
  maxComps : w'.maxComps = w.maxComps
  aliveSame : ∀ x : Ent, w'.alive x = w.alive x
  /-- the component set is the reduced mask -/
  comps : compsOf w' e.id = some ((rem.foldl Mask.clear (w.maskOf e)).toList w.kinds.length)
  /-- the components that stay keep their values -/
  kept : ∀ c : Comp, (w.maskOf e).get c = true → c ∉ rem → valOf w' e.id c = valOf w e.id c
  /-- the removed components are gone -/
  gone : ∀ c : Comp, c ∈ rem → valOf w' e.id c = none
  frame : ∀ j : Nat, j ≠ e.id → SameEnt w w' j
  tablesLen : w'.tables.length ≤ w.tables.length + 1
  entitiesLen : w'.entities.length = w.entities.length

/-- **removeCore_spec** — `World.remove(e, rem)` for a live handle, `rem` non-empty, distinct,
    all of them in the entity's mask (no observers: the event block is skipped; the callback
    runner is not consulted). -/
theorem removeCore_spec (run : ProbeRunner) {w : World} {fl : List Nat} (h : CInv w fl)
    (hl : w.isLocked = false) {e : Ent} (h2 : 2 ≤ e.id) (hnf : e.id ∉ fl) (ha : w.alive e = true)
    (hin : e.id < w.pool.ents.length)
    {rem : List Comp} (hne : rem ≠ []) (hnd : rem.Nodup)
    (hpres : ∀ (c : Comp), c ∈ rem → (w.maskOf e).get c = true)
    (hfew : w.tables.length < maxU32) (hrows : ∀ t : Nat, (w.tbl t).len + 1 < 2 ^ 32) :
    ∃ w', removeCore run e rem w = .ok () w' ∧ RemovePost w fl e rem w' := by
  obtain ⟨oldT, row, he, ht, _⟩ := h.live_entry h2 hnf ha hin
  have hix := index_of_get he
  have hm : w.maskOf e = (w.arch (w.tbl oldT).arch).mask := by simp only [maskOf, hix]
  obtain ⟨holdlt, _, _, halt, _, _⟩ := h.table_of_entry he ht
  obtain ⟨t, a, w1, hok, fc, _, hu, hsame, hneT⟩ :=
    h.sinv.findOrCreateTableRemove_spec h.idx h.noRelKinds holdlt (startMask := w.maskOf e) hm
      hnd hpres
  have hlen1 : w1.tables.length ≤ w.tables.length + 1 := by
    have hrel0 : (w.tbl oldT).relIDs = [] := h.relIDs_nil holdlt
    have hg := graphFindRemove_ok (w.maskOf e) rem w hpres hnd
    rw [findOrCreateTableRemove_eq_add oldT _ _ rem w hg hrel0] at hok
    cases hadd : findOrCreateTableAdd oldT (rem.foldl Mask.clear (w.maskOf e)) [] [] w with
    | panic k s => rw [hadd] at hok; cases hok
    | ok r s =>
      rw [hadd] at hok
      injection hok with _ hs
      subst hs
      exact findOrCreateTableAdd_tables_len hadd
  obtain ⟨mp, _⟩ := h.move_spec he ht fc hu hsame (hneT hne) hlen1 hfew hrows
  have hok' := hok
  rw [hm] at hok'
  have heq := removeCore_eq run e rem w hl ha hne hix hok' (by rw [hu.obs]; exact h.noObs)
  rw [← hm] at heq
  refine ⟨_, heq, ?_⟩
  rw [← hm] at mp
  have hgone : ∀ c : Comp, c ∈ rem → (rem.foldl Mask.clear (w.maskOf e)).get c = false := by
    intro c hc; rw [Mask.get_foldl_clear]; simp [hc]
  exact
    { cinv := mp.cinv
      unlocked := mp.unlocked
      kinds := mp.kinds
      pool := mp.pool
      maxComps := mp.maxComps
      aliveSame := mp.aliveSame
      comps := mp.comps
      kept := by
        intro c hc hnr
        have hlt := (h.comps_of_live h2 hnf ha hin).2 c hc
        have hn : (rem.foldl Mask.clear (w.maskOf e)).get c = true := by
          rw [Mask.get_foldl_clear, hc]; simp [hnr]
        rw [mp.vals c hlt hn, if_pos hc]
      gone := by
        intro c hc
        apply valOf_none_of_comps mp.comps
        rw [Mask.mem_toList, hgone c hc]
        simp
      frame := mp.frame
      tablesLen := mp.tablesLen
      entitiesLen := mp.entitiesLen }

/-! ## 7. writes: the value most recently written -/

/-- the value of component `c` after the writes `vals` (in order), starting from `init`:
    the last pair for `c` wins -/
def applyVals (init : Val) (vals : List (Comp × Val)) (c : Comp) : Val :=
  vals.foldl (fun acc (cv : Comp × Val) => if cv.1 = c then cv.2 else acc) init

/-- the last value written to `c` in `vals`, if any -/
def lastVal : List (Comp × Val) → Comp → Option Val
  | [], _ => none
  | cv :: rest, c =>
    match lastVal rest c with
    | some v => some v
    | none => if cv.1 = c then some cv.2 else none

theorem applyVals_cons (init : Val) (cv : Comp × Val) (vals : List (Comp × Val)) (c : Comp) :
    applyVals init (cv :: vals) c = applyVals (if cv.1 = c then cv.2 else init) vals c := rfl

theorem applyVals_eq_lastVal (vals : List (Comp × Val)) (c : Comp) : ∀ init : Val,
    applyVals init vals c = (lastVal vals c).getD init := by
  induction vals with
  | nil => intro init; rfl
  | cons cv rest ih =>
    intro init
    rw [applyVals_cons, ih]
    simp only [lastVal]
    cases lastVal rest c with
    | some v => rfl
    | none => by_cases hc : cv.1 = c <;> simp [hc]

theorem lastVal_none_iff (vals : List (Comp × Val)) (c : Comp) :
    lastVal vals c = none ↔ ∀ cv ∈ vals, cv.1 ≠ c := by
  induction vals with
  | nil => simp [lastVal]
  | cons cv rest ih =>
    simp only [lastVal, List.mem_cons, forall_eq_or_imp]
    cases hl : lastVal rest c with
    | some v =>
      simp only [reduceCtorEq, false_iff]
      intro hh
      rw [ih.mpr hh.2] at hl; cases hl
    | none =>
      have := ih.mp hl
      by_cases hc : cv.1 = c
      · simp [hc]
      · simp only [hc, if_false, ne_eq, not_false_eq_true, true_and, true_iff]
        exact this

/-- `lastVal` is the value of the LAST pair for `c` -/
theorem lastVal_eq_some_iff (vals : List (Comp × Val)) (c : Comp) (v : Val) :
    lastVal vals c = some v ↔
      ∃ pre post, vals = pre ++ (c, v) :: post ∧ ∀ cv ∈ post, cv.1 ≠ c := by
  induction vals with
  | nil => simp [lastVal]
  | cons cv rest ih =>
    simp only [lastVal]
    cases hl : lastVal rest c with
    | some v' =>
      simp only [Option.some.injEq]
      constructor
      · intro hv
        subst hv
        obtain ⟨pre, post, he, hp⟩ := ih.mp hl
        exact ⟨cv :: pre, post, by rw [he]; rfl, hp⟩
      · rintro ⟨pre, post, he, hp⟩
        cases pre with
        | nil =>
          simp only [List.nil_append, List.cons.injEq] at he
          have hnone := (lastVal_none_iff rest c).mpr (by rw [he.2]; exact hp)
          rw [hnone] at hl; cases hl
        | cons x pre =>
          simp only [List.cons_append, List.cons.injEq] at he
          have := ih.mpr ⟨pre, post, he.2, hp⟩
          rw [hl] at this
          exact Option.some.inj this
    | none =>
      have hnone := (lastVal_none_iff rest c).mp hl
      by_cases hc : cv.1 = c
      · simp only [hc, if_true, Option.some.injEq]
        constructor
        · intro hv
          exact ⟨[], rest, by rw [← hv, ← hc]; rfl, hnone⟩
        · rintro ⟨pre, post, he, hp⟩
          cases pre with
          | nil =>
            simp only [List.nil_append, List.cons.injEq] at he
            rw [he.1]
          | cons x pre =>
            simp only [List.cons_append, List.cons.injEq] at he
            exact absurd rfl (hnone (c, v) (by rw [he.2]; simp))
      · simp only [hc, if_false, reduceCtorEq, false_iff]
        rintro ⟨pre, post, he, hp⟩
        cases pre with
        | nil =>
          simp only [List.nil_append, List.cons.injEq] at he
          rw [he.1] at hc; exact hc rfl
        | cons x pre =>
          simp only [List.cons_append, List.cons.injEq] at he
          exact absurd rfl (hnone (c, v) (by rw [he.2]; simp))

/-- the cell of component `c` (column `j`) in row `row` after a sequence of writes into that
    row: unchanged for a zero-size column, otherwise the last value written to `c` -/
theorem getComp_writeFold (c : Comp) (j row : Nat) : ∀ (vals : List (Comp × Val)) (T : Table),
    T.Shape → T.colIdx c = some j → row < T.len →
    (vals.foldl (fun T (cv : Comp × Val) => T.setComp cv.1 row cv.2) T).getComp c row =
      some (if T.zst.getD j false = true then T.cell j row else applyVals (T.cell j row) vals c)
  | [], T, _, hj, _ => by
    simp only [List.foldl_nil, Table.getComp, hj, Option.map_some, applyVals, ite_self]
  | cv :: vals, T, hS, hj, hrow => by
    have hw := Table.setComp_writeRel T cv.1 row cv.2 hrow
    simp only [List.foldl_cons]
    rw [getComp_writeFold c j row vals _ (hw.shape hS) (by rw [hw.colIdx]; exact hj)
      (by rw [hw.len]; exact hrow), hw.zst, applyVals_cons]
    have hcell : (T.setComp cv.1 row cv.2).cell j row =
        if T.zst.getD j false = true then T.cell j row
        else if cv.1 = c then cv.2 else T.cell j row := by
      by_cases hc : cv.1 = c
      · rw [if_pos hc]
        simp only [Table.setComp, hc, hj]
        cases hz : T.zst.getD j false with
        | true => rw [Table.setCell_zst T j row cv.2 hz]; rfl
        | false =>
          simp only [Bool.false_eq_true, if_false]
          exact Table.setCell_cell_self hS j row cv.2 (Table.colIdx_lt hj) hz
            (by have := hS.len_le; omega)
      · rw [if_neg hc, ite_self]
        have := getComp_setComp_ne T (c := c) (c' := cv.1) (fun hh => hc hh.symm) row cv.2 row
        simp only [Table.getComp, hw.colIdx, hj, Option.map_some, Option.some.injEq] at this
        exact this
    rw [hcell]
    cases hz : T.zst.getD j false with
    | true => simp
    | false => simp

/-- **last write wins**: after `writeVals e vals`, a component `c` the entity has reads the
    last value written to `c` in `vals` (its old value if `vals` does not mention it); a zero-size
    component keeps reading what it read before (zero, see `valOf_zst`). -/
theorem valOf_writeVals {w : World} (h : IdxInv w) (hS : SInvMid w) {e : Ent} {t row : Nat}
    (he : w.entities[e.id]? = some (t, row)) (ht : t ≠ maxU32) (vals : List (Comp × Val))
    {c : Comp} {v : Val} (hv : valOf w e.id c = some v) :
    valOf (writeValsW w e vals) e.id c =
      some (if (w.kinds.getD c {}).zst = true then v else applyVals v vals c) := by
  obtain ⟨hT, hrow, _⟩ := h.indexed he ht
  have hix := index_of_get he
  have hWV : writeValsW w e vals = w.setTbl t
      (vals.foldl (fun T (cv : Comp × Val) => T.setComp cv.1 row cv.2) (w.tbl t)) := by
    simp only [writeValsW, hix]; rfl
  have hTn : (writeValsW w e vals).tables[t]? = some
      (vals.foldl (fun T (cv : Comp × Val) => T.setComp cv.1 row cv.2) (w.tbl t)) := by
    rw [hWV]; exact setTbl_get_self _ (lt_of_get hT)
  have hEn : (writeValsW w e vals).entities = w.entities := by rw [hWV]; rfl
  simp only [valOf, he, ht, if_false, hT, Option.bind_some, Table.getComp] at hv
  cases hj : (w.tbl t).colIdx c with
  | none => rw [hj] at hv; cases hv
  | some j =>
    rw [hj] at hv
    simp only [Option.map_some, Option.some.injEq] at hv
    simp only [valOf, hEn, he, ht, if_false, hTn, Option.bind_some]
    rw [getComp_writeFold c j row vals _ (h.shape t _ hT) hj hrow, hS.tbl_zst hT hj, hv]

/-- a zero-size component reads zero -/
theorem valOf_zst {w : World} (h : IdxInv w) (hS : SInvMid w) {i : Nat} {c : Comp} {v : Val}
    (hv : valOf w i c = some v) (hz : (w.kinds.getD c {}).zst = true) : v = 0 := by
  unfold valOf at hv
  cases hx : w.entities[i]? with
  | none => rw [hx] at hv; cases hv
  | some p =>
    obtain ⟨t, r⟩ := p
    rw [hx] at hv
    simp only at hv
    by_cases ht : t = maxU32
    · rw [if_pos ht] at hv; cases hv
    · rw [if_neg ht] at hv
      obtain ⟨T, hT, _, _⟩ := h.idxRow i t r hx ht
      rw [hT] at hv
      simp only [Option.bind_some, Table.getComp] at hv
      cases hj : T.colIdx c with
      | none => rw [hj] at hv; cases hv
      | some j =>
        rw [hj] at hv
        simp only [Option.map_some, Option.some.injEq] at hv
        rw [← hv]
        exact (h.shape t T hT).zst_zero j (by rw [hS.tbl_zst hT hj]; exact hz) r

/-- what `writeVals e vals` on a live entity guarantees -/
structure WritePost (w : World) (fl : List Nat) (e : Ent) (vals : List (Comp × Val)) (w' : World) :
    Prop where
  cinv : CInv w' fl
  unlocked : w'.isLocked = w.isLocked
  kinds : w'.kinds = w.kinds
  pool : w'.pool = w.pool
  maxComps : w'.maxComps = w.maxComps
  aliveSame : ∀ x : Ent, w'.alive x = w.alive x
  comps : compsOf w' e.id = compsOf w e.id
  /-- last write wins (zero-size components are not written) -/
  vals : ∀ (c : Comp) (v : Val), valOf w e.id c = some v →
    valOf w' e.id c = some (if (w.kinds.getD c {}).zst = true then v else applyVals v vals c)
  /-- a component the entity lacks stays absent -/
  absent : ∀ c : Comp, valOf w e.id c = none → valOf w' e.id c = none
  frame : ∀ j : Nat, j ≠ e.id → SameEnt w w' j
  tablesLen : w'.tables.length = w.tables.length
  entitiesLen : w'.entities.length = w.entities.length
  rowsLen : ∀ t : Nat, (w'.tbl t).len = (w.tbl t).len

/-- `writeVals` on a live entity keeps the invariant, changes only that entity's values, and the
    last value written to a component wins -/
theorem CInv.writeVals {w : World} {fl : List Nat} (h : CInv w fl) {e : Ent} (h2 : 2 ≤ e.id)
    (hnf : e.id ∉ fl) (ha : w.alive e = true)
    (hin : e.id < w.pool.ents.length) (vals : List (Comp × Val)) :
    WritePost w fl e vals (writeValsW w e vals) := by
  obtain ⟨t, row, he, ht, _⟩ := h.live_entry h2 hnf ha hin
  obtain ⟨hT, hrow, _⟩ := h.idx.indexed he ht
  have hlt := lt_of_get hT
  have hix := index_of_get he
  have hw := writeVals_writeRel (w.tbl t) row vals hrow
  have hWV : writeValsW w e vals = w.setTbl t
      (vals.foldl (fun T (cv : Comp × Val) => T.setComp cv.1 row cv.2) (w.tbl t)) := by
    simp only [writeValsW, hix]; rfl
  have hlen : (writeValsW w e vals).tables.length = w.tables.length := by
    rw [hWV, setTbl_tables, List.length_set]
  have htbl : ∀ t' : Nat, Table.SameMeta (w.tbl t') ((writeValsW w e vals).tbl t') ∧
      ((writeValsW w e vals).tbl t').len = (w.tbl t').len := by
    intro t'
    by_cases htt : t' = t
    · subst htt
      rw [hWV, setTbl_tbl_self _ hlt]
      exact ⟨writeFold_sameMeta row vals _, hw.len⟩
    · rw [hWV, setTbl_tbl_ne w _ (Ne.symm htt)]
      exact ⟨Table.SameMeta.refl _, rfl⟩
  obtain ⟨f1, f2, f3⟩ := write_frame h.idx e vals he ht
  have hI' := h.idx.writeVals e vals he ht
  have hS' : SInv (writeValsW w e vals) :=
    h.sinv.of_sameMeta rfl rfl hlen (fun t' _ => (htbl t').1)
  exact
    { cinv := h.transfer hI' hS' rfl ⟨rfl, fun _ => Or.inl rfl⟩ rfl ⟨rfl, rfl, rfl, rfl⟩
        (by rw [hlen]; exact h.fewTables)
      unlocked := rfl
      kinds := rfl
      pool := rfl
      maxComps := rfl
      aliveSame := fun _ => rfl
      comps := f3
      vals := fun c v hv => valOf_writeVals h.idx h.sinv.toSInvMid he ht vals hv
      absent := by
        intro c hc
        cases hcs : compsOf w e.id with
        | none =>
          simp only [compsOf, he, ht, if_false, hT, Option.map_some] at hcs
          cases hcs
        | some cs =>
          have hnm : c ∉ cs := by
            intro hm
            simp only [compsOf, he, ht, if_false, hT, Option.map_some, Option.some.injEq] at hcs
            subst hcs
            obtain ⟨j, hj⟩ := colIdx_some_iff_mem.mpr hm
            simp only [valOf, he, ht, if_false, hT, Option.bind_some, Table.getComp, hj,
              Option.map_some] at hc
            cases hc
          exact valOf_none_of_comps (f3.trans hcs) hnm
      frame := f1
      tablesLen := hlen
      entitiesLen := rfl
      rowsLen := fun t' => (htbl t').2 }

/-! ## 8. creation and removal of an entity in an arbitrary table -/

namespace World

theorem placedW_fields (w : World) (t : Nat) (rt : Bool) :
    (placedW w t rt).kinds = w.kinds ∧ (placedW w t rt).archetypes = w.archetypes ∧
    (placedW w t rt).maxComps = w.maxComps := by
  refine ⟨?_, ?_, ?_⟩ <;>
  · simp only [placedW]
    split <;> rfl

theorem placedW_isTarget' (w : World) (t : Nat) (rt : Bool) :
    (placedW w t rt).isTarget =
      if (w.pool.get).2.id = w.entities.length then w.isTarget ++ [false]
      else if rt = true then w.isTarget.set (w.pool.get).2.id false else w.isTarget := by
  simp only [placedW]
  by_cases hb : (w.pool.get).2.id = w.entities.length
  · simp only [setTbl_entities, hb, beq_self_eq_true, if_true]; rfl
  · have : ((w.pool.get).2.id == w.entities.length) = false := by simpa using hb
    simp only [setTbl_entities, this, hb, if_false, Bool.false_eq_true]; rfl

theorem removeRowOf_fields (w : World) (e : Ent) (t row : Nat) :
    (removeRowOf w e t row).kinds = w.kinds ∧ (removeRowOf w e t row).archetypes = w.archetypes ∧
    (removeRowOf w e t row).maxComps = w.maxComps := by
  refine ⟨?_, ?_, ?_⟩ <;>
  · simp only [removeRowOf]
    split <;> rfl

end World

/-- what taking a handle from the pool and placing it in table `t` guarantees -/
structure PlacedPost (w : World) (fl : List Nat) (t : Nat) (e : Ent) (w' : World) : Prop where
  /-- the invariant is kept; the free list loses its head (if any) -/
  cinv : CInv w' fl.tail
  unlocked : w'.isLocked = w.isLocked
  kinds : w'.kinds = w.kinds
  maxComps : w'.maxComps = w.maxComps
  pool : w'.pool = (w.pool.get).1
  ge2 : 2 ≤ e.id
  /-- the ID was not in use: a brand-new slot, or the head of the free list -/
  unused : (e.id = w.entities.length ∧ fl = [] ∧ e.gen = 0) ∨
    (e.id < w.entities.length ∧ fl = e.id :: fl.tail)
  notin : e.id ∉ fl.tail
  alive : w'.alive e = true
  /-- the handle's slot is in the pool slice -/
  inPool : w'.pool.ents[e.id]? = some e
  aliveFrame : ∀ h : Ent, h.id ≠ e.id → w'.alive h = w.alive h
  frame : ∀ j : Nat, j ≠ e.id → SameEnt w w' j
  /-- every previously alive handle is another entity, stays alive and keeps everything -/
  live : ∀ h : Ent, h.id ∉ fl → w.alive h = true → h.id < w.pool.ents.length →
    h ≠ e ∧ h.id ≠ e.id ∧ w'.alive h = true ∧ SameEnt w w' h.id
  /-- the new entity has the components of table `t`, all reading zero -/
  comps : compsOf w' e.id = some (w.tbl t).ids
  zero : ∀ c : Comp, c ∈ (w.tbl t).ids → valOf w' e.id c = some 0
  tablesLen : w'.tables.length = w.tables.length
  entitiesLen : w'.entities.length ≤ w.entities.length + 1

/-- **placement**: `placeNew t rt` (the body of `createEntity` / `newEntity`) for an existing
    table `t` with room for one more row. -/
theorem CInv.placed {w : World} {fl : List Nat} (h : CInv w fl) {t : Nat}
    (hlt : t < w.tables.length) (rt : Bool) (hb : (w.tbl t).len + 1 < 2 ^ 32) :
    PlacedPost w fl t (w.pool.get).2 (placedW w t rt) := by
  have g := Pool.get_spec w.pool fl h.pool
  obtain ⟨hE, hT⟩ := placedW_place w t rt
  obtain ⟨fk, fa, fm⟩ := placedW_fields w t rt
  have hTt := get_of_lt hlt
  have hSt := h.idx.shape t _ hTt
  have htm : t ≠ maxU32 := by have := h.fewTables; omega
  have hle : (w.pool.get).2.id ≤ w.entities.length := by
    rw [h.lenEq]; rcases g.cases with ⟨a, _⟩ | ⟨a, _⟩ <;> omega
  have hL : ∀ i : Nat, (placedW w t rt).entities[i]? =
      if i = (w.pool.get).2.id then some (t, (w.tbl t).len) else w.entities[i]? := by
    intro i; rw [hE]; exact place_lookup w _ t hle i
  have hlen : (placedW w t rt).entities.length =
      if (w.pool.get).2.id = w.entities.length then w.entities.length + 1
      else w.entities.length := by
    rw [hE, place_entities]
    split
    · simp only [List.length_append, List.length_singleton]
    · simp only [List.length_set]
  have hmemfl : (w.pool.get).2.id = w.entities.length ∨ (w.pool.get).2.id ∈ fl := by
    rcases g.cases with ⟨a, _⟩ | ⟨_, b, _⟩
    · left; rw [h.lenEq]; exact a
    · right; rw [b]; exact List.mem_cons_self
  have hfree : ∀ t' r' : Nat, w.entities[(w.pool.get).2.id]? = some (t', r') →
      w.tables.length ≤ t' := by
    intro t' r' hx
    rcases hmemfl with a | a
    · rw [a, List.getElem?_eq_none (Nat.le_refl _)] at hx; cases hx
    · obtain ⟨r, hr⟩ := h.freeUnindexed _ a
      rw [hr] at hx
      obtain ⟨rfl, _⟩ := Prod.mk.inj (Option.some.inj hx)
      exact h.fewTables
  have hidx : IdxInv (placedW w t rt) :=
    (h.idx.place (w.pool.get).2 hlt hb hle (h.idx.fresh_of_free _ hfree)).congr hE hT
  have hTab : (placedW w t rt).tables = w.tables.set t ((w.tbl t).add (w.pool.get).2).1 := by
    rw [hT, place_tables]
  have htlen : (placedW w t rt).tables.length = w.tables.length := by
    rw [hTab, List.length_set]
  have htblt : (placedW w t rt).tbl t = ((w.tbl t).add (w.pool.get).2).1 :=
    tbl_of_get (by rw [hTab]; exact List.getElem?_set_self hlt)
  have hsinv : SInv (placedW w t rt) := by
    apply h.sinv.of_sameMeta fa fk htlen
    intro t' _
    by_cases htt : t' = t
    · subst htt; rw [htblt]; exact Table.add_sameMeta _ _
    · have : (placedW w t rt).tbl t' = w.tbl t' := by
        simp only [tbl, hTab, List.getD_eq_getElem?_getD, List.getElem?_set_ne (Ne.symm htt)]
      rw [this]; exact Table.SameMeta.refl _
  have hst' : ∀ e ∈ (placedW w t rt).pool.stale, e.gen = maxU32 := by
    rw [placedW_pool]
    exact fun e he => h.stale e (Pool.get_stale_sub w.pool e he)
  have hliveNe : ∀ x : Ent, x.id ∉ fl → x.id < w.pool.ents.length → x.id ≠ (w.pool.get).2.id := by
    intro x hnf hlt' heq
    rcases hmemfl with a | a
    · rw [h.lenEq] at a; omega
    · exact hnf (heq ▸ a)
  have hAF : ∀ x : Ent, x.id ≠ (w.pool.get).2.id → (placedW w t rt).alive x = w.alive x := by
    intro x hx
    show (placedW w t rt).pool.alive x = w.pool.alive x
    rw [placedW_pool]
    exact Pool.get_alive_frame w.pool fl h.pool x hx
  have hFr : ∀ j : Nat, j ≠ (w.pool.get).2.id → SameEnt w (placedW w t rt) j :=
    fun j hj => (same_place h.idx _ t hle hj).congr hE hT
  have hcinv : CInv (placedW w t rt) fl.tail := by
    refine
      { idx := hidx
        sinv := hsinv
        pool := by rw [placedW_pool]; exact g.pinv
        stale := hst'
        lenEq := by rw [hlen, placedW_pool, g.length, h.lenEq]
        tgtLen := ?_
        freeUnindexed := ?_
        reservedUnindexed := ?_
        liveIndexed := ?_
        fewTables := by rw [htlen]; exact h.fewTables
        noRelKinds := by rw [fk]; exact h.noRelKinds
        kindsLe := by rw [fk, fm]; exact h.kindsLe
        noTargets := ?_
        noObs := by intro evt; rw [placedW_obs]; exact h.noObs evt }
    · rw [hlen, placedW_isTarget']
      split
      · simp only [List.length_append, List.length_singleton, h.tgtLen]
      · split
        · simp only [List.length_set, h.tgtLen]
        · exact h.tgtLen
    · intro i hi
      have hne : i ≠ (w.pool.get).2.id := fun hh => g.notin (hh ▸ hi)
      rw [hL, if_neg hne]
      exact h.freeUnindexed i (List.mem_of_mem_tail hi)
    · intro i hi
      have hne : i ≠ (w.pool.get).2.id := by have := g.ge2; omega
      rw [hL, if_neg hne]
      exact h.reservedUnindexed i hi
    · intro i h2 hlt' hnf
      rw [hL]
      by_cases hne : i = (w.pool.get).2.id
      · rw [if_pos hne]
        exact ⟨t, _, rfl, htm⟩
      · rw [if_neg hne]
        rw [hlen] at hlt'
        rcases g.cases with ⟨a, b, _⟩ | ⟨a, b, _⟩
        · rw [h.lenEq.symm] at a
          rw [if_pos a] at hlt'
          exact h.liveIndexed i h2 (by omega) (by rw [b]; simp)
        · rw [h.lenEq.symm] at a
          rw [if_neg (by omega)] at hlt'
          refine h.liveIndexed i h2 hlt' ?_
          rw [b]
          intro hm
          rcases List.mem_cons.mp hm with hm | hm
          · exact hne hm
          · exact hnf hm
    · intro i
      rw [placedW_isTarget']
      split
      · exact getD_false_append h.noTargets i
      · split
        · exact getD_false_set h.noTargets _ i
        · exact h.noTargets i
  have hentE : (placedW w t rt).entities[(w.pool.get).2.id]? = some (t, (w.tbl t).len) := by
    rw [hL, if_pos rfl]
  have htabE : (placedW w t rt).tables[t]? = some ((w.tbl t).add (w.pool.get).2).1 := by
    rw [hTab]; exact List.getElem?_set_self hlt
  refine
    { cinv := hcinv
      unlocked := by
        show (placedW w t rt).locks.isLocked = w.locks.isLocked
        rw [placedW_locks]
      kinds := fk
      maxComps := fm
      pool := placedW_pool w t rt
      ge2 := g.ge2
      unused := ?_
      notin := g.notin
      alive := ?_
      inPool := by rw [placedW_pool]; exact g.slot
      aliveFrame := hAF
      frame := hFr
      live := ?_
      comps := ?_
      zero := ?_
      tablesLen := htlen
      entitiesLen := by rw [hlen]; split <;> omega }
  · rcases g.cases with ⟨a, b, c⟩ | ⟨a, b, _⟩
    · exact Or.inl ⟨by rw [h.lenEq]; exact a, b, c⟩
    · exact Or.inr ⟨by rw [h.lenEq]; exact a, b⟩
  · have hsl : (placedW w t rt).pool.ents[(w.pool.get).2.id]? = some (w.pool.get).2 := by
      rw [placedW_pool]; exact g.slot
    exact (hcinv.aliveIff (w.pool.get).2 g.notin (List.getElem?_eq_some_iff.mp hsl).1).mpr hsl
  · intro x hnf ha hlt'
    have hne := hliveNe x hnf hlt'
    exact ⟨fun hh => hne (by rw [hh]), hne, by rw [hAF x hne]; exact ha, hFr x.id hne⟩
  · simp only [compsOf, hentE, htm, if_false, htabE, Option.map_some, Table.add_ids]
  · intro c hc
    obtain ⟨j, hj⟩ := colIdx_some_iff_mem.mpr hc
    have hjN : ((w.tbl t).add (w.pool.get).2).1.colIdx c = some j := by
      simp only [Table.colIdx, Table.add_ids]; exact hj
    have hzero : ((w.tbl t).add (w.pool.get).2).1.cell j (w.tbl t).len = 0 := by
      have := Table.add_new_row_zero hSt (w.pool.get).2 j
      rw [Table.add_snd] at this; exact this
    simp only [valOf, hentE, htm, if_false, htabE, Option.bind_some, Table.getComp, hjN,
      Option.map_some, hzero]

/-- what `RemoveEntity` of a live handle guarantees -/
structure RemovedPost (w : World) (fl : List Nat) (e : Ent) (w' : World) : Prop where
  /-- the invariant is kept; the ID is pushed on the free list -/
  cinv : CInv w' (e.id :: fl)
  unlocked : w'.isLocked = w.isLocked
  kinds : w'.kinds = w.kinds
  maxComps : w'.maxComps = w.maxComps
  pool : w'.pool = w.pool.recycle e
  dead : w'.alive e = false
  aliveFrame : ∀ h : Ent, h.id ≠ e.id → w'.alive h = w.alive h
  frame : ∀ j : Nat, j ≠ e.id → SameEnt w w' j
  live : ∀ h : Ent, h.id ∉ fl → w.alive h = true → h.id < w.pool.ents.length → h ≠ e →
    h.id ≠ e.id ∧ w'.alive h = true ∧ SameEnt w w' h.id
  unindexed : (∀ c : Comp, valOf w' e.id c = none) ∧ compsOf w' e.id = none
  tablesLen : w'.tables.length = w.tables.length
  entitiesLen : w'.entities.length = w.entities.length

/-- **removal**: the removal block of `RemoveEntity` for a live handle in any table. -/
theorem CInv.removed {w : World} {fl : List Nat} (h : CInv w fl) {e : Ent} (h2 : 2 ≤ e.id)
    (hnf : e.id ∉ fl) (ha : w.alive e = true)
    (hin : e.id < w.pool.ents.length) :
    ∃ t row, w.index e.id = (t, row) ∧ RemovedPost w fl e (removeRowOf w e t row) := by
  obtain ⟨t, row, he, ht, hs⟩ := h.live_entry h2 hnf ha hin
  refine ⟨t, row, index_of_get he, ?_⟩
  obtain ⟨hTt, hrow, hid⟩ := h.idx.indexed he ht
  have hlt := lt_of_get hTt
  obtain ⟨fk, fa, fm⟩ := removeRowOf_fields w e t row
  obtain ⟨rp, rslot, rother, rlen, rstale, _⟩ := Pool.recycle_spec w.pool fl e h.pool h2 hnf hs
  have hE := removeRowOf_entities w e t row
  have hT := removeRowOf_tables w e t row
  have hP := removeRowOf_pool w e t row
  have hse := h.idx.rowIdx t _ ((w.tbl t).len - 1) hTt (by omega)
  have hL : ∀ i : Nat, i ≠ e.id →
      ((removeRowOf w e t row).entities[i]? = some (t, row) ∧
        w.entities[i]? = some (t, (w.tbl t).len - 1)) ∨
      (removeRowOf w e t row).entities[i]? = w.entities[i]? := by
    intro i hi
    rw [hE, unplace_lookup h.idx he ht i, if_neg hi]
    by_cases hc : row ≠ (w.tbl t).len - 1 ∧ i = ((w.tbl t).getEntity ((w.tbl t).len - 1)).id
    · rw [if_pos hc]; left; exact ⟨rfl, by rw [hc.2]; exact hse⟩
    · rw [if_neg hc]; right; rfl
  have hLe : (removeRowOf w e t row).entities[e.id]? = some (maxU32, row) := by
    rw [hE, unplace_lookup h.idx he ht e.id, if_pos rfl]
  have hlen : (removeRowOf w e t row).entities.length = w.entities.length := by
    rw [hE, unplace_entities]; split <;> simp only [List.length_modify]
  have hTab : (removeRowOf w e t row).tables = w.tables.set t ((w.tbl t).remove row).1 := by
    rw [hT, unplace_tables]
  have htlen : (removeRowOf w e t row).tables.length = w.tables.length := by
    rw [hTab, List.length_set]
  have hsinv : SInv (removeRowOf w e t row) := by
    apply h.sinv.of_sameMeta fa fk htlen
    intro t' _
    by_cases htt : t' = t
    · subst htt
      have : (removeRowOf w e t' row).tbl t' = ((w.tbl t').remove row).1 :=
        tbl_of_get (by rw [hTab]; exact List.getElem?_set_self hlt)
      rw [this]; exact Table.remove_sameMeta _ _
    · have : (removeRowOf w e t row).tbl t' = w.tbl t' := by
        simp only [tbl, hTab, List.getD_eq_getElem?_getD, List.getElem?_set_ne (Ne.symm htt)]
      rw [this]; exact Table.SameMeta.refl _
  have hst' : ∀ x ∈ (removeRowOf w e t row).pool.stale, x.gen = maxU32 := by
    rw [hP, rstale]; exact h.stale
  have hAF : ∀ x : Ent, x.id ≠ e.id → (removeRowOf w e t row).alive x = w.alive x := by
    intro x hx
    show (removeRowOf w e t row).pool.alive x = w.pool.alive x
    rw [hP]
    exact Pool.alive_congr_slot x rstale rlen (rother x.id hx)
  have hFr : ∀ j : Nat, j ≠ e.id → SameEnt w (removeRowOf w e t row) j :=
    fun j hj => remove_frame h.idx he ht hj
  have hcinv : CInv (removeRowOf w e t row) (e.id :: fl) := by
    refine
      { idx := h.idx.removeRowOf he ht
        sinv := hsinv
        pool := by rw [hP]; exact rp
        stale := hst'
        lenEq := by rw [hlen, hP, rlen]; exact h.lenEq
        tgtLen := by rw [hlen, removeRowOf_isTarget]; exact h.tgtLen
        freeUnindexed := ?_
        reservedUnindexed := ?_
        liveIndexed := ?_
        fewTables := by rw [htlen]; exact h.fewTables
        noRelKinds := by rw [fk]; exact h.noRelKinds
        kindsLe := by rw [fk, fm]; exact h.kindsLe
        noTargets := by intro i; rw [removeRowOf_isTarget]; exact h.noTargets i
        noObs := by intro evt; rw [removeRowOf_obs]; exact h.noObs evt }
    · intro i hi
      rcases List.mem_cons.mp hi with rfl | hi
      · exact ⟨row, hLe⟩
      · have hne : i ≠ e.id := fun hh => hnf (hh ▸ hi)
        obtain ⟨r, hr⟩ := h.freeUnindexed i hi
        rcases hL i hne with ⟨_, b⟩ | b
        · rw [hr] at b
          exact absurd (Prod.mk.inj (Option.some.inj b)).1.symm ht
        · exact ⟨r, by rw [b]; exact hr⟩
    · intro i hi
      have hne : i ≠ e.id := by omega
      obtain ⟨r, hr⟩ := h.reservedUnindexed i hi
      rcases hL i hne with ⟨_, b⟩ | b
      · rw [hr] at b
        exact absurd (Prod.mk.inj (Option.some.inj b)).1.symm ht
      · exact ⟨r, by rw [b]; exact hr⟩
    · intro i hi2 hlt' hnf'
      have hne : i ≠ e.id := fun hh => hnf' (by rw [hh]; exact List.mem_cons_self)
      have hnf'' : i ∉ fl := fun hh => hnf' (List.mem_cons_of_mem _ hh)
      rcases hL i hne with ⟨a, _⟩ | b
      · exact ⟨t, row, a, ht⟩
      · rw [b]; exact h.liveIndexed i hi2 (by rw [← hlen]; exact hlt') hnf''
  refine
    { cinv := hcinv
      unlocked := by
        show (removeRowOf w e t row).locks.isLocked = w.locks.isLocked
        rw [removeRowOf_locks]
      kinds := fk
      maxComps := fm
      pool := hP
      dead := ?_
      aliveFrame := hAF
      frame := hFr
      live := ?_
      unindexed := ⟨fun c => remove_unindexed h.idx he ht c, ?_⟩
      tablesLen := htlen
      entitiesLen := hlen }
  · show (removeRowOf w e t row).pool.alive e = false
    rw [Pool.alive_of_lt e (by rw [hP, rlen]; exact hin), hP, rslot]
    show (e.gen + 1 == e.gen) = false
    simp
  · intro x hxf hxa hxin hxe
    have hxs := (h.aliveIff x hxf hxin).mp hxa
    have hne : x.id ≠ e.id := by
      intro heq
      rw [heq, hs] at hxs
      exact hxe (Option.some.inj hxs).symm
    exact ⟨hne, by rw [hAF x hne]; exact hxa, hFr x.id hne⟩
  · simp only [compsOf, hLe, if_true]

/-! ## 9. the operations of the API: `Add`, `Remove`, `NewEntity`, `RemoveEntity`, `Set` -/

namespace World

theorem fireAddIfHas_none (run : ProbeRunner) (evt : Nat) (e : Ent) (old new : Mask) (w : World)
    (h : w.obs.hasObservers evt = false) : fireAddIfHas run evt e old new w = .ok () w := by
  simp only [fireAddIfHas, bind, M.bind, M.get, h, Bool.false_eq_true, if_false, pure, M.pure]

/-- without observers, `Add` through any path is `World.add` followed by the writes -/
theorem opAdd_eq (run : ProbeRunner) (p : Path) (e : Ent) (ids : List Comp)
    (vals : List (Comp × Val)) (w : World) (ha : w.alive e = true) {old new : Mask} {w' : World}
    (hcore : addCore e ids [] w = .ok (old, new) w')
    (hno : ∀ evt : Nat, w'.obs.hasObservers evt = false) :
    opAdd run p e ids vals [] w = .ok () (writeValsW w' e vals) := by
  have hno2 : ∀ evt : Nat, (writeValsW w' e vals).obs.hasObservers evt = false := hno
  cases p <;>
  simp [opAdd, preCheck_nil, bind, M.bind, M.get, M.assert, ha,
    hcore, writeVals_eq, fireAddIfHas_none, hno, hno2, pure, M.pure]

/-- a panic of `World.add` is the panic of `Add` (same state) -/
theorem opAdd_panic (run : ProbeRunner) (p : Path) (e : Ent) (ids : List Comp)
    (vals : List (Comp × Val)) (w : World) (ha : w.alive e = true) {k : PanicKind} {w' : World}
    (hcore : addCore e ids [] w = .panic k w') :
    opAdd run p e ids vals [] w = .panic k w' := by
  cases p <;>
  simp [opAdd, preCheck_nil, bind, M.bind, M.get, M.assert, ha,
    hcore, pure, M.pure]

theorem opRemove_eq (run : ProbeRunner) (p : Path) (e : Ent) (ids : List Comp) (w : World)
    (ha : w.alive e = true) : opRemove run p e ids w = removeCore run e ids w := by
  cases p <;> simp [opRemove, bind, M.bind, M.get, M.assert, ha]

/-- **rejection**: `Add` on a dead handle (the paths that check `Alive` first) -/
theorem opAdd_dead (run : ProbeRunner) (p : Path) (e : Ent) (ids : List Comp)
    (vals : List (Comp × Val)) (rels : List RelID) (w : World) (hp : p ≠ .typed)
    (hd : w.alive e = false) : opAdd run p e ids vals rels w = .panic .deadEntity w := by
  cases p <;>
  first
  | exact absurd rfl hp
  | simp [opAdd, bind, M.bind, M.get, M.assert, hd]

/-- **rejection**: `Remove` on a dead handle -/
theorem opRemove_dead (run : ProbeRunner) (p : Path) (e : Ent) (ids : List Comp) (w : World)
    (hp : p ≠ .typed) (hd : w.alive e = false) :
    opRemove run p e ids w = .panic .deadEntity w := by
  cases p <;>
  first
  | exact absurd rfl hp
  | simp [opRemove, bind, M.bind, M.get, M.assert, hd]

/-- without observers, `NewEntity(ids…)` through any path is: table lookup, `placeNew`, writes -/
theorem opNewEntity_eq (run : ProbeRunner) (p : Path) (ids : List Comp)
    (vals : List (Comp × Val)) (w : World) (hl : w.isLocked = false) {t a : Nat} {m : Mask}
    {w1 : World} (hfoc : findOrCreateTableAdd 0 Mask.empty ids [] w = .ok (t, a, m) w1)
    (hno : ∀ evt : Nat, w1.obs.hasObservers evt = false) :
    opNewEntity run p ids vals [] w =
      .ok (w1.pool.get).2 (writeValsW (placedW w1 t false) (w1.pool.get).2 vals) := by
  have hno1 : ∀ evt : Nat, (placedW w1 t false).obs.hasObservers evt = false := by
    intro evt; rw [placedW_obs]; exact hno evt
  have hno2 : ∀ evt : Nat,
      (writeValsW (placedW w1 t false) (w1.pool.get).2 vals).obs.hasObservers evt = false := hno1
  cases p <;>
  simp [opNewEntity, newEntityCore, preCheck, preCheckMap, preCheckTyped, M.forM', bind, M.bind,
    M.get, checkLocked_unlocked w hl, hfoc, placeNew_eq, registerTargets, M.modify, writeVals_eq,
    fireCreateEntityIfHas_none, hno1, hno2, pure, M.pure]

/-- **rejection**: `NewEntity` with a component listed twice panics `alreadyHas`, state unchanged -/
theorem opNewEntity_dup (run : ProbeRunner) (p : Path) (ids : List Comp)
    (vals : List (Comp × Val)) (w : World) (hl : w.isLocked = false)
    (hb : ∀ (c : Comp), c ∈ ids → c < 256) (hd : ¬ ids.Nodup) :
    opNewEntity run p ids vals [] w = .panic .alreadyHas w := by
  have hrej := findOrCreateTableAdd_reject' 0 Mask.empty ids [] w hb (fun hh => hd hh.1)
  cases p <;>
  simp [opNewEntity, newEntityCore, preCheck, preCheckMap, preCheckTyped, M.forM', bind, M.bind,
    checkLocked_unlocked w hl, hrej, pure, M.pure]

end World

/-- a component of the component set reads some value -/
theorem valOf_some_of_comps {w : World} {i : Nat} {cs : List Comp} {c : Comp}
    (h : compsOf w i = some cs) (hc : c ∈ cs) : ∃ v, valOf w i c = some v := by
  unfold compsOf at h
  unfold valOf
  cases hx : w.entities[i]? with
  | none => rw [hx] at h; cases h
  | some p =>
    obtain ⟨t, r⟩ := p
    rw [hx] at h
    simp only at h ⊢
    by_cases ht : t = maxU32
    · rw [if_pos ht] at h; cases h
    · rw [if_neg ht] at h ⊢
      cases hT : w.tables[t]? with
      | none => rw [hT] at h; cases h
      | some T =>
        rw [hT] at h
        simp only [Option.map_some, Option.some.injEq] at h
        subst h
        obtain ⟨j, hj⟩ := colIdx_some_iff_mem.mpr hc
        exact ⟨T.cell j r, by simp only [Option.bind_some, Table.getComp, hj, Option.map_some]⟩

/-- for a live entity: the table has a column for `c` iff `c` is in the entity's mask -/
theorem CInv.has_iff {w : World} {fl : List Nat} (h : CInv w fl) {e : Ent} (h2 : 2 ≤ e.id)
    (hnf : e.id ∉ fl) (ha : w.alive e = true)
    (hin : e.id < w.pool.ents.length) (c : Comp) :
    (w.tbl (w.index e.id).1).has c = true ↔ (w.maskOf e).get c = true := by
  obtain ⟨t, r, he, ht, _⟩ := h.live_entry h2 hnf ha hin
  obtain ⟨_, _, _, halt, hids, _⟩ := h.table_of_entry he ht
  have hm : w.maskOf e = (w.arch (w.tbl t).arch).mask := by simp only [maskOf, index_of_get he]
  rw [index_of_get he, Table.has_iff_mem, hids, Mask.mem_toList, hm]
  exact ⟨fun hh => hh.2, fun hh => ⟨h.sinv.maskReg _ _ (aget_of_lt halt) c hh, hh⟩⟩

/-- what `Add(e, add…)` with the values `vals` guarantees -/
structure OpAddPost (w : World) (fl : List Nat) (e : Ent) (add : List Comp)
    (vals : List (Comp × Val)) (w' : World) : Prop where
  cinv : CInv w' fl
  unlocked : w'.isLocked = w.isLocked
  kinds : w'.kinds = w.kinds
  pool : w'.pool = w.pool
  maxComps : w'.maxComps = w.maxComps
  aliveSame : ∀ x : Ent, w'.alive x = w.alive x
  comps : compsOf w' e.id = some ((add.foldl Mask.set (w.maskOf e)).toList w.kinds.length)
  /-- a component the entity had: its old value, overwritten by the last write to it (if any) -/
  kept : ∀ (c : Comp) (v : Val), (w.maskOf e).get c = true → valOf w e.id c = some v →
    valOf w' e.id c = some (if (w.kinds.getD c {}).zst = true then v else applyVals v vals c)
  /-- an added component: the last value written to it, zero if none (always zero if zero-size) -/
  added : ∀ c : Comp, c ∈ add →
    valOf w' e.id c = some (if (w.kinds.getD c {}).zst = true then 0 else applyVals 0 vals c)
  frame : ∀ j : Nat, j ≠ e.id → SameEnt w w' j
  tablesLen : w'.tables.length ≤ w.tables.length + 1
  entitiesLen : w'.entities.length = w.entities.length

/-- **opAdd_spec** — `Add` through any of the three paths (no relations, no observers): the
    callback runner is not consulted; `World.add`, then the values are written. -/
theorem opAdd_spec (run : ProbeRunner) (p : Path) {w : World} {fl : List Nat} (h : CInv w fl)
    (hl : w.isLocked = false) {e : Ent} (h2 : 2 ≤ e.id) (hnf : e.id ∉ fl) (ha : w.alive e = true)
    (hin : e.id < w.pool.ents.length)
    {add : List Comp} (hne : add ≠ []) (hnd : add.Nodup)
    (hreg : ∀ (c : Comp), c ∈ add → c < w.kinds.length)
    (hnew : ∀ (c : Comp), c ∈ add → (w.maskOf e).get c = false) (vals : List (Comp × Val))
    (hfew : w.tables.length < maxU32) (hrows : ∀ t : Nat, (w.tbl t).len + 1 < 2 ^ 32) :
    ∃ w', opAdd run p e add vals [] w = .ok () w' ∧ OpAddPost w fl e add vals w' := by
  obtain ⟨w1, hcore, ap⟩ := addCore_spec h hl h2 hnf ha hin hne hnd hreg hnew hfew hrows
  have ha1 : w1.alive e = true := by rw [ap.aliveSame]; exact ha
  have wp := ap.cinv.writeVals h2 hnf ha1 (by rw [ap.pool]; exact hin) vals
  refine ⟨_, opAdd_eq run p e add vals w ha hcore ap.cinv.noObs, ?_⟩
  exact
    { cinv := wp.cinv
      unlocked := wp.unlocked.trans ap.unlocked
      kinds := wp.kinds.trans ap.kinds
      pool := wp.pool.trans ap.pool
      maxComps := wp.maxComps.trans ap.maxComps
      aliveSame := fun x => (wp.aliveSame x).trans (ap.aliveSame x)
      comps := wp.comps.trans ap.comps
      kept := by
        intro c v hc hv
        rw [wp.vals c v (by rw [ap.kept c hc]; exact hv), ap.kinds]
      added := by
        intro c hc
        rw [wp.vals c 0 (ap.added c hc), ap.kinds]
      frame := fun j hj => (ap.frame j hj).trans (wp.frame j hj)
      tablesLen := by rw [wp.tablesLen]; exact ap.tablesLen
      entitiesLen := wp.entitiesLen.trans ap.entitiesLen }

/-- **opRemove_spec** — `Remove` through any of the three paths -/
theorem opRemove_spec (run : ProbeRunner) (p : Path) {w : World} {fl : List Nat} (h : CInv w fl)
    (hl : w.isLocked = false) {e : Ent} (h2 : 2 ≤ e.id) (hnf : e.id ∉ fl) (ha : w.alive e = true)
    (hin : e.id < w.pool.ents.length)
    {rem : List Comp} (hne : rem ≠ []) (hnd : rem.Nodup)
    (hpres : ∀ (c : Comp), c ∈ rem → (w.maskOf e).get c = true)
    (hfew : w.tables.length < maxU32) (hrows : ∀ t : Nat, (w.tbl t).len + 1 < 2 ^ 32) :
    ∃ w', opRemove run p e rem w = .ok () w' ∧ RemovePost w fl e rem w' := by
  rw [opRemove_eq run p e rem w ha]
  exact removeCore_spec run h hl h2 hnf ha hin hne hnd hpres hfew hrows

/-- what `NewEntity(ids…)` with the values `vals` guarantees -/
structure NewPost (w : World) (fl : List Nat) (ids : List Comp) (vals : List (Comp × Val))
    (e : Ent) (w' : World) : Prop where
  /-- the invariant is kept; the free list loses its head (if any) -/
  cinv : CInv w' fl.tail
  unlocked : w'.isLocked = w.isLocked
  kinds : w'.kinds = w.kinds
  maxComps : w'.maxComps = w.maxComps
  pool : w'.pool = (w.pool.get).1
  ge2 : 2 ≤ e.id
  unused : (e.id = w.entities.length ∧ fl = [] ∧ e.gen = 0) ∨
    (e.id < w.entities.length ∧ fl = e.id :: fl.tail)
  notin : e.id ∉ fl.tail
  alive : w'.alive e = true
  inPool : w'.pool.ents[e.id]? = some e
  aliveFrame : ∀ h : Ent, h.id ≠ e.id → w'.alive h = w.alive h
  frame : ∀ j : Nat, j ≠ e.id → SameEnt w w' j
  live : ∀ h : Ent, h.id ∉ fl → w.alive h = true → h.id < w.pool.ents.length →
    h ≠ e ∧ h.id ≠ e.id ∧ w'.alive h = true ∧ SameEnt w w' h.id
  /-- exactly the requested components -/
  comps : compsOf w' e.id = some ((Mask.ofList ids).toList w.kinds.length)
  /-- each reads the last value written to it, zero if none (always zero if zero-size) -/
  vals : ∀ c : Comp, c ∈ ids →
    valOf w' e.id c = some (if (w.kinds.getD c {}).zst = true then 0 else applyVals 0 vals c)
  tablesLen : w'.tables.length ≤ w.tables.length + 1
  entitiesLen : w'.entities.length ≤ w.entities.length + 1

/-- **opNewEntity_spec** — creation with the distinct registered components `ids` and the
    values `vals` through any of the three paths (no relations, no observers). -/
theorem opNewEntity_spec (run : ProbeRunner) (p : Path) {w : World} {fl : List Nat} (h : CInv w fl)
    (hl : w.isLocked = false) {ids : List Comp} (hnd : ids.Nodup)
    (hreg : ∀ (c : Comp), c ∈ ids → c < w.kinds.length) (vals : List (Comp × Val))
    (hfew : w.tables.length < maxU32) (hrows : ∀ t : Nat, (w.tbl t).len + 1 < 2 ^ 32) :
    ∃ w', opNewEntity run p ids vals [] w = .ok (w.pool.get).2 w' ∧
      NewPost w fl ids vals (w.pool.get).2 w' := by
  obtain ⟨t, a, w1, hok, fc, hI1, hsame, _⟩ :=
    h.sinv.findOrCreateTableAdd_spec_new h.idx hnd hreg (fun c _ => h.noRelKinds c)
  have hu := findOrCreateTableAdd_untouched hok
  have hlen1 := findOrCreateTableAdd_tables_len hok
  have hfew1 : w1.tables.length ≤ maxU32 := by omega
  have h1 : CInv w1 fl := h.transfer hI1 fc.sinv fc.pool
    ⟨by rw [fc.entities], fun i => Or.inl (by rw [fc.entities])⟩ fc.kinds hu hfew1
  have hb : (w1.tbl t).len + 1 < 2 ^ 32 := by
    rcases Nat.lt_or_ge t w.tables.length with h1 | h1
    · have : w1.tbl t = w.tbl t := by
        simp only [tbl, List.getD_eq_getElem?_getD, hsame t h1]
      rw [this]; exact hrows t
    · rw [fc.newEmpty h1]; decide
  have pp := h1.placed fc.tblLt false hb
  have wp := pp.cinv.writeVals pp.ge2 pp.notin pp.alive (List.getElem?_eq_some_iff.mp pp.inPool).1
    vals
  have hw1w : ∀ j : Nat, SameEnt w w1 j := same_of_prefix h.idx fc.entities hsame
  have hal1 : ∀ x : Ent, w1.alive x = w.alive x := by
    intro x; simp only [World.alive, fc.pool]
  have heq := opNewEntity_eq run p ids vals w hl hok (by rw [hu.obs]; exact h.noObs)
  rw [fc.pool] at heq pp wp
  refine ⟨_, heq, ?_⟩
  have hmem : ∀ c : Comp, c ∈ ids → c ∈ (w1.tbl t).ids := by
    intro c hc
    rw [fc.tblIds, Mask.mem_toList, Mask.get_ofList]
    exact ⟨hreg c hc, by simp [h.reg_lt_256 (hreg c hc), hc]⟩
  exact
    { cinv := wp.cinv
      unlocked := by
        rw [wp.unlocked, pp.unlocked]
        show w1.locks.isLocked = w.locks.isLocked
        rw [hu.locks]
      kinds := wp.kinds.trans (pp.kinds.trans fc.kinds)
      maxComps := wp.maxComps.trans (pp.maxComps.trans hu.maxComps)
      pool := by
        show (placedW w1 t false).pool = _
        rw [pp.pool, fc.pool]
      ge2 := pp.ge2
      unused := by rw [← fc.entities]; exact pp.unused
      notin := pp.notin
      alive := by rw [wp.aliveSame]; exact pp.alive
      inPool := by rw [wp.pool]; exact pp.inPool
      aliveFrame := fun x hx => by rw [wp.aliveSame, pp.aliveFrame x hx, hal1]
      frame := fun j hj => ((hw1w j).trans (pp.frame j hj)).trans (wp.frame j hj)
      live := by
        intro x hxf hxa hxin
        obtain ⟨a1, a2, a3, a4⟩ := pp.live x hxf (by rw [hal1]; exact hxa)
          (by rw [fc.pool]; exact hxin)
        exact ⟨a1, a2, by rw [wp.aliveSame]; exact a3, ((hw1w x.id).trans a4).trans (wp.frame x.id a2)⟩
      comps := by rw [wp.comps, pp.comps, fc.tblIds]
      vals := by
        intro c hc
        rw [wp.vals c 0 (pp.zero c (hmem c hc)), pp.kinds, fc.kinds]
      tablesLen := by rw [wp.tablesLen, pp.tablesLen]; exact hlen1
      entitiesLen := by rw [wp.entitiesLen, ← fc.entities]; exact pp.entitiesLen }

/-- **opNewEntity0_spec** — `World.NewEntity()` (no components) under `CInv` -/
theorem opNewEntity0_spec (run : ProbeRunner) {w : World} {fl : List Nat} (h : CInv w fl)
    (hl : w.isLocked = false) (hb : (w.tbl 0).len + 1 < 2 ^ 32) :
    ∃ w', opNewEntity0 run w = .ok (w.pool.get).2 w' ∧ PlacedPost w fl 0 (w.pool.get).2 w' ∧
      compsOf w' (w.pool.get).2.id = some [] := by
  obtain ⟨h0, h1, hm⟩ := h.sinv.root
  have pp := h.placed h0 true hb
  refine ⟨_, opNewEntity0_eq run w hl (h.noObs _), pp, ?_⟩
  rw [pp.comps]
  obtain ⟨A, hA, e1, _⟩ := h.sinv.tblArch 0 _ (get_of_lt h0)
  rw [h1] at hA
  rw [e1, (h.sinv.comps 0 A hA).1]
  rw [arch_of_get hA] at hm
  rw [hm]
  simp [Mask.toList]

/-- **opRemoveEntity_spec** — `RemoveEntity` of a live handle under `CInv` -/
theorem opRemoveEntity_spec (run : ProbeRunner) {w : World} {fl : List Nat} (h : CInv w fl)
    (hl : w.isLocked = false) {e : Ent} (h2 : 2 ≤ e.id) (hnf : e.id ∉ fl) (ha : w.alive e = true)
    (hin : e.id < w.pool.ents.length) :
    ∃ w', opRemoveEntity run e w = .ok () w' ∧ RemovedPost w fl e w' := by
  obtain ⟨t, row, hix, rp⟩ := h.removed h2 hnf ha hin
  exact ⟨_, opRemoveEntity_eq run w e hl ha hix h.noObs (h.noTargets _), rp⟩

/-- **opSet_spec** — `Map.Set` / `MapN.Set` on a live entity that has all the components `ids`:
    the values are written, the last write to a component wins -/
theorem opSet_spec_c (run : ProbeRunner) {w : World} {fl : List Nat} (h : CInv w fl) {e : Ent}
    (h2 : 2 ≤ e.id) (hnf : e.id ∉ fl) (ha : w.alive e = true)
    (hin : e.id < w.pool.ents.length) {ids : List Comp}
    (hhas : ∀ (c : Comp), c ∈ ids → (w.maskOf e).get c = true) (vals : List (Comp × Val)) :
    ∃ w', opSet run e ids vals w = .ok () w' ∧ WritePost w fl e vals w' := by
  refine ⟨_, opSet_eq run w e ids vals ha ?_ (h.noObs _), h.writeVals h2 hnf ha hin vals⟩
  rw [List.all_eq_true]
  intro c hc
  exact (h.has_iff h2 hnf ha hin c).mpr (hhas c hc)

/-- **rejection**: `Set` naming a component the entity lacks panics `missing`, state unchanged -/
theorem opSet_missing_c (run : ProbeRunner) {w : World} {fl : List Nat} (h : CInv w fl) {e : Ent}
    (h2 : 2 ≤ e.id) (hnf : e.id ∉ fl) (ha : w.alive e = true)
    (hin : e.id < w.pool.ents.length) {ids : List Comp}
    (hmiss : ¬ ∀ (c : Comp), c ∈ ids → (w.maskOf e).get c = true) (vals : List (Comp × Val)) :
    opSet run e ids vals w = .panic .missing w := by
  apply opSet_missing run w e ids vals ha
  cases hall : (ids.all fun c => (w.tbl (w.index e.id).1).has c) with
  | false => rfl
  | true =>
    exfalso
    apply hmiss
    intro c hc
    exact (h.has_iff h2 hnf ha hin c).mp (List.all_eq_true.mp hall c hc)

/-- **registerComponent** keeps the invariant (a non-relation component type) -/
theorem CInv.registerComponent {w w' : World} {fl : List Nat} (h : CInv w fl) {k : CompKind}
    (hk : k.isRel = false) {n : Nat} (hr : World.registerComponent k w = .ok n w') :
    CInv w' fl ∧ n = w.kinds.length ∧ w'.kinds = w.kinds ++ [k] ∧ w'.isLocked = w.isLocked ∧
    (∀ x : Ent, w'.alive x = w.alive x) ∧ (∀ j : Nat, SameEnt w w' j) ∧
    w'.tables = w.tables ∧ w'.entities = w.entities ∧ w'.pool = w.pool ∧
    w'.maxComps = w.maxComps := by
  obtain ⟨hn, hks, harch, htab, hent, hpool, _⟩ := registerComponent_ok hr
  have hfields : w'.obs = w.obs ∧ w'.locks = w.locks ∧ w'.isTarget = w.isTarget ∧
      w'.maxComps = w.maxComps ∧ w.kinds.length < w.maxComps := by
    unfold World.registerComponent at hr
    simp only at hr
    split at hr
    · cases hr
    · rename_i hlt
      split at hr
      · cases hr
      · injection hr with _ h2; subst h2
        exact ⟨rfl, rfl, rfl, rfl, by omega⟩
  obtain ⟨fo, fl', ft, fm, hlt⟩ := hfields
  refine ⟨?_, hn, hks, by show w'.locks.isLocked = w.locks.isLocked; rw [fl'],
    fun x => by simp only [World.alive, hpool],
    fun j => ⟨fun c => valOf_congr hent htab j c, compsOf_congr hent htab j⟩, htab, hent, hpool, fm⟩
  exact
    { idx := h.idx.registerComponent hr
      sinv := h.sinv.registerComponent hr
      pool := by rw [hpool]; exact h.pool
      stale := by rw [hpool]; exact h.stale
      lenEq := by rw [hent, hpool]; exact h.lenEq
      tgtLen := by rw [ft, hent]; exact h.tgtLen
      freeUnindexed := by rw [hent]; exact h.freeUnindexed
      reservedUnindexed := by rw [hent]; exact h.reservedUnindexed
      liveIndexed := by rw [hent]; exact h.liveIndexed
      fewTables := by rw [htab]; exact h.fewTables
      noRelKinds := by
        intro c
        rw [hks]
        rcases Nat.lt_trichotomy c w.kinds.length with h1 | h1 | h1
        · rw [getD_append_left' _ _ _ _ h1]; exact h.noRelKinds c
        · subst h1
          simp only [List.getD_eq_getElem?_getD, List.getElem?_concat_length, Option.getD_some]
          exact hk
        · simp only [List.getD_eq_getElem?_getD]
          rw [List.getElem?_eq_none (by simp only [List.length_append, List.length_singleton]; omega)]
          rfl
      kindsLe := by
        rw [hks, fm]
        simp only [List.length_append, List.length_singleton]
        exact ⟨by omega, h.kindsLe.2⟩
      noTargets := by rw [ft]; exact h.noTargets
      noObs := by rw [fo]; exact h.noObs }

end Ark
