/-
  Ark.Proofs.CallbacksRelAdd — C08/C09 at world level for RELATION events, part 3: the relation
  rounds of `NewEntity(ids…, rels…)` and `Add(e, ids…, rels…)` (`OnAddRelations` after
  `OnCreateEntity` / `OnAddComponents`) with observers and a read-only callback runner.

  * `addRounds` — what the two notification rounds of an addition-type operation append to the
    log: first the observers of the entity/component event, then — only if the call names
    relations — the `OnAddRelations` observers, each round on the world after the change.
  * `opNewEntity_rel_obs_eq`, `opAdd_rel_obs_eq` — the equations (no invariant needed).
  * `opNewEntity_rel_transfer_*`, `opAdd_rel_transfer_*` — whatever the observer-free call does
    (any panic, success), the call with observers does, on the reframed world.
  * `opNewEntity_rel_callbacks`, `opAdd_rel_callbacks` — under `TInvObs`: the observer-free
    specification (`NewRelPost`, `AddRelPost`) and the event instances in terms of the call:
    `.entity/.entityRel (Mask.ofList ids)`, `.add (maskOf e) (ids.foldl Mask.set (maskOf e))`.

  Kernel-only proofs, core Lean only.
-/
import Ark.Proofs.CallbacksRelSet

set_option autoImplicit false

namespace Ark

open World Spec Ark.Props.C01World QueryExact

/-- the `OnAddRelations` observers an addition-type call notifies: none if it names no relation -/
def firingIfRels (m : ObsMgr) (rels : List RelID) (ev : EvInst) : List Nat :=
  if rels.isEmpty then [] else firing m Ev.onAddRelations ev

/-- what the two rounds of an addition-type operation append to the log (newest first): the
    observers of event type `evt1` selected for `ev1`, run on `seen`; then the `OnAddRelations`
    observers selected for `ev2` (if the call names relations), run on `seen` with the records of
    the first round logged -/
def addRounds (rec : World → Nat → Ent → Probe → List LogEv) (m : ObsMgr) (e : Ent) (evt1 : Nat)
    (ev1 : EvInst) (rels : List RelID) (ev2 : EvInst) (seen : World) : List LogEv :=
  notifyAll rec e (firingIfRels m rels ev2) (seen.addLog (notifyAll rec e (firing m evt1 ev1) seen))
    ++ notifyAll rec e (firing m evt1 ev1) seen

section Ops

variable {run : ProbeRunner} {S : Probe → Prop} {rec : World → Nat → Ent → Probe → List LogEv}

/-- **`NewEntity(ids…, rels…)` with observers** (equation), given the pre-validation and
    `World.newEntity`: the writes of the typed paths, then the `OnCreateEntity` observers, then —
    if relations are named — the `OnAddRelations` observers, on the world after the creation,
    then the writes of the `Unsafe` path. -/
theorem opNewEntity_rel_obs_eq (hro : ReadOnly run S rec) (p : Path) (ids : List Comp)
    (vals : List (Comp × Val)) (rels : List RelID) (w : World) (hs : ScriptsIn w.obs S)
    (hok : ObsOK w.obs) (hpre : preCheck p ids rels w = .ok () w) {e : Ent} {mask : Mask}
    {w1 : World} (hcore : newEntityCore ids rels w = .ok (e, mask) w1) :
    opNewEntity run p ids vals rels w = .ok e ((writeValsW w1 e vals).addLog
      (addRounds rec w.obs e Ev.onCreateEntity (.entity mask) rels (.entityRel mask)
        (seenAfter p w1 e vals))) := by
  have hobs : w1.obs = w.obs := by
    have := ((framesOL_newEntityCore ids rels).state_frame w).1
    rw [hcore] at this; exact this
  have hfire : ∀ (x : World), x.obs = w1.obs →
      fireCreateEntityIfHas run e mask x = .ok () (x.addLog
        (notifyAll rec e (firing w.obs Ev.onCreateEntity (.entity mask)) x)) := by
    intro x hx
    rw [fireCreateEntityIfHas_readOnly hro x (by rw [hx, hobs]; exact hs) (by rw [hx, hobs]; exact hok),
      hx, hobs]
  have hfire2 : ∀ (x : World), x.obs = w1.obs →
      fireCreateEntityRelIfHas run e mask x = .ok () (x.addLog
        (notifyAll rec e (firing w.obs Ev.onAddRelations (.entityRel mask)) x)) := by
    intro x hx
    rw [fireCreateEntityRelIfHas_readOnly hro x (by rw [hx, hobs]; exact hs)
      (by rw [hx, hobs]; exact hok), hx, hobs]
  have h2a := hfire2 (w1.addLog (notifyAll rec e (firing w.obs Ev.onCreateEntity (.entity mask)) w1))
    rfl
  have h2b := hfire2 ((writeValsW w1 e vals).addLog
    (notifyAll rec e (firing w.obs Ev.onCreateEntity (.entity mask)) (writeValsW w1 e vals))) rfl
  unfold addRounds firingIfRels
  cases rels <;> cases p <;>
  simp [opNewEntity, hpre, bind, M.bind, hcore,
    writeVals_eq, hfire w1 rfl, hfire (writeValsW w1 e vals) rfl, h2a, h2b, seenAfter,
    writeValsW_addLog, notifyAll, pure, M.pure]

/-! ### transfer from the observer-free call -/

/-- without observers, `NewEntity(ids…, rels…)` is the pre-validation, `World.newEntity` and the
    writes -/
theorem opNewEntity_of_core (run : ProbeRunner) (p : Path) (ids : List Comp)
    (vals : List (Comp × Val)) (rels : List RelID) (w : World)
    (hpre : preCheck p ids rels w = .ok () w) {e : Ent} {mask : Mask} {w1 : World}
    (hcore : newEntityCore ids rels w = .ok (e, mask) w1)
    (hno : ∀ (evt : Nat), w1.obs.hasObservers evt = false) :
    opNewEntity run p ids vals rels w = .ok e (writeValsW w1 e vals) := by
  have hno2 : ∀ (evt : Nat), (writeValsW w1 e vals).obs.hasObservers evt = false := hno
  cases hre : rels.isEmpty <;> cases p <;>
  simp [opNewEntity, hpre, bind, M.bind, hcore, writeVals_eq, fireCreateEntityIfHas_none,
    fireCreateEntityRelIfHas_none, hno, hno2, hre, pure, M.pure]

theorem opNewEntity_core_panic (run : ProbeRunner) (p : Path) (ids : List Comp)
    (vals : List (Comp × Val)) (rels : List RelID) (w : World)
    (hpre : preCheck p ids rels w = .ok () w) {k : PanicKind} {s : World}
    (hcore : newEntityCore ids rels w = .panic k s) :
    opNewEntity run p ids vals rels w = .panic k s := by
  simp only [opNewEntity, hpre, bind, M.bind, hcore]

theorem opNewEntity_pre_panic (run : ProbeRunner) (p : Path) (ids : List Comp)
    (vals : List (Comp × Val)) (rels : List RelID) (w : World) {k : PanicKind}
    (hpre : preCheck p ids rels w = .panic k w) :
    opNewEntity run p ids vals rels w = .panic k w := by
  simp only [opNewEntity, hpre, bind, M.bind]

theorem newEntityCore_of_noObs (ids : List Comp) (rels : List RelID) (w : World) :
    newEntityCore ids rels w = (newEntityCore ids rels w.noObs).mapS fun s => s.relog w.obs w.log :=
  framesOL_newEntityCore ids rels w.noObs w.obs w.log

theorem core_noObs_hasObservers {α : Type} {m : W α} (hm : FramesOL m) {w : World} {a : α}
    {w1 : World} (h : m w.noObs = .ok a w1) (evt : Nat) : w1.obs.hasObservers evt = false := by
  have := (hm.state_frame w.noObs).1
  rw [h] at this
  simp only [Res.state] at this
  rw [this]; rfl

/-- **every rejection of the observer-free `NewEntity(ids…, rels…)` is a rejection with
    observers**: all checks precede the events -/
theorem opNewEntity_rel_transfer_panic (run run0 : ProbeRunner) (p : Path) (ids : List Comp)
    (vals : List (Comp × Val)) (rels : List RelID) (w : World) {k : PanicKind} {s : World}
    (h0 : opNewEntity run0 p ids vals rels w.noObs = .panic k s) :
    opNewEntity run p ids vals rels w = .panic k (s.relog w.obs w.log) := by
  rcases preCheck_of_noObs p ids rels w with ⟨h1, h2⟩ | ⟨k', h1, h2⟩
  · have hcw := newEntityCore_of_noObs ids rels w
    cases hc : newEntityCore ids rels w.noObs with
    | panic k' s' =>
      rw [opNewEntity_core_panic run0 p ids vals rels w.noObs h1 hc] at h0
      injection h0 with e1 e2; subst e1; subst e2
      rw [hc] at hcw
      exact opNewEntity_core_panic run p ids vals rels w h2 hcw
    | ok r w1 =>
      obtain ⟨e, mask⟩ := r
      rw [opNewEntity_of_core run0 p ids vals rels w.noObs h1 hc
        (core_noObs_hasObservers (framesOL_newEntityCore ids rels) hc)] at h0
      cases h0
  · rw [opNewEntity_pre_panic run0 p ids vals rels w.noObs h1] at h0
    injection h0 with e1 e2; subst e1; subst e2
    exact opNewEntity_pre_panic run p ids vals rels w h2

/-- **every accepted observer-free `NewEntity(ids…, rels…)` is accepted with observers**: the
    same handle; the result is the observer-free result `w0` with the observers of `w` put back
    and the log extended by the two rounds (`addRounds`), run on the world after the creation -/
theorem opNewEntity_rel_transfer_ok (hro : ReadOnly run S rec) (run0 : ProbeRunner) (p : Path)
    (ids : List Comp) (vals : List (Comp × Val)) (rels : List RelID) (w : World)
    (hs : ScriptsIn w.obs S) (hok : ObsOK w.obs) {e : Ent} {w0 : World}
    (h0 : opNewEntity run0 p ids vals rels w.noObs = .ok e w0) :
    ∃ (mask : Mask) (w1 : World), newEntityCore ids rels w.noObs = .ok (e, mask) w1 ∧
      w0 = writeValsW w1 e vals ∧
      opNewEntity run p ids vals rels w = .ok e (w0.relog w.obs
        (addRounds rec w.obs e Ev.onCreateEntity (.entity mask) rels (.entityRel mask)
          ((seenAfter p w1 e vals).relog w.obs w.log) ++ w.log)) := by
  rcases preCheck_of_noObs p ids rels w with ⟨h1, h2⟩ | ⟨k', h1, h2⟩
  · have hcw := newEntityCore_of_noObs ids rels w
    cases hc : newEntityCore ids rels w.noObs with
    | panic k' s' =>
      rw [opNewEntity_core_panic run0 p ids vals rels w.noObs h1 hc] at h0; cases h0
    | ok r w1 =>
      obtain ⟨e', mask⟩ := r
      rw [opNewEntity_of_core run0 p ids vals rels w.noObs h1 hc
        (core_noObs_hasObservers (framesOL_newEntityCore ids rels) hc)] at h0
      injection h0 with e1 e2
      subst e1; subst e2
      rw [hc, Res.mapS_ok] at hcw
      refine ⟨mask, w1, rfl, rfl, ?_⟩
      rw [opNewEntity_rel_obs_eq hro p ids vals rels w hs hok h2 hcw]
      congr 1
      unfold seenAfter
      split <;> rfl
  · rw [opNewEntity_pre_panic run0 p ids vals rels w.noObs h1] at h0; cases h0

/-! ### `Add` -/

/-- `Add` after the `Alive` check of the untyped paths (verbatim) -/
def addBody (run : ProbeRunner) (p : Path) (e : Ent) (ids : List Comp) (vals : List (Comp × Val))
    (rels : List RelID) : W Unit := do
  preCheck (p.addCheck ids) ids rels
  let (old, new) ← addCore e ids rels
  if p != .unsafe_ then writeVals e vals
  fireAddIfHas run Ev.onAddComponents e old new
  if !rels.isEmpty then fireAddIfHas run Ev.onAddRelations e old new
  if p == .unsafe_ then writeVals e vals

theorem opAdd_eq_body (run : ProbeRunner) (p : Path) (e : Ent) (ids : List Comp)
    (vals : List (Comp × Val)) (rels : List RelID) (w : World)
    (h : p = .typed ∨ w.alive e = true) :
    opAdd run p e ids vals rels w = addBody run p e ids vals rels w := by
  rcases h with rfl | ha
  · simp [opAdd, addBody, bind, M.bind]
  · cases p <;> simp [opAdd, addBody, bind, M.bind, M.get, M.assert, ha]

theorem opAdd_dead (run : ProbeRunner) (p : Path) (e : Ent) (ids : List Comp)
    (vals : List (Comp × Val)) (rels : List RelID) (w : World) (hp : p ≠ .typed)
    (ha : w.alive e = false) : opAdd run p e ids vals rels w = .panic .deadEntity w := by
  cases p <;> simp [opAdd, bind, M.bind, M.get, M.assert, ha] at hp ⊢

theorem addBody_pre_panic (run : ProbeRunner) (p : Path) (e : Ent) (ids : List Comp)
    (vals : List (Comp × Val)) (rels : List RelID) (w : World) {k : PanicKind}
    (hpre : preCheck (p.addCheck ids) ids rels w = .panic k w) :
    addBody run p e ids vals rels w = .panic k w := by
  simp only [addBody, hpre, bind, M.bind]

theorem addBody_core_panic (run : ProbeRunner) (p : Path) (e : Ent) (ids : List Comp)
    (vals : List (Comp × Val)) (rels : List RelID) (w : World)
    (hpre : preCheck (p.addCheck ids) ids rels w = .ok () w) {k : PanicKind} {s : World}
    (hcore : addCore e ids rels w = .panic k s) :
    addBody run p e ids vals rels w = .panic k s := by
  simp only [addBody, hpre, bind, M.bind, hcore]

theorem addBody_of_core (run : ProbeRunner) (p : Path) (e : Ent) (ids : List Comp)
    (vals : List (Comp × Val)) (rels : List RelID) (w : World)
    (hpre : preCheck (p.addCheck ids) ids rels w = .ok () w) {old new : Mask} {w1 : World}
    (hcore : addCore e ids rels w = .ok (old, new) w1)
    (hno : ∀ (evt : Nat), w1.obs.hasObservers evt = false) :
    addBody run p e ids vals rels w = .ok () (writeValsW w1 e vals) := by
  have hno2 : ∀ (evt : Nat), (writeValsW w1 e vals).obs.hasObservers evt = false := hno
  cases hre : rels.isEmpty <;> cases p <;>
  simp [addBody, hpre, bind, M.bind, hcore, writeVals_eq, fireAddIfHas_none,
    hno, hno2, hre, pure, M.pure]

theorem addBody_obs_eq (hro : ReadOnly run S rec) (p : Path) (e : Ent) (ids : List Comp)
    (vals : List (Comp × Val)) (rels : List RelID) (w : World) (hs : ScriptsIn w.obs S)
    (hok : ObsOK w.obs) (hpre : preCheck (p.addCheck ids) ids rels w = .ok () w)
    {old new : Mask} {w1 : World} (hcore : addCore e ids rels w = .ok (old, new) w1) :
    addBody run p e ids vals rels w = .ok () ((writeValsW w1 e vals).addLog
      (addRounds rec w.obs e Ev.onAddComponents (.add old new) rels (.add old new)
        (seenAfter p w1 e vals))) := by
  have hobs : w1.obs = w.obs := by
    have := ((framesOL_addCore e ids rels).state_frame w).1
    rw [hcore] at this; exact this
  have hfire : ∀ (evt : Nat), evt ≠ Ev.onCreateEntity ∧ evt ≠ Ev.onRemoveEntity →
      ∀ (x : World), x.obs = w1.obs →
      fireAddIfHas run evt e old new x = .ok () (x.addLog
        (notifyAll rec e (firing w.obs evt (.add old new)) x)) := by
    intro evt hevt x hx
    rw [fireAddIfHas_readOnly hro x (by rw [hx, hobs]; exact hs) (by rw [hx, hobs]; exact hok) _ hevt,
      hx, hobs]
  have h1a := hfire Ev.onAddComponents (by decide) w1 rfl
  have h1b := hfire Ev.onAddComponents (by decide) (writeValsW w1 e vals) rfl
  have h2a := hfire Ev.onAddRelations (by decide)
    (w1.addLog (notifyAll rec e (firing w.obs Ev.onAddComponents (.add old new)) w1)) rfl
  have h2b := hfire Ev.onAddRelations (by decide) ((writeValsW w1 e vals).addLog
    (notifyAll rec e (firing w.obs Ev.onAddComponents (.add old new)) (writeValsW w1 e vals))) rfl
  unfold addRounds firingIfRels
  cases rels <;> cases p <;>
  simp [addBody, hpre, bind, M.bind, hcore,
    writeVals_eq, h1a, h1b, h2a, h2b, seenAfter,
    writeValsW_addLog, notifyAll, pure, M.pure]

theorem addCore_of_noObs (e : Ent) (ids : List Comp) (rels : List RelID) (w : World) :
    addCore e ids rels w = (addCore e ids rels w.noObs).mapS fun s => s.relog w.obs w.log :=
  framesOL_addCore e ids rels w.noObs w.obs w.log

/-- **every rejection of the observer-free `Add(e, ids…, rels…)` is a rejection with observers** -/
theorem opAdd_rel_transfer_panic (run run0 : ProbeRunner) (p : Path) (e : Ent) (ids : List Comp)
    (vals : List (Comp × Val)) (rels : List RelID) (w : World) {k : PanicKind} {s : World}
    (h0 : opAdd run0 p e ids vals rels w.noObs = .panic k s) :
    opAdd run p e ids vals rels w = .panic k (s.relog w.obs w.log) := by
  by_cases hb : p = .typed ∨ w.alive e = true
  · rw [opAdd_eq_body run0 p e ids vals rels w.noObs hb] at h0
    rw [opAdd_eq_body run p e ids vals rels w hb]
    rcases preCheck_of_noObs (p.addCheck ids) ids rels w with ⟨h1, h2⟩ | ⟨k', h1, h2⟩
    · have hcw := addCore_of_noObs e ids rels w
      cases hc : addCore e ids rels w.noObs with
      | panic k' s' =>
        rw [addBody_core_panic run0 p e ids vals rels w.noObs h1 hc] at h0
        injection h0 with e1 e2; subst e1; subst e2
        rw [hc] at hcw
        exact addBody_core_panic run p e ids vals rels w h2 hcw
      | ok r w1 =>
        obtain ⟨old, new⟩ := r
        rw [addBody_of_core run0 p e ids vals rels w.noObs h1 hc
          (core_noObs_hasObservers (framesOL_addCore e ids rels) hc)] at h0
        cases h0
    · rw [addBody_pre_panic run0 p e ids vals rels w.noObs h1] at h0
      injection h0 with e1 e2; subst e1; subst e2
      exact addBody_pre_panic run p e ids vals rels w h2
  · have hp : p ≠ .typed := fun h => hb (Or.inl h)
    have ha : w.alive e = false := by
      cases hh : w.alive e with
      | false => rfl
      | true => exact absurd (Or.inr hh) hb
    rw [opAdd_dead run0 p e ids vals rels w.noObs hp ha] at h0
    injection h0 with e1 e2; subst e1; subst e2
    exact opAdd_dead run p e ids vals rels w hp ha

/-- **every accepted observer-free `Add(e, ids…, rels…)` is accepted with observers**: the result
    is the observer-free result `w0` with the observers of `w` put back and the log extended by
    the two rounds (`addRounds`), run on the world after the change -/
theorem opAdd_rel_transfer_ok (hro : ReadOnly run S rec) (run0 : ProbeRunner) (p : Path) (e : Ent)
    (ids : List Comp) (vals : List (Comp × Val)) (rels : List RelID) (w : World)
    (hs : ScriptsIn w.obs S) (hok : ObsOK w.obs) {w0 : World}
    (h0 : opAdd run0 p e ids vals rels w.noObs = .ok () w0) :
    ∃ (old new : Mask) (w1 : World), addCore e ids rels w.noObs = .ok (old, new) w1 ∧
      w0 = writeValsW w1 e vals ∧
      opAdd run p e ids vals rels w = .ok () (w0.relog w.obs
        (addRounds rec w.obs e Ev.onAddComponents (.add old new) rels (.add old new)
          ((seenAfter p w1 e vals).relog w.obs w.log) ++ w.log)) := by
  by_cases hb : p = .typed ∨ w.alive e = true
  · rw [opAdd_eq_body run0 p e ids vals rels w.noObs hb] at h0
    rw [opAdd_eq_body run p e ids vals rels w hb]
    rcases preCheck_of_noObs (p.addCheck ids) ids rels w with ⟨h1, h2⟩ | ⟨k', h1, h2⟩
    · have hcw := addCore_of_noObs e ids rels w
      cases hc : addCore e ids rels w.noObs with
      | panic k' s' =>
        rw [addBody_core_panic run0 p e ids vals rels w.noObs h1 hc] at h0; cases h0
      | ok r w1 =>
        obtain ⟨old, new⟩ := r
        rw [addBody_of_core run0 p e ids vals rels w.noObs h1 hc
          (core_noObs_hasObservers (framesOL_addCore e ids rels) hc)] at h0
        injection h0 with _ e2
        subst e2
        rw [hc, Res.mapS_ok] at hcw
        refine ⟨old, new, w1, rfl, rfl, ?_⟩
        rw [addBody_obs_eq hro p e ids vals rels w hs hok h2 hcw]
        congr 1
        unfold seenAfter
        split <;> rfl
    · rw [addBody_pre_panic run0 p e ids vals rels w.noObs h1] at h0; cases h0
  · have hp : p ≠ .typed := fun h => hb (Or.inl h)
    have ha : w.alive e = false := by
      cases hh : w.alive e with
      | false => rfl
      | true => exact absurd (Or.inr hh) hb
    rw [opAdd_dead run0 p e ids vals rels w.noObs hp ha] at h0
    cases h0

/-! ### under the invariant -/

/-- under the invariant the mask `World.newEntity` returns is the mask of `ids` -/
theorem newEntityCore_mask {w : World} {fl : List Nat} (h : TInv w fl) {ids : List Comp}
    {rels : List RelID} (hreg : ∀ (c : Comp), c ∈ ids → c < w.kinds.length)
    (hnd : (rels.map (·.comp)).Nodup) (hin : ∀ (r : RelID), r ∈ rels → r.comp ∈ ids)
    {e : Ent} {mask : Mask} {w1 : World} (hcore : newEntityCore ids rels w = .ok (e, mask) w1) :
    mask = Mask.ofList ids := by
  have hl : w.isLocked = false := by
    cases hh : w.isLocked with
    | false => rfl
    | true => rw [newEntityCore_locked w hh] at hcore; cases hcore
  cases hf : findOrCreateTableAdd 0 Mask.empty ids rels w with
  | panic k s =>
    simp [newEntityCore, bind, M.bind, checkLocked_unlocked w hl, hf] at hcore
  | ok res wf =>
    obtain ⟨t, a, m⟩ := res
    have hS := h.rel.sinv
    have hrel0 : (w.tbl 0).relIDs = [] :=
      hS.toSInvMid.relIDs_nil (get_of_lt hS.root.1) (by rw [hS.root.2.1]; exact hS.toSInvMid.root_noRel)
    obtain ⟨hmask, ar⟩ := h.rel.findOrCreateTableAdd h.flags h.freeEmpty
      (fun c hc => by simp at hc) hreg hS.root.1 hS.toSInvMid.root_notFree
      (fun r hr => by rw [hrel0] at hr; cases hr) hnd hin hf
    simp only [newEntityCore, bind, M.bind, checkLocked_unlocked w hl, hf, placeNew_eq,
      registerTargets_eq, M.get, pure, M.pure] at hcore
    injection hcore with h1 _
    have h2 := (Prod.mk.inj h1).2
    have harch : ((registerW (placedW wf t false) rels).arch a).mask = (wf.arch a).mask := by
      show ((placedW wf t false).arch a).mask = _
      rw [placedW_flat]; rfl
    rw [← h2, harch, ar.foc.archMask, hmask]
    rfl

/-- **`NewEntity(ids…, rels…)` with observers under the invariant** (C08 + C09 for the relation
    round of `NewEntity`).  `w0` is the result of the accepted observer-free call (with
    everything `opNewEntity_rel_spec` says: `NewRelPost`), `w1` the observer-free world after
    `World.newEntity` (before the writes).  With observers the call is accepted with the same
    handle; the result is `w0` with the observers of `w` and the log extended by: the
    `OnCreateEntity` observers the documented rule selects for `.entity (Mask.ofList ids)`, then —
    only if `rels` is not empty — the `OnAddRelations` observers selected for
    `.entityRel (Mask.ofList ids)`; each round run on the world after the creation (`seenAfter`:
    values written for the typed paths). -/
theorem opNewEntity_rel_callbacks (hro : ReadOnly run S rec) (run0 : ProbeRunner) (p : Path)
    {w : World} {fl : List Nat} (hs : ScriptsIn w.obs S) (h : TInvObs w fl)
    (hl : w.isLocked = false) {ids : List Comp} {vals : List (Comp × Val)} {rels : List RelID}
    (hreg : ∀ (c : Comp), c ∈ ids → c < w.kinds.length)
    (hnd : (rels.map (·.comp)).Nodup) (hin : ∀ (r : RelID), r ∈ rels → r.comp ∈ ids)
    (hrc : ∀ (r : RelID), r ∈ rels → w.isRelComp r.comp = true)
    (htin : ∀ (r : RelID), r ∈ rels → r.target.id < w.pool.ents.length)
    (hfew : w.tables.length < maxU32) (hrows : w.entities.length + 1 < 2 ^ 32)
    {e : Ent} {w0 : World} (h0 : opNewEntity run0 p ids vals rels w.noObs = .ok e w0) :
    NewRelPost w.noObs fl rels e w0 ∧
    ∃ (w1 : World), newEntityCore ids rels w.noObs = .ok (e, Mask.ofList ids) w1 ∧
      w0 = writeValsW w1 e vals ∧
      opNewEntity run p ids vals rels w = .ok e (w0.relog w.obs
        (addRounds rec w.obs e Ev.onCreateEntity (.entity (Mask.ofList ids)) rels
          (.entityRel (Mask.ofList ids)) ((seenAfter p w1 e vals).relog w.obs w.log) ++ w.log)) := by
  have post := opNewEntity_rel_spec run0 p h.tinv hl (noObs_hasObservers w) hreg hnd hin hrc htin
    hfew hrows h0
  obtain ⟨mask, w1, hc, hw0, hop⟩ := opNewEntity_rel_transfer_ok hro run0 p ids vals rels w hs h.obs h0
  have hm := newEntityCore_mask h.tinv hreg hnd hin hc
  subst hm
  exact ⟨post, w1, hc, hw0, hop⟩

/-- under the invariant the masks `World.add` returns are the entity's mask and that mask with
    the added components -/
theorem addCore_masks {w : World} {fl : List Nat} (h : TInv w fl) {e : Ent} (h2 : 2 ≤ e.id)
    (hnf : e.id ∉ fl) (ha : w.alive e = true) (hsl : e.id < w.pool.ents.length)
    {ids : List Comp} {rels : List RelID}
    (hreg : ∀ (c : Comp), c ∈ ids → c < w.kinds.length)
    (hnd : (rels.map (·.comp)).Nodup) (hin : ∀ (r : RelID), r ∈ rels → r.comp ∈ ids)
    {old new : Mask} {w1 : World} (hcore : addCore e ids rels w = .ok (old, new) w1) :
    old = w.maskOf e ∧ new = ids.foldl Mask.set (w.maskOf e) := by
  have hl : w.isLocked = false := by
    cases hh : w.isLocked with
    | false => rfl
    | true => rw [addCore_locked w hh] at hcore; cases hcore
  obtain ⟨oldT, row, he, htm, _⟩ := h.link.live_entry h2 hnf ha hsl
  have hix := index_of_get he
  have hI := h.link.idx
  obtain ⟨hT, hrow, hid⟩ := hI.indexed he htm
  have hlt := lt_of_get hT
  have hS := h.rel.sinv.toSInvMid
  have hTf : (w.tbl oldT).isFree = false := by
    cases hf : (w.tbl oldT).isFree with
    | false => rfl
    | true => have := h.freeEmpty oldT _ hT hf; omega
  obtain ⟨A, hA, i1, i2, i3, _⟩ := hS.tblArch oldT _ hT
  have hAe := arch_of_get hA
  have hmo : w.maskOf e = (w.arch (w.tbl oldT).arch).mask := by simp only [maskOf, hix]
  have hemp : ids.isEmpty = false := by
    cases hi : ids.isEmpty with
    | false => rfl
    | true =>
      simp [addCore, bind, M.bind, checkLocked_unlocked w hl, M.get, M.assert, ha, hi] at hcore
  cases hf : findOrCreateTableAdd oldT (w.arch (w.tbl oldT).arch).mask ids rels w with
  | panic k s =>
    simp [addCore, bind, M.bind, checkLocked_unlocked w hl, M.get, M.assert, ha, hemp, hix, hf] at hcore
  | ok res wf =>
    obtain ⟨newT, newA, mask⟩ := res
    have hstart : ∀ (c : Nat), (w.arch (w.tbl oldT).arch).mask.get c = true → c < w.kinds.length := by
      intro c hc; rw [hAe] at hc; exact hS.maskReg _ A hA c hc
    have hom : ∀ (r : RelID), r ∈ (w.tbl oldT).relIDs →
        (w.arch (w.tbl oldT).arch).mask.get r.comp = true := by
      intro r hr
      obtain ⟨i, hi, _⟩ := hS.relCols oldT _ hT r hr
      rw [hAe]
      exact (hS.mem_comps hA r.comp).1 (by rw [← i1]; exact List.mem_of_getElem? hi)
    obtain ⟨hmask, ar⟩ := h.rel.findOrCreateTableAdd h.flags h.freeEmpty hstart hreg hlt hTf hom
      hnd hin hf
    rw [addCore_rel_eq e ids rels w hl ha hemp hix hf] at hcore
    injection hcore with h1 _
    obtain ⟨e1, e2⟩ := Prod.mk.inj h1
    have harch : ((registerW (addMove wf e oldT row newT mask) rels).arch newA).mask
        = (wf.arch newA).mask := by
      show ((addMove wf e oldT row newT mask).archetypes.getD newA default).mask = _
      rw [(addMove_fields wf e oldT row newT mask).2.2.1]
      rfl
    refine ⟨by rw [← e1, hmo], ?_⟩
    rw [← e2, harch, ar.foc.archMask, hmask, hmo]

/-- **`Add(e, ids…, rels…)` with observers under the invariant** (C08 + C09 for the relation
    round of `Add`).  `w0` is the result of the accepted observer-free call (`AddRelPost`), `w1`
    the observer-free world after `World.add`.  With observers the call is accepted; the result
    is `w0` with the observers of `w` and the log extended by: the `OnAddComponents` observers the
    documented rule selects for `.add (maskOf e) (maskOf e ∪ ids)`, then — only if `rels` is not
    empty — the `OnAddRelations` observers selected for the same instance; each round run on the
    world after the change. -/
theorem opAdd_rel_callbacks (hro : ReadOnly run S rec) (run0 : ProbeRunner) (p : Path)
    {w : World} {fl : List Nat} (hs : ScriptsIn w.obs S) (h : TInvObs w fl)
    (hl : w.isLocked = false) {e : Ent} (h2 : 2 ≤ e.id) (hnf : e.id ∉ fl) (ha : w.alive e = true)
    (hsl : e.id < w.pool.ents.length)
    {ids : List Comp} {vals : List (Comp × Val)} {rels : List RelID}
    (hreg : ∀ (c : Comp), c ∈ ids → c < w.kinds.length)
    (hnd : (rels.map (·.comp)).Nodup) (hin : ∀ (r : RelID), r ∈ rels → r.comp ∈ ids)
    (hrc : ∀ (r : RelID), r ∈ rels → w.isRelComp r.comp = true)
    (htin : ∀ (r : RelID), r ∈ rels → r.target.id < w.pool.ents.length)
    (hfew : w.tables.length < maxU32) (hrows : w.entities.length + 1 < 2 ^ 32)
    {w0 : World} (h0 : opAdd run0 p e ids vals rels w.noObs = .ok () w0) :
    AddRelPost w.noObs fl e ids vals rels w0 ∧
    ∃ (w1 : World),
      addCore e ids rels w.noObs = .ok (w.maskOf e, ids.foldl Mask.set (w.maskOf e)) w1 ∧
      w0 = writeValsW w1 e vals ∧
      opAdd run p e ids vals rels w = .ok () (w0.relog w.obs
        (addRounds rec w.obs e Ev.onAddComponents
          (.add (w.maskOf e) (ids.foldl Mask.set (w.maskOf e))) rels
          (.add (w.maskOf e) (ids.foldl Mask.set (w.maskOf e)))
          ((seenAfter p w1 e vals).relog w.obs w.log) ++ w.log)) := by
  have post := opAdd_rel_spec run0 p h.tinv hl (noObs_hasObservers w) h2 hnf ha hsl hreg hnd hin hrc
    htin hfew hrows h0
  obtain ⟨old, new, w1, hc, hw0, hop⟩ := opAdd_rel_transfer_ok hro run0 p e ids vals rels w hs h.obs h0
  obtain ⟨e1, e2⟩ := addCore_masks h.tinv h2 hnf ha hsl hreg hnd hin hc
  have e1' : old = w.maskOf e := e1
  have e2' : new = ids.foldl Mask.set (w.maskOf e) := e2
  subst e1' e2'
  exact ⟨post, w1, hc, hw0, hop⟩

/-! ### the callback records -/

theorem cbsOf_addRounds (hn : NoCb rec) (m : ObsMgr) (e : Ent) (evt1 : Nat) (ev1 : EvInst)
    (rels : List RelID) (ev2 : EvInst) (seen : World) (lg : List LogEv) :
    cbsOf (addRounds rec m e evt1 ev1 rels ev2 seen ++ lg) =
      ((firingIfRels m rels ev2).map fun l => (l, e)).reverse ++
        (((firing m evt1 ev1).map fun l => (l, e)).reverse ++ cbsOf lg) := by
  unfold addRounds
  rw [List.append_assoc, cbsOf_round hn, cbsOf_round hn]

/-- **C08 for `NewEntity(ids…, rels…)`**: the returned handle is the reported entity; the `cb`
    records appended are — oldest first — `(l, e)` for the `OnCreateEntity` observers selected for
    `.entity (Mask.ofList ids)`, then, if `rels ≠ []`, for the `OnAddRelations` observers selected
    for `.entityRel (Mask.ofList ids)` -/
theorem newEntityRel_cbs {w : World} {fl : List Nat} (st : SettingRel run S rec w fl)
    (run0 : ProbeRunner) (p : Path) (hl : w.isLocked = false)
    {ids : List Comp} {vals : List (Comp × Val)} {rels : List RelID}
    (hreg : ∀ (c : Comp), c ∈ ids → c < w.kinds.length)
    (hnd : (rels.map (·.comp)).Nodup) (hin : ∀ (r : RelID), r ∈ rels → r.comp ∈ ids)
    (hrc : ∀ (r : RelID), r ∈ rels → w.isRelComp r.comp = true)
    (htin : ∀ (r : RelID), r ∈ rels → r.target.id < w.pool.ents.length)
    (hfew : w.tables.length < maxU32) (hrows : w.entities.length + 1 < 2 ^ 32)
    {e : Ent} {w0 : World} (h0 : opNewEntity run0 p ids vals rels w.noObs = .ok e w0) :
    NewRelPost w.noObs fl rels e w0 ∧
    ∃ (w' : World), opNewEntity run p ids vals rels w = .ok e w' ∧ FrameOf w0 w w' ∧
      w'.locks = w0.locks ∧
      cbsOf w'.log =
        ((firingIfRels w.obs rels (.entityRel (Mask.ofList ids))).map fun l => (l, e)).reverse ++
        (((firing w.obs Ev.onCreateEntity (.entity (Mask.ofList ids))).map fun l => (l, e)).reverse
          ++ cbsOf w.log) := by
  obtain ⟨post, w1, _, _, hop⟩ := opNewEntity_rel_callbacks st.ro run0 p st.scripts st.inv hl hreg
    hnd hin hrc htin hfew hrows h0
  exact ⟨post, _, hop, frameOf_relog _ _ _, rfl, cbsOf_addRounds st.noCb _ _ _ _ _ _ _ _⟩

/-- **C08 for `Add(e, ids…, rels…)`**: the `cb` records appended are — oldest first — `(l, e)` for
    the `OnAddComponents` observers selected for `.add old new`, then, if `rels ≠ []`, for the
    `OnAddRelations` observers selected for the same instance -/
theorem addRel_cbs {w : World} {fl : List Nat} (st : SettingRel run S rec w fl)
    (run0 : ProbeRunner) (p : Path) (hl : w.isLocked = false) {e : Ent} (he : Live w fl e)
    {ids : List Comp} {vals : List (Comp × Val)} {rels : List RelID}
    (hreg : ∀ (c : Comp), c ∈ ids → c < w.kinds.length)
    (hnd : (rels.map (·.comp)).Nodup) (hin : ∀ (r : RelID), r ∈ rels → r.comp ∈ ids)
    (hrc : ∀ (r : RelID), r ∈ rels → w.isRelComp r.comp = true)
    (htin : ∀ (r : RelID), r ∈ rels → r.target.id < w.pool.ents.length)
    (hfew : w.tables.length < maxU32) (hrows : w.entities.length + 1 < 2 ^ 32)
    {w0 : World} (h0 : opAdd run0 p e ids vals rels w.noObs = .ok () w0) :
    AddRelPost w.noObs fl e ids vals rels w0 ∧
    ∃ (w' : World), opAdd run p e ids vals rels w = .ok () w' ∧ FrameOf w0 w w' ∧
      w'.locks = w0.locks ∧
      cbsOf w'.log =
        ((firingIfRels w.obs rels
            (.add (w.maskOf e) (ids.foldl Mask.set (w.maskOf e)))).map fun l => (l, e)).reverse ++
        (((firing w.obs Ev.onAddComponents
            (.add (w.maskOf e) (ids.foldl Mask.set (w.maskOf e)))).map fun l => (l, e)).reverse
          ++ cbsOf w.log) := by
  obtain ⟨post, w1, _, _, hop⟩ := opAdd_rel_callbacks st.ro run0 p st.scripts st.inv hl he.ge2
    he.notFree he.alive he.inPool hreg hnd hin hrc htin hfew hrows h0
  exact ⟨post, _, hop, frameOf_relog _ _ _, rfl, cbsOf_addRounds st.noCb _ _ _ _ _ _ _ _⟩

end Ops

end Ark
