/-
  Ark.Proofs.Lock — the world lock (`lock` of lock.go: `bitPool` + 64-bit mask) as a state
  machine over arbitrary histories of `Lock`, `Unlock(b)` and `Reset`, with ghost state (the
  bits handed out and not yet returned).  Kernel-only proofs.
-/
import Ark.Model.Pool

namespace Ark
namespace Lock

/-! ### the implicit free list of `bitPool` -/

/-- Follow the implicit free list: `chain bits s n` is the list of the `n` bits reached from
    `s` through the array `bits`. -/
def chain (bits : List Nat) : Nat → Nat → Option (List Nat)
  | _, 0 => some []
  | s, n + 1 =>
    match bits[s]? with
    | none => none
    | some e =>
      match chain bits e n with
      | none => none
      | some l => some (s :: l)

theorem chain_length (bits : List Nat) : ∀ (n s : Nat) (l : List Nat),
    chain bits s n = some l → l.length = n := by
  intro n
  induction n with
  | zero => intro s l h; simp [chain] at h; subst h; rfl
  | succ n ih =>
    intro s l h
    simp only [chain] at h
    split at h
    · contradiction
    · rename_i e he
      split at h
      · contradiction
      · rename_i l' hl'
        injection h with h; subst h
        simp [ih _ _ hl']

/-- A non-empty chain starts at `s`, the slot `s` exists and the rest is the chain from its
    content. -/
theorem chain_succ (bits : List Nat) (n s x : Nat) (l : List Nat)
    (h : chain bits s (n + 1) = some (x :: l)) :
    s = x ∧ ∃ e, bits[x]? = some e ∧ chain bits e n = some l := by
  simp only [chain] at h
  split at h
  · contradiction
  · rename_i e he
    split at h
    · contradiction
    · rename_i l' hl'
      injection h with h
      injection h with hx hl
      subst hx; subst hl
      exact ⟨rfl, e, he, hl'⟩

/-- Overwriting a slot that is not on the chain does not change the chain. -/
theorem chain_set (bits : List Nat) (i v : Nat) :
    ∀ (n s : Nat) (l : List Nat), chain bits s n = some l → i ∉ l →
      chain (bits.set i v) s n = some l := by
  intro n
  induction n with
  | zero => intro s l h _; simpa [chain] using h
  | succ n ih =>
    intro s l h hi
    simp only [chain] at h ⊢
    split at h
    · contradiction
    · rename_i e he
      split at h
      · contradiction
      · rename_i l' hl'
        injection h with h; subst h
        have hsi : i ≠ s := fun hh => hi (by simp [hh])
        have hil : i ∉ l' := fun hh => hi (by simp [hh])
        rw [List.getElem?_set_ne hsi, he]
        simp only
        rw [ih _ _ hl' hil]

/-! ### single-bit masks -/

/-- `1 << b` has exactly bit `b` set. -/
theorem getLsbD_bit (b i : Nat) (hi : i < 64) :
    ((1#64) <<< b).getLsbD i = decide (i = b) := by
  rw [BitVec.getLsbD_shiftLeft, BitVec.getLsbD_one]
  by_cases h : i = b
  · subst h; simp [hi]
  · by_cases hlt : i < b
    · simp [hlt, h]
    · have : i - b ≠ 0 := by omega
      simp [this, h]

theorem getLsbD_setBit (x : BitVec 64) (b i : Nat) (hi : i < 64) :
    (x ||| ((1#64) <<< b)).getLsbD i = (x.getLsbD i || decide (i = b)) := by
  rw [BitVec.getLsbD_or, getLsbD_bit b i hi]

theorem getLsbD_clearBit (x : BitVec 64) (b i : Nat) (hi : i < 64) :
    (x &&& ~~~((1#64) <<< b)).getLsbD i = (x.getLsbD i && !decide (i = b)) := by
  rw [BitVec.getLsbD_and, BitVec.getLsbD_not, getLsbD_bit b i hi]
  simp [hi]

/-! ### the history machine -/

/-- lock operations as the world issues them -/
inductive Op
  | lock
  | unlock (b : Nat)
  | reset
  deriving Repr, DecidableEq

/-- lock + ghost history: the bits handed out by `Lock()` and not yet returned by `Unlock` -/
structure LS where
  l : Lock
  outstanding : List Nat
  deriving Repr, DecidableEq

def LS.init : LS := ⟨{}, []⟩

/-- One step.  A `Lock()` that runs out of the 64 bits panics, an `Unlock(b)` of a bit that is
    not set panics ("unbalanced unlock"); both leave the lock unchanged. -/
def LS.step (s : LS) : Op → LS
  | .lock =>
    match s.l.lock with
    | some (l', b) => ⟨l', b :: s.outstanding⟩
    | none => s
  | .unlock b =>
    match s.l.unlock b with
    | some l' => ⟨l', s.outstanding.erase b⟩
    | none => s
  | .reset => ⟨s.l.reset, []⟩

def LS.run (s : LS) (ops : List Op) : LS := ops.foldl LS.step s

/-- The invariant: `fl` is the free list (the chain of length `available` from `next`); free
    and outstanding bits partition the bits `< length` handed out so far; the mask holds exactly
    the outstanding bits. -/
structure LInv (s : LS) (fl : List Nat) : Prop where
  ch : chain s.l.pool.bits s.l.pool.next s.l.pool.available = some fl
  fl_nodup : fl.Nodup
  fl_lt : ∀ (i : Nat), i ∈ fl → i < s.l.pool.length
  out_nodup : s.outstanding.Nodup
  out_lt : ∀ (i : Nat), i ∈ s.outstanding → i < s.l.pool.length
  disj : ∀ (i : Nat), i ∈ s.outstanding → i ∉ fl
  cover : ∀ (i : Nat), i < s.l.pool.length → i ∈ fl ∨ i ∈ s.outstanding
  count : s.outstanding.length + fl.length = s.l.pool.length
  len64 : s.l.pool.length ≤ 64
  bits_len : s.l.pool.bits.length = 64
  locks : ∀ (b : Nat), b < 64 → (s.l.locks.getLsbD b = true ↔ b ∈ s.outstanding)

theorem linv_init : LInv LS.init [] := by
  refine ⟨rfl, List.nodup_nil, ?_, List.nodup_nil, ?_, ?_, ?_, rfl, by decide, rfl, ?_⟩
  · intro i hi; cases hi
  · intro i hi; cases hi
  · intro i hi; cases hi
  · intro i hi; exact absurd hi (Nat.not_lt_zero i)
  · intro b _; simp [LS.init]

theorem LInv.avail {s : LS} {fl : List Nat} (h : LInv s fl) : fl.length = s.l.pool.available :=
  chain_length _ _ _ _ h.ch

/-- the mask bit can only be set below 64 -/
theorem getLsbD_lt (x : BitVec 64) (b : Nat) (h : x.getLsbD b = true) : b < 64 := by
  false_or_by_contra
  rename_i hb
  rw [BitVec.getLsbD_of_ge x b (by omega)] at h
  contradiction

/-- The mask is exact for every `b` (no bound needed: both sides are false from 64 on). -/
theorem LInv.locks_iff {s : LS} {fl : List Nat} (g : LInv s fl) (b : Nat) :
    s.l.locks.getLsbD b = true ↔ b ∈ s.outstanding := by
  constructor
  · intro h; exact (g.locks b (getLsbD_lt _ _ h)).mp h
  · intro h
    have := g.out_lt b h
    have := g.len64
    exact (g.locks b (by omega)).mpr h

/-- What `Lock()` does on a state satisfying the invariant: it fails exactly if all 64 bits are
    outstanding; otherwise it hands out a bit below 64 that is not outstanding, and the
    invariant is kept. -/
theorem lock_spec (s : LS) (fl : List Nat) (g : LInv s fl) :
    (s.l.lock = none ∧ s.outstanding.length = 64) ∨
    (∃ l' b, s.l.lock = some (l', b) ∧ b < 64 ∧ b ∉ s.outstanding ∧
      s.outstanding.length < 64 ∧ ∃ fl', LInv ⟨l', b :: s.outstanding⟩ fl') := by
  have hav := g.avail
  have hcount := g.count
  have hlen := g.len64
  by_cases h0 : s.l.pool.available = 0
  · have hfl0 : fl = [] := List.length_eq_zero_iff.mp (by omega)
    subst hfl0
    by_cases hfull : s.l.pool.length ≥ 64
    · left
      refine ⟨?_, by simp at hcount; omega⟩
      simp [Lock.lock, BitPool.get, h0, hfull]
    · right
      have hlt : s.l.pool.length < 64 := by omega
      have hlock : s.l.lock =
          some ({ pool := { s.l.pool with bits := s.l.pool.bits.set s.l.pool.length s.l.pool.length,
                                          length := s.l.pool.length + 1 },
                  locks := s.l.locks ||| ((1#64) <<< s.l.pool.length) }, s.l.pool.length) := by
        simp [Lock.lock, BitPool.get, h0, hfull]
      refine ⟨_, s.l.pool.length, hlock, hlt, ?_, by simp at hcount; omega, [], ?_⟩
      · intro hm; exact absurd (g.out_lt _ hm) (Nat.lt_irrefl _)
      · refine ⟨?_, List.nodup_nil, ?_, ?_, ?_, ?_, ?_, ?_, ?_, ?_, ?_⟩
        · show chain _ s.l.pool.next s.l.pool.available = some []
          rw [h0]; rfl
        · intro i hi; cases hi
        · exact List.nodup_cons.mpr
            ⟨fun hm => absurd (g.out_lt _ hm) (Nat.lt_irrefl _), g.out_nodup⟩
        · intro i hi
          show i < s.l.pool.length + 1
          rcases List.mem_cons.mp hi with rfl | hi
          · omega
          · have := g.out_lt i hi; omega
        · intro i _ hi; cases hi
        · intro i hi
          right
          have hi : i < s.l.pool.length + 1 := hi
          by_cases hil : i = s.l.pool.length
          · simp [hil]
          · rcases g.cover i (by omega) with hf | ho
            · cases hf
            · exact List.mem_cons_of_mem _ ho
        · show (s.l.pool.length :: s.outstanding).length + 0 = s.l.pool.length + 1
          simp at hcount ⊢; omega
        · show s.l.pool.length + 1 ≤ 64
          omega
        · show (s.l.pool.bits.set _ _).length = 64
          rw [List.length_set]; exact g.bits_len
        · intro b hb
          show (s.l.locks ||| ((1#64) <<< s.l.pool.length)).getLsbD b = true ↔ _
          rw [getLsbD_setBit _ _ _ hb, Bool.or_eq_true, decide_eq_true_iff, g.locks b hb,
            List.mem_cons]
          exact Or.comm
  · right
    obtain ⟨x, fl', hfl⟩ : ∃ x fl', fl = x :: fl' := by
      cases fl with
      | nil => simp at hav; omega
      | cons x fl' => exact ⟨x, fl', rfl⟩
    subst hfl
    have hav' : s.l.pool.available = fl'.length + 1 := by simp at hav; omega
    have hch := g.ch
    rw [hav'] at hch
    obtain ⟨hnext, e, he, hrest⟩ := chain_succ _ _ _ _ _ hch
    have hxfl : x ∉ fl' := (List.nodup_cons.mp g.fl_nodup).1
    have hxlen : x < s.l.pool.length := g.fl_lt x (by simp)
    have hx64 : x < 64 := by omega
    have hxb : x < s.l.pool.bits.length := by rw [g.bits_len]; exact hx64
    have hxout : x ∉ s.outstanding := fun hm => g.disj x hm (by simp)
    have hgetD : s.l.pool.bits.getD x 0 = e := by
      rw [List.getD_eq_getElem?_getD, he]; rfl
    have hret : (s.l.pool.bits.set x x).getD x 0 = x := by
      rw [List.getD_eq_getElem?_getD, List.getElem?_set_self hxb]; rfl
    have hlock : s.l.lock =
        some ({ pool := { s.l.pool with bits := s.l.pool.bits.set x x, next := e,
                                        available := s.l.pool.available - 1 },
                locks := s.l.locks ||| ((1#64) <<< x) }, x) := by
      simp only [Lock.lock, BitPool.get, h0, if_false, hnext, hgetD, hret]
    refine ⟨_, x, hlock, hx64, hxout, ?_, fl', ?_⟩
    · simp at hcount; omega
    · refine ⟨?_, (List.nodup_cons.mp g.fl_nodup).2, ?_, ?_, ?_, ?_, ?_, ?_, hlen, ?_, ?_⟩
      · show chain (s.l.pool.bits.set x x) e (s.l.pool.available - 1) = some fl'
        rw [hav', Nat.add_sub_cancel]
        exact chain_set _ _ _ _ _ _ hrest hxfl
      · intro i hi; exact g.fl_lt i (by simp [hi])
      · exact List.nodup_cons.mpr ⟨hxout, g.out_nodup⟩
      · intro i hi
        rcases List.mem_cons.mp hi with rfl | hi
        · exact hxlen
        · exact g.out_lt i hi
      · intro i hi hf
        rcases List.mem_cons.mp hi with rfl | hi
        · exact hxfl hf
        · exact g.disj i hi (by simp [hf])
      · intro i hi
        rcases g.cover i hi with hf | ho
        · rcases List.mem_cons.mp hf with rfl | hf
          · right; simp
          · left; exact hf
        · right; exact List.mem_cons_of_mem _ ho
      · show (x :: s.outstanding).length + fl'.length = s.l.pool.length
        simp at hcount ⊢; omega
      · show (s.l.pool.bits.set x x).length = 64
        rw [List.length_set]; exact g.bits_len
      · intro b hb
        show (s.l.locks ||| ((1#64) <<< x)).getLsbD b = true ↔ _
        rw [getLsbD_setBit _ _ _ hb, Bool.or_eq_true, decide_eq_true_iff, g.locks b hb,
          List.mem_cons]
        exact Or.comm

/-- What `Unlock(b)` does on a state satisfying the invariant: it succeeds exactly for the
    outstanding bits, and then keeps the invariant with `b` pushed on the free list. -/
theorem unlock_spec (s : LS) (fl : List Nat) (g : LInv s fl) (b : Nat) :
    (s.l.unlock b = none ∧ b ∉ s.outstanding) ∨
    (∃ l', s.l.unlock b = some l' ∧ b ∈ s.outstanding ∧
      LInv ⟨l', s.outstanding.erase b⟩ (b :: fl)) := by
  by_cases hbit : s.l.locks.getLsbD b = true
  · right
    have hout : b ∈ s.outstanding := g.locks_iff b |>.mp hbit
    have hblen : b < s.l.pool.length := g.out_lt b hout
    have hlen := g.len64
    have hb64 : b < 64 := by omega
    have hbb : b < s.l.pool.bits.length := by rw [g.bits_len]; exact hb64
    have hbfl : b ∉ fl := g.disj b hout
    refine ⟨{ pool := s.l.pool.recycle b, locks := s.l.locks &&& ~~~((1#64) <<< b) },
      by simp only [Lock.unlock, hbit, if_true], hout, ?_⟩
    refine ⟨?_, List.nodup_cons.mpr ⟨hbfl, g.fl_nodup⟩, ?_, g.out_nodup.erase b, ?_, ?_, ?_, ?_,
      hlen, ?_, ?_⟩
    · show chain (s.l.pool.bits.set b s.l.pool.next) b (s.l.pool.available + 1) = some (b :: fl)
      simp only [chain]
      rw [List.getElem?_set_self hbb]
      simp only
      rw [chain_set _ _ _ _ _ _ g.ch hbfl]
    · intro i hi
      rcases List.mem_cons.mp hi with rfl | hi
      · exact hblen
      · exact g.fl_lt i hi
    · intro i hi; exact g.out_lt i (List.mem_of_mem_erase hi)
    · intro i hi hf
      rcases List.mem_cons.mp hf with rfl | hf
      · exact (List.Nodup.not_mem_erase g.out_nodup) hi
      · exact g.disj i (List.mem_of_mem_erase hi) hf
    · intro i hi
      by_cases hib : i = b
      · left; simp [hib]
      · rcases g.cover i hi with hf | ho
        · left; exact List.mem_cons_of_mem _ hf
        · right; exact (List.mem_erase_of_ne hib).mpr ho
    · have hc := g.count
      have hpos : 0 < s.outstanding.length := List.length_pos_of_mem hout
      show (s.outstanding.erase b).length + (b :: fl).length = s.l.pool.length
      rw [List.length_erase_of_mem hout, List.length_cons]
      omega
    · show (s.l.pool.bits.set b s.l.pool.next).length = 64
      rw [List.length_set]; exact g.bits_len
    · intro i hi
      show (s.l.locks &&& ~~~((1#64) <<< b)).getLsbD i = true ↔ _
      rw [getLsbD_clearBit _ _ _ hi, Bool.and_eq_true, g.locks i hi]
      by_cases hib : i = b
      · subst hib
        simp [List.Nodup.not_mem_erase g.out_nodup]
      · simp [hib, List.mem_erase_of_ne hib]
  · left
    refine ⟨by simp only [Lock.unlock, hbit]; rfl, ?_⟩
    intro hm; exact hbit ((g.locks_iff b).mpr hm)

/-- `Reset` re-establishes the initial abstract state (the array contents are kept). -/
theorem reset_inv (s : LS) (fl : List Nat) (g : LInv s fl) : LInv ⟨s.l.reset, []⟩ [] := by
  refine ⟨rfl, List.nodup_nil, ?_, List.nodup_nil, ?_, ?_, ?_, rfl, Nat.zero_le _, g.bits_len, ?_⟩
  · intro i hi; cases hi
  · intro i hi; cases hi
  · intro i hi; cases hi
  · intro i hi; exact absurd hi (Nat.not_lt_zero i)
  · intro b _; simp [Lock.reset]

/-- Every step preserves the invariant (for some free list). -/
theorem step_inv (s : LS) (fl : List Nat) (g : LInv s fl) (op : Op) :
    ∃ fl', LInv (s.step op) fl' := by
  cases op with
  | lock =>
    rcases lock_spec s fl g with ⟨hn, _⟩ | ⟨l', b, hl, _, _, _, fl', g'⟩
    · exact ⟨fl, by simpa only [LS.step, hn] using g⟩
    · exact ⟨fl', by simpa only [LS.step, hl] using g'⟩
  | unlock b =>
    rcases unlock_spec s fl g b with ⟨hn, _⟩ | ⟨l', hl, _, g'⟩
    · exact ⟨fl, by simpa only [LS.step, hn] using g⟩
    · exact ⟨b :: fl, by simpa only [LS.step, hl] using g'⟩
  | reset => exact ⟨[], reset_inv s fl g⟩

/-- The invariant holds after every history. -/
theorem run_inv (ops : List Op) :
    ∀ (s : LS) (fl : List Nat), LInv s fl → ∃ fl', LInv (s.run ops) fl' := by
  induction ops with
  | nil => intro s fl g; exact ⟨fl, g⟩
  | cons op ops ih =>
    intro s fl g
    obtain ⟨fl1, g1⟩ := step_inv s fl g op
    exact ih _ _ g1

end Lock
end Ark
