/-
  Ark.Proofs.Codec — the binary (big endian, 8 bytes) and JSON (`[id, gen]`) forms of an entity
  handle decode to what was encoded; malformed binary input is rejected exactly when its length
  is not 8.  Kernel-only proofs (bit-level extensionality).
-/
import Ark.Model.Codec

namespace Ark
namespace Codec

/-- `binary.BigEndian.Uint32 ∘ binary.BigEndian.PutUint32 = id`, bit by bit. -/
theorem getU32_putU32 (v : BitVec 32) :
    getU32 ((v >>> 24).setWidth 8) ((v >>> 16).setWidth 8) ((v >>> 8).setWidth 8)
      (v.setWidth 8) = v := by
  apply BitVec.eq_of_getLsbD_eq
  intro i hi
  simp only [getU32, BitVec.getLsbD_or, BitVec.getLsbD_shiftLeft, BitVec.getLsbD_setWidth,
    BitVec.getLsbD_ushiftRight]
  have e24 : 24 + (i - 24) = if 24 ≤ i then i else 24 := by split <;> omega
  have e16 : 16 + (i - 16) = if 16 ≤ i then i else 16 := by split <;> omega
  have e8 : 8 + (i - 8) = if 8 ≤ i then i else 8 := by split <;> omega
  rw [e24, e16, e8]
  by_cases h1 : i < 8
  · have a1 : i < 24 := by omega
    have a2 : i < 16 := by omega
    simp [h1, hi, a1, a2]
  · by_cases h2 : i < 16
    · have a1 : i < 24 := by omega
      have a3 : i - 8 < 8 := by omega
      have a4 : i - 8 < 32 := by omega
      have a5 : 8 ≤ i := by omega
      simp [h1, h2, hi, a1, a3, a4, a5]
    · by_cases h3 : i < 24
      · have a3 : i - 16 < 8 := by omega
        have a4 : i - 16 < 32 := by omega
        have a5 : ¬ i - 8 < 8 := by omega
        have a6 : 16 ≤ i := by omega
        simp [h1, h2, h3, hi, a3, a4, a5, a6]
      · have a3 : i - 24 < 8 := by omega
        have a4 : i - 24 < 32 := by omega
        have a5 : ¬ i - 8 < 8 := by omega
        have a6 : ¬ i - 16 < 8 := by omega
        have a7 : 24 ≤ i := by omega
        simp [h1, h2, h3, hi, a3, a4, a5, a6, a7]

/-- The same, stated on the byte list produced by `putU32`. -/
theorem getU32_of_putU32 (v : U32) (a b c d : Byte) (h : putU32 v = [a, b, c, d]) :
    getU32 a b c d = v := by
  simp only [putU32, List.cons.injEq, and_true] at h
  obtain ⟨rfl, rfl, rfl, rfl⟩ := h
  exact getU32_putU32 v

/-- `UnmarshalBinary ∘ MarshalBinary`. -/
theorem unmarshal_marshal (id gen : U32) :
    unmarshalBinary (marshalBinary id gen) = some (id, gen) := by
  simp only [marshalBinary, putU32, List.cons_append, List.nil_append, unmarshalBinary,
    getU32_putU32]

theorem marshal_length (id gen : U32) : (marshalBinary id gen).length = 8 := rfl

/-- `AppendBinary(buf)` is `buf` followed by `MarshalBinary()`. -/
theorem appendBinary_eq (buf : List Byte) (id gen : U32) :
    appendBinary buf id gen = buf ++ marshalBinary id gen := by
  simp only [appendBinary, marshalBinary, List.append_assoc]

/-- Decoding what `AppendBinary` appended gives back the handle. -/
theorem unmarshal_append (buf : List Byte) (id gen : U32) :
    unmarshalBinary ((appendBinary buf id gen).drop buf.length) = some (id, gen) := by
  rw [appendBinary_eq, List.drop_left, unmarshal_marshal]

/-- `UnmarshalBinary` errors exactly on input whose length is not 8. -/
theorem unmarshal_none_iff (data : List Byte) :
    unmarshalBinary data = none ↔ data.length ≠ 8 := by
  unfold unmarshalBinary
  split
  · simp
  · rename_i h
    constructor
    · intro _ hl
      match data, hl with
      | [a0, a1, a2, a3, b0, b1, b2, b3], _ => exact h _ _ _ _ _ _ _ _ rfl
    · intro _; rfl

theorem marshal_injective {a b c d : U32} (h : marshalBinary a b = marshalBinary c d) :
    a = c ∧ b = d := by
  have := congrArg unmarshalBinary h
  rw [unmarshal_marshal, unmarshal_marshal] at this
  injection this with this
  injection this with h1 h2
  exact ⟨h1, h2⟩

/-- `UnmarshalJSON ∘ MarshalJSON`. -/
theorem unmarshalJSON_marshalJSON (id gen : U32) :
    unmarshalJSON (marshalJSON id gen) = some (id, gen) := by
  simp [unmarshalJSON, marshalJSON, id.isLt, gen.isLt]

end Codec
end Ark
