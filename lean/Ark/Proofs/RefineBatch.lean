/-
  Ark.Proofs.RefineBatch — the refinement machine of `Ark.Refine` WITH the batch operations as
  steps (property C01: "… create, add, remove, exchange, set, copy, remove entity, THEIR BATCH
  FORMS, reset, shrink").

  * `OpB` — `base op` (an operation of `Ark.Refine`: `reg | new p | new0 | add p | rem p | xchg p
    | set | del | copy | shrink | reset`), `newb p n ids vals` (`NewBatch(n, ids…)`, no callback),
    `delb f` (`World.RemoveEntities(batch, nil)` on the uncached filter `f`), `xchgb p f add vals
    rem` (`AddBatch` / `RemoveBatch` / `ExchangeBatch` on the uncached filter `f`; `vals = some vs`:
    the `…BatchFn` form whose callback writes `vs` into every moved row).
  * `specStepB` — **the specification step of a batch is the specification step of the single
    operation, folded over the specification**: over the specified entities whose key set the
    filter matches (`matching`) for `delb` / `xchgb`, over the `n` returned handles for `newb`.
  * `execB`, `guardB`, `preB`, `stepB`, `reachB` — the machine, as `Ark.Refine.step`: the model
    operation and the specification step in lock step; a panic keeps the state the model reached.
  * `HInvB` — the inductive invariant: `Refine.HInv` and `YInv` (rows hold alive handles, the lock
    is well formed and free).
  * `Room s op` — the size requirement of one step (tables and rows fit `uint32`).
  * specification-level lemmas (`specDelAll`, `specDelAll_ents`, `specStepB_delb_ents`) and the ghost pool
    history of a batch removal (`ginv_recycleAll`).

  Kernel-only proofs, core Lean only.
-/
import Ark.Proofs.RefineBatchRows
import Ark.Proofs.BatchExchangeFn

set_option autoImplicit false

namespace Ark

open World Ark.Props.C01World

namespace RefineB

open Refine

/-- the filter object of the uncached filter `f` (no relation constraints) -/
def foOf (f : Filter) : FilterObj := { filter := f }

/-- the operations: those of `Ark.Refine`, and the three batch forms -/
inductive OpB
  /-- an operation of `Ark.Refine` -/
  | base (op : Refine.Op)
  /-- `NewBatch(n, ids…)` through the access path `p`, without callback (`vals` is what the
      harness passes along; without a callback nothing is written: the components read zero) -/
  | newb (p : Path) (n : Nat) (ids : List Comp) (vals : Comps)
  /-- `World.RemoveEntities(batch, nil)` for the uncached filter `f` -/
  | delb (f : Filter)
  /-- `AddBatch` (`rem = []`) / `RemoveBatch` (`add = []`) / `ExchangeBatch` for the uncached filter
      `f` through the access path `p`; `vals = some vs`: the `…Fn` form, the callback writes `vs` -/
  | xchgb (p : Path) (f : Filter) (add : List Comp) (vals : Option Comps) (rem : List Comp)
  deriving Repr

/-- **the selection of a batch, in the specification**: the specified entities whose key set the
    filter matches, in the order of the specification -/
def matching (ss : SS) (f : Filter) : List Ent :=
  (ss.ents.filter fun x => f.matchesMask (Mask.ofList (keys x.2))).map (·.1)

/-- `n` creations: the `i`-th one returns `fresh[i]` -/
def specNewAll (ss : SS) (p : Path) (ids : List Comp) (fresh : List Ent) (n : Nat) : SS :=
  (List.range n).foldl (fun ss i => specStep ss (fresh.getD i default) (.new p ids [])) ss

/-- `RemoveEntity` for every entity of `es` -/
def specDelAll (ss : SS) (es : List Ent) : SS :=
  es.foldl (fun ss e => specStep ss default (.del e)) ss

/-- `Exchange(add, rem)` writing `vals` for every entity of `es` -/
def specXchgAll (ss : SS) (p : Path) (add rem : List Comp) (vals : Comps) (es : List Ent) : SS :=
  es.foldl (fun ss e => specStep ss default (.xchg p e add rem vals)) ss

/-- **the specification step.**  `fresh` are the handles a successful creating call returns.  A
    batch is the single operation applied to every selected entity. -/
def specStepB (ss : SS) (fresh : List Ent) : OpB → SS
  | .base op => specStep ss (fresh.headD default) op
  | .newb p n ids _ => specNewAll ss p ids fresh n
  | .delb f => specDelAll ss (matching ss f)
  | .xchgb p f add vals rem => specXchgAll ss p add rem (valsOf vals) (matching ss f)

/-- run one model operation; the result carries the returned handles (for `newb`: the entities in
    the rows `start … start+n-1` of the table `NewBatch` reports, i.e. what the `Batch` yields) -/
def execB (run : ProbeRunner) (w : World) : OpB → Res World (List Ent)
  | .base op =>
    match exec run w op with
    | .ok r w' => .ok r.toList w'
    | .panic k w' => .panic k w'
  | .newb p n ids vals =>
    match opNewBatch run p n ids vals [] false w with
    | .ok (t, start) w' => .ok ((List.range n).map fun i => (w'.tbl t).getEntity (start + i)) w'
    | .panic k w' => .panic k w'
  | .delb f =>
    match opRemoveEntities run (foOf f) [] false w with
    | .ok _ w' => .ok [] w'
    | .panic k w' => .panic k w'
  | .xchgb p f add vals rem =>
    match opExchangeBatch run p (foOf f) [] add rem [] vals w with
    | .ok _ w' => .ok [] w'
    | .panic k w' => .panic k w'

/-- what a client can express, and — for the exchange batches — whose precondition holds on every
    selected entity.  (An exchange batch whose precondition fails on some selected entity panics
    in the lookup loop, after that loop has created the destination archetypes and tables of the
    EARLIER source tables.  Since the repair of defect D27 the world lock is taken only after the
    lookup loop, so the call no longer leaves the world locked: it is rejected with the lock state
    as before and without changing any entity — `Ark.Props.C07Batch.exchangeBatch_panic_unlocked`,
    and the finding in Ark/Props/C01Batch.lean.  What remains: the archetypes and tables created
    before the panic are not undone, so "the world comes back unchanged" — what every rejected step
    of this machine satisfies — still does not hold for such a call, and it is still not a step of
    the machine; the machine has not been restructured.  The one clean rejection,
    `add = rem = []`, is a step.) -/
def guardB (s : St) : OpB → Bool
  | .base op => guard s op
  | .newb _ _ ids _ => ids.all fun c => decide (c < s.ss.zst.length)
  | .delb _ => true
  | .xchgb _ f add _ rem =>
    (add.all fun c => decide (c < s.ss.zst.length)) &&
      ((add.isEmpty && rem.isEmpty) ||
        s.ss.ents.all fun x => !f.matchesMask (Mask.ofList (keys x.2)) ||
          decide (XchgOK s.ss.zst.length x.2 add rem))

/-- the precondition, in terms of the specification only -/
def preB (ss : SS) : OpB → Prop
  | .base op => pre ss op
  | .newb _ _ ids _ => ids.Nodup ∧ ∀ c ∈ ids, c < ss.zst.length
  | .delb _ => True
  | .xchgb _ _ add _ rem => ¬ (add = [] ∧ rem = [])

/-- the handles returned -/
def retB : Res World (List Ent) → List Ent
  | .ok r _ => r
  | .panic _ _ => []

/-- a batch step: the model operation and the specification step; the returned handles are
    added to the issued ones (newest first) -/
def stepBatch (run : ProbeRunner) (s : St) (op : OpB) : St :=
  if guardB s op = true then
    let r := execB run s.w op
    ⟨r.state, (retB r).reverse ++ s.issued, specStepB s.ss (retB r) op⟩
  else s

/-- one step of the machine -/
def stepB (run : ProbeRunner) (s : St) : OpB → St
  | .base op => step run s op
  | .newb p n ids vals => stepBatch run s (.newb p n ids vals)
  | .delb f => stepBatch run s (.delb f)
  | .xchgb p f add vals rem => stepBatch run s (.xchgb p f add vals rem)

def runOpsB (run : ProbeRunner) (s : St) (ops : List OpB) : St := ops.foldl (stepB run) s

/-- the state reached from `NewWorld(cap, rel)` by the history `ops` -/
def reachB (run : ProbeRunner) (cap rel : Nat) (ops : List OpB) : St :=
  runOpsB run (St.init cap rel) ops

theorem reachB_snoc (run : ProbeRunner) (cap rel : Nat) (ops : List OpB) (op : OpB) :
    reachB run cap rel (ops ++ [op]) = stepB run (reachB run cap rel ops) op := by
  simp only [reachB, runOpsB, List.foldl_append, List.foldl_cons, List.foldl_nil]

/-- histories of `Ark.Refine` are histories of this machine -/
theorem runOpsB_base (run : ProbeRunner) (ops : List Op) : ∀ s : St,
    runOpsB run s (ops.map .base) = runOps run s ops := by
  induction ops with
  | nil => intro s; rfl
  | cons op ops ih => intro s; exact ih (step run s op)

theorem reachB_base (run : ProbeRunner) (cap rel : Nat) (ops : List Op) :
    reachB run cap rel (ops.map .base) = reach run cap rel ops :=
  runOpsB_base run ops _

/-- **the inductive invariant**: that of `Ark.Refine`, and what the batches need -/
structure HInvB (s : St) (fl : List Nat) : Prop where
  hinv : HInv s fl
  yinv : YInv s.w

theorem hinvB_init (cap rel : Nat) : HInvB (St.init cap rel) [] :=
  ⟨hinv_init cap rel, yinv_init cap rel⟩

theorem HInvB.rowsLive {s : St} {fl : List Nat} (H : HInvB s fl) : RowsLive s.w :=
  H.yinv.rowsLive H.hinv.cinv

/-- the size requirement of one step: table IDs and row numbers fit `uint32` -/
def Room (s : St) : OpB → Prop
  | .base _ => s.w.tables.length < maxU32 ∧ s.w.entities.length + 1 < 2 ^ 32
  | .newb _ n _ _ => s.w.tables.length < maxU32 ∧ s.w.tables.length + n ≤ maxU32 ∧
      s.w.entities.length + n < 2 ^ 32
  | .delb _ => True
  | .xchgb _ f _ _ _ => s.w.tables.length + (selTables s.w f).length < maxU32 ∧
      2 * s.w.entities.length < 2 ^ 32

/-! ## specification-level facts -/

theorem mem_matching {ss : SS} {f : Filter} {e : Ent} :
    e ∈ matching ss f ↔ ∃ cs, (e, cs) ∈ ss.ents ∧ f.matchesMask (Mask.ofList (keys cs)) = true := by
  simp only [matching, List.mem_map, List.mem_filter]
  constructor
  · rintro ⟨x, ⟨hx, hm⟩, rfl⟩; exact ⟨x.2, hx, hm⟩
  · rintro ⟨cs, hx, hm⟩; exact ⟨(e, cs), ⟨hx, hm⟩, rfl⟩

theorem specDelAll_zst (ss : SS) (es : List Ent) : (specDelAll ss es).zst = ss.zst := by
  induction es generalizing ss with
  | nil => rfl
  | cons e es ih =>
    show (specDelAll (specStep ss default (.del e)) es).zst = ss.zst
    rw [ih]
    simp only [specStep]
    split <;> rfl

theorem del_of_not_mem : ∀ (s : Spec) (e : Ent), e ∉ s.map (·.1) → del s e = s
  | [], _, _ => rfl
  | x :: rest, e, hn => by
    simp only [List.map_cons, List.mem_cons, not_or] at hn
    simp only [del]
    rw [if_neg (fun hh => hn.1 hh.symm), del_of_not_mem rest e hn.2]

/-- one removal in the specification: the entry of `e` is dropped (nothing happens if there is
    none) -/
theorem specStep_del_ents (ss : SS) (fresh : Ent) (e : Ent) :
    (specStep ss fresh (.del e)).ents = del ss.ents e := by
  simp only [specStep]
  cases hf : find ss.ents e with
  | some cs => rfl
  | none => exact (del_of_not_mem _ _ (find_none_iff.mp hf)).symm

theorem del_eq_filter : ∀ (s : Spec) (e : Ent), (s.map (·.1)).Nodup →
    del s e = s.filter fun x => decide (x.1 ≠ e)
  | [], _, _ => rfl
  | x :: rest, e, hnd => by
    simp only [List.map_cons, List.nodup_cons] at hnd
    simp only [del, List.filter_cons]
    by_cases hx : x.1 = e
    · rw [if_pos hx]
      have : decide (x.1 ≠ e) = false := by simp [hx]
      rw [this]
      simp only [Bool.false_eq_true, if_false]
      symm
      apply List.filter_eq_self.mpr
      intro y hy
      have : y.1 ≠ e := by
        intro hh
        apply hnd.1
        rw [hx, ← hh]
        exact List.mem_map_of_mem hy
      simpa using this
    · rw [if_neg hx]
      have : decide (x.1 ≠ e) = true := by simp [hx]
      rw [this]
      simp only [if_true]
      rw [del_eq_filter rest e hnd.2]

/-- **the batch removal in the specification**: folding `RemoveEntity` over the handles `es`
    leaves the entries of the other handles, in order -/
theorem specDelAll_ents : ∀ (es : List Ent) (ss : SS), (ss.ents.map (·.1)).Nodup →
    (specDelAll ss es).ents = ss.ents.filter fun x => decide (x.1 ∉ es)
  | [], ss, _ => by
    show ss.ents = _
    symm
    apply List.filter_eq_self.mpr
    intro y _; simp
  | e :: es, ss, hnd => by
    show (specDelAll (specStep ss default (.del e)) es).ents = _
    have h1 : (specStep ss default (.del e)).ents = ss.ents.filter fun x => decide (x.1 ≠ e) := by
      rw [specStep_del_ents, del_eq_filter _ _ hnd]
    have hnd1 : ((specStep ss default (.del e)).ents.map (·.1)).Nodup := by
      rw [h1]
      exact (List.Sublist.map _ List.filter_sublist).nodup hnd
    rw [specDelAll_ents es _ hnd1, h1, List.filter_filter]
    apply List.filter_congr
    intro x _
    simp only [List.mem_cons, not_or, ne_eq, Bool.decide_and, Bool.and_comm]

/-- the batch removal in the specification drops exactly the matching entries -/
theorem specStepB_delb_ents (ss : SS) (fresh : List Ent) (f : Filter)
    (hnd : (ss.ents.map (·.1)).Nodup) :
    (specStepB ss fresh (.delb f)).ents =
      ss.ents.filter fun x => !f.matchesMask (Mask.ofList (keys x.2)) := by
  show (specDelAll ss (matching ss f)).ents = _
  rw [specDelAll_ents _ _ hnd]
  apply List.filter_congr
  intro x hx
  cases hm : f.matchesMask (Mask.ofList (keys x.2)) with
  | true =>
    have : x.1 ∈ matching ss f := mem_matching.mpr ⟨x.2, hx, hm⟩
    simp [this]
  | false =>
    have : x.1 ∉ matching ss f := by
      intro hmem
      obtain ⟨cs, hx', hm'⟩ := mem_matching.mp hmem
      have h1 := find_of_mem hnd hx'
      have h2 := find_of_mem hnd (show (x.1, x.2) ∈ ss.ents from hx)
      rw [h1] at h2
      rw [Option.some.inj h2, hm] at hm'
      cases hm'
    simp [this]

/-! ## the ghost pool history of a batch removal -/

theorem nodup_of_map {α β : Type} (f : α → β) {l : List α} (h : (l.map f).Nodup) : l.Nodup := by
  unfold List.Nodup at h ⊢
  rw [List.pairwise_map] at h
  exact h.imp (fun hne heq => hne (congrArg f heq))

theorem nodup_of_reverse {α : Type} {l : List α} (h : l.reverse.Nodup) : l.Nodup := by
  unfold List.Nodup at h ⊢
  rw [List.pairwise_reverse] at h
  exact h.imp (fun hne => Ne.symm hne)

theorem mem_foldl_erase {α : Type} [DecidableEq α] : ∀ (l live : List α), live.Nodup → ∀ x : α,
    (x ∈ l.foldl List.erase live ↔ x ∈ live ∧ x ∉ l)
  | [], _, _, x => by simp
  | e :: l, live, hnd, x => by
    rw [List.foldl_cons, mem_foldl_erase l _ (hnd.erase e) x, List.Nodup.mem_erase_iff hnd]
    simp only [List.mem_cons, not_or, ne_eq]
    constructor
    · rintro ⟨⟨a, b⟩, c⟩; exact ⟨b, a, c⟩
    · rintro ⟨a, b, c⟩; exact ⟨⟨b, a⟩, c⟩

theorem nodup_foldl_erase {α : Type} [DecidableEq α] : ∀ (l live : List α), live.Nodup →
    (l.foldl List.erase live).Nodup
  | [], _, h => h
  | e :: l, _, h => nodup_foldl_erase l _ (h.erase e)

/-- recycling a duplicate-free list of live handles, in the ghost history -/
theorem ginv_recycleAll : ∀ (l : List Ent) (s : Pool.PS) (fl : List Nat), Pool.GInv s fl →
    (∀ e ∈ l, e ∈ s.live) → l.Nodup →
    ∃ fl', Pool.GInv ⟨l.foldl Pool.recycle s.p, s.issued, l.foldl List.erase s.live⟩ fl'
  | [], s, fl, g, _, _ => ⟨fl, g⟩
  | e :: l, s, fl, g, hl, hnd => by
    have he := hl e List.mem_cons_self
    have hi := g.live_issued e he
    have ha := (Pool.alive_iff_live s fl g e hi).mpr he
    obtain ⟨fl1, g1⟩ := Pool.step_inv s fl g (.recycle e)
    have hc : e ∈ s.issued ∧ s.p.alive e = true := ⟨hi, ha⟩
    simp only [Pool.PS.step, hc, and_self, if_true] at g1
    obtain ⟨hne, hnd'⟩ := List.nodup_cons.mp hnd
    have hl' : ∀ e' ∈ l, e' ∈ (⟨s.p.recycle e, s.issued, s.live.erase e⟩ : Pool.PS).live := by
      intro e' he'
      have hne' : e' ≠ e := fun hh => hne (hh ▸ he')
      exact (List.mem_erase_of_ne hne').mpr (hl e' (List.mem_cons_of_mem _ he'))
    exact ginv_recycleAll l _ fl1 g1 hl' hnd'

/-- the ghost invariant does not depend on the order of the live list -/
theorem ginv_of_mem {p : Pool} {issued live live' : List Ent} {fl : List Nat}
    (g : Pool.GInv ⟨p, issued, live⟩ fl) (hnd : live'.Nodup) (hm : ∀ x, x ∈ live' ↔ x ∈ live) :
    Pool.GInv ⟨p, issued, live'⟩ fl := by
  have hlen : live'.length = live.length := by
    apply Nat.le_antisymm
    · exact List.Nodup.length_le_of_subset hnd (fun x hx => (hm x).mp hx)
    · exact List.Nodup.length_le_of_subset g.live_nodup (fun x hx => (hm x).mpr hx)
  exact
    { pinv := g.pinv
      live_iff := fun h => (hm h).trans (g.live_iff h)
      live_nodup := hnd
      issued_bound := g.issued_bound
      live_issued := fun h hh => g.live_issued h ((hm h).mp hh)
      count := by show p.ents.length = 2 + live'.length + fl.length; rw [hlen]; exact g.count }

end RefineB

end Ark
