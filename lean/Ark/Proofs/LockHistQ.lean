/-
  Ark.Proofs.LockHistQ — property C07 over whole histories, part 2: the history machine with
  queries that stay open across other operations.

  * `OpQ` — `base op` (an operation of `Ark.Refine`: `reg | new p | new0 | add p | rem p | xchg p |
    set | del | copy | shrink | reset`), `qopen q fo` (`q := fo.Query()`, `q` a fresh name, `fo` an
    unregistered filter object), `qnext q` (`q.Next()`), `qclose q` (`q.Close()`),
    `emit evt comps e` (`Event.Emit`).
  * `QSt` — the state of `Ark.Refine` (world, issued handles, specification), the query objects
    the client holds (`cursors`), and the ghost list `openQ` of the names of the queries that
    were opened successfully, have not reported the end (`Next` returned `false`) and have not
    been closed.
  * `stepQ`, `runQ`, `reachQ` — the machine.  Every step runs the model operation and keeps the
    world it returns (a panic keeps the state reached, as Go's `recover`).  The specification of
    `Ark.Refine` advances by `Refine.specStep`, except that a structural operation issued while
    some query is open leaves it alone.
  * `HInvQ s fl lfl` — the inductive invariant: `Refine.HInv'` (= `HInv` without "unlocked"), the
    filter-side invariant of the world with its lock replaced by the initial one, the lock
    invariant `Lock.LInv ⟨w.locks, outstanding s⟩ lfl` where `outstanding s` are the lock bits of
    the open queries, `openQ` duplicate-free, `q ∈ openQ` iff the cursor `q` is not closed
    (`-1 ≤ table`), and every open cursor satisfies the cursor invariant of `Ark.Proofs.Drain`
    and has a defined list of rows still to visit.
  * one lemma per kind of step, each with the exact outcome of the model operation and the new
    machine state: `step_base_unlocked`, `step_base_locked`, `step_set`, `step_qopen`,
    `step_qnext_open`, `step_qnext_closed`, `step_qclose_open`, `step_qclose_closed`, `step_emit`
    (`HInvQ.advance`, `HInvQ.release`: an open query advances / releases its lock bit).
  * `stepQ_inv`, `runQ_inv`, `reachQ_inv`, `reachQ_bounds` — the invariant holds along every
    history (bounds as in `Refine.reach_hinv`).
  * `runQ_base_unlocked` — while no query is open, histories of `Ark.Refine` operations are run by
    the machine of `Ark.Refine`.

  (This module imports `Ark.Proofs.CacheHistOps` for `FInv`/`finv_step`; it therefore cannot be
  imported together with `Ark.Proofs.CompIndex`/`QueryOps`/`QueryHist`, which define a second
  `Ark.CIdxH`.)

  Kernel-only proofs, core Lean only.
-/
import Ark.Proofs.LockHist
import Ark.Proofs.CacheHistOps
import Ark.Proofs.RowsAlive

set_option autoImplicit false

namespace Ark

open World Ark.Props.C01World Refine

/-! ## 0. frames -/

/-- the filter-side invariant does not read the lock, except for its own statement about it -/
theorem FInv.withLocks {w : World} (h : FInv w) {l : Lock}
    (hl : ∃ (lf : List Nat), Lock.LInv ⟨l, []⟩ lf) : FInv (w.withLocks l) where
  cache := ⟨h.cache.uniq, h.cache.index, fun e he => ⟨(h.cache.entries e he).1, fun t =>
    ((h.cache.entries e he).2 t).trans (Selected_congr rfl rfl _ _ _).symm⟩⟩
  rinv := h.rinv.congr rfl rfl
  heap := ⟨h.heap.reg, h.heap.inj, h.heap.typed⟩
  cidx := h.cidx.congr rfl rfl rfl (fun _ _ => rfl)
  lock := hl
  pool := ⟨h.pool.avail, h.pool.bound⟩

namespace Lock

/-- under the lock invariant the world is locked iff some bit is outstanding -/
theorem LInv.isLocked_iff {l : Lock} {out fl : List Nat} (g : LInv ⟨l, out⟩ fl) :
    l.isLocked = true ↔ out ≠ [] := by
  simp only [Lock.isLocked, bne_iff_ne, ne_eq]
  constructor
  · intro hne hnil
    apply hne
    apply BitVec.eq_of_getLsbD_eq
    intro i hi
    have := g.locks i hi
    simp only [hnil, List.not_mem_nil, iff_false, Bool.not_eq_true] at this
    rw [this]; simp
  · intro hne hz
    cases hout : out with
    | nil => exact hne hout
    | cons b rest =>
      have hb : l.locks.getLsbD b = true := (g.locks_iff b).mpr (by show b ∈ out; rw [hout]; simp)
      rw [hz] at hb
      simp at hb

theorem LInv.unlocked_iff {l : Lock} {out fl : List Nat} (g : LInv ⟨l, out⟩ fl) :
    l.isLocked = false ↔ out = [] := by
  have := g.isLocked_iff
  cases h : l.isLocked with
  | true => simp only [h, true_iff] at this; simp [this]
  | false =>
    simp only [h, Bool.false_eq_true, false_iff, ne_eq, Decidable.not_not] at this
    simp [this]

/-- at most 64 bits are outstanding -/
theorem LInv.out_le {l : Lock} {out fl : List Nat} (g : LInv ⟨l, out⟩ fl) : out.length ≤ 64 := by
  have h1 := g.count
  have h2 := g.len64
  simp only at h1 h2
  omega

end Lock

/-- erasing from a list whose image under `f` is duplicate-free commutes with `map f` -/
theorem map_erase_of_nodup {α β : Type} [DecidableEq α] [DecidableEq β] (f : α → β) :
    ∀ (l : List α) (q : α), (l.map f).Nodup → q ∈ l → (l.erase q).map f = (l.map f).erase (f q)
  | [], _, _, h => by cases h
  | x :: xs, q, hnd, hq => by
    rw [List.map_cons, List.nodup_cons] at hnd
    by_cases hx : x = q
    · subst hx
      simp
    · have hq' : q ∈ xs := by
        rcases List.mem_cons.mp hq with h | h
        · exact absurd h.symm hx
        · exact h
      have hf : f x ≠ f q := fun hh => hnd.1 (hh ▸ List.mem_map_of_mem hq')
      rw [List.erase_cons_tail (by simpa using hx), List.map_cons, List.map_cons,
        List.erase_cons_tail (by simpa using hf), map_erase_of_nodup f xs q hnd.2 hq']

namespace AL

/-- overwriting a key with the value it has changes nothing -/
theorem insert_of_find?_self {ν : Type} : ∀ (m : AL ν) (k : Nat) (v : ν),
    find? m k = some v → insert m k v = m
  | [], _, _, h => by cases h
  | (k', v') :: rest, k, v, h => by
    by_cases hk : k' = k
    · subst hk
      simp only [find?, if_true, Option.some.injEq] at h
      subst h
      simp only [insert, if_true]
    · simp only [find?, if_neg hk] at h
      simp only [insert, if_neg hk, insert_of_find?_self rest k v h]

end AL

/-! ## 1. what the cursor reads of the world -/

namespace Table

theorem matchesRels_go_congr {T T' : Table} (h : SameMeta T T') :
    ∀ (rels : List RelID), matchesRels.go T' rels = matchesRels.go T rels
  | [] => rfl
  | r :: rest => by
    simp only [matchesRels.go, colIdx, h.ids, h.targets, matchesRels_go_congr h rest]

theorem matchesRels_congr {T T' : Table} (h : SameMeta T T') (rels : List RelID) :
    T'.matchesRels rels = T.matchesRels rels := by
  unfold matchesRels hasRelations
  rw [h.relIDs, matchesRels_go_congr h rels]

end Table

namespace Drain

/-- the rows a cursor still has to visit depend on the archetypes, the component index, and of
    the tables only on their lengths and relation targets -/
theorem remaining_congr {w w' : World} (ha : w'.archetypes = w.archetypes)
    (hci : w'.componentIndex = w.componentIndex)
    (hlen : ∀ (t : Nat), (w'.tbl t).len = (w.tbl t).len)
    (hm : ∀ (t : Nat) (rels : List RelID), (w'.tbl t).matchesRels rels = (w.tbl t).matchesRels rels)
    (c : QueryObj) : remaining w' c = remaining w c := by
  have hrows : ∀ (t : Nat), rowsOf w' t = rowsOf w t := fun t => by simp only [rowsOf, hlen]
  have hscan : ∀ (rels : List RelID) (ts : List Nat), scanRows w' rels ts = scanRows w rels ts := by
    intro rels ts
    induction ts with
    | nil => rfl
    | cons t rest ih => simp only [scanRows, hlen, hm, hrows, ih]
  have harch : ∀ (a : Nat), w'.arch a = w.arch a := fun a => by simp only [arch, ha]
  have hars : ∀ (f : Filter) (rels : List RelID) (as : List Nat),
      archRows w' f rels as = archRows w f rels as := by
    intro f rels as
    induction as with
    | nil => rfl
    | cons a rest ih => simp only [archRows, harch, hrows, hscan, ih]
  have hal : ∀ (r : Option Comp), w'.archList r = w.archList r := fun r => by
    cases r <;> simp only [archList, ha, hci]
  simp only [remaining, hscan, hars, hal]

end Drain

namespace World

theorem writeValsW_remaining (w : World) (e : Ent) (vals : List (Comp × Val)) (c : QueryObj) :
    Drain.remaining (writeValsW w e vals) c = Drain.remaining w c := by
  apply Drain.remaining_congr (w := w) (w' := writeValsW w e vals) rfl rfl
  · intro t
    simp only [writeValsW, modTbl_tbl]
    split
    · rename_i hc; rw [hc.1]; exact (Table.writeFold_len_ents _ vals _).1
    · rfl
  · intro t rels
    simp only [writeValsW, modTbl_tbl]
    split
    · rename_i hc; rw [hc.1]; exact Table.matchesRels_congr (writeFold_sameMeta _ vals _) rels
    · rfl

end World

/-! ## 2. the shapes of `Query()`, `Next`, `Close` -/

namespace World

open QueryExact in
/-- `FilterN.Query()` / `UnsafeFilter.Query()` on an unregistered filter: the only thing that can
    fail is `Lock()`, and then the world is unchanged (repaired defect D17) -/
theorem qOpen_uncached_cases (fo : FilterObj) (hc : fo.cache = none) (w : World) :
    (w.locks.lock = none ∧ qOpen fo [] w = .panic .outOfLocks w) ∨
    (∃ (l : Lock) (b : Nat), w.locks.lock = some (l, b) ∧
      qOpen fo [] w = .ok (openedQ fo w b) (w.withLocks l)) := by
  cases hl : w.locks.lock with
  | some p =>
    obtain ⟨l, b⟩ := p
    exact Or.inr ⟨l, b, rfl, qOpen_uncached fo w l b hc hl⟩
  | none =>
    left
    refine ⟨rfl, ?_⟩
    have hpre : preCheckTyped fo.filter.mask [] w = .ok () w := rfl
    unfold qOpen
    cases ht : fo.typed <;>
      simp [hc, hpre, World.lock, hl, bind, M.bind, M.get, pure, M.pure]

/-- `Close` on a finished or closed query does nothing -/
theorem qClose_closed (c : QueryObj) (w : World) (h : c.table < -1) : qClose c w = .ok c w := by
  simp [qClose, h, pure, M.pure]

/-- `Next` on a finished or closed query panics without effect -/
theorem qNext_closed (c : QueryObj) (w : World) (h : c.table < -1) :
    qNext c w = .panic .queryDone w := by
  simp [qNext, h, bind, M.bind, M.panic]

/-- `Event.Emit` in a world without observers does nothing (or rejects a predefined event type) -/
theorem opEmit_noObs (run : ProbeRunner) (evt : Nat) (comps : List Comp) (e : Ent) (w : World)
    (hno : w.obs.hasObservers evt = false) :
    opEmit run evt comps e w = .ok () w ∨ opEmit run evt comps e w = .panic .emitPredefined w := by
  by_cases h : evt ≤ Ev.custom
  · left; simp [opEmit, bind, M.bind, M.assert, M.get, h, hno, pure, M.pure]
  · right; simp [opEmit, bind, M.bind, M.assert, h]

end World

/-! ## 3. the machine -/

namespace LockHist

/-- the operations of the machine with open queries -/
inductive OpQ
  /-- an operation of `Ark.Refine` (`reg`, `new p`, `new0`, `add p`, `rem p`, `xchg p`, `set`,
      `del`, `copy`, `shrink`, `reset`) -/
  | base (op : Op)
  /-- `q := fo.Query()`: `q` names the query object returned -/
  | qopen (q : Nat) (fo : FilterObj)
  /-- `q.Next()` -/
  | qnext (q : Nat)
  /-- `q.Close()` -/
  | qclose (q : Nat)
  /-- `Event.Emit` of event type `evt` with the components `comps` for entity `e` -/
  | emit (evt : Nat) (comps : List Comp) (e : Ent)

/-- world + ghost history + specification of `Ark.Refine`, the query objects the client holds,
    and the ghost list of the open queries -/
structure QSt where
  base : St
  /-- query name ↦ query object (`Query0..8` / `UnsafeQuery` value) -/
  cursors : AL QueryObj
  /-- ghost: the names of the queries that were opened successfully, have not reported the end
      and have not been closed, newest first -/
  openQ : List Nat

namespace QSt

/-- the world -/
def w (s : QSt) : World := s.base.w

/-- the same state with another world -/
def setW (s : QSt) (w : World) : QSt := { s with base := { s.base with w := w } }

def init (cap rel : Nat) : QSt := ⟨St.init cap rel, [], []⟩

end QSt

/-- what a client can express: the guard of `Ark.Refine` for its operations; a query is stored
    under a fresh name and made from an unregistered filter object (the machine of `Ark.Refine`
    has no filter registration); `Next`/`Close` are called on a query object the client holds -/
def guardQ (s : QSt) : OpQ → Bool
  | .base op => guard s.base op
  | .qopen q fo => (AL.find? s.cursors q).isNone && fo.cache.isNone
  | .qnext q => (AL.find? s.cursors q).isSome
  | .qclose q => (AL.find? s.cursors q).isSome
  | .emit _ _ _ => true

/-- **one step.**  The model operation is run on the world and the world it returns is kept,
    also after a panic (Go `recover`).
    * `base op`: while a query is open a structural operation only runs the model (that it panics
      without effect is a theorem); otherwise the step of `Ark.Refine`.
    * `qopen q fo`: `Query()`; on success the query object is stored under `q` and `q` is open.
    * `qnext q`: `Next()`; the query object is updated; when `Next` reports the end (`false`),
      `q` is no longer open.
    * `qclose q`: `Close()`; `q` is no longer open.
    * `emit`: `Event.Emit`. -/
def stepQ (run : ProbeRunner) (s : QSt) : OpQ → QSt
  | .base op =>
    if s.openQ ≠ [] ∧ op.structural = true then
      if guard s.base op = true then s.setW (exec run s.w op).state else s
    else { s with base := Refine.step run s.base op }
  | .qopen q fo =>
    if guardQ s (.qopen q fo) = true then
      match qOpen fo [] s.w with
      | .ok c w' => ⟨{ s.base with w := w' }, AL.insert s.cursors q c, q :: s.openQ⟩
      | .panic _ w' => s.setW w'
    else s
  | .qnext q =>
    match AL.find? s.cursors q with
    | none => s
    | some c =>
      match qNext c s.w with
      | .ok (c', more) w' =>
        ⟨{ s.base with w := w' }, AL.insert s.cursors q c',
          if more = true then s.openQ else s.openQ.erase q⟩
      | .panic _ w' => s.setW w'
  | .qclose q =>
    match AL.find? s.cursors q with
    | none => s
    | some c =>
      match qClose c s.w with
      | .ok c' w' => ⟨{ s.base with w := w' }, AL.insert s.cursors q c', s.openQ.erase q⟩
      | .panic _ w' => s.setW w'
  | .emit evt comps e => s.setW (opEmit run evt comps e s.w).state

def runQ (run : ProbeRunner) (s : QSt) (ops : List OpQ) : QSt := ops.foldl (stepQ run) s

/-- the state reached from `NewWorld(cap, rel)` by the history `ops` -/
def reachQ (run : ProbeRunner) (cap rel : Nat) (ops : List OpQ) : QSt :=
  runQ run (QSt.init cap rel) ops

theorem reachQ_snoc (run : ProbeRunner) (cap rel : Nat) (ops : List OpQ) (op : OpQ) :
    reachQ run cap rel (ops ++ [op]) = stepQ run (reachQ run cap rel ops) op := by
  simp only [reachQ, runQ, List.foldl_append, List.foldl_cons, List.foldl_nil]

/-! ## 4. the invariant -/

/-- the lock bit of the query object named `q` -/
def bitOf (cs : AL QueryObj) (q : Nat) : Nat := ((AL.find? cs q).map (·.lockBit)).getD 0

/-- the lock bits of the open queries -/
def outstanding (s : QSt) : List Nat := s.openQ.map (bitOf s.cursors)

/-- an open query object: the cursor invariant of `Ark.Proofs.Drain`, made from an unregistered
    filter, and the rows it still has to visit are defined (no step can hit a nil dereference) -/
structure CurOK (w : World) (c : QueryObj) : Prop where
  inv : Drain.Inv c
  uncached : c.cacheTables = none
  rem : ∃ (rows : List (Nat × Nat)), Drain.remaining w c = some rows

/-- **the inductive invariant of the machine with open queries** -/
structure HInvQ (s : QSt) (fl lfl : List Nat) : Prop where
  /-- the invariant of `Ark.Refine` without "the world is unlocked" -/
  hinv : HInv' s.base fl
  /-- the filter-side invariant (relation index, component index, cache) of the world with the
      initial lock -/
  finv : FInv (s.w.withLocks {})
  /-- **the lock**: the bit pool is consistent and the mask holds exactly the lock bits of the
      open queries, which are pairwise distinct (`Lock.LInv.out_nodup`) -/
  linv : Lock.LInv ⟨s.w.locks, outstanding s⟩ lfl
  openNodup : s.openQ.Nodup
  /-- a query is open iff its query object is not closed -/
  open_iff : ∀ (q : Nat), q ∈ s.openQ ↔ ∃ (c : QueryObj), AL.find? s.cursors q = some c ∧ -1 ≤ c.table
  cur : ∀ (q : Nat) (c : QueryObj), AL.find? s.cursors q = some c → -1 ≤ c.table → CurOK s.w c

theorem hinvQ_init (cap rel : Nat) : HInvQ (QSt.init cap rel) [] [] where
  hinv := hinv'_init cap rel
  finv := finv_init cap rel
  linv := Lock.linv_init
  openNodup := List.nodup_nil
  open_iff := by
    intro q
    constructor
    · intro h; cases h
    · rintro ⟨c, h, _⟩; cases h
  cur := by intro q c h; cases h

namespace HInvQ

variable {s : QSt} {fl lfl : List Nat}

/-- **locked iff a query is open** -/
theorem locked_iff (H : HInvQ s fl lfl) : s.w.isLocked = true ↔ s.openQ ≠ [] := by
  have := H.linv.isLocked_iff
  simp only [outstanding, ne_eq, List.map_eq_nil_iff] at this
  exact this

theorem unlocked_iff (H : HInvQ s fl lfl) : s.w.isLocked = false ↔ s.openQ = [] := by
  have := H.linv.unlocked_iff
  simp only [outstanding, List.map_eq_nil_iff] at this
  exact this

/-- at most 64 queries are open -/
theorem open_le (H : HInvQ s fl lfl) : s.openQ.length ≤ 64 := by
  have := H.linv.out_le
  simpa only [outstanding, List.length_map] using this

/-- when no query is open the invariant of `Ark.Refine` holds, with `unlocked` -/
theorem toHInv (H : HInvQ s fl lfl) (h : s.openQ = []) : HInv s.base fl :=
  H.hinv.toHInv (H.unlocked_iff.mpr h)

theorem bit_mem {q : Nat} (hq : q ∈ s.openQ) :
    bitOf s.cursors q ∈ outstanding s := List.mem_map_of_mem hq

theorem closed_of_not_open (H : HInvQ s fl lfl) {q : Nat} {c : QueryObj}
    (hc : AL.find? s.cursors q = some c) (hq : q ∉ s.openQ) : c.table < -1 := by
  false_or_by_contra
  rename_i h
  exact hq ((H.open_iff q).mpr ⟨c, hc, by omega⟩)

end HInvQ

/-! ## 5. cursors and the world -/

theorem CurOK.withLocks {w : World} {c : QueryObj} (h : CurOK w c) (l : Lock) :
    CurOK (w.withLocks l) c :=
  ⟨h.inv, h.uncached, by
    rw [Drain.remaining_congr (w := w) (w' := w.withLocks l) rfl rfl (fun _ => rfl) (fun _ _ => rfl)]
    exact h.rem⟩

theorem CurOK.writeVals {w : World} {c : QueryObj} (h : CurOK w c) (e : Ent)
    (vals : List (Comp × Val)) : CurOK (writeValsW w e vals) c :=
  ⟨h.inv, h.uncached, by rw [writeValsW_remaining]; exact h.rem⟩

/-- in the fragment no archetype — existing or not — has a relation column -/
theorem noRel_all {w : World} {fl : List Nat} (h : CInv w fl) (a : Nat) :
    (w.arch a).hasRelations = false := by
  by_cases ha : a < w.archetypes.length
  · exact h.noRelArch' ha
  · have : w.arch a = default := by
      simp only [arch, List.getD_eq_getElem?_getD, List.getElem?_eq_none (Nat.le_of_not_lt ha),
        Option.getD_none]
    rw [this]; rfl

open QueryExact in
/-- the rows a freshly opened query has to visit: the rows of the tables its counting walk
    selects -/
theorem remaining_opened {w : World} {fl : List Nat} (h : CInv w fl) (fo : FilterObj) (b : Nat) :
    Drain.remaining w (openedQ fo w b) =
      some ((selTables w fo.filter (w.archList (rareOf fo w))).flatMap (Drain.rowsOf w)) :=
  Drain.remaining_fresh w _ _ ⟨rfl, rfl, rfl, rfl, rfl, rfl⟩
    (qSelected_noRel w (openedQ fo w b) rfl (fun a _ => noRel_all h a))

open QueryExact in
theorem curOK_opened {w : World} {fl : List Nat} (h : CInv w fl) (fo : FilterObj) (b : Nat) :
    CurOK w (openedQ fo w b) :=
  ⟨Drain.Fresh.inv ⟨rfl, rfl, rfl, rfl, rfl, rfl⟩, rfl, _, remaining_opened h fo b⟩

theorem bitOf_insert_self (cs : AL QueryObj) (q : Nat) (c : QueryObj) :
    bitOf (AL.insert cs q c) q = c.lockBit := by
  simp only [bitOf, AL.find?_insert_self, Option.map_some, Option.getD_some]

theorem bitOf_insert_ne (cs : AL QueryObj) {q q' : Nat} (c : QueryObj) (h : q' ≠ q) :
    bitOf (AL.insert cs q c) q' = bitOf cs q' := by
  simp only [bitOf, AL.find?_insert_ne _ _ _ _ h]

theorem bitOf_of_find {cs : AL QueryObj} {q : Nat} {c : QueryObj} (h : AL.find? cs q = some c) :
    bitOf cs q = c.lockBit := by
  simp only [bitOf, h, Option.map_some, Option.getD_some]

/-- replacing a query object by one with the same lock bit does not change the bits -/
theorem map_bitOf_insert (cs : AL QueryObj) {q : Nat} {c c' : QueryObj}
    (hc : AL.find? cs q = some c) (hb : c'.lockBit = c.lockBit) (l : List Nat) :
    l.map (bitOf (AL.insert cs q c')) = l.map (bitOf cs) := by
  apply List.map_congr_left
  intro q' _
  by_cases h : q' = q
  · subst h; rw [bitOf_insert_self, bitOf_of_find hc, hb]
  · exact bitOf_insert_ne cs c' h

/-- storing a query object under a name that is not in the list does not change the bits -/
theorem map_bitOf_insert_notin (cs : AL QueryObj) {q : Nat} (c' : QueryObj) (l : List Nat)
    (hq : q ∉ l) : l.map (bitOf (AL.insert cs q c')) = l.map (bitOf cs) := by
  apply List.map_congr_left
  intro q' hq'
  exact bitOf_insert_ne cs c' (fun h => hq (h ▸ hq'))

namespace HInvQ

variable {s : QSt} {fl lfl : List Nat}

/-- **an open query advances** (its query object is replaced by one with the same lock bit that
    is still open): the invariant is kept -/
theorem advance (H : HInvQ s fl lfl) {q : Nat} {c c' : QueryObj}
    (hc : AL.find? s.cursors q = some c) (hq : q ∈ s.openQ) (hb : c'.lockBit = c.lockBit)
    (ht : -1 ≤ c'.table) (hok : CurOK s.w c') :
    HInvQ ⟨s.base, AL.insert s.cursors q c', s.openQ⟩ fl lfl where
  hinv := H.hinv
  finv := H.finv
  linv := by
    show Lock.LInv ⟨s.w.locks, s.openQ.map (bitOf (AL.insert s.cursors q c'))⟩ lfl
    rw [map_bitOf_insert s.cursors hc hb]; exact H.linv
  openNodup := H.openNodup
  open_iff := by
    intro q'
    show q' ∈ s.openQ ↔ ∃ (x : QueryObj), AL.find? (AL.insert s.cursors q c') q' = some x ∧ _
    by_cases h : q' = q
    · subst h
      rw [AL.find?_insert_self]
      exact ⟨fun _ => ⟨c', rfl, ht⟩, fun _ => hq⟩
    · rw [AL.find?_insert_ne _ _ _ _ h]; exact H.open_iff q'
  cur := by
    intro q' x hx hxt
    change AL.find? (AL.insert s.cursors q c') q' = some x at hx
    by_cases h : q' = q
    · subst h
      rw [AL.find?_insert_self] at hx
      rw [← Option.some.inj hx]; exact hok
    · rw [AL.find?_insert_ne _ _ _ _ h] at hx
      exact H.cur q' x hx hxt

/-- **an open query releases its lock** (`Close`, or `Next` reporting the end): `Unlock` of its bit
    succeeds, the query object is closed, the query is no longer open, and the invariant is kept
    with exactly that bit returned -/
theorem release (H : HInvQ s fl lfl) {q : Nat} {c c' : QueryObj}
    (hc : AL.find? s.cursors q = some c) (hq : q ∈ s.openQ) (hb : c'.lockBit = c.lockBit) :
    ∃ (l' : Lock), s.w.locks.unlock c'.lockBit = some l' ∧
      HInvQ ⟨s.base.withLocks l', AL.insert s.cursors q (Drain.closed c'), s.openQ.erase q⟩ fl
        (c.lockBit :: lfl) := by
  have hbit : bitOf s.cursors q = c.lockBit := bitOf_of_find hc
  have hmem : c.lockBit ∈ outstanding s := hbit ▸ bit_mem hq
  rcases Lock.unlock_spec _ lfl H.linv c.lockBit with ⟨_, hn⟩ | ⟨l', hul, _, g'⟩
  · exact absurd hmem hn
  refine ⟨l', by rw [hb]; exact hul, ?_⟩
  have hqe : q ∉ s.openQ.erase q := List.Nodup.not_mem_erase H.openNodup
  exact
    { hinv := H.hinv.withLocks l'
      finv := H.finv
      linv := by
        show Lock.LInv ⟨l', (s.openQ.erase q).map (bitOf (AL.insert s.cursors q (Drain.closed c')))⟩ _
        rw [map_bitOf_insert_notin s.cursors _ _ hqe,
          map_erase_of_nodup (bitOf s.cursors) s.openQ q H.linv.out_nodup hq, hbit]
        exact g'
      openNodup := H.openNodup.erase q
      open_iff := by
        intro q'
        show q' ∈ s.openQ.erase q ↔
          ∃ (x : QueryObj), AL.find? (AL.insert s.cursors q (Drain.closed c')) q' = some x ∧ _
        by_cases h : q' = q
        · subst h
          rw [AL.find?_insert_self]
          constructor
          · intro hh; exact absurd hh hqe
          · rintro ⟨x, hx, hxt⟩
            rw [← Option.some.inj hx] at hxt
            simp only [Drain.closed] at hxt
            omega
        · rw [AL.find?_insert_ne _ _ _ _ h, List.mem_erase_of_ne h]; exact H.open_iff q'
      cur := by
        intro q' x hx hxt
        change AL.find? (AL.insert s.cursors q (Drain.closed c')) q' = some x at hx
        by_cases h : q' = q
        · subst h
          rw [AL.find?_insert_self] at hx
          rw [← Option.some.inj hx] at hxt
          simp only [Drain.closed] at hxt
          omega
        · rw [AL.find?_insert_ne _ _ _ _ h] at hx
          exact (H.cur q' x hx hxt).withLocks l' }

end HInvQ

/-! ### the outstanding bits after the three kinds of query steps -/

theorem outstanding_open (b : St) (cs : AL QueryObj) (l : List Nat) {q : Nat} (c : QueryObj)
    (hq : q ∉ l) :
    outstanding ⟨b, AL.insert cs q c, q :: l⟩ = c.lockBit :: l.map (bitOf cs) := by
  simp only [outstanding, List.map_cons, bitOf_insert_self, map_bitOf_insert_notin cs c l hq]

theorem outstanding_advance (b : St) (cs : AL QueryObj) (l : List Nat) {q : Nat} {c c' : QueryObj}
    (hc : AL.find? cs q = some c) (hb : c'.lockBit = c.lockBit) :
    outstanding ⟨b, AL.insert cs q c', l⟩ = l.map (bitOf cs) := by
  simp only [outstanding, map_bitOf_insert cs hc hb]

theorem HInvQ.outstanding_release {s : QSt} {fl lfl : List Nat} (H : HInvQ s fl lfl) (b : St)
    {q : Nat} {c : QueryObj} (hc : AL.find? s.cursors q = some c) (hq : q ∈ s.openQ)
    (c' : QueryObj) :
    outstanding ⟨b, AL.insert s.cursors q c', s.openQ.erase q⟩ = (outstanding s).erase c.lockBit := by
  have hqe : q ∉ s.openQ.erase q := List.Nodup.not_mem_erase H.openNodup
  simp only [outstanding]
  rw [map_bitOf_insert_notin s.cursors _ _ hqe,
    map_erase_of_nodup (bitOf s.cursors) s.openQ q H.linv.out_nodup hq, bitOf_of_find hc]

/-! ## 6. one step -/

section Steps

variable (run : ProbeRunner) {s : QSt} {fl lfl : List Nat}

/-- the filter-side invariant of the actual world when no query is open -/
theorem HInvQ.finv_unlocked (H : HInvQ s fl lfl) (h0 : s.openQ = []) : FInv s.w := by
  have hl : Lock.LInv ⟨s.w.locks, []⟩ lfl := by
    have := H.linv
    simp only [outstanding, h0, List.map_nil] at this
    exact this
  exact H.finv.withLocks (l := s.w.locks) ⟨lfl, hl⟩

/-- **a `base` step while no query is open is the step of `Ark.Refine`**, and keeps the
    invariant -/
theorem step_base_unlocked (H : HInvQ s fl lfl) (h0 : s.openQ = [])
    (hfew : s.w.tables.length < maxU32) (hent : s.w.entities.length + 1 < 2 ^ 32) (op : Op) :
    stepQ run s (.base op) = { s with base := Refine.step run s.base op } ∧
    StepGoal run s.base op ∧
    ∃ (fl' lfl' : List Nat), HInvQ { s with base := Refine.step run s.base op } fl' lfl' := by
  have hstep : stepQ run s (.base op) = { s with base := Refine.step run s.base op } := by
    simp only [stepQ, h0, ne_eq, not_true_eq_false, false_and, if_false]
  have HB : HInv s.base fl := H.toHInv h0
  have G := step_goal run HB hfew hent op
  obtain ⟨fl1, H1⟩ := G.1
  have F1 : FInv (Refine.step run s.base op).w :=
    CacheHist.finv_step run ⟨HB, H.finv_unlocked h0⟩ hent op G H1
  refine ⟨hstep, G, fl1, F1.lock.choose, ?_⟩
  exact
    { hinv := H1.toHInv'
      finv := F1.withLocks ⟨[], Lock.linv_init⟩
      linv := by
        show Lock.LInv ⟨(Refine.step run s.base op).w.locks, s.openQ.map _⟩ _
        rw [h0]; exact F1.lock.choose_spec
      openNodup := H.openNodup
      open_iff := H.open_iff
      cur := by
        intro q c hc ht
        have : q ∈ s.openQ := (H.open_iff q).mpr ⟨c, hc, ht⟩
        rw [h0] at this; cases this }

/-- **a structural operation while a query is open panics and changes nothing**: not the world,
    not the specification, not the machine state -/
theorem step_base_locked (H : HInvQ s fl lfl) (h1 : s.openQ ≠ []) (op : Op)
    (hs : op.structural = true) :
    exec run s.w op = .panic (lockedClass s.w op) s.w ∧ stepQ run s (.base op) = s := by
  have hl : s.w.isLocked = true := H.locked_iff.mpr h1
  have hex := exec_structural_locked run s.w hl op hs
  refine ⟨hex, ?_⟩
  simp only [stepQ, h1, ne_eq, not_false_eq_true, hs, and_self, if_true, hex, Res.state]
  split <;> rfl

/-- the world after the machine step for `Set`: unchanged, or the values written -/
theorem step_set_w (b : St) (hno : b.w.obs.hasObservers Ev.onSetComponents = false) (e : Ent)
    (vals : Comps) :
    (Refine.step run b (.set e vals)).w = b.w ∨
    (Refine.step run b (.set e vals)).w = writeValsW b.w e vals := by
  by_cases hg : guard b (.set e vals) = true
  · rw [step_of_guard hg]
    rcases exec_set_cases run b.w hno e vals with ⟨k, h⟩ | h
    · left; rw [h]; rfl
    · right; rw [h]; rfl
  · left; rw [Refine.step, if_neg hg]

/-- **`Set` keeps working while queries are open**: the step is the step of `Ark.Refine`, with
    everything `Refine.StepGoal` says about it, the lock is untouched, and the invariant is kept
    (in particular every open cursor still has its rows to visit: values change, rows do not) -/
theorem step_set (H : HInvQ s fl lfl) (hent : s.w.entities.length + 1 < 2 ^ 32) (e : Ent)
    (vals : Comps) :
    stepQ run s (.base (.set e vals)) = { s with base := Refine.step run s.base (.set e vals) } ∧
    StepGoal' run s.base (.set e vals) ∧
    (Refine.step run s.base (.set e vals)).w.locks = s.w.locks ∧
    ∃ (fl' : List Nat), HInvQ { s with base := Refine.step run s.base (.set e vals) } fl' lfl := by
  have hstep : stepQ run s (.base (.set e vals)) =
      { s with base := Refine.step run s.base (.set e vals) } := by
    simp only [stepQ, Op.structural, Bool.false_eq_true, and_false, if_false]
  have hno := H.hinv.cinv.noObs Ev.onSetComponents
  obtain ⟨G', hlk⟩ := H.hinv.step_set run e vals
  obtain ⟨fl1, H1⟩ := G'.1
  -- the filter-side invariant, through the twin state with the initial lock
  have H0 : HInv (s.base.withLocks {}) fl := (H.hinv.withLocks {}).toHInv rfl
  have G0 := Refine.step_set run H0 e vals
  obtain ⟨fl0, H01⟩ := G0.1
  have hent0 : (s.base.withLocks {}).w.entities.length + 1 < 2 ^ 32 := hent
  have F1 : FInv (Refine.step run (s.base.withLocks {}) (.set e vals)).w :=
    CacheHist.finv_step run ⟨H0, H.finv⟩ hent0 _ G0 H01
  rw [step_set_withLocks run s.base hno] at F1
  refine ⟨hstep, G', hlk, fl1, ?_⟩
  exact
    { hinv := H1
      finv := F1
      linv := by
        show Lock.LInv ⟨(Refine.step run s.base (.set e vals)).w.locks, s.openQ.map _⟩ _
        rw [hlk]; exact H.linv
      openNodup := H.openNodup
      open_iff := H.open_iff
      cur := by
        intro q c hc ht
        show CurOK (Refine.step run s.base (.set e vals)).w c
        rcases step_set_w run s.base hno e vals with h | h <;> rw [h]
        · exact H.cur q c hc ht
        · exact (H.cur q c hc ht).writeVals e vals }

open QueryExact in
/-- **`Query()`**: with 64 queries open `Lock()` panics `outOfLocks` and nothing changes; with
    fewer it succeeds, hands out a bit below 64 that no open query holds, the returned query
    object is stored, the query is open, and the invariant is kept -/
theorem step_qopen (H : HInvQ s fl lfl) (q : Nat) (fo : FilterObj)
    (hg : guardQ s (.qopen q fo) = true) :
    (s.openQ.length = 64 ∧ qOpen fo [] s.w = .panic .outOfLocks s.w ∧
      stepQ run s (.qopen q fo) = s) ∨
    (s.openQ.length < 64 ∧ ∃ (l : Lock) (b : Nat), s.w.locks.lock = some (l, b) ∧ b < 64 ∧
      b ∉ outstanding s ∧
      qOpen fo [] s.w = .ok (openedQ fo s.w b) (s.w.withLocks l) ∧
      stepQ run s (.qopen q fo) =
        ⟨s.base.withLocks l, AL.insert s.cursors q (openedQ fo s.w b), q :: s.openQ⟩ ∧
      ∃ (lfl' : List Nat),
        HInvQ ⟨s.base.withLocks l, AL.insert s.cursors q (openedQ fo s.w b), q :: s.openQ⟩ fl lfl') := by
  have hg' := hg
  simp only [guardQ, Bool.and_eq_true, Option.isNone_iff_eq_none] at hg'
  obtain ⟨hq, hc⟩ := hg'
  have hqo : q ∉ s.openQ := by
    intro h
    obtain ⟨c, hc', _⟩ := (H.open_iff q).mp h
    rw [hq] at hc'; cases hc'
  have hlen : (outstanding s).length = s.openQ.length := by simp only [outstanding, List.length_map]
  rcases Lock.lock_spec _ lfl H.linv with ⟨hn, h64⟩ | ⟨l, b, hl, hb64, hbn, hlt, lfl', g'⟩
  · left
    rcases qOpen_uncached_cases fo hc s.w with ⟨_, hp⟩ | ⟨l, b, hl, _⟩
    · refine ⟨by rw [← hlen]; exact h64, hp, ?_⟩
      simp only [stepQ, hg, if_true, hp]; rfl
    · rw [show s.w.locks.lock = none from hn] at hl; cases hl
  · right
    have hl' : s.w.locks.lock = some (l, b) := hl
    have hop := qOpen_uncached fo s.w l b hc hl'
    refine ⟨by rw [← hlen]; exact hlt, l, b, hl', hb64, hbn, hop, ?_, lfl', ?_⟩
    · simp only [stepQ, hg, if_true, hop]; rfl
    · exact
        { hinv := H.hinv.withLocks l
          finv := H.finv
          linv := by
            show Lock.LInv ⟨l, (q :: s.openQ).map (bitOf (AL.insert s.cursors q (openedQ fo s.w b)))⟩ _
            rw [List.map_cons, bitOf_insert_self, map_bitOf_insert_notin s.cursors _ _ hqo]
            exact g'
          openNodup := List.nodup_cons.mpr ⟨hqo, H.openNodup⟩
          open_iff := by
            intro q'
            show q' ∈ q :: s.openQ ↔
              ∃ (x : QueryObj), AL.find? (AL.insert s.cursors q (openedQ fo s.w b)) q' = some x ∧ _
            by_cases h : q' = q
            · subst h
              rw [AL.find?_insert_self]
              exact ⟨fun _ => ⟨_, rfl, by show (-1 : Int) ≤ -1; omega⟩, fun _ => List.mem_cons_self⟩
            · rw [AL.find?_insert_ne _ _ _ _ h, List.mem_cons]
              constructor
              · rintro (hh | hh)
                · exact absurd hh h
                · exact (H.open_iff q').mp hh
              · intro hh; exact Or.inr ((H.open_iff q').mpr hh)
          cur := by
            intro q' x hx hxt
            change AL.find? (AL.insert s.cursors q (openedQ fo s.w b)) q' = some x at hx
            by_cases h : q' = q
            · subst h
              rw [AL.find?_insert_self] at hx
              rw [← Option.some.inj hx]
              exact (curOK_opened H.hinv.cinv fo b).withLocks l
            · rw [AL.find?_insert_ne _ _ _ _ h] at hx
              exact (H.cur q' x hx hxt).withLocks l }

/-- **`Next` on an open query**: it does not panic; either it moves to the next row — the world is
    unchanged, the query stays open with its lock bit, the row is the head of the rows it had to
    visit — or it reports the end: then there was no row left, `Unlock` of exactly its bit
    succeeds, the query object is closed and the query is no longer open.  The invariant is kept. -/
theorem step_qnext_open (H : HInvQ s fl lfl) {q : Nat} {c : QueryObj}
    (hc : AL.find? s.cursors q = some c) (hq : q ∈ s.openQ) :
    (∃ (c' : QueryObj) (r : Nat × Nat) (rs : List (Nat × Nat)),
      qNext c s.w = .ok (c', true) s.w ∧
      stepQ run s (.qnext q) = ⟨s.base, AL.insert s.cursors q c', s.openQ⟩ ∧
      c'.lockBit = c.lockBit ∧ 0 ≤ c'.table ∧
      Drain.remaining s.w c = some (r :: rs) ∧ c'.cur = some r.1 ∧ c'.index = r.2 ∧
      Drain.remaining s.w c' = some rs ∧
      HInvQ ⟨s.base, AL.insert s.cursors q c', s.openQ⟩ fl lfl) ∨
    (∃ (c' : QueryObj) (l' : Lock),
      Drain.remaining s.w c = some [] ∧
      s.w.locks.unlock c.lockBit = some l' ∧
      qNext c s.w = .ok (Drain.closed c', false) (s.w.withLocks l') ∧
      stepQ run s (.qnext q) =
        ⟨s.base.withLocks l', AL.insert s.cursors q (Drain.closed c'), s.openQ.erase q⟩ ∧
      HInvQ ⟨s.base.withLocks l', AL.insert s.cursors q (Drain.closed c'), s.openQ.erase q⟩ fl
        (c.lockBit :: lfl)) := by
  obtain ⟨x, hx, hxt⟩ := (H.open_iff q).mp hq
  rw [hc] at hx; cases hx
  have ok := H.cur q c hc hxt
  obtain ⟨rows, hrem⟩ := ok.rem
  have st := Drain.step s.w c rows ok.inv hrem
  cases rows with
  | nil =>
    right
    obtain ⟨c', h1, h2, h3⟩ := st
    obtain ⟨l', hul, HI⟩ := H.release hc hq h2.lockBit
    have hn : qNext c s.w = .ok (Drain.closed c', false) (s.w.withLocks l') := by
      rw [Drain.qNext_eq, h1]
      simp only []
      rw [Drain.qClose_ok c' s.w l' h3 hul]; rfl
    refine ⟨c', l', hrem, by rw [← h2.lockBit]; exact hul, hn, ?_, HI⟩
    simp only [stepQ, hc, hn, Bool.false_eq_true, if_false]; rfl
  | cons r rs =>
    left
    obtain ⟨c', h1, h2, h3, h4, h5, h6, h7⟩ := st
    have hn : qNext c s.w = .ok (c', true) s.w := by rw [Drain.qNext_eq, h1]
    have hok : CurOK s.w c' := ⟨h3, h2.cacheTables.trans ok.uncached, rs, h7⟩
    refine ⟨c', r, rs, hn, ?_, h2.lockBit, h4, hrem, h5, h6, h7,
      H.advance hc hq h2.lockBit (by omega) hok⟩
    simp only [stepQ, hc, hn, if_true]; rfl

/-- **`Next` on a finished or closed query** panics `queryDone` and changes nothing -/
theorem step_qnext_closed (H : HInvQ s fl lfl) {q : Nat} {c : QueryObj}
    (hc : AL.find? s.cursors q = some c) (hq : q ∉ s.openQ) :
    qNext c s.w = .panic .queryDone s.w ∧ stepQ run s (.qnext q) = s := by
  have hn := qNext_closed c s.w (H.closed_of_not_open hc hq)
  refine ⟨hn, ?_⟩
  simp only [stepQ, hc, hn]; rfl

/-- **`Close` on an open query**: `Unlock` of exactly its bit succeeds, the query object is
    closed, the query is no longer open; the invariant is kept -/
theorem step_qclose_open (H : HInvQ s fl lfl) {q : Nat} {c : QueryObj}
    (hc : AL.find? s.cursors q = some c) (hq : q ∈ s.openQ) :
    ∃ (l' : Lock), s.w.locks.unlock c.lockBit = some l' ∧
      qClose c s.w = .ok (Drain.closed c) (s.w.withLocks l') ∧
      stepQ run s (.qclose q) =
        ⟨s.base.withLocks l', AL.insert s.cursors q (Drain.closed c), s.openQ.erase q⟩ ∧
      HInvQ ⟨s.base.withLocks l', AL.insert s.cursors q (Drain.closed c), s.openQ.erase q⟩ fl
        (c.lockBit :: lfl) := by
  obtain ⟨x, hx, hxt⟩ := (H.open_iff q).mp hq
  rw [hc] at hx; cases hx
  obtain ⟨l', hul, HI⟩ := H.release hc hq (c' := c) rfl
  have hcl : qClose c s.w = .ok (Drain.closed c) (s.w.withLocks l') := Drain.qClose_ok c s.w l' hxt hul
  refine ⟨l', hul, hcl, ?_, HI⟩
  simp only [stepQ, hc, hcl]; rfl

/-- **closing a finished or closed query again is harmless**: `Close` returns without touching the
    lock, and the machine state is unchanged -/
theorem step_qclose_closed (H : HInvQ s fl lfl) {q : Nat} {c : QueryObj}
    (hc : AL.find? s.cursors q = some c) (hq : q ∉ s.openQ) :
    qClose c s.w = .ok c s.w ∧ stepQ run s (.qclose q) = s := by
  have hcl := qClose_closed c s.w (H.closed_of_not_open hc hq)
  refine ⟨hcl, ?_⟩
  simp only [stepQ, hc, hcl, AL.insert_of_find?_self _ _ _ hc, List.erase_of_not_mem hq]; rfl

/-- **`Event.Emit` keeps working** (the fragment has no observers: it returns, or rejects a
    predefined event type) and changes nothing -/
theorem step_emit (H : HInvQ s fl lfl) (evt : Nat) (comps : List Comp) (e : Ent) :
    (opEmit run evt comps e s.w = .ok () s.w ∨
      opEmit run evt comps e s.w = .panic .emitPredefined s.w) ∧
    stepQ run s (.emit evt comps e) = s := by
  have h := opEmit_noObs run evt comps e s.w (H.hinv.cinv.noObs evt)
  refine ⟨h, ?_⟩
  rcases h with h | h <;> simp only [stepQ, h] <;> rfl

end Steps

/-! ## 7. all steps, all histories -/

/-- an operation the client cannot express is not a step -/
theorem stepQ_no_guard (run : ProbeRunner) (s : QSt) (op : OpQ) (hg : ¬ guardQ s op = true) :
    stepQ run s op = s := by
  cases op with
  | base op =>
    have hg' : ¬ guard s.base op = true := hg
    have : Refine.step run s.base op = s.base := by rw [Refine.step, if_neg hg']
    simp only [stepQ, this, if_neg hg']
    split <;> rfl
  | qopen q fo => simp only [stepQ, if_neg hg]
  | qnext q =>
    have : AL.find? s.cursors q = none := by
      simpa only [guardQ, Option.isSome_iff_ne_none, ne_eq, Decidable.not_not] using hg
    simp only [stepQ, this]
  | qclose q =>
    have : AL.find? s.cursors q = none := by
      simpa only [guardQ, Option.isSome_iff_ne_none, ne_eq, Decidable.not_not] using hg
    simp only [stepQ, this]
  | emit evt comps e => exact absurd rfl hg

/-- **one step keeps the invariant**; at most one table and one index slot are created -/
theorem stepQ_inv (run : ProbeRunner) {s : QSt} {fl lfl : List Nat} (H : HInvQ s fl lfl)
    (hfew : s.w.tables.length < maxU32) (hent : s.w.entities.length + 1 < 2 ^ 32) (op : OpQ) :
    (∃ (fl' lfl' : List Nat), HInvQ (stepQ run s op) fl' lfl') ∧
    (stepQ run s op).w.tables.length ≤ s.w.tables.length + 1 ∧
    (stepQ run s op).w.entities.length ≤ s.w.entities.length + 1 := by
  have same : ∀ {s' : QSt}, s' = s → (∃ (fl' lfl' : List Nat), HInvQ s' fl' lfl') ∧
      s'.w.tables.length ≤ s.w.tables.length + 1 ∧
      s'.w.entities.length ≤ s.w.entities.length + 1 := by
    intro s' h; subst h
    exact ⟨⟨fl, lfl, H⟩, Nat.le_succ _, Nat.le_succ _⟩
  by_cases hg : guardQ s op = true
  case neg => exact same (stepQ_no_guard run s op hg)
  cases op with
  | base op =>
    by_cases h0 : s.openQ = []
    · obtain ⟨h1, G, fl', lfl', HI⟩ := step_base_unlocked run H h0 hfew hent op
      rw [h1]
      exact ⟨⟨fl', lfl', HI⟩, G.2.1, G.2.2.1⟩
    · cases hs : op.structural with
      | true => exact same (step_base_locked run H h0 op hs).2
      | false =>
        cases op <;> try (cases hs)
        rename_i e vals
        obtain ⟨h1, G, _, fl', HI⟩ := step_set run H hent e vals
        rw [h1]
        exact ⟨⟨fl', lfl, HI⟩, G.2.1, G.2.2.1⟩
  | qopen q fo =>
    rcases step_qopen run H q fo hg with ⟨_, _, h⟩ | ⟨_, l, b, _, _, _, _, h, lfl', HI⟩
    · exact same h
    · rw [h]
      exact ⟨⟨fl, lfl', HI⟩, Nat.le_succ _, Nat.le_succ _⟩
  | qnext q =>
    obtain ⟨c, hc⟩ : ∃ c, AL.find? s.cursors q = some c := Option.isSome_iff_exists.mp hg
    by_cases hq : q ∈ s.openQ
    · rcases step_qnext_open run H hc hq with ⟨c', _, _, _, h, _, _, _, _, _, _, HI⟩ |
        ⟨c', l', _, _, _, h, HI⟩
      · rw [h]; exact ⟨⟨fl, lfl, HI⟩, Nat.le_succ _, Nat.le_succ _⟩
      · rw [h]; exact ⟨⟨fl, _, HI⟩, Nat.le_succ _, Nat.le_succ _⟩
    · exact same (step_qnext_closed run H hc hq).2
  | qclose q =>
    obtain ⟨c, hc⟩ : ∃ c, AL.find? s.cursors q = some c := Option.isSome_iff_exists.mp hg
    by_cases hq : q ∈ s.openQ
    · obtain ⟨l', _, _, h, HI⟩ := step_qclose_open run H hc hq
      rw [h]; exact ⟨⟨fl, _, HI⟩, Nat.le_succ _, Nat.le_succ _⟩
    · exact same (step_qclose_closed run H hc hq).2
  | emit evt comps e => exact same (step_emit run H evt comps e).2

/-- the invariant holds after every history that stays within the size bounds -/
theorem runQ_inv (run : ProbeRunner) (ops : List OpQ) : ∀ (s : QSt) (fl lfl : List Nat),
    HInvQ s fl lfl → s.w.tables.length + ops.length ≤ maxU32 →
    s.w.entities.length + ops.length < 2 ^ 32 →
    ∃ (fl' lfl' : List Nat), HInvQ (runQ run s ops) fl' lfl' ∧
      (runQ run s ops).w.tables.length ≤ s.w.tables.length + ops.length ∧
      (runQ run s ops).w.entities.length ≤ s.w.entities.length + ops.length := by
  induction ops with
  | nil => intro s fl lfl h _ _; exact ⟨fl, lfl, h, Nat.le_refl _, Nat.le_refl _⟩
  | cons op ops ih =>
    intro s fl lfl h hb1 hb2
    simp only [List.length_cons] at hb1 hb2 ⊢
    obtain ⟨⟨fl1, lfl1, h1⟩, g1, g2⟩ := stepQ_inv run h (by omega) (by omega) op
    obtain ⟨fl2, lfl2, h2, b1, b2⟩ := ih _ fl1 lfl1 h1 (by omega) (by omega)
    refine ⟨fl2, lfl2, h2, ?_, ?_⟩
    · show (runQ run (stepQ run s op) ops).w.tables.length ≤ _; omega
    · show (runQ run (stepQ run s op) ops).w.entities.length ≤ _; omega

/-- **the invariant holds at every reachable state** (same length bound as `Refine.reach_hinv`) -/
theorem reachQ_inv (run : ProbeRunner) (cap rel : Nat) (ops : List OpQ)
    (hlen : ops.length < 2 ^ 32 - 2) : ∃ (fl lfl : List Nat), HInvQ (reachQ run cap rel ops) fl lfl := by
  obtain ⟨fl, lfl, h, _⟩ := runQ_inv run ops _ [] [] (hinvQ_init cap rel)
    (by show 1 + ops.length ≤ maxU32; simp only [maxU32]; omega)
    (by show 2 + ops.length < 2 ^ 32; omega)
  exact ⟨fl, lfl, h⟩

/-- at most one table and one index slot per operation -/
theorem reachQ_bounds (run : ProbeRunner) (cap rel : Nat) (ops : List OpQ)
    (hlen : ops.length < 2 ^ 32 - 2) :
    (reachQ run cap rel ops).w.tables.length ≤ 1 + ops.length ∧
    (reachQ run cap rel ops).w.entities.length ≤ 2 + ops.length := by
  obtain ⟨_, _, _, b1, b2⟩ := runQ_inv run ops _ [] [] (hinvQ_init cap rel)
    (by show 1 + ops.length ≤ maxU32; simp only [maxU32]; omega)
    (by show 2 + ops.length < 2 ^ 32; omega)
  exact ⟨b1, b2⟩

/-! ## 8. the continuation after the last query has finished -/

/-- while no query is open, a history of operations of `Ark.Refine` is run by the machine of
    `Ark.Refine` -/
theorem runQ_base_unlocked (run : ProbeRunner) (ops : List Op) : ∀ (s : QSt), s.openQ = [] →
    runQ run s (ops.map .base) = { s with base := Refine.runOps run s.base ops } := by
  induction ops with
  | nil => intro s _; rfl
  | cons op ops ih =>
    intro s h0
    have hstep : stepQ run s (.base op) = { s with base := Refine.step run s.base op } := by
      simp only [stepQ, h0, ne_eq, not_true_eq_false, false_and, if_false]
    show runQ run (stepQ run s (.base op)) (ops.map .base) = _
    rw [hstep]
    exact ih { s with base := Refine.step run s.base op } h0

end LockHist

end Ark
