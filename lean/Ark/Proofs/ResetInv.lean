/-
  Ark.Proofs.ResetInv — `World.Reset` at world level (property C16).

  * `opReset_eq`: on an unlocked world `opReset` succeeds and its result is the pure function
    `resetW` (the archetype loop `M.forM'` is a left fold of `resetArchW`);
  * `resetLoop_spec`: the loop's effect on the stores, pointwise: every archetype with relation
    columns becomes `freeAllTables` of itself, every table of a processed archetype that was
    active is reset (and marked free in a relation archetype), free tables are not touched;
  * the invariants `SInv`, `IdxInv`, `RInv`, `CacheInv` after `Reset`, the predicate
    `EmptyState` and the comparison with a fresh world.
  Kernel-only proofs, core Lean only.
-/
import Ark.Model.World
import Ark.Model.Query
import Ark.Proofs.Table
import Ark.Proofs.IdxInv
import Ark.Proofs.SInv
import Ark.Proofs.ArchIndex
import Ark.Proofs.CacheInv
import Ark.Proofs.Observers
import Ark.Proofs.Pool
import Ark.Proofs.DumpLoad
import Ark.Proofs.Drain
import Ark.Proofs.WInv
import Ark.Props.C02

namespace Ark

open World

/-! ## 1. `opReset` as a pure function -/

namespace World

/-- the body of `resetArchetype` -/
def resetArchW (w : World) (a : Nat) : World :=
  let A := w.arch a
  if !A.hasRelations then w.modTbl (A.tables.tables.getD 0 0) Table.reset else
  let w := A.tables.tables.foldl
    (fun (w : World) t => w.modTbl t fun T => { T.reset with isFree := true }) w
  w.setArch a A.freeAllTables

theorem resetArchetype_eq (a : Nat) (w : World) : resetArchetype a w = .ok () (resetArchW w a) := rfl

/-- the part of `Reset` before the archetype loop -/
def resetPre (w : World) : World :=
  let w := { w with entities := w.entities.take 2, pool := w.pool.reset, isTarget := w.isTarget.take 2 }
  let w := w.cacheReset
  { w with locks := w.locks.reset, obs := w.obs.reset }

/-- the archetype loop of `Reset` -/
def resetLoop (w : World) (n : Nat) : World := (List.range n).foldl resetArchW w

/-- the state `Reset` leaves -/
def resetW (w : World) : World :=
  { resetLoop (resetPre w) (resetPre w).archetypes.length with resources := [] }

theorem forM'_fold (f : World → Nat → World) (g : Nat → W Unit)
    (hg : ∀ a w, g a w = .ok () (f w a)) :
    ∀ (l : List Nat) (w : World), M.forM' l g w = .ok () (l.foldl f w)
  | [], _ => rfl
  | x :: l, w => by
    rw [M.forM', M.bind_apply, hg]
    exact forM'_fold f g hg l (f w x)

/-- **`Reset` on an unlocked world succeeds**, and its result is `resetW`. -/
theorem opReset_eq (w : World) (hl : w.isLocked = false) : opReset w = .ok () (resetW w) := by
  unfold opReset
  simp only [M.bind_apply, checkLocked, hl, Bool.false_eq_true, if_false, M.modify_apply,
    M.get_apply]
  rw [forM'_fold resetArchW resetArchetype resetArchetype_eq]
  rfl

/-! ## 2. the archetype loop, pointwise -/

/-- a projection that does not see the table and archetype stores is kept by `resetArchW` -/
theorem resetArchW_proj {β : Type} (p : World → β)
    (hT : ∀ (w : World) (t : Nat) (T : Table), p (w.setTbl t T) = p w)
    (hA : ∀ (w : World) (a : Nat) (A : Archetype), p (w.setArch a A) = p w)
    (w : World) (a : Nat) : p (resetArchW w a) = p w := by
  unfold resetArchW
  simp only
  split
  · exact hT _ _ _
  · rw [hA]
    exact foldl_keep _ p (fun w t => hT _ _ _) _ _

theorem resetLoop_proj {β : Type} (p : World → β)
    (hT : ∀ (w : World) (t : Nat) (T : Table), p (w.setTbl t T) = p w)
    (hA : ∀ (w : World) (a : Nat) (A : Archetype), p (w.setArch a A) = p w)
    (w : World) (n : Nat) : p (resetLoop w n) = p w :=
  foldl_keep _ p (fun w a => resetArchW_proj p hT hA w a) _ _

/-- a fold of `modTbl t f` over a duplicate-free list applies `f` once to each listed table -/
theorem foldl_modTbl_tables (f : Table → Table) : ∀ (ts : List Nat) (w : World), ts.Nodup →
    ∀ (t : Nat), (ts.foldl (fun (w : World) t => w.modTbl t f) w).tables[t]? =
      if t ∈ ts then (w.tables[t]?).map f else w.tables[t]?
  | [], w, _, t => by simp
  | x :: xs, w, hnd, t => by
    obtain ⟨hx, hxs⟩ := List.nodup_cons.1 hnd
    rw [List.foldl_cons, foldl_modTbl_tables f xs _ hxs t, modTbl_tables]
    by_cases htx : t = x
    · subst htx
      simp only [hx, if_false, List.mem_cons, true_or, if_true]
      rcases Nat.lt_or_ge t w.tables.length with hlt | hge
      · rw [List.getElem?_set_self hlt, get_of_lt hlt]; rfl
      · rw [List.getElem?_eq_none (by rw [List.length_set]; exact hge), List.getElem?_eq_none hge]; rfl
    · have hne : x ≠ t := fun h => htx h.symm
      rw [List.getElem?_set_ne hne]
      simp only [List.mem_cons, htx, false_or]

theorem foldl_modTbl_archetypes (f : Table → Table) (ts : List Nat) (w : World) :
    (ts.foldl (fun (w : World) t => w.modTbl t f) w).archetypes = w.archetypes :=
  foldl_keep (fun (w : World) t => w.modTbl t f) (·.archetypes) (fun _ _ => rfl) ts w

/-- what `Reset` does to an archetype: `FreeAllTables` if it has relation columns -/
def resetArchOf (A : Archetype) : Archetype := if A.hasRelations then A.freeAllTables else A

/-- what `Reset` does to a table of world `w0`: a free table is not touched, an active table is
    reset, and marked free if its archetype has relation columns -/
def resetTblOf (w0 : World) (T : Table) : Table :=
  if T.isFree then T
  else if (w0.arch T.arch).hasRelations then { T.reset with isFree := true } else T.reset

/-- the stores after `k` rounds of the archetype loop started in `w0` -/
structure LoopInv (w0 : World) (k : Nat) (w : World) : Prop where
  archs : ∀ (a : Nat), w.archetypes[a]? =
    (w0.archetypes[a]?).map fun A => if a < k then resetArchOf A else A
  tbls : ∀ (t : Nat), w.tables[t]? =
    (w0.tables[t]?).map fun T => if T.arch < k then resetTblOf w0 T else T

theorem LoopInv.zero (w0 : World) : LoopInv w0 0 w0 := by
  constructor
  · intro a; cases w0.archetypes[a]? <;> simp
  · intro t; cases w0.tables[t]? <;> simp

theorem LoopInv.step {w0 w : World} {k : Nat} (h : SInv w0) (hk : k < w0.archetypes.length)
    (hi : LoopInv w0 k w) : LoopInv w0 (k + 1) (resetArchW w k) := by
  have hA0 := aget_of_lt hk
  have hwk : w.arch k = w0.arch k := by
    apply arch_of_get; rw [hi.archs k, hA0]; simp
  have hlen : w.archetypes.length = w0.archetypes.length := by
    apply Nat.le_antisymm
    · apply Nat.le_of_not_lt; intro hlt
      have h1 := hi.archs w0.archetypes.length
      rw [List.getElem?_eq_getElem hlt, List.getElem?_eq_none (Nat.le_refl _)] at h1
      cases h1
    · apply Nat.le_of_not_lt; intro hlt
      have h1 := hi.archs w.archetypes.length
      rw [List.getElem?_eq_getElem hlt, List.getElem?_eq_none (Nat.le_refl _)] at h1
      cases h1
  -- the active tables of archetype `k`
  have hown : ∀ (t : Nat), t ∈ (w0.arch k).tables.tables →
      ∃ (T : Table), w0.tables[t]? = some T ∧ T.arch = k ∧ T.isFree = false := by
    intro t ht
    obtain ⟨T, hT, ha⟩ := h.owned k _ t hA0 (Or.inl ht)
    exact ⟨T, hT, ha, ((h.member t T hT).1).2 (by rw [ha]; exact ht)⟩
  -- every other table of archetype `k` is free
  have hother : ∀ (t : Nat) (T : Table), w0.tables[t]? = some T → T.arch = k →
      t ∉ (w0.arch k).tables.tables → T.isFree = true := by
    intro t T hT ha hnm
    cases hf : T.isFree with
    | true => rfl
    | false => exact absurd (by rw [← ha]; exact ((h.member t T hT).1).1 hf) hnm
  unfold resetArchW
  simp only [hwk]
  cases hr : (w0.arch k).hasRelations with
  | false =>
    simp only [Bool.not_false, if_true]
    obtain ⟨hl1, hfree⟩ := h.nonRel k _ hA0 hr
    obtain ⟨t0, hts⟩ := List.length_eq_one_iff.1 hl1
    have ht0 : (w0.arch k).tables.tables.getD 0 0 = t0 := by rw [hts]; rfl
    rw [ht0]
    obtain ⟨T0, hT0, ha0, hf0⟩ := hown t0 (by rw [hts]; exact List.mem_singleton.2 rfl)
    constructor
    · intro a
      show w.archetypes[a]? = _
      rw [hi.archs a]
      cases hA : w0.archetypes[a]? with
      | none => rfl
      | some A =>
        simp only [Option.map_some]
        congr 1
        by_cases h1 : a < k
        · simp [h1, Nat.lt_succ_of_lt h1]
        · by_cases h2 : a = k
          · subst h2
            rw [hA0] at hA; injection hA with hA; subst hA
            simp [resetArchOf, hr]
          · have : ¬ a < k + 1 := by omega
            simp [h1, this]
    · intro t
      rw [modTbl_tables]
      have hwT0 : w.tables[t0]? = some T0 := by
        rw [hi.tbls t0, hT0]; simp [ha0]
      by_cases htt : t = t0
      · subst htt
        rw [List.getElem?_set_self (lt_of_get hwT0), tbl_of_get hwT0, hT0]
        simp [ha0, resetTblOf, hf0, hr]
      · rw [List.getElem?_set_ne (fun hh => htt hh.symm), hi.tbls t]
        cases hT : w0.tables[t]? with
        | none => rfl
        | some T =>
          simp only [Option.map_some]
          congr 1
          by_cases h1 : T.arch < k
          · simp [h1, Nat.lt_succ_of_lt h1]
          · by_cases h2 : T.arch = k
            · have hfr := hother t T hT h2 (by rw [hts]; simpa using htt)
              have := ((h.member t T hT).2).1 hfr
              rw [h2, hfree] at this; cases this
            · have : ¬ T.arch < k + 1 := by omega
              simp [h1, this]
  | true =>
    simp only [Bool.not_true, Bool.false_eq_true, if_false]
    have hnd := (h.astruct k _ hA0).tablesWF.nodup
    constructor
    · intro a
      show ((List.foldl _ w _).archetypes.set k _)[a]? = _
      rw [foldl_modTbl_archetypes]
      by_cases h2 : a = k
      · subst h2
        rw [List.getElem?_set_self (by rw [hlen]; exact hk), hA0]
        simp [resetArchOf, hr]
      · rw [List.getElem?_set_ne (fun hh => h2 hh.symm), hi.archs a]
        cases hA : w0.archetypes[a]? with
        | none => rfl
        | some A =>
          simp only [Option.map_some]
          congr 1
          by_cases h1 : a < k
          · simp [h1, Nat.lt_succ_of_lt h1]
          · have : ¬ a < k + 1 := by omega
            simp [h1, this]
    · intro t
      show (List.foldl _ w _).tables[t]? = _
      rw [foldl_modTbl_tables _ _ _ hnd t, hi.tbls t]
      by_cases hm : t ∈ (w0.arch k).tables.tables
      · obtain ⟨T, hT, ha, hf⟩ := hown t hm
        simp [hm, hT, ha, resetTblOf, hf, hr]
      · simp only [hm, if_false]
        cases hT : w0.tables[t]? with
        | none => rfl
        | some T =>
          simp only [Option.map_some]
          congr 1
          by_cases h1 : T.arch < k
          · simp [h1, Nat.lt_succ_of_lt h1]
          · by_cases h2 : T.arch = k
            · have hfr := hother t T hT h2 hm
              simp [h2, resetTblOf, hfr]
            · have : ¬ T.arch < k + 1 := by omega
              simp [h1, this]

theorem resetLoop_succ (w : World) (k : Nat) : resetLoop w (k + 1) = resetArchW (resetLoop w k) k := by
  unfold resetLoop
  rw [List.range_succ, List.foldl_append]; rfl

theorem resetLoop_inv {w0 : World} (h : SInv w0) :
    ∀ (k : Nat), k ≤ w0.archetypes.length → LoopInv w0 k (resetLoop w0 k)
  | 0, _ => LoopInv.zero w0
  | k + 1, hk => by
    rw [resetLoop_succ]
    exact (resetLoop_inv h k (Nat.le_of_succ_le hk)).step h hk

/-- **The archetype loop of `Reset`, archetype side**: relation archetypes free all tables. -/
theorem resetLoop_archetypes {w0 : World} (h : SInv w0) :
    (resetLoop w0 w0.archetypes.length).archetypes = w0.archetypes.map resetArchOf := by
  have hi := resetLoop_inv h _ (Nat.le_refl _)
  apply List.ext_getElem?
  intro a
  rw [hi.archs a, List.getElem?_map]
  cases hA : w0.archetypes[a]? with
  | none => rfl
  | some A => simp [alt_of_get hA]

/-- **The archetype loop of `Reset`, table side**: active tables are reset (and marked free in
    relation archetypes), free tables are left alone. -/
theorem resetLoop_tables {w0 : World} (h : SInv w0) :
    (resetLoop w0 w0.archetypes.length).tables = w0.tables.map (resetTblOf w0) := by
  have hi := resetLoop_inv h _ (Nat.le_refl _)
  apply List.ext_getElem?
  intro t
  rw [hi.tbls t, List.getElem?_map]
  cases hT : w0.tables[t]? with
  | none => rfl
  | some T =>
    obtain ⟨A, hA, _⟩ := h.tblArch t T hT
    simp [alt_of_get hA]

/-! ## 3. the fields of `resetW` -/

theorem cacheReset_kinds (w : World) : w.cacheReset.kinds = w.kinds := by
  unfold cacheReset; split <;> rfl

theorem cacheReset_entities (w : World) : w.cacheReset.entities = w.entities := by
  unfold cacheReset; split <;> rfl

theorem cacheReset_isTarget (w : World) : w.cacheReset.isTarget = w.isTarget := by
  unfold cacheReset; split <;> rfl

theorem cacheReset_pool (w : World) : w.cacheReset.pool = w.pool := by
  unfold cacheReset; split <;> rfl

theorem cacheReset_locks (w : World) : w.cacheReset.locks = w.locks := by
  unfold cacheReset; split <;> rfl

theorem cacheReset_obs (w : World) : w.cacheReset.obs = w.obs := by
  unfold cacheReset; split <;> rfl

theorem cacheReset_caps (w : World) : w.cacheReset.initCap = w.initCap ∧
    w.cacheReset.initCapRel = w.initCapRel ∧ w.cacheReset.maxComps = w.maxComps := by
  unfold cacheReset; split <;> exact ⟨rfl, rfl, rfl⟩

theorem cacheReset_cache_congr {w w' : World} (hc : w'.cache = w.cache) :
    w'.cacheReset.cache = w.cacheReset.cache := by
  unfold cacheReset; rw [hc]; split
  · exact hc
  · rfl

theorem cacheReset_filters_congr {w w' : World} (hc : w'.cache = w.cache)
    (hf : w'.filters = w.filters) : w'.cacheReset.filters = w.cacheReset.filters := by
  unfold cacheReset; rw [hc, hf]; split
  · exact hf
  · rfl

theorem resetPre_archetypes (w : World) : (resetPre w).archetypes = w.archetypes :=
  cacheReset_archetypes _

theorem resetPre_tables (w : World) : (resetPre w).tables = w.tables := cacheReset_tables _

theorem resetPre_kinds (w : World) : (resetPre w).kinds = w.kinds := cacheReset_kinds _

theorem resetPre_arch (w : World) (a : Nat) : (resetPre w).arch a = w.arch a := by
  simp only [arch, resetPre_archetypes]

theorem resetTblOf_pre (w : World) : resetTblOf (resetPre w) = resetTblOf w := by
  funext T; simp only [resetTblOf, resetPre_arch]

theorem resetW_archetypes {w : World} (h : SInv w) :
    (resetW w).archetypes = w.archetypes.map resetArchOf := by
  have h1 : SInv (resetPre w) :=
    h.congr (resetPre_archetypes w) (resetPre_tables w) (resetPre_kinds w)
  show (resetLoop _ _).archetypes = _
  rw [resetLoop_archetypes h1, resetPre_archetypes]

theorem resetW_tables {w : World} (h : SInv w) :
    (resetW w).tables = w.tables.map (resetTblOf w) := by
  have h1 : SInv (resetPre w) :=
    h.congr (resetPre_archetypes w) (resetPre_tables w) (resetPre_kinds w)
  show (resetLoop _ _).tables = _
  rw [resetLoop_tables h1, resetPre_tables, resetTblOf_pre]

/-- a projection that sees neither the stores nor the resources is computed by `resetPre` -/
theorem resetW_proj {β : Type} (p : World → β)
    (hT : ∀ (w : World) (t : Nat) (T : Table), p (w.setTbl t T) = p w)
    (hA : ∀ (w : World) (a : Nat) (A : Archetype), p (w.setArch a A) = p w)
    (hR : ∀ (w : World) (r : AL Val), p { w with resources := r } = p w)
    (w : World) : p (resetW w) = p (resetPre w) := by
  unfold resetW
  rw [hR, resetLoop_proj p hT hA]

theorem resetW_kinds (w : World) : (resetW w).kinds = w.kinds :=
  (resetW_proj (·.kinds) (fun _ _ _ => rfl) (fun _ _ _ => rfl) (fun _ _ => rfl) w).trans
    (resetPre_kinds w)

theorem resetW_entities (w : World) : (resetW w).entities = w.entities.take 2 :=
  (resetW_proj (·.entities) (fun _ _ _ => rfl) (fun _ _ _ => rfl) (fun _ _ => rfl) w).trans
    (cacheReset_entities _)

theorem resetW_isTarget (w : World) : (resetW w).isTarget = w.isTarget.take 2 :=
  (resetW_proj (·.isTarget) (fun _ _ _ => rfl) (fun _ _ _ => rfl) (fun _ _ => rfl) w).trans
    (cacheReset_isTarget _)

theorem resetW_pool (w : World) : (resetW w).pool = w.pool.reset :=
  (resetW_proj (·.pool) (fun _ _ _ => rfl) (fun _ _ _ => rfl) (fun _ _ => rfl) w).trans
    (cacheReset_pool _)

theorem resetW_locks (w : World) : (resetW w).locks = w.locks.reset := by
  rw [resetW_proj (·.locks) (fun _ _ _ => rfl) (fun _ _ _ => rfl) (fun _ _ => rfl) w]
  show Lock.reset (cacheReset _).locks = _
  rw [cacheReset_locks]

theorem resetW_obs (w : World) : (resetW w).obs = w.obs.reset := by
  rw [resetW_proj (·.obs) (fun _ _ _ => rfl) (fun _ _ _ => rfl) (fun _ _ => rfl) w]
  show ObsMgr.reset (cacheReset _).obs = _
  rw [cacheReset_obs]

theorem resetW_cache (w : World) : (resetW w).cache = w.cacheReset.cache :=
  (resetW_proj (·.cache) (fun _ _ _ => rfl) (fun _ _ _ => rfl) (fun _ _ => rfl) w).trans
    (cacheReset_cache_congr rfl)

theorem resetW_filters (w : World) : (resetW w).filters = w.cacheReset.filters :=
  (resetW_proj (·.filters) (fun _ _ _ => rfl) (fun _ _ _ => rfl) (fun _ _ => rfl) w).trans
    (cacheReset_filters_congr rfl rfl)

theorem resetW_resources (w : World) : (resetW w).resources = [] := rfl

theorem resetW_caps (w : World) : (resetW w).initCap = w.initCap ∧
    (resetW w).initCapRel = w.initCapRel ∧ (resetW w).maxComps = w.maxComps := by
  refine ⟨?_, ?_, ?_⟩
  · exact (resetW_proj (·.initCap) (fun _ _ _ => rfl) (fun _ _ _ => rfl) (fun _ _ => rfl) w).trans
      (cacheReset_caps _).1
  · exact (resetW_proj (·.initCapRel) (fun _ _ _ => rfl) (fun _ _ _ => rfl) (fun _ _ => rfl) w).trans
      (cacheReset_caps _).2.1
  · exact (resetW_proj (·.maxComps) (fun _ _ _ => rfl) (fun _ _ _ => rfl) (fun _ _ => rfl) w).trans
      (cacheReset_caps _).2.2

/-! ### what `resetArchOf` / `resetTblOf` keep -/

@[simp] theorem resetArchOf_id (A : Archetype) : (resetArchOf A).id = A.id := by
  unfold resetArchOf; split <;> rfl
@[simp] theorem resetArchOf_mask (A : Archetype) : (resetArchOf A).mask = A.mask := by
  unfold resetArchOf; split <;> rfl
@[simp] theorem resetArchOf_comps (A : Archetype) : (resetArchOf A).comps = A.comps := by
  unfold resetArchOf; split <;> rfl
@[simp] theorem resetArchOf_isRel (A : Archetype) : (resetArchOf A).isRel = A.isRel := by
  unfold resetArchOf; split <;> rfl
@[simp] theorem resetArchOf_zst (A : Archetype) : (resetArchOf A).zst = A.zst := by
  unfold resetArchOf; split <;> rfl
@[simp] theorem resetArchOf_numRel (A : Archetype) : (resetArchOf A).numRel = A.numRel := by
  unfold resetArchOf; split <;> rfl
@[simp] theorem resetArchOf_hasRelations (A : Archetype) :
    (resetArchOf A).hasRelations = A.hasRelations := by
  simp only [Archetype.hasRelations, resetArchOf_numRel]

theorem resetArchOf_nonRel {A : Archetype} (h : A.hasRelations = false) : resetArchOf A = A := by
  simp [resetArchOf, h]

theorem resetArchOf_rel {A : Archetype} (h : A.hasRelations = true) :
    resetArchOf A = A.freeAllTables := by
  simp [resetArchOf, h]

@[simp] theorem resetTblOf_id (w : World) (T : Table) : (resetTblOf w T).id = T.id := by
  unfold resetTblOf; split; rfl; split <;> rfl
@[simp] theorem resetTblOf_arch (w : World) (T : Table) : (resetTblOf w T).arch = T.arch := by
  unfold resetTblOf; split; rfl; split <;> rfl
@[simp] theorem resetTblOf_ids (w : World) (T : Table) : (resetTblOf w T).ids = T.ids := by
  unfold resetTblOf; split; rfl; split <;> rfl
@[simp] theorem resetTblOf_isRel (w : World) (T : Table) : (resetTblOf w T).isRel = T.isRel := by
  unfold resetTblOf; split; rfl; split <;> rfl
@[simp] theorem resetTblOf_zst (w : World) (T : Table) : (resetTblOf w T).zst = T.zst := by
  unfold resetTblOf; split; rfl; split <;> rfl
@[simp] theorem resetTblOf_relIDs (w : World) (T : Table) : (resetTblOf w T).relIDs = T.relIDs := by
  unfold resetTblOf; split; rfl; split <;> rfl
@[simp] theorem resetTblOf_targets (w : World) (T : Table) :
    (resetTblOf w T).targets = T.targets := by
  unfold resetTblOf; split; rfl; split <;> rfl
@[simp] theorem resetTblOf_ents (w : World) (T : Table) : (resetTblOf w T).ents = T.ents := by
  unfold resetTblOf; split; rfl; split <;> rfl
@[simp] theorem resetTblOf_cap (w : World) (T : Table) : (resetTblOf w T).cap = T.cap := by
  unfold resetTblOf; split; rfl; split <;> rfl

theorem resetTblOf_isFree (w : World) (T : Table) :
    (resetTblOf w T).isFree = (T.isFree || (w.arch T.arch).hasRelations) := by
  unfold resetTblOf
  cases hf : T.isFree with
  | true => simp [hf]
  | false => cases hr : (w.arch T.arch).hasRelations <;> simp [Table.reset, hf]

theorem shape_setFree {T : Table} (h : T.Shape) (b : Bool) : ({ T with isFree := b } : Table).Shape :=
  ⟨h.len_le, h.ents_len, h.cols_len, h.zst_len, h.col_len, h.zero_tail, h.zst_zero⟩

theorem resetTblOf_shape (w : World) {T : Table} (h : T.Shape) : (resetTblOf w T).Shape := by
  unfold resetTblOf
  split
  · exact h
  · split
    · exact shape_setFree (Table.reset_shape h) true
    · exact Table.reset_shape h

/-- a table of the reset world is empty and all its cells are zero — for a table that was on a
    free list this is the hypothesis `T.len = 0` -/
theorem resetTblOf_zero (w : World) {T : Table} (h : T.Shape) (hfe : T.isFree = true → T.len = 0) :
    (resetTblOf w T).len = 0 ∧ ∀ (i r : Nat), (resetTblOf w T).cell i r = 0 := by
  unfold resetTblOf
  split
  · rename_i hf
    exact ⟨hfe hf, fun i r => h.cell_tail i r (by rw [hfe hf]; exact Nat.zero_le _)⟩
  · split
    · exact Table.reset_zero h
    · exact Table.reset_zero h

/-! ### lookups in the reset world -/

theorem resetW_aget_of {w : World} (h : SInv w) {a : Nat} {A : Archetype}
    (hA : w.archetypes[a]? = some A) : (resetW w).archetypes[a]? = some (resetArchOf A) := by
  rw [resetW_archetypes h, List.getElem?_map, hA]; rfl

theorem resetW_aget {w : World} (h : SInv w) {a : Nat} {A' : Archetype}
    (hA : (resetW w).archetypes[a]? = some A') :
    ∃ (A : Archetype), w.archetypes[a]? = some A ∧ A' = resetArchOf A := by
  rw [resetW_archetypes h, List.getElem?_map] at hA
  cases hA0 : w.archetypes[a]? with
  | none => rw [hA0] at hA; cases hA
  | some A => rw [hA0] at hA; injection hA with hA; exact ⟨A, rfl, hA.symm⟩

theorem resetW_tget_of {w : World} (h : SInv w) {t : Nat} {T : Table}
    (hT : w.tables[t]? = some T) : (resetW w).tables[t]? = some (resetTblOf w T) := by
  rw [resetW_tables h, List.getElem?_map, hT]; rfl

theorem resetW_tget {w : World} (h : SInv w) {t : Nat} {T' : Table}
    (hT : (resetW w).tables[t]? = some T') :
    ∃ (T : Table), w.tables[t]? = some T ∧ T' = resetTblOf w T := by
  rw [resetW_tables h, List.getElem?_map] at hT
  cases hT0 : w.tables[t]? with
  | none => rw [hT0] at hT; cases hT
  | some T => rw [hT0] at hT; injection hT with hT; exact ⟨T, rfl, hT.symm⟩

theorem resetW_arch {w : World} (h : SInv w) (a : Nat) : (resetW w).arch a = resetArchOf (w.arch a) := by
  cases hA : w.archetypes[a]? with
  | some A => rw [arch_of_get (resetW_aget_of h hA), arch_of_get hA]
  | none =>
    have h1 : (resetW w).archetypes[a]? = none := by
      rw [resetW_archetypes h, List.getElem?_map, hA]; rfl
    simp only [arch, List.getD_eq_getElem?_getD, hA, h1, Option.getD_none]
    rfl

theorem resetW_targets {w : World} (h : SInv w) (t : Nat) :
    ((resetW w).tbl t).targets = (w.tbl t).targets := by
  cases hT : w.tables[t]? with
  | some T => rw [tbl_of_get (resetW_tget_of h hT), tbl_of_get hT, resetTblOf_targets]
  | none =>
    have h1 : (resetW w).tables[t]? = none := by
      rw [resetW_tables h, List.getElem?_map, hT]; rfl
    simp only [tbl, List.getD_eq_getElem?_getD, hT, h1, Option.getD_none]

end World

/-! ## 4. the invariants after `Reset` -/

theorem Archetype.Struct.freeAllTables {a : Archetype} (h : a.Struct) : a.freeAllTables.Struct := by
  refine { tablesWF := TableIDs.wf_empty, freeNodup := ?_,
           disjoint := fun t ht => absurd ht (by simp [Archetype.freeAllTables]),
           lenRel := ?_, lenIsRel := h.lenIsRel, numRelEq := h.numRelEq }
  · show (a.freeTables ++ a.tables.tables).Nodup
    refine List.nodup_append.2 ⟨h.freeNodup, h.tablesWF.nodup, ?_⟩
    intro x hx y hy e
    subst e
    exact h.disjoint x hy hx
  · show (a.relationTables.map fun _ => ([] : AL TableIDs)).length = a.comps.length
    rw [List.length_map]; exact h.lenRel

theorem World.resetArchOf_struct {A : Archetype} (h : A.Struct) : (resetArchOf A).Struct := by
  unfold resetArchOf; split
  · exact h.freeAllTables
  · exact h

/-- **`SInv` is re-established by `Reset`.** -/
theorem SInv.resetW {w : World} (h : SInv w) : SInv (resetW w) := by
  have hmid : SInvMid (World.resetW w) := by
    refine ⟨?_, ?_, ?_, ?_, ?_, ?_, ?_, ?_, ?_, ?_, ?_, ?_⟩
    · intro a A' hA'
      obtain ⟨A, hA, rfl⟩ := resetW_aget h hA'
      rw [resetArchOf_id]; exact h.archId a A hA
    · intro a b A' B' hA' hB' hm
      obtain ⟨A, hA, rfl⟩ := resetW_aget h hA'
      obtain ⟨B, hB, rfl⟩ := resetW_aget h hB'
      rw [resetArchOf_mask, resetArchOf_mask] at hm
      exact h.maskUniq a b A B hA hB hm
    · intro a A' hA' c hc
      obtain ⟨A, hA, rfl⟩ := resetW_aget h hA'
      rw [resetArchOf_mask] at hc
      rw [resetW_kinds]; exact h.maskReg a A hA c hc
    · intro a A' hA'
      obtain ⟨A, hA, rfl⟩ := resetW_aget h hA'
      simp only [resetArchOf_comps, resetArchOf_mask, resetArchOf_isRel, resetArchOf_zst, resetW_kinds]
      exact h.comps a A hA
    · intro a A' i c hA' hc
      obtain ⟨A, hA, rfl⟩ := resetW_aget h hA'
      simp only [resetArchOf_comps, resetArchOf_isRel, resetArchOf_zst, resetW_kinds] at hc ⊢
      exact h.kindsOf a A i c hA hc
    · intro t T' hT'
      obtain ⟨T, hT, rfl⟩ := resetW_tget h hT'
      obtain ⟨A, hA, h1, h2, h3, h4⟩ := h.tblArch t T hT
      refine ⟨resetArchOf A, ?_, ?_, ?_, ?_, ?_⟩
      · rw [resetTblOf_arch]; exact resetW_aget_of h hA
      · simpa using h1
      · simpa using h2
      · simpa using h3
      · simpa using h4
    · intro t T' hT' r hr
      obtain ⟨T, hT, rfl⟩ := resetW_tget h hT'
      simp only [resetTblOf_relIDs, resetTblOf_ids, resetTblOf_isRel] at hr ⊢
      exact h.relCols t T hT r hr
    · intro t T' hT'
      obtain ⟨T, hT, rfl⟩ := resetW_tget h hT'
      obtain ⟨hm1, hm2⟩ := h.member t T hT
      rw [resetTblOf_arch, resetW_arch h, resetTblOf_isFree]
      cases hr : (w.arch T.arch).hasRelations with
      | false =>
        rw [resetArchOf_nonRel hr, Bool.or_false]; exact ⟨hm1, hm2⟩
      | true =>
        rw [resetArchOf_rel hr, Bool.or_true]
        refine ⟨⟨fun hh => (by cases hh), fun hh => (by simp [Archetype.freeAllTables] at hh)⟩,
          fun _ => ?_, fun _ => rfl⟩
        show t ∈ (w.arch T.arch).freeTables ++ (w.arch T.arch).tables.tables
        cases hf : T.isFree with
        | true => exact List.mem_append_left _ (hm2.1 hf)
        | false => exact List.mem_append_right _ (hm1.1 hf)
    · intro a A' t hA' ht
      obtain ⟨A, hA, rfl⟩ := resetW_aget h hA'
      have hmem : t ∈ A.tables.tables ∨ t ∈ A.freeTables := by
        unfold resetArchOf at ht
        split at ht
        · rcases ht with ht | ht
          · simp [Archetype.freeAllTables] at ht
          · have ht' : t ∈ A.freeTables ++ A.tables.tables := ht
            rcases List.mem_append.1 ht' with h1 | h1
            · exact Or.inr h1
            · exact Or.inl h1
        · exact ht
      obtain ⟨T, hT, ha⟩ := h.owned a A t hA hmem
      exact ⟨_, resetW_tget_of h hT, by rw [resetTblOf_arch]; exact ha⟩
    · intro a A' hA'
      obtain ⟨A, hA, rfl⟩ := resetW_aget h hA'
      exact resetArchOf_struct (h.astruct a A hA)
    · intro a A' hA' hr
      obtain ⟨A, hA, rfl⟩ := resetW_aget h hA'
      rw [resetArchOf_hasRelations] at hr
      rw [resetArchOf_nonRel hr]
      exact h.nonRelLe a A hA hr
    · obtain ⟨h1, h2, h3⟩ := h.root
      refine ⟨by rw [resetW_tables h, List.length_map]; exact h1, ?_, ?_⟩
      · rw [tbl_of_get (resetW_tget_of h (get_of_lt h1)), resetTblOf_arch]; exact h2
      · rw [resetW_arch h, resetArchOf_mask]; exact h3
  refine { hmid with settled := ?_ }
  intro a A' hA' hr
  obtain ⟨A, hA, rfl⟩ := resetW_aget h hA'
  rw [resetArchOf_hasRelations] at hr
  rw [resetArchOf_nonRel hr]
  exact h.settled a A hA hr

/-- **`RInv` is re-established by `Reset`** (`FreeAllTables` empties the relation indices). -/
theorem RInv.resetW {w : World} (h : SInv w) (hR : RInv w) : RInv (resetW w) := by
  intro a A' hA'
  obtain ⟨A, hA, rfl⟩ := resetW_aget h hA'
  have e : (fun t => ((World.resetW w).tbl t).targets) = fun t => (w.tbl t).targets :=
    funext (resetW_targets h)
  rw [e]
  unfold resetArchOf
  split
  · exact (hR a A hA).freeAllTables
  · exact hR a A hA

/-! ## 5. the observer manager after `Reset` -/

namespace ObsMgr

/-- one round of the inner loop of `Reset`: forget the id of observer `l` -/
def clearOne (m : ObsMgr) (l : Nat) : ObsMgr :=
  let o := m.obj l
  let m := { m with indices := AL.erase m.indices (o.oid.getD 0) }
  m.setObj l { o with oid := none }

/-- one round of the outer loop of `Reset`: event type `i` -/
def resetStep (m : ObsMgr) (i : Nat) : ObsMgr :=
  let es := m.evt i
  if !es.hasObservers then m else (es.observers.foldl clearOne m).setEvt i {}

theorem reset_eq (m : ObsMgr) : m.reset =
    if m.indices.isEmpty then { m with maxEventType := 0 } else
    { (List.range (resetBound m.maxEventType)).foldl resetStep m with
      pool := IntPool.reset ((List.range (resetBound m.maxEventType)).foldl resetStep m).pool,
      totalCount := 0, maxEventType := 0 } := rfl

/-- every observer object is the old one, possibly with its id forgotten -/
def ObjRel (m m' : ObsMgr) : Prop :=
  ∀ (x : Nat), m'.obj x = m.obj x ∨ m'.obj x = { m.obj x with oid := none }

theorem ObjRel.refl (m : ObsMgr) : ObjRel m m := fun _ => Or.inl rfl

theorem ObjRel.trans {a b c : ObsMgr} (h1 : ObjRel a b) (h2 : ObjRel b c) : ObjRel a c := by
  intro x
  rcases h2 x with h | h
  · rw [h]; exact h1 x
  · rcases h1 x with h' | h'
    · rw [h, h']; exact Or.inr rfl
    · rw [h, h']; exact Or.inr rfl

theorem ObjRel.oid_none {m m' : ObsMgr} (h : ObjRel m m') {x : Nat} (hx : (m.obj x).oid = none) :
    (m'.obj x).oid = none := by
  rcases h x with h | h
  · rw [h]; exact hx
  · rw [h]

theorem clearOne_evt (m : ObsMgr) (l e : Nat) : (m.clearOne l).evt e = m.evt e := rfl

theorem clearOne_obj_self (m : ObsMgr) (l : Nat) :
    (m.clearOne l).obj l = { m.obj l with oid := none } := by
  unfold clearOne; simp only; rw [obj_setObj_self]

theorem clearOne_obj_ne (m : ObsMgr) (l x : Nat) (h : x ≠ l) : (m.clearOne l).obj x = m.obj x := by
  unfold clearOne; simp only; rw [obj_setObj_ne _ _ _ _ h]; rfl

theorem clearOne_rel (m : ObsMgr) (l : Nat) : ObjRel m (m.clearOne l) := by
  intro x
  by_cases hx : x = l
  · subst hx; exact Or.inr (clearOne_obj_self m x)
  · exact Or.inl (clearOne_obj_ne m l x hx)

theorem clearAll_evt : ∀ (L : List Nat) (m : ObsMgr) (e : Nat), (L.foldl clearOne m).evt e = m.evt e
  | [], _, _ => rfl
  | l :: L, m, e => by rw [List.foldl_cons, clearAll_evt L, clearOne_evt]

theorem clearAll_rel : ∀ (L : List Nat) (m : ObsMgr), ObjRel m (L.foldl clearOne m)
  | [], m => ObjRel.refl m
  | l :: L, m => (clearOne_rel m l).trans (clearAll_rel L _)

theorem clearAll_oid : ∀ (L : List Nat) (m : ObsMgr) (x : Nat), x ∈ L →
    ((L.foldl clearOne m).obj x).oid = none
  | l :: L, m, x, hx => by
    rw [List.foldl_cons]
    by_cases hxl : x = l
    · subst hxl
      exact (clearAll_rel L _).oid_none (by rw [clearOne_obj_self])
    · exact clearAll_oid L _ x ((List.mem_cons.1 hx).resolve_left hxl)

theorem resetStep_evt_ne (m : ObsMgr) (i e : Nat) (h : e ≠ i) : (m.resetStep i).evt e = m.evt e := by
  unfold resetStep; simp only; split
  · rfl
  · rw [evt_setEvt_ne _ _ _ _ h, clearAll_evt]

theorem resetStep_evt_self (m : ObsMgr) (i : Nat) : ((m.resetStep i).evt i).hasObservers = false := by
  unfold resetStep; simp only; split
  · rename_i h; simpa using h
  · rw [evt_setEvt_self]

theorem resetStep_rel (m : ObsMgr) (i : Nat) : ObjRel m (m.resetStep i) := by
  unfold resetStep; simp only; split
  · exact ObjRel.refl m
  · intro x; rw [obj_setEvt]; exact clearAll_rel _ m x

theorem resetStep_oid (m : ObsMgr) (i x : Nat) (hh : (m.evt i).hasObservers = true)
    (hx : x ∈ (m.evt i).observers) : ((m.resetStep i).obj x).oid = none := by
  unfold resetStep; simp only [hh, Bool.not_true, Bool.false_eq_true, if_false]
  rw [obj_setEvt]; exact clearAll_oid _ m x hx

theorem resetSteps_evt_notin : ∀ (is : List Nat) (m : ObsMgr) (e : Nat), e ∉ is →
    (is.foldl resetStep m).evt e = m.evt e
  | [], _, _, _ => rfl
  | i :: is, m, e, he => by
    rw [List.foldl_cons, resetSteps_evt_notin is _ e (fun h => he (List.mem_cons_of_mem _ h)),
      resetStep_evt_ne m i e (fun h => he (h ▸ List.mem_cons_self))]

theorem resetSteps_rel : ∀ (is : List Nat) (m : ObsMgr), ObjRel m (is.foldl resetStep m)
  | [], m => ObjRel.refl m
  | i :: is, m => (resetStep_rel m i).trans (resetSteps_rel is _)

theorem resetSteps_evt_mem : ∀ (is : List Nat) (m : ObsMgr) (e : Nat), is.Nodup → e ∈ is →
    ((is.foldl resetStep m).evt e).hasObservers = false
  | i :: is, m, e, hnd, he => by
    obtain ⟨hi, hnd'⟩ := List.nodup_cons.1 hnd
    rw [List.foldl_cons]
    by_cases hei : e = i
    · subst hei
      rw [resetSteps_evt_notin is _ e hi]; exact resetStep_evt_self m e
    · exact resetSteps_evt_mem is _ e hnd' ((List.mem_cons.1 he).resolve_left hei)

theorem resetSteps_oid : ∀ (is : List Nat) (m : ObsMgr) (e x : Nat), is.Nodup → e ∈ is →
    (m.evt e).hasObservers = true → x ∈ (m.evt e).observers →
    ((is.foldl resetStep m).obj x).oid = none
  | i :: is, m, e, x, hnd, he, hh, hx => by
    obtain ⟨hi, hnd'⟩ := List.nodup_cons.1 hnd
    rw [List.foldl_cons]
    by_cases hei : e = i
    · subst hei
      exact (resetSteps_rel is _).oid_none (resetStep_oid m e x hh hx)
    · refine resetSteps_oid is _ e x hnd' ((List.mem_cons.1 he).resolve_left hei) ?_ ?_
      · rw [resetStep_evt_ne m i e hei]; exact hh
      · rw [resetStep_evt_ne m i e hei]; exact hx

/-- `maxEventType` bounds the event types that have observers (what makes the loop of `Reset`
    reach all of them). -/
def Bound (m : ObsMgr) : Prop := ∀ (evt : Nat), (m.evt evt).hasObservers = true → evt ≤ m.maxEventType

/-- a registered observer object is listed under its event type, whose flag is set; and with an
    empty id map nothing is registered (what makes the early return of `Reset` harmless). -/
structure Reg (m : ObsMgr) : Prop where
  listed : ∀ (l : Nat), (m.obj l).oid ≠ none →
    (m.evt (m.obj l).spec.event).hasObservers = true ∧ l ∈ (m.evt (m.obj l).spec.event).observers
  emptyIdx : m.indices = [] → (∀ (evt : Nat), (m.evt evt).hasObservers = false) ∧ m.totalCount = 0

theorem bound_init : Bound {} := fun e h => by simp [ObsMgr.evt] at h

theorem reg_init : Reg {} :=
  ⟨fun _ h => absurd rfl h, fun _ => ⟨fun _ => rfl, rfl⟩⟩

/-- **`Reset` unregisters every observer.** -/
theorem reset_clears {m : ObsMgr} (hb : Bound m) (hr : Reg m) :
    (∀ (evt : Nat), (m.reset.evt evt).hasObservers = false) ∧ m.reset.totalCount = 0 ∧
    m.reset.maxEventType = 0 ∧ ∀ (l : Nat), (m.reset.obj l).oid = none := by
  rw [reset_eq]
  split
  · rename_i h0
    obtain ⟨h1, h2⟩ := hr.emptyIdx (List.isEmpty_iff.1 h0)
    refine ⟨h1, h2, rfl, fun l => ?_⟩
    show (m.obj l).oid = none
    cases ho : (m.obj l).oid with
    | none => rfl
    | some oid =>
      have := (hr.listed l (by rw [ho]; exact fun hh => by cases hh)).1
      rw [h1] at this; cases this
  · refine ⟨fun evt => ?_, rfl, rfl, fun l => ?_⟩
    · show ((List.foldl resetStep m _).evt evt).hasObservers = false
      by_cases he : evt ∈ List.range (resetBound m.maxEventType)
      · exact resetSteps_evt_mem _ m evt List.nodup_range he
      · rw [resetSteps_evt_notin _ m evt he]
        cases hh : (m.evt evt).hasObservers with
        | false => rfl
        | true =>
          exact absurd (List.mem_range.2 (Nat.lt_succ_of_le (hb evt hh))) he
    · show ((List.foldl resetStep m _).obj l).oid = none
      cases ho : (m.obj l).oid with
      | none => exact (resetSteps_rel _ m).oid_none ho
      | some oid =>
        obtain ⟨h1, h2⟩ := hr.listed l (by rw [ho]; exact fun hh => by cases hh)
        exact resetSteps_oid _ m _ l List.nodup_range
          (List.mem_range.2 (Nat.lt_succ_of_le (hb _ h1))) h1 h2

theorem reset_bound {m : ObsMgr} (hb : Bound m) (hr : Reg m) : Bound m.reset := by
  intro evt h; rw [(reset_clears hb hr).1 evt] at h; cases h

theorem reset_reg {m : ObsMgr} (hb : Bound m) (hr : Reg m) : Reg m.reset := by
  obtain ⟨h1, h2, _, h4⟩ := reset_clears hb hr
  exact ⟨fun l h => absurd (h4 l) h, fun _ => ⟨h1, h2⟩⟩

/-! ### `Bound` is an invariant of `AddObserver` / `RemoveObserver` -/

theorem addComputed_max (m : ObsMgr) (l : Nat) (o : ObsObj) (oid : Nat) (d : ObsData) :
    (m.addComputed l o oid d).maxEventType =
      if o.spec.event > m.maxEventType then o.spec.event else m.maxEventType := rfl

theorem removeAt_max (m : ObsMgr) (l oid idx : Nat) :
    (m.removeAt l oid idx).maxEventType = m.maxEventType := by
  unfold removeAt
  simp only []
  split <;> split <;> rfl

theorem Bound.addComputed {m : ObsMgr} (h : Bound m) (l : Nat) (o : ObsObj) (oid : Nat)
    (d : ObsData) : Bound (m.addComputed l o oid d) := by
  intro e he
  rw [addComputed_max]
  by_cases hev : e = o.spec.event
  · subst hev; split <;> omega
  · rw [addComputed_evt_ne _ _ _ _ _ _ hev] at he
    have := h e he
    split <;> omega

/-- `RemoveObserver` of an observer whose event type has its flag set (it is registered). -/
theorem Bound.removeAt {m : ObsMgr} (h : Bound m) (l oid idx : Nat)
    (hreg : (m.evt (m.obj l).spec.event).hasObservers = true) : Bound (m.removeAt l oid idx) := by
  intro e he
  rw [removeAt_max]
  by_cases hev : e = (m.obj l).spec.event
  · subst hev; exact h _ hreg
  · rw [removeAt_evt_ne _ _ _ _ _ hev] at he
    exact h e he

end ObsMgr

/-! ## 6. hypotheses about the rest of the world, and the empty state -/

/-- tables on a free list are empty (they are reset or drained before they are freed) -/
def FreeEmpty (w : World) : Prop :=
  ∀ (t : Nat) (T : Table), w.tables[t]? = some T → T.isFree = true → T.len = 0

/-- the two reserved slots of the pool, the entity index and `isTarget` -/
structure Reserved (w : World) : Prop where
  pool2 : w.pool.ents.take 2 = Pool.init.ents
  idx2 : ∀ (i : Nat), i < 2 → ∃ (r : Nat), w.entities[i]? = some (maxU32, r)
  tgt2 : 2 ≤ w.isTarget.length

/-- the memory behind the pool slice only holds the sentinel generation -/
def StaleOK (w : World) : Prop := ∀ e ∈ w.pool.stale, e.gen = maxU32

/-- `maxEventType` bounds the event types with observers -/
def ObsBound (w : World) : Prop :=
  ∀ (evt : Nat), (w.obs.evt evt).hasObservers = true → evt ≤ w.obs.maxEventType

/-- registered observer objects are listed; an empty id map means no observers -/
def ObsReg (w : World) : Prop := w.obs.Reg

/-- a filter object marked as cached refers to an entry of the cache -/
def FilterReg (w : World) : Prop :=
  ∀ (l : Nat) (fo : FilterObj) (id : Nat), (l, fo) ∈ w.filters → fo.cache = some id →
    ∃ (e : CacheEntry), e ∈ w.cache.filters ∧ e.id = id

/-- **The state `Reset` establishes**: nothing but the registrations (components, archetypes,
    tables, filter and observer objects) is left. -/
structure EmptyState (w : World) : Prop where
  /-- only the two reserved index entries, pointing at no table -/
  entLen : w.entities.length = 2
  entNoTable : ∀ (i : Nat), i < 2 → ∃ (r : Nat), w.entities[i]? = some (maxU32, r)
  tgtLen : w.isTarget.length = 2
  /-- the pool core is the initial one; the memory behind it holds the sentinel generation -/
  poolEnts : w.pool.ents = Pool.init.ents
  poolNext : w.pool.next = 0
  poolAvail : w.pool.available = 0
  poolStale : ∀ e ∈ w.pool.stale, e.gen = maxU32
  /-- every table is empty and zeroed -/
  tblEmpty : ∀ (t : Nat) (T : Table), w.tables[t]? = some T →
    T.len = 0 ∧ ∀ (i r : Nat), T.cell i r = 0
  /-- a relation archetype has no active table: all its tables are on its free list, its
      relation indices are empty -/
  relArch : ∀ (a : Nat) (A : Archetype), w.archetypes[a]? = some A → A.hasRelations = true →
    A.tables.tables = [] ∧
    (∀ (t : Nat) (T : Table), w.tables[t]? = some T → T.arch = a →
      T.isFree = true ∧ t ∈ A.freeTables) ∧
    (∀ m ∈ A.relationTables, m = []) ∧ A.targetTables = []
  /-- a non-relation archetype has exactly its one table, active -/
  nonRelArch : ∀ (a : Nat) (A : Archetype), w.archetypes[a]? = some A → A.hasRelations = false →
    ∃ (t : Nat) (T : Table), A.tables.tables = [t] ∧ A.freeTables = [] ∧
      w.tables[t]? = some T ∧ T.arch = a ∧ T.isFree = false
  /-- the cache is empty, no filter object is marked registered -/
  cacheEmpty : w.cache.indices = [] ∧ w.cache.filters = []
  filtersUnreg : ∀ p ∈ w.filters, p.2.cache = none
  /-- no observer is registered -/
  noObs : ∀ (evt : Nat), w.obs.hasObservers evt = false
  obsCount : w.obs.totalCount = 0
  obsMax : w.obs.maxEventType = 0
  obsIds : ∀ (l : Nat), (w.obs.obj l).oid = none
  /-- the lock is clear -/
  unlocked : w.locks.locks = 0#64
  lockPool : w.locks.pool.length = 0 ∧ w.locks.pool.next = 0 ∧ w.locks.pool.available = 0
  /-- no resources -/
  noRes : w.resources = []

namespace World

theorem cacheReset_filters_none {w : World} (hC : CacheInv w) (hF : FilterReg w) :
    ∀ p ∈ w.cacheReset.filters, p.2.cache = none := by
  intro p hp
  unfold cacheReset at hp
  by_cases h0 : w.cache.indices.isEmpty = true
  · rw [if_pos h0] at hp
    cases hc : p.2.cache with
    | none => rfl
    | some id =>
      obtain ⟨e, he, _⟩ := hF p.1 p.2 id hp hc
      rw [hC.filters_nil_of_indices_nil (List.isEmpty_iff.1 h0)] at he
      cases he
  · rw [if_neg h0] at hp
    obtain ⟨⟨l, fo⟩, hq, rfl⟩ := List.mem_map.1 hp
    simp only
    split
    · rename_i id hc
      obtain ⟨e, he, hid⟩ := hF l fo id hq hc
      have : (w.cache.filters.map (·.id)).contains id = true := by
        rw [List.contains_iff_mem]; exact List.mem_map.2 ⟨e, he, hid⟩
      simp only [this, if_true]
    · rename_i hc; exact hc

theorem pool_reset_stale (p : Pool) (h : ∀ e ∈ p.stale, e.gen = maxU32) :
    ∀ e ∈ p.reset.stale, e.gen = maxU32 := by
  intro e he
  rcases List.mem_append.1 he with h1 | h1
  · obtain ⟨e0, _, rfl⟩ := List.mem_map.1 h1; rfl
  · exact h e h1

end World

/-- **`IdxInv` is re-established by `Reset`** (the index is empty, and so are all tables). -/
theorem IdxInv.resetW {w : World} (h : SInv w) (hI : IdxInv w) (hFE : FreeEmpty w)
    (hRes : Reserved w) : IdxInv (resetW w) := by
  refine ⟨?_, ?_, ?_, ?_⟩
  · intro t T' hT'
    obtain ⟨T, hT, rfl⟩ := resetW_tget h hT'
    exact resetTblOf_shape w (hI.shape t T hT)
  · intro t T' hT'
    obtain ⟨T, hT, rfl⟩ := resetW_tget h hT'
    rw [resetTblOf_id]; exact hI.tid t T hT
  · intro t T' r hT' hr
    obtain ⟨T, hT, rfl⟩ := resetW_tget h hT'
    rw [(resetTblOf_zero w (hI.shape t T hT) (hFE t T hT)).1] at hr
    exact absurd hr (Nat.not_lt_zero _)
  · intro i t r hi ht
    rw [resetW_entities, List.getElem?_take] at hi
    split at hi
    · rename_i h2
      obtain ⟨r', hr'⟩ := hRes.idx2 i h2
      rw [hr'] at hi; injection hi with hi; injection hi with h1 _
      exact absurd h1.symm ht
    · cases hi

theorem FreeEmpty.resetW {w : World} (h : SInv w) (hI : IdxInv w) (hFE : FreeEmpty w) :
    FreeEmpty (resetW w) := by
  intro t T' hT' _
  obtain ⟨T, hT, rfl⟩ := resetW_tget h hT'
  exact (resetTblOf_zero w (hI.shape t T hT) (hFE t T hT)).1

theorem Reserved.resetW {w : World} (hRes : Reserved w) : Reserved (resetW w) := by
  refine ⟨?_, ?_, ?_⟩
  · rw [resetW_pool]
    show (w.pool.ents.take 2).take 2 = _
    rw [List.take_take]; exact hRes.pool2
  · intro i hi
    obtain ⟨r, hr⟩ := hRes.idx2 i hi
    exact ⟨r, by rw [resetW_entities, List.getElem?_take_of_lt hi]; exact hr⟩
  · rw [resetW_isTarget, List.length_take]
    have := hRes.tgt2; omega

/-- **`Reset` establishes `EmptyState`.** -/
theorem EmptyState.resetW {w : World} (h : SInv w) (hI : IdxInv w) (hC : CacheInv w)
    (hFE : FreeEmpty w) (hRes : Reserved w) (hSt : StaleOK w) (hOB : ObsBound w) (hOR : ObsReg w)
    (hFR : FilterReg w) : EmptyState (resetW w) := by
  have hS' := SInv.resetW h
  obtain ⟨ho1, ho2, ho3, ho4⟩ := ObsMgr.reset_clears hOB hOR
  have hlen2 : 2 ≤ w.entities.length := by
    obtain ⟨r, hr⟩ := hRes.idx2 1 (by omega)
    have := (List.getElem?_eq_some_iff.1 hr).1; omega
  refine { entLen := ?_, entNoTable := (Reserved.resetW hRes).idx2, tgtLen := ?_, poolEnts := ?_,
           poolNext := ?_, poolAvail := ?_, poolStale := ?_, tblEmpty := ?_, relArch := ?_,
           nonRelArch := ?_, cacheEmpty := ?_, filtersUnreg := ?_, noObs := ?_, obsCount := ?_,
           obsMax := ?_, obsIds := ?_, unlocked := ?_, lockPool := ?_, noRes := rfl }
  · rw [resetW_entities, List.length_take]; omega
  · rw [resetW_isTarget, List.length_take]; have := hRes.tgt2; omega
  · rw [resetW_pool]; exact hRes.pool2
  · rw [resetW_pool]; rfl
  · rw [resetW_pool]; rfl
  · rw [resetW_pool]; exact pool_reset_stale _ hSt
  · intro t T' hT'
    obtain ⟨T, hT, rfl⟩ := resetW_tget h hT'
    exact resetTblOf_zero w (hI.shape t T hT) (hFE t T hT)
  · intro a A' hA' hr
    have hmem := hS'.member
    obtain ⟨A, hA, rfl⟩ := resetW_aget h hA'
    rw [resetArchOf_hasRelations] at hr
    rw [resetArchOf_rel hr] at hA' ⊢
    refine ⟨rfl, ?_, ?_, rfl⟩
    · intro t T hT ha
      have hm := hmem t T hT
      rw [ha, arch_of_get hA'] at hm
      have hf : T.isFree = true := by
        cases hf : T.isFree with
        | true => rfl
        | false => have := hm.1.1 hf; simp [Archetype.freeAllTables] at this
      exact ⟨hf, hm.2.1 hf⟩
    · intro m hm
      obtain ⟨_, _, rfl⟩ := List.mem_map.1 hm; rfl
  · intro a A' hA' hr
    obtain ⟨hl1, hfree⟩ := hS'.nonRel a A' hA' hr
    obtain ⟨t, ht⟩ := List.length_eq_one_iff.1 hl1
    obtain ⟨T, hT, ha⟩ := hS'.owned a A' t hA' (Or.inl (by rw [ht]; exact List.mem_singleton.2 rfl))
    refine ⟨t, T, ht, hfree, hT, ha, ?_⟩
    refine (hS'.member t T hT).1.2 ?_
    rw [ha, arch_of_get hA', ht]; exact List.mem_singleton.2 rfl
  · rw [resetW_cache]; exact cacheReset_empty hC
  · rw [resetW_filters]; exact cacheReset_filters_none hC hFR
  · intro evt; rw [resetW_obs]; exact ho1 evt
  · rw [resetW_obs]; exact ho2
  · rw [resetW_obs]; exact ho3
  · intro l; rw [resetW_obs]; exact ho4 l
  · rw [resetW_locks]; rfl
  · rw [resetW_locks]; exact ⟨rfl, rfl, rfl⟩

/-! ## 7. `reset_establishes` -/

/-- what `Reset` guarantees about the state `w'` it leaves, started in `w` -/
structure ResetPost (w w' : World) : Prop where
  empty : EmptyState w'
  sinv : SInv w'
  idx : IdxInv w'
  rinv : RInv w'
  cache : CacheInv w'
  /-- the side hypotheses are re-established, so `Reset` can be repeated -/
  freeEmpty : FreeEmpty w'
  reserved : Reserved w'
  stale : StaleOK w'
  obsBound : ObsBound w'
  obsReg : ObsReg w'
  filterReg : FilterReg w'
  /-- the registry is untouched -/
  kinds : w'.kinds = w.kinds
  caps : w'.initCap = w.initCap ∧ w'.initCapRel = w.initCapRel ∧ w'.maxComps = w.maxComps
  archLen : w'.archetypes.length = w.archetypes.length
  archKeep : ∀ (a : Nat) (A : Archetype), w.archetypes[a]? = some A →
    ∃ (A' : Archetype), w'.archetypes[a]? = some A' ∧ A'.id = A.id ∧ A'.mask = A.mask ∧
      A'.comps = A.comps ∧ A'.isRel = A.isRel ∧ A'.zst = A.zst
  tblLen : w'.tables.length = w.tables.length
  tblKeep : ∀ (t : Nat) (T : Table), w.tables[t]? = some T →
    ∃ (T' : Table), w'.tables[t]? = some T' ∧ T'.id = T.id ∧ T'.arch = T.arch ∧ T'.ids = T.ids ∧
      T'.cap = T.cap
  /-- no handle of the previous epoch is alive -/
  dead : ∀ (h : Ent), 2 ≤ h.id → h.gen ≠ maxU32 → w'.alive h = false

theorem resetPost_resetW {w : World} (hS : SInv w) (hI : IdxInv w) (hR : RInv w) (hC : CacheInv w)
    (hFE : FreeEmpty w) (hRes : Reserved w) (hSt : StaleOK w) (hOB : ObsBound w) (hOR : ObsReg w)
    (hFR : FilterReg w) : ResetPost w (resetW w) := by
  have hE := EmptyState.resetW hS hI hC hFE hRes hSt hOB hOR hFR
  refine { empty := hE, sinv := SInv.resetW hS, idx := IdxInv.resetW hS hI hFE hRes,
           rinv := RInv.resetW hS hR, cache := cacheInv_of_empty hE.cacheEmpty.1 hE.cacheEmpty.2,
           freeEmpty := FreeEmpty.resetW hS hI hFE, reserved := Reserved.resetW hRes,
           stale := hE.poolStale, obsBound := ?_, obsReg := ?_, filterReg := ?_,
           kinds := resetW_kinds w, caps := resetW_caps w, archLen := ?_, archKeep := ?_,
           tblLen := ?_, tblKeep := ?_, dead := ?_ }
  · show ObsMgr.Bound (World.resetW w).obs
    rw [resetW_obs]; exact ObsMgr.reset_bound hOB hOR
  · show ObsMgr.Reg (World.resetW w).obs
    rw [resetW_obs]; exact ObsMgr.reset_reg hOB hOR
  · intro l fo id hm hc
    rw [hE.filtersUnreg (l, fo) hm] at hc; cases hc
  · rw [resetW_archetypes hS, List.length_map]
  · intro a A hA
    exact ⟨_, resetW_aget_of hS hA, by simp, by simp, by simp, by simp, by simp⟩
  · rw [resetW_tables hS, List.length_map]
  · intro t T hT
    exact ⟨_, resetW_tget_of hS hT, by simp, by simp, by simp, by simp⟩
  · intro h h2 hg
    show (World.resetW w).pool.alive h = false
    rw [resetW_pool]; exact Ark.Props.C02.reset_kills w.pool hSt h h2 hg

/-- **C16, world level.**  On an unlocked world satisfying the structural invariant, the
    index invariant, the relation-index invariant, the cache invariant and the side conditions
    (free tables are empty, the reserved slots are intact, the memory behind the pool slice is
    invalidated, `maxEventType` bounds the observed event types, registered observers are listed,
    cached filter objects refer to cache entries), `Reset` succeeds and leaves the empty state,
    with all invariants and side conditions re-established, the registry untouched and no
    handle of the previous epoch alive. -/
theorem reset_establishes (w : World) (hl : w.isLocked = false) (hS : SInv w) (hI : IdxInv w)
    (hR : RInv w) (hC : CacheInv w) (hFE : FreeEmpty w) (hRes : Reserved w) (hSt : StaleOK w)
    (hOB : ObsBound w) (hOR : ObsReg w) (hFR : FilterReg w) :
    ∃ (w' : World), opReset w = .ok () w' ∧ ResetPost w w' :=
  ⟨resetW w, opReset_eq w hl, resetPost_resetW hS hI hR hC hFE hRes hSt hOB hOR hFR⟩

/-- the hypotheses of `reset_establishes` hold in a new world -/
theorem reset_hyps_init (cap relCap maxComps : Nat) :
    let w := World.init cap relCap maxComps
    w.isLocked = false ∧ SInv w ∧ IdxInv w ∧ RInv w ∧ CacheInv w ∧ FreeEmpty w ∧ Reserved w ∧
      StaleOK w ∧ ObsBound w ∧ ObsReg w ∧ FilterReg w := by
  refine ⟨rfl, sinv_init cap relCap maxComps, IdxInv.init cap relCap maxComps,
    RInv.init cap relCap maxComps, cacheInv_init cap relCap maxComps, ?_, ?_, ?_,
    ObsMgr.bound_init, ObsMgr.reg_init, ?_⟩
  · intro t T hT hf
    have hT' : [Table.new 0 0 [] [] [] cap [] []][t]? = some T := hT
    obtain ⟨_, rfl⟩ := getElem?_singleton_some hT'
    rfl
  · refine ⟨rfl, ?_, Nat.le_refl 2⟩
    intro i hi
    match i, hi with
    | 0, _ => exact ⟨0, rfl⟩
    | 1, _ => exact ⟨0, rfl⟩
  · intro e he; cases he
  · intro l fo id hm; cases hm

/-! ## 8. the reset world and a fresh world -/

/-- in a world whose tables are all empty every query is empty -/
theorem allEmpty_expected {v : World} (h : ∀ (t : Nat), (v.tbl t).len = 0) (q : QueryObj)
    (rows : List (Nat × Nat)) (hr : Drain.expected v q = some rows) : rows = [] := by
  simp only [Drain.expected, Option.map_eq_some_iff] at hr
  obtain ⟨ts, _, rfl⟩ := hr
  exact List.flatMap_eq_nil_iff.2 fun t _ => Drain.rowsOf_empty v t (h t)

theorem allEmpty_count {v : World} (h : ∀ (t : Nat), (v.tbl t).len = 0) (q : QueryObj) (n : Nat)
    (hn : qCount v q = some n) : n = 0 := by
  obtain ⟨rows, hr, hl⟩ := Drain.count_eq_visits v q n hn
  rw [allEmpty_expected h q rows hr] at hl
  exact hl.symm

theorem EmptyState.allEmpty {w : World} (h : EmptyState w) (t : Nat) : (w.tbl t).len = 0 := by
  cases hT : w.tables[t]? with
  | some T => rw [tbl_of_get hT]; exact (h.tblEmpty t T hT).1
  | none => simp only [tbl, List.getD_eq_getElem?_getD, hT, Option.getD_none]; rfl

/-- **Agreement of a world in the empty state with a fresh world**, at the level later
    operations can observe: same pool core (hence the same handles from any number of
    creations), no alive entity, same lock state and next lock bit, empty cache, no observers,
    no resources; every table is empty, so the uncached walk of any filter selects only empty
    tables and every query visits no row and counts 0. -/
structure LikeFresh (w' f : World) : Prop where
  poolCore : w'.pool.Core = f.pool.Core
  handles : ∀ (n : Nat), w'.pool.getN n = f.pool.getN n ∧
    (w'.pool.afterN n).Core = (f.pool.afterN n).Core
  nextHandle : w'.pool.get.2 = ⟨2, 0⟩ ∧ f.pool.get.2 = ⟨2, 0⟩
  alive0 : w'.pool.len = 0 ∧ f.pool.len = 0
  indexLen : w'.entities.length = f.entities.length ∧ w'.isTarget.length = f.isTarget.length
  locked : w'.isLocked = false ∧ f.isLocked = false
  lockBit : (w'.locks.lock).map (·.2) = some 0 ∧ (f.locks.lock).map (·.2) = some 0
  cache : w'.cache.indices = f.cache.indices ∧ w'.cache.filters = f.cache.filters
  obs : (∀ (evt : Nat), w'.obs.hasObservers evt = f.obs.hasObservers evt) ∧
    w'.obs.totalCount = f.obs.totalCount ∧ w'.obs.maxEventType = f.obs.maxEventType
  resources : w'.resources = f.resources
  allEmpty : (∀ (t : Nat), (w'.tbl t).len = 0) ∧ ∀ (t : Nat), (f.tbl t).len = 0
  walk : ∀ (flt : Filter) (rels : List RelID) (ts : List Nat),
    w'.getCacheTables flt rels = some ts → ∀ t ∈ ts, (w'.tbl t).len = 0
  count0 : ∀ (q : QueryObj) (n : Nat), qCount w' q = some n → n = 0
  rows0 : ∀ (q : QueryObj) (rows : List (Nat × Nat)), Drain.expected w' q = some rows → rows = []

theorem EmptyState.likeFresh {w' : World} (h : EmptyState w') (cap relCap maxComps : Nat) :
    LikeFresh w' (World.init cap relCap maxComps) := by
  have hcore : w'.pool.Core = (World.init cap relCap maxComps).pool.Core :=
    Pool.core_eq_iff.2 ⟨h.poolEnts, h.poolNext, h.poolAvail⟩
  have hfe : ∀ (t : Nat), ((World.init cap relCap maxComps).tbl t).len = 0 := by
    intro t
    match t with
    | 0 => rfl
    | n + 1 => rfl
  refine { poolCore := hcore
           handles := fun n => ⟨Pool.gets_agree hcore n, Pool.afterN_core hcore n⟩
           nextHandle := ?_, alive0 := ?_, indexLen := ⟨h.entLen, h.tgtLen⟩, locked := ?_
           lockBit := ?_, cache := ⟨h.cacheEmpty.1, h.cacheEmpty.2⟩
           obs := ⟨fun evt => h.noObs evt, h.obsCount, h.obsMax⟩
           resources := h.noRes, allEmpty := ⟨h.allEmpty, hfe⟩
           walk := fun _ _ _ _ t _ => h.allEmpty t
           count0 := allEmpty_count h.allEmpty, rows0 := allEmpty_expected h.allEmpty }
  · have : (World.init cap relCap maxComps).pool.get.2 = ⟨2, 0⟩ := rfl
    exact ⟨(Pool.get_core hcore).1.trans this, this⟩
  · refine ⟨?_, rfl⟩
    simp only [Pool.len, h.poolEnts, h.poolAvail]; rfl
  · refine ⟨?_, rfl⟩
    simp only [World.isLocked, Lock.isLocked, h.unlocked]; rfl
  · refine ⟨?_, rfl⟩
    obtain ⟨h1, _, h3⟩ := h.lockPool
    simp [Lock.lock, BitPool.get, h1, h3]

/-- **`Reset` vs. a new world with the same configuration.** -/
theorem reset_like_fresh (w : World) (hl : w.isLocked = false) (hS : SInv w) (hI : IdxInv w)
    (hR : RInv w) (hC : CacheInv w) (hFE : FreeEmpty w) (hRes : Reserved w) (hSt : StaleOK w)
    (hOB : ObsBound w) (hOR : ObsReg w) (hFR : FilterReg w) :
    ∃ (w' : World), opReset w = .ok () w' ∧
      LikeFresh w' (World.init w.initCap w.initCapRel w.maxComps) := by
  obtain ⟨w', h1, h2⟩ := reset_establishes w hl hS hI hR hC hFE hRes hSt hOB hOR hFR
  exact ⟨w', h1, h2.empty.likeFresh _ _ _⟩

/-! ## 9. the component-free fragment: `WInv` after `Reset`

`WInv` demands `pool.stale = []`, which `Reset` falsifies on purpose (it keeps the memory and
invalidates it).  `WInvR` is `WInv` with that field weakened to `StaleOK`; everything else of
`WInv` holds again after `Reset`, with the empty free list. -/

/-- `WInv` with "no memory behind the pool slice" weakened to "only invalidated memory there" -/
structure WInvR (w : World) (fl : List Nat) : Prop where
  idx : IdxInv w
  pool : Pool.PInv w.pool fl
  stale : StaleOK w
  lenEq : w.entities.length = w.pool.ents.length
  tgtLen : w.isTarget.length = w.entities.length
  freeUnindexed : ∀ i ∈ fl, ∃ r, w.entities[i]? = some (maxU32, r)
  reservedUnindexed : ∀ i : Nat, i < 2 → ∃ r, w.entities[i]? = some (maxU32, r)
  liveIndexed : ∀ i : Nat, 2 ≤ i → i < w.entities.length → i ∉ fl →
    ∃ t r, w.entities[i]? = some (t, r) ∧ t ≠ maxU32
  fewTables : w.tables.length ≤ maxU32
  tab0 : ∃ T, w.tables = [T] ∧ T.ids = []
  noTargets : ∀ i : Nat, w.isTarget.getD i false = false
  noObs : ∀ evt : Nat, w.obs.hasObservers evt = false

theorem WInv.toR {w : World} {fl : List Nat} (h : WInv w fl) : WInvR w fl :=
  { idx := h.idx, pool := h.pool, stale := fun e he => (by rw [h.stale] at he; cases he),
    lenEq := h.lenEq, tgtLen := h.tgtLen, freeUnindexed := h.freeUnindexed,
    reservedUnindexed := h.reservedUnindexed, liveIndexed := h.liveIndexed,
    fewTables := h.fewTables, tab0 := h.tab0, noTargets := h.noTargets, noObs := h.noObs }

theorem Pool.pinv_of_core {p q : Pool} {fl : List Nat} (h : p.Core = q.Core) (hq : Pool.PInv q fl) :
    Pool.PInv p fl := by
  obtain ⟨he, hn, ha⟩ := Pool.core_eq_iff.1 h
  exact ⟨by rw [he, hn, ha]; exact hq.ch, hq.nodup, by rw [he]; exact hq.res,
    by rw [he]; exact hq.self, by rw [he]; exact hq.len2⟩

/-- without observers `Reset` of the manager registers none -/
theorem ObsMgr.reset_noObs {m : ObsMgr} (h : ∀ (evt : Nat), (m.evt evt).hasObservers = false)
    (evt : Nat) : (m.reset.evt evt).hasObservers = false := by
  rw [ObsMgr.reset_eq]
  split
  · exact h evt
  · show ((List.foldl ObsMgr.resetStep m _).evt evt).hasObservers = false
    by_cases he : evt ∈ List.range (ObsMgr.resetBound m.maxEventType)
    · exact ObsMgr.resetSteps_evt_mem _ m evt List.nodup_range he
    · rw [ObsMgr.resetSteps_evt_notin _ m evt he]; exact h evt

/-- **`Reset` in the component-free fragment** re-establishes the world invariant (up to the
    retained pool memory) with the empty free list.  `hp2`: the two reserved pool slots hold the
    sentinel generation (not part of `WInv`). -/
theorem WInvR.resetW {w : World} {fl : List Nat} (h : WInvR w fl) (hS : SInv w)
    (hp2 : w.pool.ents.take 2 = Pool.init.ents) : WInvR (resetW w) [] := by
  obtain ⟨T0, hT0, hids⟩ := h.tab0
  have hlenP : 2 ≤ w.pool.ents.length := h.pool.len2
  have hRes : Reserved w := ⟨hp2, h.reservedUnindexed, by rw [h.tgtLen, h.lenEq]; exact hlenP⟩
  have hFE : FreeEmpty w := by
    intro t T hT hf
    have hT' : [T0][t]? = some T := by rw [← hT0]; exact hT
    obtain ⟨rfl, rfl⟩ := getElem?_singleton_some hT'
    obtain ⟨A, hA, _⟩ := hS.tblArch 0 T hT
    have ha0 : T.arch = 0 := by rw [← tbl_of_get hT]; exact hS.root.2.1
    rw [ha0] at hA
    have hnr : A.hasRelations = false := by rw [← arch_of_get hA]; exact hS.toSInvMid.root_noRel
    have := ((hS.member 0 T hT).2).1 hf
    rw [ha0, arch_of_get hA, (hS.nonRelLe 0 A hA hnr).2] at this
    cases this
  have hcore : (World.resetW w).pool.Core = Pool.init.Core := by
    rw [resetW_pool]; exact Pool.core_eq_iff.2 ⟨hp2, rfl, rfl⟩
  have hEl : (World.resetW w).entities.length = 2 := by
    rw [resetW_entities, List.length_take, h.lenEq]; omega
  refine { idx := IdxInv.resetW hS h.idx hFE hRes, pool := Pool.pinv_of_core hcore Pool.pinv_init,
           stale := ?_, lenEq := ?_, tgtLen := ?_, freeUnindexed := fun i hi => (by cases hi),
           reservedUnindexed := (Reserved.resetW hRes).idx2, liveIndexed := ?_, fewTables := ?_,
           tab0 := ?_, noTargets := ?_, noObs := ?_ }
  · show ∀ e ∈ (World.resetW w).pool.stale, e.gen = maxU32
    rw [resetW_pool]; exact pool_reset_stale _ h.stale
  · rw [hEl, resetW_pool]
    show 2 = (w.pool.ents.take 2).length
    rw [List.length_take]; omega
  · rw [hEl, resetW_isTarget, List.length_take, h.tgtLen, h.lenEq]; omega
  · intro i h2 hlt _; rw [hEl] at hlt; omega
  · rw [resetW_tables hS, List.length_map]; exact h.fewTables
  · exact ⟨resetTblOf w T0, by rw [resetW_tables hS, hT0]; rfl, by rw [resetTblOf_ids]; exact hids⟩
  · intro i
    rw [resetW_isTarget, List.getD_eq_getElem?_getD, List.getElem?_take]
    split
    · have := h.noTargets i
      rw [List.getD_eq_getElem?_getD] at this; exact this
    · rfl
  · intro evt
    show ((World.resetW w).obs.evt evt).hasObservers = false
    rw [resetW_obs]; exact ObsMgr.reset_noObs h.noObs evt

/-- `Reset` in the fragment of `WInv`: succeeds on an unlocked world and re-establishes the
    invariant with the empty free list. -/
theorem WInv.reset {w : World} {fl : List Nat} (h : WInv w fl) (hS : SInv w)
    (hp2 : w.pool.ents.take 2 = Pool.init.ents) (hl : w.isLocked = false) :
    ∃ (w' : World), opReset w = .ok () w' ∧ WInvR w' [] :=
  ⟨World.resetW w, opReset_eq w hl, h.toR.resetW hS hp2⟩

end Ark
