/-
  Ark.Proofs.RelRefine2Inv — property C05 with relations, part 4: the filter-side invariant of
  the relation machine and the filter operations.

  * `HeapOK w`   — the filter heap agrees with the cache (a registered filter object has an entry
                   with its filter and FIXED relations; IDs are not shared), a typed filter object
                   requires its type parameters, and the fixed relations of every filter object
                   name relation components the mask requires (`RelsTyped`);
  * `FInvR w`    — `CacheInv`, `HeapOK`, `CIdx`, `RowsAlive`, the lock's bit pool, the cache's ID
                   pool: what the relation machine carries besides `RelRefine.HInv`;
  * `Kept w w'`  — what every successful entity operation guarantees (`QKeep`, `CKeep`, the lock,
                   relation components stay relation components); `FInvR.kept`;
  * `TInv.setCF`, `HInv.setCF` — the invariant of the entity machine reads the cache only through
                   `CacheRelsOK` and the filter heap not at all;
  * `guardF`, `defFilter`, `FInvR.defFilter` — a filter object is put into the heap;
  * `FInvR.filterRegister`, `FInvR.filterUnregister` — `FilterN.Register` / `Unregister` in a
                   world with relation tables (the walk `getCacheTables` visits the relation
                   archetypes through their per-target lookups).
  Kernel-only proofs, core Lean only.
-/
import Ark.Proofs.RelRefine2Ops

set_option autoImplicit false

namespace Ark
namespace RelRefine2

open World Ark.Props.C01World QueryRel QueryExact

/-! ## 1. the filter-side invariant -/

/-- **the filter heap agrees with the cache** -/
structure HeapOK (w : World) : Prop where
  reg : ∀ (f : Nat) (fo : FilterObj) (id : Nat), AL.find? w.filters f = some fo →
    fo.cache = some id →
    ∃ (e : CacheEntry), e ∈ w.cache.filters ∧ e.id = id ∧ e.filter = fo.filter ∧ e.rels = fo.rels
  inj : ∀ (f g : Nat) (fo go : FilterObj) (id : Nat), AL.find? w.filters f = some fo →
    AL.find? w.filters g = some go → fo.cache = some id → go.cache = some id → f = g
  /-- a typed filter requires its type parameters (`FilterN` is built from them) -/
  typed : ∀ (f : Nat) (fo : FilterObj), AL.find? w.filters f = some fo → fo.typed = true →
    FilterOK fo
  /-- the fixed relations name relation components the mask requires (`ToRelations`) -/
  rels : ∀ (f : Nat) (fo : FilterObj), AL.find? w.filters f = some fo →
    RelsTyped w fo.filter fo.rels

/-- the cache's ID pool never recycles (`unregister` does not return the ID): every registered
    ID is below the next fresh one -/
structure CachePoolOK (w : World) : Prop where
  avail : w.cache.pool.available = 0
  bound : ∀ (id i : Nat), AL.find? w.cache.indices id = some i → id < w.cache.pool.pool.length

/-- **the filter-side invariant of the relation machine** -/
structure FInvR (w : World) : Prop where
  cache : CacheInv w
  heap : HeapOK w
  cidx : CIdx w
  rows : RowsAlive w
  /-- the lock-bit pool is consistent and no bit is outstanding -/
  lock : ∃ (lf : List Nat), Lock.LInv ⟨w.locks, []⟩ lf
  pool : CachePoolOK w

theorem finvR_init (cap rel : Nat) : FInvR (World.init cap rel) where
  cache := cacheInv_init cap rel 256
  heap := by
    refine ⟨?_, ?_, ?_, ?_⟩
    · intro f fo id h; cases h
    · intro f g fo go id h; cases h
    · intro f fo h; cases h
    · intro f fo h; cases h
  cidx := CIdx.init cap rel
  rows := RowsAlive.init cap rel
  lock := ⟨[], Lock.linv_init⟩
  pool := ⟨rfl, fun id i h => by cases h⟩

/-- a registered entry is found under its ID -/
theorem lookup_of_mem {w : World} (h : CacheInv w) {e : CacheEntry}
    (he : e ∈ w.cache.filters) : w.cacheEntry? e.id = some e := by
  obtain ⟨i, hi⟩ := List.getElem?_of_mem he
  have := (h.index e.id i).2 ⟨e, hi, rfl⟩
  simp only [cacheEntry?, this, hi]

/-- a member of the entry slice is registered in the ID map -/
theorem find_of_mem {w : World} (h : CacheInv w) {e : CacheEntry}
    (he : e ∈ w.cache.filters) : ∃ (i : Nat), AL.find? w.cache.indices e.id = some i := by
  obtain ⟨i, hi⟩ := List.getElem?_of_mem he
  exact ⟨i, (h.index e.id i).2 ⟨e, hi, rfl⟩⟩

/-! ## 2. what a successful entity operation guarantees -/

/-- what every successful entity operation of the relation machine guarantees about the
    filter-side state -/
structure Kept (w w' : World) : Prop where
  q : QKeep w w'
  c : CKeep w w'
  locks : w'.locks = w.locks
  relComp : ∀ (c : Comp), w.isRelComp c = true → w'.isRelComp c = true

theorem Kept.refl (w : World) : Kept w w := ⟨QKeep.refl w, CKeep.refl w, rfl, fun _ h => h⟩

theorem relsTyped_mono {w w' : World} {f : Filter} {rels : List RelID} (h : RelsTyped w f rels)
    (hr : ∀ (c : Comp), w.isRelComp c = true → w'.isRelComp c = true) : RelsTyped w' f rels :=
  fun r hm => ⟨hr _ (h r hm).1, (h r hm).2⟩

/-- **the filter-side invariant is kept** by a step that keeps `RowsAlive`, `CIdx`, the cache
    (up to the table lists of its entries), the filter heap and the lock -/
theorem FInvR.kept {w w' : World} (h : FInvR w) (k : Kept w w') : FInvR w' where
  cache := k.c.cache h.cache
  heap := by
    refine ⟨?_, ?_, ?_, ?_⟩
    · intro f fo id hf hcid
      rw [k.c.filters] at hf
      obtain ⟨e, he, h1, h2, h3⟩ := h.heap.reg f fo id hf hcid
      have hk : (e.id, e.filter, e.rels) ∈ w'.cacheKeys := by
        rw [k.c.keys]; exact List.mem_map.mpr ⟨e, he, rfl⟩
      obtain ⟨e', he', heq⟩ := List.mem_map.mp hk
      injection heq with g1 g23
      injection g23 with g2 g3
      exact ⟨e', he', g1.trans h1, g2.trans h2, g3.trans h3⟩
    · rw [k.c.filters]; exact h.heap.inj
    · rw [k.c.filters]; exact h.heap.typed
    · intro f fo hf
      rw [k.c.filters] at hf
      exact relsTyped_mono (h.heap.rels f fo hf) k.relComp
  cidx := k.q.cidx h.cidx
  rows := k.q.rows h.rows
  lock := by rw [k.locks]; exact h.lock
  pool := ⟨by rw [k.c.pool]; exact h.pool.avail, by rw [k.c.indices, k.c.pool]; exact h.pool.bound⟩

/-! ## 3. a world that differs only in cache and filter heap -/

/-- the joint invariant reads the cache only through `CacheRelsOK`, the filter heap not at all -/
theorem _root_.Ark.TInv.setCF {w : World} {fl : List Nat} (h : TInv w fl) (c : Cache)
    (F : AL FilterObj)
    (hc : ∀ (e : CacheEntry), e ∈ c.filters → ∀ (r : RelID), r ∈ e.rels →
      e.filter.mask.get r.comp = true) :
    TInv { w with cache := c, filters := F } fl where
  rel :=
    { sinv := h.rel.sinv.congr rfl rfl rfl
      rinv := h.rel.rinv.congr rfl rfl
      aux :=
        { targets := h.rel.aux.targets
          rels := h.rel.aux.rels
          relArchs := h.rel.aux.relArchs
          cacheRels := hc } }
  flags := h.flags
  freeEmpty := h.freeEmpty
  link := h.link.congr (h.link.idx.congr rfl rfl) rfl rfl rfl rfl
  kindsLe := h.kindsLe

/-- the invariant of the entity machine under a change of cache and filter heap -/
theorem _root_.Ark.RelRefine.HInv.setCF {s : RelRefine.St} {fl : List Nat}
    (H : RelRefine.HInv s fl) (c : Cache) (F : AL FilterObj)
    (hc : ∀ (e : CacheEntry), e ∈ c.filters → ∀ (r : RelID), r ∈ e.rels →
      e.filter.mask.get r.comp = true) :
    RelRefine.HInv ⟨{ s.w with cache := c, filters := F }, s.issued, s.ss⟩ fl where
  tinv := H.tinv.setCF c F hc
  ginv := H.ginv
  unlocked := H.unlocked
  noObs := H.noObs
  nodup := H.nodup
  zstEq := H.zstEq
  relEq := H.relEq
  maxc := H.maxc
  ok := fun e en hm =>
    (H.ok e en hm).frame ⟨fun c => valOf_congr rfl rfl _ c, compsOf_congr rfl rfl _⟩ (fun _ => rfl)
  tgtsOK := H.tgtsOK

/-- `w'` is `w` with another cache and filter heap -/
def SameButCF (w w' : World) : Prop := w' = { w with cache := w'.cache, filters := w'.filters }

theorem SameButCF.refl (w : World) : SameButCF w w := rfl

theorem _root_.Ark.RelRefine.HInv.sameButCF {s : RelRefine.St} {fl : List Nat}
    (H : RelRefine.HInv s fl) {w' : World} (h : SameButCF s.w w') (hc : CacheRelsOK w') :
    RelRefine.HInv ⟨w', s.issued, s.ss⟩ fl := by
  rw [h]; exact H.setCF _ _ hc

theorem sameButCF_fields {w w' : World} (h : SameButCF w w') :
    w'.tables = w.tables ∧ w'.entities = w.entities ∧ w'.archetypes = w.archetypes ∧
    w'.kinds = w.kinds ∧ w'.componentIndex = w.componentIndex ∧ w'.locks = w.locks ∧
    w'.pool = w.pool ∧ w'.relationArchetypes = w.relationArchetypes := by
  unfold SameButCF at h
  exact ⟨by rw [h], by rw [h], by rw [h], by rw [h], by rw [h], by rw [h], by rw [h], by rw [h]⟩

/-- the filter-side invariant for a world `w2` that has the storage of `w` -/
theorem FInvR.ofCacheHeap {w w2 : World} (h : FInvR w) (hs : SameButCF w w2)
    (hcache : CacheInv w2) (hheap : HeapOK w2) (hpool : CachePoolOK w2) : FInvR w2 := by
  obtain ⟨hT, hE, hA, hK, hCI, hL, hP, _⟩ := sameButCF_fields hs
  exact
    { cache := hcache
      heap := hheap
      cidx := h.cidx.of_frame ⟨hCI, hK, by rw [hA], fun a => by simp only [arch, hA]⟩
      rows := by
        intro t T r hT' hr
        rw [hT] at hT'
        have : w2.alive (T.getEntity r) = w.alive (T.getEntity r) := by simp only [World.alive, hP]
        rw [this]; exact h.rows t T r hT' hr
      lock := by rw [hL]; exact h.lock
      pool := hpool }

/-! ## 4. `fdef`: a filter object is put into the heap -/

/-- what a client can construct: a fresh (unregistered) filter object; a typed filter requires
    its type parameters (`FilterN` is built from them); the fixed relations of an `UnsafeFilter`
    name relation components the mask requires (the typed constructor checks this itself, see
    `defFilter`; for an `UnsafeFilter` that violates it `Register` and `Query` are Go runtime
    panics — nil dereference in `Matches` —, such objects are not steps of the machine). -/
def guardF (w : World) (fo : FilterObj) : Bool :=
  fo.cache.isNone &&
    (!fo.typed || fo.ids.all fun c => fo.filter.mask.get c) &&
    (fo.typed || fo.rels.all fun r => w.isRelComp r.comp && fo.filter.mask.get r.comp)

/-- the `filter` line of the driver: the typed constructor validates the fixed relations
    (`preCheckTyped`: target zero or alive, relation component, required by the mask); on success
    the object is stored under label `f` (replacing what was there) -/
def defFilter (f : Nat) (fo : FilterObj) (w : World) : World :=
  match (if fo.typed then preCheckTyped fo.filter.mask fo.rels else pure ()) w with
  | .ok _ w' => { w' with filters := AL.insert w'.filters f fo }
  | .panic _ w' => w'

theorem defFilter_cases (f : Nat) (fo : FilterObj) (w : World) :
    defFilter f fo w = w ∨
    (defFilter f fo w = { w with filters := AL.insert w.filters f fo } ∧
      (fo.typed = true → ExtraOK w fo.filter.mask fo.rels)) := by
  unfold defFilter
  cases ht : fo.typed with
  | false => exact Or.inr ⟨rfl, fun h => by cases h⟩
  | true =>
    simp only [if_true]
    rcases preCheckTyped_cases fo.filter.mask w fo.rels with h | ⟨k, h⟩
    · rw [h]; exact Or.inr ⟨rfl, fun _ => (preCheckTyped_ok_iff _ w fo.rels).mp h⟩
    · rw [h]; exact Or.inl rfl

/-- the filter object the driver builds from a `filter` line -/
def mkFilterObj (ids : List Comp) (wo : Option (List Comp)) (excl typed : Bool)
    (rels : List RelID) : FilterObj :=
  let f : Filter := { mask := Mask.ofList ids }
  let f := match wo with | some l => if l.isEmpty then f else f.withoutList l | none => f
  let f := if excl then f.exclusive else f
  { filter := f, ids, rels, typed }

/-- the filter-side invariant under a change of the filter heap alone -/
theorem FInvR.setFilters {w : World} (h : FInvR w) (F : AL FilterObj)
    (hheap : HeapOK { w with filters := F }) : FInvR { w with filters := F } :=
  h.ofCacheHeap rfl
    ⟨h.cache.uniq, h.cache.index, fun e he => ⟨(h.cache.entries e he).1, fun t =>
      ((h.cache.entries e he).2 t).trans (Selected_congr rfl rfl _ _ _).symm⟩⟩
    hheap ⟨h.pool.avail, h.pool.bound⟩

/-- **`fdef` keeps the filter-side invariant** -/
theorem FInvR.defFilter {w : World} (h : FInvR w) (f : Nat) (fo : FilterObj)
    (hg : guardF w fo = true) : FInvR (defFilter f fo w) := by
  rcases defFilter_cases f fo w with he | ⟨he, hex⟩
  · rw [he]; exact h
  · rw [he]
    simp only [guardF, Bool.and_eq_true, Option.isNone_iff_eq_none, Bool.or_eq_true,
      Bool.not_eq_true', List.all_eq_true] at hg
    obtain ⟨⟨hc, hty⟩, hrl⟩ := hg
    have hrels : RelsTyped w fo.filter fo.rels := by
      cases ht : fo.typed with
      | true => exact (hex ht).relsTyped
      | false =>
        rcases hrl with hrl | hrl
        · rw [ht] at hrl; cases hrl
        · exact fun r hr => hrl r hr
    apply h.setFilters
    refine ⟨?_, ?_, ?_, ?_⟩
    · intro g go id hf hgc
      rw [show ({ w with filters := AL.insert w.filters f fo } : World).filters =
        AL.insert w.filters f fo from rfl, AL.find?_insert] at hf
      by_cases hgf : g = f
      · rw [if_pos hgf] at hf
        rw [← Option.some.inj hf, hc] at hgc; cases hgc
      · rw [if_neg hgf] at hf
        exact h.heap.reg g go id hf hgc
    · intro g1 g2 o1 o2 id h1 h2 c1 c2
      rw [show ({ w with filters := AL.insert w.filters f fo } : World).filters =
        AL.insert w.filters f fo from rfl, AL.find?_insert] at h1 h2
      by_cases hg1 : g1 = f
      · rw [if_pos hg1] at h1
        rw [← Option.some.inj h1, hc] at c1; cases c1
      · by_cases hg2 : g2 = f
        · rw [if_pos hg2] at h2
          rw [← Option.some.inj h2, hc] at c2; cases c2
        · rw [if_neg hg1] at h1
          rw [if_neg hg2] at h2
          exact h.heap.inj g1 g2 o1 o2 id h1 h2 c1 c2
    · intro g go hf ht c hcm
      rw [show ({ w with filters := AL.insert w.filters f fo } : World).filters =
        AL.insert w.filters f fo from rfl, AL.find?_insert] at hf
      by_cases hgf : g = f
      · rw [if_pos hgf] at hf
        have hgo : fo = go := Option.some.inj hf
        subst hgo
        rcases hty with hty | hty
        · rw [hty] at ht; cases ht
        · exact hty c hcm
      · rw [if_neg hgf] at hf
        exact h.heap.typed g go hf ht c hcm
    · intro g go hf
      rw [show ({ w with filters := AL.insert w.filters f fo } : World).filters =
        AL.insert w.filters f fo from rfl, AL.find?_insert] at hf
      by_cases hgf : g = f
      · rw [if_pos hgf] at hf
        have hgo : fo = go := Option.some.inj hf
        subst hgo
        exact hrels
      · rw [if_neg hgf] at hf
        exact h.heap.rels g go hf

theorem defFilter_sameButCF (f : Nat) (fo : FilterObj) (w : World) :
    SameButCF w (defFilter f fo w) ∧ (defFilter f fo w).cache = w.cache := by
  rcases defFilter_cases f fo w with he | ⟨he, _⟩
  · rw [he]; exact ⟨SameButCF.refl _, rfl⟩
  · rw [he]; exact ⟨rfl, rfl⟩

/-! ## 5. `freg` / `funreg`: `FilterN.Register` / `FilterN.Unregister` -/

/-- the filter object under label `f` (the zero object when the label is unknown) -/
def foAt (w : World) (f : Nat) : FilterObj := (AL.find? w.filters f).getD {}

theorem opFilterRegister_registered (f : Nat) (w : World) {id : Nat}
    (hc : (foAt w f).cache = some id) :
    opFilterRegister f w = .panic .filterRegistered w := by
  unfold foAt at hc
  simp [opFilterRegister, bind, M.bind, M.get, M.assert, hc]

theorem opFilterRegister_eq (f : Nat) (w : World) (hc : (foAt w f).cache = none) {id : Nat}
    {w1 : World} (hreg : cacheRegister (foAt w f).filter (foAt w f).rels w = .ok id w1) :
    opFilterRegister f w = .ok ()
      { w1 with filters := AL.insert w1.filters f { foAt w f with cache := some id } } := by
  unfold foAt at hc hreg ⊢
  simp only [opFilterRegister, bind, M.bind, M.get, M.assert, hc, Option.isNone_none, if_true, hreg,
    M.modify]

theorem opFilterUnregister_unregistered (f : Nat) (w : World) (hc : (foAt w f).cache = none) :
    opFilterUnregister f w = .panic .filterNotRegistered w := by
  unfold foAt at hc
  simp [opFilterUnregister, bind, M.bind, M.get, hc]

theorem opFilterUnregister_eq (f : Nat) (w : World) {id : Nat} (hc : (foAt w f).cache = some id)
    {w1 : World} (hun : cacheUnregister id w = .ok () w1) :
    opFilterUnregister f w = .ok ()
      { w1 with filters := AL.insert w1.filters f { foAt w f with cache := none } } := by
  unfold foAt at hc ⊢
  simp only [opFilterUnregister, bind, M.bind, M.get, hc, hun, M.modify]

/-- a successful `unregister` changes only the entry slice and the ID map -/
theorem cacheUnregister_form {id : Nat} {w w1 : World} (h : cacheUnregister id w = .ok () w1) :
    ∃ (F : List CacheEntry) (I : AL Nat),
      w1 = { w with cache := { w.cache with filters := F, indices := I } } := by
  cases hf : AL.find? w.cache.indices id with
  | none => rw [cacheUnregister_unknown w id hf] at h; cases h
  | some idx =>
    by_cases hl : idx = w.cache.filters.length - 1
    · rw [cacheUnregister_last w id (hl ▸ hf)] at h
      injection h with _ h2
      exact ⟨_, _, h2.symm⟩
    · rw [cacheUnregister_inner w id idx hf hl] at h
      injection h with _ h2
      exact ⟨_, _, h2.symm⟩

/-- the ID the cache's pool hands out next is not registered -/
theorem CachePoolOK.fresh {w : World} (h : CachePoolOK w) :
    (w.cache.pool.get).2 = w.cache.pool.pool.length ∧
    (w.cache.pool.get).1.available = 0 ∧
    (w.cache.pool.get).1.pool.length = w.cache.pool.pool.length + 1 ∧
    AL.find? w.cache.indices (w.cache.pool.get).2 = none := by
  have h1 : (w.cache.pool.get).2 = w.cache.pool.pool.length := by
    simp [IntPool.get, h.avail, IntPool.getNew]
  refine ⟨h1, by simp [IntPool.get, h.avail, IntPool.getNew],
    by simp [IntPool.get, h.avail, IntPool.getNew], ?_⟩
  cases hf : AL.find? w.cache.indices (w.cache.pool.get).2 with
  | none => rfl
  | some i =>
    have := h.bound _ i hf
    rw [h1] at this
    exact absurd this (Nat.lt_irrefl _)

/-- the object under a label, with the facts the heap invariant records about it -/
theorem foAt_facts {w : World} (h : HeapOK w) (f : Nat) :
    RelsTyped w (foAt w f).filter (foAt w f).rels ∧
    ((foAt w f).typed = true → FilterOK (foAt w f)) := by
  cases hfind : AL.find? w.filters f with
  | none =>
    have hz : foAt w f = {} := by simp only [foAt, hfind]; rfl
    rw [hz]
    exact ⟨fun r (hr : r ∈ ([] : List RelID)) => absurd hr List.not_mem_nil,
      fun _ c (hc : c ∈ ([] : List Comp)) => absurd hc List.not_mem_nil⟩
  | some fo0 =>
    have hz : foAt w f = fo0 := by simp only [foAt, hfind]; rfl
    rw [hz]
    exact ⟨h.rels f fo0 hfind, h.typed f fo0 hfind⟩

/-- **`FilterN.Register` keeps the filter-side invariant** in a world with relation tables, and
    changes only cache and heap; every cache entry still has relations the mask requires -/
theorem FInvR.filterRegister {w : World} {fl : List Nat} (h : FInvR w) (ht : TInv w fl) (f : Nat) :
    FInvR (opFilterRegister f w).state ∧ SameButCF w (opFilterRegister f w).state ∧
    CacheRelsOK (opFilterRegister f w).state := by
  cases hc : (foAt w f).cache with
  | some id0 =>
    rw [opFilterRegister_registered f w hc]
    exact ⟨h, SameButCF.refl w, ht.rel.aux.cacheRels⟩
  | none =>
    have H := tablesInv_of_rel ht.rel
    obtain ⟨hrt, hfok⟩ := foAt_facts h.heap f
    have hok := relsOK_of_typed ht.rel.sinv.toSInvMid hrt
    obtain ⟨hidEq, hav, hlen, hfresh⟩ := h.pool.fresh
    obtain ⟨ts, hts, hnd, hmem⟩ := getCacheTables_spec H hok
    have hreg := cacheRegister_eq w _ _ ts hts
    obtain ⟨w1, e, hreg', hci, _, _, _, _, _, _, _, _, _⟩ := cacheRegister_inv h.cache H hok hfresh
    have hw1 : w1 = registered w (foAt w f).filter (foAt w f).rels ts := by
      rw [hreg] at hreg'
      injection hreg' with _ h2
      exact h2.symm
    subst hw1
    rw [opFilterRegister_eq f w hc hreg]
    -- an old object cannot carry the fresh ID
    have hold : ∀ (g : Nat) (o : FilterObj), AL.find? w.filters g = some o →
        o.cache ≠ some (w.cache.pool.get).2 := by
      intro g o hgo hco
      obtain ⟨e0, he0, g1, _, _⟩ := h.heap.reg g o _ hgo hco
      obtain ⟨i, hi⟩ := find_of_mem h.cache he0
      rw [g1, hfresh] at hi; cases hi
    have hsb : SameButCF w ({ registered w (foAt w f).filter (foAt w f).rels ts with
        filters := AL.insert w.filters f { foAt w f with cache := some (w.cache.pool.get).2 } } :
          World) := rfl
    have hcr : CacheRelsOK ({ registered w (foAt w f).filter (foAt w f).rels ts with
        filters := AL.insert w.filters f { foAt w f with cache := some (w.cache.pool.get).2 } } :
          World) := by
      intro e he
      replace he : e ∈ w.cache.filters ++ [newEntry w (foAt w f).filter (foAt w f).rels ts] := he
      rcases List.mem_append.mp he with he | he
      · exact ht.rel.aux.cacheRels e he
      · rw [List.mem_singleton.mp he]
        intro r hrm; exact (hrt r hrm).2
    refine ⟨?_, hsb, hcr⟩
    refine h.ofCacheHeap hsb ?_ ?_ ?_
    · exact ⟨hci.uniq, hci.index, fun e he => ⟨(hci.entries e he).1, fun t =>
        ((hci.entries e he).2 t).trans (Selected_congr rfl rfl _ _ _).symm⟩⟩
    · refine ⟨?_, ?_, ?_, ?_⟩
      · intro g go id' hf hgc
        replace hf : AL.find? (AL.insert w.filters f
            { foAt w f with cache := some (w.cache.pool.get).2 }) g = some go := hf
        show ∃ e, e ∈ w.cache.filters ++ [newEntry w _ _ ts] ∧ _
        rw [AL.find?_insert] at hf
        by_cases hgf : g = f
        · rw [if_pos hgf] at hf
          rw [← Option.some.inj hf] at hgc
          have hid : (w.cache.pool.get).2 = id' := Option.some.inj hgc
          refine ⟨newEntry w _ _ ts, List.mem_append_right _ (List.mem_singleton.mpr rfl),
            hid, ?_, ?_⟩
          · rw [← Option.some.inj hf]; rfl
          · rw [← Option.some.inj hf]; rfl
        · rw [if_neg hgf] at hf
          obtain ⟨e0, he0, g1, g2, g3⟩ := h.heap.reg g go id' hf hgc
          exact ⟨e0, List.mem_append_left _ he0, g1, g2, g3⟩
      · intro g1 g2 o1 o2 id' h1 h2 c1 c2
        replace h1 : AL.find? (AL.insert w.filters f
            { foAt w f with cache := some (w.cache.pool.get).2 }) g1 = some o1 := h1
        replace h2 : AL.find? (AL.insert w.filters f
            { foAt w f with cache := some (w.cache.pool.get).2 }) g2 = some o2 := h2
        rw [AL.find?_insert] at h1 h2
        by_cases hg1 : g1 = f
        · by_cases hg2 : g2 = f
          · rw [hg1, hg2]
          · rw [if_pos hg1] at h1
            rw [if_neg hg2] at h2
            rw [← Option.some.inj h1] at c1
            have hid : (w.cache.pool.get).2 = id' := Option.some.inj c1
            rw [← hid] at c2
            exact absurd c2 (hold g2 o2 h2)
        · rw [if_neg hg1] at h1
          by_cases hg2 : g2 = f
          · rw [if_pos hg2] at h2
            rw [← Option.some.inj h2] at c2
            have hid : (w.cache.pool.get).2 = id' := Option.some.inj c2
            rw [← hid] at c1
            exact absurd c1 (hold g1 o1 h1)
          · rw [if_neg hg2] at h2
            exact h.heap.inj g1 g2 o1 o2 id' h1 h2 c1 c2
      · intro g go hf htp
        replace hf : AL.find? (AL.insert w.filters f
            { foAt w f with cache := some (w.cache.pool.get).2 }) g = some go := hf
        rw [AL.find?_insert] at hf
        by_cases hgf : g = f
        · rw [if_pos hgf] at hf
          rw [← Option.some.inj hf] at htp ⊢
          exact hfok htp
        · rw [if_neg hgf] at hf
          exact h.heap.typed g go hf htp
      · intro g go hf
        replace hf : AL.find? (AL.insert w.filters f
            { foAt w f with cache := some (w.cache.pool.get).2 }) g = some go := hf
        rw [AL.find?_insert] at hf
        by_cases hgf : g = f
        · rw [if_pos hgf] at hf
          rw [← Option.some.inj hf]
          exact hrt
        · rw [if_neg hgf] at hf
          exact h.heap.rels g go hf
    · refine ⟨hav, ?_⟩
      intro id' i hf
      replace hf : AL.find? (AL.insert w.cache.indices (w.cache.pool.get).2
        w.cache.filters.length) id' = some i := hf
      show id' < (w.cache.pool.get).1.pool.length
      rw [AL.find?_insert] at hf
      by_cases hid : id' = (w.cache.pool.get).2
      · rw [hlen, hid, hidEq]; exact Nat.lt_succ_self _
      · rw [if_neg hid] at hf
        have := h.pool.bound id' i hf
        rw [hlen]; exact Nat.lt_succ_of_lt this

/-- **`FilterN.Unregister` keeps the filter-side invariant** and changes only cache and heap -/
theorem FInvR.filterUnregister {w : World} {fl : List Nat} (h : FInvR w) (ht : TInv w fl) (f : Nat) :
    FInvR (opFilterUnregister f w).state ∧ SameButCF w (opFilterUnregister f w).state ∧
    CacheRelsOK (opFilterUnregister f w).state := by
  cases hc : (foAt w f).cache with
  | none =>
    rw [opFilterUnregister_unregistered f w hc]
    exact ⟨h, SameButCF.refl w, ht.rel.aux.cacheRels⟩
  | some id =>
    -- the object is in the heap (the zero object is unregistered)
    cases hfind : AL.find? w.filters f with
    | none => simp only [foAt, hfind] at hc; cases hc
    | some fo =>
      have hfo : foAt w f = fo := by simp only [foAt, hfind]; rfl
      have hcfo : fo.cache = some id := by rw [← hfo]; exact hc
      obtain ⟨e0, he0, hid0, _, _⟩ := h.heap.reg f fo id hfind hcfo
      obtain ⟨idx, hidx⟩ := find_of_mem h.cache he0
      rw [hid0] at hidx
      obtain ⟨w1, hun, hci, hA, hT, hgone, hoth⟩ := cacheUnregister_inv h.cache hidx
      obtain ⟨F, I, hform⟩ := cacheUnregister_form hun
      have hFl : w1.filters = w.filters := by rw [hform]
      have hP : w1.cache.pool = w.cache.pool := by rw [hform]
      rw [opFilterUnregister_eq f w hc hun]
      -- entries of other IDs survive; every surviving entry is an old one
      have hkeep : ∀ (e : CacheEntry), e ∈ w.cache.filters → e.id ≠ id → e ∈ w1.cache.filters := by
        intro e he hne
        have h1 := lookup_of_mem h.cache he
        rw [← hoth e.id hne] at h1
        exact (hci.entry_of_lookup h1).1
      have hback : ∀ (e : CacheEntry), e ∈ w1.cache.filters → e ∈ w.cache.filters := by
        intro e he
        have h1 := lookup_of_mem hci he
        have hne : e.id ≠ id := by
          intro hii; rw [hii, hgone] at h1; cases h1
        rw [hoth e.id hne] at h1
        exact (h.cache.entry_of_lookup h1).1
      have hsb : SameButCF w ({ w1 with
          filters := AL.insert w1.filters f { foAt w f with cache := none } } : World) := by
        subst hform
        rfl
      have hcr : CacheRelsOK ({ w1 with
          filters := AL.insert w1.filters f { foAt w f with cache := none } } : World) := by
        intro e he
        exact ht.rel.aux.cacheRels e (hback e he)
      refine ⟨?_, hsb, hcr⟩
      refine h.ofCacheHeap hsb ?_ ?_ ?_
      · exact ⟨hci.uniq, hci.index, fun e he => ⟨(hci.entries e he).1, fun t =>
          ((hci.entries e he).2 t).trans (Selected_congr rfl rfl _ _ _).symm⟩⟩
      · refine ⟨?_, ?_, ?_, ?_⟩
        · intro g go id' hf hgc
          replace hf : AL.find? (AL.insert w1.filters f { foAt w f with cache := none }) g =
            some go := hf
          show ∃ e, e ∈ w1.cache.filters ∧ _
          rw [AL.find?_insert, hFl] at hf
          by_cases hgf : g = f
          · rw [if_pos hgf] at hf
            rw [← Option.some.inj hf] at hgc; cases hgc
          · rw [if_neg hgf] at hf
            obtain ⟨e1, he1, g1, g2, g3⟩ := h.heap.reg g go id' hf hgc
            have hne : id' ≠ id := by
              intro hii
              exact hgf (h.heap.inj g f go fo id hf hfind (hii ▸ hgc) hcfo)
            exact ⟨e1, hkeep e1 he1 (by rw [g1]; exact hne), g1, g2, g3⟩
        · intro g1 g2 o1 o2 id' h1 h2 c1 c2
          replace h1 : AL.find? (AL.insert w1.filters f { foAt w f with cache := none }) g1 =
            some o1 := h1
          replace h2 : AL.find? (AL.insert w1.filters f { foAt w f with cache := none }) g2 =
            some o2 := h2
          rw [AL.find?_insert, hFl] at h1 h2
          by_cases hg1 : g1 = f
          · rw [if_pos hg1] at h1
            rw [← Option.some.inj h1] at c1; cases c1
          · by_cases hg2 : g2 = f
            · rw [if_pos hg2] at h2
              rw [← Option.some.inj h2] at c2; cases c2
            · rw [if_neg hg1] at h1
              rw [if_neg hg2] at h2
              exact h.heap.inj g1 g2 o1 o2 id' h1 h2 c1 c2
        · intro g go hf htp
          replace hf : AL.find? (AL.insert w1.filters f { foAt w f with cache := none }) g =
            some go := hf
          rw [AL.find?_insert, hFl] at hf
          by_cases hgf : g = f
          · rw [if_pos hgf] at hf
            rw [← Option.some.inj hf] at htp ⊢
            replace htp : (foAt w f).typed = true := htp
            show FilterOK { foAt w f with cache := none }
            rw [hfo] at htp ⊢
            exact h.heap.typed f fo hfind htp
          · rw [if_neg hgf] at hf
            exact h.heap.typed g go hf htp
        · intro g go hf
          replace hf : AL.find? (AL.insert w1.filters f { foAt w f with cache := none }) g =
            some go := hf
          have hrc : ∀ (c : Comp), ({ w1 with
              filters := AL.insert w1.filters f { foAt w f with cache := none } } : World).isRelComp c =
              w.isRelComp c := by
            intro c
            show (w1.kinds.getD c {}).isRel = (w.kinds.getD c {}).isRel
            rw [show w1.kinds = w.kinds by rw [hform]]
          rw [AL.find?_insert, hFl] at hf
          have hmono : ∀ {fl : Filter} {rs : List RelID}, RelsTyped w fl rs →
              RelsTyped ({ w1 with
                filters := AL.insert w1.filters f { foAt w f with cache := none } } : World) fl rs :=
            fun hh => relsTyped_mono hh (fun c hcc => by rw [hrc]; exact hcc)
          by_cases hgf : g = f
          · rw [if_pos hgf] at hf
            rw [← Option.some.inj hf]
            show RelsTyped _ (foAt w f).filter (foAt w f).rels
            rw [hfo]
            exact hmono (h.heap.rels f fo hfind)
          · rw [if_neg hgf] at hf
            exact hmono (h.heap.rels g go hf)
      · refine ⟨?_, ?_⟩
        · show w1.cache.pool.available = 0
          rw [hP]; exact h.pool.avail
        · intro id' i hf
          replace hf : AL.find? w1.cache.indices id' = some i := hf
          show id' < w1.cache.pool.pool.length
          rw [hP]
          obtain ⟨e1, he1, hid1⟩ := (hci.index id' i).1 hf
          have hlook : w1.cacheEntry? id' = some e1 := by
            simp only [cacheEntry?, hf, he1]
          have hne : id' ≠ id := by
            intro hii; rw [hii, hgone] at hlook; cases hlook
          rw [hoth id' hne] at hlook
          obtain ⟨hm1, hm2⟩ := h.cache.entry_of_lookup hlook
          obtain ⟨j, hj⟩ := find_of_mem h.cache hm1
          rw [hm2] at hj
          exact h.pool.bound id' j hj

end RelRefine2
end Ark
