/-
  Ark.Proofs.BatchRemove — C06 at world level, part 2: `World.RemoveEntities(batch, fn)` against
  `RemoveEntity` applied to every entity the filter selects.

  Fragment: `CInv w fl` (no relations, no observers, no targets), unlocked world, uncached filter
  without relation constraints.  Extra hypothesis `RowsLive w` (the handles stored in live rows
  carry the current generation) — see the note at its definition.
-/
import Ark.Proofs.BatchNewFn
import Ark.Proofs.CacheInv
set_option autoImplicit false
namespace Ark
open World Ark.Props.C01World
namespace World

/-! ## 1. the batch removal as a pure function -/

/-- a `for` loop over a list whose body, on states satisfying `P`, always continues with the
    loop variable unchanged and performs a pure state update that keeps `P` -/
theorem forIn_fold_inv {σ : Type} (P : World → Prop) (f : World → Nat → World)
    (g : Nat → σ → W (ForInStep σ)) (s0 : σ)
    (hg : ∀ (i : Nat) (w : World), P w → g i s0 w = .ok (ForInStep.yield s0) (f w i))
    (hP : ∀ (i : Nat) (w : World), P w → P (f w i)) :
    ∀ (l : List Nat) (w : World), P w → (forIn l s0 g : W σ) w = .ok s0 (l.foldl f w)
  | [], _, _ => rfl
  | x :: l, w, hw => by
    rw [List.forIn_cons, M.bind_apply, hg x w hw]
    exact forIn_fold_inv P f g s0 hg hP l (f w x) (hP x w hw)

/-- un-index the entity and recycle its handle (one iteration of the removal loop) -/
def killStep (w : World) (e : Ent) : World :=
  { w with entities := w.entities.modify e.id (fun x => (maxU32, x.2)), pool := w.pool.recycle e }

/-- the removal loop over the rows of table `t`, then `Reset` of the table -/
def removeTableW (w : World) (t : Nat) : World :=
  ((List.range (w.tbl t).len).foldl (fun W i => killStep W ((w.tbl t).getEntity i)) w).modTbl t
    Table.reset

/-- the removal loop over the tables `ts` -/
def removeTablesW (w : World) (ts : List Nat) : World := ts.foldl removeTableW w

/-- no relation target is flagged -/
def NoTargets (w : World) : Prop := ∀ i : Nat, w.isTarget.getD i false = false

theorem getBatchTables_uncached (fo : FilterObj) (extra : List RelID) (w : World)
    (hc : fo.cache = none) :
    getBatchTables fo extra w =
      match w.getCacheTables fo.filter (fo.rels ++ extra) with
      | none => .panic .runtime w
      | some ts => .ok ts w := by
  simp only [getBatchTables, effRels, hc, Option.isSome_none, Bool.false_eq_true, if_false]
  cases w.getCacheTables fo.filter (fo.rels ++ extra) <;> rfl

/-- without observers, relation targets and callback, `RemoveEntities(batch, nil)` is the removal
    loop over the tables the filter selects -/
theorem opRemoveEntities_eq (run : ProbeRunner) (fo : FilterObj) (extra : List RelID) (w : World)
    (hl : w.isLocked = false) (hno : ∀ evt : Nat, w.obs.hasObservers evt = false)
    (hT : NoTargets w) {ts : List Nat} (hts : getBatchTables fo extra w = .ok ts w) :
    opRemoveEntities run fo extra false w = .ok () (removeTablesW w ts) := by
  unfold opRemoveEntities
  simp only [M.bind_apply, checkLocked_unlocked w hl, M.get_apply, hno, Bool.or_self,
    Bool.false_eq_true, if_false, M.pure_apply, hts]
  rw [forIn_fold_inv NoTargets removeTableW _ [] ?_ ?_ ts w hT]
  · rfl
  · intro t W hW
    simp only [M.bind_apply, M.get_apply]
    rw [forIn_fold_inv NoTargets (fun W' i => killStep W' ((W.tbl t).getEntity i)) _ [] ?_ ?_ _ W hW]
    · rfl
    · intro i W' hW'
      simp only [M.bind_apply, M.get_apply, hW' _, Bool.false_eq_true, if_false]
      rfl
    · intro i W' hW'; exact hW'
  · intro t W hW
    have : ∀ (l : List Nat) (W' : World), NoTargets W' →
        NoTargets (l.foldl (fun W' i => killStep W' ((W.tbl t).getEntity i)) W') := by
      intro l
      induction l with
      | nil => intro W' h; exact h
      | cons x l ih => intro W' h; exact ih _ h
    exact this _ W hW

/-! ## 2. the selection in the relation-free fragment -/

/-- the tables a filter selects when no archetype has a relation column: the (one) table of every
    archetype whose mask matches, in archetype order -/
def selTables (w : World) (f : Filter) : List Nat :=
  (w.archetypes.filter fun A => f.matchesMask A.mask).map fun A => A.tables.tables.getD 0 0

theorem getCacheTables_noRel (w : World) (f : Filter) (rels : List RelID)
    (h : ∀ A ∈ w.archetypes, A.hasRelations = false) :
    w.getCacheTables f rels = some (selTables w f) := by
  unfold getCacheTables
  refine (OptFold.foldl_total _
    (fun A => if f.matchesMask A.mask then [A.tables.tables.getD 0 0] else []) w.archetypes ?_
    []).trans ?_
  · intro A hA acc
    have hr := h A hA
    by_cases hm : f.matchesMask A.mask = true
    · simp [hm, hr]
    · simp [hm]
  · simp only [List.nil_append, selTables]
    congr 1
    induction w.archetypes with
    | nil => rfl
    | cons A l ih =>
      by_cases hm : f.matchesMask A.mask = true
      · rw [List.flatMap_cons, List.filter_cons, if_pos hm, if_pos hm, List.map_cons, ih]; rfl
      · rw [List.flatMap_cons, List.filter_cons, if_neg hm, if_neg hm, ih]; rfl

/-- the table of an archetype of the fragment -/
theorem cinv_arch_table {w : World} {fl : List Nat} (h : CInv w fl) {a : Nat} {A : Archetype}
    (hA : w.archetypes[a]? = some A) :
    A.tables.tables = [A.tables.tables.getD 0 0] ∧ A.tables.tables.getD 0 0 < w.tables.length ∧
    (w.tbl (A.tables.tables.getD 0 0)).arch = a := by
  have hnr := h.noRelArch hA
  have hlen := h.sinv.settled a A hA hnr
  have h1 : A.tables.tables = [A.tables.tables.getD 0 0] := by
    cases hts : A.tables.tables with
    | nil => rw [hts] at hlen; simp at hlen
    | cons x rest =>
      cases rest with
      | nil => rfl
      | cons y r => rw [hts] at hlen; simp at hlen
  obtain ⟨T, hT, hTa⟩ := h.sinv.owned a A (A.tables.tables.getD 0 0) hA
    (Or.inl (by rw [h1]; exact List.mem_singleton.mpr (by simp)))
  exact ⟨h1, lt_of_get hT, by rw [tbl_of_get hT]; exact hTa⟩

/-- an existing table of the fragment is the table of its archetype -/
theorem cinv_table_arch {w : World} {fl : List Nat} (h : CInv w fl) {t : Nat}
    (ht : t < w.tables.length) :
    ∃ A, w.archetypes[(w.tbl t).arch]? = some A ∧ A.tables.tables.getD 0 0 = t := by
  have hT := get_of_lt ht
  obtain ⟨A, hA, _⟩ := h.sinv.tblArch t _ hT
  have hnr := h.noRelArch hA
  have hfree := (h.sinv.nonRelLe _ A hA hnr).2
  have hmem := h.sinv.member t _ hT
  rw [arch_of_get hA] at hmem
  have hact : t ∈ A.tables.tables := by
    apply hmem.1.mp
    cases hf : (w.tbl t).isFree with
    | false => rfl
    | true => have := hmem.2.mp hf; rw [hfree] at this; cases this
  obtain ⟨h1, _, _⟩ := cinv_arch_table h hA
  rw [h1] at hact
  exact ⟨A, hA, (List.mem_singleton.mp hact).symm⟩

/-- **selection**: the selected tables are exactly the existing tables whose archetype's mask
    matches the filter -/
theorem mem_selTables {w : World} {fl : List Nat} (h : CInv w fl) (f : Filter) (t : Nat) :
    t ∈ selTables w f ↔
      t < w.tables.length ∧ f.matchesMask (w.arch (w.tbl t).arch).mask = true := by
  simp only [selTables, List.mem_map, List.mem_filter]
  constructor
  · rintro ⟨A, ⟨hA, hm⟩, rfl⟩
    obtain ⟨a, ha⟩ := List.mem_iff_getElem?.1 hA
    obtain ⟨_, h2, h3⟩ := cinv_arch_table h ha
    exact ⟨h2, by rw [h3, arch_of_get ha]; exact hm⟩
  · rintro ⟨ht, hm⟩
    obtain ⟨A, hA, hAt⟩ := cinv_table_arch h ht
    rw [arch_of_get hA] at hm
    exact ⟨A, ⟨List.mem_iff_getElem?.2 ⟨_, hA⟩, hm⟩, hAt⟩

/-- … i.e. the `Selected` tables of Ark/Proofs/CacheInv.lean -/
theorem mem_selTables_iff_selected {w : World} {fl : List Nat} (h : CInv w fl) (f : Filter)
    (t : Nat) : t ∈ selTables w f ↔ Selected w f [] t := by
  rw [mem_selTables h]
  constructor
  · rintro ⟨ht, hm⟩
    obtain ⟨A, hA, hAt⟩ := cinv_table_arch h ht
    obtain ⟨h1, _, _⟩ := cinv_arch_table h hA
    rw [arch_of_get hA] at hm
    exact ⟨_, A, hA, by rw [h1, hAt]; simp, hm, Table.matchesRels_nil _⟩
  · rintro ⟨a, A, hA, hmem, hm, _⟩
    obtain ⟨h1, h2, h3⟩ := cinv_arch_table h hA
    rw [h1] at hmem
    have := List.mem_singleton.mp hmem
    subst this
    exact ⟨h2, by rw [h3, arch_of_get hA]; exact hm⟩

theorem selTables_nodup {w : World} {fl : List Nat} (h : CInv w fl) (f : Filter) :
    (selTables w f).Nodup := by
  have heq : selTables w f = w.archetypes.flatMap fun A =>
      if f.matchesMask A.mask then [A.tables.tables.getD 0 0] else [] := by
    simp only [selTables]
    induction w.archetypes with
    | nil => rfl
    | cons A l ih =>
      by_cases hm : f.matchesMask A.mask = true
      · rw [List.flatMap_cons, List.filter_cons, if_pos hm, if_pos hm, List.map_cons, ih]; rfl
      · rw [List.flatMap_cons, List.filter_cons, if_neg hm, if_neg hm, ih]; rfl
  rw [heq]
  apply OptFold.nodup_flatMap_of_key _ (fun t => (w.tbl t).arch)
  · intro A _
    split <;> simp
  · intro i A hA x hx
    split at hx
    · rw [List.mem_singleton.mp hx]; exact (cinv_arch_table h hA).2.2
    · cases hx

/-! ## 3. the selected entities -/

/-- the handles stored in the rows of table `t`, in row order -/
def rowsOf (w : World) (t : Nat) : List Ent := (List.range (w.tbl t).len).map (w.tbl t).getEntity

/-- the entities a batch on filter `f` affects, in the batch's order (tables in selection order,
    rows in row order) -/
def selEnts (w : World) (f : Filter) : List Ent := (selTables w f).flatMap (rowsOf w)

/-- **the rows hold current handles**: the handle stored in a live row is the one the pool holds
    at that ID (same generation).  `CInv` relates rows and index by ID only; this is the missing
    half of "rows hold live entities". -/
def RowsLive (w : World) : Prop :=
  ∀ t r : Nat, t < w.tables.length → r < (w.tbl t).len →
    w.pool.ents[((w.tbl t).getEntity r).id]? = some ((w.tbl t).getEntity r)

theorem mem_rowsOf {w : World} {t : Nat} {e : Ent} :
    e ∈ rowsOf w t ↔ ∃ r, r < (w.tbl t).len ∧ (w.tbl t).getEntity r = e := by
  simp only [rowsOf, List.mem_map, List.mem_range]

theorem mem_selEnts {w : World} {f : Filter} {e : Ent} :
    e ∈ selEnts w f ↔ ∃ t r, t ∈ selTables w f ∧ r < (w.tbl t).len ∧ (w.tbl t).getEntity r = e := by
  simp only [selEnts, List.mem_flatMap, mem_rowsOf]
  constructor
  · rintro ⟨t, ht, r, hr, he⟩; exact ⟨t, r, ht, hr, he⟩
  · rintro ⟨t, r, ht, hr, he⟩; exact ⟨t, ht, r, hr, he⟩

/-- a row handle of a world with live rows is alive, not reserved, not free, inside the pool slice,
    indexed to its row -/
theorem row_handle_live {w : World} {fl : List Nat} (h : CInv w fl) (hR : RowsLive w) {t r : Nat}
    (ht : t < w.tables.length) (hr : r < (w.tbl t).len) :
    2 ≤ ((w.tbl t).getEntity r).id ∧ ((w.tbl t).getEntity r).id ∉ fl ∧
    w.alive ((w.tbl t).getEntity r) = true ∧
    w.entities[((w.tbl t).getEntity r).id]? = some (t, r) ∧
    ((w.tbl t).getEntity r).id < w.pool.ents.length := by
  obtain ⟨h2, hnf, _, hx⟩ := h.row_live_id ht hr
  have hin := (List.getElem?_eq_some_iff.mp (hR t r ht hr)).1
  exact ⟨h2, hnf, (h.aliveIff _ hnf hin).mpr (hR t r ht hr), hx, hin⟩

/-- **the selected entities are exactly the alive entities whose archetype mask matches**
    (alive handles of the pool slice: not reserved, not on the free list, ID inside the slice) -/
theorem mem_selEnts_iff {w : World} {fl : List Nat} (h : CInv w fl) (hR : RowsLive w) (f : Filter)
    (e : Ent) :
    e ∈ selEnts w f ↔
      (2 ≤ e.id ∧ e.id ∉ fl ∧ e.id < w.pool.ents.length ∧ w.alive e = true ∧
        f.matchesMask (w.maskOf e) = true) := by
  rw [mem_selEnts]
  constructor
  · rintro ⟨t, r, ht, hr, rfl⟩
    obtain ⟨htl, hm⟩ := (mem_selTables h f t).mp ht
    obtain ⟨a1, a2, a3, a4, a5⟩ := row_handle_live h hR htl hr
    refine ⟨a1, a2, a5, a3, ?_⟩
    simp only [maskOf, index_of_get a4]; exact hm
  · rintro ⟨h2, hnf, hin, ha, hm⟩
    obtain ⟨t, r, he, ht, hs⟩ := h.live_entry h2 hnf ha hin
    obtain ⟨hT, hr, hid⟩ := h.idx.indexed he ht
    have htl := lt_of_get hT
    refine ⟨t, r, (mem_selTables h f t).mpr ⟨htl, ?_⟩, hr, ?_⟩
    · simp only [maskOf, index_of_get he] at hm; exact hm
    · have := hR t r htl hr
      rw [hid, hs] at this
      exact (Option.some.inj this).symm

/-- distinct rows hold distinct IDs -/
theorem selEnts_ids_nodup {w : World} {fl : List Nat} (h : CInv w fl) (f : Filter) :
    ((selEnts w f).map (·.id)).Nodup := by
  simp only [selEnts, List.map_flatMap]
  unfold List.Nodup
  rw [List.pairwise_flatMap]
  constructor
  · intro t ht
    obtain ⟨htl, _⟩ := (mem_selTables h f t).mp ht
    simp only [rowsOf, List.map_map]
    rw [List.pairwise_map]
    refine List.Pairwise.imp_of_mem ?_ (List.nodup_range (n := (w.tbl t).len))
    intro a b ha hb hab heq
    exact hab (h.idx.row_inj (get_of_lt htl) (get_of_lt htl) (List.mem_range.mp ha)
      (List.mem_range.mp hb) heq).2
  · refine List.Pairwise.imp_of_mem ?_ (selTables_nodup h f)
    intro t t' ht ht' hne x hx y hy hxy
    obtain ⟨htl, _⟩ := (mem_selTables h f t).mp ht
    obtain ⟨htl', _⟩ := (mem_selTables h f t').mp ht'
    simp only [rowsOf, List.map_map, List.mem_map, List.mem_range, Function.comp] at hx hy
    obtain ⟨r, hr, rfl⟩ := hx
    obtain ⟨r', hr', rfl⟩ := hy
    exact hne (h.idx.row_inj (get_of_lt htl) (get_of_lt htl') hr hr' hxy).1

end World


namespace Pool

/-- recycling a list of live handles with distinct IDs -/
theorem recycleAll_spec : ∀ (l : List Ent) (p : Pool) (fl : List Nat), PInv p fl →
    (∀ e ∈ l, 2 ≤ e.id ∧ e.id ∉ fl ∧ p.ents[e.id]? = some e) → (l.map (·.id)).Nodup →
    PInv (l.foldl Pool.recycle p) (l.reverse.map (·.id) ++ fl) ∧
    (∀ e ∈ l, ∃ nx, (l.foldl Pool.recycle p).ents[e.id]? = some ⟨nx, e.gen + 1⟩) ∧
    (∀ i : Nat, i ∉ l.map (·.id) → (l.foldl Pool.recycle p).ents[i]? = p.ents[i]?) ∧
    (l.foldl Pool.recycle p).ents.length = p.ents.length ∧
    (l.foldl Pool.recycle p).stale = p.stale
  | [], p, fl, h, _, _ => ⟨(by simpa using h), (fun e he => by cases he), (fun _ _ => rfl), rfl, rfl⟩
  | e :: l, p, fl, h, hl, hnd => by
    obtain ⟨h2, hnf, hs⟩ := hl e List.mem_cons_self
    obtain ⟨rp, rslot, rother, rlen, rstale, _⟩ := recycle_spec p fl e h h2 hnf hs
    have hnd' : e.id ∉ l.map (·.id) ∧ (l.map (·.id)).Nodup := by
      rw [List.map_cons] at hnd; exact List.nodup_cons.mp hnd
    have hl' : ∀ e' ∈ l, 2 ≤ e'.id ∧ e'.id ∉ e.id :: fl ∧ (p.recycle e).ents[e'.id]? = some e' := by
      intro e' he'
      obtain ⟨a, b, c⟩ := hl e' (List.mem_cons_of_mem _ he')
      have hne : e'.id ≠ e.id := by
        intro heq
        exact hnd'.1 (heq ▸ List.mem_map_of_mem he')
      refine ⟨a, ?_, by rw [rother _ hne]; exact c⟩
      intro hm
      rcases List.mem_cons.mp hm with hm | hm
      · exact hne hm
      · exact b hm
    obtain ⟨i1, i2, i3, i4, i5⟩ := recycleAll_spec l (p.recycle e) (e.id :: fl) rp hl' hnd'.2
    refine ⟨?_, ?_, ?_, ?_, ?_⟩
    · simpa using i1
    · intro e' he'
      rcases List.mem_cons.mp he' with rfl | he'
      · exact ⟨_, by rw [List.foldl_cons, i3 _ hnd'.1]; exact rslot⟩
      · exact i2 e' he'
    · intro i hi
      simp only [List.map_cons, List.mem_cons, not_or] at hi
      rw [List.foldl_cons, i3 i hi.2, rother i hi.1]
    · rw [List.foldl_cons, i4, rlen]
    · rw [List.foldl_cons, i5, rstale]

end Pool

namespace World

/-- the index entry of a removed entity: "no table", the row number is kept -/
def kill (x : Nat × Nat) : Nat × Nat := (maxU32, x.2)

theorem kill_kill (x : Nat × Nat) : kill (kill x) = kill x := rfl

theorem foldl_modify_kill : ∀ (l : List Ent) (E : List (Nat × Nat)) (i : Nat),
    (l.foldl (fun E e => E.modify e.id kill) E)[i]? =
      if i ∈ l.map (·.id) then (E[i]?).map kill else E[i]?
  | [], _, _ => by simp
  | e :: l, E, i => by
    rw [List.foldl_cons, foldl_modify_kill l, List.getElem?_modify]
    by_cases h1 : e.id = i
    · subst h1
      simp only [if_true, List.map_cons, List.mem_cons, true_or]
      split
      · cases E[e.id]? <;> rfl
      · rfl
    · have h1' : ¬ i = e.id := fun hh => h1 hh.symm
      simp only [h1, if_false, List.map_cons, List.mem_cons, h1', false_or]
      cases E[i]? <;> rfl

theorem foldl_modify_kill_length (l : List Ent) (E : List (Nat × Nat)) :
    (l.foldl (fun E e => E.modify e.id kill) E).length = E.length := by
  induction l generalizing E with
  | nil => rfl
  | cons e l ih => rw [List.foldl_cons, ih, List.length_modify]

/-- reset the tables `ts` -/
def resetAll (T : List Table) (ts : List Nat) : List Table :=
  ts.foldl (fun T t => T.set t (T.getD t default).reset) T

theorem resetAll_length (ts : List Nat) (T : List Table) : (resetAll T ts).length = T.length := by
  induction ts generalizing T with
  | nil => rfl
  | cons t ts ih => simp only [resetAll, List.foldl_cons] at ih ⊢; rw [ih, List.length_set]

theorem resetAll_get : ∀ (ts : List Nat) (T : List Table) (t : Nat), ts.Nodup →
    (resetAll T ts)[t]? = if t ∈ ts then (T[t]?).map Table.reset else T[t]?
  | [], _, _, _ => by simp [resetAll]
  | t0 :: ts, T, t, hnd => by
    have hnd' := List.nodup_cons.mp hnd
    show (resetAll (T.set t0 (T.getD t0 default).reset) ts)[t]? = _
    rw [resetAll_get ts _ t hnd'.2]
    by_cases h1 : t0 = t
    · subst h1
      simp only [hnd'.1, if_false, List.mem_cons, true_or, if_true]
      rcases Nat.lt_or_ge t0 T.length with hlt | hge
      · rw [List.getElem?_set_self hlt, List.getD_eq_getElem?_getD, List.getElem?_eq_getElem hlt]
        rfl
      · rw [List.getElem?_eq_none (by rw [List.length_set]; exact hge), List.getElem?_eq_none hge]
        rfl
    · have h1' : ¬ t = t0 := fun hh => h1 hh.symm
      rw [List.getElem?_set_ne h1]
      simp only [List.mem_cons, h1', false_or]

theorem killAll_eq : ∀ (l : List Ent) (w : World),
    l.foldl killStep w =
      { w with entities := l.foldl (fun E e => E.modify e.id kill) w.entities
               pool := l.foldl Pool.recycle w.pool }
  | [], _ => rfl
  | e :: l, w => by rw [List.foldl_cons, killAll_eq l]; rfl

theorem removeTableW_eq (w : World) (t : Nat) :
    removeTableW w t =
      { w with entities := (rowsOf w t).foldl (fun E e => E.modify e.id kill) w.entities
               pool := (rowsOf w t).foldl Pool.recycle w.pool
               tables := w.tables.set t (w.tbl t).reset } := by
  have h1 : (List.range (w.tbl t).len).foldl (fun W i => killStep W ((w.tbl t).getEntity i)) w =
      (rowsOf w t).foldl killStep w := by
    rw [rowsOf, List.foldl_map]
  rw [removeTableW, h1, killAll_eq]
  rfl

theorem flatMap_congr' {α β : Type} {f g : α → List β} : ∀ (l : List α), (∀ a ∈ l, f a = g a) →
    l.flatMap f = l.flatMap g
  | [], _ => rfl
  | a :: l, h => by
    rw [List.flatMap_cons, List.flatMap_cons, h a List.mem_cons_self,
      flatMap_congr' l (fun b hb => h b (List.mem_cons_of_mem _ hb))]

theorem rowsOf_congr {w w' : World} {t : Nat} (h : w'.tbl t = w.tbl t) : rowsOf w' t = rowsOf w t := by
  simp only [rowsOf, h]

/-- **the batch removal in closed form**: the index entries of the entities in the rows of `ts`
    are un-indexed, their handles recycled in table/row order, the tables reset -/
theorem removeTablesW_eq : ∀ (ts : List Nat) (w : World), ts.Nodup →
    removeTablesW w ts =
      { w with entities := (ts.flatMap (rowsOf w)).foldl (fun E e => E.modify e.id kill) w.entities
               pool := (ts.flatMap (rowsOf w)).foldl Pool.recycle w.pool
               tables := resetAll w.tables ts }
  | [], _, _ => rfl
  | t :: ts, w, hnd => by
    have hnd' := List.nodup_cons.mp hnd
    show removeTablesW (removeTableW w t) ts = _
    rw [removeTablesW_eq ts _ hnd'.2, removeTableW_eq]
    have hrows : ts.flatMap (rowsOf { w with
          entities := (rowsOf w t).foldl (fun E e => E.modify e.id kill) w.entities
          pool := (rowsOf w t).foldl Pool.recycle w.pool
          tables := w.tables.set t (w.tbl t).reset }) = ts.flatMap (rowsOf w) := by
      apply flatMap_congr'
      intro t' ht'
      have hne : t ≠ t' := fun hh => hnd'.1 (hh ▸ ht')
      have : ({ w with
          entities := (rowsOf w t).foldl (fun E e => E.modify e.id kill) w.entities
          pool := (rowsOf w t).foldl Pool.recycle w.pool
          tables := w.tables.set t (w.tbl t).reset } : World).tbl t' = w.tbl t' := by
        simp only [tbl, List.getD_eq_getElem?_getD, List.getElem?_set_ne hne]
      exact rowsOf_congr this
    rw [hrows, List.flatMap_cons, List.foldl_append, List.foldl_append]
    rfl

/-! ## 4. what removing a set of entities guarantees -/

/-- the observable outcome of removing the entities `es` (with distinct IDs) from `w` in the
    order of the list; only `pool` and the free list depend on the order -/
structure RemovedAllPost (w : World) (fl : List Nat) (es : List Ent) (w' : World) : Prop where
  /-- the invariant is kept; the IDs are pushed on the free list in order -/
  cinv : CInv w' (es.reverse.map (·.id) ++ fl)
  unlocked : w'.isLocked = w.isLocked
  kinds : w'.kinds = w.kinds
  maxComps : w'.maxComps = w.maxComps
  pool : w'.pool = es.foldl Pool.recycle w.pool
  /-- a handle with the ID of a removed entity is alive iff it carries the next generation -/
  removedAlive : ∀ e ∈ es, ∀ h : Ent, h.id = e.id → w'.alive h = (e.gen + 1 == h.gen)
  aliveFrame : ∀ h : Ent, h.id ∉ es.map (·.id) → w'.alive h = w.alive h
  frame : ∀ j : Nat, j ∉ es.map (·.id) → SameEnt w w' j
  unindexed : ∀ e ∈ es, (∀ c : Comp, valOf w' e.id c = none) ∧ compsOf w' e.id = none
  tablesLen : w'.tables.length = w.tables.length
  entitiesLen : w'.entities.length = w.entities.length
  rowsLive : RowsLive w'

theorem RemovedAllPost.dead {w w' : World} {fl : List Nat} {es : List Ent}
    (p : RemovedAllPost w fl es w') : ∀ e ∈ es, w'.alive e = false := by
  intro e he
  rw [p.removedAlive e he e rfl]
  simp

/-- a set of existing tables, listed without repetition -/
structure TableSet (w : World) (ts : List Nat) : Prop where
  nodup : ts.Nodup
  lt : ∀ t ∈ ts, t < w.tables.length

theorem mem_rows {w : World} {ts : List Nat} {e : Ent} :
    e ∈ ts.flatMap (rowsOf w) ↔ ∃ t r, t ∈ ts ∧ r < (w.tbl t).len ∧ (w.tbl t).getEntity r = e := by
  simp only [List.mem_flatMap, mem_rowsOf]
  constructor
  · rintro ⟨t, ht, r, hr, he⟩; exact ⟨t, r, ht, hr, he⟩
  · rintro ⟨t, r, ht, hr, he⟩; exact ⟨t, ht, r, hr, he⟩

/-- distinct rows hold distinct IDs -/
theorem rows_ids_nodup {w : World} {fl : List Nat} (h : CInv w fl) {ts : List Nat}
    (S : TableSet w ts) : ((ts.flatMap (rowsOf w)).map (·.id)).Nodup := by
  simp only [List.map_flatMap]
  unfold List.Nodup
  rw [List.pairwise_flatMap]
  constructor
  · intro t ht
    have htl := S.lt t ht
    simp only [rowsOf, List.map_map]
    rw [List.pairwise_map]
    refine List.Pairwise.imp_of_mem ?_ (List.nodup_range (n := (w.tbl t).len))
    intro a b ha hb hab heq
    exact hab (h.idx.row_inj (get_of_lt htl) (get_of_lt htl) (List.mem_range.mp ha)
      (List.mem_range.mp hb) heq).2
  · refine List.Pairwise.imp_of_mem ?_ S.nodup
    intro t t' ht ht' hne x hx y hy hxy
    simp only [rowsOf, List.map_map, List.mem_map, List.mem_range, Function.comp] at hx hy
    obtain ⟨r, hr, rfl⟩ := hx
    obtain ⟨r', hr', rfl⟩ := hy
    exact hne (h.idx.row_inj (get_of_lt (S.lt t ht)) (get_of_lt (S.lt t' ht')) hr hr' hxy).1

/-- an indexed ID belongs to the rows of `ts` iff its table is in `ts` -/
theorem mem_rows_ids_iff {w : World} {fl : List Nat} (h : CInv w fl) {ts : List Nat}
    (S : TableSet w ts) {i t r : Nat} (hi : w.entities[i]? = some (t, r)) (ht : t ≠ maxU32) :
    i ∈ (ts.flatMap (rowsOf w)).map (·.id) ↔ t ∈ ts := by
  obtain ⟨hT, hr, hid⟩ := h.idx.indexed hi ht
  constructor
  · intro hm
    obtain ⟨e, he, rfl⟩ := List.mem_map.mp hm
    obtain ⟨t', r', ht', hr', rfl⟩ := mem_rows.mp he
    have := h.idx.rowIdx t' _ r' (get_of_lt (S.lt t' ht')) hr'
    rw [hi] at this
    rw [(Prod.mk.inj (Option.some.inj this)).1]; exact ht'
  · intro hts
    exact List.mem_map.mpr ⟨_, mem_rows.mpr ⟨t, r, hts, hr, rfl⟩, hid⟩

/-- the batch removal world, field by field -/
theorem removeTablesW_fields {w : World} {ts : List Nat} (hnd : ts.Nodup) :
    (∀ i : Nat, (removeTablesW w ts).entities[i]? =
      if i ∈ (ts.flatMap (rowsOf w)).map (·.id) then (w.entities[i]?).map kill else w.entities[i]?) ∧
    (∀ t : Nat, (removeTablesW w ts).tables[t]? =
      if t ∈ ts then (w.tables[t]?).map Table.reset else w.tables[t]?) ∧
    (removeTablesW w ts).pool = (ts.flatMap (rowsOf w)).foldl Pool.recycle w.pool ∧
    (removeTablesW w ts).entities.length = w.entities.length ∧
    (removeTablesW w ts).tables.length = w.tables.length ∧
    (removeTablesW w ts).archetypes = w.archetypes ∧ (removeTablesW w ts).kinds = w.kinds ∧
    (removeTablesW w ts).isTarget = w.isTarget ∧ (removeTablesW w ts).obs = w.obs ∧
    (removeTablesW w ts).locks = w.locks ∧ (removeTablesW w ts).maxComps = w.maxComps ∧
    (removeTablesW w ts).log = w.log := by
  rw [removeTablesW_eq ts w hnd]
  exact ⟨fun i => foldl_modify_kill _ _ i, fun t => resetAll_get ts _ t hnd, rfl,
    foldl_modify_kill_length _ _, resetAll_length _ _, rfl, rfl, rfl, rfl, rfl, rfl, rfl⟩

/-- **the batch removal**: removing the entities in the rows of the tables `ts` by the loop of
    `RemoveEntities` (un-index, recycle, reset the tables) -/
theorem removeTablesW_post {w : World} {fl : List Nat} (h : CInv w fl) (hR : RowsLive w)
    {ts : List Nat} (S : TableSet w ts) :
    RemovedAllPost w fl (ts.flatMap (rowsOf w)) (removeTablesW w ts) := by
  obtain ⟨fE, fT, fP, fEl, fTl, fA, fK, fI, fO, fL, fM, _⟩ := removeTablesW_fields (w := w) S.nodup
  have hids := rows_ids_nodup h S
  -- the removed handles
  have hes : ∀ e ∈ ts.flatMap (rowsOf w), 2 ≤ e.id ∧ e.id ∉ fl ∧ w.pool.ents[e.id]? = some e ∧
      ∃ t r, t ∈ ts ∧ w.entities[e.id]? = some (t, r) := by
    intro e he
    obtain ⟨t, r, ht, hr, rfl⟩ := mem_rows.mp he
    obtain ⟨a1, a2, _, a4, _⟩ := row_handle_live h hR (S.lt t ht) hr
    exact ⟨a1, a2, hR t r (S.lt t ht) hr, t, r, ht, a4⟩
  obtain ⟨p1, p2, p3, p4, p5⟩ := Pool.recycleAll_spec _ w.pool fl h.pool
    (fun e he => ⟨(hes e he).1, (hes e he).2.1, (hes e he).2.2.1⟩) hids
  rw [← fP] at p1 p2 p3 p4 p5
  have hst' : ∀ x ∈ (removeTablesW w ts).pool.stale, x.gen = maxU32 := by rw [p5]; exact h.stale
  have htm : ∀ t : Nat, t < w.tables.length → t ≠ maxU32 := by
    intro t ht; have := h.fewTables; omega
  -- tables
  have hTin : ∀ t ∈ ts, (removeTablesW w ts).tbl t = (w.tbl t).reset := by
    intro t ht
    apply tbl_of_get
    rw [fT, if_pos ht, get_of_lt (S.lt t ht)]; rfl
  have hTout : ∀ t : Nat, t ∉ ts → (removeTablesW w ts).tables[t]? = w.tables[t]? := by
    intro t ht; rw [fT, if_neg ht]
  have hTout' : ∀ t : Nat, t ∉ ts → (removeTablesW w ts).tbl t = w.tbl t := by
    intro t ht; simp only [tbl, List.getD_eq_getElem?_getD, hTout t ht]
  -- entries
  have hEin : ∀ i : Nat, i ∈ (ts.flatMap (rowsOf w)).map (·.id) →
      ∃ r, (removeTablesW w ts).entities[i]? = some (maxU32, r) := by
    intro i hi
    obtain ⟨e, he, rfl⟩ := List.mem_map.mp hi
    obtain ⟨_, _, _, t, r, _, hx⟩ := hes e he
    exact ⟨r, by rw [fE, if_pos hi, hx]; rfl⟩
  have hEout : ∀ i : Nat, i ∉ (ts.flatMap (rowsOf w)).map (·.id) →
      (removeTablesW w ts).entities[i]? = w.entities[i]? := by
    intro i hi; rw [fE, if_neg hi]
  have hidx : IdxInv (removeTablesW w ts) := by
    refine ⟨?_, ?_, ?_, ?_⟩
    · intro t T hT
      by_cases ht : t ∈ ts
      · rw [fT, if_pos ht, get_of_lt (S.lt t ht)] at hT
        cases hT
        exact Table.reset_shape (h.idx.shape t _ (get_of_lt (S.lt t ht)))
      · rw [hTout t ht] at hT; exact h.idx.shape t T hT
    · intro t T hT
      by_cases ht : t ∈ ts
      · rw [fT, if_pos ht, get_of_lt (S.lt t ht)] at hT
        cases hT
        exact h.idx.tid t (w.tbl t) (get_of_lt (S.lt t ht))
      · rw [hTout t ht] at hT; exact h.idx.tid t T hT
    · intro t T r hT hr
      by_cases ht : t ∈ ts
      · rw [fT, if_pos ht, get_of_lt (S.lt t ht)] at hT
        cases hT
        exact absurd hr (Nat.not_lt_zero _)
      · rw [hTout t ht] at hT
        have hx := h.idx.rowIdx t T r hT hr
        have hni : (T.getEntity r).id ∉ (ts.flatMap (rowsOf w)).map (·.id) := by
          intro hm
          exact ht ((mem_rows_ids_iff h S hx (htm t (lt_of_get hT))).mp hm)
        rw [hEout _ hni]; exact hx
    · intro i t r hi ht
      by_cases hm : i ∈ (ts.flatMap (rowsOf w)).map (·.id)
      · obtain ⟨r', hr'⟩ := hEin i hm
        rw [hr'] at hi
        exact absurd (Prod.mk.inj (Option.some.inj hi)).1.symm ht
      · rw [hEout i hm] at hi
        obtain ⟨T, hT, hr, hid⟩ := h.idx.idxRow i t r hi ht
        have hnt : t ∉ ts := fun hh => hm ((mem_rows_ids_iff h S hi ht).mpr hh)
        exact ⟨T, by rw [hTout t hnt]; exact hT, hr, hid⟩
  have hsinv : SInv (removeTablesW w ts) := by
    apply h.sinv.of_sameMeta fA fK fTl
    intro t _
    by_cases ht : t ∈ ts
    · rw [hTin t ht]; exact ⟨rfl, rfl, rfl, rfl, rfl, rfl, rfl, rfl⟩
    · rw [hTout' t ht]; exact Table.SameMeta.refl _
  have hmemfl : ∀ i : Nat, i ∈ (ts.flatMap (rowsOf w)).reverse.map (·.id) ++ fl ↔
      (i ∈ (ts.flatMap (rowsOf w)).map (·.id) ∨ i ∈ fl) := by
    intro i; simp [List.mem_append]
  have hcinv : CInv (removeTablesW w ts) ((ts.flatMap (rowsOf w)).reverse.map (·.id) ++ fl) := by
    refine
      { idx := hidx
        sinv := hsinv
        pool := p1
        stale := hst'
        lenEq := by rw [fEl, p4]; exact h.lenEq
        tgtLen := by rw [fI, fEl]; exact h.tgtLen
        freeUnindexed := ?_
        reservedUnindexed := ?_
        liveIndexed := ?_
        fewTables := by rw [fTl]; exact h.fewTables
        noRelKinds := by rw [fK]; exact h.noRelKinds
        kindsLe := by rw [fK, fM]; exact h.kindsLe
        noTargets := by rw [fI]; exact h.noTargets
        noObs := by rw [fO]; exact h.noObs }
    · intro i hi
      by_cases hm : i ∈ (ts.flatMap (rowsOf w)).map (·.id)
      · exact hEin i hm
      · rw [hEout i hm]
        rcases (hmemfl i).mp hi with h1 | h1
        · exact absurd h1 hm
        · exact h.freeUnindexed i h1
    · intro i hi
      by_cases hm : i ∈ (ts.flatMap (rowsOf w)).map (·.id)
      · exact hEin i hm
      · rw [hEout i hm]; exact h.reservedUnindexed i hi
    · intro i h2 hlt hnf
      have hm : i ∉ (ts.flatMap (rowsOf w)).map (·.id) := fun hh => hnf ((hmemfl i).mpr (Or.inl hh))
      rw [hEout i hm]
      exact h.liveIndexed i h2 (by rw [← fEl]; exact hlt) (fun hh => hnf ((hmemfl i).mpr (Or.inr hh)))
  refine
    { cinv := hcinv
      unlocked := by show (removeTablesW w ts).locks.isLocked = w.locks.isLocked; rw [fL]
      kinds := fK
      maxComps := fM
      pool := fP
      removedAlive := ?_
      aliveFrame := ?_
      frame := ?_
      unindexed := ?_
      tablesLen := fTl
      entitiesLen := fEl
      rowsLive := ?_ }
  · intro e he x hx
    obtain ⟨nx, hnx⟩ := p2 e he
    show (removeTablesW w ts).pool.alive x = _
    have hin : x.id < (removeTablesW w ts).pool.ents.length := by
      rw [hx]; exact (List.getElem?_eq_some_iff.mp hnx).1
    rw [Pool.alive_of_lt x hin, hx, hnx]
  · intro x hx
    exact Pool.alive_congr_slot x p5 p4 (p3 x.id hx)
  · intro j hj
    have he := hEout j hj
    cases hx : w.entities[j]? with
    | none => exact same_of_entry he (fun t r hh => by rw [hx] at hh; cases hh)
    | some p =>
      obtain ⟨t, r⟩ := p
      by_cases ht : t = maxU32
      · exact same_of_entry he (fun t' r' hh => by rw [hx] at hh; cases hh; exact ht)
      · obtain ⟨hT, _, _⟩ := h.idx.indexed hx ht
        have hnt : t ∉ ts := fun hh => hj ((mem_rows_ids_iff h S hx ht).mpr hh)
        exact same_of_rows hx (by rw [he]; exact hx) ht ht hT (by rw [hTout t hnt]; exact hT) rfl
          (fun _ => rfl)
  · intro e he
    obtain ⟨r, hr⟩ := hEin e.id (List.mem_map_of_mem he)
    exact ⟨fun c => by simp only [valOf, hr, if_true], by simp only [compsOf, hr, if_true]⟩
  · intro t r ht hr
    by_cases hts : t ∈ ts
    · rw [hTin t hts] at hr; exact absurd hr (Nat.not_lt_zero _)
    · rw [hTout' t hts] at hr ⊢
      rw [fTl] at ht
      have hx := h.idx.rowIdx t _ r (get_of_lt ht) hr
      have hni : ((w.tbl t).getEntity r).id ∉ (ts.flatMap (rowsOf w)).map (·.id) := by
        intro hm
        exact hts ((mem_rows_ids_iff h S hx (htm t ht)).mp hm)
      rw [p3 _ hni]; exact hR t r ht hr


/-! ## 5. the single removals -/

/-- `RemoveEntity` keeps "rows hold current handles" -/
theorem rowsLive_removeRowOf {w : World} {fl : List Nat} (h : CInv w fl) (hR : RowsLive w) {e : Ent}
    (h2 : 2 ≤ e.id) (hnf : e.id ∉ fl) {t row : Nat} (he : w.entities[e.id]? = some (t, row))
    (ht : t ≠ maxU32) (hs : w.pool.ents[e.id]? = some e) :
    RowsLive (removeRowOf w e t row) := by
  obtain ⟨hT, hrow, hid⟩ := h.idx.indexed he ht
  have hlt := lt_of_get hT
  have hS := h.idx.shape t _ hT
  obtain ⟨_, _, rother, _, _, _⟩ := Pool.recycle_spec w.pool fl e h.pool h2 hnf hs
  have hTab : (removeRowOf w e t row).tables = w.tables.set t ((w.tbl t).remove row).1 := by
    rw [removeRowOf_tables, unplace_tables]
  have hP := removeRowOf_pool w e t row
  -- a handle in another row of `w` keeps its slot
  have hkeep : ∀ t' r' : Nat, t' < w.tables.length → r' < (w.tbl t').len → (t', r') ≠ (t, row) →
      (removeRowOf w e t row).pool.ents[((w.tbl t').getEntity r').id]? =
        some ((w.tbl t').getEntity r') := by
    intro t' r' ht' hr' hne
    rw [hP, rother, hR t' r' ht' hr']
    intro heq
    have := h.idx.row_inj (get_of_lt ht') hT hr' hrow (by rw [heq, hid])
    exact hne (by rw [this.1, this.2])
  intro t' r ht' hr
  rw [hTab, List.length_set] at ht'
  by_cases htt : t' = t
  · subst htt
    have htb : (removeRowOf w e t' row).tbl t' = ((w.tbl t').remove row).1 :=
      tbl_of_get (by rw [hTab]; exact List.getElem?_set_self hlt)
    rw [htb] at hr ⊢
    rw [Table.remove_len] at hr
    rw [Table.remove_getEntity hS row hrow r hr]
    split
    · rename_i hrr
      exact hkeep t' _ ht' (by omega) (by intro hh; have := (Prod.mk.inj hh).2; omega)
    · rename_i hrr
      exact hkeep t' r ht' (by omega) (by intro hh; exact hrr (Prod.mk.inj hh).2)
  · have htb : (removeRowOf w e t row).tbl t' = w.tbl t' := by
      simp only [tbl, hTab, List.getD_eq_getElem?_getD, List.getElem?_set_ne (Ne.symm htt)]
    rw [htb] at hr ⊢
    exact hkeep t' r ht' hr (by intro hh; exact htt (Prod.mk.inj hh).1)

/-- `RemoveEntity` applied to the handles `l`, in order -/
def removeSeq (run : ProbeRunner) (l : List Ent) : W Unit := M.forM' l (opRemoveEntity run)

/-- **the singles**: `RemoveEntity` applied, in any order, to live handles with distinct IDs -/
theorem removeSeq_post (run : ProbeRunner) : ∀ (l : List Ent) {w : World} {fl : List Nat},
    CInv w fl → RowsLive w → w.isLocked = false →
    (∀ e ∈ l, 2 ≤ e.id ∧ e.id ∉ fl ∧ w.alive e = true ∧ e.id < w.pool.ents.length) →
    (l.map (·.id)).Nodup →
    ∃ w'', removeSeq run l w = .ok () w'' ∧ RemovedAllPost w fl l w''
  | [], w, fl, h, hR, _, _, _ =>
    ⟨w, rfl,
      { cinv := by simpa using h
        unlocked := rfl
        kinds := rfl
        maxComps := rfl
        pool := rfl
        removedAlive := by intro e he; cases he
        aliveFrame := fun _ _ => rfl
        frame := fun _ _ => ⟨fun _ => rfl, rfl⟩
        unindexed := by intro e he; cases he
        tablesLen := rfl
        entitiesLen := rfl
        rowsLive := hR }⟩
  | e :: l, w, fl, h, hR, hl, hlive, hnd => by
    obtain ⟨h2, hnf, ha, hin⟩ := hlive e List.mem_cons_self
    have hnd' : e.id ∉ l.map (·.id) ∧ (l.map (·.id)).Nodup := by
      rw [List.map_cons] at hnd; exact List.nodup_cons.mp hnd
    obtain ⟨t, row, hix, rp⟩ := h.removed h2 hnf ha hin
    obtain ⟨t0, r0, he, ht, hs⟩ := h.live_entry h2 hnf ha hin
    have hix' := index_of_get he
    rw [hix] at hix'
    obtain ⟨rfl, rfl⟩ := Prod.mk.inj hix'
    have hstep := opRemoveEntity_eq run w e hl ha hix h.noObs (h.noTargets _)
    have hR1 := rowsLive_removeRowOf h hR h2 hnf he ht hs
    have hne : ∀ e' ∈ l, e'.id ≠ e.id := by
      intro e' he' heq
      exact hnd'.1 (heq ▸ List.mem_map_of_mem he')
    have hplen : (removeRowOf w e t row).pool.ents.length = w.pool.ents.length := by
      rw [rp.pool]; simp only [Pool.recycle, List.length_set]
    have hlive1 : ∀ e' ∈ l, 2 ≤ e'.id ∧ e'.id ∉ e.id :: fl ∧
        (removeRowOf w e t row).alive e' = true ∧
        e'.id < (removeRowOf w e t row).pool.ents.length := by
      intro e' he'
      obtain ⟨a, b, c, d⟩ := hlive e' (List.mem_cons_of_mem _ he')
      refine ⟨a, ?_, by rw [rp.aliveFrame e' (hne e' he')]; exact c, by rw [hplen]; exact d⟩
      intro hm
      rcases List.mem_cons.mp hm with hm | hm
      · exact hne e' he' hm
      · exact b hm
    obtain ⟨w'', hrest, ip⟩ := removeSeq_post run l rp.cinv hR1 (by rw [rp.unlocked]; exact hl)
      hlive1 hnd'.2
    refine ⟨w'', ?_, ?_⟩
    · simp only [removeSeq, M.forM', bind, M.bind, hstep]
      exact hrest
    · have hfl : (e :: l).reverse.map (·.id) ++ fl = l.reverse.map (·.id) ++ e.id :: fl := by simp
      have hpool1 : (removeRowOf w e t row).pool = w.pool.recycle e := rp.pool
      exact
        { cinv := by rw [hfl]; exact ip.cinv
          unlocked := ip.unlocked.trans rp.unlocked
          kinds := ip.kinds.trans rp.kinds
          maxComps := ip.maxComps.trans rp.maxComps
          pool := by rw [ip.pool, hpool1]; rfl
          removedAlive := by
            intro e' he' x hx
            rcases List.mem_cons.mp he' with rfl | he'
            · rw [ip.aliveFrame x (by rw [hx]; exact hnd'.1)]
              obtain ⟨_, rslot, _, _, _, _⟩ := Pool.recycle_spec w.pool fl e' h.pool h2 hnf hs
              show (removeRowOf w e' t row).pool.alive x = _
              rw [Pool.alive_of_lt x (by rw [hx, hplen]; exact hin), hpool1, hx, rslot]
            · exact ip.removedAlive e' he' x hx
          aliveFrame := by
            intro x hx
            simp only [List.map_cons, List.mem_cons, not_or] at hx
            rw [ip.aliveFrame x hx.2, rp.aliveFrame x hx.1]
          frame := by
            intro j hj
            simp only [List.map_cons, List.mem_cons, not_or] at hj
            exact (rp.frame j hj.1).trans (ip.frame j hj.2)
          unindexed := by
            intro e' he'
            rcases List.mem_cons.mp he' with rfl | he'
            · have hs' := ip.frame e'.id hnd'.1
              exact ⟨fun c => by rw [hs'.1 c]; exact rp.unindexed.1 c, by rw [hs'.2]; exact rp.unindexed.2⟩
            · exact ip.unindexed e' he'
          tablesLen := ip.tablesLen.trans rp.tablesLen
          entitiesLen := ip.entitiesLen.trans rp.entitiesLen
          rowsLive := ip.rowsLive }

/-! ## 6. batch = singles -/

/-- two worlds obtained from `w` by removing the same entities (in whatever order, by whatever
    means) are observationally equal: same liveness of every handle, same components and values
    of every ID; the rest of the observable state is that of `w` -/
theorem RemovedAllPost.obs_eq {w w' w'' : World} {fl : List Nat} {es es' : List Ent}
    (p' : RemovedAllPost w fl es w') (p'' : RemovedAllPost w fl es' w'')
    (hmem : ∀ e : Ent, e ∈ es ↔ e ∈ es') :
    (∀ x : Ent, w'.alive x = w''.alive x) ∧ (∀ (i : Nat) (c : Comp), valOf w' i c = valOf w'' i c) ∧
    (∀ i : Nat, compsOf w' i = compsOf w'' i) ∧ w'.isLocked = w''.isLocked ∧ w'.kinds = w''.kinds := by
  have hids : ∀ i : Nat, i ∈ es.map (·.id) ↔ i ∈ es'.map (·.id) := by
    intro i
    simp only [List.mem_map]
    exact ⟨fun ⟨e, he, hi⟩ => ⟨e, (hmem e).mp he, hi⟩, fun ⟨e, he, hi⟩ => ⟨e, (hmem e).mpr he, hi⟩⟩
  refine ⟨?_, ?_, ?_, by rw [p'.unlocked, p''.unlocked], by rw [p'.kinds, p''.kinds]⟩
  · intro x
    by_cases hx : x.id ∈ es.map (·.id)
    · obtain ⟨e, he, hi⟩ := List.mem_map.mp hx
      rw [p'.removedAlive e he x hi.symm, p''.removedAlive e ((hmem e).mp he) x hi.symm]
    · rw [p'.aliveFrame x hx, p''.aliveFrame x (fun hh => hx ((hids _).mpr hh))]
  · intro i c
    by_cases hx : i ∈ es.map (·.id)
    · obtain ⟨e, he, hi⟩ := List.mem_map.mp hx
      rw [← hi, (p'.unindexed e he).1 c, (p''.unindexed e ((hmem e).mp he)).1 c]
    · rw [(p'.frame i hx).1 c, (p''.frame i (fun hh => hx ((hids _).mpr hh))).1 c]
  · intro i
    by_cases hx : i ∈ es.map (·.id)
    · obtain ⟨e, he, hi⟩ := List.mem_map.mp hx
      rw [← hi, (p'.unindexed e he).2, (p''.unindexed e ((hmem e).mp he)).2]
    · rw [(p'.frame i hx).2, (p''.frame i (fun hh => hx ((hids _).mpr hh))).2]

theorem selTables_tableSet {w : World} {fl : List Nat} (h : CInv w fl) (f : Filter) :
    TableSet w (selTables w f) :=
  ⟨selTables_nodup h f, fun t ht => ((mem_selTables h f t).mp ht).1⟩

/-- the table selection of a batch on an uncached filter (relation constraints are irrelevant in
    the fragment: no archetype has a relation column) -/
theorem getBatchTables_frag {w : World} {fl : List Nat} (h : CInv w fl) (fo : FilterObj)
    (extra : List RelID) (hc : fo.cache = none) :
    getBatchTables fo extra w = .ok (selTables w fo.filter) w := by
  rw [getBatchTables_uncached fo extra w hc, getCacheTables_noRel w fo.filter _
    (fun A hA => by
      obtain ⟨a, ha⟩ := List.mem_iff_getElem?.1 hA
      exact h.noRelArch ha)]

/-- **C06, removal (no callback)**: `RemoveEntities(batch, nil)` on an unlocked world of the
    fragment with live rows.  The batch selects exactly `selEnts w fo.filter` — the alive entities
    whose archetype mask matches (`mem_selEnts_iff`) — and both the batch and `RemoveEntity`
    applied to these handles in the batch's order succeed and satisfy `RemovedAllPost`: every
    selected entity is dead and un-indexed, every other entity keeps liveness, components and
    values, the invariant holds with the IDs pushed on the free list in table/row order, and the
    two pools are EQUAL (`pool = selEnts.foldl recycle w.pool`). -/
theorem opRemoveEntities_eq_singles (run : ProbeRunner) {w : World} {fl : List Nat} (h : CInv w fl)
    (hR : RowsLive w) (hl : w.isLocked = false) (fo : FilterObj) (extra : List RelID)
    (hc : fo.cache = none) :
    ∃ w' w'', opRemoveEntities run fo extra false w = .ok () w' ∧
      removeSeq run (selEnts w fo.filter) w = .ok () w'' ∧
      RemovedAllPost w fl (selEnts w fo.filter) w' ∧
      RemovedAllPost w fl (selEnts w fo.filter) w'' ∧ w'.pool = w''.pool := by
  have S := selTables_tableSet h fo.filter
  have hb := opRemoveEntities_eq run fo extra w hl h.noObs h.noTargets (getBatchTables_frag h fo extra hc)
  have pb := removeTablesW_post h hR S
  have hlive : ∀ e ∈ selEnts w fo.filter, 2 ≤ e.id ∧ e.id ∉ fl ∧ w.alive e = true ∧
      e.id < w.pool.ents.length := by
    intro e he
    obtain ⟨a, b, c, d, _⟩ := (mem_selEnts_iff h hR fo.filter e).mp he
    exact ⟨a, b, d, c⟩
  obtain ⟨w'', hs, ps⟩ := removeSeq_post run (selEnts w fo.filter) h hR hl hlive (rows_ids_nodup h S)
  exact ⟨_, w'', hb, hs, pb, ps, by rw [pb.pool, ps.pool]; rfl⟩

/-- **order independence**: removing the selected entities one by one in ANY order gives a world
    with the same liveness, components and values as the batch; only the free-list order (hence
    the identity of handles issued later) differs -/
theorem removeSeq_any_order (run : ProbeRunner) {w : World} {fl : List Nat} (h : CInv w fl)
    (hR : RowsLive w) (hl : w.isLocked = false) (fo : FilterObj) (extra : List RelID)
    (hc : fo.cache = none) {es' : List Ent} (hperm : es'.Perm (selEnts w fo.filter)) :
    ∃ w' w'', opRemoveEntities run fo extra false w = .ok () w' ∧
      removeSeq run es' w = .ok () w'' ∧ RemovedAllPost w fl es' w'' ∧
      (∀ x : Ent, w'.alive x = w''.alive x) ∧
      (∀ (i : Nat) (c : Comp), valOf w' i c = valOf w'' i c) ∧
      (∀ i : Nat, compsOf w' i = compsOf w'' i) ∧ w'.isLocked = w''.isLocked := by
  obtain ⟨w', _, hb, _, pb, _, _⟩ := opRemoveEntities_eq_singles run h hR hl fo extra hc
  have S := selTables_tableSet h fo.filter
  have hlive : ∀ e ∈ es', 2 ≤ e.id ∧ e.id ∉ fl ∧ w.alive e = true ∧ e.id < w.pool.ents.length := by
    intro e he
    obtain ⟨a, b, c, d, _⟩ := (mem_selEnts_iff h hR fo.filter e).mp (hperm.mem_iff.mp he)
    exact ⟨a, b, d, c⟩
  have hnd : (es'.map (·.id)).Nodup := (hperm.map (·.id)).nodup_iff.mpr (rows_ids_nodup h S)
  obtain ⟨w'', hs, ps⟩ := removeSeq_post run es' h hR hl hlive hnd
  obtain ⟨o1, o2, o3, o4, _⟩ := pb.obs_eq ps (fun e => hperm.mem_iff.symm)
  exact ⟨w', w'', hb, hs, ps, o1, o2, o3, o4⟩

/-! ## 7. `RemoveEntities(batch, fn)` with a callback -/

/-- the callback loop of `RemoveEntities`: `fn` on every row of every selected table -/
def fnTablesW (w : World) (ts : List Nat) : World :=
  ts.foldl (fun W t => batchFnW W t 0 (W.tbl t).len []) w

theorem fnEvents_nil (w : World) (t start : Nat) : ∀ n : Nat,
    fnEvents w t start [] n =
      (List.range n).reverse.map fun i => LogEv.fn ((w.tbl t).getEntity (start + i)) w.isLocked []
  | 0 => rfl
  | n + 1 => by
    rw [List.range_succ, List.reverse_append, List.reverse_singleton, List.singleton_append,
      List.map_cons, ← fnEvents_nil w t start n]
    show fnEvent (writeRows w t start n []) t (start + n) [] :: _ = _
    rw [writeRows_nil]
    rfl

/-- with no values to write, the callback loop over a table only records -/
theorem batchFnW_nil (w : World) (t : Nat) :
    batchFnW w t 0 (w.tbl t).len [] =
      { w with log := (rowsOf w t).reverse.map (fun e => LogEv.fn e w.isLocked []) ++ w.log } := by
  have hm : (List.range (w.tbl t).len).reverse.map
      (fun i => LogEv.fn ((w.tbl t).getEntity (0 + i)) w.isLocked []) =
      (rowsOf w t).reverse.map (fun e => LogEv.fn e w.isLocked []) := by
    rw [rowsOf, ← List.map_reverse, List.map_map]
    apply List.map_congr_left
    intro i _
    simp only [Function.comp, Nat.zero_add]
  rw [batchFnW_closed, writeRows_nil, fnEvents_nil, hm]

theorem fnTablesW_eq : ∀ (ts : List Nat) (w : World),
    fnTablesW w ts =
      { w with log := (ts.flatMap (rowsOf w)).reverse.map (fun e => LogEv.fn e w.isLocked []) ++ w.log }
  | [], _ => rfl
  | t :: ts, w => by
    show fnTablesW (batchFnW w t 0 (w.tbl t).len []) ts = _
    rw [batchFnW_nil, fnTablesW_eq ts]
    have hrows : ts.flatMap (rowsOf { w with
        log := (rowsOf w t).reverse.map (fun e => LogEv.fn e w.isLocked []) ++ w.log }) =
        ts.flatMap (rowsOf w) := flatMap_congr' ts (fun _ _ => rfl)
    rw [hrows, List.flatMap_cons, List.reverse_append, List.map_append, List.append_assoc]
    rfl

/-- the removal loop does not look at the lock or the log -/
theorem removeTablesW_with (w : World) (l : Lock) (lg : List LogEv) (ts : List Nat) (hnd : ts.Nodup) :
    removeTablesW { w with locks := l, log := lg } ts =
      { removeTablesW w ts with locks := l, log := lg } := by
  rw [removeTablesW_eq ts _ hnd, removeTablesW_eq ts w hnd]
  have hrows : ts.flatMap (rowsOf { w with locks := l, log := lg }) = ts.flatMap (rowsOf w) :=
    flatMap_congr' ts (fun _ _ => rfl)
  rw [hrows]

/-- without observers and relation targets, `RemoveEntities(batch, fn)` is: `Lock`, the callback
    on every row of every selected table, the removal loop, `Unlock` -/
theorem opRemoveEntities_fn_eq (run : ProbeRunner) (fo : FilterObj) (extra : List RelID) (w : World)
    (hl : w.isLocked = false) (hno : ∀ evt : Nat, w.obs.hasObservers evt = false)
    (hT : NoTargets w) {l' l'' : Lock} {b : Nat} (hlk : w.locks.lock = some (l', b))
    (hul : l'.unlock b = some l'') {ts : List Nat}
    (hts : getBatchTables fo extra { w with locks := l' } = .ok ts { w with locks := l' }) :
    opRemoveEntities run fo extra true w =
      .ok () { removeTablesW (fnTablesW { w with locks := l' } ts) ts with locks := l'' } := by
  have hfn : ∀ (l : List Nat) (X : World),
      (forIn l PUnit.unit (fun t (_ : PUnit) => (do
        let n := (← (M.get : W World)).tbl t |>.len
        batchFn t 0 n []
        pure (ForInStep.yield PUnit.unit) : W (ForInStep PUnit))) : W PUnit) X =
      Res.ok PUnit.unit (fnTablesW X l) := by
    intro l X
    exact forIn_fold (fun X t => batchFnW X t 0 (X.tbl t).len []) _
      (fun t X => by simp only [M.bind_apply, M.get_apply, batchFn_eq, M.pure_apply]) l X
  have hTf : ∀ (l : List Nat) (X : World), NoTargets X → NoTargets (fnTablesW X l) := by
    intro l X h
    have : (fnTablesW X l).isTarget = X.isTarget := by rw [fnTablesW_eq]
    intro i; rw [this]; exact h i
  have hlocks : ∀ (l : List Nat) (X : World), (removeTablesW X l).locks = X.locks := by
    intro l
    induction l with
    | nil => intro X; rfl
    | cons t l ih =>
      intro X
      show (removeTablesW (removeTableW X t) l).locks = _
      rw [ih, removeTableW_eq]
  have hul' : (removeTablesW (fnTablesW { w with locks := l' } ts) ts).locks.unlock b = some l'' := by
    rw [hlocks, fnTablesW_eq]; exact hul
  unfold opRemoveEntities
  simp only [M.bind_apply, checkLocked_unlocked w hl, M.get_apply, hno, Bool.or_self,
    Bool.false_eq_true, if_false, Bool.false_or, if_true, lock_ok hlk, hts, hfn]
  rw [forIn_fold_inv NoTargets removeTableW _ [] ?_ ?_ ts _ (hTf ts { w with locks := l' } hT)]
  · simp only [List.forIn_nil, M.pure_apply]
    exact unlock_ok hul'
  · intro t W hW
    simp only [M.bind_apply, M.get_apply]
    rw [forIn_fold_inv NoTargets (fun W' i => killStep W' ((W.tbl t).getEntity i)) _ [] ?_ ?_ _ W hW]
    · rfl
    · intro i W' hW'
      simp only [M.bind_apply, M.get_apply, hW' _, Bool.false_eq_true, if_false]
      rfl
    · intro i W' hW'; exact hW'
  · intro t W hW
    have : ∀ (l : List Nat) (W' : World), NoTargets W' →
        NoTargets (l.foldl (fun W' i => killStep W' ((W.tbl t).getEntity i)) W') := by
      intro l
      induction l with
      | nil => intro W' h; exact h
      | cons x l ih => intro W' h; exact ih _ h
    exact this _ W hW

/-- **C06, removal with callback**: `RemoveEntities(batch, fn)` leaves the world
    `RemoveEntities(batch, nil)` leaves, except that `log` records one callback invocation per
    selected entity — in the batch's order, on a locked world, all of them BEFORE the first
    removal — and the lock's free list went through one `Lock`/`Unlock` cycle. -/
theorem opRemoveEntitiesFn_eq (run : ProbeRunner) {w : World} {fl : List Nat} (h : CInv w fl)
    (hl : w.isLocked = false) (hL : LockFree w.locks) (fo : FilterObj) (extra : List RelID)
    (hc : fo.cache = none) :
    ∃ (w' : World) (L' : Lock),
      opRemoveEntities run fo extra false w = .ok () w' ∧
      opRemoveEntities run fo extra true w = .ok ()
        { w' with locks := L'
                  log := (selEnts w fo.filter).reverse.map (fun e => LogEv.fn e true []) ++ w'.log } ∧
      w'.log = w.log ∧ w'.locks = w.locks ∧ LockFree L' ∧ L'.isLocked = false := by
  have S := selTables_tableSet h fo.filter
  have hb := opRemoveEntities_eq run fo extra w hl h.noObs h.noTargets
    (getBatchTables_frag h fo extra hc)
  obtain ⟨l', b, l'', k1, k2, k3, k4, k5⟩ := hL.cycle
  have hts : getBatchTables fo extra { w with locks := l' } =
      .ok (selTables w fo.filter) { w with locks := l' } := by
    rw [getBatchTables_uncached fo extra _ hc, getCacheTables_noRel _ fo.filter _
      (fun A hA => by
        obtain ⟨a, ha⟩ := List.mem_iff_getElem?.1 hA
        exact h.noRelArch ha)]
    rfl
  have hfn := opRemoveEntities_fn_eq run fo extra w hl h.noObs h.noTargets k1 k3 hts
  obtain ⟨_, _, _, _, _, _, _, _, _, fL, _, fLog⟩ :=
    removeTablesW_fields (w := w) S.nodup
  refine ⟨removeTablesW w (selTables w fo.filter), l'', hb, ?_, fLog, fL, k5, k4⟩
  rw [hfn, fnTablesW_eq]
  have hrows : (selTables w fo.filter).flatMap (rowsOf { w with locks := l' }) =
      selEnts w fo.filter := flatMap_congr' _ (fun _ _ => rfl)
  have hlk : ({ w with locks := l' } : World).isLocked = true := k2
  rw [hrows, hlk]
  have e1 : ({ ({ w with locks := l' } : World) with
      log := (selEnts w fo.filter).reverse.map (fun e => LogEv.fn e true []) ++
        ({ w with locks := l' } : World).log } : World) =
      { w with locks := l'
               log := (selEnts w fo.filter).reverse.map (fun e => LogEv.fn e true []) ++ w.log } := rfl
  rw [e1, removeTablesW_with _ _ _ _ S.nodup, fLog]

end World
end Ark

namespace Ark
open World
namespace World

/-! ## 8. a decidable form of `RowsLive` (for concrete worlds) -/

/-- `RowsLive` as a Boolean check -/
def rowsLiveB (w : World) : Bool :=
  (List.range w.tables.length).all fun t =>
    (List.range (w.tbl t).len).all fun r =>
      w.pool.ents[((w.tbl t).getEntity r).id]? == some ((w.tbl t).getEntity r)

theorem rowsLiveB_sound {w : World} (h : rowsLiveB w = true) : RowsLive w := by
  intro t r ht hr
  simp only [rowsLiveB, List.all_eq_true, List.mem_range, beq_iff_eq] at h
  exact h t ht r hr

theorem rowsLive_init (cap rel : Nat) : RowsLive (World.init cap rel) := by
  intro t r ht hr
  have hl : (World.init cap rel).tables.length = 1 := rfl
  have : t = 0 := by omega
  subst this
  exact absurd hr (Nat.not_lt_zero _)


/-! ## 9. `RowsLive` is kept by creation -/

theorem rowsLive_placedW {w : World} {fl : List Nat} (h : CInv w fl) (hR : RowsLive w) {t : Nat}
    (hlt : t < w.tables.length) (rt : Bool) (hb : (w.tbl t).len + 1 < 2 ^ 32) :
    RowsLive (placedW w t rt) := by
  have pp := h.placed hlt rt hb
  have g := Pool.get_spec w.pool fl h.pool
  have hS := h.idx.shape t _ (get_of_lt hlt)
  have hold : ∀ t' r : Nat, t' < w.tables.length → r < (w.tbl t').len →
      (placedW w t rt).pool.ents[((w.tbl t').getEntity r).id]? = some ((w.tbl t').getEntity r) := by
    intro t' r ht' hr
    obtain ⟨_, hnf, hlt', _⟩ := h.row_live_id ht' hr
    have hne : ((w.tbl t').getEntity r).id ≠ (w.pool.get).2.id := by
      intro heq
      rcases pp.unused with ⟨a, _, _⟩ | ⟨_, b⟩
      · omega
      · exact hnf (by rw [heq, b]; exact List.mem_cons_self)
    rw [placedW_pool, g.other _ hne]
    exact hR t' r ht' hr
  intro t' r ht' hr
  rw [placedW_tables_len] at ht'
  by_cases htt : t' = t
  · subst htt
    rw [placedW_tbl_self hlt] at hr ⊢
    rw [Table.add_fst_len] at hr
    rcases Nat.lt_or_ge r (w.tbl t').len with h1 | h1
    · rw [Table.add_getEntity_lt _ _ _ h1]; exact hold t' r hlt h1
    · have : r = (w.tbl t').len := by omega
      subst this
      have hnew := Table.add_getEntity_new hS (w.pool.get).2 (by omega)
      rw [Table.add_snd] at hnew
      rw [hnew, placedW_pool]; exact g.slot
  · rw [placedW_tbl_ne w (Ne.symm htt)] at hr ⊢
    exact hold t' r ht' hr

theorem writeFold_ents_len (row : Nat) : ∀ (vals : List (Comp × Val)) (T : Table),
    (vals.foldl (fun T (cv : Comp × Val) => T.setComp cv.1 row cv.2) T).ents = T.ents ∧
    (vals.foldl (fun T (cv : Comp × Val) => T.setComp cv.1 row cv.2) T).len = T.len
  | [], _ => ⟨rfl, rfl⟩
  | cv :: vals, T => by
    simp only [List.foldl_cons]
    obtain ⟨a, b⟩ := writeFold_ents_len row vals (T.setComp cv.1 row cv.2)
    have hs : (T.setComp cv.1 row cv.2).ents = T.ents ∧ (T.setComp cv.1 row cv.2).len = T.len := by
      simp only [Table.setComp]
      split
      · simp only [Table.setCell]; split <;> exact ⟨rfl, rfl⟩
      · exact ⟨rfl, rfl⟩
    exact ⟨a.trans hs.1, b.trans hs.2⟩

theorem rowsLive_writeValsW {w : World} (hR : RowsLive w) (e : Ent) (vals : List (Comp × Val)) :
    RowsLive (writeValsW w e vals) := by
  intro t r ht hr
  have htl : (writeValsW w e vals).tables.length = w.tables.length := by
    show (w.tables.set _ _).length = _
    rw [List.length_set]
  rw [htl] at ht
  have hpool : (writeValsW w e vals).pool = w.pool := rfl
  rw [hpool]
  by_cases htt : (w.index e.id).1 = t
  · have htb : (writeValsW w e vals).tbl t =
        vals.foldl (fun T (cv : Comp × Val) => T.setComp cv.1 (w.index e.id).2 cv.2) (w.tbl t) := by
      subst htt; exact modTbl_tbl_self _ ht
    have hents : ((writeValsW w e vals).tbl t).ents = (w.tbl t).ents ∧
        ((writeValsW w e vals).tbl t).len = (w.tbl t).len := by
      rw [htb]; exact writeFold_ents_len _ vals _
    rw [hents.2] at hr
    simp only [Table.getEntity, hents.1]
    exact hR t r ht hr
  · have htb : (writeValsW w e vals).tbl t = w.tbl t := modTbl_tbl_ne w _ htt
    rw [htb] at hr ⊢
    exact hR t r ht hr

/-- the table lookup of `newEntity` keeps "rows hold current handles" -/
theorem rowsLive_ext {w w1 : World} {fl : List Nat} (h : CInv w fl) (h1 : CInv w1 fl)
    (hR : RowsLive w) (hsame : ∀ t : Nat, t < w.tables.length → w1.tbl t = w.tbl t)
    (he : w1.entities = w.entities) (hp : w1.pool = w.pool) : RowsLive w1 := by
  intro t r ht hr
  have hex : t < w.tables.length := by
    rcases Nat.lt_or_ge t w.tables.length with h2 | h2
    · exact h2
    · exfalso
      have hx := h1.idx.rowIdx t _ r (get_of_lt ht) hr
      rw [he] at hx
      have htm : t ≠ maxU32 := by have := h1.fewTables; omega
      obtain ⟨T, hT, _⟩ := h.idx.idxRow _ t r hx htm
      exact absurd (lt_of_get hT) (by omega)
  rw [hsame t hex] at hr ⊢
  rw [hp]; exact hR t r hex hr

/-- `n` single creations keep "rows hold current handles" -/
theorem rowsLive_newN {ids : List Comp} {t a : Nat} (vals : List (Comp × Val)) :
    ∀ (n : Nat) {w : World} {fl : List Nat}, CInv w fl → RowsLive w → BatchTarget w ids t a →
    (w.tbl t).len + n < 2 ^ 32 → RowsLive (newN w t vals n)
  | 0, _, _, _, hR, _, _ => hR
  | n + 1, w, fl, h, hR, bt, hb => by
    obtain ⟨h2, _, h4, h5⟩ := newStep_facts h bt vals (by omega)
    exact rowsLive_newN vals n h2
      (rowsLive_writeValsW (rowsLive_placedW h hR bt.tlt false (by omega)) _ _) h4
      (by rw [h5]; omega)

theorem rowsLive_withLocks {w : World} (hR : RowsLive w) (l : Lock) (lg : List LogEv) :
    RowsLive { w with locks := l, log := lg } := hR

/-- the world `count` single creations leave has live rows (and so has the world the batch
    leaves: it is that world, up to `locks` and `log`) -/
theorem newEntitiesSeq_rowsLive (run : ProbeRunner) (p : Path) {w : World} {fl : List Nat}
    (h : CInv w fl) (hR : RowsLive w) (hl : w.isLocked = false) {ids : List Comp} (hnd : ids.Nodup)
    (hreg : ∀ (c : Comp), c ∈ ids → c < w.kinds.length) (vals : List (Comp × Val)) {count : Nat}
    (hpos : 0 < count) (hfew : w.tables.length < maxU32)
    (hrows : ∀ t : Nat, (w.tbl t).len + count < 2 ^ 32) :
    ∃ (es : List Ent) (w'' : World),
      newEntitiesSeq run p ids vals count w = .ok es w'' ∧ RowsLive w'' := by
  obtain ⟨t, a, w1, hfoc, h1, hl1, bt, hsame, hnew, hp, he, _⟩ := cinv_afterLookup h hnd hreg hfew
  rw [hl] at hl1
  have hb : (w1.tbl t).len + count < 2 ^ 32 := by
    rcases Nat.lt_or_ge t w.tables.length with hh | hh
    · rw [hsame t hh]; exact hrows t
    · rw [hnew hh]; have := hrows 0; omega
  have hR1 := rowsLive_ext h h1 hR hsame he hp
  obtain ⟨s1, _, _⟩ := newEntitiesSeq_eq run p hnd vals count h1 hl1 bt hb
  have hseq : newEntitiesSeq run p ids vals count w = newEntitiesSeq run p ids vals count w1 := by
    obtain ⟨n, rfl⟩ : ∃ n, count = n + 1 := ⟨count - 1, by omega⟩
    have e1 := opNewEntity_eq run p ids vals w hl hfoc h1.noObs
    have e2 := (opNewEntity_found run p h1 hl1 hnd bt vals (by omega)).1
    simp only [newEntitiesSeq, bind, M.bind, e1, e2]
  exact ⟨_, _, hseq.trans s1, rowsLive_newN vals count h1 hR1 bt hb⟩

end World
end Ark
