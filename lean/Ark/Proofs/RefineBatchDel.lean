/-
  Ark.Proofs.RefineBatchDel — the batch removal `World.RemoveEntities(batch, nil)` as a step of the
  refinement machine (`RefineB.OpB.delb`).

  * `selEnts_iff_matching` — at a state satisfying the invariant, the entities the MODEL's batch
    selects (`selEnts`: table by table, row by row) are exactly the entities the SPECIFICATION
    selects (`matching`: the entries whose key set the filter matches).
  * `step_delb` — the step: the model operation succeeds; the specification loses exactly the
    matching entries (= the fold of the single `RemoveEntity` steps over them); the invariant
    `HInvB` is kept, with the removed IDs pushed on the free list in the batch's order; no table and
    no index slot is created; the lock is untouched.

  Kernel-only proofs, core Lean only.
-/
import Ark.Proofs.RefineBatch

set_option autoImplicit false

namespace Ark

open World Ark.Props.C01World

namespace RefineB

open Refine

/-- **model selection = specification selection** -/
theorem selEnts_iff_matching {s : St} {fl : List Nat} (H : HInvB s fl) (f : Filter) (e : Ent) :
    e ∈ selEnts s.w f ↔ e ∈ matching s.ss f := by
  have hC := H.hinv.cinv
  rw [mem_selEnts_iff hC H.rowsLive f e, mem_matching]
  constructor
  · rintro ⟨h2, hnf, hin, ha, hm⟩
    have hsl : s.w.pool.ents[e.id]? = some e := (hC.aliveIff e hnf hin).mp ha
    have hl : e ∈ s.ps.live := (H.hinv.ginv.live_iff e).mpr ⟨h2, hnf, hsl⟩
    obtain ⟨x, hx, rfl⟩ := List.mem_map.mp hl
    refine ⟨x.2, hx, ?_⟩
    rw [← H.hinv.maskOf_eq (show (x.1, x.2) ∈ s.ss.ents from hx)]
    exact hm
  · rintro ⟨cs, hx, hm⟩
    obtain ⟨_, ha, h2, hnf, _, hsl⟩ := H.hinv.live_facts hx
    refine ⟨h2, hnf, (List.getElem?_eq_some_iff.mp hsl).1, ha, ?_⟩
    rw [H.hinv.maskOf_eq hx]
    exact hm

/-- an entry of the specification that the filter does not match is not selected by the model -/
theorem not_sel_of_not_match {s : St} {fl : List Nat} (H : HInvB s fl) (f : Filter) {x : Ent}
    {cs : Comps} (hx : (x, cs) ∈ s.ss.ents) (hm : f.matchesMask (Mask.ofList (keys cs)) = false) :
    x.id ∉ (selEnts s.w f).map (·.id) := by
  intro hmem
  obtain ⟨e, he, hid⟩ := List.mem_map.mp hmem
  obtain ⟨cs', hx', hm'⟩ := mem_matching.mp ((selEnts_iff_matching H f e).mp he)
  have heq : e = x := H.hinv.id_inj hx' hx hid
  subst heq
  have h1 := find_of_mem H.hinv.ginv.live_nodup hx
  have h2 := find_of_mem H.hinv.ginv.live_nodup hx'
  rw [h1] at h2
  rw [← Option.some.inj h2, hm] at hm'
  cases hm'

/-- the selected handles are pairwise different -/
theorem selEnts_nodup {s : St} {fl : List Nat} (H : HInvB s fl) (f : Filter) :
    (selEnts s.w f).Nodup :=
  nodup_of_map (·.id) (selEnts_ids_nodup H.hinv.cinv f)

/-- **the batch removal as a step of the machine.** -/
theorem step_delb (run : ProbeRunner) {s : St} {fl : List Nat} (H : HInvB s fl) (f : Filter) :
    ∃ w' : World,
      opRemoveEntities run (foOf f) [] false s.w = .ok () w' ∧
      stepB run s (.delb f) = ⟨w', s.issued, specStepB s.ss [] (.delb f)⟩ ∧
      RemovedAllPost s.w fl (selEnts s.w f) w' ∧ w'.locks = s.w.locks ∧
      HInvB (stepB run s (.delb f)) ((selEnts s.w f).reverse.map (·.id) ++ fl) := by
  have hC := H.hinv.cinv
  have hR := H.rowsLive
  have hl := H.hinv.unlocked
  have S := selTables_tableSet hC f
  have hb : opRemoveEntities run (foOf f) [] false s.w = .ok () (removeTablesW s.w (selTables s.w f)) :=
    opRemoveEntities_eq run (foOf f) [] s.w hl hC.noObs hC.noTargets
      (getBatchTables_frag hC (foOf f) [] rfl)
  have pb : RemovedAllPost s.w fl (selEnts s.w f) (removeTablesW s.w (selTables s.w f)) :=
    removeTablesW_post hC hR S
  obtain ⟨_, _, _, _, _, _, _, _, _, fL, _, _⟩ := removeTablesW_fields (w := s.w) S.nodup
  have hstep : stepB run s (.delb f) =
      ⟨removeTablesW s.w (selTables s.w f), s.issued, specStepB s.ss [] (.delb f)⟩ := by
    show stepBatch run s (.delb f) = _
    have hg : guardB s (.delb f) = true := rfl
    simp only [stepBatch, hg, if_true, execB, hb, Res.state, retB, List.reverse_nil, List.nil_append]
  refine ⟨_, hb, hstep, pb, fL, ?_⟩
  rw [hstep]
  have hnd := H.hinv.ginv.live_nodup
  have hents := specStepB_delb_ents s.ss [] f hnd
  have hzst : (specStepB s.ss [] (.delb f)).zst = s.ss.zst := specDelAll_zst _ _
  -- the entries that stay
  have hstay : ∀ (x : Ent) (cs : Comps), (x, cs) ∈ (specStepB s.ss [] (.delb f)).ents →
      (x, cs) ∈ s.ss.ents ∧ f.matchesMask (Mask.ofList (keys cs)) = false := by
    intro x cs hx
    rw [hents, List.mem_filter] at hx
    exact ⟨hx.1, by simpa using hx.2⟩
  refine ⟨?_, ?_⟩
  · exact
      { cinv := pb.cinv
        ginv := by
          have hlive : ∀ e ∈ selEnts s.w f, e ∈ s.ps.live := by
            intro e he
            obtain ⟨cs, hx, _⟩ := mem_matching.mp ((selEnts_iff_matching H f e).mp he)
            exact List.mem_map.mpr ⟨(e, cs), hx, rfl⟩
          obtain ⟨fl1, g1⟩ := ginv_recycleAll (selEnts s.w f) s.ps fl H.hinv.ginv hlive
            (selEnts_nodup H f)
          have g2 : Pool.GInv ⟨(removeTablesW s.w (selTables s.w f)).pool, s.issued,
              (specStepB s.ss [] (.delb f)).ents.map (·.1)⟩ fl1 := by
            rw [pb.pool]
            refine ginv_of_mem g1 ?_ ?_
            · rw [hents]
              exact (List.Sublist.map _ List.filter_sublist).nodup hnd
            · intro x
              rw [mem_foldl_erase _ _ hnd]
              constructor
              · intro hx
                obtain ⟨y, hy, rfl⟩ := List.mem_map.mp hx
                obtain ⟨hy1, hy2⟩ := hstay y.1 y.2 hy
                refine ⟨List.mem_map.mpr ⟨y, hy1, rfl⟩, fun hsel => ?_⟩
                exact not_sel_of_not_match H f hy1 hy2 (List.mem_map_of_mem hsel)
              · rintro ⟨hx, hns⟩
                obtain ⟨y, hy, rfl⟩ := List.mem_map.mp hx
                refine List.mem_map.mpr ⟨y, ?_, rfl⟩
                rw [hents, List.mem_filter]
                refine ⟨hy, ?_⟩
                cases hm : f.matchesMask (Mask.ofList (keys y.2)) with
                | false => rfl
                | true =>
                  exact absurd ((selEnts_iff_matching H f y.1).mpr
                    (mem_matching.mpr ⟨y.2, hy, hm⟩)) hns
          have hfl : fl1 = (selEnts s.w f).reverse.map (·.id) ++ fl := g2.pinv.unique pb.cinv.pool
          rw [← hfl]
          exact g2
        unlocked := pb.unlocked.trans hl
        nodup := H.hinv.nodup
        zstEq := by
          show (specStepB s.ss [] (.delb f)).zst = _
          rw [hzst, pb.kinds]; exact H.hinv.zstEq
        maxc := pb.maxComps.trans H.hinv.maxc
        ok := by
          intro x cs hx
          show EntOK (removeTablesW s.w (selTables s.w f)) (removeTablesW s.w (selTables s.w f)).kinds.length x cs
          rw [pb.kinds]
          obtain ⟨hx1, hx2⟩ := hstay x cs hx
          exact (H.hinv.ok x cs hx1).frame (pb.frame x.id (not_sel_of_not_match H f hx1 hx2)) }
  · exact ⟨rowsAlive_of_rowsLive pb.cinv pb.rowsLive, by
      show LockFree (removeTablesW s.w (selTables s.w f)).locks
      rw [fL]; exact H.yinv.lock⟩

end RefineB

end Ark
