/-
  Ark.Proofs.RelExchangeBatchSpec — the exchange batch over relation tables (C06 + C04), part 4:
  `exchangeBatch` with relations against `Exchange` applied to every selected entity.

  * `XchgAllPost w fl es add rem rels w'` — what `Exchange(add, rem, rels)` on the entities `es`
    guarantees: `TInv` kept; every entity of `es` has the components `(current \ rem) ∪ add`, keeps
    the values of the components that stay, reads zero in the added ones, and has exactly the
    relation targets: its old ones on the components that stay, the given ones; nobody else changes;
  * `exchangeBatch_rel_spec` — the batch (callback `nil`, no observers, uncached filter with typed
    relation constraints) never fails for a valid call and satisfies it for the entities in the rows
    of the selected tables;
  * `xchgSeq_post` — so does `Exchange` applied to these entities one by one, in any order;
  * `XchgAllPost.obs_eq`, `exchangeBatch_rel_eq_singles` — batch = singles (observationally: same
    liveness, components, values and relation targets for every ID).
  Kernel-only proofs, core Lean only.
-/
import Ark.Proofs.RelExchangeBatchLoops

set_option autoImplicit false

namespace Ark

open World Ark.Props.C01World QueryRel

/-! ## 1. the postcondition -/

/-- the observable outcome of `Exchange(add, rem, rels)` (no values written) on the entities `es` -/
structure XchgAllPost (w : World) (fl : List Nat) (es : List Ent) (add rem : List Comp)
    (rels : List RelID) (w' : World) : Prop where
  tinv : TInv w' fl
  aliveSame : ∀ (x : Ent), w'.alive x = w.alive x
  /-- `(current \ rem) ∪ add`, ascending -/
  comps : ∀ (e : Ent), e ∈ es → ∀ (cs : List Comp), compsOf w e.id = some cs →
    compsOf w' e.id =
      some (Refine.sortedIds w.kinds.length ((cs.filter fun c => decide (c ∉ rem)) ++ add))
  /-- the components that stay keep their values -/
  kept : ∀ (e : Ent), e ∈ es → ∀ (c : Comp) (v : Val), valOf w e.id c = some v → c ∉ rem →
    valOf w' e.id c = some v
  /-- the added components read zero -/
  added : ∀ (e : Ent), e ∈ es → ∀ (c : Comp), c ∈ add → valOf w' e.id c = some 0
  /-- **the relation targets afterwards**: the old ones on the components that stay, and the given
      ones — no other -/
  targetIff : ∀ (e : Ent), e ∈ es → ∀ (c : Comp) (x : Ent), targetOf w' e.id c = some x ↔
    ((c ∉ rem ∧ targetOf w e.id c = some x) ∨ (⟨c, x⟩ : RelID) ∈ rels)
  /-- nobody else changes -/
  frame : ∀ (j : Nat), j ∉ es.map (·.id) →
    SameEnt w w' j ∧ ∀ (c : Comp), targetOf w' j c = targetOf w j c
  obs : w'.obs = w.obs
  unlocked : w'.isLocked = w.isLocked
  kinds : w'.kinds = w.kinds
  entitiesLen : w'.entities.length = w.entities.length

/-- the columns of a table are the components of its archetype's mask -/
theorem tbl_ids_iff_tmask {w : World} (hS : SInvMid w) {t : Nat} (ht : t < w.tables.length)
    (c : Comp) : c ∈ (w.tbl t).ids ↔ (tmask w t).get c = true := by
  obtain ⟨A, hA, i1, _⟩ := hS.tblArch t _ (get_of_lt ht)
  rw [i1, tmask, arch_of_get hA]
  exact hS.mem_comps hA c

/-- a value is read only from a column -/
theorem mem_ids_of_valOf {w : World} {i t r : Nat} (hi : w.entities[i]? = some (t, r))
    (ht : t ≠ maxU32) (hT : w.tables[t]? = some (w.tbl t)) {c : Comp} {v : Val}
    (hv : valOf w i c = some v) : c ∈ (w.tbl t).ids := by
  simp only [valOf, hi, ht, if_false, hT, Option.bind_some, Table.getComp] at hv
  cases hci : (w.tbl t).colIdx c with
  | none => rw [hci] at hv; cases hv
  | some k => exact colIdx_some_iff_mem.1 ⟨k, hci⟩

/-! ## 2. the batch -/

/-- **C06 + C04, the exchange batch over relation tables** (`exchangeBatch` with callback `nil`):
    on an unlocked world without observers satisfying `TInv`, for an uncached filter with typed
    relation constraints, not both component lists empty, and the preconditions of `Exchange`
    (`XchgPreM`) on the mask of every non-empty table the filter selects: the batch never fails;
    `TInv` is kept; every entity in the rows of the selected tables gets `Exchange(add, rem, rels)`;
    nobody else changes. -/
theorem exchangeBatch_rel_spec (run : ProbeRunner) {w : World} {fl : List Nat} (h : TInv w fl)
    (hl : w.isLocked = false) (hno : ∀ (evt : Nat), w.obs.hasObservers evt = false)
    (fo : FilterObj) (extra : List RelID) (hc : fo.cache = none)
    (hr : RelsTyped w fo.filter (fo.rels ++ extra)) {add rem : List Comp} {rels : List RelID}
    (hne : ¬ (add = [] ∧ rem = []))
    (hpre : ∀ (t : Nat), t < w.tables.length → TblMatch w fo.filter (fo.rels ++ extra) t →
      (w.tbl t).len ≠ 0 → XchgPreM w (tmask w t) add rem rels)
    (htin : ∀ (r : RelID), r ∈ rels → r.target.id < w.pool.ents.length)
    {l1 l2 : Lock} {b : Nat} (hcyc : QueryExact.LockCycle w.locks l1 b l2) (hl2 : l2.isLocked = false)
    (hfew : 2 * w.tables.length < maxU32) (hrows : 2 * w.entities.length < 2 ^ 32) :
    ∃ (ts : List Nat) (w' : World), getBatchTables fo extra w = .ok ts w ∧
      exchangeBatch run fo extra add rem rels none w = .ok () w' ∧
      XchgAllPost w fl (ts.flatMap (rowsOf w)) add rem rels w' ∧ w'.locks = l2 := by
  -- the locked world
  have h0 : TInv ({ w with locks := l1 } : World) fl := h.withLocks l1
  obtain ⟨ts, hts0, S0, hok0, hnf0⟩ := getBatchTables_rel h0 fo extra hc hr
  have hsame : getBatchTables fo extra w = .ok ts w := by
    have e1 := getBatchTables_uncached fo extra w hc
    have e0 := getBatchTables_uncached fo extra ({ w with locks := l1 } : World) hc
    rw [e0] at hts0
    have hg : ({ w with locks := l1 } : World).getCacheTables fo.filter (fo.rels ++ extra) =
        w.getCacheTables fo.filter (fo.rels ++ extra) := rfl
    rw [hg] at hts0
    rw [e1]
    cases hx : w.getCacheTables fo.filter (fo.rels ++ extra) with
    | none => rw [hx] at hts0; cases hts0
    | some l =>
      rw [hx] at hts0
      injection hts0 with e _
      rw [e]
  have S : TableSet w ts := ⟨S0.nodup, S0.lt⟩
  have hS0 : SInvMid ({ w with locks := l1 } : World) := h0.rel.sinv.toSInvMid
  have hS : SInvMid w := h.rel.sinv.toSInvMid
  have hk256 : w.kinds.length ≤ 256 := Nat.le_trans h.kindsLe.1 h.kindsLe.2
  have htslen : ts.length ≤ w.tables.length :=
    BatchRel.nodup_length_le_of_lt S0.nodup (n := w.tables.length) (fun i hi => S0.lt i hi)
  have hpre0 : ∀ (t : Nat), t ∈ ts → (({ w with locks := l1 } : World).tbl t).len ≠ 0 →
      XchgPreM ({ w with locks := l1 } : World) (tmask ({ w with locks := l1 } : World) t)
        add rem rels := by
    intro t ht hlen
    exact (hpre t (S0.lt t ht) (hok0.sound t ht).2 hlen).congr rfl rfl
  obtain ⟨rr, bts, w1, i1, i2, i3, i4, i5, i6, _, i8⟩ :=
    findLoopX_spec hS0 (fl := fl) (add := add) (rem := rem) (rels := rels) hk256 ts (false, [])
      ({ w with locks := l1 } : World) (h0.moveSt rels) (LExt.refl _)
      (fun t ht => ⟨S0.lt t ht, hnf0 t ht⟩) hpre0
      (by show w.tables.length + ts.length < maxU32; omega)
  simp only [List.nil_append] at i1
  have hno1 : ∀ (evt : Nat), w1.obs.hasObservers evt = false := by
    intro evt; rw [i3.untouched.obs]; exact hno evt
  have hneB := isEmpty_and_false hne
  have hbatch := exchangeBatch_rel_eq run fo extra add rem rels w hl hneB hcyc.lock hts0 i1 hno1
  -- the sources
  have hsrcmem : ∀ (b0 : BatchTable), b0 ∈ bts → b0.oldT ∈ ts ∧ (w.tbl b0.oldT).len ≠ 0 := by
    intro b0 hb0
    have : b0.oldT ∈ bts.map (·.oldT) := List.mem_map_of_mem hb0
    rw [i4, List.mem_filter] at this
    refine ⟨this.1, ?_⟩
    have h2 := this.2
    simp only [bne_iff_ne, ne_eq] at h2
    exact h2
  have hokb : ∀ (b0 : BatchTable), b0 ∈ bts →
      XchgPreM ({ w with locks := l1 } : World)
        (tmask ({ w with locks := l1 } : World) b0.oldT) add rem rels :=
    fun b0 hb0 => hpre0 _ (hsrcmem b0 hb0).1 (hsrcmem b0 hb0).2
  have hsrcN : (bts.map (·.oldT)).Nodup := by
    rw [i4]; exact List.Pairwise.filter _ S0.nodup
  have mok : MovesX w1 bts := movesX_of_dest hS0 i3 hk256 hsrcN i5 hokb
  have hreg : bts ≠ [] → ∀ (r : RelID), r ∈ rels → r.target.isZero = false →
      r.target.id < w1.isTarget.length := by
    intro hb r hrm hz
    obtain ⟨b0, hb0⟩ := List.exists_mem_of_ne_nil bts hb
    rw [i3.untouched.isTarget]
    show r.target.id < w.isTarget.length
    rw [h.link.tgtLen]; exact h.link.lt_of_in (htin r hrm)
  have ma := moveLoopX_post bts i2 mok (by rw [i3.entities]; exact hrows) hreg
  have hlocks : (registerW (bts.foldl (moveStepX rels) w1) rels).locks.unlock b = some l2 := by
    show (bts.foldl (moveStepX rels) w1).locks.unlock b = some l2
    rw [ma.locks, i3.untouched.locks]; exact hcyc.unlock
  rw [unlock_ok hlocks] at hbatch
  refine ⟨ts, _, hsame, hbatch, ?_, rfl⟩
  -- the invariant at the end
  -- the registration after the lookup loop flags the targets, moved table or not
  have hregAll : ∀ (r : RelID), r ∈ rels → r.target.isZero = false →
      r.target.id < (bts.foldl (moveStepX rels) w1).isTarget.length := by
    intro r hrm hz
    rw [ma.isTargetLen, i3.untouched.isTarget]
    show r.target.id < w.isTarget.length
    rw [h.link.tgtLen]; exact h.link.lt_of_in (htin r hrm)
  have htinvM : TInv (registerW (bts.foldl (moveStepX rels) w1) rels) fl :=
    { rel := ma.st.rel.of_metaStep (registerW_metaStep _ rels) (fun _ hh => hh)
      flags := ma.st.flags.register hregAll
      freeEmpty := fun t T hT hf => ma.st.freeEmpty t T hT hf
      link := ma.st.link.transfer (ma.st.link.idx.congr rfl rfl) rfl (IdxSame.of_eq rfl)
        (flagFold_length rels _) ma.st.link.fewTables
      kindsLe := by
        show (bts.foldl (moveStepX rels) w1).kinds.length ≤ (bts.foldl (moveStepX rels) w1).maxComps ∧
          (bts.foldl (moveStepX rels) w1).maxComps ≤ 256
        rw [ma.ms.kinds, ma.maxComps, i3.kinds, i3.untouched.maxComps]; exact h.kindsLe }
  have htinv : TInv ({ registerW (bts.foldl (moveStepX rels) w1) rels with locks := l2 } : World) fl :=
    htinvM.withLocks l2
  have htm : ∀ (t : Nat), t < w.tables.length → t ≠ maxU32 := by
    intro t ht; have := h.link.fewTables; omega
  -- the world before the moves reads like `w`
  have hfr1 : ∀ (j : Nat), SameEnt w w1 j ∧ ∀ (c : Comp), targetOf w1 j c = targetOf w j c := by
    intro j
    obtain ⟨s1, g1⟩ := i3.frame j
    exact ⟨⟨fun c => (s1.1 c).trans (valOf_congr rfl rfl j c), s1.2.trans (compsOf_congr rfl rfl j)⟩,
      fun c => g1 c⟩
  have htbl1 : ∀ (t : Nat), t ∈ ts → w1.tbl t = w.tbl t :=
    fun t ht => i3.tbl (S0.lt t ht) (hnf0 t ht)
  -- reading through the final lock update
  have hfinV : ∀ (j : Nat) (c : Comp),
      valOf ({ registerW (bts.foldl (moveStepX rels) w1) rels with locks := l2 } : World) j c =
        valOf (bts.foldl (moveStepX rels) w1) j c := fun j c => valOf_congr rfl rfl j c
  have hfinC : ∀ (j : Nat),
      compsOf ({ registerW (bts.foldl (moveStepX rels) w1) rels with locks := l2 } : World) j =
        compsOf (bts.foldl (moveStepX rels) w1) j := fun j => compsOf_congr rfl rfl j
  have hfinT : ∀ (j : Nat) (c : Comp),
      targetOf ({ registerW (bts.foldl (moveStepX rels) w1) rels with locks := l2 } : World) j c =
        targetOf (bts.foldl (moveStepX rels) w1) j c := fun j c => rfl
  -- a selected entity: its table, its row, its move
  have hsel : ∀ (e : Ent), e ∈ ts.flatMap (rowsOf w) → ∃ (b0 : BatchTable), b0 ∈ bts ∧
      ∃ (k : Nat), k < (w.tbl b0.oldT).len ∧ (w.tbl b0.oldT).getEntity k = e ∧ b0.oldT ∈ ts ∧
        w.entities[e.id]? = some (b0.oldT, k) := by
    intro e he
    obtain ⟨t, k, ht, hk, rfl⟩ := mem_rows.mp he
    have : t ∈ bts.map (·.oldT) := by
      rw [i4, List.mem_filter]
      exact ⟨ht, by simp only [bne_iff_ne, ne_eq]; show ¬ (w.tbl t).len = 0; omega⟩
    obtain ⟨b0, hb0, rfl⟩ := List.mem_map.mp this
    exact ⟨b0, hb0, k, hk, rfl, ht, (h.link.row_live_id (S0.lt _ ht) hk).2.2⟩
  -- what the moves give for a selected entity
  have hmv : ∀ (e : Ent), e ∈ ts.flatMap (rowsOf w) → ∃ (t k d : Nat), t ∈ ts ∧
      w.entities[e.id]? = some (t, k) ∧
      XchgPreM w (tmask w t) add rem rels ∧
      compsOf (bts.foldl (moveStepX rels) w1) e.id = some (w1.tbl d).ids ∧
      (w1.tbl d).ids = (xmask add rem (tmask w t)).toList w.kinds.length ∧
      (∀ (c : Comp), c ∈ (w1.tbl d).ids ↔ (((tmask w t).get c = true ∧ c ∉ rem) ∨ c ∈ add)) ∧
      (∀ (c : Comp), c ∈ (w1.tbl d).ids → valOf (bts.foldl (moveStepX rels) w1) e.id c =
        if c ∈ (w.tbl t).ids then valOf w e.id c else some 0) ∧
      (∀ (c : Comp) (x : Ent), targetOf (bts.foldl (moveStepX rels) w1) e.id c = some x ↔
        ((c ∉ rem ∧ targetOf w e.id c = some x) ∨ (⟨c, x⟩ : RelID) ∈ rels)) := by
    intro e he
    obtain ⟨b0, hb0, k, hk, rfl, ht, hx⟩ := hsel e he
    have hd := i5 b0 hb0
    have hlt := S0.lt _ ht
    have hk' : k < (w1.tbl b0.oldT).len := by rw [htbl1 _ ht]; exact hk
    obtain ⟨m1, m2, m3⟩ := ma.moved b0 hb0 k hk'
    rw [htbl1 _ ht] at m1 m2 m3
    refine ⟨b0.oldT, k, b0.newT, ht, hx, hpre _ hlt (hok0.sound _ ht).2 (hsrcmem b0 hb0).2, m1,
      hd.idsEq, hd.ids, ?_, ?_⟩
    · intro c hc
      rw [m2 c hc, (hfr1 _).1.1 c]
    · intro c x
      rw [m3 c, hd.tgt c x, targetOf_of_entry hx (htm _ hlt) (get_of_lt hlt)]
      rfl
  exact
    { tinv := htinv
      aliveSame := by
        intro x
        show (bts.foldl (moveStepX rels) w1).pool.alive x = w.pool.alive x
        rw [ma.pool, i3.pool]
      comps := by
        intro e he cs hcs
        obtain ⟨t, k, d, ht, hx, hp, m1, idsEq, mids, _, _⟩ := hmv e he
        have hlt := S0.lt _ ht
        have hcs' : cs = (w.tbl t).ids := by
          rw [compsOf_of_entry hx (htm _ hlt) hlt] at hcs
          exact (Option.some.inj hcs).symm
        rw [hfinC, m1, idsEq]
        congr 1
        apply Refine.toList_eq_sortedIds
        intro c hcn
        have h1 : (xmask add rem (tmask w t)).get c = true ↔ c ∈ (w1.tbl d).ids := by
          rw [idsEq, Mask.mem_toList]; exact ⟨fun hh => ⟨hcn, hh⟩, fun hh => hh.2⟩
        rw [h1, mids c, hcs', List.mem_append, List.mem_filter, tbl_ids_iff_tmask hS hlt c]
        simp only [decide_eq_true_eq]
      kept := by
        intro e he c v hv hnr
        obtain ⟨t, k, d, ht, hx, hp, _, _, mids, mv, _⟩ := hmv e he
        have hlt := S0.lt _ ht
        have hcold : c ∈ (w.tbl t).ids := mem_ids_of_valOf hx (htm _ hlt) (get_of_lt hlt) hv
        have hcd : c ∈ (w1.tbl d).ids :=
          (mids c).2 (Or.inl ⟨(tbl_ids_iff_tmask hS hlt c).1 hcold, hnr⟩)
        rw [hfinV, mv c hcd, if_pos hcold, hv]
      added := by
        intro e he c hc
        obtain ⟨t, k, d, ht, hx, hp, _, _, mids, mv, _⟩ := hmv e he
        have hlt := S0.lt _ ht
        have hnold : c ∉ (w.tbl t).ids := by
          intro hh
          have := hp.addNew c hc
          rw [(tbl_ids_iff_tmask hS hlt c).1 hh] at this; cases this
        rw [hfinV, mv c ((mids c).2 (Or.inr hc)), if_neg hnold]
      targetIff := by
        intro e he c x
        obtain ⟨_, _, _, _, _, _, _, _, _, _, mt⟩ := hmv e he
        rw [hfinT]; exact mt c x
      frame := by
        intro j hj
        have hj1 : j ∉ srcIds w1 bts := by
          intro hm
          obtain ⟨b0, hb0, k, hk, heq⟩ := mem_srcIds.mp hm
          rw [htbl1 _ (hsrcmem b0 hb0).1] at hk heq
          exact hj (List.mem_map.mpr ⟨_, mem_rows.mpr ⟨b0.oldT, k, (hsrcmem b0 hb0).1, hk, rfl⟩, heq⟩)
        obtain ⟨s1, g1⟩ := hfr1 j
        obtain ⟨s2, g2⟩ := ma.frame j hj1
        have s := s1.trans s2
        exact ⟨⟨fun c => by rw [hfinV]; exact s.1 c, by rw [hfinC]; exact s.2⟩,
          fun c => by rw [hfinT, g2 c, g1 c]⟩
      obs := by
        show (bts.foldl (moveStepX rels) w1).obs = w.obs
        rw [ma.obs, i3.untouched.obs]
      unlocked := by
        show l2.isLocked = w.locks.isLocked
        rw [hl2]; exact hl.symm
      kinds := by
        show (bts.foldl (moveStepX rels) w1).kinds = w.kinds
        rw [ma.ms.kinds, i3.kinds]
      entitiesLen := by
        show (bts.foldl (moveStepX rels) w1).entities.length = w.entities.length
        rw [ma.entitiesLen, i3.entities] }

/-! ## 3. the singles -/

/-- `Exchange(e, add, rem, rels)` (no values written) applied to the handles `l`, in order, through
    the access path `p` -/
def xchgSeq (run : ProbeRunner) (p : Path) (add rem : List Comp) (rels : List RelID)
    (l : List Ent) : W Unit :=
  M.forM' l fun e => opExchange run p e add [] rem rels

/-- a live entity's mask is determined by its component list -/
theorem maskOf_get_eq {w w' : World} {fl fl' : List Nat} (h : TInv w fl) (h' : TInv w' fl')
    {e : Ent} (h2 : 2 ≤ e.id) (hnf : e.id ∉ fl) (ha : w.alive e = true)
    (hsl : e.id < w.pool.ents.length) (hnf' : e.id ∉ fl')
    (ha' : w'.alive e = true) (hsl' : e.id < w'.pool.ents.length)
    (hc : compsOf w' e.id = compsOf w e.id) (c : Comp) :
    (w'.maskOf e).get c = (w.maskOf e).get c := by
  obtain ⟨cs, hcs⟩ := h.compsOf_live h2 hnf ha hsl
  have i1 := h.mask_iff_comps h2 hnf ha hsl hcs c
  have i2 := h'.mask_iff_comps h2 hnf' ha' hsl' (hc.trans hcs) c
  cases hA : (w'.maskOf e).get c with
  | true => exact (i1.2 (i2.1 hA)).symm
  | false =>
    cases hB : (w.maskOf e).get c with
    | false => rfl
    | true =>
      have := i2.2 (i1.1 hB)
      rw [hA] at this; cases this

theorem XchgPre.congr {w w' : World} {e : Ent} {add rem : List Comp} {rels : List RelID}
    (h : XchgPre w e add rem rels) (hm : ∀ (c : Comp), (w'.maskOf e).get c = (w.maskOf e).get c)
    (hk : w'.kinds = w.kinds) (hp : w'.pool = w.pool) : XchgPre w' e add rem rels where
  nonempty := h.nonempty
  remNodup := h.remNodup
  remHas := fun c hc => by rw [hm]; exact h.remHas c hc
  addNodup := h.addNodup
  addReg := by rw [hk]; exact h.addReg
  addNew := fun c hc => by rw [hm]; exact h.addNew c hc
  relsNodup := h.relsNodup
  relsIn := h.relsIn
  relsRel := fun r hr => by simp only [World.isRelComp, hk]; exact h.relsRel r hr
  relsAll := fun c hc hr => h.relsAll c hc (by simp only [World.isRelComp, hk] at hr; exact hr)
  targets := fun r hr => by simp only [World.alive, hp]; exact h.targets r hr

/-- **the singles**: `Exchange` applied, in any order and through any access path, to alive handles
    with distinct IDs that satisfy the preconditions -/
theorem xchgSeq_post (run : ProbeRunner) (p : Path) {add rem : List Comp} {rels : List RelID} :
    ∀ (l : List Ent) {w : World} {fl : List Nat}, TInv w fl → w.isLocked = false →
    (∀ (evt : Nat), w.obs.hasObservers evt = false) →
    (∀ (e : Ent), e ∈ l → 2 ≤ e.id ∧ e.id ∉ fl ∧ w.alive e = true ∧ XchgPre w e add rem rels) →
    (∀ (e : Ent), e ∈ l → e.id < w.pool.ents.length) →
    (l.map (·.id)).Nodup →
    (∀ (r : RelID), r ∈ rels → r.target.id < w.pool.ents.length) →
    w.tables.length + l.length < maxU32 → w.entities.length + 1 < 2 ^ 32 →
    ∃ (w'' : World), xchgSeq run p add rem rels l w = .ok () w'' ∧
      XchgAllPost w fl l add rem rels w''
  | [], w, fl, h, _, _, _, _, _, _, _, _ =>
    ⟨w, rfl,
      { tinv := h, aliveSame := fun _ => rfl
        comps := by intro e he; cases he
        kept := by intro e he; cases he
        added := by intro e he; cases he
        targetIff := by intro e he; cases he
        frame := fun _ _ => ⟨⟨fun _ => rfl, rfl⟩, fun _ => rfl⟩
        obs := rfl, unlocked := rfl, kinds := rfl, entitiesLen := rfl }⟩
  | e :: l, w, fl, h, hl, hno, hlive, hlin, hndi, htin, hfew, hrows => by
    obtain ⟨h2, hnf, ha, hp⟩ := hlive e List.mem_cons_self
    have hsl := hlin e List.mem_cons_self
    have hnd' : e.id ∉ l.map (·.id) ∧ (l.map (·.id)).Nodup := by
      rw [List.map_cons] at hndi; exact List.nodup_cons.mp hndi
    simp only [List.length_cons] at hfew
    obtain ⟨w1, hok, sp⟩ := opExchange_rel_spec run p h hl hno h2 hnf ha hsl hp [] htin (by omega)
      hrows
    have hplen : w1.pool.ents.length = w.pool.ents.length := by rw [sp.pool]
    have hne' : ∀ (e' : Ent), e' ∈ l → e'.id ≠ e.id := by
      intro e' he' heq
      exact hnd'.1 (heq ▸ List.mem_map_of_mem he')
    have hlive1 : ∀ (e' : Ent), e' ∈ l → 2 ≤ e'.id ∧ e'.id ∉ fl ∧ w1.alive e' = true ∧
        XchgPre w1 e' add rem rels := by
      intro e' he'
      obtain ⟨a, b, c, d⟩ := hlive e' (List.mem_cons_of_mem _ he')
      have c1 : w1.alive e' = true := by rw [sp.aliveSame]; exact c
      have d1 := hlin e' (List.mem_cons_of_mem _ he')
      exact ⟨a, b, c1, d.congr
        (maskOf_get_eq h sp.tinv a b c d1 b c1 (by rw [hplen]; exact d1)
          (sp.frame e'.id (hne' e' he')).1.2) sp.kinds sp.pool⟩
    obtain ⟨w'', hrest, ip⟩ := xchgSeq_post run p l sp.tinv
      (by show w1.locks.isLocked = false; rw [sp.locks]; exact hl)
      (fun evt => by rw [sp.obs]; exact hno evt) hlive1
      (fun e' he' => by rw [hplen]; exact hlin e' (List.mem_cons_of_mem _ he')) hnd'.2
      (fun r hr => by rw [hplen]; exact htin r hr)
      (by have := sp.tablesLen; omega) (by rw [sp.entitiesLen]; exact hrows)
    refine ⟨w'', ?_, ?_⟩
    · simp only [xchgSeq, M.forM', bind, M.bind, hok]
      exact hrest
    · obtain ⟨hfe, hfeT⟩ := ip.frame e.id hnd'.1
      exact
        { tinv := ip.tinv
          aliveSame := fun x => (ip.aliveSame x).trans (sp.aliveSame x)
          comps := by
            intro e' he' cs hcs
            rcases List.mem_cons.mp he' with rfl | he'
            · rw [hfe.2]; exact sp.comps cs hcs
            · rw [ip.comps e' he' cs (by rw [(sp.frame e'.id (hne' e' he')).1.2]; exact hcs),
                sp.kinds]
          kept := by
            intro e' he' c v hv hnr
            rcases List.mem_cons.mp he' with rfl | he'
            · rw [hfe.1 c, sp.kept c v hv hnr]
              simp only [applyVals, List.foldl_nil, ite_self]
            · exact ip.kept e' he' c v
                (by rw [(sp.frame e'.id (hne' e' he')).1.1 c]; exact hv) hnr
          added := by
            intro e' he' c hc
            rcases List.mem_cons.mp he' with rfl | he'
            · rw [hfe.1 c, sp.added c hc]
              simp only [applyVals, List.foldl_nil, ite_self]
            · exact ip.added e' he' c hc
          targetIff := by
            intro e' he' c x
            rcases List.mem_cons.mp he' with rfl | he'
            · rw [hfeT c]
              constructor
              · exact sp.targetsOnly c x
              · rintro (⟨hnr, hx⟩ | hr)
                · exact sp.oldTargets c x hx hnr
                · exact sp.targets ⟨c, x⟩ hr
            · rw [ip.targetIff e' he' c x, (sp.frame e'.id (hne' e' he')).2 c]
          frame := by
            intro j hj
            simp only [List.map_cons, List.mem_cons, not_or] at hj
            obtain ⟨s1, g1⟩ := sp.frame j hj.1
            obtain ⟨s2, g2⟩ := ip.frame j hj.2
            exact ⟨s1.trans s2, fun c => (g2 c).trans (g1 c)⟩
          obs := ip.obs.trans sp.obs
          unlocked := by
            rw [ip.unlocked]
            show w1.locks.isLocked = w.locks.isLocked
            rw [sp.locks]
          kinds := ip.kinds.trans sp.kinds
          entitiesLen := ip.entitiesLen.trans sp.entitiesLen }

/-! ## 4. batch = singles -/

theorem option_eq_of_some_iff {α : Type} {a b : Option α}
    (h : ∀ (x : α), a = some x ↔ b = some x) : a = b := by
  cases a with
  | none =>
    cases b with
    | none => rfl
    | some y => exact absurd ((h y).2 rfl) (by simp)
  | some x => exact ((h x).1 rfl).symm

/-- two worlds obtained from `w` by the same exchange on the same entities (by the batch or one by
    one, in whatever order) are observationally equal: same liveness of every handle, same
    components, values and relation targets of every ID -/
theorem XchgAllPost.obs_eq {w w' w'' : World} {fl : List Nat} {es es' : List Ent}
    {add rem : List Comp} {rels : List RelID} (p' : XchgAllPost w fl es add rem rels w')
    (p'' : XchgAllPost w fl es' add rem rels w'') (hmem : ∀ (e : Ent), e ∈ es ↔ e ∈ es')
    (hcomps : ∀ (e : Ent), e ∈ es → ∃ (cs : List Comp), compsOf w e.id = some cs) :
    (∀ (x : Ent), w'.alive x = w''.alive x) ∧
    (∀ (i : Nat) (c : Comp), valOf w' i c = valOf w'' i c) ∧
    (∀ (i : Nat), compsOf w' i = compsOf w'' i) ∧
    (∀ (i : Nat) (c : Comp), targetOf w' i c = targetOf w'' i c) ∧
    w'.isLocked = w''.isLocked ∧ w'.kinds = w''.kinds := by
  have hids : ∀ (i : Nat), i ∈ es.map (·.id) ↔ i ∈ es'.map (·.id) := by
    intro i
    simp only [List.mem_map]
    exact ⟨fun ⟨e, he, hi⟩ => ⟨e, (hmem e).mp he, hi⟩, fun ⟨e, he, hi⟩ => ⟨e, (hmem e).mpr he, hi⟩⟩
  refine ⟨fun x => by rw [p'.aliveSame, p''.aliveSame], ?_, ?_, ?_,
    by rw [p'.unlocked, p''.unlocked], by rw [p'.kinds, p''.kinds]⟩
  · intro i c
    by_cases hx : i ∈ es.map (·.id)
    · obtain ⟨e, he, rfl⟩ := List.mem_map.mp hx
      have he' := (hmem e).mp he
      obtain ⟨cs, hcs⟩ := hcomps e he
      by_cases hc : c ∈ Refine.sortedIds w.kinds.length
          ((cs.filter fun c => decide (c ∉ rem)) ++ add)
      · by_cases hadd : c ∈ add
        · rw [p'.added e he c hadd, p''.added e he' c hadd]
        · have hkeep : c ∈ cs ∧ c ∉ rem := by
            rcases List.mem_append.mp (Refine.mem_sortedIds.mp hc).2 with k | k
            · obtain ⟨k1, k2⟩ := List.mem_filter.mp k
              exact ⟨k1, by simpa using k2⟩
            · exact absurd k hadd
          obtain ⟨v, hv⟩ := valOf_some_of_comps hcs hkeep.1
          rw [p'.kept e he c v hv hkeep.2, p''.kept e he' c v hv hkeep.2]
      · rw [valOf_none_of_comps (p'.comps e he cs hcs) hc,
          valOf_none_of_comps (p''.comps e he' cs hcs) hc]
    · rw [(p'.frame i hx).1.1 c, (p''.frame i (fun hh => hx ((hids _).mpr hh))).1.1 c]
  · intro i
    by_cases hx : i ∈ es.map (·.id)
    · obtain ⟨e, he, rfl⟩ := List.mem_map.mp hx
      obtain ⟨cs, hcs⟩ := hcomps e he
      rw [p'.comps e he cs hcs, p''.comps e ((hmem e).mp he) cs hcs]
    · rw [(p'.frame i hx).1.2, (p''.frame i (fun hh => hx ((hids _).mpr hh))).1.2]
  · intro i c
    by_cases hx : i ∈ es.map (·.id)
    · obtain ⟨e, he, rfl⟩ := List.mem_map.mp hx
      apply option_eq_of_some_iff
      intro x
      rw [p'.targetIff e he c x, p''.targetIff e ((hmem e).mp he) c x]
    · rw [(p'.frame i hx).2 c, (p''.frame i (fun hh => hx ((hids _).mpr hh))).2 c]

/-- through an access path whose pre-validation passes, the batch is `exchangeBatch` (through
    `Unsafe` always) -/
theorem World.opExchangeBatch_rel_eq (run : ProbeRunner) (p : Path) (fo : FilterObj)
    (extra : List RelID) (add rem : List Comp) (rels : List RelID)
    (vals : Option (List (Comp × Val))) (w : World) (hpre : preCheck p add rels w = .ok () w) :
    opExchangeBatch run p fo extra add rem rels vals w =
      exchangeBatch run fo extra add rem rels vals w := by
  simp only [opExchangeBatch, bind, M.bind, hpre]

/-- **C06 + C04, the exchange batch over relation tables = the fold of `Exchange`**: for a valid call
    (see `exchangeBatch_rel_spec`) on a world whose rows hold alive handles, the batch selects
    exactly the alive entities that match; the batch and `Exchange` applied to these handles one by
    one in ANY order (through any access path) both succeed, both satisfy `XchgAllPost`, and give the
    same liveness, components, values and relation targets for every ID. -/
theorem exchangeBatch_rel_eq_singles (run : ProbeRunner) (p : Path) {w : World} {fl : List Nat}
    (h : TInv w fl) (hR : RowsAlive w) (hl : w.isLocked = false)
    (hno : ∀ (evt : Nat), w.obs.hasObservers evt = false)
    (fo : FilterObj) (extra : List RelID) (hc : fo.cache = none)
    (hr : RelsTyped w fo.filter (fo.rels ++ extra)) {add rem : List Comp} {rels : List RelID}
    (hne : ¬ (add = [] ∧ rem = []))
    (hpre : ∀ (t : Nat), t < w.tables.length → TblMatch w fo.filter (fo.rels ++ extra) t →
      (w.tbl t).len ≠ 0 → XchgPreM w (tmask w t) add rem rels)
    (htin : ∀ (r : RelID), r ∈ rels → r.target.id < w.pool.ents.length)
    {l1 l2 : Lock} {b : Nat} (hcyc : QueryExact.LockCycle w.locks l1 b l2) (hl2 : l2.isLocked = false)
    (hfew : 2 * w.tables.length < maxU32) (hrows : 2 * w.entities.length < 2 ^ 32) :
    ∃ (ts : List Nat) (w' : World), getBatchTables fo extra w = .ok ts w ∧
      (∀ (e : Ent), e ∈ ts.flatMap (rowsOf w) ↔
        w.alive e = true ∧ EntMatches w fo.filter (fo.rels ++ extra) e.id) ∧
      exchangeBatch run fo extra add rem rels none w = .ok () w' ∧
      XchgAllPost w fl (ts.flatMap (rowsOf w)) add rem rels w' ∧
      ∀ (es' : List Ent), es'.Perm (ts.flatMap (rowsOf w)) →
        w.tables.length + es'.length < maxU32 →
        ∃ (w'' : World), xchgSeq run p add rem rels es' w = .ok () w'' ∧
          XchgAllPost w fl es' add rem rels w'' ∧
          (∀ (x : Ent), w'.alive x = w''.alive x) ∧
          (∀ (i : Nat) (c : Comp), valOf w' i c = valOf w'' i c) ∧
          (∀ (i : Nat), compsOf w' i = compsOf w'' i) ∧
          (∀ (i : Nat) (c : Comp), targetOf w' i c = targetOf w'' i c) ∧
          w'.isLocked = w''.isLocked := by
  obtain ⟨ts, w', hts, hb, pb, _⟩ := exchangeBatch_rel_spec run h hl hno fo extra hc hr hne hpre
    htin hcyc hl2 hfew hrows
  obtain ⟨ts2, hts2, S, hok, _⟩ := getBatchTables_rel h fo extra hc hr
  rw [hts] at hts2
  injection hts2 with e1 _
  subst e1
  have hsel := mem_rows_iff_matches h hR hok
  refine ⟨ts, w', hts, hsel, hb, pb, ?_⟩
  intro es' hperm hfew'
  have u := removeTablesW_link h.link hR S
  have htm : ∀ (t : Nat), t < w.tables.length → t ≠ maxU32 := by
    intro t ht; have := h.link.fewTables; omega
  have hlive : ∀ (e : Ent), e ∈ es' → 2 ≤ e.id ∧ e.id ∉ fl ∧ w.alive e = true ∧
      XchgPre w e add rem rels := by
    intro e he
    have he' := hperm.mem_iff.mp he
    obtain ⟨a1, a2, a3, t, r, ht, hx⟩ := u.live e he'
    refine ⟨a1, a2, a3, XchgPreM.toPre ?_⟩
    have hlt := S.lt t ht
    obtain ⟨_, hrl, _⟩ := h.link.idx.indexed hx (htm t hlt)
    have hm : w.maskOf e = tmask w t := by simp only [maskOf, index_of_get hx, tmask]
    rw [hm]
    exact hpre t hlt (hok.sound t ht).2 (by omega)
  have hndi : (es'.map (·.id)).Nodup := (hperm.map (·.id)).nodup_iff.mpr u.idsNodup
  have hlin : ∀ (e : Ent), e ∈ ts.flatMap (rowsOf w) → e.id < w.pool.ents.length := by
    intro e he
    obtain ⟨t, r, _, hx⟩ := (u.live e he).2.2.2
    rw [← h.link.lenEq]; exact (List.getElem?_eq_some_iff.mp hx).1
  obtain ⟨w'', hs, ps⟩ := xchgSeq_post run p es' h hl hno hlive
    (fun e he => hlin e (hperm.mem_iff.mp he)) hndi htin hfew' (by omega)
  have hcomps : ∀ (e : Ent), e ∈ ts.flatMap (rowsOf w) → ∃ (cs : List Comp),
      compsOf w e.id = some cs := by
    intro e he
    obtain ⟨a1, a2, a3, _⟩ := u.live e he
    exact h.compsOf_live a1 a2 a3 (hlin e he)
  obtain ⟨o1, o2, o3, o4, o5, _⟩ := pb.obs_eq ps (fun e => hperm.mem_iff.symm) hcomps
  exact ⟨w'', hs, ps, o1, o2, o3, o4, o5⟩

/-! ## 5. deciding the hypotheses on concrete worlds -/

theorem xchgPreM_iff (w : World) (m : Mask) (add rem : List Comp) (rels : List RelID) :
    XchgPreM w m add rem rels ↔
      (¬ (add = [] ∧ rem = []) ∧ rem.Nodup ∧ (∀ (c : Comp), c ∈ rem → m.get c = true) ∧ add.Nodup ∧
        (∀ (c : Comp), c ∈ add → c < w.kinds.length) ∧ (∀ (c : Comp), c ∈ add → m.get c = false) ∧
        (rels.map (·.comp)).Nodup ∧ (∀ (r : RelID), r ∈ rels → r.comp ∈ add) ∧
        (∀ (r : RelID), r ∈ rels → w.isRelComp r.comp = true) ∧
        (∀ (c : Comp), c ∈ add → w.isRelComp c = true → c ∈ rels.map (·.comp)) ∧
        ∀ (r : RelID), r ∈ rels → r.target.isZero = true ∨ w.alive r.target = true) :=
  ⟨fun h => ⟨h.nonempty, h.remNodup, h.remHas, h.addNodup, h.addReg, h.addNew, h.relsNodup,
      h.relsIn, h.relsRel, h.relsAll, h.targets⟩,
    fun ⟨a, b, c, d, e, f, g, i, j, k, l⟩ => ⟨a, b, c, d, e, f, g, i, j, k, l⟩⟩

instance (w : World) (m : Mask) (add rem : List Comp) (rels : List RelID) :
    Decidable (XchgPreM w m add rem rels) :=
  decidable_of_iff _ (xchgPreM_iff w m add rem rels).symm

instance (w : World) (f : Filter) (rels : List RelID) (t : Nat) :
    Decidable (QueryRel.TblMatch w f rels t) := by
  unfold QueryRel.TblMatch; exact inferInstance

end Ark
