/-
  # The pre-validation of relation arguments — elementary facts

  Since the repair of the `Unsafe` API (`ToCheckedRelationIDsForUnsafe`) every access path
  validates its relation arguments before the operation proper starts:

  * `preCheck p ids rels` — `.typed` and `.unsafe_`: target, relation component, membership in
    `ids`; `.map1`: target, relation component;
  * `Add` uses `preCheck (p.addCheck ids) ids rels`: `Unsafe.AddRel` with no components skips the
    membership check (and is rejected with `noComponents` right afterwards);
  * `SetRelations` uses `preCheck p.setRelCheck mapperIds rels`: `Unsafe.SetRelations` has no
    component list, so membership is not checked.

  This file collects what the rest of the development needs about the two path adapters and about
  the empty relation list (the non-relation development: all checks are vacuous).
-/
import Ark.Model.World

namespace Ark
namespace World

/-- without relations there is nothing to validate, on any path -/
@[simp] theorem preCheck_nil (p : Path) (ids : List Comp) : preCheck p ids [] = pure () := by
  cases p <;> rfl

theorem preCheck_nil_apply (p : Path) (ids : List Comp) (w : World) :
    preCheck p ids [] w = .ok () w := by
  rw [preCheck_nil]; rfl

/-- `Unsafe` validates like the typed API -/
theorem preCheck_unsafe (ids : List Comp) (rels : List RelID) :
    preCheck .unsafe_ ids rels = preCheck .typed ids rels := rfl

theorem preCheck_unsafe_eq (ids : List Comp) (rels : List RelID) :
    preCheck .unsafe_ ids rels = preCheckTyped (Mask.ofList ids) rels := rfl

theorem preCheck_typed_eq (ids : List Comp) (rels : List RelID) :
    preCheck .typed ids rels = preCheckTyped (Mask.ofList ids) rels := rfl

theorem preCheck_map1_eq (ids : List Comp) (rels : List RelID) :
    preCheck .map1 ids rels = preCheckMap rels := rfl

/-! ### the path adapters -/

theorem Path.addCheck_typed (ids : List Comp) : Path.typed.addCheck ids = .typed := rfl
theorem Path.addCheck_map1 (ids : List Comp) : Path.map1.addCheck ids = .map1 := by
  simp [Path.addCheck]
theorem Path.addCheck_unsafe_nil : Path.unsafe_.addCheck [] = .map1 := rfl
theorem Path.addCheck_unsafe_cons (c : Comp) (cs : List Comp) :
    Path.unsafe_.addCheck (c :: cs) = .unsafe_ := rfl

/-- with at least one component to add — the only case in which `Add` can be accepted — the
    validation of `Add` is the validation of the path itself -/
theorem Path.addCheck_of_ne_nil (p : Path) {ids : List Comp} (h : ids ≠ []) :
    p.addCheck ids = p := by
  cases ids with
  | nil => exact absurd rfl h
  | cons c cs => cases p <;> rfl

theorem Path.addCheck_cases (p : Path) (ids : List Comp) :
    p.addCheck ids = p ∨ (p = .unsafe_ ∧ ids = [] ∧ p.addCheck ids = .map1) := by
  cases ids with
  | nil => cases p <;> simp [Path.addCheck]
  | cons c cs => exact Or.inl (Path.addCheck_of_ne_nil p (by simp))

theorem Path.setRelCheck_typed : Path.typed.setRelCheck = .typed := rfl
theorem Path.setRelCheck_map1 : Path.map1.setRelCheck = .map1 := rfl
theorem Path.setRelCheck_unsafe : Path.unsafe_.setRelCheck = .map1 := rfl

theorem Path.setRelCheck_of_ne (p : Path) (h : p ≠ .unsafe_) : p.setRelCheck = p := by
  cases p <;> first | rfl | exact absurd rfl h

/-! ### the pre-validation as a pure function

`preCheck` never changes the world, and its verdict is that of the FIRST relation of the list
that fails one of the checks, in the order target → relation component → membership. -/

/-- the components the relations must be among on path `p` (`none`: no membership check) -/
def checkMask (p : Path) (ids : List Comp) : Option Mask :=
  match p with
  | .map1 => none
  | _ => some (Mask.ofList ids)

/-- the verdict on one relation: `checkRelationTarget` (a removed entity — non-zero and not
    alive — as target), then `checkRelationComponent`, then membership -/
def relVerdict (w : World) (m : Option Mask) (r : RelID) : Option PanicKind :=
  if !r.target.isZero && !w.alive r.target then some .deadTarget
  else if !w.isRelComp r.comp then some .notRelation
  else match m with
    | some m => if m.get r.comp then none else some .relNotInMask
    | none => none

/-- the verdict on a relation list: that of the first relation that fails -/
def relsVerdict (w : World) (m : Option Mask) (rels : List RelID) : Option PanicKind :=
  rels.findSome? (relVerdict w m)

theorem preCheckTyped_eq (m : Mask) (w : World) : ∀ (rels : List RelID),
    preCheckTyped m rels w =
      match relsVerdict w (some m) rels with
      | none => .ok () w
      | some k => .panic k w
  | [] => rfl
  | r :: rest => by
    have ih := preCheckTyped_eq m w rest
    simp only [preCheckTyped] at ih ⊢
    simp only [M.forM', bind, M.bind, checkRelationTarget, checkRelationComponent, M.assert,
      relsVerdict, List.findSome?_cons, relVerdict]
    by_cases c1 : (!r.target.isZero && !w.alive r.target) = true
    · simp only [c1, if_true]
    · simp only [c1, Bool.false_eq_true, if_false]
      cases c2 : w.isRelComp r.comp with
      | false => simp
      | true =>
        cases c3 : m.get r.comp with
        | false => simp
        | true =>
          simp only [Bool.not_true, Bool.false_eq_true, if_false, if_true]
          exact ih

theorem preCheckMap_eq (w : World) : ∀ (rels : List RelID),
    preCheckMap rels w =
      match relsVerdict w none rels with
      | none => .ok () w
      | some k => .panic k w
  | [] => rfl
  | r :: rest => by
    have ih := preCheckMap_eq w rest
    simp only [preCheckMap] at ih ⊢
    simp only [M.forM', bind, M.bind, checkRelationTarget, checkRelationComponent,
      relsVerdict, List.findSome?_cons, relVerdict]
    by_cases c1 : (!r.target.isZero && !w.alive r.target) = true
    · simp only [c1, if_true]
    · simp only [c1, Bool.false_eq_true, if_false]
      cases c2 : w.isRelComp r.comp with
      | false => simp
      | true =>
        simp only [Bool.not_true, Bool.false_eq_true, if_false]
        exact ih

/-- **the pre-validation, on every path, is a pure verdict on the relation list; the world is
    never changed** -/
theorem preCheck_eq (p : Path) (ids : List Comp) (rels : List RelID) (w : World) :
    preCheck p ids rels w =
      match relsVerdict w (checkMask p ids) rels with
      | none => .ok () w
      | some k => .panic k w := by
  cases p with
  | unsafe_ => exact preCheckTyped_eq (Mask.ofList ids) w rels
  | map1 => exact preCheckMap_eq w rels
  | typed => exact preCheckTyped_eq (Mask.ofList ids) w rels

/-- the classes of the pre-validation -/
theorem relsVerdict_class {w : World} {m : Option Mask} {rels : List RelID} {k : PanicKind}
    (h : relsVerdict w m rels = some k) :
    k = .deadTarget ∨ k = .notRelation ∨ k = .relNotInMask := by
  obtain ⟨r, _, hr⟩ := List.exists_of_findSome?_eq_some h
  unfold relVerdict at hr
  split at hr
  · exact Or.inl (Option.some.inj hr).symm
  · split at hr
    · exact Or.inr (Or.inl (Option.some.inj hr).symm)
    · split at hr
      · split at hr
        · cases hr
        · exact Or.inr (Or.inr (Option.some.inj hr).symm)
      · cases hr

/-- a removed entity as target: the verdict on the relation is `deadTarget`, whatever else is
    wrong with it -/
theorem relVerdict_dead {w : World} (m : Option Mask) {r : RelID} (hz : r.target.isZero = false)
    (hd : w.alive r.target = false) : relVerdict w m r = some .deadTarget := by
  simp [relVerdict, hz, hd]

/-- a relation list containing a relation that fails is refused -/
theorem relsVerdict_isSome {w : World} {m : Option Mask} {rels : List RelID} {r : RelID}
    (hr : r ∈ rels) (hbad : (relVerdict w m r).isSome = true) :
    (relsVerdict w m rels).isSome = true := by
  induction rels with
  | nil => cases hr
  | cons x rest ih =>
    simp only [relsVerdict, List.findSome?_cons]
    cases hx : relVerdict w m x with
    | some k => rfl
    | none =>
      rcases List.mem_cons.1 hr with rfl | hm
      · rw [hx] at hbad; cases hbad
      · exact ih hm

/-- the verdict is that of relation `r` when every relation before it passes -/
theorem relsVerdict_first {w : World} {m : Option Mask} (pre : List RelID) (r : RelID)
    (post : List RelID) (hpre : ∀ (x : RelID), x ∈ pre → relVerdict w m x = none) {k : PanicKind}
    (hr : relVerdict w m r = some k) : relsVerdict w m (pre ++ r :: post) = some k := by
  induction pre with
  | nil => simp [relsVerdict, hr]
  | cons x rest ih =>
    have hx := hpre x List.mem_cons_self
    have := ih (fun y hy => hpre y (List.mem_cons_of_mem _ hy))
    simpa [relsVerdict, List.findSome?_cons, hx] using this

end World
end Ark
