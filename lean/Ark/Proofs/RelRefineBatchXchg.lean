/-
  Ark.Proofs.RelRefineBatchXchg — `Exchange` with relation targets (single) and the exchange batch
  over relation tables (`AddBatch` / `RemoveBatch` / `ExchangeBatch`, callback `nil`) as steps of
  the relation refinement machine (`RelRefineB.OpRB.xchg`, `.xchgb`).

  * `step_xchg` — the single `Exchange` as a step (the proof of `RelRefine3.step3_xchg`, for the
    invariant `HInvRB` of this machine);
  * specification level: `specXchgAll_ok` (closed form of the fold of the single `xchg` steps),
    `specXchgAll_rej`, `specXchgAll_frame`, `specXchgAll_perm`;
  * `HInv.xchgAll` — **any** world satisfying `XchgAllPost` for a duplicate-free list of specified
    handles that keeps pool and mask width realises that closed form;
  * `step_xchgb` — the batch as a step: an expressible call whose precondition fails is rejected
    with nothing changed (both lists empty: `noComponents`; a removed entity as target, a relation
    on a component that is not a relation component or not added: refused by the pre-validation);
    one whose precondition holds succeeds, the specification step is the fold of the single
    `Exchange` steps over the selection, `HInvRB` is kept;
  * `runOpsRB_xchgs`, `xchgb_eq_singles` — **batch = singles** as steps of the machine.

  Kernel-only proofs, core Lean only.
-/
import Ark.Proofs.RelRefineBatchSet
import Ark.Proofs.RelRefineBatchXMore

set_option autoImplicit false

namespace Ark

open World Ark.Props.C01World QueryRel

namespace RelRefineB

open RelRefine RelRefine2 RelRefine3
open Refine (Comps keys sortedIds writeComps zeros)

/-! ## the single `Exchange` -/

/-- the conclusion of the step lemma of the single `Exchange` -/
def XchgGoalRB (run : ProbeRunner) (s : St) (p : Path) (e : Ent) (add : List Comp) (vals : Comps)
    (rem : List Comp) (rels : Rels) : Prop :=
  (∃ fl', HInvRB (stepRB run s (.xchg p e add vals rem rels)) fl') ∧
  ((stepRB run s (.xchg p e add vals rem rels)).w.tables.length ≤ s.w.tables.length + 1 ∧
    (stepRB run s (.xchg p e add vals rem rels)).w.relationArchetypes.length ≤
      s.w.relationArchetypes.length + 1 ∧
    (stepRB run s (.xchg p e add vals rem rels)).w.entities.length = s.w.entities.length) ∧
  (guardXchg s p e add rels = true → ¬ preXchg s.ss e add rem rels →
    (∃ k, opExchange run p e add vals rem rels s.w = .panic k s.w) ∧
    stepRB run s (.xchg p e add vals rem rels) = s) ∧
  (guardXchg s p e add rels = true → preXchg s.ss e add rem rels →
    ∃ w', opExchange run p e add vals rem rels s.w = .ok () w')

theorem stepRB_xchg_rejected (run : ProbeRunner) {s : St} {p : Path} {e : Ent} {add : List Comp}
    {vals : Comps} {rem : List Comp} {rels : Rels} (hg : guardXchg s p e add rels = true)
    {k : PanicKind} (hop : opExchange run p e add vals rem rels s.w = .panic k s.w)
    (hnp : ¬ preXchg s.ss e add rem rels) : stepRB run s (.xchg p e add vals rem rels) = s := by
  show stepBatch run s (.xchg p e add vals rem rels) = s
  simp only [stepBatch, show guardRB s (.xchg p e add vals rem rels) = true from hg, if_true,
    execRB, hop, Res.state, retRB, List.reverse_nil, List.nil_append, specStepRB,
    specXchg_of_not_pre _ _ _ _ _ _ hnp]

/-- **the single `Exchange` with relation targets as a step of the machine** -/
theorem step_xchg (run : ProbeRunner) {s : St} {fl : List Nat} (H : HInvRB s fl)
    (hfew : s.w.tables.length < maxU32) (hent : s.w.entities.length + 1 < 2 ^ 32)
    (p : Path) (e : Ent) (add : List Comp) (vals : Comps) (rem : List Comp) (rels : Rels) :
    XchgGoalRB run s p e add vals rem rels := by
  have HB := H.hinv
  by_cases hg : guardXchg s p e add rels = true
  case neg =>
    have : stepRB run s (.xchg p e add vals rem rels) = s := by show stepBatch run s (.xchg p e add vals rem rels) = s; rw [stepBatch, if_neg (show ¬ guardRB s (.xchg p e add vals rem rels) = true from hg)]
    exact ⟨⟨fl, by rw [this]; exact H⟩, by rw [this]; exact ⟨Nat.le_succ _, Nat.le_succ _, rfl⟩,
      fun h => absurd h hg, fun h => absurd h hg⟩
  have hg' : ((e ∈ s.issued ∧ ∀ c ∈ add, c < s.ss.zst.length) ∧ RelsStep s.ss.isRel p add rels) ∧
      tgtsExpr s rels = true := by
    simpa only [guardXchg, Bool.and_eq_true, List.all_eq_true, decide_eq_true_eq] using hg
  obtain ⟨⟨⟨hi, hreg⟩, hst⟩, hx⟩ := hg'
  have hreg' : ∀ (c : Comp), c ∈ add → c < s.w.kinds.length := by rw [← HB.zlen]; exact hreg
  have hb256 : ∀ (c : Comp), c ∈ add → c < 256 := fun c hc => HB.reg256 (hreg' c hc)
  obtain ⟨hrnd, hrmap, hrall⟩ := hst
  -- a relation on a non-relation component / on a component that is not added: refused by the
  -- pre-validation (after the `Alive` check of `Unsafe.Exchange`), the machine state unchanged
  by_cases hrin : ∀ r ∈ rels, r.comp ∈ add ∧ s.ss.isRel.getD r.comp false = true
  case neg =>
    obtain ⟨r, hr, hb⟩ := bad_of_not_wf HB hrmap hrin
    obtain ⟨k, hop⟩ := opExchange_rel_badRel run p e add vals rem rels s.w HB.unlocked
      ⟨r, hr, by
        rcases hb with hb | ⟨hp, hb⟩
        · exact Or.inr (Or.inl hb)
        · exact Or.inr (Or.inr ⟨hp, by rw [Mask.get_ofList]; simp [hb]⟩)⟩
    have hnp : ¬ preXchg s.ss e add rem rels := by
      rintro ⟨en, _, hp⟩
      exact hrin hp.2.1.2.1
    have : stepRB run s (.xchg p e add vals rem rels) = s := by
      exact stepRB_xchg_rejected run hg hop hnp
    exact ⟨⟨fl, by rw [this]; exact H⟩, by rw [this]; exact ⟨Nat.le_succ _, Nat.le_succ _, rfl⟩,
      fun _ _ => ⟨⟨k, hop⟩, this⟩, fun _ hp => absurd hp hnp⟩
  have hin : ∀ (r : RelID), r ∈ rels → r.comp ∈ add := fun r hr => (hrin r hr).1
  have hrc : ∀ (r : RelID), r ∈ rels → s.w.isRelComp r.comp = true :=
    fun r hr => by rw [← HB.rget]; exact (hrin r hr).2
  -- a rejected call: the whole machine state is unchanged
  have hrejected : ∀ {k : PanicKind}, opExchange run p e add vals rem rels s.w = .panic k s.w →
      ¬ preXchg s.ss e add rem rels → XchgGoalRB run s p e add vals rem rels := by
    intro k hop hnp
    have : stepRB run s (.xchg p e add vals rem rels) = s := by
      exact stepRB_xchg_rejected run hg hop hnp
    exact ⟨⟨fl, by rw [this]; exact H⟩, by rw [this]; exact ⟨Nat.le_succ _, Nat.le_succ _, rfl⟩,
      fun _ _ => ⟨⟨k, hop⟩, this⟩, fun _ hp => absurd hp hnp⟩
  cases ha : s.w.alive e with
  | false =>
    obtain ⟨k, hop⟩ := opExchange_rel_dead run p e add vals rem rels s.w HB.unlocked ha
    have hf := HB.find_of_dead hi ha
    exact hrejected hop (by rintro ⟨en, hen, _⟩; rw [hf] at hen; cases hen)
  | true =>
    obtain ⟨en, hf, hm⟩ := HB.find_of_alive hi ha
    obtain ⟨_, _, h2, hnf, _, hsl⟩ := HB.live_facts hm
    have ok := HB.ok e en hm
    have hmask : ∀ (c : Comp), (s.w.maskOf e).get c = true ↔ c ∈ keys en.comps := fun c => by
      rw [HB.tinv.mask_iff_comps h2 hnf ha (Pool.lt_of_slot hsl) ok.comps c, HB.comps_iff hm c]
    have hnotpre : ¬ XchgOK s.ss en add rem rels → ¬ preXchg s.ss e add rem rels := by
      rintro hn ⟨en', hen', hp⟩
      rw [hf] at hen'
      rw [← Option.some.inj hen'] at hp
      exact hn hp
    by_cases hv1 : ¬ (add = [] ∧ rem = []) ∧ rem.Nodup ∧ (∀ c ∈ rem, c ∈ keys en.comps) ∧
        add.Nodup ∧ ∀ c ∈ add, c < s.ss.zst.length ∧ c ∉ keys en.comps
    case neg =>
      have hpanic : ∃ k, opExchange run p e add vals rem rels s.w = .panic k s.w := by
        by_cases hne : add = [] ∧ rem = []
        · obtain ⟨rfl, rfl⟩ := hne
          exact opExchange_rel_empty run p e vals rels s.w HB.unlocked
        · apply opExchange_rel_misfit run p e add vals rem rels s.w HB.unlocked hb256
          rintro ⟨k1, k2, k3, k4⟩
          refine hv1 ⟨hne, k1, fun c hc => (hmask c).mp (k2 c hc), k3, fun c hc => ⟨hreg c hc, ?_⟩⟩
          intro hk
          have := (hmask c).mpr hk
          rw [k4 c hc] at this; cases this
      obtain ⟨k, hop⟩ := hpanic
      exact hrejected hop (hnotpre fun hp => hv1 hp.1)
    by_cases hv : TargetsValid s.ss.ents rels
    case neg =>
      obtain ⟨r, hr, hz, hd⟩ := dead_of_invalid HB hx hv
      obtain ⟨k, hop⟩ := opExchange_rel_badRel run p e add vals rem rels s.w HB.unlocked
        ⟨r, hr, Or.inl ⟨hz, hd⟩⟩
      exact hrejected hop (hnotpre fun hp => hv hp.2.2)
    obtain ⟨hne, hremnd, hremhas, haddnd, hall⟩ := hv1
    have hok : XchgOK s.ss en add rem rels :=
      ⟨⟨hne, hremnd, hremhas, haddnd, hall⟩, ⟨hrnd, hrin, hrall⟩, hv⟩
    have hpw : XchgPre s.w e add rem rels :=
      { nonempty := hne
        remNodup := hremnd
        remHas := fun c hc => (hmask c).mpr (hremhas c hc)
        addNodup := haddnd
        addReg := hreg'
        addNew := by
          intro c hc
          cases hgc : (s.w.maskOf e).get c with
          | false => rfl
          | true => exact absurd ((hmask c).mp hgc) (hall c hc).2
        relsNodup := hrnd
        relsIn := hin
        relsRel := hrc
        relsAll := fun c hc hr => hrall c hc (by rw [HB.rget]; exact hr)
        targets := HB.targets_alive hv }
    obtain ⟨w', hop, post, qk, ck⟩ := opExchange_rel_keep run p HB.tinv HB.unlocked HB.noObs h2 hnf
      ha (Pool.lt_of_slot hsl) hpw vals (HB.tgts_in hx) hfew hent
    have hstep : stepRB run s (.xchg p e add vals rem rels) =
        ⟨w', s.issued, ⟨upd s.ss.ents e (xchgEntry s.ss.zst add vals rem rels),
          s.ss.zst, s.ss.isRel⟩⟩ := by
      show stepBatch run s (.xchg p e add vals rem rels) = _
      simp only [stepBatch, show guardRB s (.xchg p e add vals rem rels) = true from hg, if_true,
        execRB, hop, Res.state, retRB, List.reverse_nil, List.nil_append, specStepRB, specXchg, hf,
        if_pos hok]
    refine ⟨⟨fl, ?_⟩, ?_, fun _ hnp => absurd ⟨en, hf, hok⟩ hnp, fun _ _ => ⟨_, hop⟩⟩
    case refine_2 =>
      rw [hstep]
      exact ⟨post.tablesLen, post.relArchs, post.entitiesLen⟩
    rw [hstep]
    refine ⟨?_, qk.rows H.rows, by
      show ∃ (lf : List Nat), Lock.LInv ⟨w'.locks, []⟩ lf
      rw [post.locks]; exact H.lock⟩
    have hk : keys (xchgEntry s.ss.zst add vals rem rels en).comps =
        ((keys en.comps).filter fun c => decide (c ∉ rem)) ++ add := by
      show keys (writeComps s.ss.zst vals
        ((en.comps.filter fun cv => decide (cv.1 ∉ rem)) ++ zeros add)) = _
      rw [Refine.keys_writeComps, Refine.keys_append, Refine.keys_zeros, keys_filter_eq]
    have hmemk : ∀ (c : Comp), c ∈ keys (xchgEntry s.ss.zst add vals rem rels en).comps ↔
        ((c ∈ keys en.comps ∧ c ∉ rem) ∨ c ∈ add) := by
      intro c
      rw [hk, List.mem_append, List.mem_filter]
      simp only [decide_eq_true_eq]
    refine HB.update hm _ post.tinv post.pool post.locks post.obs post.kinds post.maxComps
      post.frame ?_ ?_
    · exact
        { nodup := by
            rw [hk]
            refine List.nodup_append.mpr ⟨ok.nodup.sublist List.filter_sublist, haddnd, ?_⟩
            intro a ha' b hb hab
            exact (hall b hb).2 (hab ▸ (List.mem_filter.mp ha').1)
          reg := by
            intro c hc
            rcases (hmemk c).mp hc with h1 | h1
            · exact ok.reg c h1.1
            · exact hreg' c h1
          comps := by
            rw [post.comps _ ok.comps, hk, sortedIds_filter_append_sorted]
          vals := by
            intro cv hcv
            obtain ⟨v, hv', hval⟩ := Refine.mem_writeComps
              (show cv ∈ writeComps s.ss.zst vals
                ((en.comps.filter fun cv => decide (cv.1 ∉ rem)) ++ zeros add) from hcv)
            rcases List.mem_append.mp hv' with h1 | h1
            · obtain ⟨h3, h4⟩ := List.mem_filter.mp h1
              have hnot : cv.1 ∉ rem := by simpa using h4
              rw [post.kept cv.1 v (ok.vals (cv.1, v) h3) hnot, hval, HB.zget]
            · simp only [zeros, List.mem_map] at h1
              obtain ⟨c, hc, hcv'⟩ := h1
              injection hcv' with h3 h4
              rw [← h3] at hval ⊢
              rw [post.added c hc, hval, ← h4, HB.zget]
          relNodup := by
            show (((en.rels.filter fun r => decide (r.comp ∉ rem)) ++ rels).map (·.comp)).Nodup
            rw [List.map_append]
            refine List.nodup_append.mpr
              ⟨ok.relNodup.sublist (List.Sublist.map _ List.filter_sublist), hrnd, ?_⟩
            intro a ha' b hb hab
            obtain ⟨r1, hr1, rfl⟩ := List.mem_map.mp ha'
            have h1 := ((ok.relKeys r1.comp).mp
              (List.mem_map.mpr ⟨r1, (List.mem_filter.mp hr1).1, rfl⟩)).1
            obtain ⟨r, hr, rfl⟩ := List.mem_map.mp hb
            exact (hall r.comp (hin r hr)).2 (hab ▸ h1)
          relKeys := by
            intro c
            show c ∈ ((en.rels.filter fun r => decide (r.comp ∉ rem)) ++ rels).map (·.comp) ↔
              c ∈ keys (xchgEntry s.ss.zst add vals rem rels en).comps ∧ _
            rw [hmemk, List.map_append, List.mem_append]
            constructor
            · rintro (h1 | h1)
              · obtain ⟨r, hr, rfl⟩ := List.mem_map.mp h1
                obtain ⟨k1, k2⟩ := List.mem_filter.mp hr
                have hnot : r.comp ∉ rem := by simpa using k2
                obtain ⟨k3, k4⟩ := (ok.relKeys r.comp).mp (List.mem_map.mpr ⟨r, k1, rfl⟩)
                exact ⟨Or.inl ⟨k3, hnot⟩, k4⟩
              · obtain ⟨r, hr, rfl⟩ := List.mem_map.mp h1
                exact ⟨Or.inr (hin r hr), (hrin r hr).2⟩
            · rintro ⟨⟨k1, hnot⟩ | k1, k2⟩
              · left
                obtain ⟨r, hr, rfl⟩ := List.mem_map.mp ((ok.relKeys c).mpr ⟨k1, k2⟩)
                exact List.mem_map.mpr ⟨r, List.mem_filter.mpr ⟨hr, by simpa using hnot⟩, rfl⟩
              · exact Or.inr (hrall c k1 k2)
          tgts := by
            intro r hr
            rcases List.mem_append.mp
              (show r ∈ (en.rels.filter fun r => decide (r.comp ∉ rem)) ++ rels from hr) with h1 | h1
            · obtain ⟨k1, k2⟩ := List.mem_filter.mp h1
              have hnot : r.comp ∉ rem := by simpa using k2
              exact post.oldTargets r.comp r.target (ok.tgts r k1) hnot
            · exact post.targets r h1 }
    · intro r hr
      rcases List.mem_append.mp
        (show r ∈ (en.rels.filter fun r => decide (r.comp ∉ rem)) ++ rels from hr) with h1 | h1
      · exact HB.tgtsOK e en hm r (List.mem_filter.mp h1).1
      · exact hv r h1

/-! ## specification level: the fold of the single `Exchange` steps -/

theorem specXchg_zst (ss : SS) (e : Ent) (add : List Comp) (vals : Comps) (rem : List Comp)
    (rels : Rels) : (specXchg ss e add vals rem rels).zst = ss.zst ∧
      (specXchg ss e add vals rem rels).isRel = ss.isRel := by
  simp only [specXchg]
  split
  · exact ⟨rfl, rfl⟩
  · split <;> exact ⟨rfl, rfl⟩

theorem specXchgAll_zst (ss : SS) (add rem : List Comp) (rels : Rels) (es : List Ent) :
    (specXchgAll ss add rem rels es).zst = ss.zst ∧
      (specXchgAll ss add rem rels es).isRel = ss.isRel := by
  induction es generalizing ss with
  | nil => exact ⟨rfl, rfl⟩
  | cons e es ih =>
    show (specXchgAll (specXchg ss e add [] rem rels) add rem rels es).zst = ss.zst ∧
      (specXchgAll (specXchg ss e add [] rem rels) add rem rels es).isRel = ss.isRel
    rw [(ih _).1, (ih _).2]
    exact specXchg_zst ss e add [] rem rels

/-- the part of the precondition of `Exchange` that does not depend on the entity -/
def XchgGlobal (ss : SS) (add rem : List Comp) (rels : Rels) : Prop :=
  ¬ (add = [] ∧ rem = []) ∧ (∀ c ∈ add, c < ss.zst.length) ∧ RelsWF ss.isRel add rels ∧
    TargetsValid ss.ents rels

theorem xchgOK_of {ss : SS} {en : Entry} {add rem : List Comp} {rels : Rels}
    (hgl : XchgGlobal ss add rem rels) (hl : XchgLocal en add rem) : XchgOK ss en add rem rels :=
  ⟨⟨hgl.1, hl.1, hl.2.1, hl.2.2.1, fun c hc => ⟨hgl.2.1 c hc, hl.2.2.2 c hc⟩⟩, hgl.2.2.1, hgl.2.2.2⟩

/-- **the fold of valid single `Exchange` steps, in closed form** (independent of the order) -/
theorem specXchgAll_ok (add rem : List Comp) (rels : Rels) : ∀ (es : List Ent) (ss : SS),
    (ss.ents.map (·.1)).Nodup → es.Nodup → XchgGlobal ss add rem rels →
    (∀ e ∈ es, ∃ en, find ss.ents e = some en ∧ XchgLocal en add rem) →
    (specXchgAll ss add rem rels es).ents =
      ss.ents.map fun x => if x.1 ∈ es then (x.1, xchgEntry ss.zst add [] rem rels x.2) else x
  | [], ss, _, _, _, _ => by
    show ss.ents = _
    simp only [List.not_mem_nil, if_false, List.map_id']
  | e :: es, ss, hnd, hes, hgl, hall => by
    show (specXchgAll (specXchg ss e add [] rem rels) add rem rels es).ents = _
    obtain ⟨hne, hes'⟩ := List.nodup_cons.mp hes
    obtain ⟨en, hf, hloc⟩ := hall e List.mem_cons_self
    have hok : XchgOK ss en add rem rels := xchgOK_of hgl hloc
    have h1 : specXchg ss e add [] rem rels =
        { ss with ents := upd ss.ents e (xchgEntry ss.zst add [] rem rels) } := by
      simp only [specXchg, hf, if_pos hok]
    rw [h1]
    have hk : (upd ss.ents e (xchgEntry ss.zst add [] rem rels)).map (·.1) = ss.ents.map (·.1) :=
      upd_keys _ _ _
    have ih := specXchgAll_ok add rem rels es
      { ss with ents := upd ss.ents e (xchgEntry ss.zst add [] rem rels) }
      (by show ((upd ss.ents e (xchgEntry ss.zst add [] rem rels)).map (·.1)).Nodup; rw [hk]; exact hnd)
      hes' ⟨hgl.1, hgl.2.1, hgl.2.2.1, targetsValid_of_keys hk hgl.2.2.2⟩
      (by
        intro e' he'
        obtain ⟨en', hf', hloc'⟩ := hall e' (List.mem_cons_of_mem _ he')
        have hne' : e' ≠ e := fun hh => hne (hh ▸ he')
        refine ⟨en', ?_, hloc'⟩
        show find (upd ss.ents e (xchgEntry ss.zst add [] rem rels)) e' = some en'
        rw [find_upd_ne _ _ hne']; exact hf')
    rw [ih]
    show (upd ss.ents e (xchgEntry ss.zst add [] rem rels)).map _ = _
    rw [upd_eq_map, List.map_map]
    apply List.map_congr_left
    intro x _
    simp only [Function.comp]
    by_cases hx : x.1 = e
    · rw [if_pos hx]
      have h2 : x.1 ∉ es := hx ▸ hne
      rw [if_neg h2, if_pos (by rw [hx]; exact List.mem_cons_self)]
    · rw [if_neg hx]
      by_cases h2 : x.1 ∈ es
      · rw [if_pos h2, if_pos (List.mem_cons_of_mem _ h2)]
      · rw [if_neg h2, if_neg (fun hh => by
          rcases List.mem_cons.mp hh with k | k
          · exact hx k
          · exact h2 k)]

/-- if no single step is valid, the fold changes nothing -/
theorem specXchgAll_rej (add rem : List Comp) (rels : Rels) : ∀ (es : List Ent) (ss : SS),
    (∀ e ∈ es, ∀ en, find ss.ents e = some en → ¬ XchgOK ss en add rem rels) →
    specXchgAll ss add rem rels es = ss
  | [], _, _ => rfl
  | e :: es, ss, hall => by
    show specXchgAll (specXchg ss e add [] rem rels) add rem rels es = ss
    have h1 : specXchg ss e add [] rem rels = ss := by
      simp only [specXchg]
      cases hf : find ss.ents e with
      | none => rfl
      | some en => simp only [if_neg (hall e List.mem_cons_self en hf)]
    rw [h1]
    exact specXchgAll_rej add rem rels es ss (fun e' he' => hall e' (List.mem_cons_of_mem _ he'))

/-- **frame** (specification): the fold changes only the entries of the handles of `es` -/
theorem specXchgAll_frame (add rem : List Comp) (rels : Rels) (x : Ent) :
    ∀ (es : List Ent) (ss : SS), x ∉ es →
    find (specXchgAll ss add rem rels es).ents x = find ss.ents x
  | [], _, _ => rfl
  | e :: es, ss, hx => by
    show find (specXchgAll (specXchg ss e add [] rem rels) add rem rels es).ents x = _
    simp only [List.mem_cons, not_or] at hx
    rw [specXchgAll_frame add rem rels x es _ hx.2]
    simp only [specXchg]
    cases hf : find ss.ents e with
    | none => rfl
    | some en =>
      by_cases hok : XchgOK ss en add rem rels
      · simp only [if_pos hok]; exact find_upd_ne _ _ hx.1
      · simp only [if_neg hok]

/-- the closed form depends on the set of handles only -/
theorem specXchgAll_perm {ss : SS} (add rem : List Comp) (rels : Rels)
    (hnd : (ss.ents.map (·.1)).Nodup) {es es' : List Ent} (hes : es.Nodup) (hes' : es'.Nodup)
    (hgl : XchgGlobal ss add rem rels)
    (hall : ∀ e ∈ es, ∃ en, find ss.ents e = some en ∧ XchgLocal en add rem)
    (hmem : ∀ (e : Ent), e ∈ es ↔ e ∈ es') :
    specXchgAll ss add rem rels es = specXchgAll ss add rem rels es' := by
  have h1 := specXchgAll_ok add rem rels es ss hnd hes hgl hall
  have h2 := specXchgAll_ok add rem rels es' ss hnd hes' hgl (fun e he => hall e ((hmem e).mpr he))
  have h3 : (specXchgAll ss add rem rels es).ents = (specXchgAll ss add rem rels es').ents := by
    rw [h1, h2]
    apply List.map_congr_left
    intro x _
    simp only [hmem]
  have h4 := specXchgAll_zst ss add rem rels es
  have h5 := specXchgAll_zst ss add rem rels es'
  cases hA : specXchgAll ss add rem rels es
  cases hB : specXchgAll ss add rem rels es'
  rw [hA] at h3 h4
  rw [hB] at h3 h5
  simp only at h3 h4 h5
  rw [h3, h4.1, h4.2, h5.1, h5.2]

/-! ## any world that exchanged on `es` realises the fold of the single exchanges -/

/-- **the exchange on a duplicate-free list of specified handles keeps the invariant**, whatever
    produced the world (`XchgAllPost`, pool and mask width kept) -/
theorem HInv.xchgAll {s : St} {fl : List Nat} (H : HInv s fl) {es : List Ent}
    {add rem : List Comp} {rels : Rels} {w' : World}
    (hsub : ∀ e ∈ es, e ∈ s.ss.ents.map (·.1))
    (hgl : XchgGlobal s.ss add rem rels)
    (hall : ∀ (e : Ent) (en : Entry), e ∈ es → (e, en) ∈ s.ss.ents → XchgLocal en add rem)
    (post : XchgAllPost s.w fl es add rem rels w')
    (hpool : w'.pool = s.w.pool) (hmax : w'.maxComps = s.w.maxComps) :
    HInv ⟨w', s.issued,
      ⟨s.ss.ents.map fun x => if x.1 ∈ es then (x.1, xchgEntry s.ss.zst add [] rem rels x.2) else x,
        s.ss.zst, s.ss.isRel⟩⟩ fl := by
  obtain ⟨hne, hreg, ⟨hrnd, hrin, hrall⟩, hv⟩ := hgl
  have hreg' : ∀ (c : Comp), c ∈ add → c < s.w.kinds.length := by rw [← H.zlen]; exact hreg
  have hin : ∀ (r : RelID), r ∈ rels → r.comp ∈ add := fun r hr => (hrin r hr).1
  have hkeys : (s.ss.ents.map fun x =>
      if x.1 ∈ es then (x.1, xchgEntry s.ss.zst add [] rem rels x.2) else x).map (·.1) =
      s.ss.ents.map (·.1) := by
    rw [List.map_map]
    apply List.map_congr_left
    intro x _
    simp only [Function.comp]
    split <;> rfl
  have hid : ∀ (x : Ent) (en : Entry), (x, en) ∈ s.ss.ents → x ∉ es → x.id ∉ es.map (·.id) := by
    intro x en hx hne hmm
    obtain ⟨e, he, heq⟩ := List.mem_map.mp hmm
    obtain ⟨y, hy, hy1⟩ := List.mem_map.mp (hsub e he)
    have : e = x := H.id_inj (show (e, y.2) ∈ s.ss.ents from hy1 ▸ hy) hx heq
    exact hne (this ▸ he)
  have hmem : ∀ (x : Ent) (en' : Entry),
      (x, en') ∈ (s.ss.ents.map fun x =>
        if x.1 ∈ es then (x.1, xchgEntry s.ss.zst add [] rem rels x.2) else x) →
      ∃ en, (x, en) ∈ s.ss.ents ∧
        ((x ∈ es ∧ en' = xchgEntry s.ss.zst add [] rem rels en) ∨ (x ∉ es ∧ en' = en)) := by
    intro x en' hx
    obtain ⟨y, hy, heq⟩ := List.mem_map.mp hx
    by_cases hy1 : y.1 ∈ es
    · rw [if_pos hy1] at heq
      injection heq with h1 h2
      subst h1
      exact ⟨y.2, hy, Or.inl ⟨hy1, h2.symm⟩⟩
    · rw [if_neg hy1] at heq
      subst heq
      exact ⟨_, hy, Or.inr ⟨hy1, rfl⟩⟩
  exact
    { tinv := post.tinv
      ginv := by
        have : (⟨w', s.issued, ⟨s.ss.ents.map fun x =>
            if x.1 ∈ es then (x.1, xchgEntry s.ss.zst add [] rem rels x.2) else x, s.ss.zst,
            s.ss.isRel⟩⟩ : St).ps = s.ps := by
          simp only [St.ps, hpool, hkeys]
        rw [this]; exact H.ginv
      unlocked := by
        show w'.isLocked = false
        rw [post.unlocked]; exact H.unlocked
      noObs := fun evt => by show w'.obs.hasObservers evt = false; rw [post.obs]; exact H.noObs evt
      nodup := H.nodup
      zstEq := by show s.ss.zst = w'.kinds.map (·.zst); rw [post.kinds]; exact H.zstEq
      relEq := by show s.ss.isRel = w'.kinds.map (·.isRel); rw [post.kinds]; exact H.relEq
      maxc := hmax.trans H.maxc
      ok := by
        intro x en' hx
        show EntOK w' w'.kinds.length s.ss.isRel x en'
        rw [post.kinds]
        obtain ⟨en, hx0, hcase⟩ := hmem x en' hx
        have ok := H.ok x en hx0
        rcases hcase with ⟨hxin, h2⟩ | ⟨hnin, h2⟩
        · subst h2
          obtain ⟨hremnd, hremhas, haddnd, haddnew⟩ := hall x en hxin hx0
          have hk : keys (xchgEntry s.ss.zst add [] rem rels en).comps =
              ((keys en.comps).filter fun c => decide (c ∉ rem)) ++ add := by
            show keys (writeComps s.ss.zst []
              ((en.comps.filter fun cv => decide (cv.1 ∉ rem)) ++ zeros add)) = _
            rw [Refine.keys_writeComps, Refine.keys_append, Refine.keys_zeros, keys_filter_eq]
          have hmemk : ∀ (c : Comp), c ∈ keys (xchgEntry s.ss.zst add [] rem rels en).comps ↔
              ((c ∈ keys en.comps ∧ c ∉ rem) ∨ c ∈ add) := by
            intro c
            rw [hk, List.mem_append, List.mem_filter]
            simp only [decide_eq_true_eq]
          exact
            { nodup := by
                rw [hk]
                refine List.nodup_append.mpr ⟨ok.nodup.sublist List.filter_sublist, haddnd, ?_⟩
                intro a ha' b hb hab
                exact haddnew b hb (hab ▸ (List.mem_filter.mp ha').1)
              reg := by
                intro c hc
                rcases (hmemk c).mp hc with h1 | h1
                · exact ok.reg c h1.1
                · exact hreg' c h1
              comps := by
                rw [post.comps x hxin _ ok.comps, hk, sortedIds_filter_append_sorted]
              vals := by
                intro cv hcv
                obtain ⟨v, hv', hval⟩ := Refine.mem_writeComps
                  (show cv ∈ writeComps s.ss.zst []
                    ((en.comps.filter fun cv => decide (cv.1 ∉ rem)) ++ zeros add) from hcv)
                have hval' : cv.2 = v := by
                  rw [hval]; simp only [applyVals, List.foldl_nil, ite_self]
                rcases List.mem_append.mp hv' with h1 | h1
                · obtain ⟨h3, h4⟩ := List.mem_filter.mp h1
                  have hnot : cv.1 ∉ rem := by simpa using h4
                  rw [post.kept x hxin cv.1 v (ok.vals (cv.1, v) h3) hnot, hval']
                · simp only [zeros, List.mem_map] at h1
                  obtain ⟨c, hc, hcv'⟩ := h1
                  injection hcv' with h3 h4
                  rw [← h3, post.added x hxin c hc, hval', ← h4]
              relNodup := by
                show (((en.rels.filter fun r => decide (r.comp ∉ rem)) ++ rels).map (·.comp)).Nodup
                rw [List.map_append]
                refine List.nodup_append.mpr
                  ⟨ok.relNodup.sublist (List.Sublist.map _ List.filter_sublist), hrnd, ?_⟩
                intro a ha' b hb hab
                obtain ⟨r1, hr1, rfl⟩ := List.mem_map.mp ha'
                have h1 := ((ok.relKeys r1.comp).mp
                  (List.mem_map.mpr ⟨r1, (List.mem_filter.mp hr1).1, rfl⟩)).1
                obtain ⟨r, hr, rfl⟩ := List.mem_map.mp hb
                exact haddnew r.comp (hin r hr) (hab ▸ h1)
              relKeys := by
                intro c
                show c ∈ ((en.rels.filter fun r => decide (r.comp ∉ rem)) ++ rels).map (·.comp) ↔
                  c ∈ keys (xchgEntry s.ss.zst add [] rem rels en).comps ∧ _
                rw [hmemk, List.map_append, List.mem_append]
                constructor
                · rintro (h1 | h1)
                  · obtain ⟨r, hr, rfl⟩ := List.mem_map.mp h1
                    obtain ⟨k1, k2⟩ := List.mem_filter.mp hr
                    have hnot : r.comp ∉ rem := by simpa using k2
                    obtain ⟨k3, k4⟩ := (ok.relKeys r.comp).mp (List.mem_map.mpr ⟨r, k1, rfl⟩)
                    exact ⟨Or.inl ⟨k3, hnot⟩, k4⟩
                  · obtain ⟨r, hr, rfl⟩ := List.mem_map.mp h1
                    exact ⟨Or.inr (hin r hr), (hrin r hr).2⟩
                · rintro ⟨⟨k1, hnot⟩ | k1, k2⟩
                  · left
                    obtain ⟨r, hr, rfl⟩ := List.mem_map.mp ((ok.relKeys c).mpr ⟨k1, k2⟩)
                    exact List.mem_map.mpr ⟨r, List.mem_filter.mpr ⟨hr, by simpa using hnot⟩, rfl⟩
                  · exact Or.inr (hrall c k1 k2)
              tgts := by
                intro r hr
                rcases List.mem_append.mp
                  (show r ∈ (en.rels.filter fun r => decide (r.comp ∉ rem)) ++ rels from hr) with
                  h1 | h1
                · obtain ⟨k1, k2⟩ := List.mem_filter.mp h1
                  have hnot : r.comp ∉ rem := by simpa using k2
                  exact (post.targetIff x hxin r.comp r.target).mpr (Or.inl ⟨hnot, ok.tgts r k1⟩)
                · exact (post.targetIff x hxin r.comp r.target).mpr (Or.inr h1) }
        · rw [h2]
          exact ok.frame (post.frame x.id (hid x en hx0 hnin)).1
            (post.frame x.id (hid x en hx0 hnin)).2
      tgtsOK := by
        intro x en' hx r hr
        have key : r.target.isZero = true ∨ (find s.ss.ents r.target).isSome = true := by
          obtain ⟨en, hx0, hcase⟩ := hmem x en' hx
          rcases hcase with ⟨_, h2⟩ | ⟨_, h2⟩
          · subst h2
            rcases List.mem_append.mp
              (show r ∈ (en.rels.filter fun r => decide (r.comp ∉ rem)) ++ rels from hr) with
              h1 | h1
            · exact H.tgtsOK x en hx0 r (List.mem_filter.mp h1).1
            · exact hv r h1
          · rw [h2] at hr
            exact H.tgtsOK x en hx0 r hr
        rcases key with k | k
        · exact Or.inl k
        · right
          rw [find_isSome_iff] at k ⊢
          rw [hkeys]; exact k }

/-! ## the batch step -/

theorem stepRB_xchgb_of_ok (run : ProbeRunner) {s : St} {p : Path} {f : Filter}
    {frels : Rels} {add rem : List Comp} {rels : Rels}
    (hg : guardRB s (.xchgb p f frels add rem rels) = true) {w' : World}
    (hop : opExchangeBatch run p (foOf f frels) [] add rem rels none s.w = .ok () w') :
    stepRB run s (.xchgb p f frels add rem rels) =
      ⟨w', s.issued, specStepRB s.ss [] (.xchgb p f frels add rem rels)⟩ := by
  show stepBatch run s (.xchgb p f frels add rem rels) = _
  simp only [stepBatch, hg, if_true, execRB, hop, Res.state, retRB, List.reverse_nil,
    List.nil_append]

/-- reading the guard of `xchgb` -/
theorem guard_xchgb {s : St} {p : Path} {f : Filter} {frels : Rels} {add rem : List Comp}
    {rels : Rels} (hg : guardRB s (.xchgb p f frels add rem rels) = true) :
    frelsExpr s.ss f frels = true ∧ (∀ c ∈ add, c < s.ss.zst.length) ∧
      RelsStep s.ss.isRel p add rels ∧ tgtsExpr s rels = true ∧
      ((add = [] ∧ rem = []) ∨ ∀ (x : Ent) (en : Entry), (x, en) ∈ s.ss.ents →
        entryMatches f frels en = true → XchgLocal en add rem) := by
  simp only [guardRB, Bool.and_eq_true, Bool.or_eq_true, List.all_eq_true, decide_eq_true_eq,
    List.isEmpty_iff, Bool.not_eq_true'] at hg
  refine ⟨hg.1.1.1.1, hg.1.1.1.2, hg.1.1.2, hg.1.2, ?_⟩
  rcases hg.2 with k | k
  · exact Or.inl k
  · right
    intro x en hx hm
    rcases k (x, en) hx with k1 | k1
    · rw [hm] at k1; cases k1
    · exact k1

/-- the precondition of `Exchange`, on the world, for a specified entity whose entry satisfies
    the precondition on the specification -/
theorem xchgPre_of_ok {s : St} {fl : List Nat} (H : HInv s fl) {e : Ent} {en : Entry}
    (hm : (e, en) ∈ s.ss.ents) {add rem : List Comp} {rels : Rels}
    (hok : XchgOK s.ss en add rem rels) : XchgPre s.w e add rem rels := by
  obtain ⟨⟨hne, hremnd, hremhas, haddnd, hall⟩, ⟨hrnd, hrin, hrall⟩, hv⟩ := hok
  obtain ⟨_, ha, h2, hnf, _, hsl⟩ := H.live_facts hm
  have ok := H.ok e en hm
  have hmask : ∀ (c : Comp), (s.w.maskOf e).get c = true ↔ c ∈ keys en.comps := fun c => by
    rw [H.tinv.mask_iff_comps h2 hnf ha (Pool.lt_of_slot hsl) ok.comps c, H.comps_iff hm c]
  exact
    { nonempty := hne
      remNodup := hremnd
      remHas := fun c hc => (hmask c).mpr (hremhas c hc)
      addNodup := haddnd
      addReg := fun c hc => by rw [← H.zlen]; exact (hall c hc).1
      addNew := by
        intro c hc
        cases hgc : (s.w.maskOf e).get c with
        | false => rfl
        | true => exact absurd ((hmask c).mp hgc) (hall c hc).2
      relsNodup := hrnd
      relsIn := fun r hr => (hrin r hr).1
      relsRel := fun r hr => by rw [← H.rget]; exact (hrin r hr).2
      relsAll := fun c hc hr => hrall c hc (by rw [H.rget]; exact hr)
      targets := H.targets_alive hv }

/-- **the exchange batch over relation tables as a step of the machine.** -/
theorem step_xchgb (run : ProbeRunner) {s : St} {fl : List Nat} (H : HInvRB s fl) (p : Path)
    (f : Filter) (frels : Rels) (add rem : List Comp) (rels : Rels)
    (hg : guardRB s (.xchgb p f frels add rem rels) = true)
    (hroom : Room s (.xchgb p f frels add rem rels)) :
    (¬ preRB s.ss (.xchgb p f frels add rem rels) →
      (∃ k, opExchangeBatch run p (foOf f frels) [] add rem rels none s.w = .panic k s.w) ∧
      stepRB run s (.xchgb p f frels add rem rels) = s) ∧
    (preRB s.ss (.xchgb p f frels add rem rels) →
      ∃ w' : World,
        opExchangeBatch run p (foOf f frels) [] add rem rels none s.w = .ok () w' ∧
        stepRB run s (.xchgb p f frels add rem rels) =
          ⟨w', s.issued, specStepRB s.ss [] (.xchgb p f frels add rem rels)⟩ ∧
        XchgAllPost s.w fl (selEnts s.w f frels) add rem rels w' ∧
        XchgAllMore s.w w' s.w.tables.length ∧
        specStepRB s.ss [] (.xchgb p f frels add rem rels) =
          specXchgAll s.ss add rem rels (selEnts s.w f frels) ∧
        (specStepRB s.ss [] (.xchgb p f frels add rem rels)).ents = (s.ss.ents.map fun x =>
          if x.1 ∈ matching s.ss f frels then (x.1, xchgEntry s.ss.zst add [] rem rels x.2)
          else x) ∧
        HInvRB (stepRB run s (.xchgb p f frels add rem rels)) fl) := by
  have h := H.hinv.tinv
  have HB := H.hinv
  obtain ⟨hgx, hreg, hst, hx, hcase⟩ := guard_xchgb hg
  obtain ⟨hrnd, hrmap, hrall⟩ := hst
  obtain ⟨hfew, hrows⟩ := hroom
  have hnd := HB.ginv.live_nodup
  obtain ⟨ts, hts, S, hsel, hiff, hids, hlen⟩ := sel_spec H hgx
  have hreg' : ∀ (c : Comp), c ∈ add → c < s.w.kinds.length := by rw [← HB.zlen]; exact hreg
  constructor
  · -- rejected
    intro hnp
    have hrej : ∀ {k : PanicKind},
        opExchangeBatch run p (foOf f frels) [] add rem rels none s.w = .panic k s.w →
        (∀ e ∈ matching s.ss f frels, ∀ en, find s.ss.ents e = some en →
          ¬ XchgOK s.ss en add rem rels) →
        (∃ k, opExchangeBatch run p (foOf f frels) [] add rem rels none s.w = .panic k s.w) ∧
          stepRB run s (.xchgb p f frels add rem rels) = s := by
      intro k hop hall
      refine ⟨⟨k, hop⟩, ?_⟩
      show stepBatch run s (.xchgb p f frels add rem rels) = s
      simp only [stepBatch, hg, if_true, execRB, hop, Res.state, retRB, List.reverse_nil,
        List.nil_append, specStepRB]
      rw [specXchgAll_rej add rem rels _ s.ss hall]
    -- a valid single step would make the precondition of the batch hold
    have hnone : ∀ e ∈ matching s.ss f frels, ∀ en, find s.ss.ents e = some en →
        ¬ XchgOK s.ss en add rem rels := by
      intro e _ en _ hok
      exact hnp ⟨hok.1.1, hok.2.1.2.1, hok.2.2⟩
    by_cases hne : add = [] ∧ rem = []
    · obtain ⟨rfl, rfl⟩ := hne
      obtain ⟨k, hop⟩ := opExchangeBatch_noComponents run p (foOf f frels) [] rels none s.w
        HB.unlocked
      exact hrej hop hnone
    · cases hvd : relsVerdict s.w (checkMask p add) rels with
      | some k =>
        exact hrej (opExchangeBatch_refused run p (foOf f frels) [] add rem rels none s.w hvd) hnone
      | none =>
        -- the pre-validation passes: then the precondition holds
        exfalso
        apply hnp
        have hall : ∀ r ∈ rels, relVerdict s.w (checkMask p add) r = none :=
          List.findSome?_eq_none_iff.mp hvd
        refine ⟨hne, fun r hr => ?_, fun r hr => ?_⟩
        · obtain ⟨_, h2, h3⟩ := relVerdict_none_iff.mp (hall r hr)
          refine ⟨?_, by rw [HB.rget]; exact h2⟩
          cases hp : p with
          | map1 => exact hrmap hp r hr
          | unsafe_ =>
            have := h3 (Mask.ofList add) (by rw [hp]; rfl)
            rw [Mask.get_ofList] at this
            simp only [Bool.and_eq_true, decide_eq_true_eq] at this
            exact this.2
          | typed =>
            have := h3 (Mask.ofList add) (by rw [hp]; rfl)
            rw [Mask.get_ofList] at this
            simp only [Bool.and_eq_true, decide_eq_true_eq] at this
            exact this.2
        · obtain ⟨h1, _, _⟩ := relVerdict_none_iff.mp (hall r hr)
          rcases h1 with k | k
          · exact Or.inl k
          · rcases (tgtsExpr_iff.mp hx) r hr with k2 | k2
            · exact Or.inl k2
            · right
              obtain ⟨en, hf, _⟩ := HB.find_of_alive k2 k
              rw [hf]; rfl
  · -- accepted
    rintro ⟨hne, hrin, hv⟩
    have hgl : XchgGlobal s.ss add rem rels := ⟨hne, hreg, ⟨hrnd, hrin, hrall⟩, hv⟩
    have hloc : ∀ (x : Ent) (en : Entry), (x, en) ∈ s.ss.ents → entryMatches f frels en = true →
        XchgLocal en add rem := by
      rcases hcase with k | k
      · exact absurd k hne
      · exact k
    have hrc : ∀ r ∈ rels, s.w.isRelComp r.comp = true := fun r hr => by
      rw [← HB.rget]; exact (hrin r hr).2
    have hval := HB.targets_alive hv
    -- the pre-validation passes
    have hverd : relsVerdict s.w (checkMask p add) rels = none := by
      simp only [relsVerdict]
      rw [List.findSome?_eq_none_iff]
      intro r hr
      rw [relVerdict_none_iff]
      refine ⟨hval r hr, hrc r hr, fun mm hmm => ?_⟩
      have hc256 : r.comp < 256 := HB.reg256 (hreg' r.comp (hrin r hr).1)
      cases p with
      | map1 => cases hmm
      | unsafe_ =>
        injection hmm with hmm
        rw [← hmm, Mask.get_ofList]
        simp only [Bool.and_eq_true, decide_eq_true_eq]
        exact ⟨hc256, (hrin r hr).1⟩
      | typed =>
        injection hmm with hmm
        rw [← hmm, Mask.get_ofList]
        simp only [Bool.and_eq_true, decide_eq_true_eq]
        exact ⟨hc256, (hrin r hr).1⟩
    have hpre : preCheck p add rels s.w = .ok () s.w := by rw [preCheck_eq, hverd]
    have heq := World.opExchangeBatch_rel_eq run p (foOf f frels) [] add rem rels none s.w hpre
    obtain ⟨lf, hlinv⟩ := H.lock
    obtain ⟨l1, b, l2, lf2, hcyc, heql, hl2inv⟩ := QueryExact.LockCycle.of_linv hlinv (by simp)
    have hl2 : l2.isLocked = false := by
      have : s.w.locks.isLocked = false := HB.unlocked
      simp only [Lock.isLocked] at this ⊢
      rw [heql]; exact this
    have hr := relsTyped_of_expr HB hgx
    obtain ⟨ts2, hts2, _, hokT, _⟩ := getBatchTables_rel h (foOf f frels) [] rfl hr
    rw [hts] at hts2
    injection hts2 with e1 _
    subst e1
    -- every selected entity satisfies the precondition
    have hokE : ∀ e ∈ selEnts s.w f frels, ∃ en, (e, en) ∈ s.ss.ents ∧
        XchgOK s.ss en add rem rels := by
      intro e he
      obtain ⟨en, hm, hmm⟩ := mem_matching.mp ((hiff e).mp he)
      exact ⟨en, hm, xchgOK_of hgl (hloc e en hm hmm)⟩
    have hpreM : ∀ (t : Nat), t < s.w.tables.length →
        TblMatch s.w (foOf f frels).filter ((foOf f frels).rels ++ []) t → (s.w.tbl t).len ≠ 0 →
        XchgPreM s.w (tmask s.w t) add rem rels := by
      intro t hlt hmatch hlen0
      have ht : t ∈ ts := hokT.complete t hlt hlen0 hmatch
      have hr0 : 0 < (s.w.tbl t).len := by omega
      have he : (s.w.tbl t).getEntity 0 ∈ selEnts s.w f frels := by
        rw [hsel]; exact mem_rows.mpr ⟨t, 0, ht, hr0, rfl⟩
      obtain ⟨en, hm, hok⟩ := hokE _ he
      have hxx := (h.link.row_live_id hlt hr0).2.2
      have hmk : s.w.maskOf ((s.w.tbl t).getEntity 0) = tmask s.w t := by
        simp only [maskOf, index_of_get hxx, tmask]
      rw [← hmk]
      exact (xchgPre_of_ok HB hm hok).toM
    obtain ⟨ts3, w', hts3, hb, pb, hlk⟩ := exchangeBatch_rel_spec run h HB.unlocked HB.noObs
      (foOf f frels) [] rfl hr hne hpreM (HB.targets_in hv) hcyc hl2 hfew hrows
    have more := exchangeBatch_rel_more run h HB.unlocked HB.noObs (foOf f frels) [] rfl hr hne hpreM
      (HB.targets_in hv) hcyc hfew hrows hb
    rw [hts] at hts3
    injection hts3 with e1 _
    subst e1
    rw [← hsel] at pb
    have hop : opExchangeBatch run p (foOf f frels) [] add rem rels none s.w = .ok () w' := by
      rw [heq]; exact hb
    have hstep := stepRB_xchgb_of_ok run hg hop
    have hallM : ∀ e ∈ matching s.ss f frels, ∃ en, find s.ss.ents e = some en ∧
        XchgLocal en add rem := by
      intro e he
      obtain ⟨en, hm, hmm⟩ := mem_matching.mp he
      exact ⟨en, find_of_mem hnd hm, hloc e en hm hmm⟩
    have hspec : specStepRB s.ss [] (.xchgb p f frels add rem rels) =
        specXchgAll s.ss add rem rels (selEnts s.w f frels) :=
      specXchgAll_perm add rem rels hnd (matching_nodup hnd f frels) (nodup_of_ids hids) hgl hallM
        (fun e => (hiff e).symm)
    have hents : (specStepRB s.ss [] (.xchgb p f frels add rem rels)).ents = (s.ss.ents.map fun x =>
        if x.1 ∈ matching s.ss f frels then (x.1, xchgEntry s.ss.zst add [] rem rels x.2)
        else x) :=
      specXchgAll_ok add rem rels _ s.ss hnd (matching_nodup hnd f frels) hgl hallM
    refine ⟨w', hop, hstep, pb, more, hspec, hents, ?_⟩
    rw [hstep]
    have hz := specXchgAll_zst s.ss add rem rels (matching s.ss f frels)
    have hsseq : specStepRB s.ss [] (.xchgb p f frels add rem rels) =
        ⟨s.ss.ents.map fun x =>
          if x.1 ∈ matching s.ss f frels then (x.1, xchgEntry s.ss.zst add [] rem rels x.2) else x,
          s.ss.zst, s.ss.isRel⟩ := by
      cases hA : specStepRB s.ss [] (.xchgb p f frels add rem rels) with
      | mk a b c =>
        rw [hA] at hents
        have hz' : (specStepRB s.ss [] (.xchgb p f frels add rem rels)).zst = s.ss.zst ∧
            (specStepRB s.ss [] (.xchgb p f frels add rem rels)).isRel = s.ss.isRel := hz
        rw [hA] at hz'
        simp only at hents hz'
        rw [hents, hz'.1, hz'.2]
    rw [hsseq]
    have pbM : XchgAllPost s.w fl (matching s.ss f frels) add rem rels w' :=
      { pb with
        comps := fun e he => pb.comps e ((hiff e).mpr he)
        kept := fun e he => pb.kept e ((hiff e).mpr he)
        added := fun e he => pb.added e ((hiff e).mpr he)
        targetIff := fun e he => pb.targetIff e ((hiff e).mpr he)
        frame := fun j hj => pb.frame j (fun hh => hj (by
          obtain ⟨e, he, rfl⟩ := List.mem_map.mp hh
          exact List.mem_map.mpr ⟨e, (hiff e).mp he, rfl⟩)) }
    refine ⟨HInv.xchgAll HB (fun e he => matching_sub he) hgl ?_ pbM more.pool more.maxComps,
      ?_, lf2, by rw [hlk]; exact hl2inv⟩
    · intro e en he hm
      exact hloc e en hm ((mem_matching_of_mem hnd f frels hm).mp he)
    · exact more.rows H.rows

/-! ## batch = singles, as steps of the machine -/

/-- the run of `xchg p e add [] rem rels` over issued handles: if the single `Exchange`s succeed
    (`xchgSeq`), the machine reaches the world they leave, the same handles, and the fold of the
    single specification steps -/
theorem runOpsRB_xchgs (run : ProbeRunner) (p : Path) (add rem : List Comp) (rels : Rels) :
    ∀ (es : List Ent) (s : St) (w'' : World),
    (∀ e ∈ es, e ∈ s.issued) → (∀ c ∈ add, c < s.ss.zst.length) → RelsStep s.ss.isRel p add rels →
    tgtsExpr s rels = true → xchgSeq run p add rem rels es s.w = .ok () w'' →
    runOpsRB run s (es.map fun e => .xchg p e add [] rem rels) =
      ⟨w'', s.issued, specXchgAll s.ss add rem rels es⟩
  | [], s, w'', _, _, _, _, h => by
    simp only [xchgSeq, M.forM', pure, M.pure] at h
    injection h with _ hw
    subst hw
    rfl
  | e :: es, s, w'', hi, hreg, hst, hx, h => by
    simp only [xchgSeq, M.forM', bind, M.bind] at h
    cases hop : opExchange run p e add [] rem rels s.w with
    | panic k w1 => rw [hop] at h; cases h
    | ok u w1 =>
      rw [hop] at h
      have hg : guardRB s (.xchg p e add [] rem rels) = true := by
        show guardXchg s p e add rels = true
        simp only [guardXchg, Bool.and_eq_true, List.all_eq_true, decide_eq_true_eq]
        exact ⟨⟨⟨hi e List.mem_cons_self, hreg⟩, hst⟩, hx⟩
      have hstep : stepRB run s (.xchg p e add [] rem rels) =
          ⟨w1, s.issued, specXchg s.ss e add [] rem rels⟩ := by
        show stepBatch run s (.xchg p e add [] rem rels) = _
        simp only [stepBatch, hg, if_true, execRB, hop, Res.state, retRB, List.reverse_nil,
          List.nil_append, specStepRB]
      show runOpsRB run (stepRB run s (.xchg p e add [] rem rels))
        (es.map fun e => .xchg p e add [] rem rels) = _
      rw [hstep]
      have hz := specXchg_zst s.ss e add [] rem rels
      exact runOpsRB_xchgs run p add rem rels es ⟨w1, s.issued, specXchg s.ss e add [] rem rels⟩ w''
        (fun e' he' => hi e' (List.mem_cons_of_mem _ he'))
        (by show ∀ c ∈ add, c < (specXchg s.ss e add [] rem rels).zst.length; rw [hz.1]; exact hreg)
        (by show RelsStep (specXchg s.ss e add [] rem rels).isRel p add rels; rw [hz.2]; exact hst)
        hx h

/-- **the exchange batch = the single `Exchange`s** (C06 over relation tables, as steps of the
    machine): for a valid call within the size bound of the singles, the step `xchgb` and the run
    of `xchg p e add [] rem rels` over the selected entities in the batch's order reach the same
    specification, the same issued handles, the same pool, and worlds that agree on the liveness
    of every handle and on the components, values and relation targets of every ID -/
theorem xchgb_eq_singles (run : ProbeRunner) {s : St} {fl : List Nat} (H : HInvRB s fl)
    (p : Path) (f : Filter) (frels : Rels) (add rem : List Comp) (rels : Rels)
    (hg : guardRB s (.xchgb p f frels add rem rels) = true)
    (hp : preRB s.ss (.xchgb p f frels add rem rels))
    (hroom : Room s (.xchgb p f frels add rem rels))
    (hfew' : s.w.tables.length + (selEnts s.w f frels).length < maxU32) :
    ∃ w' w'' : World,
      stepRB run s (.xchgb p f frels add rem rels) =
        ⟨w', s.issued, specXchgAll s.ss add rem rels (selEnts s.w f frels)⟩ ∧
      runOpsRB run s ((selEnts s.w f frels).map fun e => .xchg p e add [] rem rels) =
        ⟨w'', s.issued, specXchgAll s.ss add rem rels (selEnts s.w f frels)⟩ ∧
      w'.pool = w''.pool ∧
      (∀ x : Ent, w'.alive x = w''.alive x) ∧
      (∀ (i : Nat) (c : Comp), valOf w' i c = valOf w'' i c) ∧
      (∀ i : Nat, compsOf w' i = compsOf w'' i) ∧
      (∀ (i : Nat) (c : Comp), targetOf w' i c = targetOf w'' i c) := by
  have h := H.hinv.tinv
  have HB := H.hinv
  obtain ⟨hgx, hreg, hst, hx, hcase⟩ := guard_xchgb hg
  obtain ⟨hne, hrin, hv⟩ := hp
  have hgl : XchgGlobal s.ss add rem rels := ⟨hne, hreg, ⟨hst.1, hrin, hst.2.2⟩, hv⟩
  have hloc : ∀ (x : Ent) (en : Entry), (x, en) ∈ s.ss.ents → entryMatches f frels en = true →
      XchgLocal en add rem := by
    rcases hcase with k | k
    · exact absurd k hne
    · exact k
  obtain ⟨_, hstepB⟩ := step_xchgb run H p f frels add rem rels hg hroom
  obtain ⟨w', _, hstep, pb, more, hspec, _, _⟩ := hstepB ⟨hne, hrin, hv⟩
  obtain ⟨ts, hts, S, hsel, hiff, hids, hlen⟩ := sel_spec H hgx
  have u0 := removeTablesW_link h.link H.rows S
  have u : ∀ (e : Ent), e ∈ selEnts s.w f frels → 2 ≤ e.id ∧ e.id ∉ fl ∧ s.w.alive e = true ∧
      ∃ (t r : Nat), t ∈ ts ∧ s.w.entities[e.id]? = some (t, r) := by
    intro e he
    rw [hsel] at he
    exact u0.live e he
  have htin := HB.targets_in hv
  have hlive : ∀ (e : Ent), e ∈ selEnts s.w f frels → 2 ≤ e.id ∧ e.id ∉ fl ∧ s.w.alive e = true ∧
      XchgPre s.w e add rem rels := by
    intro e he
    obtain ⟨en, hm, hmm⟩ := mem_matching.mp ((hiff e).mp he)
    exact ⟨(u e he).1, (u e he).2.1, (u e he).2.2.1,
      xchgPre_of_ok HB hm (xchgOK_of hgl (hloc e en hm hmm))⟩
  have hlin : ∀ (e : Ent), e ∈ selEnts s.w f frels → e.id < s.w.pool.ents.length := by
    intro e he
    obtain ⟨t, r, _, hx'⟩ := (u e he).2.2.2
    rw [← h.link.lenEq]; exact (List.getElem?_eq_some_iff.mp hx').1
  have hent1 : s.w.entities.length + 1 < 2 ^ 32 := by have := hroom.2; omega
  obtain ⟨w'', hs, ps⟩ := xchgSeq_post run p (selEnts s.w f frels) h HB.unlocked HB.noObs hlive hlin
    hids htin hfew' hent1
  have hpool := xchgSeq_pool run p (selEnts s.w f frels) h HB.unlocked HB.noObs hlive hlin hids htin
    hfew' hent1 w'' hs
  have hiss : ∀ e ∈ selEnts s.w f frels, e ∈ s.issued := fun e he =>
    HB.ginv.live_issued e (matching_sub ((hiff e).mp he))
  have hrun := runOpsRB_xchgs run p add rem rels (selEnts s.w f frels) s w'' hiss hreg hst hx hs
  have hcomps : ∀ (e : Ent), e ∈ selEnts s.w f frels → ∃ (cs : List Comp),
      compsOf s.w e.id = some cs := by
    intro e he
    exact h.compsOf_live (u e he).1 (u e he).2.1 (u e he).2.2.1 (hlin e he)
  obtain ⟨o1, o2, o3, o4, _, _⟩ := pb.obs_eq ps (fun _ => Iff.rfl) hcomps
  exact ⟨w', w'', by rw [hstep, hspec], hrun, by rw [more.pool, hpool], o1, o2, o3, o4⟩

end RelRefineB

end Ark
