/-
  Ark.Proofs.CacheInv — the filter cache (`cache.go`) against the uncached archetype walk.

  * `Selected w f rels t` — "table `t` is selected by filter `f` with relations `rels`",
    stated without reference to the cache or to any walk.
  * `getCacheTables_spec` — the uncached walk `getCacheTables` returns exactly the selected
    tables, without duplicates (under the storage invariant `TablesInv` and the panic-freedom
    condition `RelsOK`).
  * `CacheInv` (invariant I11) and its preservation by `cacheRegister`, `cacheUnregister`,
    `cacheAddTable`, `cacheRemoveTable`, `cacheReset`.
  Kernel-only proofs.
-/
import Ark.Proofs.AL
import Ark.Proofs.TableIDs
import Ark.Proofs.ArchIndex
import Ark.Proofs.MaskLemmas
import Ark.Model.World

namespace Ark

/-! ## Generic folds with an `Option (List _)` accumulator -/

namespace OptFold
variable {α β : Type}

/-- A step that never resurrects a failed accumulator keeps it failed. -/
theorem foldl_none (step : Option (List β) → α → Option (List β))
    (hn : ∀ (a : α), step none a = none) (l : List α) : l.foldl step none = none := by
  induction l with
  | nil => rfl
  | cons a l ih => rw [List.foldl_cons, hn, ih]

/-- Total case: every step appends `g a`; the fold succeeds with the concatenation. -/
theorem foldl_total (step : Option (List β) → α → Option (List β)) (g : α → List β)
    (l : List α)
    (h : ∀ (a : α), a ∈ l → ∀ (acc : List β), step (some acc) a = some (acc ++ g a))
    (acc : List β) : l.foldl step (some acc) = some (acc ++ l.flatMap g) := by
  induction l generalizing acc with
  | nil => simp
  | cons a l ih =>
    rw [List.foldl_cons, h a List.mem_cons_self acc,
      ih (fun b hb => h b (List.mem_cons_of_mem _ hb)), List.flatMap_cons, List.append_assoc]

/-- Partial case: every step either fails or appends `g a`; if the fold succeeds its result is
    the concatenation. -/
theorem foldl_partial (step : Option (List β) → α → Option (List β)) (g : α → List β)
    (hn : ∀ (a : α), step none a = none) (l : List α)
    (h : ∀ (a : α), a ∈ l → ∀ (acc : List β),
      step (some acc) a = none ∨ step (some acc) a = some (acc ++ g a))
    (acc r : List β) (hr : l.foldl step (some acc) = some r) : r = acc ++ l.flatMap g := by
  induction l generalizing acc with
  | nil => simp at hr; simp [hr]
  | cons a l ih =>
    rw [List.foldl_cons] at hr
    rcases h a List.mem_cons_self acc with h1 | h1
    · rw [h1, foldl_none step hn] at hr; cases hr
    · rw [h1] at hr
      rw [ih (fun b hb => h b (List.mem_cons_of_mem _ hb)) _ hr, List.flatMap_cons,
        List.append_assoc]

theorem flatMap_singleton (g : α → β) (l : List α) : l.flatMap (fun a => [g a]) = l.map g := by
  induction l with
  | nil => rfl
  | cons a l ih => rw [List.flatMap_cons, ih]; rfl

/-- Duplicate-freeness of a concatenation whose pieces are separated by a key that records the
    position of the piece. -/
theorem nodup_flatMap_of_key (g : α → List β) (key : β → Nat) (l : List α)
    (hnd : ∀ (a : α), a ∈ l → (g a).Nodup)
    (hkey : ∀ (i : Nat) (a : α), l[i]? = some a → ∀ (x : β), x ∈ g a → key x = i) :
    (l.flatMap g).Nodup := by
  unfold List.Nodup
  rw [List.pairwise_flatMap]
  refine ⟨hnd, ?_⟩
  rw [List.pairwise_iff_getElem]
  intro i j hi hj hij x hx y hy hxy
  have h1 := hkey i l[i] (List.getElem?_eq_getElem hi) x hx
  have h2 := hkey j l[j] (List.getElem?_eq_getElem hj) y hy
  rw [hxy] at h1
  omega

end OptFold

/-! ## `Table.matchesRels` -/

namespace Table

theorem matchesRels_nil (t : Table) : t.matchesRels [] = some true := by
  simp [matchesRels]

theorem matchesRels_noRel (t : Table) (h : t.hasRelations = false) (rels : List RelID) :
    t.matchesRels rels = some true := by
  simp [matchesRels, h]

theorem matchesRels_eq_go (t : Table) (h : t.hasRelations = true) (r : RelID)
    (rest : List RelID) : t.matchesRels (r :: rest) = matchesRels.go t (r :: rest) := by
  simp [matchesRels, h]

/-- `go` succeeds with `true` exactly when every relation names a column whose target is the
    given entity (full entity equality: ID and generation). -/
theorem go_eq_true_iff (t : Table) (rels : List RelID) :
    matchesRels.go t rels = some true ↔
      ∀ (r : RelID), r ∈ rels →
        ∃ (i : Nat), t.colIdx r.comp = some i ∧ r.target = t.targets.getD i Ent.zero := by
  induction rels with
  | nil => simp [matchesRels.go]
  | cons r rest ih =>
    unfold matchesRels.go
    cases hc : t.colIdx r.comp with
    | none =>
      simp only [List.mem_cons, forall_eq_or_imp, hc]
      constructor
      · intro h; cases h
      · rintro ⟨⟨i, hi, _⟩, _⟩; cases hi
    | some i =>
      simp only [List.mem_cons, forall_eq_or_imp, hc]
      by_cases ht : r.target = t.targets.getD i Ent.zero
      · simp only [bne_iff_ne, ne_eq, ht, not_true_eq_false, if_false, ih]
        constructor
        · intro h; exact ⟨⟨i, rfl, rfl⟩, h⟩
        · rintro ⟨_, h⟩; exact h
      · simp only [bne_iff_ne, ne_eq, ht, not_false_eq_true, if_true]
        constructor
        · intro h; cases h
        · rintro ⟨⟨j, hj, hj2⟩, _⟩
          injection hj with hj; subst hj; exact absurd hj2 ht

/-- `go` does not hit the nil dereference when every relation names a column. -/
theorem go_ne_none (t : Table) (rels : List RelID)
    (h : ∀ (r : RelID), r ∈ rels → (t.colIdx r.comp).isSome = true) :
    matchesRels.go t rels ≠ none := by
  induction rels with
  | nil => simp [matchesRels.go]
  | cons r rest ih =>
    unfold matchesRels.go
    have h1 := h r List.mem_cons_self
    cases hc : t.colIdx r.comp with
    | none => rw [hc] at h1; cases h1
    | some i =>
      simp only
      split
      · simp
      · exact ih (fun r' hr' => h r' (List.mem_cons_of_mem _ hr'))

theorem matchesRels_ne_none (t : Table) (rels : List RelID)
    (h : ∀ (r : RelID), r ∈ rels → (t.colIdx r.comp).isSome = true) :
    t.matchesRels rels ≠ none := by
  unfold matchesRels
  split
  · simp
  · exact go_ne_none t rels h

/-- For a relation table, a successful match of a non-empty relation list pins the first
    relation's target. -/
theorem matchesRels_cons_true (t : Table) (h : t.hasRelations = true) (r : RelID)
    (rest : List RelID) (hm : t.matchesRels (r :: rest) = some true) :
    ∃ (i : Nat), t.colIdx r.comp = some i ∧ r.target = t.targets.getD i Ent.zero := by
  rw [matchesRels_eq_go t h, go_eq_true_iff] at hm
  exact hm r List.mem_cons_self

/-- Tables and archetypes resolve components to columns in the same way. -/
theorem colIdx_eq_of_ids (t : Table) (a : Archetype) (h : t.ids = a.comps) (c : Comp) :
    t.colIdx c = a.colIdx c := by
  simp [colIdx, Archetype.colIdx, h]

end Table

namespace World

/-! ## Selection, independent of cache and walks -/

/-- Table `t` is selected by filter `f` with relations `rels`: it is an active table of an
    archetype whose mask matches, and it matches the relations (vacuous for tables without
    relation columns, by definition of `matchesRels`). -/
def Selected (w : World) (f : Filter) (rels : List RelID) (t : Nat) : Prop :=
  ∃ (a : Nat) (A : Archetype), w.archetypes[a]? = some A ∧ t ∈ A.tables.tables ∧
    f.matchesMask A.mask = true ∧ (w.tbl t).matchesRels rels = some true

/-- `Selected` only looks at the archetype and table stores. -/
theorem Selected_congr {w w' : World} (ha : w'.archetypes = w.archetypes)
    (ht : w'.tables = w.tables) (f : Filter) (rels : List RelID) (t : Nat) :
    Selected w' f rels t ↔ Selected w f rels t := by
  unfold Selected tbl
  rw [ha, ht]

/-- Storage facts the cache relies on (world-level, independent of any filter):
    * `index` — every archetype satisfies `Archetype.IndexInv` w.r.t. the tables' targets;
    * `arch`  — an active table points back to its archetype (so archetypes share no table);
    * `ids`   — an active table has the column layout of its archetype;
    * `hasRel` — `table.HasRelations()` agrees with `archetype.HasRelations()`;
    * `single` — an archetype without relation columns has exactly one active table. -/
structure TablesInv (w : World) : Prop where
  index : ∀ (a : Nat) (A : Archetype), w.archetypes[a]? = some A →
    A.IndexInv (fun t => (w.tbl t).targets)
  arch : ∀ (a : Nat) (A : Archetype), w.archetypes[a]? = some A →
    ∀ (t : Nat), t ∈ A.tables.tables → (w.tbl t).arch = a
  ids : ∀ (a : Nat) (A : Archetype), w.archetypes[a]? = some A →
    ∀ (t : Nat), t ∈ A.tables.tables → (w.tbl t).ids = A.comps
  hasRel : ∀ (a : Nat) (A : Archetype), w.archetypes[a]? = some A →
    ∀ (t : Nat), t ∈ A.tables.tables → (w.tbl t).hasRelations = A.hasRelations
  single : ∀ (a : Nat) (A : Archetype), w.archetypes[a]? = some A →
    A.hasRelations = false → A.tables.tables.length = 1

/-- Panic-freedom of the walk for `f`, `rels`: in every relation archetype the filter matches,
    each given relation names a column, and the first one names a relation column (the Go code
    indexes `relationTables[componentsMap[rels[0]]]` and dereferences `components[rel]`). -/
def RelsOK (w : World) (f : Filter) (rels : List RelID) : Prop :=
  ∀ (a : Nat) (A : Archetype), w.archetypes[a]? = some A → f.matchesMask A.mask = true →
    A.hasRelations = true →
    (∀ (r : RelID), r ∈ rels → (A.colIdx r.comp).isSome = true) ∧
    (∀ (r : RelID), rels.head? = some r →
      ∃ (i : Nat), A.colIdx r.comp = some i ∧ A.isRel.getD i false = true)

end World
end Ark

/-! ## The uncached walk `getCacheTables` -/

namespace Ark
namespace World

/-- What one archetype contributes to the walk (when nothing panics). -/
def archSel (w : World) (f : Filter) (rels : List RelID) (A : Archetype) : List Nat :=
  if !f.matchesMask A.mask then []
  else if !A.hasRelations then [A.tables.tables.getD 0 0]
  else ((A.getTables rels).getD []).filter
    fun t => (w.tbl t).matchesRels rels == some true

/-- The inner loop over the tables handed out by `GetTables`. -/
theorem innerFold (w : World) (rels : List RelID) (ts : List Nat)
    (h : ∀ (t : Nat), t ∈ ts → (w.tbl t).matchesRels rels ≠ none) (acc : List Nat) :
    ts.foldl (fun (acc : Option (List Nat)) t =>
        match acc with
        | none => none
        | some acc =>
          match (w.tbl t).matchesRels rels with
          | none => none
          | some true => some (acc ++ [t])
          | some false => some acc) (some acc)
      = some (acc ++ ts.filter fun t => (w.tbl t).matchesRels rels == some true) := by
  induction ts generalizing acc with
  | nil => simp
  | cons t ts ih =>
    have h1 := h t List.mem_cons_self
    have ih' := ih (fun t' ht' => h t' (List.mem_cons_of_mem _ ht'))
    rw [List.foldl_cons]
    cases hm : (w.tbl t).matchesRels rels with
    | none => exact absurd hm h1
    | some b =>
      cases b with
      | true => simp only; rw [ih']; simp [hm]
      | false => simp only; rw [ih']; simp [hm]

/-- Membership in one archetype's contribution, and its duplicate-freeness. -/
theorem archSel_spec {w : World} (H : TablesInv w) {f : Filter} {rels : List RelID}
    (hok : RelsOK w f rels) {a : Nat} {A : Archetype} (hA : w.archetypes[a]? = some A) :
    (w.archSel f rels A).Nodup ∧
    (∀ (t : Nat), t ∈ w.archSel f rels A ↔
      t ∈ A.tables.tables ∧ f.matchesMask A.mask = true ∧
        (w.tbl t).matchesRels rels = some true) ∧
    (f.matchesMask A.mask = true → A.hasRelations = true →
      ∃ (ts : List Nat), A.getTables rels = some ts ∧
        ∀ (t : Nat), t ∈ ts → (w.tbl t).matchesRels rels ≠ none) := by
  have hI := H.index a A hA
  unfold archSel
  by_cases hm : f.matchesMask A.mask = true
  case neg =>
    simp only [hm]
    refine ⟨by simp, by simp, fun h => absurd h (by simp)⟩
  by_cases hr : A.hasRelations = true
  case neg =>
    have hr' : A.hasRelations = false := by simpa using hr
    have hlen := H.single a A hA hr'
    obtain ⟨t0, ht0⟩ : ∃ t0, A.tables.tables = [t0] := by
      cases hl : A.tables.tables with
      | nil => rw [hl] at hlen; simp at hlen
      | cons x xs =>
        cases xs with
        | nil => exact ⟨x, rfl⟩
        | cons y ys => rw [hl] at hlen; simp at hlen
    simp only [hm, hr', ht0]
    refine ⟨by simp, ?_, fun _ h => by cases h⟩
    intro t
    simp only [Bool.not_true, Bool.false_eq_true, if_false, Bool.not_false, if_true,
      List.getD_cons_zero, List.mem_singleton, true_and]
    constructor
    · intro h; subst h
      refine ⟨rfl, Table.matchesRels_noRel _ ?_ rels⟩
      rw [H.hasRel a A hA t (by rw [ht0]; simp)]; exact hr'
    · intro h; exact h.1
  -- relation archetype
  obtain ⟨hcols, hhead⟩ := hok a A hA hm hr
  have hnone : ∀ (t : Nat), t ∈ A.tables.tables → (w.tbl t).matchesRels rels ≠ none := by
    intro t ht
    apply Table.matchesRels_ne_none
    intro r hr'
    rw [Table.colIdx_eq_of_ids _ A (H.ids a A hA t ht)]
    exact hcols r hr'
  simp only [hm, hr, Bool.not_true, Bool.false_eq_true, if_false]
  cases rels with
  | nil =>
    have hg := (hI.getTables_all [] (Or.inl rfl))
    rw [hg.1]
    refine ⟨?_, ?_, fun _ _ => ⟨_, rfl, hnone⟩⟩
    · exact List.Pairwise.filter _ hg.2
    · intro t; simp [Table.matchesRels_nil]
  | cons r rest =>
    obtain ⟨i, hci, hri⟩ := hhead r rfl
    obtain ⟨ts, hts, hnd, hmem⟩ := hI.getTables_complete r rest i hci hri
    rw [hts]
    refine ⟨?_, ?_, fun _ _ => ⟨ts, rfl, fun t ht => hnone t ((hmem t).1 ht).1⟩⟩
    · exact List.Pairwise.filter _ hnd
    · intro t
      simp only [Option.getD_some, List.mem_filter, beq_iff_eq, true_and]
      constructor
      · rintro ⟨h1, h2⟩; exact ⟨((hmem t).1 h1).1, h2⟩
      · rintro ⟨h1, h2⟩
        refine ⟨(hmem t).2 ⟨h1, ?_⟩, h2⟩
        have hrt : (w.tbl t).hasRelations = true := by rw [H.hasRel a A hA t h1]; exact hr
        obtain ⟨j, hj, hj2⟩ := Table.matchesRels_cons_true _ hrt r rest h2
        rw [Table.colIdx_eq_of_ids _ A (H.ids a A hA t h1), hci] at hj
        injection hj with hj; subst hj
        rw [← hj2]

/-- The walk is the concatenation of the per-archetype contributions. -/
theorem getCacheTables_eq {w : World} (H : TablesInv w) {f : Filter} {rels : List RelID}
    (hok : RelsOK w f rels) :
    w.getCacheTables f rels = some (w.archetypes.flatMap (w.archSel f rels)) := by
  unfold getCacheTables
  refine (OptFold.foldl_total _ (w.archSel f rels) w.archetypes ?_ []).trans (by simp)
  · intro A hA acc
    obtain ⟨a, ha⟩ := List.mem_iff_getElem?.1 hA
    obtain ⟨_, _, h3⟩ := archSel_spec H hok ha
    simp only [archSel]
    by_cases hm : f.matchesMask A.mask = true
    case neg => simp [hm]
    by_cases hr : A.hasRelations = true
    case neg => simp [hm, hr]
    obtain ⟨ts, hts, hnone⟩ := h3 hm hr
    simp only [hm, hr, Bool.not_true, Bool.false_eq_true, if_false, hts, Option.getD_some]
    exact innerFold w rels ts hnone acc

/-- **`getCacheTables_spec`.** Under the storage invariant and panic-freedom, the uncached walk
    succeeds, its result has no duplicates, and it lists exactly the selected tables. -/
theorem getCacheTables_spec {w : World} (H : TablesInv w) {f : Filter} {rels : List RelID}
    (hok : RelsOK w f rels) :
    ∃ (ts : List Nat), w.getCacheTables f rels = some ts ∧ ts.Nodup ∧
      ∀ (t : Nat), t ∈ ts ↔ Selected w f rels t := by
  refine ⟨_, getCacheTables_eq H hok, ?_, ?_⟩
  · apply OptFold.nodup_flatMap_of_key (w.archSel f rels) (fun t => (w.tbl t).arch)
    · intro A hA
      obtain ⟨a, ha⟩ := List.mem_iff_getElem?.1 hA
      exact (archSel_spec H hok ha).1
    · intro i A hA t ht
      exact H.arch i A hA t (((archSel_spec H hok hA).2.1 t).1 ht).1
  · intro t
    rw [List.mem_flatMap]
    constructor
    · rintro ⟨A, hA, ht⟩
      obtain ⟨a, ha⟩ := List.mem_iff_getElem?.1 hA
      exact ⟨a, A, ha, ((archSel_spec H hok ha).2.1 t).1 ht⟩
    · rintro ⟨a, A, ha, h⟩
      exact ⟨A, List.mem_iff_getElem?.2 ⟨a, ha⟩, ((archSel_spec H hok ha).2.1 t).2 h⟩

end World
end Ark

/-! ## The cache invariant (I11) -/

namespace Ark

/-! ### list/index-map facts for `cache.filters` / `cache.indices` -/

namespace CacheIdx

theorem swapRemove_getElem? {α : Type} (T : List α) (index : Nat) (a b : α) (i : Nat) :
    (((T.set index b).set (T.length - 1) a).take (T.length - 1))[i]? =
      if i < T.length - 1 then (if i = index then some b else T[i]?) else none := by
  grind

/-- `register`: append an entry with a fresh ID. -/
theorem append {F : List CacheEntry} {ind : AL Nat}
    (hidx : ∀ (id i : Nat), AL.find? ind id = some i ↔ ∃ e, F[i]? = some e ∧ e.id = id)
    (e : CacheEntry) (hfresh : AL.find? ind e.id = none) (k i : Nat) :
    AL.find? (AL.insert ind e.id F.length) k = some i ↔
      ∃ e', (F ++ [e])[i]? = some e' ∧ e'.id = k := by
  rw [AL.find?_insert, List.getElem?_append]
  have := hidx k i
  have := hidx e.id i
  grind

/-- `unregister` of the last entry. -/
theorem takeLast {F : List CacheEntry} {ind : AL Nat}
    (hidx : ∀ (id i : Nat), AL.find? ind id = some i ↔ ∃ e, F[i]? = some e ∧ e.id = id)
    {id : Nat} (hf : AL.find? ind id = some (F.length - 1)) (k i : Nat) :
    AL.find? (AL.erase ind id) k = some i ↔
      ∃ e', (F.take (F.length - 1))[i]? = some e' ∧ e'.id = k := by
  rw [AL.find?_erase, List.getElem?_take]
  have h1 := hidx k i
  have h2 := hidx id i
  have h3 := hidx id (F.length - 1)
  grind

/-- `unregister` of an inner entry: swap with the last, fix the moved entry's index. -/
theorem swapRemove {F : List CacheEntry} {ind : AL Nat}
    (hidx : ∀ (id i : Nat), AL.find? ind id = some i ↔ ∃ e, F[i]? = some e ∧ e.id = id)
    {id idx : Nat} (hf : AL.find? ind id = some idx) (hne : idx ≠ F.length - 1) (k i : Nat) :
    AL.find? (AL.insert (AL.erase ind id) (F.getD (F.length - 1) default).id idx) k = some i ↔
      ∃ e', (((F.set idx (F.getD (F.length - 1) default)).set (F.length - 1)
        (F.getD idx default)).take (F.length - 1))[i]? = some e' ∧ e'.id = k := by
  rw [AL.find?_insert, AL.find?_erase, swapRemove_getElem?]
  obtain ⟨e0, he0, he0id⟩ := (hidx id idx).1 hf
  have hlt : idx < F.length := (List.getElem?_eq_some_iff.1 he0).1
  have hlast : F[F.length - 1]? = some (F.getD (F.length - 1) default) := by
    rw [List.getD_eq_getElem?_getD, List.getElem?_eq_getElem (by omega)]; rfl
  generalize F.getD (F.length - 1) default = b at *
  have hb : AL.find? ind b.id = some (F.length - 1) := (hidx _ _).2 ⟨b, hlast, rfl⟩
  have h1 := hidx k i
  have h2 := hidx id i
  have h3 := hidx b.id i
  grind

/-- Every entry that survives the swap-remove was there before. -/
theorem mem_swapRemove {α : Type} (T : List α) (index : Nat) (a : α) (x : α)
    (h : x ∈ ((T.set index (T.getD (T.length - 1) a)).set (T.length - 1) (T.getD index a)).take
      (T.length - 1)) : x ∈ T := by
  obtain ⟨i, hi⟩ := List.mem_iff_getElem?.1 h
  rw [swapRemove_getElem?] at hi
  by_cases h1 : i < T.length - 1
  · by_cases h2 : i = index
    · subst h2
      rw [if_pos h1, if_pos rfl] at hi
      injection hi with hi; subst hi
      rw [List.getD_eq_getElem?_getD, List.getElem?_eq_getElem (by omega)]
      simp
    · simp only [h1, h2, if_true, if_false] at hi
      exact List.mem_iff_getElem?.2 ⟨i, hi⟩
  · simp [h1] at hi

end CacheIdx

namespace World

/-- **Cache invariant I11.**
    * `uniq`  — the ID ↦ position map has unique keys;
    * `index` — it is exactly the position map of the entry slice (keyed by entry ID);
    * `entries` — every entry's table list is a well-formed `tableIDs` and lists exactly the
      tables selected by the entry's filter and relations. -/
structure CacheInv (w : World) : Prop where
  uniq : AL.Uniq w.cache.indices
  index : ∀ (id i : Nat), AL.find? w.cache.indices id = some i ↔
    ∃ (e : CacheEntry), w.cache.filters[i]? = some e ∧ e.id = id
  entries : ∀ (e : CacheEntry), e ∈ w.cache.filters →
    e.tables.WF ∧ ∀ (t : Nat), t ∈ e.tables.tables ↔ Selected w e.filter e.rels t

/-- The invariant as a plain conjunction. -/
theorem cacheInv_iff (w : World) :
    CacheInv w ↔
      AL.Uniq w.cache.indices ∧
      (∀ (id i : Nat), AL.find? w.cache.indices id = some i ↔
        ∃ (e : CacheEntry), w.cache.filters[i]? = some e ∧ e.id = id) ∧
      ∀ (e : CacheEntry), e ∈ w.cache.filters →
        e.tables.WF ∧ ∀ (t : Nat), t ∈ e.tables.tables ↔ Selected w e.filter e.rels t :=
  ⟨fun h => ⟨h.uniq, h.index, h.entries⟩, fun h => ⟨h.1, h.2.1, h.2.2⟩⟩

/-- A registered entry, looked up through the ID map, is a member of the entry slice and
    carries the ID it was looked up by. -/
theorem CacheInv.entry_of_lookup {w : World} (h : CacheInv w) {id : Nat} {e : CacheEntry}
    (he : w.cacheEntry? id = some e) : e ∈ w.cache.filters ∧ e.id = id := by
  unfold cacheEntry? at he
  cases hf : AL.find? w.cache.indices id with
  | none => rw [hf] at he; cases he
  | some idx =>
    rw [hf] at he
    simp only at he
    obtain ⟨e', he', hid⟩ := (h.index id idx).1 hf
    rw [he] at he'; injection he' with he'; subst he'
    exact ⟨List.mem_iff_getElem?.2 ⟨idx, he⟩, hid⟩

/-- Entry IDs are pairwise distinct (consequence of `index`). -/
theorem CacheInv.id_inj {w : World} (h : CacheInv w) {i j : Nat} {e e' : CacheEntry}
    (hi : w.cache.filters[i]? = some e) (hj : w.cache.filters[j]? = some e')
    (hid : e.id = e'.id) : i = j := by
  have h1 := (h.index e.id i).2 ⟨e, hi, rfl⟩
  have h2 := (h.index e.id j).2 ⟨e', hj, hid.symm⟩
  rw [h1] at h2; injection h2

/-- With an empty ID map the entry slice is empty too. -/
theorem CacheInv.filters_nil_of_indices_nil {w : World} (h : CacheInv w)
    (h0 : w.cache.indices = []) : w.cache.filters = [] := by
  cases hl : w.cache.filters with
  | nil => rfl
  | cons e es =>
    have := (h.index e.id 0).2 ⟨e, by rw [hl]; rfl, rfl⟩
    rw [h0] at this; cases this

/-! ### (a) the empty cache -/

theorem cacheInv_of_empty {w : World} (h1 : w.cache.indices = []) (h2 : w.cache.filters = []) :
    CacheInv w := by
  refine ⟨by rw [h1]; exact AL.uniq_nil, ?_, ?_⟩
  · intro id i; rw [h1, h2]; simp
  · intro e he; rw [h2] at he; cases he

theorem cacheInv_init (cap relCap maxComps : Nat) : CacheInv (World.init cap relCap maxComps) :=
  cacheInv_of_empty rfl rfl

/-! ### (f) `cacheReset` -/

theorem cacheReset_archetypes (w : World) : w.cacheReset.archetypes = w.archetypes := by
  unfold cacheReset; split <;> rfl

theorem cacheReset_tables (w : World) : w.cacheReset.tables = w.tables := by
  unfold cacheReset; split <;> rfl

/-- `Reset` empties the cache (the early return `len(indices) == 0` is harmless under the
    invariant, because then the slice is empty as well). -/
theorem cacheReset_empty {w : World} (h : CacheInv w) :
    w.cacheReset.cache.indices = [] ∧ w.cacheReset.cache.filters = [] := by
  unfold cacheReset
  by_cases h0 : w.cache.indices.isEmpty = true
  · have h0' : w.cache.indices = [] := List.isEmpty_iff.1 h0
    rw [if_pos h0]
    exact ⟨h0', h.filters_nil_of_indices_nil h0'⟩
  · rw [if_neg h0]; exact ⟨rfl, rfl⟩

theorem cacheReset_inv {w : World} (h : CacheInv w) : CacheInv w.cacheReset :=
  cacheInv_of_empty (cacheReset_empty h).1 (cacheReset_empty h).2

/-! ### (b) `cacheRegister` -/

theorem getCacheTables_congr {w w' : World} (ha : w'.archetypes = w.archetypes)
    (ht : w'.tables = w.tables) (f : Filter) (rels : List RelID) :
    w'.getCacheTables f rels = w.getCacheTables f rels := by
  unfold getCacheTables tbl
  rw [ha, ht]

/-- The entry `register` builds from the result `ts` of the walk. -/
def newEntry (w : World) (f : Filter) (rels : List RelID) (ts : List Nat) : CacheEntry :=
  { id := (w.cache.pool.get).2, filter := f, rels, tables := TableIDs.ofList ts }

/-- The world after a successful `register` whose walk returned `ts`. -/
def registered (w : World) (f : Filter) (rels : List RelID) (ts : List Nat) : World :=
  { w with cache := { pool := (w.cache.pool.get).1,
                      filters := w.cache.filters ++ [newEntry w f rels ts],
                      indices := AL.insert w.cache.indices (w.cache.pool.get).2
                        w.cache.filters.length } }

/-- Unfolding of `register` once the walk has succeeded. -/
theorem cacheRegister_eq (w : World) (f : Filter) (rels : List RelID) (ts : List Nat)
    (hts : w.getCacheTables f rels = some ts) :
    cacheRegister f rels w = .ok (w.cache.pool.get).2 (registered w f rels ts) := by
  have h' : ({ w with cache := { w.cache with pool := (w.cache.pool.get).1 } } :
      World).getCacheTables f rels = some ts := by
    rw [getCacheTables_congr rfl rfl]; exact hts
  unfold cacheRegister
  simp only [h']
  rfl

/-- **(b)** `register` succeeds (under the hypotheses of `getCacheTables_spec`), re-establishes
    the invariant, the new entry is found under the returned ID with the given filter and
    relations and exactly the selected tables, every other ID resolves as before, and the
    storage is untouched.  Hypothesis `hfresh`: the ID pool hands out an ID that is not
    registered. -/
theorem cacheRegister_inv {w : World} (h : CacheInv w) (H : TablesInv w) {f : Filter}
    {rels : List RelID} (hok : RelsOK w f rels)
    (hfresh : AL.find? w.cache.indices (w.cache.pool.get).2 = none) :
    ∃ (w' : World) (e : CacheEntry),
      cacheRegister f rels w = .ok (w.cache.pool.get).2 w' ∧ CacheInv w' ∧
      w'.archetypes = w.archetypes ∧ w'.tables = w.tables ∧
      w'.cacheEntry? (w.cache.pool.get).2 = some e ∧
      e.id = (w.cache.pool.get).2 ∧ e.filter = f ∧ e.rels = rels ∧ e.tables.WF ∧
      (∀ (t : Nat), t ∈ e.tables.tables ↔ Selected w' f rels t) ∧
      (∀ (id' : Nat), id' ≠ (w.cache.pool.get).2 → w'.cacheEntry? id' = w.cacheEntry? id') := by
  obtain ⟨ts, hts, hnd, hmem⟩ := getCacheTables_spec H hok
  refine ⟨_, newEntry w f rels ts, cacheRegister_eq w f rels ts hts, ?_, rfl, rfl, ?_, rfl, rfl,
    rfl, TableIDs.wf_ofList ts hnd, ?_, ?_⟩
  · refine ⟨h.uniq.insert _ _, ?_, ?_⟩
    · intro k i
      exact CacheIdx.append h.index (newEntry w f rels ts) hfresh k i
    · intro e he
      have hsel : ∀ (f' : Filter) (rels' : List RelID) (t : Nat),
          Selected (registered w f rels ts) f' rels' t ↔ Selected w f' rels' t :=
        fun f' rels' t => Selected_congr rfl rfl f' rels' t
      replace he : e ∈ w.cache.filters ++ [newEntry w f rels ts] := he
      simp only [List.mem_append, List.mem_singleton] at he
      rcases he with he | he
      · refine ⟨(h.entries e he).1, fun t => ?_⟩
        rw [hsel]; exact (h.entries e he).2 t
      · subst he
        refine ⟨TableIDs.wf_ofList ts hnd, fun t => ?_⟩
        rw [hsel]; exact hmem t
  · simp only [cacheEntry?, registered, AL.find?_insert_self]
    simp
  · intro t
    rw [Selected_congr (w := w) (w' := registered w f rels ts) rfl rfl]; exact hmem t
  · intro id' hne
    simp only [cacheEntry?, registered, AL.find?_insert_ne _ _ _ _ hne]
    cases hf : AL.find? w.cache.indices id' with
    | none => rfl
    | some idx =>
      simp only
      obtain ⟨e', he', _⟩ := (h.index id' idx).1 hf
      have hlt : idx < w.cache.filters.length := (List.getElem?_eq_some_iff.1 he').1
      rw [List.getElem?_append_left hlt]

/-! ### (c) `cacheUnregister` -/

/-- **(c)** `unregister` of a registered ID succeeds and preserves the invariant; the ID is no
    longer registered, every other ID resolves to the same entry, the storage is untouched. -/
theorem cacheUnregister_last (w : World) (id : Nat)
    (hf : AL.find? w.cache.indices id = some (w.cache.filters.length - 1)) :
    cacheUnregister id w = .ok ()
      { w with cache := { w.cache with
          filters := w.cache.filters.take (w.cache.filters.length - 1),
          indices := AL.erase w.cache.indices id } } := by
  unfold cacheUnregister
  simp [hf]

theorem cacheUnregister_inner (w : World) (id idx : Nat)
    (hf : AL.find? w.cache.indices id = some idx) (hl : idx ≠ w.cache.filters.length - 1) :
    cacheUnregister id w = .ok ()
      { w with cache := { w.cache with
          filters := ((w.cache.filters.set idx
              (w.cache.filters.getD (w.cache.filters.length - 1) default)).set
              (w.cache.filters.length - 1) (w.cache.filters.getD idx default)).take
              (w.cache.filters.length - 1),
          indices := AL.insert (AL.erase w.cache.indices id)
            (w.cache.filters.getD (w.cache.filters.length - 1) default).id idx } } := by
  unfold cacheUnregister
  simp [hf, hl]

theorem cacheUnregister_inv {w : World} (h : CacheInv w) {id idx : Nat}
    (hf : AL.find? w.cache.indices id = some idx) :
    ∃ (w' : World), cacheUnregister id w = .ok () w' ∧ CacheInv w' ∧
      w'.archetypes = w.archetypes ∧ w'.tables = w.tables ∧
      w'.cacheEntry? id = none ∧
      (∀ (id' : Nat), id' ≠ id → w'.cacheEntry? id' = w.cacheEntry? id') := by
  obtain ⟨e0, he0, he0id⟩ := (h.index id idx).1 hf
  have hlt : idx < w.cache.filters.length := (List.getElem?_eq_some_iff.1 he0).1
  by_cases hl : idx = w.cache.filters.length - 1
  · -- the last entry
    rw [cacheUnregister_last w id (hl ▸ hf)]
    have hidx' := fun k i => CacheIdx.takeLast h.index (hl ▸ hf) k i
    refine ⟨_, rfl, ⟨h.uniq.erase id, hidx', ?_⟩, rfl, rfl, ?_, ?_⟩
    · intro e he
      have he' : e ∈ w.cache.filters := List.mem_of_mem_take he
      refine ⟨(h.entries e he').1, fun t => ?_⟩
      rw [Selected_congr rfl rfl]; exact (h.entries e he').2 t
    · simp [cacheEntry?, AL.find?_erase_self]
    · intro id' hne
      simp only [cacheEntry?, AL.find?_erase_ne _ _ _ hne]
      cases hf' : AL.find? w.cache.indices id' with
      | none => rfl
      | some j =>
        simp only
        obtain ⟨e', he', he'id⟩ := (h.index id' j).1 hf'
        have hj : j ≠ idx := by
          intro hj; subst hj; rw [he0] at he'; injection he' with he'; subst he'
          exact hne (he'id.symm.trans he0id)
        have hjlt : j < w.cache.filters.length := (List.getElem?_eq_some_iff.1 he').1
        rw [List.getElem?_take, if_pos (by omega)]
  · -- an inner entry
    rw [cacheUnregister_inner w id idx hf hl]
    have hidx' := fun k i => CacheIdx.swapRemove h.index hf hl k i
    have hlast : w.cache.filters[w.cache.filters.length - 1]? =
        some (w.cache.filters.getD (w.cache.filters.length - 1) default) := by
      rw [List.getD_eq_getElem?_getD, List.getElem?_eq_getElem (by omega)]; rfl
    have hbid : (w.cache.filters.getD (w.cache.filters.length - 1) default).id ≠ id := by
      intro hc
      exact hl (h.id_inj he0 hlast (he0id.trans hc.symm))
    refine ⟨_, rfl, ⟨(h.uniq.erase id).insert _ _, hidx', ?_⟩, rfl, rfl, ?_, ?_⟩
    · intro e he
      have he' : e ∈ w.cache.filters := CacheIdx.mem_swapRemove _ _ _ _ he
      refine ⟨(h.entries e he').1, fun t => ?_⟩
      rw [Selected_congr rfl rfl]; exact (h.entries e he').2 t
    · simp only [cacheEntry?]
      rw [AL.find?_insert_ne _ _ _ _ (Ne.symm hbid), AL.find?_erase_self]
    · intro id' hne
      simp only [cacheEntry?]
      by_cases hb' : id' = (w.cache.filters.getD (w.cache.filters.length - 1) default).id
      · rw [hb', AL.find?_insert_self]
        have : AL.find? w.cache.indices
            (w.cache.filters.getD (w.cache.filters.length - 1) default).id
            = some (w.cache.filters.length - 1) := (h.index _ _).2 ⟨_, hlast, rfl⟩
        rw [this]
        simp only
        rw [CacheIdx.swapRemove_getElem?, if_pos (by omega), if_pos rfl, hlast]
      · rw [AL.find?_insert_ne _ _ _ _ hb', AL.find?_erase_ne _ _ _ hne]
        cases hf' : AL.find? w.cache.indices id' with
        | none => rfl
        | some j =>
          simp only
          obtain ⟨e', he', he'id⟩ := (h.index id' j).1 hf'
          have hj : j ≠ idx := by
            intro hj; subst hj; rw [he0] at he'; injection he' with he'; subst he'
            exact hne (he'id.symm.trans he0id)
          have hj2 : j ≠ w.cache.filters.length - 1 := by
            intro hj; subst hj; rw [hlast] at he'; injection he' with he'
            exact hb' (by rw [he']; exact he'id.symm)
          have hjlt : j < w.cache.filters.length := (List.getElem?_eq_some_iff.1 he').1
          rw [CacheIdx.swapRemove_getElem?, if_pos (by omega), if_neg hj]

/-- `unregister` of an unknown ID panics and changes nothing. -/
theorem cacheUnregister_unknown (w : World) (id : Nat)
    (hf : AL.find? w.cache.indices id = none) :
    cacheUnregister id w = .panic .filterNotRegistered w := by
  unfold cacheUnregister; simp only [hf]

end World
end Ark

/-! ## (d), (e): tables becoming active / inactive -/

namespace Ark
namespace World

/-! ### per-entry form -/

/-- What `cache.addTable` does to one entry, for a table `T` of an archetype with mask `m`. -/
def addTableEntry (m : Mask) (T : Table) (e : CacheEntry) : CacheEntry :=
  if e.filter.matchesMask m = true ∧ T.matchesRels e.rels = some true then
    { e with tables := e.tables.append T.id }
  else e

@[simp] theorem addTableEntry_id (m : Mask) (T : Table) (e : CacheEntry) :
    (addTableEntry m T e).id = e.id := by unfold addTableEntry; split <;> rfl

@[simp] theorem addTableEntry_filter (m : Mask) (T : Table) (e : CacheEntry) :
    (addTableEntry m T e).filter = e.filter := by unfold addTableEntry; split <;> rfl

@[simp] theorem addTableEntry_rels (m : Mask) (T : Table) (e : CacheEntry) :
    (addTableEntry m T e).rels = e.rels := by unfold addTableEntry; split <;> rfl

/-- **(d), per-entry form.** If the entry lists exactly the tables satisfying `P` and `T.id` is
    not among them, then after the `addTable` step it lists exactly those plus `T.id` when the
    filter matches the archetype mask and the table matches the entry's relations. -/
theorem addTableEntry_spec (m : Mask) (T : Table) (e : CacheEntry) (P : Nat → Prop)
    (hwf : e.tables.WF) (hP : ∀ (t' : Nat), t' ∈ e.tables.tables ↔ P t')
    (hnew : T.id ∉ e.tables.tables) :
    (addTableEntry m T e).tables.WF ∧
    ∀ (t' : Nat), t' ∈ (addTableEntry m T e).tables.tables ↔
      P t' ∨ (t' = T.id ∧ e.filter.matchesMask m = true ∧ T.matchesRels e.rels = some true) := by
  unfold addTableEntry
  split
  · rename_i hc
    refine ⟨hwf.append hnew, fun t' => ?_⟩
    simp only [TableIDs.append_tables, List.mem_append, List.mem_singleton, hP]
    constructor
    · rintro (h | h)
      · exact Or.inl h
      · exact Or.inr ⟨h, hc⟩
    · rintro (h | ⟨h, _⟩)
      · exact Or.inl h
      · exact Or.inr h
  · rename_i hc
    refine ⟨hwf, fun t' => ?_⟩
    rw [hP]
    constructor
    · exact Or.inl
    · rintro (h | ⟨_, h⟩)
      · exact h
      · exact absurd h hc

/-- **(e), per-entry form.** After the `removeTable` step the entry lists exactly the tables it
    listed before, minus `t`. -/
theorem removeTableEntry_spec (t : Nat) (e : CacheEntry) (P : Nat → Prop)
    (hwf : e.tables.WF) (hP : ∀ (t' : Nat), t' ∈ e.tables.tables ↔ P t') :
    (e.tables.remove t).1.WF ∧
    ∀ (t' : Nat), t' ∈ (e.tables.remove t).1.tables ↔ P t' ∧ t' ≠ t := by
  refine ⟨hwf.remove t, fun t' => ?_⟩
  rw [hwf.mem_remove, hP]

/-! ### the loops of `addTable` / `removeTable` -/

/-- One iteration of `cache.addTable`: it either panics (nil dereference in `Matches`) or
    appends the updated entry. -/
theorem cacheAddTable_step (m : Mask) (T : Table) (e : CacheEntry) (acc : List CacheEntry) :
    (if !e.filter.matchesMask m then some (acc ++ [e])
      else if !T.hasRelations then some (acc ++ [{ e with tables := e.tables.append T.id }])
      else match T.matchesRels e.rels with
        | none => none
        | some true => some (acc ++ [{ e with tables := e.tables.append T.id }])
        | some false => some (acc ++ [e]))
    = if e.filter.matchesMask m = true ∧ T.hasRelations = true ∧ T.matchesRels e.rels = none
      then none else some (acc ++ [addTableEntry m T e]) := by
  unfold addTableEntry
  by_cases hm : e.filter.matchesMask m = true
  case neg => simp [hm]
  by_cases hr : T.hasRelations = true
  case neg =>
    have hr' : T.hasRelations = false := by simpa using hr
    simp [hm, hr', Table.matchesRels_noRel T hr']
  cases hmr : T.matchesRels e.rels with
  | none => simp [hm, hr]
  | some b => cases b <;> simp [hm, hr]

/-- If `addTable` does not panic, the new entry slice is the old one mapped through
    `addTableEntry`, everything else is unchanged. -/
theorem cacheAddTable_eq {w w'' : World} {T : Table} (h : w.cacheAddTable T = some w'') :
    w'' = { w with cache := { w.cache with
      filters := w.cache.filters.map (addTableEntry (w.arch T.arch).mask T) } } := by
  unfold cacheAddTable at h
  simp only at h
  split at h
  · cases h
  · rename_i fs hfs
    injection h with h
    have := OptFold.foldl_partial _ (fun e => [addTableEntry (w.arch T.arch).mask T e])
      (fun _ => rfl) w.cache.filters ?_ [] fs hfs
    · rw [← h, this]
      simp [OptFold.flatMap_singleton]
    · intro e _ acc
      have hs := cacheAddTable_step (w.arch T.arch).mask T e acc
      by_cases hc : e.filter.matchesMask (w.arch T.arch).mask = true ∧ T.hasRelations = true ∧
          T.matchesRels e.rels = none
      · exact Or.inl (hs.trans (if_pos hc))
      · exact Or.inr (hs.trans (if_neg hc))

/-- `addTable` does not panic when `Matches` is defined for every entry whose filter matches
    (for relation tables). -/
theorem cacheAddTable_isSome (w : World) (T : Table)
    (hok : ∀ (e : CacheEntry), e ∈ w.cache.filters →
      e.filter.matchesMask (w.arch T.arch).mask = true → T.hasRelations = true →
      T.matchesRels e.rels ≠ none) :
    (w.cacheAddTable T).isSome = true := by
  unfold cacheAddTable
  simp only
  generalize hfold : List.foldl _ _ _ = r
  have h2 := hfold.symm.trans (OptFold.foldl_total _
    (fun e => [addTableEntry (w.arch T.arch).mask T e]) w.cache.filters ?_ [])
  · rw [h2]; rfl
  · intro e he acc
    have hs := cacheAddTable_step (w.arch T.arch).mask T e acc
    refine hs.trans (if_neg ?_)
    rintro ⟨h1, h2, h3⟩
    exact hok e he h1 h2 h3

/-! ### world-level form -/

/-- `w'` differs from `w` (as far as the cache can see) only in the active status of table `t`
    in archetype `a`: other archetypes are unchanged, archetype `a` keeps its mask and its other
    active tables, other tables are unchanged, and the cache is unchanged. -/
structure ActiveChange (w w' : World) (a t : Nat) : Prop where
  other : ∀ (a' : Nat), a' ≠ a → w'.archetypes[a']? = w.archetypes[a']?
  here : ∃ (A A' : Archetype), w.archetypes[a]? = some A ∧ w'.archetypes[a]? = some A' ∧
    A'.mask = A.mask ∧ ∀ (t' : Nat), t' ≠ t → (t' ∈ A'.tables.tables ↔ t' ∈ A.tables.tables)
  tbl : ∀ (t' : Nat), t' ≠ t → w'.tbl t' = w.tbl t'
  cache : w'.cache = w.cache

/-- Selection of the other tables is unaffected. -/
theorem ActiveChange.selected_ne {w w' : World} {a t : Nat} (h : ActiveChange w w' a t)
    (f : Filter) (rels : List RelID) {t' : Nat} (ht : t' ≠ t) :
    Selected w' f rels t' ↔ Selected w f rels t' := by
  obtain ⟨A, A', hA, hA', hmask, htabs⟩ := h.here
  unfold Selected
  rw [h.tbl t' ht]
  constructor
  · rintro ⟨a', B, hB, h1, h2, h3⟩
    by_cases ha : a' = a
    · subst ha
      rw [hA'] at hB; injection hB with hB; subst hB
      exact ⟨a', A, hA, (htabs t' ht).1 h1, hmask ▸ h2, h3⟩
    · exact ⟨a', B, (h.other a' ha) ▸ hB, h1, h2, h3⟩
  · rintro ⟨a', B, hB, h1, h2, h3⟩
    by_cases ha : a' = a
    · subst ha
      rw [hA] at hB; injection hB with hB; subst hB
      exact ⟨a', A', hA', (htabs t' ht).2 h1, hmask.symm ▸ h2, h3⟩
    · exact ⟨a', B, (h.other a' ha).symm ▸ hB, h1, h2, h3⟩

/-- Table `t` becomes active in archetype `a`: it was active nowhere in `w`, it is active in
    `a` in `w'`, and it points back to `a`. -/
structure TableAdded (w w' : World) (a t : Nat) : Prop extends ActiveChange w w' a t where
  inactive : ∀ (a' : Nat) (B : Archetype), w.archetypes[a']? = some B → t ∉ B.tables.tables
  active : ∀ (A' : Archetype), w'.archetypes[a]? = some A' → t ∈ A'.tables.tables
  back : (w'.tbl t).arch = a

/-- Table `t` stops being active: it is active nowhere in `w'`. -/
structure TableRemoved (w w' : World) (a t : Nat) : Prop extends ActiveChange w w' a t where
  inactive : ∀ (a' : Nat) (B : Archetype), w'.archetypes[a']? = some B → t ∉ B.tables.tables

theorem TableAdded.not_selected {w w' : World} {a t : Nat} (h : TableAdded w w' a t)
    (f : Filter) (rels : List RelID) : ¬ Selected w f rels t := by
  rintro ⟨a', B, hB, h1, _⟩
  exact h.inactive a' B hB h1

theorem TableAdded.selected_new {w w' : World} {a t : Nat} (h : TableAdded w w' a t)
    (f : Filter) (rels : List RelID) :
    Selected w' f rels t ↔
      f.matchesMask (w'.arch (w'.tbl t).arch).mask = true ∧
        (w'.tbl t).matchesRels rels = some true := by
  obtain ⟨A, A', hA, hA', hmask, htabs⟩ := h.here
  have harch : w'.arch (w'.tbl t).arch = A' := by
    rw [h.back]; unfold arch
    rw [List.getD_eq_getElem?_getD, hA']; rfl
  rw [harch]
  constructor
  · rintro ⟨a', B, hB, h1, h2, h3⟩
    by_cases ha : a' = a
    · subst ha
      rw [hA'] at hB; injection hB with hB; subst hB
      exact ⟨h2, h3⟩
    · rw [h.other a' ha] at hB
      exact absurd h1 (h.inactive a' B hB)
  · rintro ⟨h2, h3⟩
    exact ⟨a, A', hA', h.active A' hA', h2, h3⟩

theorem TableRemoved.not_selected {w w' : World} {a t : Nat} (h : TableRemoved w w' a t)
    (f : Filter) (rels : List RelID) : ¬ Selected w' f rels t := by
  rintro ⟨a', B, hB, h1, _⟩
  exact h.inactive a' B hB h1

/-- **(d)** When table `t` becomes active (worlds `w`, `w'` as in `TableAdded`), and
    `cache.addTable` for it does not panic, the result satisfies the invariant again. -/
theorem cacheAddTable_inv {w w' w'' : World} {a t : Nat} (h : CacheInv w)
    (hd : TableAdded w w' a t) (hid : (w'.tbl t).id = t)
    (hadd : w'.cacheAddTable (w'.tbl t) = some w'') :
    CacheInv w'' ∧ w''.archetypes = w'.archetypes ∧ w''.tables = w'.tables ∧
      w''.cache.indices = w'.cache.indices := by
  have heq := cacheAddTable_eq hadd
  have hA : w''.archetypes = w'.archetypes := by rw [heq]
  have hT : w''.tables = w'.tables := by rw [heq]
  have hI : w''.cache.indices = w.cache.indices := by rw [heq, ← hd.cache]
  have hF : w''.cache.filters =
      w.cache.filters.map (addTableEntry (w'.arch (w'.tbl t).arch).mask (w'.tbl t)) := by
    rw [heq, ← hd.cache]
  refine ⟨⟨?_, ?_, ?_⟩, hA, hT, by rw [hI, hd.cache]⟩
  · rw [hI]; exact h.uniq
  · intro id i
    rw [hI, hF, h.index, List.getElem?_map]
    constructor
    · rintro ⟨e, he, hid'⟩
      exact ⟨_, by rw [he]; rfl, by simp [hid']⟩
    · rintro ⟨e', he', hid'⟩
      cases hq : w.cache.filters[i]? with
      | none => rw [hq] at he'; cases he'
      | some e =>
        rw [hq] at he'
        simp only [Option.map_some] at he'
        injection he' with he'; subst he'
        exact ⟨e, rfl, by simpa using hid'⟩
  · intro e' he'
    rw [hF] at he'
    obtain ⟨e, he, rfl⟩ := List.mem_map.1 he'
    obtain ⟨hwf, hsel⟩ := h.entries e he
    have hnew : (w'.tbl t).id ∉ e.tables.tables := by
      rw [hid, hsel]; exact hd.not_selected _ _
    obtain ⟨hwf', hmem'⟩ := addTableEntry_spec (w'.arch (w'.tbl t).arch).mask (w'.tbl t) e _
      hwf hsel hnew
    refine ⟨hwf', fun t' => ?_⟩
    rw [hmem', addTableEntry_filter, addTableEntry_rels, Selected_congr hA hT, hid]
    by_cases ht : t' = t
    · subst ht
      rw [hd.selected_new]
      constructor
      · rintro (h1 | ⟨_, h1⟩)
        · exact absurd h1 (hd.not_selected _ _)
        · exact h1
      · intro h1; exact Or.inr ⟨rfl, h1⟩
    · rw [hd.selected_ne _ _ ht]
      constructor
      · rintro (h1 | ⟨h1, _⟩)
        · exact h1
        · exact absurd h1 ht
      · exact Or.inl

/-- **(e)** When table `t` stops being active (worlds `w`, `w'` as in `TableRemoved`),
    `cache.removeTable` re-establishes the invariant. -/
theorem cacheRemoveTable_inv {w w' : World} {a t : Nat} (h : CacheInv w)
    (hd : TableRemoved w w' a t) :
    CacheInv (w'.cacheRemoveTable t) ∧ (w'.cacheRemoveTable t).archetypes = w'.archetypes ∧
      (w'.cacheRemoveTable t).tables = w'.tables ∧
      (w'.cacheRemoveTable t).cache.indices = w'.cache.indices := by
  refine ⟨⟨?_, ?_, ?_⟩, rfl, rfl, rfl⟩
  · show AL.Uniq w'.cache.indices
    rw [hd.cache]; exact h.uniq
  · intro id i
    show AL.find? w'.cache.indices id = some i ↔
      ∃ (e : CacheEntry), (w'.cache.filters.map _)[i]? = some e ∧ e.id = id
    rw [hd.cache, h.index, List.getElem?_map]
    constructor
    · rintro ⟨e, he, hid'⟩
      exact ⟨{ e with tables := (e.tables.remove t).1 }, by rw [he]; rfl, hid'⟩
    · rintro ⟨e', he', hid'⟩
      cases hq : w.cache.filters[i]? with
      | none => rw [hq] at he'; cases he'
      | some e =>
        rw [hq] at he'
        simp only [Option.map_some] at he'
        injection he' with he'; subst he'
        exact ⟨e, rfl, hid'⟩
  · intro e' he'
    replace he' : e' ∈ w'.cache.filters.map
      (fun e => { e with tables := (e.tables.remove t).1 }) := he'
    rw [hd.cache] at he'
    obtain ⟨e, he, rfl⟩ := List.mem_map.1 he'
    obtain ⟨hwf, hsel⟩ := h.entries e he
    obtain ⟨hwf', hmem'⟩ := removeTableEntry_spec t e _ hwf hsel
    refine ⟨hwf', fun t' => ?_⟩
    show t' ∈ (e.tables.remove t).1.tables ↔ Selected (w'.cacheRemoveTable t) e.filter e.rels t'
    rw [hmem', Selected_congr (w := w') (w' := w'.cacheRemoveTable t) rfl rfl]
    by_cases ht : t' = t
    · subst ht
      constructor
      · rintro ⟨_, h1⟩; exact absurd rfl h1
      · intro h1; exact absurd h1 (hd.not_selected _ _)
    · rw [hd.selected_ne _ _ ht]
      constructor
      · exact fun h1 => h1.1
      · exact fun h1 => ⟨h1, ht⟩

end World
end Ark

/-! ## Cached = uncached, and how the API establishes `RelsOK` -/

namespace Ark
namespace World

/-- **Cached filters are indistinguishable from uncached ones.**  For a registered entry (found
    through the ID map), the cached table list and the uncached walk are both duplicate-free and
    have the same members. -/
theorem CacheInv.cached_eq_uncached {w : World} (h : CacheInv w) (H : TablesInv w) {id : Nat}
    {e : CacheEntry} (he : w.cacheEntry? id = some e) (hok : RelsOK w e.filter e.rels) :
    e.id = id ∧ e.tables.tables.Nodup ∧
    ∃ (ts : List Nat), w.getCacheTables e.filter e.rels = some ts ∧ ts.Nodup ∧
      ∀ (t : Nat), t ∈ e.tables.tables ↔ t ∈ ts := by
  obtain ⟨hmem, hid⟩ := h.entry_of_lookup he
  obtain ⟨hwf, hsel⟩ := h.entries e hmem
  obtain ⟨ts, hts, hnd, hts'⟩ := getCacheTables_spec H hok
  exact ⟨hid, hwf.nodup, ts, hts, hnd, fun t => by rw [hsel, hts']⟩

/-- The same in the form "member of the cached list ⇔ member of what the walk returns". -/
theorem CacheInv.mem_cached_iff {w : World} (h : CacheInv w) (H : TablesInv w) {id : Nat}
    {e : CacheEntry} (he : w.cacheEntry? id = some e) (hok : RelsOK w e.filter e.rels)
    (t : Nat) :
    t ∈ e.tables.tables ↔
      ∃ (ts : List Nat), w.getCacheTables e.filter e.rels = some ts ∧ t ∈ ts := by
  obtain ⟨_, _, ts, hts, _, hiff⟩ := h.cached_eq_uncached H he hok
  constructor
  · intro ht; exact ⟨ts, hts, (hiff t).1 ht⟩
  · rintro ⟨ts', hts', ht⟩
    rw [hts] at hts'; injection hts' with hts'; subst hts'
    exact (hiff t).2 ht

/-- `RelsOK` is what the typed filter API guarantees (`ToRelations` checks that every relation
    component is a relation type and is in the filter's mask), provided archetypes have a column
    for each component of their mask, flagged as relation column according to the registry. -/
theorem relsOK_of_mask {w : World} {f : Filter} {rels : List RelID}
    (hcols : ∀ (a : Nat) (A : Archetype), w.archetypes[a]? = some A →
      ∀ (c : Comp), A.mask.get c = true →
        ∃ (i : Nat), A.colIdx c = some i ∧ A.isRel.getD i false = w.isRelComp c)
    (hr : ∀ (r : RelID), r ∈ rels → f.mask.get r.comp = true ∧ w.isRelComp r.comp = true) :
    RelsOK w f rels := by
  intro a A hA hm _
  have hsub := ((Filter.matchesMask_iff f A.mask).1 hm).1
  have key : ∀ (r : RelID), r ∈ rels →
      ∃ (i : Nat), A.colIdx r.comp = some i ∧ A.isRel.getD i false = true := by
    intro r hr'
    obtain ⟨h1, h2⟩ := hr r hr'
    obtain ⟨i, hi, hi2⟩ := hcols a A hA r.comp (hsub _ h1)
    exact ⟨i, hi, hi2.trans h2⟩
  refine ⟨fun r hr' => ?_, fun r hr' => key r (List.mem_of_mem_head? hr')⟩
  obtain ⟨i, hi, _⟩ := key r hr'
  rw [hi]; rfl

end World
end Ark

/-! ## A small concrete world (used by the non-vacuity examples of `Ark.Props.C05Cache`) -/

namespace Ark
namespace World
namespace CacheDemo

/-- no observers are registered in the demo: callbacks do nothing -/
def noRun : ProbeRunner := fun _ _ _ => pure ()

/-- set equality of two ID lists -/
def setEq (a b : List Nat) : Bool := a.all (b.contains ·) && b.all (a.contains ·)

/-- the cached table list of entry `id` and the uncached walk select the same set -/
def agree (w : World) (id : Nat) : Bool :=
  match w.cacheEntry? id with
  | none => false
  | some e =>
    match w.getCacheTables e.filter e.rels with
    | none => false
    | some ts => setEq e.tables.tables ts

def cachedTables (w : World) (id : Nat) : List Nat :=
  ((w.cacheEntry? id).map (·.tables.tables)).getD []

/-- filter "has components 0 and 1" (0 = plain component, 1 = relation component) -/
def fAR : Filter := { mask := Mask.ofList [0, 1] }

/-- Step 1: two components, two target entities `p1`, `p2`, one child of `p1`; two registered
    filters: `fAR` without relations, and `fAR` with the relation `(1, p2)`. -/
def setup : W (Ent × Ent × Nat × Nat) := do
  let _ ← registerComponent {}
  let _ ← registerComponent { isRel := true }
  let p1 ← opNewEntity0 noRun
  let p2 ← opNewEntity0 noRun
  let _ ← opNewEntity noRun .unsafe_ [0, 1] [] [⟨1, p1⟩]
  let id0 ← cacheRegister fAR []
  let id1 ← cacheRegister fAR [⟨1, p2⟩]
  pure (p1, p2, id0, id1)

/-- Step 2: a child of `p2` — creates another matching table. -/
def addChild (p2 : Ent) : W Unit := do
  let _ ← opNewEntity noRun .unsafe_ [0, 1] [] [⟨1, p2⟩]

/-- Step 3: remove a target entity — `cleanupArchetypes` frees its table and moves the child
    to a (new) table with the zero target. -/
def removeTarget (p : Ent) : W Unit := opRemoveEntity noRun p

/-- the three steps; after each: the cached lists of both filters and whether they agree with
    the uncached walk -/
def script : W (List (List (List Nat)) × List Bool) := do
  let (p1, p2, id0, id1) ← setup
  let w ← M.get
  let t0 := [cachedTables w id0, cachedTables w id1]
  let r0 := [agree w id0, agree w id1]
  addChild p2
  let w ← M.get
  let t1 := [cachedTables w id0, cachedTables w id1]
  let r1 := [agree w id0, agree w id1]
  removeTarget p1
  let w ← M.get
  let t2 := [cachedTables w id0, cachedTables w id1]
  let r2 := [agree w id0, agree w id1]
  removeTarget p2
  let w ← M.get
  let t3 := [cachedTables w id0, cachedTables w id1]
  let r3 := [agree w id0, agree w id1]
  pure ([t0, t1, t2, t3], r0 ++ r1 ++ r2 ++ r3)

def result {α : Type} (m : W α) (w : World) : Option α :=
  match m w with
  | .ok a _ => some a
  | .panic _ _ => none


/-! Worlds around one `cache.addTable` / `cache.removeTable` call, to instantiate `TableAdded` /
    `TableRemoved` with the model's own steps. -/

/-- after `setup` -/
def wA : World := (setup (World.init 2 2)).state
def p2 : Ent := ((result setup (World.init 2 2)).map (·.2.1)).getD Ent.zero
/-- after `addChild p2`: table 2 was created in archetype 1 and announced to the cache -/
def wB : World := (addChild p2 wA).state
/-- `wB` with the cache rolled back: the state in which `createTable` calls `cache.addTable` -/
def wB0 : World := { wB with cache := wA.cache }
/-- `wB` after the storage part of freeing table 1 (`archetype.FreeTable` + `isFree`), the state
    in which `cleanupArchetypes` calls `cache.removeTable` -/
def wR : World := (wB.modArch 1 fun A => A.freeTable 1).modTbl 1 fun T => { T with isFree := true }

/-- Two archetypes with the given active tables, three or fewer tables: the shape of all demo
    worlds. -/
structure Shape (w : World) (t0 t1 : List Nat) (nt : Nat) : Prop where
  lenA : w.archetypes.length = 2
  lenT : w.tables.length = nt
  a0 : w.archetypes[0]? = some (w.arch 0)
  a1 : w.archetypes[1]? = some (w.arch 1)
  t0 : (w.arch 0).tables.tables = t0
  t1 : (w.arch 1).tables.tables = t1

theorem shape_wA : Shape wA [0] [1] 2 := by
  refine ⟨?_, ?_, ?_, ?_, ?_, ?_⟩ <;> decide +kernel
theorem shape_wB0 : Shape wB0 [0] [1, 2] 3 := by
  refine ⟨?_, ?_, ?_, ?_, ?_, ?_⟩ <;> decide +kernel
theorem shape_wB : Shape wB [0] [1, 2] 3 := by
  refine ⟨?_, ?_, ?_, ?_, ?_, ?_⟩ <;> decide +kernel
theorem shape_wR : Shape wR [0] [2] 3 := by
  refine ⟨?_, ?_, ?_, ?_, ?_, ?_⟩ <;> decide +kernel

theorem Shape.none_ge {w : World} {t0 t1 : List Nat} {nt : Nat} (h : Shape w t0 t1 nt)
    {a : Nat} (ha : 2 ≤ a) : w.archetypes[a]? = none :=
  List.getElem?_eq_none (by rw [h.lenA]; exact ha)

theorem Shape.tbl_ge {w : World} {t0 t1 : List Nat} {nt : Nat} (h : Shape w t0 t1 nt)
    {t : Nat} (ht : nt ≤ t) : w.tbl t = default := by
  unfold tbl
  rw [List.getD_eq_getElem?_getD, List.getElem?_eq_none (by rw [h.lenT]; exact ht)]; rfl

/-- which tables are active in a world of this shape -/
theorem Shape.active {w : World} {t0 t1 : List Nat} {nt : Nat} (h : Shape w t0 t1 nt)
    {a : Nat} {B : Archetype} (hB : w.archetypes[a]? = some B) :
    (a = 0 ∧ B = w.arch 0 ∧ B.tables.tables = t0) ∨ (a = 1 ∧ B = w.arch 1 ∧ B.tables.tables = t1) := by
  by_cases h0 : a = 0
  · subst h0; rw [h.a0] at hB; injection hB with hB; subst hB; exact Or.inl ⟨rfl, rfl, h.t0⟩
  by_cases h1 : a = 1
  · subst h1; rw [h.a1] at hB; injection hB with hB; subst hB; exact Or.inr ⟨rfl, rfl, h.t1⟩
  have h2 : 2 ≤ a := by omega
  rw [h.none_ge h2] at hB; cases hB

theorem demo_tableAdded : TableAdded wA wB0 1 2 := by
  refine { other := ?_, here := ?_, tbl := ?_, cache := by decide +kernel, inactive := ?_, active := ?_,
           back := by decide +kernel }
  · intro a' h
    by_cases h0 : a' = 0
    · subst h0; decide +kernel
    have h2 : 2 ≤ a' := by omega
    rw [shape_wB0.none_ge h2, shape_wA.none_ge h2]
  · refine ⟨wA.arch 1, wB0.arch 1, shape_wA.a1, shape_wB0.a1, by decide +kernel, ?_⟩
    intro t' ht
    rw [shape_wA.t1, shape_wB0.t1]
    simp only [List.mem_cons, List.not_mem_nil, or_false]
    omega
  · intro t' ht
    by_cases h0 : t' = 0
    · subst h0; decide +kernel
    by_cases h1 : t' = 1
    · subst h1; decide +kernel
    have h3 : 3 ≤ t' := by omega
    rw [shape_wB0.tbl_ge h3, shape_wA.tbl_ge (Nat.le_of_succ_le h3)]
  · intro a' B hB
    rcases shape_wA.active hB with ⟨_, _, ht⟩ | ⟨_, _, ht⟩ <;> rw [ht] <;> simp
  · intro A' hA'
    rw [shape_wB0.a1] at hA'; injection hA' with hA'; subst hA'; rw [shape_wB0.t1]; simp

theorem demo_tableRemoved : TableRemoved wB wR 1 1 := by
  refine { other := ?_, here := ?_, tbl := ?_, cache := by decide +kernel, inactive := ?_ }
  · intro a' h
    by_cases h0 : a' = 0
    · subst h0; decide +kernel
    have h2 : 2 ≤ a' := by omega
    rw [shape_wR.none_ge h2, shape_wB.none_ge h2]
  · refine ⟨wB.arch 1, wR.arch 1, shape_wB.a1, shape_wR.a1, by decide +kernel, ?_⟩
    intro t' ht
    rw [shape_wB.t1, shape_wR.t1]
    simp only [List.mem_cons, List.not_mem_nil, or_false]
    omega
  · intro t' ht
    by_cases h0 : t' = 0
    · subst h0; decide +kernel
    by_cases h2 : t' = 2
    · subst h2; decide +kernel
    have h3 : 3 ≤ t' := by omega
    rw [shape_wR.tbl_ge h3, shape_wB.tbl_ge h3]
  · intro a' B hB
    rcases shape_wR.active hB with ⟨_, _, ht⟩ | ⟨_, _, ht⟩ <;> rw [ht] <;> simp

end CacheDemo
end World
end Ark
