/-
  Ark.Proofs.ResetEquivRel — C16, second sentence, for the history machine `Ark.RelRefine2`
  (entity operations WITH relation components, `CopyEntity`, `Shrink`, `Reset`, filter
  definitions / registrations / unregistrations, complete query iterations):

    "From then on [after Reset] every history has the same outcome as on a new world with the same
     component types registered in the same order."

  After a `Reset` the world is NOT a new world: archetypes and tables persist (the tables of
  relation archetypes sit in free lists and are recycled in LIFO order, so table IDs differ),
  capacities persist, the pool keeps invalidated handles behind its slice, cache IDs continue.
  What the client sees is nevertheless the same.

  * `Out`, `stepOut2`, `trace2` — what the client sees of a history: per operation "not
    expressible" (`none`), the returned handle or the panic class, or the visit records of a
    complete query iteration (entity, component values, relation targets);
    `Out.Equiv` / `TraceEq`: equality, except that the visit records of a query may come in a
    different order (`List.Perm`);
  * `labelsAfter` — the filter labels defined since the comparison started (a filter object is a
    client-side object: only objects constructed after the `Reset` exist in both runs);
  * `Sim L s1 s2` — the simulation relation: equal specification (entities ↦ components ↦ values,
    relation targets, registry flags), equal issued handles, equal registry, pools with the same
    core, and for every label in `L` filter objects that agree up to the cache ID.  Nothing is
    said about archetypes, tables, table IDs, capacities, the cache;
  * `sim_step2` — `Sim` is kept by every step, with equivalent outputs;
  * `sim_run2`, `regs_run2`, `sim_reset_regs2`, `reset_equiv_rel` — the main theorem.

  Kernel-only proofs, core Lean only.
-/
import Ark.Proofs.ResetEquivRelQuery

set_option autoImplicit false

namespace Ark

open World Ark.Props.C01World

namespace RelRefine2

open QueryRel QueryExact RelRefine
open Refine (Outcome outcome Reserved2)

/-! ## 1. what the client sees -/

/-- what the client sees of one operation -/
inductive Out
  /-- a call: the returned handle (if any) or the panic class -/
  | call (o : Outcome)
  /-- an operation without a result the comparison looks at (the construction of a filter
      object; `Shrink`, whose boolean "more work left" depends on capacities — they persist over
      `Reset`, see `Ark.Props.C16Rel.shrink_result_differs`) -/
  | done
  /-- a complete query iteration -/
  | query (q : QOut)
  deriving DecidableEq, Repr

/-- equal, up to the order of the visits of a query -/
def Out.Equiv : Out → Out → Prop
  | .call a, .call b => a = b
  | .done, .done => True
  | .query a, .query b => a.Equiv b
  | _, _ => False

def OutEq : Option Out → Option Out → Prop
  | none, none => True
  | some a, some b => a.Equiv b
  | _, _ => False

/-- two traces agree: same length, position by position `OutEq` -/
def TraceEq : List (Option Out) → List (Option Out) → Prop
  | [], [] => True
  | a :: as, b :: bs => OutEq a b ∧ TraceEq as bs
  | _, _ => False

theorem OutEq.call_refl (o : Outcome) : OutEq (some (.call o)) (some (.call o)) := rfl

theorem OutEq.none_refl : OutEq none none := trivial

theorem OutEq.done_refl : OutEq (some .done) (some .done) := trivial

/-- the filter labels usable after `op`: a filter object constructed by an expressible `fdef`
    (fixed targets the client can name) joins; one constructed with fixed targets the client
    cannot name leaves -/
def labelsAfter (L : List Nat) (s : St) : Op2 → List Nat
  | .fdef f fo =>
    if guardF s.w fo = true then
      (if tgtsExpr s fo.rels = true then (if fdefStores s.w fo = true then f :: L else L)
       else L.filter fun g => decide (g ≠ f))
    else L
  | _ => L

/-- what the client sees of one operation; `none`: not expressible.  An entity operation is
    expressible as in `Ark.RelRefine` (`guard`), `copy` on a handle the client holds, the filter
    operations and queries on labels in `L`, a query with per-call relations as in `qExpr`. -/
def stepOut2 (run : ProbeRunner) (L : List Nat) (s : St) : Op2 → Option Out
  | .base op => if guard s op = true then some (.call (outcome (exec run s.w op))) else none
  | .copy e => if e ∈ s.issued then some (.call (outcomeE (opCopyEntity run e s.w))) else none
  | .shrink _ => some .done
  | .reset => some (.call (outcomeU (opReset s.w)))
  | .fdef _ _ => some .done
  | .freg f => if f ∈ L then some (.call (outcomeU (opFilterRegister f s.w))) else none
  | .funreg f => if f ∈ L then some (.call (outcomeU (opFilterUnregister f s.w))) else none
  | .query f extra =>
    if f ∈ L ∧ qExpr s f extra = true then
      some (.query (qOut s.w (drain (foAt s.w f) extra s.w)))
    else none

/-- what the client sees of a history -/
def trace2 (run : ProbeRunner) : List Nat → St → List Op2 → List (Option Out)
  | _, _, [] => []
  | L, s, op :: ops => stepOut2 run L s op :: trace2 run (labelsAfter L s op) (step2 run s op) ops

/-- the filter labels usable after a history -/
def labels2 (run : ProbeRunner) : List Nat → St → List Op2 → List Nat
  | L, _, [] => L
  | L, s, op :: ops => labels2 run (labelsAfter L s op) (step2 run s op) ops

theorem trace2_length (run : ProbeRunner) (ops : List Op2) :
    ∀ (L : List Nat) (s : St), (trace2 run L s ops).length = ops.length := by
  induction ops with
  | nil => intro L s; rfl
  | cons op ops ih => intro L s; simp only [trace2, List.length_cons, ih]

/-! ## 2. the simulation relation -/

/-- **the simulation relation**: the two machine states agree on everything later operations
    depend on — the specification, the handles the client holds, the registry, the core of the
    entity pool, and the filter objects under the labels in `L` (up to the cache ID).  The worlds
    themselves may differ: archetypes, tables and their IDs, free lists, capacities, the memory
    behind the pool slice, the cache. -/
structure Sim (L : List Nat) (s1 s2 : St) : Prop where
  ss : s1.ss = s2.ss
  issued : s1.issued = s2.issued
  kinds : s1.w.kinds = s2.w.kinds
  core : s1.w.pool.Core = s2.w.pool.Core
  heap : ∀ (f : Nat), f ∈ L → FoRel (foAt s1.w f) (foAt s2.w f)

theorem foAt_congr {w w' : World} (h : w'.filters = w.filters) (f : Nat) : foAt w' f = foAt w f := by
  simp only [foAt, h]

theorem guard_congr {s1 s2 : St} (hss : s1.ss = s2.ss) (hi : s1.issued = s2.issued) (op : Op) :
    guard s1 op = guard s2 op := by
  cases op <;> simp only [RelRefine.guard, tgtsExpr, hss, hi]

theorem poolAfter_core {p q : Pool} (h : p.Core = q.Core) (op : Op) :
    (poolAfter p op).Core = (poolAfter q op).Core := by
  cases op with
  | new _ _ _ _ => exact (Pool.get_core h).2
  | del e => exact Pool.recycle_core h e
  | reg _ _ _ => exact h
  | add _ _ _ _ _ => exact h
  | rem _ _ _ => exact h
  | setrel _ _ _ => exact h
  | set _ _ => exact h

theorem reset_core {p q : Pool} (h : p.Core = q.Core) : p.reset.Core = q.reset.Core := by
  obtain ⟨he, _, _⟩ := Pool.core_eq_iff.mp h
  simp only [Pool.reset, Pool.Core, he]

/-- the conclusion of the step lemmas -/
def SimGoal (run1 run2 : ProbeRunner) (L : List Nat) (s1 s2 : St) (op : Op2) : Prop :=
  Sim (labelsAfter L s1 op) (step2 run1 s1 op) (step2 run2 s2 op) ∧
  labelsAfter L s1 op = labelsAfter L s2 op ∧
  OutEq (stepOut2 run1 L s1 op) (stepOut2 run2 L s2 op)

section Steps

variable (run1 run2 : ProbeRunner) {L : List Nat} {s1 s2 : St} {fl1 fl2 : List Nat}

theorem sim_base (H1 : HInv2 s1 fl1) (H2 : HInv2 s2 fl2)
    (hf1 : s1.w.tables.length + s1.w.relationArchetypes.length + 1 ≤ maxU32)
    (he1 : 2 * s1.w.entities.length < 2 ^ 32)
    (hf2 : s2.w.tables.length + s2.w.relationArchetypes.length + 1 ≤ maxU32)
    (he2 : 2 * s2.w.entities.length < 2 ^ 32) (S : Sim L s1 s2) (op : Op) :
    SimGoal run1 run2 L s1 s2 (.base op) := by
  have hgc := guard_congr S.ss S.issued op
  show Sim L (RelRefine.step run1 s1 op) (RelRefine.step run2 s2 op) ∧ L = L ∧
    OutEq (stepOut2 run1 L s1 (.base op)) (stepOut2 run2 L s2 (.base op))
  by_cases hg : guard s1 op = true
  · have hg2 : guard s2 op = true := by rw [← hgc]; exact hg
    obtain ⟨a1, r1⟩ := step_desc run1 H1.base hf1 he1 op hg
    obtain ⟨a2, r2⟩ := step_desc run2 H2.base hf2 he2 op hg2
    have hfresh : (s1.w.pool.get).2 = (s2.w.pool.get).2 := (Pool.get_core S.core).1
    simp only [stepOut2, if_pos hg, if_pos hg2]
    by_cases hp : pre s1.ss op
    · have hp2 : pre s2.ss op := by rw [← S.ss]; exact hp
      obtain ⟨b1, b2, b3, b4, b5, b6⟩ := a1 hp
      obtain ⟨c1, c2, c3, c4, c5, c6⟩ := a2 hp2
      refine ⟨⟨?_, ?_, ?_, ?_, ?_⟩, trivial, ?_⟩
      · rw [b1, c1, S.ss, hfresh]
      · rw [b2, c2, S.issued, hfresh]
      · rw [b4, c4, S.kinds]
      · rw [b3, c3]; exact poolAfter_core S.core op
      · intro f hf
        rw [foAt_congr b5, foAt_congr c5]; exact S.heap f hf
      · rw [b6, c6, hfresh]; exact OutEq.call_refl _
    · have hp2 : ¬ pre s2.ss op := by rw [← S.ss]; exact hp
      obtain ⟨b1, b2⟩ := r1 hp
      obtain ⟨c1, c2⟩ := r2 hp2
      rw [b1, c1, b2, c2, S.ss]
      exact ⟨S, trivial, OutEq.call_refl _⟩
  · have hg2 : ¬ guard s2 op = true := by rw [← hgc]; exact hg
    have e1 : RelRefine.step run1 s1 op = s1 := by rw [RelRefine.step, if_neg hg]
    have e2 : RelRefine.step run2 s2 op = s2 := by rw [RelRefine.step, if_neg hg2]
    rw [e1, e2]
    simp only [stepOut2, if_neg hg, if_neg hg2]
    exact ⟨S, trivial, OutEq.none_refl⟩

theorem sim_copy (H1 : HInv2 s1 fl1) (H2 : HInv2 s2 fl2)
    (he1 : 2 * s1.w.entities.length < 2 ^ 32) (he2 : 2 * s2.w.entities.length < 2 ^ 32)
    (S : Sim L s1 s2) (e : Ent) : SimGoal run1 run2 L s1 s2 (.copy e) := by
  show Sim L _ _ ∧ L = L ∧ _
  by_cases hi : e ∈ s1.issued
  · have hi2 : e ∈ s2.issued := by rw [← S.issued]; exact hi
    obtain ⟨a1, r1⟩ := copy_desc run1 H1 he1 hi
    obtain ⟨a2, r2⟩ := copy_desc run2 H2 he2 hi2
    have hfresh : (s1.w.pool.get).2 = (s2.w.pool.get).2 := (Pool.get_core S.core).1
    simp only [stepOut2, if_pos hi, if_pos hi2]
    cases hf : find s1.ss.ents e with
    | some en =>
      have hf2 : find s2.ss.ents e = some en := by rw [← S.ss]; exact hf
      obtain ⟨b1, b2, b3, b4, b5, b6⟩ := a1 en hf
      obtain ⟨c1, c2, c3, c4, c5, c6⟩ := a2 en hf2
      refine ⟨⟨?_, ?_, ?_, ?_, ?_⟩, trivial, ?_⟩
      · rw [b1, c1, S.ss, hfresh]
      · rw [b2, c2, S.issued, hfresh]
      · rw [b4, c4, S.kinds]
      · rw [b3, c3]; exact (Pool.get_core S.core).2
      · intro f hf'
        rw [foAt_congr b5, foAt_congr c5]; exact S.heap f hf'
      · rw [b6, c6, hfresh]; exact OutEq.call_refl _
    | none =>
      have hf2 : find s2.ss.ents e = none := by rw [← S.ss]; exact hf
      obtain ⟨b1, b2⟩ := r1 hf
      obtain ⟨c1, c2⟩ := r2 hf2
      rw [b1, c1, b2, c2]
      exact ⟨S, trivial, OutEq.call_refl _⟩
  · have hi2 : e ∉ s2.issued := by rw [← S.issued]; exact hi
    have e1 : step2 run1 s1 (.copy e) = s1 := by simp only [step2, decide_eq_true_eq, if_neg hi]
    have e2 : step2 run2 s2 (.copy e) = s2 := by simp only [step2, decide_eq_true_eq, if_neg hi2]
    rw [e1, e2]
    simp only [stepOut2, if_neg hi, if_neg hi2]
    exact ⟨S, trivial, OutEq.none_refl⟩

/-- a step that leaves specification, handles, pool, registry and the filter objects under the
    labels in `L` alone on both sides keeps `Sim` -/
theorem Sim.of_same {s1' s2' : St} (S : Sim L s1 s2) (A : Same s1 s1') (B : Same s2 s2')
    (hA : ∀ (f : Nat), f ∈ L → foAt s1'.w f = foAt s1.w f)
    (hB : ∀ (f : Nat), f ∈ L → foAt s2'.w f = foAt s2.w f) : Sim L s1' s2' :=
  ⟨by rw [A.ss, B.ss]; exact S.ss, by rw [A.issued, B.issued]; exact S.issued,
    by rw [A.kinds, B.kinds]; exact S.kinds, by rw [A.pool, B.pool]; exact S.core,
    fun f hf => by rw [hA f hf, hB f hf]; exact S.heap f hf⟩

theorem sim_shrink (H1 : HInv2 s1 fl1) (H2 : HInv2 s2 fl2)
    (he1 : 2 * s1.w.entities.length < 2 ^ 32) (he2 : 2 * s2.w.entities.length < 2 ^ 32)
    (S : Sim L s1 s2) (b : Bool) : SimGoal run1 run2 L s1 s2 (.shrink b) := by
  obtain ⟨A, a⟩ := shrink_desc run1 H1 he1 b
  obtain ⟨B, b'⟩ := shrink_desc run2 H2 he2 b
  exact ⟨S.of_same A B (fun f _ => foAt_congr a f) (fun f _ => foAt_congr b' f), rfl,
    OutEq.done_refl⟩

theorem sim_reset (H1 : HInv2 s1 fl1) (H2 : HInv2 s2 fl2) (S : Sim L s1 s2) :
    SimGoal run1 run2 L s1 s2 .reset := by
  obtain ⟨b1, b2, b3, b4, b5, b6⟩ := reset_desc run1 H1
  obtain ⟨c1, c2, c3, c4, c5, c6⟩ := reset_desc run2 H2
  refine ⟨⟨?_, ?_, ?_, ?_, ?_⟩, rfl, ?_⟩
  · rw [b1, c1, S.ss]
  · rw [b2, c2]
  · rw [b4, c4, S.kinds]
  · rw [b3, c3]; exact reset_core S.core
  · intro f hf
    have R := S.heap f hf
    rw [b5 f, c5 f]
    exact ⟨R.filter, R.ids, R.rels, R.typed, rfl⟩
  · show OutEq (some (.call (outcomeU (opReset s1.w)))) (some (.call (outcomeU (opReset s2.w))))
    rw [b6, c6]; exact OutEq.call_refl _

/-- the typed constructor accepts the fixed relations on both sides or on neither (targets the
    client can name) -/
theorem fdefStores_congr (H1 : HInv2 s1 fl1) (H2 : HInv2 s2 fl2) (S : Sim L s1 s2)
    (fo : FilterObj) (hx : tgtsExpr s1 fo.rels = true) :
    fdefStores s1.w fo = fdefStores s2.w fo := by
  have hx2 : tgtsExpr s2 fo.rels = true := by
    simp only [tgtsExpr, ← S.issued] at hx ⊢; exact hx
  unfold fdefStores
  cases ht : fo.typed with
  | false => rfl
  | true =>
    simp only [if_true]
    rw [H1.base.preCheckTyped_kind fo.filter.mask fo.rels hx,
      H2.base.preCheckTyped_kind fo.filter.mask fo.rels hx2, S.ss]
    cases preKind s2.ss (some fo.filter.mask) fo.rels <;> rfl

theorem guardF_congr (S : Sim L s1 s2) (fo : FilterObj) : guardF s1.w fo = guardF s2.w fo := by
  simp only [guardF, World.isRelComp, S.kinds]

theorem sim_fdef (H1 : HInv2 s1 fl1) (H2 : HInv2 s2 fl2) (S : Sim L s1 s2) (f : Nat)
    (fo : FilterObj) : SimGoal run1 run2 L s1 s2 (.fdef f fo) := by
  obtain ⟨A, a⟩ := fdef_desc run1 s1 f fo
  obtain ⟨B, b⟩ := fdef_desc run2 s2 f fo
  have hgF := guardF_congr S fo
  have hxe : tgtsExpr s1 fo.rels = tgtsExpr s2 fo.rels := by simp only [tgtsExpr, S.issued]
  refine ⟨?_, ?_, OutEq.done_refl⟩
  · by_cases hg : guardF s1.w fo = true
    · have hg2 : guardF s2.w fo = true := by rw [← hgF]; exact hg
      by_cases hx : tgtsExpr s1 fo.rels = true
      · have hst := fdefStores_congr H1 H2 S fo hx
        by_cases hs : fdefStores s1.w fo = true
        · have hs2 : fdefStores s2.w fo = true := by rw [← hst]; exact hs
          simp only [labelsAfter, if_pos hg, if_pos hx, if_pos hs]
          refine ⟨by rw [A.ss, B.ss]; exact S.ss, by rw [A.issued, B.issued]; exact S.issued,
            by rw [A.kinds, B.kinds]; exact S.kinds, by rw [A.pool, B.pool]; exact S.core, ?_⟩
          intro g hgm
          rw [a g, b g]
          by_cases hgf : g = f
          · rw [if_pos ⟨hg, hs, hgf⟩, if_pos ⟨hg2, hs2, hgf⟩]; exact FoRel.refl fo
          · rw [if_neg (fun h => hgf h.2.2), if_neg (fun h => hgf h.2.2)]
            rcases List.mem_cons.mp hgm with h | h
            · exact absurd h hgf
            · exact S.heap g h
        · have hs2 : ¬ fdefStores s2.w fo = true := by rw [← hst]; exact hs
          simp only [labelsAfter, if_pos hg, if_pos hx, if_neg hs]
          refine S.of_same A B (fun g _ => ?_) (fun g _ => ?_)
          · rw [a g, if_neg (fun h => hs h.2.1)]
          · rw [b g, if_neg (fun h => hs2 h.2.1)]
      · simp only [labelsAfter, if_pos hg, if_neg hx]
        refine ⟨by rw [A.ss, B.ss]; exact S.ss, by rw [A.issued, B.issued]; exact S.issued,
          by rw [A.kinds, B.kinds]; exact S.kinds, by rw [A.pool, B.pool]; exact S.core, ?_⟩
        intro g hgm
        obtain ⟨hgL, hgf⟩ := List.mem_filter.mp hgm
        have hgf' : g ≠ f := by simpa using hgf
        rw [a g, b g, if_neg (fun h => hgf' h.2.2), if_neg (fun h => hgf' h.2.2)]
        exact S.heap g hgL
    · have hg2 : ¬ guardF s2.w fo = true := by rw [← hgF]; exact hg
      simp only [labelsAfter, if_neg hg]
      refine S.of_same A B (fun g _ => ?_) (fun g _ => ?_)
      · rw [a g, if_neg (fun h => hg h.1)]
      · rw [b g, if_neg (fun h => hg2 h.1)]
  · show labelsAfter L s1 (.fdef f fo) = labelsAfter L s2 (.fdef f fo)
    simp only [labelsAfter, ← hgF, ← hxe]
    by_cases hg : guardF s1.w fo = true
    · rw [if_pos hg, if_pos hg]
      by_cases hx : tgtsExpr s1 fo.rels = true
      · rw [if_pos hx, if_pos hx, fdefStores_congr H1 H2 S fo hx]
      · rw [if_neg hx, if_neg hx]
    · rw [if_neg hg, if_neg hg]

/-- `freg f` leaves the objects under other labels alone -/
theorem freg_other (run : ProbeRunner) {s : St} {fl : List Nat} (H : HInv2 s fl) (f g : Nat)
    (hgf : g ≠ f) : foAt (step2 run s (.freg f)).w g = foAt s.w g := by
  obtain ⟨_, a, r⟩ := freg_desc run H f
  cases hc : (foAt s.w f).cache with
  | none =>
    obtain ⟨id, h, _⟩ := a hc
    rw [h g, if_neg hgf]
  | some id => rw [(r (by rw [hc]; rfl)).1]

theorem funreg_other (run : ProbeRunner) {s : St} {fl : List Nat} (H : HInv2 s fl) (f g : Nat)
    (hgf : g ≠ f) : foAt (step2 run s (.funreg f)).w g = foAt s.w g := by
  obtain ⟨_, a, r⟩ := funreg_desc run H f
  cases hc : (foAt s.w f).cache with
  | none => rw [(r hc).1]
  | some id =>
    obtain ⟨h, _⟩ := a (by rw [hc]; rfl)
    rw [h g, if_neg hgf]

theorem sim_freg (H1 : HInv2 s1 fl1) (H2 : HInv2 s2 fl2) (S : Sim L s1 s2) (f : Nat) :
    SimGoal run1 run2 L s1 s2 (.freg f) := by
  obtain ⟨A, a1, r1⟩ := freg_desc run1 H1 f
  obtain ⟨B, a2, r2⟩ := freg_desc run2 H2 f
  show Sim L _ _ ∧ L = L ∧ _
  by_cases hfL : f ∈ L
  · have R := S.heap f hfL
    simp only [stepOut2, if_pos hfL]
    cases hc : (foAt s1.w f).cache with
    | none =>
      have hc2 : (foAt s2.w f).cache = none := by
        have := R.cache; rw [hc] at this
        cases h : (foAt s2.w f).cache with
        | none => rfl
        | some x => rw [h] at this; cases this
      obtain ⟨id1, h1, o1⟩ := a1 hc
      obtain ⟨id2, h2, o2⟩ := a2 hc2
      refine ⟨⟨by rw [A.ss, B.ss]; exact S.ss, by rw [A.issued, B.issued]; exact S.issued,
        by rw [A.kinds, B.kinds]; exact S.kinds, by rw [A.pool, B.pool]; exact S.core, ?_⟩, trivial, ?_⟩
      · intro g hg
        rw [h1 g, h2 g]
        by_cases hgf : g = f
        · rw [if_pos hgf, if_pos hgf]
          exact ⟨R.filter, R.ids, R.rels, R.typed, rfl⟩
        · rw [if_neg hgf, if_neg hgf]; exact S.heap g hg
      · rw [o1, o2]; exact OutEq.call_refl _
    | some id =>
      have hs1 : (foAt s1.w f).cache.isSome = true := by rw [hc]; rfl
      have hs2 : (foAt s2.w f).cache.isSome = true := by rw [← R.cache]; exact hs1
      obtain ⟨e1, o1⟩ := r1 hs1
      obtain ⟨e2, o2⟩ := r2 hs2
      rw [e1, e2, o1, o2]
      exact ⟨S, trivial, OutEq.call_refl _⟩
  · simp only [stepOut2, if_neg hfL]
    refine ⟨S.of_same A B (fun g hg => ?_) (fun g hg => ?_), trivial, OutEq.none_refl⟩
    · exact freg_other run1 H1 f g (fun h => hfL (h ▸ hg))
    · exact freg_other run2 H2 f g (fun h => hfL (h ▸ hg))

theorem sim_funreg (H1 : HInv2 s1 fl1) (H2 : HInv2 s2 fl2) (S : Sim L s1 s2) (f : Nat) :
    SimGoal run1 run2 L s1 s2 (.funreg f) := by
  obtain ⟨A, a1, r1⟩ := funreg_desc run1 H1 f
  obtain ⟨B, a2, r2⟩ := funreg_desc run2 H2 f
  show Sim L _ _ ∧ L = L ∧ _
  by_cases hfL : f ∈ L
  · have R := S.heap f hfL
    simp only [stepOut2, if_pos hfL]
    cases hc : (foAt s1.w f).cache with
    | some id =>
      have hs1 : (foAt s1.w f).cache.isSome = true := by rw [hc]; rfl
      have hs2 : (foAt s2.w f).cache.isSome = true := by rw [← R.cache]; exact hs1
      obtain ⟨h1, o1⟩ := a1 hs1
      obtain ⟨h2, o2⟩ := a2 hs2
      refine ⟨⟨by rw [A.ss, B.ss]; exact S.ss, by rw [A.issued, B.issued]; exact S.issued,
        by rw [A.kinds, B.kinds]; exact S.kinds, by rw [A.pool, B.pool]; exact S.core, ?_⟩, trivial, ?_⟩
      · intro g hg
        rw [h1 g, h2 g]
        by_cases hgf : g = f
        · rw [if_pos hgf, if_pos hgf]
          exact ⟨R.filter, R.ids, R.rels, R.typed, rfl⟩
        · rw [if_neg hgf, if_neg hgf]; exact S.heap g hg
      · rw [o1, o2]; exact OutEq.call_refl _
    | none =>
      have hc2 : (foAt s2.w f).cache = none := by
        have := R.cache; rw [hc] at this
        cases h : (foAt s2.w f).cache with
        | none => rfl
        | some x => rw [h] at this; cases this
      obtain ⟨e1, o1⟩ := r1 hc
      obtain ⟨e2, o2⟩ := r2 hc2
      rw [e1, e2, o1, o2]
      exact ⟨S, trivial, OutEq.call_refl _⟩
  · simp only [stepOut2, if_neg hfL]
    refine ⟨S.of_same A B (fun g hg => ?_) (fun g hg => ?_), trivial, OutEq.none_refl⟩
    · exact funreg_other run1 H1 f g (fun h => hfL (h ▸ hg))
    · exact funreg_other run2 H2 f g (fun h => hfL (h ▸ hg))

theorem FoRel.symm {a b : FilterObj} (h : FoRel a b) : FoRel b a :=
  ⟨h.filter.symm, h.ids.symm, h.rels.symm, h.typed.symm, h.cache.symm⟩

theorem sim_query (H1 : HInv2 s1 fl1) (H2 : HInv2 s2 fl2) (S : Sim L s1 s2) (f : Nat)
    (extra : List RelID) : SimGoal run1 run2 L s1 s2 (.query f extra) := by
  obtain ⟨A, a⟩ := query_frame run1 H1 f extra
  obtain ⟨B, b⟩ := query_frame run2 H2 f extra
  refine ⟨S.of_same A B (fun g _ => foAt_congr a g) (fun g _ => foAt_congr b g), rfl, ?_⟩
  simp only [stepOut2]
  by_cases hfL : f ∈ L
  · have R := S.heap f hfL
    by_cases hq : qExpr s1 f extra = true
    · obtain ⟨hq2, heq⟩ := query_congr H1 H2 S.ss S.issued S.kinds f R hq
      rw [if_pos ⟨hfL, hq⟩, if_pos ⟨hfL, hq2⟩]
      exact heq
    · have hq2 : ¬ qExpr s2 f extra = true := fun h =>
        hq (query_congr H2 H1 S.ss.symm S.issued.symm S.kinds.symm f R.symm h).1
      rw [if_neg (fun h => hq h.2), if_neg (fun h => hq2 h.2)]
      exact OutEq.none_refl
  · rw [if_neg (fun h => hfL h.1), if_neg (fun h => hfL h.1)]
    exact OutEq.none_refl

end Steps

/-- **`Sim` is kept by every step, and the client sees the same**: the same operation is
    expressible on both sides, is accepted on both or rejected on both with the same panic class,
    a creation returns the same handle, and a query yields the same visit records up to their
    order -/
theorem sim_step2 (run1 run2 : ProbeRunner) {L : List Nat} {s1 s2 : St} {fl1 fl2 : List Nat}
    (H1 : HInv2 s1 fl1) (H2 : HInv2 s2 fl2)
    (hf1 : s1.w.tables.length + s1.w.relationArchetypes.length + 1 ≤ maxU32)
    (he1 : 2 * s1.w.entities.length < 2 ^ 32)
    (hf2 : s2.w.tables.length + s2.w.relationArchetypes.length + 1 ≤ maxU32)
    (he2 : 2 * s2.w.entities.length < 2 ^ 32) (S : Sim L s1 s2) (op : Op2) :
    SimGoal run1 run2 L s1 s2 op := by
  cases op with
  | base op => exact sim_base run1 run2 H1 H2 hf1 he1 hf2 he2 S op
  | copy e => exact sim_copy run1 run2 H1 H2 he1 he2 S e
  | shrink b => exact sim_shrink run1 run2 H1 H2 he1 he2 S b
  | reset => exact sim_reset run1 run2 H1 H2 S
  | fdef f fo => exact sim_fdef run1 run2 H1 H2 S f fo
  | freg f => exact sim_freg run1 run2 H1 H2 S f
  | funreg f => exact sim_funreg run1 run2 H1 H2 S f
  | query f extra => exact sim_query run1 run2 H1 H2 S f extra

end RelRefine2

end Ark
