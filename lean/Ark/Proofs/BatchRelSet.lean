/-
  Ark.Proofs.BatchRelSet — C06 + C04 with relations, part 7: `setRelationsBatch` (the batch form
  of `SetRelations`) in normal form, and its two loops.

  * `prepLoop`, `moveStepR`, `setRelationsBatch_eq_planFirst` — without observers and callback
    the batch is: the table selection, the loop of `prepareRelationsMove` over the non-empty
    selected tables (find or create the destination; `none` — the table is skipped — when its
    targets do not change), `Lock` (since the repair of defect D27 the lock is taken only after
    that loop: `setRelationsBatch_prepLoop_panic` — a panic of the loop leaves the lock as it
    was), `moveEntities` for every collected move, `registerTargets`, `Unlock`;
    `setRelationsBatch_eq` — the same with `Lock` FIRST (the order before the repair): still an
    equation of the operation, because selection and lookup loop neither read nor write the lock
    (`frames_prepLoop`); the specifications downstream are proved from this form;
  * `PrepInv` / `prepLoop_spec` — the first loop never fails for a valid call and keeps the
    invariants; every collected move goes from a selected table whose targets change to another
    non-free table of the same archetype holding the edited targets; a selected table is skipped
    exactly when the edit does not change its targets;
  * `MvInv` / `moveLoop_spec` — the second loop: every entity of a source table reads the targets
    of its destination, everybody else keeps targets; all keep components and values.
  Kernel-only proofs, core Lean only.
-/
import Ark.Proofs.BatchRelSingles
import Ark.Proofs.QueryRelAssign
import Ark.Proofs.TargetsSetRel

set_option autoImplicit false

namespace Ark

open World Ark.Props.C01World QueryRel

/-! ## 1. `setRelationsBatch` in normal form -/

namespace World

/-- the first loop of `setRelationsBatch`: find or create the destination of every non-empty
    selected table whose targets change -/
def prepLoop (rels : List RelID) : List Nat → List RelMove → W (List RelMove)
  | [], s => pure s
  | t :: ts, s => fun w =>
    if ((w.tbl t).len == 0) = true then prepLoop rels ts s w
    else
      match prepareRelationsMove t (w.tbl t).len rels w with
      | .ok (some mv) w' => prepLoop rels ts (s ++ [mv]) w'
      | .ok none w' => prepLoop rels ts s w'
      | .panic k w' => .panic k w'

/-- one iteration of the second loop of `setRelationsBatch` (no callback) -/
def moveStepR (w : World) (mv : RelMove) : World := moveEntitiesW w mv.oldT mv.newT mv.len

theorem forIn_prepLoop (rels : List RelID) (g : Nat → List RelMove → W (ForInStep (List RelMove)))
    (hg : ∀ (t : Nat) (s : List RelMove) (w : World), g t s w =
      if ((w.tbl t).len == 0) = true then .ok (ForInStep.yield s) w
      else
        match prepareRelationsMove t (w.tbl t).len rels w with
        | .ok (some mv) w' => .ok (ForInStep.yield (s ++ [mv])) w'
        | .ok none w' => .ok (ForInStep.yield s) w'
        | .panic k w' => .panic k w') :
    ∀ (ts : List Nat) (s : List RelMove) (w : World),
      (forIn ts s g : W (List RelMove)) w = prepLoop rels ts s w
  | [], _, _ => rfl
  | t :: ts, s, w => by
    rw [List.forIn_cons, M.bind_apply, hg t s w]
    simp only [prepLoop]
    cases h0 : ((w.tbl t).len == 0) with
    | true =>
      simp only [if_true]
      exact forIn_prepLoop rels g hg ts _ w
    | false =>
      simp only [Bool.false_eq_true, if_false]
      cases hp : prepareRelationsMove t (w.tbl t).len rels w with
      | panic k w' => rfl
      | ok x w' =>
        cases x with
        | none => exact forIn_prepLoop rels g hg ts _ w'
        | some mv => exact forIn_prepLoop rels g hg ts _ w'

theorem moveStepR_obs (w : World) (mv : RelMove) : (moveStepR w mv).obs = w.obs :=
  (moveEntitiesW_fields w mv.oldT mv.newT mv.len).2.2.2.2.2.2.1

theorem foldl_moveStepR_obs : ∀ (l : List RelMove) (w : World), (l.foldl moveStepR w).obs = w.obs
  | [], _ => rfl
  | mv :: l, w => by rw [List.foldl_cons, foldl_moveStepR_obs l, moveStepR_obs]

/-- `prepareRelationsMove` in normal form -/
theorem prepareRelationsMove_eq (t n : Nat) (rels : List RelID) (w : World) :
    prepareRelationsMove t n rels w =
      match getExchangeTargets (w.tbl t) rels w with
      | .panic k s => .panic k s
      | .ok (newRels, changed, cm) s =>
        if changed = true then
          match getOrCreate (w.tbl t).arch newRels s with
          | .panic k s' => .panic k s'
          | .ok nt s' => .ok (some { oldT := t, newT := nt, len := n, changeMask := cm }) s'
        else .ok none s := by
  simp only [prepareRelationsMove, bind, M.bind, M.get]
  cases hx : getExchangeTargets (w.tbl t) rels w with
  | panic k s => rfl
  | ok r s =>
    obtain ⟨newRels, changed, cm⟩ := r
    cases changed with
    | false => rfl
    | true =>
      simp only [Bool.not_true, Bool.false_eq_true, if_false, if_true, getOrCreate, bind, M.bind]
      cases hg : getTable (w.tbl t).arch newRels s with
      | panic k s' => rfl
      | ok r s' =>
        cases r with
        | some nt => rfl
        | none =>
          simp only
          cases hc : createTable (w.tbl t).arch newRels s' with
          | panic k s2 => simp only [M.bind, hc]
          | ok nt s2 => simp only [M.bind, hc]; rfl

/-- `prepareRelationsMove` neither reads nor writes observers, log and lock -/
theorem frames_prepareRelationsMove (t n : Nat) (rels : List RelID) :
    Frames (prepareRelationsMove t n rels) := by
  intro w o lg lk
  rw [prepareRelationsMove_eq, prepareRelationsMove_eq]
  have h1 : (w.reframe o lg lk).tbl t = w.tbl t := rfl
  rw [h1, getExchangeTargets_any (w.tbl t) rels w (w.reframe o lg lk)]
  have hs := getExchangeTargets_state (w.tbl t) rels w
  cases hx : getExchangeTargets (w.tbl t) rels w with
  | panic k s => rw [hx] at hs; simp only [Res.state] at hs; subst hs; rfl
  | ok r s =>
    rw [hx] at hs; simp only [Res.state] at hs; subst hs
    obtain ⟨newRels, changed, cm⟩ := r
    simp only [Res.mapS_ok]
    cases changed with
    | false => rfl
    | true =>
      simp only [if_true]
      rw [frames_getOrCreate _ _ s o lg lk]
      cases getOrCreate (s.tbl t).arch newRels s <;> rfl

/-- the lookup loop of `setRelationsBatch` neither reads nor writes observers, log and lock -/
theorem frames_prepLoop (rels : List RelID) : ∀ (ts : List Nat) (s : List RelMove),
    Frames (prepLoop rels ts s)
  | [], s => Frames.pure s
  | t :: ts, s => by
    intro w o lg lk
    simp only [prepLoop]
    have h1 : (w.reframe o lg lk).tbl t = w.tbl t := rfl
    rw [h1]
    split
    · exact frames_prepLoop rels ts s w o lg lk
    · rw [frames_prepareRelationsMove t _ rels w o lg lk]
      cases prepareRelationsMove t (w.tbl t).len rels w with
      | panic k s' => rfl
      | ok x w' =>
        cases x with
        | none => exact frames_prepLoop rels ts _ w' o lg lk
        | some mv => exact frames_prepLoop rels ts _ w' o lg lk

/-- **`setRelationsBatch` in normal form**, in the order in which it runs since the repair of
    defect D27: without observers and callback it is the table selection, the lookup loop, `Lock`,
    the move loop, `registerTargets`, `Unlock` -/
theorem setRelationsBatch_eq_planFirst (run : ProbeRunner) (fo : FilterObj) (extra : List RelID)
    (rels : List RelID) (w : World) (hl : w.isLocked = false) (hne : rels.isEmpty = false)
    {ts : List Nat} (hts : getBatchTables fo extra w = .ok ts w)
    {moves : List RelMove} {w1 : World}
    (hprep : prepLoop rels ts [] w = .ok moves w1)
    {l' : Lock} {b : Nat} (hlk : w1.locks.lock = some (l', b))
    (hno : ∀ (evt : Nat), w1.obs.hasObservers evt = false) :
    setRelationsBatch run fo extra rels false w =
      unlock b (registerW (moves.foldl moveStepR { w1 with locks := l' }) rels) := by
  have hno1 : ∀ (evt : Nat), ({ w1 with locks := l' } : World).obs.hasObservers evt = false := hno
  have hno2 : ∀ (evt : Nat),
      (registerW (moves.foldl moveStepR { w1 with locks := l' }) rels).obs.hasObservers evt = false := by
    intro evt
    show (moves.foldl moveStepR { w1 with locks := l' }).obs.hasObservers evt = false
    rw [foldl_moveStepR_obs]; exact hno evt
  unfold setRelationsBatch
  simp only [M.bind_apply, checkLocked_unlocked w hl, M.assert_apply, hne, Bool.not_false, if_true,
    hts, M.get_apply]
  rw [forIn_prepLoop rels _ ?_, hprep]
  · simp only [lock_ok hlk, hno1, Bool.false_eq_true, if_false, M.bind_apply]
    rw [forIn_foldSt (fun _ => True) moveStepR
      (fun (s : List RelMove) W mv => s ++ [({ mv with start := (W.tbl mv.newT).len } : RelMove)])
      _ ?_ (fun _ _ _ => trivial) moves [] { w1 with locks := l' } trivial]
    · simp only [registerTargets_eq, M.get_apply, hno2, Bool.false_eq_true, if_false]
    · intro mv s W _
      simp only [M.bind_apply, M.get_apply, moveEntities_eq, M.pure_apply]
      rfl
  · intro t s W
    simp only [M.bind_apply, M.get_apply]
    cases h0 : ((W.tbl t).len == 0) with
    | true => rfl
    | false =>
      simp only [Bool.false_eq_true, if_false, M.bind_apply]
      cases hp : prepareRelationsMove t (W.tbl t).len rels W with
      | panic k w' => rfl
      | ok x w' =>
        cases x with
        | none => rfl
        | some mv => rfl

/-- when the lookup loop panics, `setRelationsBatch` panics with the same class and the same
    state: the lock has not been taken (the repair of defect D27) -/
theorem setRelationsBatch_prepLoop_panic (run : ProbeRunner) (fo : FilterObj) (extra : List RelID)
    (rels : List RelID) (withFn : Bool) (w : World) (hl : w.isLocked = false)
    (hne : rels.isEmpty = false)
    {ts : List Nat} (hts : getBatchTables fo extra w = .ok ts w) {k : PanicKind} {w1 : World}
    (hprep : prepLoop rels ts [] w = .panic k w1) :
    setRelationsBatch run fo extra rels withFn w = .panic k w1 := by
  unfold setRelationsBatch
  simp only [M.bind_apply, checkLocked_unlocked w hl, M.assert_apply, hne, Bool.not_false, if_true,
    hts, M.get_apply]
  rw [forIn_prepLoop rels _ ?_, hprep]
  intro t s W
  simp only [M.bind_apply, M.get_apply]
  cases h0 : ((W.tbl t).len == 0) with
  | true => rfl
  | false =>
    simp only [Bool.false_eq_true, if_false, M.bind_apply]
    cases hp : prepareRelationsMove t (W.tbl t).len rels W with
    | panic k w' => rfl
    | ok x w' =>
      cases x with
      | none => rfl
      | some mv => rfl

/-- **`setRelationsBatch` in normal form**: without observers and callback it is `Lock`, the
    table selection, the lookup loop, the move loop, `registerTargets`, `Unlock` — the order before
    the repair of defect D27; still an equation of the repaired operation, because the table
    selection and the lookup loop neither read nor write the lock
    (`setRelationsBatch_eq_planFirst` is the order in which the operation runs) -/
theorem setRelationsBatch_eq (run : ProbeRunner) (fo : FilterObj) (extra : List RelID)
    (rels : List RelID) (w : World) (hl : w.isLocked = false) (hne : rels.isEmpty = false)
    {l' : Lock} {b : Nat} (hlk : w.locks.lock = some (l', b)) {ts : List Nat}
    (hts : getBatchTables fo extra { w with locks := l' } = .ok ts { w with locks := l' })
    {moves : List RelMove} {w1 : World}
    (hprep : prepLoop rels ts [] { w with locks := l' } = .ok moves w1)
    (hno : ∀ (evt : Nat), w1.obs.hasObservers evt = false) :
    setRelationsBatch run fo extra rels false w =
      unlock b (registerW (moves.foldl moveStepR w1) rels) := by
  have hts' : getBatchTables fo extra w = .ok ts w :=
    ((frames_getBatchTables fo extra).of_reframe_ok (w := w) (o := w.obs) (lg := w.log) (lk := l')
      hts).1
  obtain ⟨hprep', hw1⟩ := (frames_prepLoop rels ts []).of_reframe_ok
    (w := w) (o := w.obs) (lg := w.log) (lk := l') hprep
  have hlocks : (w1.reframe w.obs w.log w.locks).locks.lock = some (l', b) := hlk
  have hobs : w1.obs = w.obs := congrArg (·.obs) hw1
  have hno' : ∀ evt : Nat, (w1.reframe w.obs w.log w.locks).obs.hasObservers evt = false :=
    fun evt => by rw [← hobs]; exact hno evt
  have := setRelationsBatch_eq_planFirst run fo extra rels w hl hne hts' hprep' hlocks hno'
  rw [this]
  have e : ({ w1.reframe w.obs w.log w.locks with locks := l' } : World) = w1 := hw1.symm
  rw [e]

end World

/-! ## 2. the lookup loop -/

/-- every relation of `rels` names a relation column of table `T` -/
def RelCols (T : Table) (rels : List RelID) : Prop :=
  ∀ (r : RelID), r ∈ rels → ∃ (i : Nat), T.colIdx r.comp = some i ∧ T.isRel.getD i false = true

/-- the targets of table `T` after the assignment `rels` -/
def editT (T : Table) (rels : List RelID) : List Ent := setTargets T.colIdx rels T.targets

/-- the assignment changes a target of table `T` -/
def Changes (T : Table) (rels : List RelID) : Prop :=
  ∃ (r : RelID), r ∈ rels ∧ ∃ (i : Nat), T.colIdx r.comp = some i ∧ r.target ≠ T.targets.getD i Ent.zero

/-- the edited targets: a named column holds the target named, every other column is kept -/
theorem editT_named {T : Table} {rels : List RelID} (htl : T.targets.length = T.ids.length)
    (hnd : (rels.map (·.comp)).Nodup) {r : RelID} (hr : r ∈ rels) {i : Nat}
    (hi : T.colIdx r.comp = some i) : (editT T rels).getD i Ent.zero = r.target := by
  apply setTargets_getD_eq
  · rw [htl]; exact Table.colIdx_lt hi
  · intro r' hr' hc'
    have : r'.comp = r.comp := colIdx_inj hc' hi
    rw [eq_of_nodup_map (·.comp) rels hnd r' r hr' hr this]
  · exact Or.inl ⟨r, hr, hi⟩

theorem editT_kept {T : Table} {rels : List RelID} {c : Comp}
    (hc : ∀ (r : RelID), r ∈ rels → r.comp ≠ c) {i : Nat} (hi : T.colIdx c = some i) :
    (editT T rels).getD i Ent.zero = T.targets.getD i Ent.zero := by
  apply setTargets_getD_keep
  intro r hr hri
  exact hc r hr (colIdx_inj hri hi)

/-- a collected move: from a non-empty table of the start world `w0` whose targets change to
    another non-free table with the same layout holding the edited targets -/
structure MoveOK (rels : List RelID) (w0 w1 : World) (mv : RelMove) : Prop where
  srcLt : mv.oldT < w0.tables.length
  srcRows : (w0.tbl mv.oldT).len ≠ 0
  len : mv.len = (w0.tbl mv.oldT).len
  cols : RelCols (w0.tbl mv.oldT) rels
  changed : Changes (w0.tbl mv.oldT) rels
  dstLt : mv.newT < w1.tables.length
  dstFree : (w1.tbl mv.newT).isFree = false
  dstIds : (w1.tbl mv.newT).ids = (w0.tbl mv.oldT).ids
  dstIsRel : (w1.tbl mv.newT).isRel = (w0.tbl mv.oldT).isRel
  dstZst : (w1.tbl mv.newT).zst = (w0.tbl mv.oldT).zst
  dstTgt : ∀ (i : Nat), (w0.tbl mv.oldT).isRel.getD i false = true →
    (w1.tbl mv.newT).targets.getD i Ent.zero = (editT (w0.tbl mv.oldT) rels).getD i Ent.zero

theorem MoveOK.mono {rels : List RelID} {w0 w1 w2 : World} {mv : RelMove} (h : MoveOK rels w0 w1 mv)
    (hk : ∀ (t : Nat), t < w1.tables.length → (w1.tbl t).isFree = false →
      w2.tables[t]? = w1.tables[t]?) (hle : w1.tables.length ≤ w2.tables.length) :
    MoveOK rels w0 w2 mv := by
  have : w2.tbl mv.newT = w1.tbl mv.newT := tbl_eq_of_get (hk _ h.dstLt h.dstFree)
  exact
    { srcLt := h.srcLt, srcRows := h.srcRows, len := h.len, cols := h.cols, changed := h.changed
      dstLt := Nat.lt_of_lt_of_le h.dstLt hle
      dstFree := by rw [this]; exact h.dstFree
      dstIds := by rw [this]; exact h.dstIds
      dstIsRel := by rw [this]; exact h.dstIsRel
      dstZst := by rw [this]; exact h.dstZst
      dstTgt := by rw [this]; exact h.dstTgt }

/-- the invariant of the lookup loop: `w0` = the (locked) world the loop started in, `doneTs` =
    the selected tables processed so far, `s` = the moves collected, `w1` = the current world -/
structure PrepInv (rels : List RelID) (w0 : World) (doneTs : List Nat) (s : List RelMove)
    (w1 : World) : Prop where
  rel : RelInv w1
  idx : IdxInv w1
  flags : FlagsOKUpTo w1 rels
  freeEmpty : FreeEmpty w1
  qk : QKeep w0 w1
  entities : w1.entities = w0.entities
  pool : w1.pool = w0.pool
  isTarget : w1.isTarget = w0.isTarget
  kinds : w1.kinds = w0.kinds
  obs : w1.obs = w0.obs
  locks : w1.locks = w0.locks
  maxComps : w1.maxComps = w0.maxComps
  /-- the non-free tables of the start world are untouched -/
  keepT : ∀ (t : Nat), t < w0.tables.length → (w0.tbl t).isFree = false →
    w1.tables[t]? = w0.tables[t]?
  tablesLe : w0.tables.length ≤ w1.tables.length
  lenB : w1.tables.length ≤ w0.tables.length + s.length
  frame : ∀ (j : Nat), SameEnt w0 w1 j ∧ ∀ (c : Comp), targetOf w1 j c = targetOf w0 j c
  moves : ∀ (mv : RelMove), mv ∈ s → MoveOK rels w0 w1 mv
  srcNodup : (s.map (·.oldT)).Nodup
  srcDone : ∀ (mv : RelMove), mv ∈ s → mv.oldT ∈ doneTs
  /-- a processed non-empty table is the source of a move, or the assignment does not change it -/
  covered : ∀ (t : Nat), t ∈ doneTs → (w0.tbl t).len ≠ 0 →
    (∃ (mv : RelMove), mv ∈ s ∧ mv.oldT = t) ∨ editT (w0.tbl t) rels = (w0.tbl t).targets

/-- **one iteration of the lookup loop** for a non-empty table whose relation columns are named:
    `prepareRelationsMove` never fails when the targets named are zero or alive -/
theorem prepStep {rels : List RelID} {w0 : World} {doneTs : List Nat} {s : List RelMove}
    {w1 : World} (hI : PrepInv rels w0 doneTs s w1) (hE0 : FreeEmpty w0)
    (hnd : (rels.map (·.comp)).Nodup)
    (hval : ∀ (r : RelID), r ∈ rels → r.target.isZero = true ∨ w0.alive r.target = true)
    {t : Nat} (hlt : t < w0.tables.length) (hnew : t ∉ doneTs) (hrows : (w0.tbl t).len ≠ 0)
    (hcols : RelCols (w0.tbl t) rels) :
    ∃ (o : Option RelMove) (w2 : World),
      prepareRelationsMove t (w1.tbl t).len rels w1 = .ok o w2 ∧
      PrepInv rels w0 (doneTs ++ [t]) (match o with | some mv => s ++ [mv] | none => s) w2 := by
  have hS := hI.rel.sinv.toSInvMid
  have hTf0 : (w0.tbl t).isFree = false := by
    cases hf : (w0.tbl t).isFree with
    | false => rfl
    | true => exact absurd (hE0 t _ (get_of_lt hlt) hf) hrows
  have htab : w1.tables[t]? = w0.tables[t]? := hI.keepT t hlt hTf0
  have htb : w1.tbl t = w0.tbl t := tbl_eq_of_get htab
  have hlt1 : t < w1.tables.length := Nat.lt_of_lt_of_le hlt hI.tablesLe
  have hT1 := get_of_lt hlt1
  have hTf1 : (w1.tbl t).isFree = false := by rw [htb]; exact hTf0
  have hTex := hI.rel.aux.rels t _ hT1 hTf1
  have hcols1 : RelCols (w1.tbl t) rels := by rw [htb]; exact hcols
  have hal : ∀ (x : Ent), w1.alive x = w0.alive x := fun x => by simp only [World.alive, hI.pool]
  have hdone : ∀ (mv : RelMove), mv ∈ s → mv.oldT ≠ t := fun mv hm he => hnew (he ▸ hI.srcDone mv hm)
  rw [prepareRelationsMove_eq]
  obtain ⟨ch, cm, hx, hfalse, htrue⟩ := getExchangeTargets_spec (w1.tbl t) rels w1 hcols1 hnd
  rw [hx]
  cases ch with
  | false =>
    -- the targets do not change: the table is skipped
    refine ⟨none, w1, by simp, ?_⟩
    exact
      { hI with
        srcDone := fun mv hm => List.mem_append_left _ (hI.srcDone mv hm)
        covered := by
          intro t0 ht0 hr0
          rcases List.mem_append.1 ht0 with h1 | h1
          · exact hI.covered t0 h1 hr0
          · rw [List.mem_singleton.1 h1]
            right
            have := hfalse rfl
            rw [htb] at this
            exact this }
  | true =>
    simp only [if_true]
    obtain ⟨r1, hr1, i1, hi1, hne1⟩ := htrue rfl
    have hi1r : (w1.tbl t).isRel.getD i1 false = true := by
      obtain ⟨i, hi, hir⟩ := hcols1 r1 hr1
      rw [hi1] at hi
      obtain rfl := Option.some.inj hi
      exact hir
    have hrelA : (w1.arch (w1.tbl t).arch).hasRelations = true := by
      obtain ⟨A, hA, _, e2, _⟩ := hS.tblArch t _ hT1
      rw [arch_of_get hA]
      exact (hS.astruct _ A hA).hasRelations_of_rel (by rw [← e2]; exact hi1r)
    have hlen' : (setTargets (w1.tbl t).colIdx rels (w1.tbl t).targets).length =
        (w1.tbl t).ids.length := by rw [setTargets_length, hTex.tlen]
    have hts1 : ∀ (r : RelID), r ∈ rels → ∀ (i : Nat), (w1.tbl t).colIdx r.comp = some i →
        (setTargets (w1.tbl t).colIdx rels (w1.tbl t).targets).getD i Ent.zero = r.target :=
      fun r hr i hi => editT_named hTex.tlen hnd hr hi
    obtain ⟨nt, w2, hgo⟩ := relGet_total
      (ts' := setTargets (w1.tbl t).colIdx rels (w1.tbl t).targets) hI.rel hlt1 rfl hrelA hlen' (by
        intro i hi
        rcases setTargets_getD_cases (w1.tbl t).colIdx i Ent.zero rels (w1.tbl t).targets with k | ⟨r, hr, k⟩
        · rw [k]; exact hI.rel.aux.targets t _ hT1 hTf1 i hi
        · rw [k, hal]; exact hval r hr)
    obtain ⟨rel2, hI2, hF2, hE2, cg, _⟩ := relGet_of_ok (rels0 := rels) hI.rel hI.idx hI.flags
      hI.freeEmpty hlt1 rfl hTf1 hrelA hlen'
      ⟨i1, hi1r, by rw [hts1 r1 hr1 i1 hi1]; exact hne1⟩
      (by
        intro i hi hz
        rcases setTargets_getD_cases (w1.tbl t).colIdx i Ent.zero rels (w1.tbl t).targets with k | ⟨r, hr, k⟩
        · rw [k] at hz ⊢
          rcases hI.flags t _ hT1 hTf1 i hi hz with h1 | h1
          · exact Or.inl h1
          · exact Or.inr h1
        · exact Or.inr ⟨r, hr, k.symm⟩) hgo
    rw [hgo]
    refine ⟨some ⟨t, nt, (w1.tbl t).len, 0, cm⟩, w2, rfl, ?_⟩
    have hkeep12 : ∀ (t0 : Nat), t0 < w1.tables.length → (w1.tbl t0).isFree = false →
        w2.tables[t0]? = w1.tables[t0]? := by
      intro t0 h1 h2
      by_cases e : t0 = nt
      · subst e
        rcases cg.ntKeep h1 with k | k
        · exact k
        · rw [h2] at k; cases k
      · exact cg.others t0 e
    have hf1 : ∀ (j : Nat), SameEnt w1 w2 j ∧ ∀ (c : Comp), targetOf w2 j c = targetOf w1 j c := by
      apply frame_of_rows hI.idx cg.entities
      intro t0 Tt hTt hpos
      by_cases e0 : t0 = nt
      · subst e0
        rcases cg.ntKeep (lt_of_get hTt) with k | k
        · exact ⟨Tt, by rw [k]; exact hTt, rfl, rfl, rfl, rfl⟩
        · have := hI.freeEmpty t0 Tt hTt (by rw [← tbl_of_get hTt]; exact k)
          omega
      · exact ⟨Tt, by rw [cg.others t0 e0]; exact hTt, rfl, rfl, rfl, rfl⟩
    exact
      { rel := rel2, idx := hI2, flags := hF2, freeEmpty := hE2
        qk := hI.qk.trans (getOrCreate_qkeep hgo)
        entities := cg.entities.trans hI.entities
        pool := cg.pool.trans hI.pool
        isTarget := cg.isTarget.trans hI.isTarget
        kinds := cg.kinds.trans hI.kinds
        obs := cg.obs.trans hI.obs
        locks := cg.locks.trans hI.locks
        maxComps := cg.maxComps.trans hI.maxComps
        keepT := by
          intro t0 h1 h2
          have k1 := hI.keepT t0 h1 h2
          rw [← k1]
          exact hkeep12 t0 (Nat.lt_of_lt_of_le h1 hI.tablesLe) (by rw [tbl_eq_of_get k1]; exact h2)
        tablesLe := Nat.le_trans hI.tablesLe cg.tablesLe
        lenB := by
          have := cg.lenB; have := hI.lenB
          simp only [List.length_append, List.length_singleton]; omega
        frame := fun j => ⟨(hI.frame j).1.trans (hf1 j).1, fun c => by
          rw [(hf1 j).2 c, (hI.frame j).2 c]⟩
        moves := by
          intro mv hm
          rcases List.mem_append.1 hm with h1 | h1
          · exact (hI.moves mv h1).mono hkeep12 cg.tablesLe
          · rw [List.mem_singleton.1 h1]
            exact
              { srcLt := hlt, srcRows := hrows, len := by rw [htb]
                cols := hcols
                changed := ⟨r1, hr1, i1, by rw [← htb]; exact hi1, by rw [← htb]; exact hne1⟩
                dstLt := cg.ntLt, dstFree := cg.ntFree
                dstIds := by rw [cg.ntIds, htb]
                dstIsRel := by rw [cg.ntIsRel, htb]
                dstZst := by rw [cg.ntZst, htb]
                dstTgt := by
                  intro i hi
                  rw [cg.ntTgt i (by rw [htb]; exact hi), editT, htb] }
        srcNodup := by
          rw [List.map_append, List.nodup_append]
          refine ⟨hI.srcNodup, by simp, ?_⟩
          intro a ha b hb
          simp only [List.map_cons, List.map_nil, List.mem_singleton] at hb
          obtain ⟨mv, hm, rfl⟩ := List.mem_map.1 ha
          rw [hb]; exact hdone mv hm
        srcDone := by
          intro mv hm
          rcases List.mem_append.1 hm with h1 | h1
          · exact List.mem_append_left _ (hI.srcDone mv h1)
          · rw [List.mem_singleton.1 h1]; exact List.mem_append_right _ (List.mem_singleton.2 rfl)
        covered := by
          intro t0 ht0 hr0
          rcases List.mem_append.1 ht0 with h1 | h1
          · rcases hI.covered t0 h1 hr0 with ⟨mv, hm, he⟩ | h2
            · exact Or.inl ⟨mv, List.mem_append_left _ hm, he⟩
            · exact Or.inr h2
          · rw [List.mem_singleton.1 h1]
            exact Or.inl ⟨_, List.mem_append_right _ (List.mem_singleton.2 rfl), rfl⟩ }

/-- **a table whose targets the assignment does not change is skipped**:
    `prepareRelationsMove` returns `none` and leaves the world untouched -/
theorem prepareRelationsMove_skipped {w : World} {t n : Nat} {rels : List RelID}
    (hcols : RelCols (w.tbl t) rels) (hnd : (rels.map (·.comp)).Nodup)
    (hun : ¬ Changes (w.tbl t) rels) : prepareRelationsMove t n rels w = .ok none w := by
  rw [prepareRelationsMove_eq]
  obtain ⟨ch, cm, hx, _, htrue⟩ := getExchangeTargets_spec (w.tbl t) rels w hcols hnd
  rw [hx]
  cases ch with
  | false => simp
  | true => exact absurd (htrue rfl) hun

/-- … and only such a table: when the assignment changes a target, a move is returned -/
theorem prepareRelationsMove_moves {w : World} {t n : Nat} {rels : List RelID}
    (hcols : RelCols (w.tbl t) rels) (hnd : (rels.map (·.comp)).Nodup)
    (htl : (w.tbl t).targets.length = (w.tbl t).ids.length) (hch : Changes (w.tbl t) rels)
    {o : Option RelMove} {w' : World} (hok : prepareRelationsMove t n rels w = .ok o w') :
    ∃ (mv : RelMove), o = some mv ∧ mv.oldT = t ∧ mv.len = n := by
  rw [prepareRelationsMove_eq] at hok
  obtain ⟨ch, cm, hx, hfalse, _⟩ := getExchangeTargets_spec (w.tbl t) rels w hcols hnd
  rw [hx] at hok
  cases ch with
  | false =>
    obtain ⟨r, hr, i, hi, hne⟩ := hch
    have h1 := editT_named htl hnd hr hi
    rw [editT, hfalse rfl] at h1
    exact absurd h1.symm hne
  | true =>
    simp only [if_true] at hok
    split at hok
    · cases hok
    · injection hok with e1 _
      exact ⟨_, e1.symm, rfl, rfl⟩

/-- **the lookup loop** over selected tables (non-free; the relations name relation columns of
    the non-empty ones): never fails, keeps the invariant -/
theorem prepLoop_spec {rels : List RelID} {w0 : World} (hE0 : FreeEmpty w0)
    (hnd : (rels.map (·.comp)).Nodup)
    (hval : ∀ (r : RelID), r ∈ rels → r.target.isZero = true ∨ w0.alive r.target = true) :
    ∀ (rest doneTs : List Nat) (s : List RelMove) (w1 : World), PrepInv rels w0 doneTs s w1 →
      rest.Nodup → (∀ (t : Nat), t ∈ rest → t ∉ doneTs) →
      (∀ (t : Nat), t ∈ rest → t < w0.tables.length ∧ (w0.tbl t).isFree = false ∧
        ((w0.tbl t).len ≠ 0 → RelCols (w0.tbl t) rels)) →
      ∃ (s' : List RelMove) (w2 : World), prepLoop rels rest s w1 = .ok s' w2 ∧
        PrepInv rels w0 (doneTs ++ rest) s' w2
  | [], doneTs, s, w1, hI, _, _, _ => ⟨s, w1, rfl, by rw [List.append_nil]; exact hI⟩
  | t :: rest, doneTs, s, w1, hI, hnd', hnew, hsel => by
    obtain ⟨hlt, hTf0, hc⟩ := hsel t List.mem_cons_self
    have hnd2 := List.nodup_cons.1 hnd'
    have htb : w1.tbl t = w0.tbl t := tbl_eq_of_get (hI.keepT t hlt hTf0)
    have hnew' : ∀ (t' : Nat), t' ∈ rest → t' ∉ doneTs ++ [t] := by
      intro t' ht' hm
      rcases List.mem_append.1 hm with h1 | h1
      · exact hnew t' (List.mem_cons_of_mem _ ht') h1
      · exact hnd2.1 (List.mem_singleton.1 h1 ▸ ht')
    have hsel' : ∀ (t' : Nat), t' ∈ rest → t' < w0.tables.length ∧ (w0.tbl t').isFree = false ∧
        ((w0.tbl t').len ≠ 0 → RelCols (w0.tbl t') rels) :=
      fun t' ht' => hsel t' (List.mem_cons_of_mem _ ht')
    have happ : doneTs ++ t :: rest = doneTs ++ [t] ++ rest := by simp
    simp only [prepLoop]
    by_cases h0 : (w0.tbl t).len = 0
    · -- an empty table is skipped
      rw [htb, h0]
      simp only [beq_self_eq_true, if_true]
      have hI' : PrepInv rels w0 (doneTs ++ [t]) s w1 :=
        { hI with
          srcDone := fun mv hm => List.mem_append_left _ (hI.srcDone mv hm)
          covered := by
            intro t0 ht0 hr0
            rcases List.mem_append.1 ht0 with h1 | h1
            · exact hI.covered t0 h1 hr0
            · rw [List.mem_singleton.1 h1] at hr0; exact absurd h0 hr0 }
      rw [happ]
      exact prepLoop_spec hE0 hnd hval rest _ s w1 hI' hnd2.2 hnew' hsel'
    · have hb : ((w1.tbl t).len == 0) = false := by rw [htb]; simpa using h0
      rw [hb]
      simp only [Bool.false_eq_true, if_false]
      obtain ⟨o, w2, hp, hI'⟩ := prepStep hI hE0 hnd hval hlt (hnew t List.mem_cons_self) h0 (hc h0)
      rw [hp, happ]
      cases o with
      | none => exact prepLoop_spec hE0 hnd hval rest _ s w2 hI' hnd2.2 hnew' hsel'
      | some mv => exact prepLoop_spec hE0 hnd hval rest _ (s ++ [mv]) w2 hI' hnd2.2 hnew' hsel'

/-! ## 3. the move loop -/

/-- `moveEntities src dst (len src)`: an entity outside `src` keeps its index entry -/
theorem moved_entry_out {w : World} (h : IdxInv w) {src dst : Nat} (hne : src ≠ dst)
    (hs : src < w.tables.length) (hd : dst < w.tables.length)
    (hb : (w.tbl dst).len + (w.tbl src).len < 2 ^ 32) {j : Nat}
    (hj : ∀ (r : Nat), w.entities[j]? ≠ some (src, r)) :
    (moveEntitiesW w src dst (w.tbl src).len).entities[j]? = w.entities[j]? := by
  obtain ⟨_, hE⟩ := moveEntitiesW_spec w src dst (w.tbl src).len hne hd
  have hS := get_of_lt hs
  have hSs := h.shape src _ hS
  have hDs := h.shape dst _ (get_of_lt hd)
  rw [hE]
  apply foldl_set_miss
  intro k hk heq
  rw [Table.addAll_getEntity hDs hSs _ (Nat.le_refl _) hb _ (by omega), if_neg (by omega)] at heq
  have hk' : (w.tbl dst).len + k - (w.tbl dst).len = k := by omega
  rw [hk'] at heq
  exact hj k (heq ▸ h.rowIdx src _ k hS hk)

/-- the invariant of the move loop: `w1` = the world after the lookup loop, `done` / `rest` = the
    moves performed / still to perform, `w2` = the current world -/
structure MvInv (w1 : World) (done rest : List RelMove) (w2 : World) : Prop where
  idx : IdxInv w2
  ms : MetaStep w1 w2
  qk : QKeep w1 w2
  freeEmpty : FreeEmpty w2
  pool : w2.pool = w1.pool
  isTarget : w2.isTarget = w1.isTarget
  obs : w2.obs = w1.obs
  locks : w2.locks = w1.locks
  maxComps : w2.maxComps = w1.maxComps
  idxSame : IdxSame w1 w2
  same : ∀ (j : Nat), SameEnt w1 w2 j
  /-- the sources still to be moved are untouched -/
  srcKeep : ∀ (mv : RelMove), mv ∈ rest → w2.tables[mv.oldT]? = w1.tables[mv.oldT]?
  /-- an entity outside the moved sources keeps its index entry and its targets -/
  entKeep : ∀ (j t r : Nat), w1.entities[j]? = some (t, r) →
    (∀ (mv : RelMove), mv ∈ done → mv.oldT ≠ t) → w2.entities[j]? = some (t, r)
  tgtKeep : ∀ (j : Nat), (∀ (t r : Nat), w1.entities[j]? = some (t, r) →
    ∀ (mv : RelMove), mv ∈ done → mv.oldT ≠ t) → ∀ (c : Comp), targetOf w2 j c = targetOf w1 j c
  /-- an entity of a moved source reads the targets of its destination -/
  tgtMoved : ∀ (j t r : Nat), w1.entities[j]? = some (t, r) → ∀ (mv : RelMove), mv ∈ done →
    mv.oldT = t → ∀ (c : Comp), targetOf w2 j c = (w1.tbl mv.newT).targetAt c

/-- a destination is never a source: the destination holds the edited targets, the assignment
    changes the targets of a source -/
theorem MoveOK.dst_ne_src {rels : List RelID} {w0 w1 : World} {mv mv' : RelMove}
    (h : MoveOK rels w0 w1 mv) (h' : MoveOK rels w0 w1 mv') (hnd : (rels.map (·.comp)).Nodup)
    (htl : (w0.tbl mv.oldT).targets.length = (w0.tbl mv.oldT).ids.length)
    (hk : w1.tables[mv'.oldT]? = w0.tables[mv'.oldT]?) : mv.newT ≠ mv'.oldT := by
  intro he
  obtain ⟨r, hr, i, hi, hne⟩ := h'.changed
  have hids : (w0.tbl mv'.oldT).ids = (w0.tbl mv.oldT).ids := by
    rw [← tbl_eq_of_get hk, ← he]; exact h.dstIds
  have hi' : (w0.tbl mv.oldT).colIdx r.comp = some i := by
    simpa only [Table.colIdx, hids] using hi
  obtain ⟨i2, hc2, hr2⟩ := h.cols r hr
  rw [hi'] at hc2
  obtain rfl := Option.some.inj hc2
  have h1 := h.dstTgt i hr2
  rw [he, tbl_eq_of_get hk, editT_named htl hnd hr hi'] at h1
  exact hne h1.symm

/-- **the move loop**: `moveEntities` for every collected move, in order -/
theorem moveLoop_spec {rels : List RelID} {w0 w1 : World} (hnd : (rels.map (·.comp)).Nodup)
    (hR0 : RelListsOK w0) (hE0 : FreeEmpty w0)
    (hkeep01 : ∀ (t : Nat), t < w0.tables.length → (w0.tbl t).isFree = false →
      w1.tables[t]? = w0.tables[t]?)
    (hI1 : IdxInv w1) (hfew : w1.tables.length ≤ maxU32)
    (hrows : 2 * w1.entities.length < 2 ^ 32) (all : List RelMove)
    (hall : ∀ (mv : RelMove), mv ∈ all → MoveOK rels w0 w1 mv)
    (hsrc : (all.map (·.oldT)).Nodup) :
    ∀ (rest done : List RelMove) (w2 : World), all = done ++ rest → MvInv w1 done rest w2 →
      MvInv w1 all [] (rest.foldl moveStepR w2)
  | [], done, w2, hsplit, hI => by
    rw [List.append_nil] at hsplit
    rw [hsplit]; exact hI
  | mv :: rest, done, w2, hsplit, hI => by
    have hmem : ∀ (m : RelMove), m ∈ done ∨ m = mv ∨ m ∈ rest → m ∈ all := by
      intro m hm
      rw [hsplit]
      rcases hm with h1 | h1 | h1
      · exact List.mem_append_left _ h1
      · exact List.mem_append_right _ (h1 ▸ List.mem_cons_self)
      · exact List.mem_append_right _ (List.mem_cons_of_mem _ h1)
    have hok := hall mv (hmem mv (Or.inr (Or.inl rfl)))
    -- sources are pairwise distinct
    have hsrcne : ∀ (m : RelMove), m ∈ done ∨ m ∈ rest → m.oldT ≠ mv.oldT := by
      intro m hm heq
      rw [hsplit, List.map_append, List.map_cons] at hsrc
      have hnd' := List.nodup_append.1 hsrc
      rcases hm with h1 | h1
      · exact hnd'.2.2 _ (List.mem_map_of_mem h1) _ List.mem_cons_self heq
      · exact (List.nodup_cons.1 hnd'.2.1).1 (heq ▸ List.mem_map_of_mem h1)
    have hTf0 : ∀ (m : RelMove), m ∈ all → (w0.tbl m.oldT).isFree = false := by
      intro m hm
      cases hf : (w0.tbl m.oldT).isFree with
      | false => rfl
      | true => exact absurd (hE0 _ _ (get_of_lt (hall m hm).srcLt) hf) (hall m hm).srcRows
    have hk01 : ∀ (m : RelMove), m ∈ all → w1.tables[m.oldT]? = w0.tables[m.oldT]? :=
      fun m hm => hkeep01 _ (hall m hm).srcLt (hTf0 m hm)
    have hsrc2 : w2.tbl mv.oldT = w0.tbl mv.oldT := by
      rw [tbl_eq_of_get (hI.srcKeep mv List.mem_cons_self), tbl_eq_of_get (hk01 mv (hmem mv (Or.inr (Or.inl rfl))))]
    have hslt1 : mv.oldT < w1.tables.length := by
      have := lt_of_get (show w1.tables[mv.oldT]? = some (w0.tbl mv.oldT) by
        rw [hk01 mv (hmem mv (Or.inr (Or.inl rfl)))]; exact get_of_lt hok.srcLt)
      exact this
    have hslt : mv.oldT < w2.tables.length := by rw [hI.ms.len]; exact hslt1
    have hdlt : mv.newT < w2.tables.length := by rw [hI.ms.len]; exact hok.dstLt
    have htl : (w0.tbl mv.oldT).targets.length = (w0.tbl mv.oldT).ids.length :=
      (hR0 _ _ (get_of_lt hok.srcLt) (hTf0 mv (hmem mv (Or.inr (Or.inl rfl))))).tlen
    have hne : mv.oldT ≠ mv.newT :=
      fun e => hok.dst_ne_src hok hnd htl (hk01 mv (hmem mv (Or.inr (Or.inl rfl)))) e.symm
    have hdmeta := hI.ms.tmeta mv.newT hok.dstLt
    have hlen : mv.len = (w2.tbl mv.oldT).len := by rw [hsrc2]; exact hok.len
    have hb : (w2.tbl mv.newT).len + (w2.tbl mv.oldT).len < 2 ^ 32 := by
      have h1 := hI.idx.rows_le mv.newT
      have h2 := hI.idx.rows_le mv.oldT
      rw [hI.idxSame.len] at h1 h2
      omega
    have mvd := hI.idx.moved (src := mv.oldT) (dst := mv.newT) hne hslt hdlt
      (by have := hI.ms.len; omega) (by have := hI.ms.len; omega)
      (by rw [hsrc2, hdmeta.ids, hok.dstIds]) (by rw [hsrc2, hdmeta.zst, hok.dstZst]) hb
    have hstep : moveStepR w2 mv = moveEntitiesW w2 mv.oldT mv.newT (w2.tbl mv.oldT).len := by
      rw [moveStepR, hlen]
    have hq := moved_qkeep hI.idx (src := mv.oldT) (dst := mv.newT) hne hslt hdlt hb
    -- an entity whose original table is not `mv.oldT` does not sit in it now
    have hnotin : ∀ (j t r : Nat), w1.entities[j]? = some (t, r) → t ≠ mv.oldT →
        ∀ (r' : Nat), w2.entities[j]? ≠ some (mv.oldT, r') := by
      intro j t r hj hne' r' hh
      have hsm : mv.oldT ≠ maxU32 := by omega
      obtain ⟨T, hT, hr', hid⟩ := hI.idx.idxRow j mv.oldT r' hh hsm
      have hT1 : w1.tables[mv.oldT]? = some T := by
        rw [← hI.srcKeep mv List.mem_cons_self]; exact hT
      have := hI1.rowIdx mv.oldT T r' hT1 hr'
      rw [hid, hj] at this
      exact hne' (Prod.mk.inj (Option.some.inj this)).1
    have hnone : ∀ (j : Nat), w1.entities[j]? = none → ∀ (r' : Nat), w2.entities[j]? ≠ some (mv.oldT, r') := by
      intro j hj r' hh
      have hsm : mv.oldT ≠ maxU32 := by omega
      obtain ⟨T, hT, hr', hid⟩ := hI.idx.idxRow j mv.oldT r' hh hsm
      have hT1 : w1.tables[mv.oldT]? = some T := by
        rw [← hI.srcKeep mv List.mem_cons_self]; exact hT
      have := hI1.rowIdx mv.oldT T r' hT1 hr'
      rw [hid, hj] at this
      cases this
    have hsplit' : all = (done ++ [mv]) ++ rest := by rw [hsplit]; simp
    rw [List.foldl_cons, hstep]
    apply moveLoop_spec hnd hR0 hE0 hkeep01 hI1 hfew hrows all hall hsrc rest (done ++ [mv]) _ hsplit'
    refine
      { idx := mvd.idx
        ms := hI.ms.trans mvd.ms
        qk := hI.qk.trans hq
        freeEmpty := ?_
        pool := mvd.pool.trans hI.pool
        isTarget := mvd.isTarget.trans hI.isTarget
        obs := mvd.obs.trans hI.obs
        locks := mvd.locks.trans hI.locks
        maxComps := mvd.maxComps.trans hI.maxComps
        idxSame := hI.idxSame.trans mvd.idxSame
        same := fun j => (hI.same j).trans (mvd.same j)
        srcKeep := ?_
        entKeep := ?_
        tgtKeep := ?_
        tgtMoved := ?_ }
    · intro t0 T0 hT0 hf
      by_cases e1 : t0 = mv.oldT
      · subst e1; rw [← tbl_of_get hT0]; exact mvd.srcLen
      · by_cases e2 : t0 = mv.newT
        · subst e2
          have hlt0 : mv.newT < w2.tables.length := hdlt
          have := (mvd.ms.tmeta mv.newT hlt0).isFree
          rw [tbl_of_get hT0, hdmeta.isFree, hok.dstFree] at this
          rw [this] at hf; cases hf
        · rw [mvd.lenOther t0 e1 e2] at hT0
          exact hI.freeEmpty t0 T0 hT0 hf
    · intro m hm
      have hm' := hmem m (Or.inr (Or.inr hm))
      have h1 : m.oldT ≠ mv.oldT := hsrcne m (Or.inr hm)
      have h2 : m.oldT ≠ mv.newT := fun e =>
        hok.dst_ne_src (hall m hm') hnd htl (hk01 m hm') e.symm
      rw [mvd.lenOther m.oldT h1 h2]
      exact hI.srcKeep m (List.mem_cons_of_mem _ hm)
    · intro j t r hj hd
      have hd1 : ∀ (m : RelMove), m ∈ done → m.oldT ≠ t :=
        fun m hm => hd m (List.mem_append_left _ hm)
      have hne' : t ≠ mv.oldT := fun e =>
        hd mv (List.mem_append_right _ (List.mem_singleton.2 rfl)) e.symm
      rw [moved_entry_out hI.idx hne hslt hdlt hb (hnotin j t r hj hne')]
      exact hI.entKeep j t r hj hd1
    · intro j hd c
      have hd1 : ∀ (t r : Nat), w1.entities[j]? = some (t, r) → ∀ (m : RelMove), m ∈ done → m.oldT ≠ t :=
        fun t r hj m hm => hd t r hj m (List.mem_append_left _ hm)
      rw [← hI.tgtKeep j hd1 c]
      apply mvd.tgtOut
      cases hx : w1.entities[j]? with
      | none => exact hnone j hx
      | some p =>
        obtain ⟨t, r⟩ := p
        exact hnotin j t r hx (fun e =>
          hd t r hx mv (List.mem_append_right _ (List.mem_singleton.2 rfl)) e.symm)
    · intro j t r hj m hm he c
      rcases List.mem_append.1 hm with h1 | h1
      · rw [← hI.tgtMoved j t r hj m h1 he c]
        apply mvd.tgtOut
        exact hnotin j t r hj (fun e => hsrcne m (Or.inl h1) (he.trans e))
      · have hmm : m = mv := List.mem_singleton.1 h1
        subst hmm
        have hj2 : w2.entities[j]? = some (m.oldT, r) := by
          rw [← he] at hj
          exact hI.entKeep j m.oldT r hj (fun m' hm' => hsrcne m' (Or.inl hm'))
        rw [mvd.tgtIn j r hj2 c]
        exact Table.targetAt_sameMeta hdmeta c

end Ark
