/-
  Ark.Proofs.CallbacksCbs — C08 at world level, part 5: the callback records of every
  single-entity operation, as corollaries of Ark/Proofs/CallbacksOps.lean.

  * `Setting run S rec w fl` bundles the hypotheses on runner, observers and world;
    `Live w fl e` is "e is a live handle"; `FrameOf w0 w w'` says that `w'` is the observer-free
    result `w0` with the observers of `w` put back (log and lock aside).
  * `*_cbs` — for each operation: it succeeds exactly as the observer-free operation does, and the
    `cb` records it appends are `(l, e)` for the observers `l` registered for the operation's event
    type whose specification fires (`firing`), in registration order, once each.
  * `cbs_of_observer` / `*_independent` — whether (and how often) an observer's callback runs
    depends only on its own specification and on whether it is registered; registering or
    unregistering ANOTHER observer does not change it.

  Kernel-only proofs, core Lean only.
-/
import Ark.Proofs.CallbacksSeen
import Ark.Proofs.CallbacksSetting

set_option autoImplicit false

namespace Ark

open World Spec Ark.Props.C01World QueryExact

/-- **the setting of C08/C09 at world level**: a callback runner that is read-only on the probes
    `S` and writes no `cb` records of its own; observers whose scripts consist of such probes,
    whose aggregates are consistent (`ObsOK`); a world of the non-relation fragment (`CInvObs`). -/
structure Setting (run : ProbeRunner) (S : Probe → Prop)
    (rec : World → Nat → Ent → Probe → List LogEv) (w : World) (fl : List Nat) : Prop where
  ro : ReadOnly run S rec
  noCb : NoCb rec
  scripts : ScriptsIn w.obs S
  obs : ObsOK w.obs
  inv : CInvObs w fl

/-- a live handle: ID ≥ 2, not on the free list, tests alive, inside the pool slice -/
structure Live (w : World) (fl : List Nat) (e : Ent) : Prop where
  ge2 : 2 ≤ e.id
  notFree : e.id ∉ fl
  alive : w.alive e = true
  inPool : e.id < w.pool.ents.length

/-- `w'` is the world `w0` (a result on the world without observers) with the observers of `w`
    put back; the log and the lock state are those of `w'` -/
def FrameOf (w0 w w' : World) : Prop := w' = w0.reframe w.obs w'.log w'.locks

theorem FrameOf.obs {w0 w w' : World} (h : FrameOf w0 w w') : w'.obs = w.obs := by rw [h]; rfl

theorem frameOf_reframe (w0 w : World) (lg : List LogEv) (lk : Lock) :
    FrameOf w0 w (w0.reframe w.obs lg lk) := rfl

theorem frameOf_relog (w0 w : World) (lg : List LogEv) : FrameOf w0 w (w0.relog w.obs lg) := rfl

/-- the setting carries over to the result: same runner, same observers, the invariant of the
    observer-free result -/
theorem Setting.frame {run : ProbeRunner} {S : Probe → Prop}
    {rec : World → Nat → Ent → Probe → List LogEv} {w w0 w' : World} {fl fl' : List Nat}
    (st : Setting run S rec w fl) (hf : FrameOf w0 w w') (h0 : CInv w0 fl') :
    Setting run S rec w' fl' where
  ro := st.ro
  noCb := st.noCb
  scripts := by rw [hf.obs]; exact st.scripts
  obs := by rw [hf.obs]; exact st.obs
  inv := by rw [hf]; exact h0.toObs.reframe _ _ _

/-- the callback records of a notification round -/
theorem cbsOf_round {rec : World → Nat → Ent → Probe → List LogEv} (hn : NoCb rec) (e : Ent)
    (ls : List Nat) (X : World) (lg : List LogEv) :
    cbsOf (notifyAll rec e ls X ++ lg) = (ls.map fun l => (l, e)).reverse ++ cbsOf lg := by
  rw [cbsOf_append, cbsOf_notifyAll hn]

section

variable {run : ProbeRunner} {S : Probe → Prop} {rec : World → Nat → Ent → Probe → List LogEv}
  {w : World} {fl : List Nat}

/-- **C08 for `Add`** -/
theorem add_cbs (st : Setting run S rec w fl) (run0 : ProbeRunner) (p : Path)
    (hl : w.isLocked = false) {e : Ent} (he : Live w fl e) {add : List Comp} (hne : add ≠ [])
    (hnd : add.Nodup) (hreg : ∀ (c : Comp), c ∈ add → c < w.kinds.length)
    (hnew : ∀ (c : Comp), c ∈ add → (w.maskOf e).get c = false) (vals : List (Comp × Val))
    (hfew : w.tables.length < maxU32) (hrows : ∀ t : Nat, (w.tbl t).len + 1 < 2 ^ 32) :
    ∃ w0 w' : World,
      opAdd run0 p e add vals [] w.noObs = .ok () w0 ∧ OpAddPost w.noObs fl e add vals w0 ∧
      opAdd run p e add vals [] w = .ok () w' ∧ FrameOf w0 w w' ∧ w'.locks = w0.locks ∧
      cbsOf w'.log =
        ((firing w.obs Ev.onAddComponents
          (.add (w.maskOf e) (add.foldl Mask.set (w.maskOf e)))).map fun l => (l, e)).reverse
        ++ cbsOf w.log := by
  obtain ⟨w1, _, _, h3, h4, h5⟩ := opAdd_callbacks st.ro run0 p st.scripts st.obs st.inv hl he.ge2
    he.notFree he.alive he.inPool hne hnd hreg hnew vals hfew hrows
  exact ⟨_, _, h3, h4, h5, frameOf_relog _ _ _, rfl, cbsOf_round st.noCb _ _ _ _⟩

/-- **C08 for `Remove`** -/
theorem remove_cbs (st : Setting run S rec w fl) (run0 : ProbeRunner) (p : Path)
    (hl : w.isLocked = false) {e : Ent} (he : Live w fl e) {rem : List Comp} (hne : rem ≠ [])
    (hnd : rem.Nodup) (hpres : ∀ (c : Comp), c ∈ rem → (w.maskOf e).get c = true)
    (hfew : w.tables.length < maxU32) (hrows : ∀ t : Nat, (w.tbl t).len + 1 < 2 ^ 32)
    {l1 l2 : Lock} {b : Nat} (hL : LockCycle w.locks l1 b l2) :
    ∃ w0 w' : World,
      opRemove run0 p e rem w.noObs = .ok () w0 ∧ RemovePost w.noObs fl e rem w0 ∧
      opRemove run p e rem w = .ok () w' ∧ FrameOf w0 w w' ∧
      w'.locks = lockAfter w Ev.onRemoveComponents l2 ∧
      cbsOf w'.log =
        ((firing w.obs Ev.onRemoveComponents
          (.remove (w.maskOf e) (rem.foldl Mask.clear (w.maskOf e)))).map fun l => (l, e)).reverse
        ++ cbsOf w.log := by
  obtain ⟨w1, w0, _, h2, h3, h4⟩ := opRemove_callbacks st.ro run0 p st.scripts st.obs st.inv hl
    he.ge2 he.notFree he.alive he.inPool hne hnd hpres hfew hrows hL
  exact ⟨_, _, h2, h3, h4, frameOf_reframe _ _ _ _, rfl, cbsOf_round st.noCb _ _ _ _⟩

/-- **C08 for `Exchange`**: first the removal observers (if `rem` is not empty), then the
    addition observers (the `Unsafe` path: if `add` is not empty), both with the masks before and
    after the complete exchange -/
theorem exchange_cbs (st : Setting run S rec w fl) (run0 : ProbeRunner) (p : Path)
    (hl : w.isLocked = false) {e : Ent} (he : Live w fl e)
    {add rem : List Comp} (hne : ¬ (add = [] ∧ rem = [])) (hrnd : rem.Nodup)
    (hpres : ∀ (c : Comp), c ∈ rem → (w.maskOf e).get c = true) (hand : add.Nodup)
    (hreg : ∀ (c : Comp), c ∈ add → c < w.kinds.length)
    (hnew : ∀ (c : Comp), c ∈ add → (w.maskOf e).get c = false) (vals : List (Comp × Val))
    (hfew : w.tables.length < maxU32) (hrows : ∀ t : Nat, (w.tbl t).len + 1 < 2 ^ 32)
    {l1 l2 : Lock} {b : Nat} (hL : LockCycle w.locks l1 b l2) :
    ∃ w0 w' : World,
      opExchange run0 p e add vals rem [] w.noObs = .ok () w0 ∧
      OpExchangePost w.noObs fl e add rem vals w0 ∧
      opExchange run p e add vals rem [] w = .ok () w' ∧ FrameOf w0 w w' ∧
      w'.locks = lockAfterX w rem l2 ∧
      cbsOf w'.log =
        ((firingAddX w.obs p add (w.maskOf e)
            (add.foldl Mask.set (rem.foldl Mask.clear (w.maskOf e)))).map fun l => (l, e)).reverse
        ++ (((firingX w rem (w.maskOf e)
            (add.foldl Mask.set (rem.foldl Mask.clear (w.maskOf e)))).map fun l => (l, e)).reverse
        ++ cbsOf w.log) := by
  obtain ⟨w1, w2, _, _, _, h4, h5, h6⟩ := opExchange_callbacks st.ro run0 p st.scripts st.obs st.inv
    hl he.ge2 he.notFree he.alive he.inPool hne hrnd hpres hand hreg hnew vals hfew hrows hL
  refine ⟨_, _, h4, h5, h6, frameOf_reframe _ _ _ _, rfl, ?_⟩
  show cbsOf (notifyAll rec e _ _ ++ (notifyAll rec e _ _ ++ w.log)) = _
  rw [cbsOf_round st.noCb, cbsOf_round st.noCb]

/-- **C08 for `NewEntity(ids…)`**: the returned handle is the reported entity -/
theorem newEntity_cbs (st : Setting run S rec w fl) (run0 : ProbeRunner) (p : Path)
    (hl : w.isLocked = false) {ids : List Comp} (hnd : ids.Nodup)
    (hreg : ∀ (c : Comp), c ∈ ids → c < w.kinds.length) (vals : List (Comp × Val))
    (hfew : w.tables.length < maxU32) (hrows : ∀ t : Nat, (w.tbl t).len + 1 < 2 ^ 32) :
    ∃ w0 w' : World,
      opNewEntity run0 p ids vals [] w.noObs = .ok (w.pool.get).2 w0 ∧
      NewPost w.noObs fl ids vals (w.pool.get).2 w0 ∧
      opNewEntity run p ids vals [] w = .ok (w.pool.get).2 w' ∧ FrameOf w0 w w' ∧
      w'.locks = w0.locks ∧
      cbsOf w'.log =
        ((firing w.obs Ev.onCreateEntity (.entity (Mask.ofList ids))).map
          fun l => (l, (w.pool.get).2)).reverse ++ cbsOf w.log := by
  obtain ⟨w1, _, _, h3, h4, h5⟩ := opNewEntity_callbacks st.ro run0 p st.scripts st.obs st.inv hl
    hnd hreg vals hfew hrows
  exact ⟨_, _, h3, h4, h5, frameOf_relog _ _ _, rfl, cbsOf_round st.noCb _ _ _ _⟩

/-- **C08 for `NewEntity()`** -/
theorem newEntity0_cbs (st : Setting run S rec w fl) (run0 : ProbeRunner)
    (hl : w.isLocked = false) (hb : (w.tbl 0).len + 1 < 2 ^ 32) :
    ∃ w0 w' : World,
      opNewEntity0 run0 w.noObs = .ok (w.pool.get).2 w0 ∧
      PlacedPost w.noObs fl 0 (w.pool.get).2 w0 ∧ compsOf w0 (w.pool.get).2.id = some [] ∧
      opNewEntity0 run w = .ok (w.pool.get).2 w' ∧ FrameOf w0 w w' ∧ w'.locks = w0.locks ∧
      cbsOf w'.log =
        ((firing w.obs Ev.onCreateEntity (.entity Mask.empty)).map
          fun l => (l, (w.pool.get).2)).reverse ++ cbsOf w.log := by
  obtain ⟨w0, h1, h2, h3, h4⟩ := opNewEntity0_callbacks st.ro run0 st.scripts st.obs st.inv hl hb
  exact ⟨_, _, h1, h2, h3, h4, frameOf_relog _ _ _, rfl, cbsOf_round st.noCb _ _ _ _⟩

/-- **C08 for `RemoveEntity`** -/
theorem removeEntity_cbs (st : Setting run S rec w fl) (run0 : ProbeRunner)
    (hl : w.isLocked = false) {e : Ent} (he : Live w fl e)
    {l1 l2 : Lock} {b : Nat} (hL : LockCycle w.locks l1 b l2) :
    ∃ w0 w' : World,
      opRemoveEntity run0 e w.noObs = .ok () w0 ∧ RemovedPost w.noObs fl e w0 ∧
      opRemoveEntity run e w = .ok () w' ∧ FrameOf w0 w w' ∧
      w'.locks = lockAfter w Ev.onRemoveEntity l2 ∧
      cbsOf w'.log =
        ((firing w.obs Ev.onRemoveEntity (.entity (w.maskOf e))).map fun l => (l, e)).reverse
        ++ cbsOf w.log := by
  obtain ⟨w0, h1, h2, h3⟩ := opRemoveEntity_callbacks st.ro run0 st.scripts st.obs st.inv hl he.ge2
    he.notFree he.alive he.inPool hL
  exact ⟨_, _, h1, h2, h3, frameOf_reframe _ _ _ _, rfl, cbsOf_round st.noCb _ _ _ _⟩

/-- **C08 for `Set`** (any lock state) -/
theorem set_cbs (st : Setting run S rec w fl) (run0 : ProbeRunner) {e : Ent} (he : Live w fl e)
    {ids : List Comp} (hhas : ∀ (c : Comp), c ∈ ids → (w.maskOf e).get c = true)
    (vals : List (Comp × Val)) :
    ∃ w0 w' : World,
      opSet run0 e ids vals w.noObs = .ok () w0 ∧ WritePost w.noObs fl e vals w0 ∧
      opSet run e ids vals w = .ok () w' ∧ FrameOf w0 w w' ∧ w'.locks = w0.locks ∧
      cbsOf w'.log =
        ((firing w.obs Ev.onSetComponents (.set (Mask.ofList ids) (w.maskOf e))).map
          fun l => (l, e)).reverse ++ cbsOf w.log := by
  obtain ⟨h1, h2, h3⟩ := opSet_callbacks st.ro run0 st.scripts st.obs st.inv he.ge2 he.notFree
    he.alive he.inPool hhas vals
  exact ⟨_, _, h1, h2, h3, frameOf_relog _ _ _, rfl, cbsOf_round st.noCb _ _ _ _⟩

/-- **C08 for `CopyEntity`**: the copy is the reported entity, with the mask of the source -/
theorem copyEntity_cbs (st : Setting run S rec w fl) (run0 : ProbeRunner)
    (hl : w.isLocked = false) {src : Ent} (he : Live w fl src)
    (hrows : ∀ t : Nat, (w.tbl t).len + 1 < 2 ^ 32) :
    ∃ w0 w' : World,
      opCopyEntity run0 src w.noObs = .ok (w.pool.get).2 w0 ∧
      CopyPost w.noObs fl src (w.pool.get).2 w0 ∧
      opCopyEntity run src w = .ok (w.pool.get).2 w' ∧ FrameOf w0 w w' ∧ w'.locks = w0.locks ∧
      cbsOf w'.log =
        ((firing w.obs Ev.onCreateEntity (.entity (w.maskOf src))).map
          fun l => (l, (w.pool.get).2)).reverse ++ cbsOf w.log := by
  obtain ⟨w0, h1, h2, h3⟩ := opCopyEntity_callbacks st.ro run0 st.scripts st.obs st.inv hl he.ge2
    he.notFree he.alive he.inPool hrows
  exact ⟨_, _, h1, h2, h3, frameOf_relog _ _ _, rfl, cbsOf_round st.noCb _ _ _ _⟩

/-- **C08 for custom events** (`Event.Emit`; needs no invariant of the world, only the observer
    setting): the world is unchanged but for the log -/
theorem emit_cbs (hro : ReadOnly run S rec) (hn : NoCb rec) (hs : ScriptsIn w.obs S)
    (hok : ObsOK w.obs) (evt : Nat) (comps : List Comp) (e : Ent) (hevt : evt ≤ Ev.custom)
    (hent : if e.isZero then (Mask.ofList comps).isZero = true else w.alive e = true)
    (hcont : ((if e.isZero then (w.arch 0).mask else w.maskOf e).contains (Mask.ofList comps)) = true) :
    ∃ w' : World, opEmit run evt comps e w = .ok () w' ∧ w' = { w with log := w'.log } ∧
      cbsOf w'.log =
        ((firing w.obs evt (.set (Mask.ofList comps)
          (if e.isZero then (w.arch 0).mask else w.maskOf e))).map fun l => (l, e)).reverse
        ++ cbsOf w.log := by
  refine ⟨_, opEmit_obs_eq hro w hs hok evt comps e hevt hent hcont, rfl, ?_⟩
  exact cbsOf_round hn _ _ _ _

end

/-! ## C09: the world each callback runs on -/

/-- the complete log of a notification round for a log-blind runner: for every notified observer
    (in order; the log is newest-first, hence reversed) its `cb` record and the records of its
    script, ALL of them functions of the one world `seen` -/
theorem log_round {rec : World → Nat → Ent → Probe → List LogEv} (hb : LogBlind rec) (e : Ent)
    (ls : List Nat) (seen : World) (lg : List LogEv) :
    notifyAll rec e ls seen ++ lg = (ls.reverse.flatMap fun l => notifyFlat rec l e seen) ++ lg := by
  rw [notifyAll_blind hb]

section

variable {run : ProbeRunner} {S : Probe → Prop} {rec : World → Nat → Ent → Probe → List LogEv}
  {w : World} {fl : List Nat}

/-- **C09 for `Add`: the callbacks run AFTER the change.**  Every record written during the
    operation is a function of one world `seen` on which: the lock state is the caller's; every
    handle tests alive as before; the entity has its NEW component set; the added components read
    the values written through the typed paths (`Map`, `MapN`) — zero through `Unsafe`, whose
    caller writes after the call; every other entity is untouched.  For the typed paths `seen`
    is the final world up to the log. -/
theorem add_sees (st : Setting run S rec w fl) (hb : LogBlind rec) (p : Path)
    (hl : w.isLocked = false) {e : Ent} (he : Live w fl e) {add : List Comp} (hne : add ≠ [])
    (hnd : add.Nodup) (hreg : ∀ (c : Comp), c ∈ add → c < w.kinds.length)
    (hnew : ∀ (c : Comp), c ∈ add → (w.maskOf e).get c = false) (vals : List (Comp × Val))
    (hfew : w.tables.length < maxU32) (hrows : ∀ t : Nat, (w.tbl t).len + 1 < 2 ^ 32) :
    ∃ seen w' : World,
      opAdd run p e add vals [] w = .ok () w' ∧
      w'.log = ((firing w.obs Ev.onAddComponents
          (.add (w.maskOf e) (add.foldl Mask.set (w.maskOf e)))).reverse.flatMap
            fun l => notifyFlat rec l e seen) ++ w.log ∧
      seen.obs = w.obs ∧ seen.isLocked = w.isLocked ∧ (∀ x : Ent, seen.alive x = w.alive x) ∧
      compsOf seen e.id = some ((add.foldl Mask.set (w.maskOf e)).toList w.kinds.length) ∧
      (∀ c : Comp, c ∈ add → valOf seen e.id c =
        some (if p = .unsafe_ ∨ (w.kinds.getD c {}).zst = true then 0 else applyVals 0 vals c)) ∧
      (∀ j : Nat, j ≠ e.id → SameEnt w seen j) ∧
      (p ≠ .unsafe_ → seen = w'.relog w.obs w.log) := by
  obtain ⟨w1, _, ap, _, oap, h5⟩ := opAdd_callbacks st.ro (fun _ _ _ => pure ()) p st.scripts st.obs
    st.inv hl he.ge2 he.notFree he.alive he.inPool hne hnd hreg hnew vals hfew hrows
  refine ⟨(seenAfter p w1 e vals).relog w.obs w.log, _, h5, log_round hb _ _ _ _, rfl, ?_⟩
  unfold seenAfter
  by_cases hp : p = .unsafe_
  · simp only [hp, if_true]
    refine ⟨ap.unlocked, ap.aliveSame, ap.comps, fun c hc => ?_, ap.frame, fun h => absurd rfl h⟩
    simp only [true_or, if_true]
    exact ap.added c hc
  · simp only [hp, if_false]
    refine ⟨oap.unlocked, oap.aliveSame, oap.comps, fun c hc => ?_, oap.frame, fun _ => rfl⟩
    simp only [false_or]
    exact oap.added c hc

/-- **C09 for `Remove`: the callbacks run BEFORE the change, under the lock.**  Every record
    written during the operation is a function of one world `seen` on which: the world is locked
    (`NewEntity()` — like every structural operation — is rejected with the state unchanged); the
    invariant holds; every handle tests alive as before; EVERY entity, the reported one included,
    has the component set and the values it had before the call — the components about to be
    removed are readable with their current values; a complete iteration of any uncached untyped
    query succeeds, changes nothing but the lock's bit pool and is exact for the world before the
    removal (`QueryExactOn`): the reported entity occurs exactly once, in its old row, if the
    filter matches its OLD mask. -/
theorem remove_sees (st : Setting run S rec w fl) (hb : LogBlind rec) (p : Path)
    (hl : w.isLocked = false) {e : Ent} (he : Live w fl e) {rem : List Comp} (hne : rem ≠ [])
    (hnd : rem.Nodup) (hpres : ∀ (c : Comp), c ∈ rem → (w.maskOf e).get c = true)
    (hfew : w.tables.length < maxU32) (hrows : ∀ t : Nat, (w.tbl t).len + 1 < 2 ^ 32)
    {l1 l2 : Lock} {b : Nat} (hL : LockCycle w.locks l1 b l2)
    {l1' l2' : Lock} {b' : Nat} (hL' : LockCycle l1 l1' b' l2') :
    ∃ seen w' : World,
      opRemove run p e rem w = .ok () w' ∧
      w'.log = ((firing w.obs Ev.onRemoveComponents
          (.remove (w.maskOf e) (rem.foldl Mask.clear (w.maskOf e)))).reverse.flatMap
            fun l => notifyFlat rec l e seen) ++ w.log ∧
      seen.obs = w.obs ∧ seen.isLocked = true ∧ CInvObs seen fl ∧
      (∀ x : Ent, seen.alive x = w.alive x) ∧ (∀ j : Nat, SameEnt w seen j) ∧
      seen.entities = w.entities ∧
      (∀ r : ProbeRunner, opNewEntity0 r seen = .panic .locked seen) ∧
      (∀ fo : FilterObj, fo.cache = none → (fo.typed = false ∨ fo.ids = []) →
        ∃ q visits, QueryExactOn seen fl fo (seen.withLocks l1') q visits (seen.withLocks l2')) := by
  obtain ⟨w1, w0, lk, _, _, h4⟩ := opRemove_callbacks st.ro (fun _ _ _ => pure ()) p st.scripts st.obs
    st.inv hl he.ge2 he.notFree he.alive he.inPool hne hnd hpres hfew hrows hL
  obtain ⟨a1, a2, a3, a4, a5, a6⟩ := seen_before lk hL
  exact ⟨w1.reframe w.obs w.log l1, _, h4, log_round hb _ _ _ _, rfl, a1, a2, a3, a4, a5, a6,
    fun fo hc hu => seen_before_query lk hL hL' fo hc hu⟩

/-- **C09 for `RemoveEntity`: the callbacks run BEFORE the removal, under the lock**; the world
    they see is `w` itself with the lock held. -/
theorem removeEntity_sees (st : Setting run S rec w fl) (hb : LogBlind rec)
    (hl : w.isLocked = false) {e : Ent} (he : Live w fl e)
    {l1 l2 : Lock} {b : Nat} (hL : LockCycle w.locks l1 b l2)
    {l1' l2' : Lock} {b' : Nat} (hL' : LockCycle l1 l1' b' l2') :
    ∃ w' : World,
      opRemoveEntity run e w = .ok () w' ∧
      w'.log = ((firing w.obs Ev.onRemoveEntity (.entity (w.maskOf e))).reverse.flatMap
            fun l => notifyFlat rec l e (w.withLocks l1)) ++ w.log ∧
      (w.withLocks l1).isLocked = true ∧ CInvObs (w.withLocks l1) fl ∧
      (w.withLocks l1).alive e = true ∧ (∀ j : Nat, SameEnt w (w.withLocks l1) j) ∧
      (∀ r : ProbeRunner, opNewEntity0 r (w.withLocks l1) = .panic .locked (w.withLocks l1)) ∧
      (∀ r : ProbeRunner, opRemoveEntity r e (w.withLocks l1) = .panic .locked (w.withLocks l1)) ∧
      (∀ fo : FilterObj, fo.cache = none → (fo.typed = false ∨ fo.ids = []) →
        ∃ q visits, QueryExactOn (w.withLocks l1) fl fo ((w.withLocks l1).withLocks l1') q visits
          ((w.withLocks l1).withLocks l2')) := by
  obtain ⟨w0, _, _, h3⟩ := opRemoveEntity_callbacks st.ro (fun _ _ _ => pure ()) st.scripts st.obs
    st.inv hl he.ge2 he.notFree he.alive he.inPool hL
  have lk : Looked w.noObs fl w.noObs := Looked.refl st.inv
  obtain ⟨a1, a2, a3, a4, _, a6⟩ := seen_before lk hL
  refine ⟨_, h3, log_round hb _ _ _ _, a1, a2, he.alive, a4, a6,
    fun r => opRemoveEntity_locked r _ a1 e, fun fo hc hu => seen_before_query lk hL hL' fo hc hu⟩

/-- **C09 for `NewEntity(ids…)`: the callbacks run AFTER the creation**, in the caller's lock
    state; the reported entity is the returned handle, alive, with exactly the requested
    components, reading the values written through the typed paths (zero through `Unsafe`). -/
theorem newEntity_sees (st : Setting run S rec w fl) (hb : LogBlind rec) (p : Path)
    (hl : w.isLocked = false) {ids : List Comp} (hnd : ids.Nodup)
    (hreg : ∀ (c : Comp), c ∈ ids → c < w.kinds.length) (vals : List (Comp × Val))
    (hfew : w.tables.length < maxU32) (hrows : ∀ t : Nat, (w.tbl t).len + 1 < 2 ^ 32) :
    ∃ seen w' : World,
      opNewEntity run p ids vals [] w = .ok (w.pool.get).2 w' ∧
      w'.log = ((firing w.obs Ev.onCreateEntity (.entity (Mask.ofList ids))).reverse.flatMap
            fun l => notifyFlat rec l (w.pool.get).2 seen) ++ w.log ∧
      seen.obs = w.obs ∧ seen.isLocked = w.isLocked ∧ seen.alive (w.pool.get).2 = true ∧
      compsOf seen (w.pool.get).2.id = some ((Mask.ofList ids).toList w.kinds.length) ∧
      (∀ c : Comp, c ∈ ids → valOf seen (w.pool.get).2.id c =
        some (if p = .unsafe_ ∨ (w.kinds.getD c {}).zst = true then 0 else applyVals 0 vals c)) ∧
      (∀ j : Nat, j ≠ (w.pool.get).2.id → SameEnt w seen j) ∧
      (p ≠ .unsafe_ → seen = w'.relog w.obs w.log) := by
  obtain ⟨w1, _, np1, _, np, h5⟩ := opNewEntity_callbacks st.ro (fun _ _ _ => pure ()) p st.scripts
    st.obs st.inv hl hnd hreg vals hfew hrows
  refine ⟨(seenAfter p w1 (w.pool.get).2 vals).relog w.obs w.log, _, h5, log_round hb _ _ _ _, rfl, ?_⟩
  unfold seenAfter
  by_cases hp : p = .unsafe_
  · simp only [hp, if_true]
    refine ⟨np1.unlocked, np1.alive, np1.comps, fun c hc => ?_, np1.frame, fun h => absurd rfl h⟩
    simp only [true_or, if_true]
    have := np1.vals c hc
    simp only [applyVals, List.foldl_nil, ite_self] at this
    exact this
  · simp only [hp, if_false]
    refine ⟨np.unlocked, np.alive, np.comps, fun c hc => ?_, np.frame, fun _ => rfl⟩
    simp only [false_or]
    exact np.vals c hc

/-- **C09 for `Set`: the callbacks run after the write**, in the caller's lock state (locked or
    not), and read the new values. -/
theorem set_sees (st : Setting run S rec w fl) (hb : LogBlind rec) {e : Ent} (he : Live w fl e)
    {ids : List Comp} (hhas : ∀ (c : Comp), c ∈ ids → (w.maskOf e).get c = true)
    (vals : List (Comp × Val)) :
    ∃ seen w' : World,
      opSet run e ids vals w = .ok () w' ∧
      w'.log = ((firing w.obs Ev.onSetComponents
          (.set (Mask.ofList ids) (w.maskOf e))).reverse.flatMap
            fun l => notifyFlat rec l e seen) ++ w.log ∧
      seen = w'.relog w.obs w.log ∧ seen.isLocked = w.isLocked ∧
      (∀ x : Ent, seen.alive x = w.alive x) ∧ compsOf seen e.id = compsOf w e.id ∧
      (∀ (c : Comp) (v : Val), valOf w e.id c = some v → valOf seen e.id c =
        some (if (w.kinds.getD c {}).zst = true then v else applyVals v vals c)) ∧
      (∀ j : Nat, j ≠ e.id → SameEnt w seen j) := by
  obtain ⟨_, wp, h3⟩ := opSet_callbacks st.ro (fun _ _ _ => pure ()) st.scripts st.obs st.inv he.ge2
    he.notFree he.alive he.inPool hhas vals
  exact ⟨(writeValsW w.noObs e vals).relog w.obs w.log, _, h3, log_round hb _ _ _ _, rfl,
    wp.unlocked, wp.aliveSame, wp.comps, wp.vals, wp.frame⟩

/-- **C09 for `Exchange`: removal callbacks BEFORE the change under the lock, addition callbacks
    AFTER it** (unlocked again).  The records of the removal round are functions of `seenB` — the
    locked world before the move, every entity as before the call —, those of the addition round
    of `seenA` — the world after the move, with the new component set, the values of the typed
    path written. -/
theorem exchange_sees (st : Setting run S rec w fl) (hb : LogBlind rec) (p : Path)
    (hl : w.isLocked = false) {e : Ent} (he : Live w fl e)
    {add rem : List Comp} (hne : ¬ (add = [] ∧ rem = [])) (hrnd : rem.Nodup)
    (hpres : ∀ (c : Comp), c ∈ rem → (w.maskOf e).get c = true) (hand : add.Nodup)
    (hreg : ∀ (c : Comp), c ∈ add → c < w.kinds.length)
    (hnew : ∀ (c : Comp), c ∈ add → (w.maskOf e).get c = false) (vals : List (Comp × Val))
    (hfew : w.tables.length < maxU32) (hrows : ∀ t : Nat, (w.tbl t).len + 1 < 2 ^ 32)
    {l1 l2 : Lock} {b : Nat} (hL : LockCycle w.locks l1 b l2)
    (hl2 : l2.isLocked = false) :
    ∃ seenB seenA w' : World,
      opExchange run p e add vals rem [] w = .ok () w' ∧
      w'.log =
        ((firingAddX w.obs p add (w.maskOf e)
            (add.foldl Mask.set (rem.foldl Mask.clear (w.maskOf e)))).reverse.flatMap
          fun l => notifyFlat rec l e seenA) ++
        (((firingX w rem (w.maskOf e)
            (add.foldl Mask.set (rem.foldl Mask.clear (w.maskOf e)))).reverse.flatMap
          fun l => notifyFlat rec l e seenB) ++ w.log) ∧
      -- before
      seenB.obs = w.obs ∧ seenB.isLocked = true ∧ CInvObs seenB fl ∧
      (∀ x : Ent, seenB.alive x = w.alive x) ∧ (∀ j : Nat, SameEnt w seenB j) ∧
      (∀ r : ProbeRunner, opNewEntity0 r seenB = .panic .locked seenB) ∧
      -- after
      seenA.obs = w.obs ∧ seenA.isLocked = false ∧ (∀ x : Ent, seenA.alive x = w.alive x) ∧
      compsOf seenA e.id =
        some ((add.foldl Mask.set (rem.foldl Mask.clear (w.maskOf e))).toList w.kinds.length) ∧
      (∀ c : Comp, c ∈ rem → valOf seenA e.id c = none) ∧
      (∀ c : Comp, c ∈ add → valOf seenA e.id c =
        some (if p = .unsafe_ ∨ (w.kinds.getD c {}).zst = true then 0 else applyVals 0 vals c)) ∧
      (∀ j : Nat, j ≠ e.id → SameEnt w seenA j) := by
  obtain ⟨w1, w2, lk, _, ep, _, oep, h6⟩ := opExchange_callbacks st.ro (fun _ _ _ => pure ()) p
    st.scripts st.obs st.inv hl he.ge2 he.notFree he.alive he.inPool hne hrnd hpres hand hreg hnew
    vals hfew hrows hL
  obtain ⟨a1, a2, a3, a4, _, a6⟩ := seen_before lk hL
  have hlockA : ∀ (X : World) (lg : List LogEv),
      (X.reframe w.obs lg (lockAfterX w rem l2)).isLocked = false := by
    intro X lg
    show (lockAfterX w rem l2).isLocked = false
    unfold lockAfterX lockAfter
    split
    · exact hl
    · split
      · exact hl2
      · exact hl
  refine ⟨w1.reframe w.obs w.log l1,
    (seenAfter p w2 e vals).reframe w.obs
      (notifyAll rec e
        (firingX w rem (w.maskOf e) (add.foldl Mask.set (rem.foldl Mask.clear (w.maskOf e))))
        (w1.reframe w.obs w.log l1) ++ w.log)
      (lockAfterX w rem l2), _, h6, ?_, rfl, a1, a2, a3, a4, a6, rfl, hlockA _ _, ?_⟩
  · show notifyAll rec e _ _ ++ (notifyAll rec e _ _ ++ w.log) = _
    rw [notifyAll_blind hb, notifyAll_blind hb]
  · unfold seenAfter
    by_cases hp : p = .unsafe_
    · simp only [hp, if_true]
      refine ⟨ep.aliveSame, ep.comps, ep.gone, fun c hc => ?_, ep.frame⟩
      simp only [true_or, if_true]
      exact ep.added c hc
    · simp only [hp, if_false]
      refine ⟨oep.aliveSame, oep.comps, oep.gone, fun c hc => ?_, oep.frame⟩
      simp only [false_or]
      exact oep.added c hc

/-- **C09 for `CopyEntity` and `NewEntity()`: the callbacks run AFTER the creation**, on the final
    world up to the log: the reported entity (the returned handle) is alive; the copy has the
    components and the values of the source. -/
theorem copyEntity_sees (st : Setting run S rec w fl) (hb : LogBlind rec)
    (hl : w.isLocked = false) {src : Ent} (he : Live w fl src)
    (hrows : ∀ t : Nat, (w.tbl t).len + 1 < 2 ^ 32) :
    ∃ seen w' : World,
      opCopyEntity run src w = .ok (w.pool.get).2 w' ∧
      w'.log = ((firing w.obs Ev.onCreateEntity (.entity (w.maskOf src))).reverse.flatMap
            fun l => notifyFlat rec l (w.pool.get).2 seen) ++ w.log ∧
      seen = w'.relog w.obs w.log ∧ seen.isLocked = w.isLocked ∧
      seen.alive (w.pool.get).2 = true ∧ seen.alive src = true ∧
      compsOf seen (w.pool.get).2.id = compsOf w src.id ∧
      (∀ c : Comp, valOf seen (w.pool.get).2.id c = valOf w src.id c) ∧
      (∀ j : Nat, j ≠ (w.pool.get).2.id → SameEnt w seen j) := by
  obtain ⟨w0, _, cp, h3⟩ := opCopyEntity_callbacks st.ro (fun _ _ _ => pure ()) st.scripts st.obs
    st.inv hl he.ge2 he.notFree he.alive he.inPool hrows
  exact ⟨w0.relog w.obs w.log, _, h3, log_round hb _ _ _ _, rfl, cp.unlocked, cp.alive,
    (cp.live src he.notFree he.alive he.inPool).2.2.1, cp.comps, cp.vals, cp.frame⟩

theorem newEntity0_sees (st : Setting run S rec w fl) (hb : LogBlind rec)
    (hl : w.isLocked = false) (hb0 : (w.tbl 0).len + 1 < 2 ^ 32) :
    ∃ seen w' : World,
      opNewEntity0 run w = .ok (w.pool.get).2 w' ∧
      w'.log = ((firing w.obs Ev.onCreateEntity (.entity Mask.empty)).reverse.flatMap
            fun l => notifyFlat rec l (w.pool.get).2 seen) ++ w.log ∧
      seen = w'.relog w.obs w.log ∧ seen.isLocked = w.isLocked ∧
      seen.alive (w.pool.get).2 = true ∧ compsOf seen (w.pool.get).2.id = some [] ∧
      (∀ j : Nat, j ≠ (w.pool.get).2.id → SameEnt w seen j) := by
  obtain ⟨w0, _, pp, hc, h4⟩ := opNewEntity0_callbacks st.ro (fun _ _ _ => pure ()) st.scripts st.obs
    st.inv hl hb0
  exact ⟨w0.relog w.obs w.log, _, h4, log_round hb _ _ _ _, rfl, pp.unlocked, pp.alive, hc, pp.frame⟩

/-- **C09 for custom events**: the callbacks run on the unchanged world `w` itself (any lock
    state) -/
theorem emit_sees (hro : ReadOnly run S rec) (hb : LogBlind rec) (hs : ScriptsIn w.obs S)
    (hok : ObsOK w.obs) (evt : Nat) (comps : List Comp) (e : Ent) (hevt : evt ≤ Ev.custom)
    (hent : if e.isZero then (Mask.ofList comps).isZero = true else w.alive e = true)
    (hcont : ((if e.isZero then (w.arch 0).mask else w.maskOf e).contains (Mask.ofList comps)) = true) :
    ∃ w' : World, opEmit run evt comps e w = .ok () w' ∧ w' = { w with log := w'.log } ∧
      w'.log = ((firing w.obs evt (.set (Mask.ofList comps)
          (if e.isZero then (w.arch 0).mask else w.maskOf e))).reverse.flatMap
            fun l => notifyFlat rec l e w) ++ w.log :=
  ⟨_, opEmit_obs_eq hro w hs hok evt comps e hevt hent hcont, rfl, log_round hb _ _ _ _⟩

end

/-! ## independence -/

/-- whether observer `l` is in the documented callback set depends only on whether it is listed
    and on its own specification -/
theorem mem_firing_congr {m m' : ObsMgr} {evt : Nat} {l : Nat}
    (hl : l ∈ (m'.evt evt).observers ↔ l ∈ (m.evt evt).observers)
    (hs : (m'.obj l).spec = (m.obj l).spec) (ev : EvInst) :
    l ∈ firing m' evt ev ↔ l ∈ firing m evt ev := by
  rw [mem_firing, mem_firing, hl, hs]

/-- **independence** (C08): the number of callbacks of observer `l` in a notification round —
    one if it is registered for the event type and its specification fires, zero otherwise — is
    the same under any two observer managers that agree on `l` (whether it is listed, and its
    specification), whatever else is or was registered.  With the `*_cbs` theorems (whose event
    instance is computed from the world without observers) this holds for every operation. -/
theorem observer_independent {m m' : ObsMgr} (h : ObsOK m) (h' : ObsOK m') {evt : Nat} {l : Nat}
    (hl : l ∈ (m'.evt evt).observers ↔ l ∈ (m.evt evt).observers)
    (hs : (m'.obj l).spec = (m.obj l).spec) (ev : EvInst) (e : Ent) :
    (((firing m' evt ev).map fun x => (x, e)).reverse).count (l, e)
      = (((firing m evt ev).map fun x => (x, e)).reverse).count (l, e) := by
  rw [count_cbs_firing h', count_cbs_firing h]
  by_cases hm : l ∈ firing m evt ev
  · rw [if_pos hm, if_pos ((mem_firing_congr hl hs ev).mpr hm)]
  · rw [if_neg hm, if_neg (fun hh => hm ((mem_firing_congr hl hs ev).mp hh))]

/-- **registering another observer** changes neither the rest of the world nor, for any event
    type, whether `l` is listed, nor any specification -/
theorem register_other {w w' : World} {l l' : Nat} (h : ObsOK w.obs)
    (hok : opObsRegister l' w = .ok () w') (hids : IdsOK (w.obs.obj l').spec)
    (hfresh : ∀ evt : Nat, l' ∉ (w.obs.evt evt).observers) (hne : l ≠ l') :
    ObsOK w'.obs ∧ w' = { w with obs := w'.obs } ∧
    (∀ evt : Nat, l ∈ (w'.obs.evt evt).observers ↔ l ∈ (w.obs.evt evt).observers) ∧
    (w'.obs.obj l).spec = (w.obs.obj l).spec := by
  obtain ⟨h1, h2, h3, h4, h5⟩ := opObsRegister_spec h hok hids hfresh
  refine ⟨h1, h2, fun evt => ?_, h5 l⟩
  by_cases hev : evt = (w.obs.obj l').spec.event
  · subst hev
    rw [h3, List.mem_append]
    constructor
    · rintro (hh | hh)
      · exact hh
      · exact absurd (by simpa using hh) hne
    · exact fun hh => Or.inl hh
  · rw [h4 evt hev]

/-- the index the manager keeps for observer `l'` points at `l'` in the list of its event type -/
def IndexOK (m : ObsMgr) (l' : Nat) : Prop :=
  ∀ oid idx, (m.obj l').oid = some oid → AL.find? m.indices oid = some idx →
    (m.evt (m.obj l').spec.event).observers[idx]? = some l'

/-- **unregistering another observer** (whose recorded index points at it) changes neither the
    rest of the world nor whether `l` is listed, nor any specification — although the swap-remove
    may move `l` to another position of the list -/
theorem unregister_other {w w' : World} {l l' : Nat} (h : ObsOK w.obs)
    (hok : opObsUnregister l' w = .ok () w') (hidx : IndexOK w.obs l') (hne : l ≠ l') :
    ObsOK w'.obs ∧ w' = { w with obs := w'.obs } ∧
    (∀ evt : Nat, l ∈ (w'.obs.evt evt).observers ↔ l ∈ (w.obs.evt evt).observers) ∧
    (w'.obs.obj l).spec = (w.obs.obj l).spec := by
  obtain ⟨h1, h2, ⟨oid, idx, ho, hi, h3⟩, h4, h5⟩ := opObsUnregister_spec h hok
  refine ⟨h1, h2, fun evt => ?_, h5 l⟩
  by_cases hev : evt = (w.obs.obj l').spec.event
  · subst hev
    have hat := hidx oid idx ho hi
    have hlt : idx < (w.obs.evt (w.obs.obj l').spec.event).observers.length :=
      (List.getElem?_eq_some_iff.mp hat).1
    rw [h3, mem_removedObs (h.nodup _) hlt]
    constructor
    · exact fun hh => hh.1
    · intro hh
      refine ⟨hh, fun heq => ?_⟩
      rw [hat] at heq
      exact hne (Option.some.inj heq).symm
  · rw [h4 evt hev]

end Ark
