/-
  Ark.Proofs.RelRefine2Machine — property C05 with relations, part 6: the history machine.

  * `Op2` — the operations of the relation machine of `Ark.Proofs.RelRefine` (`base op`),
    `CopyEntity` (`copy e`: the specification gets a second entry with the components, values and
    relation targets of `e`), `Shrink`, `Reset`, the filter operations `fdef` / `freg` / `funreg`
    and complete query iterations (`query f extra`: `drain` on the filter object under label `f`
    with per-call relations); `step2`, `reach2`;
  * `HInv2 s fl` — the inductive invariant: `RelRefine.HInv` (⊇ `TInv`) and the filter-side
    invariant `FInvR`; `HInv2.qgood`: such a state is `QGood` (the C03 theorems apply);
  * the step lemmas for `base`, `copy`, `fdef`, `freg`, `funreg`, `query` (`Shrink` and `Reset` are in
    `RelRefine2Shrink` / `RelRefine2Reset`);
  * `HInv2.cached_agrees` — the state-level form of the headline: a registered filter object
    (fixed relations allowed) and ANY admissible per-call relations: the cache entry lists the
    members of the uncached walk, and the cached and the uncached iteration both succeed, leave
    the same world and visit the same entities (each once).
  Kernel-only proofs, core Lean only.
-/
import Ark.Proofs.RelRefine2Base
import Ark.Proofs.RelRefine2Copy

set_option autoImplicit false

namespace Ark
namespace RelRefine2

open World Ark.Props.C01World QueryRel QueryExact RelRefine

/-! ## 1. the machine -/

/-- the per-call relations a client can pass to `Query(rel…)` without running into a Go runtime
    panic: a typed filter validates them itself (`preCheckTyped`: rejected without effect when
    not `ExtraOK`); for an `UnsafeFilter` they must name relation components the mask requires
    (otherwise `Matches` is a nil dereference with the world locked) -/
def guardQ (w : World) (fo : FilterObj) (extra : List RelID) : Bool :=
  fo.typed || extra.all fun r => w.isRelComp r.comp && fo.filter.mask.get r.comp

/-- the operations: those of the relation machine, `CopyEntity`, `Shrink`, `Reset`, the three
    filter operations, and complete query iterations -/
inductive Op2
  /-- an operation of `Ark.RelRefine` (`reg`, `new p`, `add p`, `rem p`, `setrel p`, `set`, `del`) -/
  | base (op : RelRefine.Op)
  /-- `World.CopyEntity(e)` -/
  | copy (e : Ent)
  /-- `World.Shrink` (`bounded`: stop after the first table with work) -/
  | shrink (bounded : Bool)
  /-- `World.Reset` -/
  | reset
  /-- a filter object is constructed and stored under label `f` (the driver's `filter` line) -/
  | fdef (f : Nat) (fo : FilterObj)
  /-- `FilterN.Register` on the object under label `f` -/
  | freg (f : Nat)
  /-- `FilterN.Unregister` on the object under label `f` -/
  | funreg (f : Nat)
  /-- `Query(extra…)` on the object under label `f`, iterated to the end -/
  | query (f : Nat) (extra : List RelID)
  deriving Repr

/-- one step.  `copy e` is a step for a handle the client holds; on success the specification
    gets the entry of `e` a second time, under the handle returned.  Filter operations, queries
    and `Shrink` leave the ghost history and the specification alone; a successful `Reset` empties the specification and starts a new epoch
    of handles (as in `Ark.Refine`); a panic keeps the state the model reached (Go `recover`). -/
def step2 (run : ProbeRunner) (s : St) : Op2 → St
  | .base op => RelRefine.step run s op
  | .copy e =>
    if decide (e ∈ s.issued) = true then
      match opCopyEntity run e s.w with
      | .ok e' w' =>
        ⟨w', e' :: s.issued,
          { s.ss with ents := match find s.ss.ents e with
              | some en => (e', en) :: s.ss.ents
              | none => s.ss.ents }⟩
      | .panic _ w' => { s with w := w' }
    else s
  | .shrink bounded => { s with w := (opShrink bounded s.w).state }
  | .reset =>
    match opReset s.w with
    | .ok _ w' => ⟨w', [], ⟨[], s.ss.zst, s.ss.isRel⟩⟩
    | .panic _ w' => { s with w := w' }
  | .fdef f fo => if guardF s.w fo = true then { s with w := defFilter f fo s.w } else s
  | .freg f => { s with w := (opFilterRegister f s.w).state }
  | .funreg f => { s with w := (opFilterUnregister f s.w).state }
  | .query f extra =>
    if guardQ s.w (foAt s.w f) extra = true then
      { s with w := (drain (foAt s.w f) extra s.w).state }
    else s

def runOps2 (run : ProbeRunner) (s : St) (ops : List Op2) : St := ops.foldl (step2 run) s

/-- the state reached from `NewWorld(cap, rel)` by the history `ops` -/
def reach2 (run : ProbeRunner) (cap rel : Nat) (ops : List Op2) : St :=
  runOps2 run (St.init cap rel) ops

theorem reach2_snoc (run : ProbeRunner) (cap rel : Nat) (ops : List Op2) (op : Op2) :
    reach2 run cap rel (ops ++ [op]) = step2 run (reach2 run cap rel ops) op := by
  simp only [reach2, runOps2, List.foldl_append, List.foldl_cons, List.foldl_nil]

/-- **the inductive invariant of the machine**: the invariant of the relation machine
    (`HInv` ⊇ `TInv` ⊇ `SInv`, `RInv`, `IdxInv`, targets, relation lists, flags, free-empty) and
    the filter-side invariant (`CacheInv`, `HeapOK`, `CIdx`, `RowsAlive`, lock pool, cache ID pool) -/
structure HInv2 (s : St) (fl : List Nat) : Prop where
  base : HInv s fl
  finv : FInvR s.w

theorem hinv2_init (cap rel : Nat) : HInv2 (St.init cap rel) [] :=
  ⟨hinv_init cap rel, finvR_init cap rel⟩

namespace HInv2

variable {s : St} {fl : List Nat}

theorem cacheInv (H : HInv2 s fl) : CacheInv s.w := H.finv.cache

theorem tablesInv (H : HInv2 s fl) : TablesInv s.w := tablesInv_of_rel H.base.tinv.rel

/-- the C03 theorems with relation targets apply in every state of the machine -/
theorem qgood (H : HInv2 s fl) : QGood s.w :=
  ⟨⟨fl, H.base.tinv, H.base.unlocked, H.base.noObs⟩, H.finv.cidx, H.finv.rows, H.finv.lock⟩

end HInv2

/-- the size measure the step lemmas bound: tables, relation archetypes, index slots -/
structure Grows (s s' : St) : Prop where
  tables : s'.w.tables.length ≤ s.w.tables.length + 1 + s.w.relationArchetypes.length
  relArchs : s'.w.relationArchetypes.length ≤ s.w.relationArchetypes.length + 1
  entities : s'.w.entities.length ≤ s.w.entities.length + 1

theorem Grows.refl (s : St) : Grows s s := ⟨by omega, Nat.le_succ _, Nat.le_succ _⟩

theorem Grows.of_sameButCF {s : St} {w' : World} (h : SameButCF s.w w') :
    Grows s ⟨w', s.issued, s.ss⟩ := by
  obtain ⟨h1, h2, _, _, _, _, _, h8⟩ := sameButCF_fields h
  exact ⟨by show w'.tables.length ≤ _; rw [h1]; omega,
    by show w'.relationArchetypes.length ≤ _; rw [h8]; exact Nat.le_succ _,
    by show w'.entities.length ≤ _; rw [h2]; exact Nat.le_succ _⟩

/-! ## 2. the steps of the relation machine and the filter operations -/

theorem step2_base (run : ProbeRunner) {s : St} {fl : List Nat} (H : HInv2 s fl)
    (hfew : s.w.tables.length + s.w.relationArchetypes.length + 1 ≤ maxU32)
    (hent : 2 * s.w.entities.length < 2 ^ 32) (op : RelRefine.Op) :
    (∃ fl', HInv2 (step2 run s (.base op)) fl') ∧ Grows s (step2 run s (.base op)) := by
  have G := step_goal run H.base hfew hent op
  obtain ⟨⟨fl1, h1⟩, g1, g2, g3, _, _⟩ := id G
  exact ⟨⟨fl1, h1, finvR_step run H.base H.finv hfew hent op G⟩, g1, g2, g3⟩

/-- **`CopyEntity` as a step**: rejected without effect on a dead handle; otherwise the copy is
    realised by the world with the entry of the source (components, values, relation targets),
    and the filter-side invariant is kept (the copy sits in a table that is cached already) -/
theorem step2_copy (run : ProbeRunner) {s : St} {fl : List Nat} (H : HInv2 s fl)
    (hent : 2 * s.w.entities.length < 2 ^ 32) (e : Ent) :
    (∃ fl', HInv2 (step2 run s (.copy e)) fl') ∧ Grows s (step2 run s (.copy e)) := by
  by_cases hi : e ∈ s.issued
  case neg =>
    simp only [step2, decide_eq_true_eq, if_neg hi]
    exact ⟨⟨fl, H⟩, Grows.refl s⟩
  simp only [step2, decide_eq_true_eq, if_pos hi]
  cases ha : s.w.alive e with
  | false =>
    rw [opCopyEntity_dead run s.w H.base.unlocked e ha]
    exact ⟨⟨fl, H⟩, Grows.refl s⟩
  | true =>
    obtain ⟨en, hf, hm⟩ := H.base.find_of_alive hi ha
    obtain ⟨_, _, h2, hnf, _, _⟩ := H.base.live_facts hm
    obtain ⟨w', hop, post⟩ := opCopyEntity_rel_spec run H.base.tinv H.base.unlocked H.base.noObs h2
      hnf ha (H.base.issued_in hi) (by omega)
    rw [hop]
    simp only [hf]
    have ok := H.base.ok e en hm
    refine ⟨⟨fl.tail, ?_, H.finv.kept ⟨post.qkeep, post.ckeep, post.locks,
      isRelComp_of_kinds post.kinds⟩⟩, ?_⟩
    · refine H.base.created post.tinv post.pool post.locks post.obs post.kinds post.maxComps
        post.frame ?_ (H.base.tgtsOK e en hm)
      exact
        { nodup := ok.nodup
          reg := ok.reg
          comps := by rw [post.comps]; exact ok.comps
          vals := fun cv hcv => by rw [post.vals]; exact ok.vals cv hcv
          relNodup := ok.relNodup
          relKeys := ok.relKeys
          tgts := fun r hr => by rw [post.targets]; exact ok.tgts r hr }
    · exact ⟨by show w'.tables.length ≤ _; rw [post.tablesLen]; omega,
        by show w'.relationArchetypes.length ≤ _; rw [post.relArchs]; exact Nat.le_succ _,
        post.entitiesLen⟩

/-- a step that changes only cache and heap -/
theorem step2_cf {s : St} {fl : List Nat} (H : HInv2 s fl) {w' : World} (hf : FInvR w')
    (hs : SameButCF s.w w') (hc : CacheRelsOK w') :
    (∃ fl', HInv2 ⟨w', s.issued, s.ss⟩ fl') ∧ Grows s ⟨w', s.issued, s.ss⟩ :=
  ⟨⟨fl, H.base.sameButCF hs hc, hf⟩, Grows.of_sameButCF hs⟩

theorem step2_fdef (run : ProbeRunner) {s : St} {fl : List Nat} (H : HInv2 s fl) (f : Nat)
    (fo : FilterObj) :
    (∃ fl', HInv2 (step2 run s (.fdef f fo)) fl') ∧ Grows s (step2 run s (.fdef f fo)) := by
  by_cases hg : guardF s.w fo = true
  · simp only [step2, if_pos hg]
    obtain ⟨hs, hcache⟩ := defFilter_sameButCF f fo s.w
    refine step2_cf H (H.finv.defFilter f fo hg) hs ?_
    intro e he
    rw [hcache] at he
    exact H.base.tinv.rel.aux.cacheRels e he
  · simp only [step2, if_neg hg]
    exact ⟨⟨fl, H⟩, Grows.refl s⟩

theorem step2_freg (run : ProbeRunner) {s : St} {fl : List Nat} (H : HInv2 s fl) (f : Nat) :
    (∃ fl', HInv2 (step2 run s (.freg f)) fl') ∧ Grows s (step2 run s (.freg f)) := by
  obtain ⟨hf, hs, hc⟩ := H.finv.filterRegister H.base.tinv f
  exact step2_cf H hf hs hc

theorem step2_funreg (run : ProbeRunner) {s : St} {fl : List Nat} (H : HInv2 s fl) (f : Nat) :
    (∃ fl', HInv2 (step2 run s (.funreg f)) fl') ∧ Grows s (step2 run s (.funreg f)) := by
  obtain ⟨hf, hs, hc⟩ := H.finv.filterUnregister H.base.tinv f
  exact step2_cf H hf hs hc

/-! ## 3. queries -/

/-- the invariant of the entity machine does not read the lock's bit pool -/
theorem _root_.Ark.RelRefine.HInv.withLocks {s : St} {fl : List Nat} (H : HInv s fl) (l : Lock)
    (hl : l.isLocked = false) : HInv ⟨s.w.withLocks l, s.issued, s.ss⟩ fl where
  tinv := H.tinv.withLocks l
  ginv := H.ginv
  unlocked := hl
  noObs := H.noObs
  nodup := H.nodup
  zstEq := H.zstEq
  relEq := H.relEq
  maxc := H.maxc
  ok := fun e en hm =>
    (H.ok e en hm).frame ⟨fun c => valOf_congr rfl rfl _ c, compsOf_congr rfl rfl _⟩ (fun _ => rfl)
  tgtsOK := H.tgtsOK

/-- the side conditions of `Query(extra…)` on the filter object `fo`: a typed filter accepts the
    per-call relations (`preCheckTyped`), an `UnsafeFilter` is given relation components its mask
    requires -/
def ExtraAdmissible (w : World) (fo : FilterObj) (extra : List RelID) : Prop :=
  (fo.typed = true → ExtraOK w fo.filter.mask extra) ∧
  (fo.typed = false → RelsTyped w fo.filter extra)

theorem ExtraAdmissible.relsTyped {w : World} {fo : FilterObj} {extra : List RelID}
    (h : ExtraAdmissible w fo extra) : RelsTyped w fo.filter extra := by
  cases ht : fo.typed with
  | true => exact (h.1 ht).relsTyped
  | false => exact h.2 ht

/-- what the filter-side invariant says about a filter object of the heap and one lock cycle:
    both the uncached and the cached iteration are exact -/
theorem HInv2.drain_both {s : St} {fl : List Nat} (H : HInv2 s fl) {fo : FilterObj}
    (hrt : RelsTyped s.w fo.filter fo.rels) (hfok : fo.typed = true → FilterOK fo)
    {extra : List RelID} (hx : ExtraAdmissible s.w fo extra)
    {l1 l2 : Lock} {b : Nat} (hL : LockCycle s.w.locks l1 b l2) :
    (fo.cache = none → ∃ (q : QueryObj) (visits : List Visit),
      RelQueryExactOn s.w fl fo extra (s.w.withLocks l1) q visits (s.w.withLocks l2)) ∧
    (∀ (id : Nat) (ce : CacheEntry), fo.cache = some id → s.w.cacheEntry? id = some ce →
      ce.filter = fo.filter → ce.rels = fo.rels → ∃ (q : QueryObj) (visits : List Visit),
      RelQueryExactOn s.w fl fo extra (s.w.withLocks l1) q visits (s.w.withLocks l2)) := by
  have hr : RelsTyped s.w fo.filter (fo.rels ++ extra) := hrt.append hx.relsTyped
  constructor
  · intro hc
    cases ht : fo.typed with
    | true => exact drain_rel H.base.tinv H.finv.cidx fo extra hc (hfok ht) hx.1 hr hL
    | false => exact drain_rel_untyped H.base.tinv fo extra hc (Or.inl ht) hx.1 hr hL
  · intro id ce hc he hf hrl
    exact drain_rel_cached H.base.tinv H.finv.cache fo extra hc he hf hrl hx.1 hr hL

/-- **a complete query iteration keeps the invariant** (and changes nothing but the lock's bit
    pool); a query a typed filter rejects changes nothing at all -/
theorem step2_query (run : ProbeRunner) {s : St} {fl : List Nat} (H : HInv2 s fl) (f : Nat)
    (extra : List RelID) :
    (∃ fl', HInv2 (step2 run s (.query f extra)) fl') ∧ Grows s (step2 run s (.query f extra)) := by
  by_cases hg : guardQ s.w (foAt s.w f) extra = true
  case neg =>
    simp only [step2, if_neg hg]
    exact ⟨⟨fl, H⟩, Grows.refl s⟩
  simp only [step2, if_pos hg]
  obtain ⟨hrt, hfok⟩ := foAt_facts H.finv.heap f
  by_cases hx : ExtraAdmissible s.w (foAt s.w f) extra
  case neg =>
    -- a typed filter rejecting the per-call relations
    have ht : (foAt s.w f).typed = true := by
      cases htt : (foAt s.w f).typed with
      | true => rfl
      | false =>
        exfalso
        apply hx
        refine ⟨fun h => (by rw [htt] at h; cases h), fun _ r hr => ?_⟩
        simp only [guardQ, htt, Bool.false_or, List.all_eq_true, Bool.and_eq_true] at hg
        exact hg r hr
    have hbad : ¬ ExtraOK s.w (foAt s.w f).filter.mask extra :=
      fun h => hx ⟨fun _ => h, fun h' => by rw [ht] at h'; cases h'⟩
    obtain ⟨k, _, hd⟩ := drain_rejected (foAt s.w f) extra s.w ht hbad
    rw [hd]
    exact ⟨⟨fl, H⟩, Grows.refl s⟩
  obtain ⟨l1, l2, b, hL, g2⟩ := H.qgood.lockCycle
  obtain ⟨d1, d2⟩ := H.drain_both hrt hfok hx hL
  have hdr : ∃ (visits : List Visit),
      drain (foAt s.w f) extra s.w = .ok visits (s.w.withLocks l2) := by
    cases hc : (foAt s.w f).cache with
    | none =>
      obtain ⟨q, visits, Q⟩ := d1 hc
      exact ⟨visits, Q.drained⟩
    | some id =>
      cases hfind : AL.find? s.w.filters f with
      | none => simp only [foAt, hfind] at hc; cases hc
      | some fo =>
        have hfo : foAt s.w f = fo := by simp only [foAt, hfind]; rfl
        obtain ⟨e, he, h1, h2, h3⟩ := H.finv.heap.reg f fo id hfind (by rw [← hfo]; exact hc)
        have hlook := lookup_of_mem H.finv.cache he
        rw [h1] at hlook
        obtain ⟨q, visits, Q⟩ := d2 id e hc hlook (by rw [hfo]; exact h2) (by rw [hfo]; exact h3)
        exact ⟨visits, Q.drained⟩
  obtain ⟨visits, hd⟩ := hdr
  rw [hd]
  have hul : l2.isLocked = false := by
    obtain ⟨_, _, h3, _⟩ := g2.good
    exact h3
  refine ⟨⟨fl, H.base.withLocks l2 hul, ?_⟩, ⟨by show s.w.tables.length ≤ _; omega,
    Nat.le_succ _, Nat.le_succ _⟩⟩
  exact
    { cache := ⟨H.finv.cache.uniq, H.finv.cache.index, fun e hm => ⟨(H.finv.cache.entries e hm).1,
        fun t => ((H.finv.cache.entries e hm).2 t).trans
          (Selected_congr (w := s.w) (w' := s.w.withLocks l2) rfl rfl e.filter e.rels t).symm⟩⟩
      heap := ⟨H.finv.heap.reg, H.finv.heap.inj, H.finv.heap.typed, H.finv.heap.rels⟩
      cidx := g2.cidx
      rows := g2.rows
      lock := g2.lock
      pool := ⟨H.finv.pool.avail, H.finv.pool.bound⟩ }

/-! ## 4. the headline, at a state satisfying the invariant -/

/-- **C05 with relations, at a state of the machine.**  For a filter object `fo` of the heap that
    is registered under `id` (fixed relations allowed) and any admissible per-call relations
    `extra`:
    * the cache entry `ce` is found under `id`, made for `fo`'s filter and fixed relations; its
      table list is duplicate-free and has exactly the members of the uncached walk
      `getCacheTables` (which succeeds);
    * the iteration through the cache and the iteration of the same filter object unregistered
      both succeed, leave the same world (the world before up to the lock's bit pool), are exact
      (`Observed`: the alive entities matching filter, fixed and per-call relations, each once,
      with their own data and targets), and visit the same entities. -/
theorem HInv2.cached_agrees {s : St} {fl : List Nat} (H : HInv2 s fl) {f : Nat} {fo : FilterObj}
    {id : Nat} (hfind : AL.find? s.w.filters f = some fo) (hc : fo.cache = some id)
    {extra : List RelID} (hx : ExtraAdmissible s.w fo extra) :
    ∃ (ce : CacheEntry), s.w.cacheEntry? id = some ce ∧ ce.filter = fo.filter ∧
      ce.rels = fo.rels ∧
      (∃ (ts : List Nat), s.w.getCacheTables fo.filter fo.rels = some ts ∧ ts.Nodup ∧
        ce.tables.tables.Nodup ∧ ∀ (t : Nat), t ∈ ce.tables.tables ↔ t ∈ ts) ∧
      ∃ (l1 l2 : Lock) (q qu : QueryObj) (visits visitsU : List Visit),
        drain fo extra s.w = .ok visits (s.w.withLocks l2) ∧
        drain { fo with cache := none } extra s.w = .ok visitsU (s.w.withLocks l2) ∧
        Observed s.w fo extra (s.w.withLocks l1) q visits ∧
        Observed s.w { fo with cache := none } extra (s.w.withLocks l1) qu visitsU ∧
        (visits.map (·.e)).Perm (visitsU.map (·.e)) := by
  obtain ⟨ce, he, h1, h2, h3⟩ := H.finv.heap.reg f fo id hfind hc
  have hlook := lookup_of_mem H.finv.cache he
  rw [h1] at hlook
  have hrt := H.finv.heap.rels f fo hfind
  have hfok := H.finv.heap.typed f fo hfind
  have hok : RelsOK s.w ce.filter ce.rels := by
    rw [h2, h3]; exact relsOK_of_typed H.base.tinv.rel.sinv.toSInvMid hrt
  obtain ⟨_, hnd, ts, hts, hnd', hiff⟩ := H.finv.cache.cached_eq_uncached H.tablesInv hlook hok
  rw [h2, h3] at hts
  refine ⟨ce, hlook, h2, h3, ⟨ts, hts, hnd', hnd, hiff⟩, ?_⟩
  obtain ⟨l1, l2, b, hL, _⟩ := H.qgood.lockCycle
  obtain ⟨_, d2⟩ := H.drain_both hrt hfok hx hL
  obtain ⟨q, visits, Q⟩ := d2 id ce hc hlook h2 h3
  -- the same filter object, unregistered
  have hxU : ExtraAdmissible s.w { fo with cache := none } extra := hx
  obtain ⟨d1, _⟩ := H.drain_both (fo := { fo with cache := none }) hrt hfok hxU hL
  obtain ⟨qu, visitsU, QU⟩ := d1 rfl
  have ob := Observed.of_exact H.base.tinv H.finv.rows Q
  have obU := Observed.of_exact H.base.tinv H.finv.rows QU
  refine ⟨l1, l2, q, qu, visits, visitsU, Q.drained, QU.drained, ob, obU, ?_⟩
  apply (List.perm_ext_iff_of_nodup ob.nodup obU.nodup).2
  intro e
  rw [ob.exact e, obU.exact e]

end RelRefine2
end Ark
