/-
  Ark.Proofs.BatchRelReach — C06 + C04 with relations, part 9: over histories.

  * `QGood.setRelationsBatch` — a valid `setRelationsBatch` never panics on a `QGood` world and
    leaves a `QGood` world;
  * `ReachB run w` — the world `w` is reached from `NewWorld` by accepted calls of the operations
    of `QueryRel.Reach` (`registerComponent`, `NewEntity(ids…, rels…)`, `RemoveEntity`,
    `SetRelations`, `Add(ids…, rels…)`, complete iterations of queries with relation targets) AND
    by the two batches: `RemoveEntities(batch, nil)` (relation targets among the removed allowed)
    and `setRelationsBatch`; `ReachB.ofReach`;
  * `reachB_qgood` — every such world is `QGood` and has no registered filter; hence, after every
    history, `reachB_removeEntities` (batch removal = single removals in any order),
    `reachB_setRelationsBatch` (batch assignment = single assignments in any order) and
    `reachB_query` (a query visits exactly the alive matching entities).
  Kernel-only proofs, core Lean only.
-/
import Ark.Proofs.BatchRelSetSpec
import Ark.Proofs.QueryRelReach

set_option autoImplicit false

namespace Ark

open World Ark.Props.C01World QueryRel Drain QueryExact

/-- **a valid `setRelationsBatch` keeps `QGood`** (uncached filter, typed relation constraints,
    a non-empty assignment naming no component twice, only relation components the filter
    requires and only zero or alive targets): it never panics -/
theorem QueryRel.QGood.setRelationsBatch (run : ProbeRunner) {w : World} (q : QGood w)
    (fo : FilterObj) (extra : List RelID) (hc : fo.cache = none)
    (hr : RelsTyped w fo.filter (fo.rels ++ extra)) {rels : List RelID}
    (hne : rels.isEmpty = false) (hnd : (rels.map (·.comp)).Nodup)
    (hrt : RelsTyped w fo.filter rels)
    (hval : ∀ (r : RelID), r ∈ rels → r.target.isZero = true ∨ w.alive r.target = true)
    (htin : ∀ (r : RelID), r ∈ rels → r.target.id < w.pool.ents.length)
    (hfew : 2 * w.tables.length ≤ maxU32) (hrows : 2 * w.entities.length < 2 ^ 32) :
    panicOf (World.setRelationsBatch run fo extra rels false w) = none ∧
    QGood (World.setRelationsBatch run fo extra rels false w).state ∧
    (CacheEmpty w → CacheEmpty (World.setRelationsBatch run fo extra rels false w).state) := by
  obtain ⟨fl, h, hl, hno⟩ := q.good
  obtain ⟨lf, hlinv⟩ := q.lock
  obtain ⟨l1, b, l2, lf2, hcyc, heq, hl2inv⟩ := LockCycle.of_linv hlinv (by simp)
  have hl2 : l2.isLocked = false := by
    have : w.locks.isLocked = false := hl
    simp only [Lock.isLocked] at this ⊢
    rw [heq]; exact this
  obtain ⟨ts, w', _, hb, pb, hlk⟩ := setRelationsBatch_rel_spec run h hl hno fo extra hc hr hne hnd
    (fun t hlt hm _ => relCols_of_typed h.rel.sinv.toSInvMid hrt hlt hm.1) hval htin hcyc hl2 hfew hrows
  rw [hb]
  refine ⟨rfl, ⟨⟨fl, pb.tinv, by show w'.isLocked = false; rw [pb.unlocked]; exact hl,
    fun evt => by show w'.obs.hasObservers evt = false; rw [pb.obs]; exact hno evt⟩,
    pb.qk.cidx q.cidx, pb.qk.rows q.rows, lf2, by
      show Lock.LInv ⟨w'.locks, []⟩ lf2
      rw [hlk]; exact hl2inv⟩, pb.qk.cache⟩

namespace QueryRel

/-- **the worlds reached by histories** of the single operations with relation targets, queries,
    and the two batches -/
inductive ReachB (run : ProbeRunner) : World → Prop
  | init (cap rel : Nat) : ReachB run (World.init cap rel)
  | reg {w : World} (k : CompKind) : ReachB run w →
      panicOf (World.registerComponent k w) = none →
      ReachB run (World.registerComponent k w).state
  | new {w : World} (p : Path) (ids : List Comp) (vals : List (Comp × Val)) (rels : List RelID) :
      ReachB run w →
      (∀ (c : Comp), c ∈ ids → c < w.kinds.length) →
      (rels.map (·.comp)).Nodup → (∀ (r : RelID), r ∈ rels → r.comp ∈ ids) →
      (∀ (r : RelID), r ∈ rels → w.isRelComp r.comp = true) →
      (∀ (r : RelID), r ∈ rels → r.target.id < w.pool.ents.length) →
      w.tables.length < maxU32 → w.entities.length + 1 < 2 ^ 32 →
      panicOf (opNewEntity run p ids vals rels w) = none →
      ReachB run (opNewEntity run p ids vals rels w).state
  | del {w : World} (g : Ent) : ReachB run w →
      w.alive g = true → (w.index g.id).1 ≠ maxU32 → g.id < w.entities.length →
      w.tables.length + w.relationArchetypes.length + 1 ≤ maxU32 →
      2 * w.entities.length < 2 ^ 32 →
      ReachB run (opRemoveEntity run g w).state
  | setRel {w : World} (p : Path) (e : Ent) (mapperIds : List Comp) (rels : List RelID) :
      ReachB run w →
      w.alive e = true → (w.index e.id).1 ≠ maxU32 → e.id < w.entities.length →
      rels.isEmpty = false → (rels.map (·.comp)).Nodup →
      (∀ (r : RelID), r ∈ rels → (targetOf w e.id r.comp).isSome = true) →
      (∀ (r : RelID), r ∈ rels → r.target.id < w.pool.ents.length) →
      w.tables.length < maxU32 → w.entities.length + 1 < 2 ^ 32 →
      panicOf (opSetRelations run p e mapperIds rels w) = none →
      ReachB run (opSetRelations run p e mapperIds rels w).state
  | add {w : World} (p : Path) (e : Ent) (ids : List Comp) (vals : List (Comp × Val))
      (rels : List RelID) : ReachB run w →
      w.alive e = true → (w.index e.id).1 ≠ maxU32 → e.id < w.entities.length →
      (∀ (c : Comp), c ∈ ids → c < w.kinds.length) →
      (rels.map (·.comp)).Nodup → (∀ (r : RelID), r ∈ rels → r.comp ∈ ids) →
      (∀ (r : RelID), r ∈ rels → w.isRelComp r.comp = true) →
      (∀ (r : RelID), r ∈ rels → r.target.id < w.pool.ents.length) →
      w.tables.length < maxU32 → w.entities.length + 1 < 2 ^ 32 →
      panicOf (opAdd run p e ids vals rels w) = none →
      ReachB run (opAdd run p e ids vals rels w).state
  | query {w : World} (fo : FilterObj) (extra : List RelID) : ReachB run w →
      QueryOK w fo extra → ReachB run (drain fo extra w).state
  /-- `RemoveEntities(batch, nil)`: uncached filter, typed relation constraints -/
  | delBatch {w : World} (fo : FilterObj) (extra : List RelID) : ReachB run w →
      fo.cache = none → RelsTyped w fo.filter (fo.rels ++ extra) →
      w.tables.length + w.entities.length * w.relationArchetypes.length + 1 ≤ maxU32 →
      2 * w.entities.length < 2 ^ 32 →
      ReachB run (opRemoveEntities run fo extra false w).state
  /-- `setRelationsBatch`: a valid assignment to the selected entities -/
  | setRelBatch {w : World} (fo : FilterObj) (extra rels : List RelID) : ReachB run w →
      fo.cache = none → RelsTyped w fo.filter (fo.rels ++ extra) →
      rels.isEmpty = false → (rels.map (·.comp)).Nodup → RelsTyped w fo.filter rels →
      (∀ (r : RelID), r ∈ rels → r.target.isZero = true ∨ w.alive r.target = true) →
      (∀ (r : RelID), r ∈ rels → r.target.id < w.pool.ents.length) →
      2 * w.tables.length ≤ maxU32 → 2 * w.entities.length < 2 ^ 32 →
      ReachB run (World.setRelationsBatch run fo extra rels false w).state

/-- a history without batches is a history -/
theorem ReachB.ofReach {run : ProbeRunner} {w : World} (r : Reach run w) : ReachB run w := by
  induction r with
  | init cap rel => exact .init cap rel
  | reg k _ hnp ih => exact .reg k ih hnp
  | new p ids vals rels _ h1 h2 h3 h4 h5 h6 h7 h8 ih =>
    exact .new p ids vals rels ih h1 h2 h3 h4 h5 h6 h7 h8
  | del g _ h1 h2 h3 h4 h5 ih => exact .del g ih h1 h2 h3 h4 h5
  | setRel p e m rels _ h1 h2 h3 h4 h5 h6 h7 h8 h9 h10 ih =>
    exact .setRel p e m rels ih h1 h2 h3 h4 h5 h6 h7 h8 h9 h10
  | add p e ids vals rels _ h1 h2 h3 h4 h5 h6 h7 h8 h9 h10 h11 ih =>
    exact .add p e ids vals rels ih h1 h2 h3 h4 h5 h6 h7 h8 h9 h10 h11
  | query fo extra _ hq ih => exact .query fo extra ih hq

/-- **every reached world is `QGood` and has no registered filter** -/
theorem reachB_qgood (run : ProbeRunner) {w : World} (r : ReachB run w) : QGood w ∧ CacheEmpty w := by
  induction r with
  | init cap rel => exact ⟨qgood_init cap rel, rfl, rfl⟩
  | @reg w k _ hnp ih =>
    obtain ⟨g, he⟩ := ih
    refine ⟨g.registerComponent k hnp, ?_⟩
    obtain ⟨n, hr⟩ := ok_of_panicOf hnp
    obtain ⟨fl, ht, _, _⟩ := g.good
    exact (registerComponent_qkeep ht hr).cache he
  | @new w p ids vals rels _ hreg hnd hin hrc htin hfew hrows hnp ih =>
    obtain ⟨g, he⟩ := ih
    refine ⟨g.newEntity run p hreg hnd hin hrc htin hfew hrows hnp, ?_⟩
    obtain ⟨e, hok⟩ := ok_of_panicOf hnp
    obtain ⟨fl, ht, hl, hno⟩ := g.good
    exact (opNewEntity_qkeep run p ht hl hno hreg hnd hin hfew hrows hok).1.cache he
  | @del w e _ ha hidx hlt hfew hrows ih =>
    obtain ⟨g, he⟩ := ih
    refine ⟨(g.removeEntity run ha hidx hlt hfew hrows).2, ?_⟩
    obtain ⟨fl, ht, hl, hno⟩ := g.good
    obtain ⟨h2, hnf⟩ := live_of_indexed ht hidx hlt
    obtain ⟨w3, hst, q3, _⟩ := opRemoveEntity_qkeep run ht hl hno h2 hnf ha
      (by rw [← ht.link.lenEq]; exact hlt) hfew hrows
    rw [hst]; exact q3.cache he
  | @setRel w p e mids rels _ ha hidx hlt hne hnd hhas htin hfew hrows hnp ih =>
    obtain ⟨g, he⟩ := ih
    refine ⟨g.setRelations run p ha hidx hlt hne hnd hhas htin hfew hrows hnp, ?_⟩
    obtain ⟨u, hok⟩ := ok_of_panicOf hnp
    obtain ⟨fl, ht, hl, hno⟩ := g.good
    obtain ⟨h2, hnf⟩ := live_of_indexed ht hidx hlt
    exact (opSetRelations_qkeep run p ht hl hno h2 hnf ha
      (by rw [← ht.link.lenEq]; exact hlt) hne hnd hhas hrows hok).cache he
  | @add w p e ids vals rels _ ha hidx hlt hreg hnd hin hrc htin hfew hrows hnp ih =>
    obtain ⟨g, he⟩ := ih
    refine ⟨g.add run p ha hidx hlt hreg hnd hin hrc htin hfew hrows hnp, ?_⟩
    obtain ⟨u, hok⟩ := ok_of_panicOf hnp
    obtain ⟨fl, ht, hl, hno⟩ := g.good
    obtain ⟨h2, hnf⟩ := live_of_indexed ht hidx hlt
    exact (opAdd_qkeep run p ht hl hno h2 hnf ha
      (by rw [← ht.link.lenEq]; exact hlt) hreg hnd hin hrows hok).cache he
  | @query w fo extra _ hq ih =>
    obtain ⟨g, he⟩ := ih
    obtain ⟨l1, l2, q, visits, hd, g2, _⟩ :=
      g.query fo extra hq.uncached hq.filterOK hq.extraOK hq.relsTyped
    rw [hd]
    exact ⟨g2, he⟩
  | @delBatch w fo extra _ hc hr hfew hrows ih =>
    obtain ⟨g, he⟩ := ih
    obtain ⟨_, g', hce⟩ := g.removeEntities run fo extra hc hr hfew hrows
    exact ⟨g', hce he⟩
  | @setRelBatch w fo extra rels _ hc hr hne hnd hrt hval htin hfew hrows ih =>
    obtain ⟨g, he⟩ := ih
    obtain ⟨_, g', hce⟩ := g.setRelationsBatch run fo extra hc hr hne hnd hrt hval htin hfew hrows
    exact ⟨g', hce he⟩

/-- **C06 + C04 over histories, removal**: after every history (batches included), a batch
    removal with an uncached filter and typed relation constraints never fails, selects exactly
    the alive entities that match, and leaves the same liveness, components, values and relation
    targets as `RemoveEntity` applied to the selected entities one by one in ANY order. -/
theorem reachB_removeEntities (run : ProbeRunner) {w : World} (r : ReachB run w) (fo : FilterObj)
    (extra : List RelID) (hc : fo.cache = none) (hr : RelsTyped w fo.filter (fo.rels ++ extra))
    (hrows : 2 * w.entities.length < 2 ^ 32) :
    ∃ (fl : List Nat) (ts : List Nat), getBatchTables fo extra w = .ok ts w ∧
      (∀ (e : Ent), e ∈ ts.flatMap (World.rowsOf w) ↔
        w.alive e = true ∧ EntMatches w fo.filter (fo.rels ++ extra) e.id) ∧
      ∀ (es' : List Ent), es'.Perm (ts.flatMap (World.rowsOf w)) →
        w.tables.length + es'.length * w.relationArchetypes.length + 1 ≤ maxU32 →
        ∃ (w' w'' : World), opRemoveEntities run fo extra false w = .ok () w' ∧
          removeSeq run es' w = .ok () w'' ∧
          RemovedAllRelPost w fl (ts.flatMap (World.rowsOf w)) w' ∧ RemovedAllRelPost w fl es' w'' ∧
          (∀ (x : Ent), w'.alive x = w''.alive x) ∧
          (∀ (i : Nat) (c : Comp), valOf w' i c = valOf w'' i c) ∧
          (∀ (i : Nat), compsOf w' i = compsOf w'' i) ∧
          (∀ (i : Nat) (c : Comp), targetOf w' i c = targetOf w'' i c) ∧
          w'.isLocked = w''.isLocked := by
  obtain ⟨g, _⟩ := reachB_qgood run r
  obtain ⟨fl, h, hl, hno⟩ := g.good
  obtain ⟨ts, hts, hall⟩ := opRemoveEntities_rel_any_order run h g.rows hl hno fo extra hc hr hrows
  obtain ⟨ts2, hts2, _, hok, _⟩ := getBatchTables_rel h fo extra hc hr
  rw [hts] at hts2
  injection hts2 with e1 _
  subst e1
  exact ⟨fl, ts, hts, mem_rows_iff_matches h g.rows hok, hall⟩

/-- **C06 + C04 over histories, assignment**: after every history, a valid `setRelationsBatch`
    never fails and leaves the same liveness, components, values and relation targets as
    `setRelations` applied to the selected entities one by one in ANY order. -/
theorem reachB_setRelationsBatch (run : ProbeRunner) {w : World} (r : ReachB run w) (fo : FilterObj)
    (extra : List RelID) (hc : fo.cache = none) (hr : RelsTyped w fo.filter (fo.rels ++ extra))
    {rels : List RelID} (hne : rels.isEmpty = false) (hnd : (rels.map (·.comp)).Nodup)
    (hrt : RelsTyped w fo.filter rels)
    (hval : ∀ (r : RelID), r ∈ rels → r.target.isZero = true ∨ w.alive r.target = true)
    (htin : ∀ (r : RelID), r ∈ rels → r.target.id < w.pool.ents.length)
    (hfew : 2 * w.tables.length ≤ maxU32) (hrows : 2 * w.entities.length < 2 ^ 32) :
    ∃ (fl : List Nat) (ts : List Nat) (w' : World), getBatchTables fo extra w = .ok ts w ∧
      (∀ (e : Ent), e ∈ ts.flatMap (World.rowsOf w) ↔
        w.alive e = true ∧ EntMatches w fo.filter (fo.rels ++ extra) e.id) ∧
      World.setRelationsBatch run fo extra rels false w = .ok () w' ∧
      SetRelAllPost w fl (ts.flatMap (World.rowsOf w)) rels w' ∧
      ∀ (es' : List Ent), es'.Perm (ts.flatMap (World.rowsOf w)) →
        w.tables.length + es'.length < maxU32 →
        ∃ (w'' : World), setRelSeq run es' rels w = .ok () w'' ∧ SetRelAllPost w fl es' rels w'' ∧
          (∀ (x : Ent), w'.alive x = w''.alive x) ∧
          (∀ (i : Nat) (c : Comp), valOf w' i c = valOf w'' i c) ∧
          (∀ (i : Nat), compsOf w' i = compsOf w'' i) ∧
          (∀ (i : Nat) (c : Comp), targetOf w' i c = targetOf w'' i c) ∧
          w'.isLocked = w''.isLocked := by
  obtain ⟨g, _⟩ := reachB_qgood run r
  obtain ⟨fl, h, hl, hno⟩ := g.good
  obtain ⟨lf, hlinv⟩ := g.lock
  obtain ⟨l1, b, l2, lf2, hcyc, heq, _⟩ := LockCycle.of_linv hlinv (by simp)
  have hl2 : l2.isLocked = false := by
    have : w.locks.isLocked = false := hl
    simp only [Lock.isLocked] at this ⊢
    rw [heq]; exact this
  obtain ⟨ts, w', h1, h2, h3, h4, h5⟩ := setRelationsBatch_eq_singles run h g.rows hl hno fo extra hc
    hr hne hnd (fun t hlt hm _ => relCols_of_typed h.rel.sinv.toSInvMid hrt hlt hm.1) hval htin hcyc hl2
    hfew hrows
  exact ⟨fl, ts, w', h1, h2, h3, h4, h5⟩

/-- **C03 after batches**: after every history (batches included) a query with an unregistered
    filter visits exactly the alive entities that match its filter and its relation targets -/
theorem reachB_query (run : ProbeRunner) {w : World} (r : ReachB run w) (fo : FilterObj)
    (extra : List RelID) (hq : QueryOK w fo extra) :
    ∃ (l1 l2 : Lock) (q : QueryObj) (visits : List Visit),
      drain fo extra w = .ok visits (w.withLocks l2) ∧
      Observed w fo extra (w.withLocks l1) q visits := by
  obtain ⟨l1, l2, q, visits, hd, _, ob⟩ := (reachB_qgood run r).1.query fo extra hq.uncached
    hq.filterOK hq.extraOK hq.relsTyped
  exact ⟨l1, l2, q, visits, hd, ob⟩

end QueryRel

end Ark
