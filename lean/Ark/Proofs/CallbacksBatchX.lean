/-
  Ark.Proofs.CallbacksBatchX — C08/C09 at world level, part 7: `exchangeBatch` (the add / remove /
  exchange batches, no callback function, no relations) with observers.

  `exchangeBatch_obs_eq`: after the table selection and the lookup loop — which run BEFORE the lock
  is taken since the repair of defect D27, and neither read nor write it — and under the lock (`w1`),
  ALL removal callbacks run (table by table, row by row, with the masks before and after the
  exchange of that table) — before any table is moved; then all tables are moved; then ALL
  addition callbacks run — after every entity has been moved; then the lock is released.

  Kernel-only proofs, core Lean only.
-/
import Ark.Proofs.CallbacksBatch
import Ark.Proofs.BatchExchange

set_option autoImplicit false

namespace Ark

open World Spec Ark.Props.C01World QueryExact

namespace World

theorem foldl_exIdxStep_reframe (O : Table) (newT start : Nat) (o : ObsMgr) (lg : List LogEv)
    (lk : Lock) : ∀ (l : List Nat) (w : World),
      l.foldl (exIdxStep O newT start) (w.reframe o lg lk)
        = (l.foldl (exIdxStep O newT start) w).reframe o lg lk
  | [], _ => rfl
  | i :: l, w => by
    simp only [List.foldl_cons]
    exact foldl_exIdxStep_reframe O newT start o lg lk l (exIdxStep O newT start w i)

theorem exchangeTableW_reframe (w : World) (oldT newT : Nat) (o : ObsMgr) (lg : List LogEv)
    (lk : Lock) :
    exchangeTableW (w.reframe o lg lk) oldT newT = (exchangeTableW w oldT newT).reframe o lg lk := by
  unfold exchangeTableW
  simp only []
  have h1 : ∀ t, (w.reframe o lg lk).tbl t = w.tbl t := fun _ => rfl
  have h2 : ∀ a, (w.reframe o lg lk).arch a = w.arch a := fun _ => rfl
  rw [h1, h1, h2, foldl_exIdxStep_reframe]
  rfl

theorem moveStep_none_reframe (w : World) (b : BatchTable) (o : ObsMgr) (lg : List LogEv)
    (lk : Lock) : moveStep none (w.reframe o lg lk) b = (moveStep none w b).reframe o lg lk :=
  exchangeTableW_reframe w b.oldT b.newT o lg lk

theorem foldl_moveStep_none_reframe (o : ObsMgr) (lg : List LogEv) (lk : Lock) :
    ∀ (bts : List BatchTable) (w : World),
      bts.foldl (moveStep none) (w.reframe o lg lk) = (bts.foldl (moveStep none) w).reframe o lg lk
  | [], _ => rfl
  | b :: bts, w => by
    simp only [List.foldl_cons, moveStep_none_reframe]
    exact foldl_moveStep_none_reframe o lg lk bts _

/-- the moved tables as the second loop of `exchangeBatch` records them -/
def movedList : List BatchTable → World → List BatchTable
  | [], _ => []
  | b :: bs, w =>
    { oldT := b.oldT, newT := b.newT, start := (w.tbl b.newT).len, len := (w.tbl b.oldT).len } ::
      movedList bs (moveStep none w b)

theorem loop2_none_list : ∀ (bts : List BatchTable) (s : List BatchTable) (w : World),
    (forIn bts s (fun (b : BatchTable) (__s : List BatchTable) => (do
      let __x ← exchangeTable b.oldT b.newT []
      pure (ForInStep.yield
        (__s ++ [{ oldT := b.oldT, newT := b.newT, start := __x.fst, len := __x.snd }]))
      : W (ForInStep (List BatchTable)))) : W (List BatchTable)) w =
      .ok (s ++ movedList bts w) (bts.foldl (moveStep none) w)
  | [], s, w => by simp [movedList]
  | b :: bts, s, w => by
    rw [List.forIn_cons, M.bind_apply, M.bind_apply, exchangeTable_eq]
    simp only [M.pure_apply]
    rw [loop2_none_list bts _ (exchangeTableW w b.oldT b.newT)]
    simp only [movedList, List.foldl_cons, moveStep, List.append_assoc, List.singleton_append]

theorem movedList_reframe (o : ObsMgr) (lg : List LogEv) (lk : Lock) :
    ∀ (bts : List BatchTable) (w : World), movedList bts (w.reframe o lg lk) = movedList bts w
  | [], _ => rfl
  | b :: bts, w => by
    simp only [movedList, moveStep_none_reframe]
    rw [movedList_reframe o lg lk bts]
    rfl

end World

/-- the records of the removal callbacks of one table of an exchange batch -/
def xRemLog (rec : World → Nat → Ent → Probe → List LogEv) (m : ObsMgr) (b : BatchTable)
    (X : World) : List LogEv :=
  rowsLog rec
    (firing m Ev.onRemoveComponents
      (.remove (X.arch (X.tbl b.oldT).arch).mask (X.arch (X.tbl b.newT).arch).mask))
    ((List.range b.len).map (X.tbl b.oldT).getEntity) X

/-- the records of the addition callbacks of one (moved) table of an exchange batch -/
def xAddLog (rec : World → Nat → Ent → Probe → List LogEv) (m : ObsMgr) (b : BatchTable)
    (X : World) : List LogEv :=
  rowsLog rec
    (firing m Ev.onAddComponents
      (.add (X.arch (X.tbl b.oldT).arch).mask (X.arch (X.tbl b.newT).arch).mask))
    ((List.range b.len).map fun i => (X.tbl b.newT).getEntity (b.start + i)) X

section

variable {run : ProbeRunner} {S : Probe → Prop} {rec : World → Nat → Ent → Probe → List LogEv}

set_option linter.unusedSimpArgs false in
/-- **`exchangeBatch` with observers** (equation; no callback function, no relations, no relation
    removed).  `w1` is the locked world after the table selection, the lookup loop (`findLoop`;
    it creates the destination archetypes and tables) and `Lock` — selection and lookup loop run
    before `Lock` and do not touch the lock, so `w1` is also the result of the lookup loop started
    in the world with the lock `l1` taken, which is how the hypothesis `hfind` is stated.  ALL removal callbacks run on `w1` (only
    the log grows); then all tables are moved (`moveStep`); then ALL addition callbacks run on
    the world with every table moved; then the lock is released. -/
theorem exchangeBatch_obs_eq (hro : ReadOnly run S rec) (fo : FilterObj) (extra : List RelID)
    (add rem : List Comp) (w : World) (hs : ScriptsIn w.obs S) (hok : ObsOK w.obs)
    (hl : w.isLocked = false) (hne : (add.isEmpty && rem.isEmpty) = false)
    {l1 l2 : Lock} {b : Nat} (hL : LockCycle w.locks l1 b l2) {ts : List Nat}
    (hts : getBatchTables fo extra w = .ok ts w) {bts : List BatchTable} {w1 : World}
    (hfind : findLoop add rem ts (false, []) (w.withLocks l1) = .ok (false, bts) w1) :
    exchangeBatch run fo extra add rem [] none w = .ok ()
      ((bts.foldl (moveStep none) w1).reframe w.obs
        ((if add.isEmpty then [] else
            seqLog (xAddLog rec w.obs) (movedList bts w1)
              ((bts.foldl (moveStep none) w1).addLog
                (if rem.isEmpty then [] else seqLog (xRemLog rec w.obs) bts w1))) ++
          ((if rem.isEmpty then [] else seqLog (xRemLog rec w.obs) bts w1) ++ w.log))
        l2) := by
  obtain ⟨hobs, hlog, hlocks⟩ : w1.obs = w.obs ∧ w1.log = w.log ∧ w1.locks = l1 := by
    have := (frames_findLoop add rem ts (false, [])).state_frame (w.withLocks l1)
    rw [hfind] at this; exact this
  have htsL : getBatchTables fo extra (w.withLocks l1) = .ok ts (w.withLocks l1) := by
    have := frames_getBatchTables fo extra w w.obs w.log l1
    rw [hts] at this
    exact this
  -- the removal loop
  have hRem : ∀ (X : World), X.obs = w.obs →
      (forIn bts PUnit.unit (fun b (_ : PUnit) => (do
          let w ← M.get
          fireRows
            (fun e eo => fireRemove run Ev.onRemoveComponents e (w.arch (w.tbl b.oldT).arch).mask
              (w.arch (w.tbl b.newT).arch).mask eo)
            (List.map (w.tbl b.oldT).getEntity (List.range b.len))
          pure (ForInStep.yield PUnit.unit) : W (ForInStep PUnit))) : W PUnit) X
        = .ok PUnit.unit (X.addLog (seqLog (xRemLog rec w.obs) bts X)) := by
    intro X hX
    refine forIn_seqLog _ (fun Y => Y.obs = w.obs) (fun _ _ h => h) _ ?_ bts X hX
    intro b Y hY
    simp only [M.bind_apply, M.get_apply]
    rw [fireRows_readOnly (rec := rec) _
      (firing w.obs Ev.onRemoveComponents
        (.remove (Y.arch (Y.tbl b.oldT).arch).mask (Y.arch (Y.tbl b.newT).arch).mask)) w.obs
      (fun e eo Z hZ => by
        rw [fireRemove_readOnly hro Z (by rw [hZ]; exact hs) (by rw [hZ]; exact hok) _ (by decide),
          hZ])
      _ Y hY]
    rfl
  -- the addition loop
  have hAdd : ∀ (bs : List BatchTable) (X : World), X.obs = w.obs →
      (forIn bs PUnit.unit (fun b (_ : PUnit) => (do
          let w ← M.get
          fireRows
            (fun e eo => fireAdd run Ev.onAddComponents e (w.arch (w.tbl b.oldT).arch).mask
              (w.arch (w.tbl b.newT).arch).mask eo)
            (List.map (fun i => (w.tbl b.newT).getEntity (b.start + i)) (List.range b.len))
          pure (ForInStep.yield PUnit.unit) : W (ForInStep PUnit))) : W PUnit) X
        = .ok PUnit.unit (X.addLog (seqLog (xAddLog rec w.obs) bs X)) := by
    intro bs X hX
    refine forIn_seqLog _ (fun Y => Y.obs = w.obs) (fun _ _ h => h) _ ?_ bs X hX
    intro b Y hY
    simp only [M.bind_apply, M.get_apply]
    rw [fireRows_readOnly (rec := rec) _
      (firing w.obs Ev.onAddComponents
        (.add (Y.arch (Y.tbl b.oldT).arch).mask (Y.arch (Y.tbl b.newT).arch).mask)) w.obs
      (fun e eo Z hZ => by
        rw [fireAdd_readOnly hro Z (by rw [hZ]; exact hs) (by rw [hZ]; exact hok) _ (by decide),
          hZ])
      _ Y hY]
    rfl
  have hnoR : w.obs.hasObservers Ev.onRemoveComponents = false →
      ∀ (bs : List BatchTable) (X : World), seqLog (xRemLog rec w.obs) bs X = [] := by
    intro hh bs X
    have : xRemLog rec w.obs = fun _ _ => [] := by
      funext b X
      unfold xRemLog
      rw [firing_nil_of_no_observers (hok.agg _) hh, rowsLog_nil_fired]
    rw [this, seqLog_nil]
  have hnoA : w.obs.hasObservers Ev.onAddComponents = false →
      ∀ (bs : List BatchTable) (X : World), seqLog (xAddLog rec w.obs) bs X = [] := by
    intro hh bs X
    have : xAddLog rec w.obs = fun _ _ => [] := by
      funext b X
      unfold xAddLog
      rw [firing_nil_of_no_observers (hok.agg _) hh, rowsLog_nil_fired]
    rw [this, seqLog_nil]
  -- normal form of every world from here on: `W.reframe w.obs LG l1`
  obtain ⟨W0, hW0⟩ : ∃ W0 : World, w1 = W0.reframe w.obs w.log l1 :=
    ⟨w1, (reframe_eq_self hobs hlog hlocks).symm⟩
  subst hW0
  have hRem' : ∀ (W : World) (LG : List LogEv), _ = _ := fun W LG => hRem (W.reframe w.obs LG l1) rfl
  have hAdd' : ∀ (bs : List BatchTable) (W : World) (LG : List LogEv), _ = _ :=
    fun bs W LG => hAdd bs (W.reframe w.obs LG l1) rfl
  have r1 : ∀ (W : World) (LG L : List LogEv),
      (W.reframe w.obs LG l1).addLog L = W.reframe w.obs (L ++ LG) l1 := fun _ _ _ => rfl
  have r2 : ∀ (W : World) (LG : List LogEv) (evt : Nat),
      (W.reframe w.obs LG l1).obs.hasObservers evt = w.obs.hasObservers evt := fun _ _ _ => rfl
  have hun : ∀ (X : World) (LG : List LogEv),
      World.unlock b (X.reframe w.obs LG l1) = .ok () (X.reframe w.obs LG l2) :=
    fun X LG => unlock_of_cycle hL rfl
  -- the lookup loop runs BEFORE the lock is taken; it neither reads nor writes the lock
  have hfind0 : findLoop add rem ts (false, []) w
      = .ok (false, bts) (W0.reframe w.obs w.log w.locks) :=
    ((frames_findLoop add rem ts (false, [])).of_reframe_ok (w := w) (o := w.obs) (lg := w.log)
      (lk := l1) hfind).1
  have hlock0 : World.lock (W0.reframe w.obs w.log w.locks) = .ok b (W0.reframe w.obs w.log l1) :=
    lock_ok (w := W0.reframe w.obs w.log w.locks) hL.lock
  unfold exchangeBatch
  cases hr : rem.isEmpty <;> cases ha : add.isEmpty <;> rw [hr, ha] at hne <;>
  first
  | exact absurd hne (by decide)
  | (cases hE : w.obs.hasObservers Ev.onRemoveComponents <;>
     cases hA : w.obs.hasObservers Ev.onAddComponents <;>
     simp only [M.bind_apply, checkLocked_unlocked w hl, M.assert_apply, hr, ha, Bool.and_self,
        Bool.and_false, Bool.false_and, Bool.not_false, Bool.not_true, if_true,
        hts, forIn_findLoop, hfind0, registerTargets_nil_apply, hlock0, M.get_apply, r2, hE, hA, Bool.false_eq_true,
        if_false, hRem', loop2_none_list, List.nil_append, r1, foldl_moveStep_none_reframe,
        movedList_reframe, hAdd', hnoR, hnoA, List.isEmpty_nil, Bool.and_true,
        List.append_nil, hun, reframe_reframe, M.pure_apply])

end

/-! ## the records of an exchange batch -/

/-- the `cb` records of a sequence of steps whose callback records do not depend on the log -/
theorem cbsOf_seqLog {α : Type} (F : α → World → List LogEv) (G : α → World → List (Nat × Ent))
    (hG : ∀ a X, cbsOf (F a X) = (G a X).reverse)
    (hlog : ∀ a (X : World) lg, G a (X.addLog lg) = G a X) :
    ∀ (as : List α) (X : World), cbsOf (seqLog F as X) = (as.flatMap fun a => G a X).reverse
  | [], _ => rfl
  | a :: as, X => by
    rw [seqLog, cbsOf_append, cbsOf_seqLog F G hG hlog as, hG]
    simp only [List.flatMap_cons, List.reverse_append, hlog]

/-- a sequence of steps whose records do not depend on the log -/
theorem seqLog_blind {α : Type} (F H : α → World → List LogEv) (hH : ∀ a X, F a X = H a X)
    (hlog : ∀ a (X : World) lg, H a (X.addLog lg) = H a X) :
    ∀ (as : List α) (X : World), seqLog F as X = (as.reverse.flatMap fun a => H a X)
  | [], _ => rfl
  | a :: as, X => by
    rw [seqLog, seqLog_blind F H hH hlog as, hH]
    simp only [List.reverse_cons, List.flatMap_append, List.flatMap_cons, List.flatMap_nil,
      List.append_nil, hlog]

/-- the rows of one table of an exchange batch with the observers selected for it -/
def xRemCbs (m : ObsMgr) (b : BatchTable) (X : World) : List (Nat × Ent) :=
  ((List.range b.len).map (X.tbl b.oldT).getEntity).flatMap fun e =>
    (firing m Ev.onRemoveComponents
      (.remove (X.arch (X.tbl b.oldT).arch).mask (X.arch (X.tbl b.newT).arch).mask)).map
        fun l => (l, e)

def xAddCbs (m : ObsMgr) (b : BatchTable) (X : World) : List (Nat × Ent) :=
  ((List.range b.len).map fun i => (X.tbl b.newT).getEntity (b.start + i)).flatMap fun e =>
    (firing m Ev.onAddComponents
      (.add (X.arch (X.tbl b.oldT).arch).mask (X.arch (X.tbl b.newT).arch).mask)).map
        fun l => (l, e)

theorem cbsOf_xRem {rec : World → Nat → Ent → Probe → List LogEv} (hn : NoCb rec) (m : ObsMgr)
    (bts : List BatchTable) (X : World) :
    cbsOf (seqLog (xRemLog rec m) bts X) = (bts.flatMap fun b => xRemCbs m b X).reverse :=
  cbsOf_seqLog (xRemLog rec m) (xRemCbs m) (fun _ Y => cbsOf_rowsLog hn _ _ Y) (fun _ _ _ => rfl)
    bts X

theorem cbsOf_xAdd {rec : World → Nat → Ent → Probe → List LogEv} (hn : NoCb rec) (m : ObsMgr)
    (bts : List BatchTable) (X : World) :
    cbsOf (seqLog (xAddLog rec m) bts X) = (bts.flatMap fun b => xAddCbs m b X).reverse :=
  cbsOf_seqLog (xAddLog rec m) (xAddCbs m) (fun _ Y => cbsOf_rowsLog hn _ _ Y) (fun _ _ _ => rfl)
    bts X

/-- the records of the callbacks of one table, as a function of the world alone -/
def xRemFlat (rec : World → Nat → Ent → Probe → List LogEv) (m : ObsMgr) (b : BatchTable)
    (X : World) : List LogEv :=
  ((List.range b.len).map (X.tbl b.oldT).getEntity).reverse.flatMap fun e =>
    (firing m Ev.onRemoveComponents
      (.remove (X.arch (X.tbl b.oldT).arch).mask (X.arch (X.tbl b.newT).arch).mask)).reverse.flatMap
        fun l => notifyFlat rec l e X

def xAddFlat (rec : World → Nat → Ent → Probe → List LogEv) (m : ObsMgr) (b : BatchTable)
    (X : World) : List LogEv :=
  ((List.range b.len).map fun i => (X.tbl b.newT).getEntity (b.start + i)).reverse.flatMap fun e =>
    (firing m Ev.onAddComponents
      (.add (X.arch (X.tbl b.oldT).arch).mask (X.arch (X.tbl b.newT).arch).mask)).reverse.flatMap
        fun l => notifyFlat rec l e X

theorem notifyFlat_addLog {rec : World → Nat → Ent → Probe → List LogEv} (hb : LogBlind rec)
    (l : Nat) (e : Ent) (X : World) (lg : List LogEv) :
    notifyFlat rec l e (X.addLog lg) = notifyFlat rec l e X := by
  simp only [notifyFlat, addLog_obs]
  congr 1
  apply flatMap_congr'
  intro p _
  exact hb X _ l e p

theorem xRem_blind {rec : World → Nat → Ent → Probe → List LogEv} (hb : LogBlind rec) (m : ObsMgr)
    (bts : List BatchTable) (X : World) :
    seqLog (xRemLog rec m) bts X = (bts.reverse.flatMap fun b => xRemFlat rec m b X) := by
  refine seqLog_blind (xRemLog rec m) (xRemFlat rec m) (fun b Y => rowsLog_blind hb _ _ Y)
    (fun b Y lg => ?_) bts X
  unfold xRemFlat
  apply flatMap_congr'
  intro e _
  apply flatMap_congr'
  intro l _
  exact notifyFlat_addLog hb l e Y lg

theorem xAdd_blind {rec : World → Nat → Ent → Probe → List LogEv} (hb : LogBlind rec) (m : ObsMgr)
    (bts : List BatchTable) (X : World) :
    seqLog (xAddLog rec m) bts X = (bts.reverse.flatMap fun b => xAddFlat rec m b X) := by
  refine seqLog_blind (xAddLog rec m) (xAddFlat rec m) (fun b Y => rowsLog_blind hb _ _ Y)
    (fun b Y lg => ?_) bts X
  unfold xAddFlat
  apply flatMap_congr'
  intro e _
  apply flatMap_congr'
  intro l _
  exact notifyFlat_addLog hb l e Y lg

section

variable {run : ProbeRunner} {S : Probe → Prop} {rec : World → Nat → Ent → Probe → List LogEv}
  {w : World} {fl : List Nat}

/-- **C08 + C09 for the add / remove / exchange batches** (`exchangeBatch`, uncached filter, no
    callback function, no relations).  `w10` is the locked world without observers after the
    lookup loop, `bts` the (source, destination) pairs it found.  The batch succeeds as on the
    world without observers and leaves that world with the observers put back.  Its `cb` records:
    first — if `rem` is not empty — for every pair, every row of the source table, the
    `OnRemoveComponents` observers selected for the masks of source and destination; then — if
    `add` is not empty — for every moved pair, every moved row, the `OnAddComponents` observers.
    For a log-blind runner all records of the removal round are functions of the ONE world `seenB`
    (locked; NO table moved yet), all records of the addition round of the ONE world `seenA`
    (locked; EVERY table moved). -/
theorem exchangeBatch_callbacks (st : Setting run S rec w fl) (hb : LogBlind rec)
    (run0 : ProbeRunner) (hl : w.isLocked = false) (fo : FilterObj) (extra : List RelID)
    (hc : fo.cache = none) {add rem : List Comp} (hne : (add.isEmpty && rem.isEmpty) = false)
    {l1 l2 : Lock} {b : Nat} (hL : LockCycle w.locks l1 b l2) {bts : List BatchTable} {w10 : World}
    (hfind : findLoop add rem (World.selTables w.noObs fo.filter) (false, [])
      (w.noObs.withLocks l1) = .ok (false, bts) w10) :
    ∃ seenB seenA w' : World,
      exchangeBatch run0 fo extra add rem [] none w.noObs
        = .ok () ((bts.foldl (moveStep none) w10).withLocks l2) ∧
      exchangeBatch run fo extra add rem [] none w = .ok () w' ∧
      FrameOf (bts.foldl (moveStep none) w10) w w' ∧
      seenB = w10.reframe w.obs w.log l1 ∧
      seenA = (bts.foldl (moveStep none) w10).reframe w.obs w.log l1 ∧
      cbsOf w'.log =
        (if add.isEmpty then [] else
          ((movedList bts w10).flatMap fun b => xAddCbs w.obs b seenA).reverse) ++
        ((if rem.isEmpty then [] else (bts.flatMap fun b => xRemCbs w.obs b seenB).reverse) ++
          cbsOf w.log) ∧
      w'.log =
        (if add.isEmpty then [] else
          ((movedList bts w10).reverse.flatMap fun b => xAddFlat rec w.obs b seenA)) ++
        ((if rem.isEmpty then [] else (bts.reverse.flatMap fun b => xRemFlat rec w.obs b seenB)) ++
          w.log) := by
  have h := st.inv
  have hts0 := getBatchTables_frag h fo extra hc
  have hts : getBatchTables fo extra w = .ok (World.selTables w.noObs fo.filter) w := by
    have := frames_getBatchTables fo extra w.noObs w.obs w.log w.locks
    rw [hts0] at this
    exact this
  have hfind1 : findLoop add rem (World.selTables w.noObs fo.filter) (false, []) (w.withLocks l1)
      = .ok (false, bts) (w10.reframe w.obs w.log l1) := by
    have := frames_findLoop add rem (World.selTables w.noObs fo.filter) (false, [])
      (w.noObs.withLocks l1) w.obs w.log l1
    rw [hfind] at this
    exact this
  have heq := exchangeBatch_obs_eq st.ro fo extra add rem w st.scripts st.obs hl hne hL hts hfind1
  -- the observer-free run
  obtain ⟨hobs0, _, hlocks0⟩ : w10.obs = w.noObs.obs ∧ w10.log = w.log ∧ w10.locks = l1 := by
    have := (frames_findLoop add rem (World.selTables w.noObs fo.filter) (false, [])).state_frame
      (w.noObs.withLocks l1)
    rw [hfind] at this; exact this
  have hts0L : getBatchTables fo extra { w.noObs with locks := l1 }
      = .ok (World.selTables w.noObs fo.filter) { w.noObs with locks := l1 } := by
    have := frames_getBatchTables fo extra w.noObs w.noObs.obs w.noObs.log l1
    rw [hts0] at this
    exact this
  have h0 := exchangeBatch_eq run0 fo extra add rem none w.noObs hl hne hL.lock hts0L hfind
    (by rw [hobs0]; exact h.noObs)
  have hun0 : World.unlock b (bts.foldl (moveStep none) w10)
      = .ok () ((bts.foldl (moveStep none) w10).withLocks l2) :=
    unlock_of_cycle hL (by rw [foldl_moveStep_locks, hlocks0])
  rw [hun0] at h0
  rw [foldl_moveStep_none_reframe, movedList_reframe] at heq
  refine ⟨w10.reframe w.obs w.log l1, (bts.foldl (moveStep none) w10).reframe w.obs w.log l1, _,
    h0, heq, rfl, rfl, rfl, ?_, ?_⟩
  · show cbsOf (_ ++ (_ ++ w.log)) = _
    rw [cbsOf_append, cbsOf_append]
    congr 1
    · split
      · rfl
      · rw [cbsOf_xAdd st.noCb]
        rfl
    · congr 1
      split
      · rfl
      · rw [cbsOf_xRem st.noCb]
  · show _ ++ (_ ++ w.log) = _
    congr 1
    · split
      · rfl
      · rw [xAdd_blind hb]
        apply flatMap_congr'
        intro bb _
        unfold xAddFlat
        apply flatMap_congr'
        intro e _
        apply flatMap_congr'
        intro l _
        exact notifyFlat_addLog hb l e _ _
    · congr 1
      split
      · rfl
      · rw [xRem_blind hb]

end

end Ark
