/-
  Ark.Proofs.DumpLoad — `Unsafe.DumpEntities` / `Unsafe.LoadEntities`.

  The observable behaviour of the entity pool (`Get`, `Recycle`, and `Alive` on every ID the pool
  has issued) is a function of its *core* `(entities, next, available)`; the memory behind the
  slice (`stale`) is irrelevant.  `LoadEntities` of a dump into an empty unlocked world runs to
  completion (through the monadic `for` loop) and installs exactly the dumped core.  Hence the
  loaded world agrees with the source on liveness and on all future handles.  Kernel-only proofs.
-/
import Ark.Model.World

namespace Ark
namespace Pool

/-- What a dump records of a pool. -/
def Core (p : Pool) : List Ent × Nat × Nat := (p.ents, p.next, p.available)

theorem core_eq_iff {p q : Pool} :
    p.Core = q.Core ↔ p.ents = q.ents ∧ p.next = q.next ∧ p.available = q.available := by
  simp only [Core, Prod.mk.injEq]

/-- The handles returned by `n` consecutive `Get`s. -/
def getN : Nat → Pool → List Ent
  | 0, _ => []
  | n + 1, p => p.get.2 :: getN n p.get.1

/-- The pool after `n` consecutive `Get`s. -/
def afterN : Nat → Pool → Pool
  | 0, p => p
  | n + 1, p => afterN n p.get.1

/-- `Get` is determined by the core, and so is the core it leaves. -/
theorem get_core {p q : Pool} (h : p.Core = q.Core) :
    p.get.2 = q.get.2 ∧ p.get.1.Core = q.get.1.Core := by
  obtain ⟨he, hn, ha⟩ := core_eq_iff.mp h
  simp only [get, ha]
  split
  · simp only [getNew, Core, he, hn, ha, and_self]
  · simp only [getRecycled, Core, he, hn, ha, and_self]

/-- `Recycle` acts on the core. -/
theorem recycle_core {p q : Pool} (h : p.Core = q.Core) (e : Ent) :
    (p.recycle e).Core = (q.recycle e).Core := by
  obtain ⟨he, hn, ha⟩ := core_eq_iff.mp h
  simp only [recycle, Core, he, hn, ha]

/-- Any number of consecutive `Get`s return the same handles from pools with the same core. -/
theorem gets_agree {p q : Pool} (h : p.Core = q.Core) (n : Nat) : p.getN n = q.getN n := by
  induction n generalizing p q with
  | zero => rfl
  | succ n ih =>
    obtain ⟨h2, h1⟩ := get_core h
    simp only [getN, h2, ih h1]

theorem afterN_core {p q : Pool} (h : p.Core = q.Core) (n : Nat) :
    (p.afterN n).Core = (q.afterN n).Core := by
  induction n generalizing p q with
  | zero => exact h
  | succ n ih => exact ih (get_core h).2

/-- `Alive` on an ID inside the live slice is determined by the core. -/
theorem alive_core {p q : Pool} (h : p.Core = q.Core) (e : Ent) (hid : e.id < p.ents.length) :
    p.alive e = q.alive e := by
  obtain ⟨he, -, -⟩ := core_eq_iff.mp h
  have hq : e.id < q.ents.length := he ▸ hid
  simp only [alive, he, List.getElem?_append_left hq]

/-- With no memory behind the slice, `Alive` answers `false` beyond it. -/
theorem alive_beyond {p : Pool} (hs : p.stale = []) (e : Ent) (hid : p.ents.length ≤ e.id) :
    p.alive e = false := by
  simp only [alive, hs, List.append_nil, List.getElem?_eq_none hid]

end Pool

namespace World

/-- A `for` loop over a list whose body is a plain state update runs to completion; its result
    is the left fold of the update. -/
theorem forIn_modify_apply (f : Nat → World → World) (l : List Nat) (w : World) :
    (forIn l PUnit.unit
        (fun idx _ => (M.modify (f idx) >>= fun _ => pure (ForInStep.yield PUnit.unit) :
          W (ForInStep PUnit))) : W PUnit) w
      = .ok PUnit.unit (l.foldl (fun w i => f i w) w) := by
  induction l generalizing w with
  | nil => rfl
  | cons x xs ih =>
    rw [List.forIn_cons, M.bind_apply, M.bind_apply, M.modify_apply]
    exact ih _

/-- A fold of pool-preserving updates preserves the pool. -/
theorem foldl_pool (f : Nat → World → World) (hf : ∀ i w, (f i w).pool = w.pool)
    (l : List Nat) (w : World) : (l.foldl (fun w i => f i w) w).pool = w.pool := by
  induction l generalizing w with
  | nil => rfl
  | cons x xs ih => rw [List.foldl_cons, ih, hf]

/-- `LoadEntities` into an unlocked empty world succeeds and installs the dumped pool (with no
    memory behind the slice). This goes through the whole of `opLoad`, including the `for` loop
    over `d.alive`. -/
theorem opLoad_pool (d : Dump) (w : World) (hl : w.isLocked = false)
    (he : w.pool.ents.length ≤ 2 ∧ w.pool.available = 0) (hc : d.entities.length > 0) :
    ∃ w', opLoad d w = .ok () w' ∧
      w'.pool = { ents := d.entities, stale := [], next := d.next, available := d.available } := by
  have h1 : ¬ w.pool.ents.length > 2 := by omega
  unfold opLoad
  simp only [M.bind_apply, checkLocked, hl, M.get_apply, M.assert_apply, h1, he.2, hc,
    Bool.false_eq_true, if_false, if_true, decide_false, Bool.or_self, Bool.not_false,
    Nat.lt_irrefl, M.modify_apply, forIn_modify_apply, M.pure_apply]
  refine ⟨_, rfl, ?_⟩
  rw [foldl_pool]
  · rfl
  · intro i w; rfl

/-- `LoadEntities` on a locked world panics (and changes nothing). -/
theorem opLoad_locked (d : Dump) (w : World) (hl : w.isLocked = true) :
    opLoad d w = .panic .locked w := by
  unfold opLoad
  simp only [M.bind_apply, checkLocked, hl, if_true]

/-- `LoadEntities` on a non-empty world panics (and changes nothing). -/
theorem opLoad_notEmpty (d : Dump) (w : World) (hl : w.isLocked = false)
    (hne : w.pool.ents.length > 2 ∨ w.pool.available > 0) :
    opLoad d w = .panic .notEmptyWorld w := by
  have h : (!(decide (w.pool.ents.length > 2) || decide (w.pool.available > 0))) = false := by
    rcases hne with h | h <;> simp [h]
  unfold opLoad
  simp only [M.bind_apply, checkLocked, hl, M.get_apply, M.assert_apply, h,
    Bool.false_eq_true, if_false]

/-- Loading the dump of a pool `p` installs the core of `p`. -/
theorem load_core (p : Pool) (d : Dump) (w : World)
    (hde : d.entities = p.ents) (hdn : d.next = p.next) (hda : d.available = p.available)
    (hc : d.entities.length > 0)
    (hl : w.isLocked = false) (he : w.pool.ents.length ≤ 2 ∧ w.pool.available = 0) :
    ∃ w', opLoad d w = .ok () w' ∧ w'.pool.Core = p.Core := by
  obtain ⟨w', h1, h2⟩ := opLoad_pool d w hl he hc
  exact ⟨w', h1, by simp only [h2, Pool.Core, hde, hdn, hda]⟩

/-- After loading, `Alive` agrees with the source on every ID of the source's live slice, and
    answers `false` beyond it. -/
theorem load_alive_agree (p : Pool) (d : Dump) (w : World)
    (hde : d.entities = p.ents) (hdn : d.next = p.next) (hda : d.available = p.available)
    (hc : d.entities.length > 0)
    (hl : w.isLocked = false) (he : w.pool.ents.length ≤ 2 ∧ w.pool.available = 0) :
    ∃ w', opLoad d w = .ok () w' ∧
      (∀ e : Ent, e.id < p.ents.length → w'.alive e = p.alive e) ∧
      (∀ e : Ent, p.ents.length ≤ e.id → w'.alive e = false) := by
  obtain ⟨w', h1, h2⟩ := opLoad_pool d w hl he hc
  refine ⟨w', h1, ?_, ?_⟩
  · intro e hid
    have hcore : w'.pool.Core = p.Core := by simp only [h2, Pool.Core, hde, hdn, hda]
    have hid' : e.id < w'.pool.ents.length := by rw [h2]; simpa only [hde] using hid
    exact Pool.alive_core hcore e hid'
  · intro e hid
    refine Pool.alive_beyond (by rw [h2]) e ?_
    rw [h2]; simpa only [hde] using hid

/-- After loading, any number of consecutive entity creations return the same handles as in the
    source, and leave the same core. -/
theorem load_gets_agree (p : Pool) (d : Dump) (w : World)
    (hde : d.entities = p.ents) (hdn : d.next = p.next) (hda : d.available = p.available)
    (hc : d.entities.length > 0)
    (hl : w.isLocked = false) (he : w.pool.ents.length ≤ 2 ∧ w.pool.available = 0) :
    ∃ w', opLoad d w = .ok () w' ∧
      ∀ n, w'.pool.getN n = p.getN n ∧ (w'.pool.afterN n).Core = (p.afterN n).Core := by
  obtain ⟨w', h1, h2⟩ := load_core p d w hde hdn hda hc hl he
  exact ⟨w', h1, fun n => ⟨Pool.gets_agree h2 n, Pool.afterN_core h2 n⟩⟩

end World
end Ark
