/-
  Ark.Proofs.TargetsSetRel — C04 at world level, part 9: `World.setRelations`
  (`setRelationsCore` / `opSetRelations`): an accepted call keeps the invariants, gives the
  entity the targets named (its other targets, its components and values are kept), and changes
  no other entity.
  Kernel-only proofs, core Lean only.
-/
import Ark.Proofs.TargetsHist
import Ark.Proofs.CallbacksFrame

set_option autoImplicit false

namespace Ark

open World Ark.Props.C01World

/-! ## 1. `getExchangeTargets` -/

namespace World

/-- the scan of `getExchangeTargets`: when every relation names a relation column and no
    component is named twice (nor was seen before — the check added by the repair of D19) it
    returns the edited target list; it reports a change exactly when some step found a different
    target -/
theorem getExchangeTargets_go_spec (T : Table) (w : World) : ∀ (rels : List RelID) (ts : List Ent)
    (ch : Bool) (cm : Mask) (seen : List Comp),
    (∀ (r : RelID), r ∈ rels → ∃ (i : Nat), T.colIdx r.comp = some i ∧
      T.isRel.getD i false = true) →
    (rels.map (·.comp)).Nodup → (∀ (r : RelID), r ∈ rels → r.comp ∉ seen) →
    ∃ (ch' : Bool) (cm' : Mask),
      getExchangeTargets.go T w ts ch cm seen rels = .ok (setTargets T.colIdx rels ts, ch', cm') w ∧
      (ch' = false → ch = false ∧ setTargets T.colIdx rels ts = ts) ∧
      (ch' = true → ch = true ∨ ∃ (r : RelID), r ∈ rels ∧ ∃ (i : Nat),
        T.colIdx r.comp = some i ∧ r.target ≠ ts.getD i Ent.zero)
  | [], ts, ch, cm, _, _, _, _ => ⟨ch, cm, rfl, fun h => ⟨h, rfl⟩, fun h => Or.inl h⟩
  | r :: rest, ts, ch, cm, seen, h, hnd, hns => by
    obtain ⟨i, hc, hr⟩ := h r List.mem_cons_self
    have hrest := fun r' hr' => h r' (List.mem_cons_of_mem _ hr')
    rw [List.map_cons, List.nodup_cons] at hnd
    have hseen : seen.contains r.comp = false := by
      cases hh : seen.contains r.comp with
      | false => rfl
      | true => exact absurd (List.contains_iff_mem.1 hh) (hns r List.mem_cons_self)
    have hns' : ∀ (r' : RelID), r' ∈ rest → r'.comp ∉ r.comp :: seen := by
      intro r' hr' hin
      rcases List.mem_cons.1 hin with he | hm
      · exact hnd.1 (List.mem_map.2 ⟨r', hr', he⟩)
      · exact hns r' (List.mem_cons_of_mem _ hr') hm
    simp only [getExchangeTargets.go, hseen, hc, hr, Bool.not_true, Bool.false_eq_true, if_false]
    by_cases heq : (r.target == ts.getD i Ent.zero) = true
    · rw [if_pos heq]
      have heq' : r.target = ts.getD i Ent.zero := by simpa using heq
      have hstep : setStep T.colIdx ts r = ts := by
        unfold setStep
        rw [hc]
        simp only
        rcases Nat.lt_or_ge i ts.length with hlt | hge
        · rw [heq', List.getD_eq_getElem?_getD, List.getElem?_eq_getElem hlt]
          exact List.set_getElem_self hlt
        · exact List.set_eq_of_length_le hge
      obtain ⟨ch', cm', e1, e2, e3⟩ :=
        getExchangeTargets_go_spec T w rest ts ch cm (r.comp :: seen) hrest hnd.2 hns'
      refine ⟨ch', cm', ?_, ?_, ?_⟩
      · rw [setTargets_cons, hstep]; exact e1
      · intro hh; rw [setTargets_cons, hstep]; exact e2 hh
      · intro hh
        rcases e3 hh with k | ⟨r', hr', k⟩
        · exact Or.inl k
        · exact Or.inr ⟨r', List.mem_cons_of_mem _ hr', k⟩
    · rw [if_neg heq]
      have hne : r.target ≠ ts.getD i Ent.zero := by simpa using heq
      have hstep : setStep T.colIdx ts r = ts.set i r.target := by
        unfold setStep; rw [hc]
      obtain ⟨ch', cm', e1, e2, _⟩ :=
        getExchangeTargets_go_spec T w rest (ts.set i r.target) true (cm.set r.comp)
          (r.comp :: seen) hrest hnd.2 hns'
      refine ⟨ch', cm', ?_, ?_, ?_⟩
      · rw [setTargets_cons, hstep]; exact e1
      · intro hh; exact absurd (e2 hh).1 (by simp)
      · intro _; exact Or.inr ⟨r, List.mem_cons_self, i, hc, hne⟩

/-- `getExchangeTargets` on a table all of whose named columns are relation columns, no
    component named twice -/
theorem getExchangeTargets_spec (T : Table) (rels : List RelID) (w : World)
    (h : ∀ (r : RelID), r ∈ rels → ∃ (i : Nat), T.colIdx r.comp = some i ∧
      T.isRel.getD i false = true)
    (hnd : (rels.map (·.comp)).Nodup) :
    ∃ (ch : Bool) (cm : Mask),
      getExchangeTargets T rels w =
        .ok (if ch then colRels T.ids (setTargets T.colIdx rels T.targets) T.isRel else [], ch, cm) w ∧
      (ch = false → setTargets T.colIdx rels T.targets = T.targets) ∧
      (ch = true → ∃ (r : RelID), r ∈ rels ∧ ∃ (i : Nat),
        T.colIdx r.comp = some i ∧ r.target ≠ T.targets.getD i Ent.zero) := by
  obtain ⟨ch, cm, e1, e2, e3⟩ :=
    getExchangeTargets_go_spec T w rels T.targets false Mask.empty [] h hnd
      (fun _ _ hm => by cases hm)
  refine ⟨ch, cm, ?_, fun hh => (e2 hh).2, fun hh => ?_⟩
  · unfold getExchangeTargets
    rw [e1]
    cases ch with
    | false => rfl
    | true => rfl
  · rcases e3 hh with k | k
    · cases k
    · exact k

/-- the ways `getExchangeTargets` rejects: it never changes the state -/
theorem getExchangeTargets_go_state (T : Table) (w : World) : ∀ (rels : List RelID) (ts : List Ent)
    (ch : Bool) (cm : Mask) (seen : List Comp),
    (getExchangeTargets.go T w ts ch cm seen rels).state = w
  | [], _, _, _, _ => rfl
  | r :: rest, ts, ch, cm, seen => by
    simp only [getExchangeTargets.go]
    split
    · rfl
    · split
      · rfl
      · split
        · rfl
        · split
          · exact getExchangeTargets_go_state T w rest _ _ _ _
          · exact getExchangeTargets_go_state T w rest _ _ _ _

/-- the scan refuses a relation list that names a component twice (or one seen before), without
    effect (`.relTwice` at the first repetition unless an earlier relation names no relation
    column) -/
theorem getExchangeTargets_go_not_nodup (T : Table) (w : World) : ∀ (rels : List RelID)
    (ts : List Ent) (ch : Bool) (cm : Mask) (seen : List Comp),
    ¬ ((rels.map (·.comp)).Nodup ∧ ∀ (r : RelID), r ∈ rels → r.comp ∉ seen) →
    ∃ (k : PanicKind), getExchangeTargets.go T w ts ch cm seen rels = .panic k w
  | [], _, _, _, _, h => by
    exact absurd ⟨List.nodup_nil, fun _ hr => by cases hr⟩ h
  | r :: rest, ts, ch, cm, seen, h => by
    simp only [getExchangeTargets.go]
    cases hs : seen.contains r.comp with
    | true => exact ⟨_, rfl⟩
    | false =>
      simp only [Bool.false_eq_true, if_false]
      have hs' : r.comp ∉ seen := fun hm => by
        rw [List.contains_iff_mem.2 hm] at hs; cases hs
      cases hc : T.colIdx r.comp with
      | none => exact ⟨_, rfl⟩
      | some i =>
        simp only
        have hrest : ¬ ((rest.map (·.comp)).Nodup ∧
            ∀ (r' : RelID), r' ∈ rest → r'.comp ∉ r.comp :: seen) := by
          rintro ⟨h1, h2⟩
          apply h
          refine ⟨?_, ?_⟩
          · rw [List.map_cons, List.nodup_cons]
            refine ⟨?_, h1⟩
            intro hm
            obtain ⟨r', hr', he⟩ := List.mem_map.1 hm
            exact h2 r' hr' (by rw [he]; exact List.mem_cons_self)
          · intro r' hr'
            rcases List.mem_cons.1 hr' with rfl | hm
            · exact hs'
            · exact fun hin => h2 r' hm (List.mem_cons_of_mem _ hin)
        split
        · exact ⟨_, rfl⟩
        · split
          · exact getExchangeTargets_go_not_nodup T w rest _ _ _ _ hrest
          · exact getExchangeTargets_go_not_nodup T w rest _ _ _ _ hrest

/-- **the repair of defect D19**: `getExchangeTargets` refuses a relation list naming one
    component twice, the state unchanged -/
theorem getExchangeTargets_not_nodup (T : Table) (rels : List RelID) (w : World)
    (h : ¬ (rels.map (·.comp)).Nodup) :
    ∃ (k : PanicKind), getExchangeTargets T rels w = .panic k w := by
  obtain ⟨k, hk⟩ := getExchangeTargets_go_not_nodup T w rels T.targets false Mask.empty []
    (fun hh => h hh.1)
  exact ⟨k, by unfold getExchangeTargets; rw [hk]⟩

end World

/-! ## 2. finding or creating the table with the edited targets (on success) -/

/-- **`getOrCreate` on the relation list read off edited targets `ts'`** of the non-free table
    `tid` (archetype `a`, with relation columns): when it returns, all invariants are kept and
    the returned table is another active table of `a` whose relation columns hold `ts'`; the
    accepted targets are zero or alive. -/
theorem relGet_of_ok {w w1 : World} {a tid nt : Nat} {ts' : List Ent} {rels0 : List RelID}
    (hR : RelInv w) (hI : IdxInv w) (hF : FlagsOKUpTo w rels0) (hE : FreeEmpty w)
    (hlt : tid < w.tables.length) (hTa : (w.tbl tid).arch = a) (hTf : (w.tbl tid).isFree = false)
    (hrelA : (w.arch a).hasRelations = true) (hl : ts'.length = (w.tbl tid).ids.length)
    (hdiff : ∃ (i0 : Nat), (w.tbl tid).isRel.getD i0 false = true ∧
      ts'.getD i0 Ent.zero ≠ (w.tbl tid).targets.getD i0 Ent.zero)
    (hflag : ∀ (i : Nat), (w.tbl tid).isRel.getD i false = true →
      (ts'.getD i Ent.zero).isZero = false →
      w.isTarget.getD (ts'.getD i Ent.zero).id false = true ∨
      ∃ (r0 : RelID), r0 ∈ rels0 ∧ r0.target = ts'.getD i Ent.zero)
    (hok : getOrCreate a (colRels (w.tbl tid).ids ts' (w.tbl tid).isRel) w = .ok nt w1) :
    RelInv w1 ∧ IdxInv w1 ∧ FlagsOKUpTo w1 rels0 ∧ FreeEmpty w1 ∧ CleanGot w w1 a tid nt ts' ∧
    (∀ (i : Nat), (w.tbl tid).isRel.getD i false = true →
      (ts'.getD i Ent.zero).isZero = true ∨ w.alive (ts'.getD i Ent.zero) = true) := by
  have hS := hR.sinv.toSInvMid
  have hT := get_of_lt hlt
  obtain ⟨A, hA, i1, i2, i3, _⟩ := hS.tblArch tid _ hT
  rw [hTa] at hA
  have hAe : w.arch a = A := arch_of_get hA
  have halt := alt_of_get hA
  have hnd := hS.ids_nodup hT
  have hrl := hS.isRel_len hT
  obtain ⟨i0, hi0, hne0⟩ := hdiff
  obtain ⟨f1, f2, f3, f4⟩ := colRels_facts (ts := ts') hnd hl hrl
  -- the column `i` of a table with the layout of `tid` holds `ts'[i]` once all relations match
  have hnamed : ∀ (N : Table), N.ids = (w.tbl tid).ids →
      (∀ (r : RelID), r ∈ colRels (w.tbl tid).ids ts' (w.tbl tid).isRel → ∀ (j : Nat),
        N.colIdx r.comp = some j → N.isRel.getD j false = true ∧ N.targets.getD j Ent.zero = r.target) →
      ∀ (i : Nat), (w.tbl tid).isRel.getD i false = true →
        N.targets.getD i Ent.zero = ts'.getD i Ent.zero := by
    intro N e1 hyes i hi
    have hil : i < (w.tbl tid).ids.length := by rw [← hrl]; exact lt_of_getD_true hi
    have hc : (w.tbl tid).ids[i]? = some (w.tbl tid).ids[i] := List.getElem?_eq_getElem hil
    have hmem := f4 i _ hc hi
    have hci : N.colIdx (w.tbl tid).ids[i] = some i :=
      Table.colIdx_of_get (by rw [e1]; exact hnd) (by rw [e1]; exact hc)
    exact (hyes _ hmem i hci).2
  simp only [getOrCreate, bind, M.bind] at hok
  cases hg : getTable a (colRels (w.tbl tid).ids ts' (w.tbl tid).isRel) w with
  | panic k s => rw [hg] at hok; cases hok
  | ok res s =>
    have hs : w = s := (getTable_ok_state hg).symm
    subst hs
    rw [hg] at hok
    cases res with
    | some t =>
      simp only [pure, M.pure] at hok
      injection hok with e1 e2
      have e1' : nt = t := e1.symm
      subst e1'
      have e2' : w = w1 := e2
      subst e2'
      -- an existing table
      have hact : nt ∈ A.tables.tables := by
        have := hR.rinv.getTable_some_mem halt hg
        rw [hAe] at this; exact this
      obtain ⟨Tn, hTn, hTna⟩ := hS.owned a A nt hA (Or.inl hact)
      obtain ⟨A', hA', j1, j2, j3, _⟩ := hS.tblArch nt Tn hTn
      rw [hTna, hA] at hA'
      obtain rfl := Option.some.inj hA'
      have hfree := (hS.member nt Tn hTn).1
      rw [hTna, hAe] at hfree
      have hTnf : Tn.isFree = false := hfree.2 hact
      have hTne := tbl_of_get hTn
      have hyes := (Table.matchesExact_yes (getTable_found hg hrelA)).2
      have hntTgt := hnamed (w.tbl nt) (by rw [hTne, j1, i1]) hyes
      refine ⟨hR, hI, hF, hE, ?_, ?_⟩
      · refine
          { ntLt := lt_of_get hTn
            ntNe := ?_
            ntArch := by rw [hTne]; exact hTna
            ntFree := by rw [hTne]; exact hTnf
            ntActive := by rw [hAe]; exact hact
            ntIds := by rw [hTne, j1, i1]
            ntIsRel := by rw [hTne, j2, i2]
            ntZst := by rw [hTne, j3, i3]
            ntTgt := hntTgt
            others := fun _ _ => rfl
            ntRows := fun _ => ⟨_, _, Table.eta_free (by rw [hTne]; exact hTnf)⟩
            ntKeep := fun _ => Or.inl rfl
            entities := rfl, pool := rfl, isTarget := rfl, kinds := rfl, obs := rfl, locks := rfl,
            maxComps := rfl, relationArchetypes := rfl, archLen := rfl
            otherArchs := fun _ _ => rfl
            actA := ?_
            archIsRel := rfl
            tablesLe := Nat.le_refl _
            lenB := Nat.le_succ _
            lenFresh := fun h => absurd h (by omega) }
        · intro hh
          have h1 := hntTgt i0 hi0
          rw [hh] at h1
          exact hne0 h1.symm
        · intro t
          constructor
          · exact Or.inl
          · rintro (h1 | rfl)
            · exact h1
            · rw [hAe]; exact hact
      · intro i hi
        rw [← hntTgt i hi, hTne]
        exact hR.aux.targets nt Tn hTn hTnf i (by rw [j2, ← i2]; exact hi)
    | none =>
      -- a table is created (or recycled)
      have hct : createTable a (colRels (w.tbl tid).ids ts' (w.tbl tid).isRel) w = .ok nt w1 := hok
      have ct := hS.createTable halt (fun hf => by rw [hrelA] at hf; cases hf) hct
      obtain ⟨hTt, hTna, hTr, hTnf, hTg, hTi⟩ := ct.tbl
      have hu := createTable_untouched hct
      obtain ⟨hra, hcr⟩ := createTable_frame hct
      have aux1 : RelAux w1 := hR.aux.created halt ct hct hS f1
      have hids1 : (w1.tbl nt).ids = (w.tbl tid).ids := by rw [hTi, hAe, i1]
      obtain ⟨A1, hA1, j1, j2, j3, _⟩ := ct.sinvMid.tblArch nt _ hTt
      rw [hTna] at hA1
      have hc1 : A1.comps = A.comps := by
        have := arch_of_get hA1
        rw [← this, ct.archA.2.1, hAe]
      obtain ⟨hir, hiz⟩ := hS.flags_of_comps ct.sinvMid ct.kinds hA hA1 hc1
      have hntTgt := hnamed (w1.tbl nt) hids1 (fun r hr j hj =>
        (aux1.rels nt _ hTt hTnf).col (ct.sinvMid.ids_nodup hTt) (by rw [hTr]; exact hr) hj)
      have htidAct : tid ∈ A.tables.tables := by
        have := (hS.member tid _ hT).1
        rw [hTa, hAe] at this
        exact this.1 hTf
      have hvalid : ∀ (i : Nat), (w.tbl tid).isRel.getD i false = true →
          (ts'.getD i Ent.zero).isZero = true ∨ w.alive (ts'.getD i Ent.zero) = true := by
        intro i hi
        have hil : i < (w.tbl tid).ids.length := by rw [← hrl]; exact lt_of_getD_true hi
        have hc : (w.tbl tid).ids[i]? = some (w.tbl tid).ids[i] := List.getElem?_eq_getElem hil
        exact (ct.valid _ (f4 i _ hc hi)).2
      refine ⟨⟨ct.sinv (fun b _ => hR.sinv.settled b), ct.rinv hR.rinv, aux1⟩, ct.idx hI, ?_,
        hE.created ct, ?_, hvalid⟩
      · apply hF.created ct hu.isTarget
        intro r hr hz
        obtain ⟨i, _, a2, a3⟩ := f3 r hr
        rw [← a3] at hz ⊢
        exact hflag i a2 hz
      · refine
          { ntLt := lt_of_get hTt
            ntNe := ?_
            ntArch := hTna
            ntFree := hTnf
            ntActive := ct.active
            ntIds := hids1
            ntIsRel := by rw [j2, hir, i2]
            ntZst := by rw [j3, hiz, i3]
            ntTgt := hntTgt
            others := ct.others
            ntRows := ?_
            ntKeep := ?_
            entities := ct.entities, pool := ct.pool, isTarget := hu.isTarget, kinds := ct.kinds,
            obs := hu.obs, locks := hu.locks, maxComps := hu.maxComps, relationArchetypes := hra,
            archLen := ct.archLen
            otherArchs := ct.otherArchs
            actA := ?_
            archIsRel := by rw [arch_of_get hA1, hir, hAe]
            tablesLe := ?_
            lenB := ?_
            lenFresh := ?_ }
        · rcases ct.kind with ⟨k1, _⟩ | ⟨_, _, k3, _⟩
          · omega
          · rw [hAe] at k3
            intro hh
            exact (hS.astruct a A hA).disjoint tid htidAct (hh ▸ k3)
        · intro hlt'
          rcases ct.kind with ⟨k1, _⟩ | ⟨_, _, _, _, k5⟩
          · omega
          · exact ⟨_, _, k5⟩
        · intro hlt'
          rcases ct.kind with ⟨k1, _⟩ | ⟨_, _, _, k4, _⟩
          · omega
          · exact Or.inr k4
        · intro t
          rw [ct.archA.2.2.2.2]; simp
        · rcases ct.kind with ⟨_, k2, _⟩ | ⟨_, k2, _⟩ <;> omega
        · rcases ct.kind with ⟨_, k2, _⟩ | ⟨_, k2, _⟩ <;> omega
        · intro hh
          rcases ct.kind with ⟨_, _, _, k4⟩ | ⟨_, k2, _⟩
          · exact k4
          · omega

/-! ## 3. `World.setRelations` in normal form -/

namespace World

/-- the tail of `setRelations` after the destination table is known (no observers): add the
    entity to the new table, `moveRow`, `registerTargets` -/
theorem setRelations_tail (run : ProbeRunner) (e : Ent) (rels : List RelID) (oldT row nt : Nat)
    (a : Nat) (cm : Mask) (w1 : World) (hno1 : ∀ (evt : Nat), w1.obs.hasObservers evt = false) :
    (M.get.bind fun (w_1 : World) =>
      if w_1.obs.hasObservers Ev.onRemoveRelations = true then
        M.bind lock fun l =>
          M.bind (fireSet run Ev.onRemoveRelations e cm (w_1.arch a).mask true) fun _ =>
            M.bind (unlock l) fun _ =>
              M.bind (fun w => Res.ok ((w.tbl nt).add e).snd (w.setTbl nt ((w.tbl nt).add e).fst))
                fun newIndex =>
                M.bind (moveRow e oldT row nt newIndex (w_1.arch a).mask) fun _ =>
                  M.bind (registerTargets rels) fun _ =>
                    M.get.bind fun (w_2 : World) =>
                      if w_2.obs.hasObservers Ev.onAddRelations = true then
                        M.bind (fireSet run Ev.onAddRelations e cm (w_2.arch a).mask true)
                          fun _ => (pure () : W Unit)
                      else pure ()
      else
        M.bind (fun w => Res.ok ((w.tbl nt).add e).snd (w.setTbl nt ((w.tbl nt).add e).fst))
          fun newIndex =>
          M.bind (moveRow e oldT row nt newIndex (w_1.arch a).mask) fun _ =>
            M.bind (registerTargets rels) fun _ =>
              M.get.bind fun (w_2 : World) =>
                if w_2.obs.hasObservers Ev.onAddRelations = true then
                  M.bind (fireSet run Ev.onAddRelations e cm (w_2.arch a).mask true)
                    fun _ => (pure () : W Unit)
                else pure ()) w1 =
      .ok () (registerW (addMove w1 e oldT row nt (w1.arch a).mask) rels) := by
  have hobs : (registerW (addMove w1 e oldT row nt (w1.arch a).mask) rels).obs = w1.obs :=
    (addMove_fields w1 e oldT row nt (w1.arch a).mask).2.2.2.obs
  have hno2 : (registerW (addMove w1 e oldT row nt (w1.arch a).mask) rels).obs.hasObservers
      Ev.onAddRelations = false := by rw [hobs]; exact hno1 _
  simp only [M.bind, M.get, hno1, Bool.false_eq_true, if_false, moveRow_eq, registerTargets_eq]
  have : registerW (moveRowW (w1.setTbl nt ((w1.tbl nt).add e).fst) e oldT row nt
      ((w1.tbl nt).add e).snd (w1.arch a).mask) rels =
      registerW (addMove w1 e oldT row nt (w1.arch a).mask) rels := rfl
  rw [this, hno2]
  rfl

theorem setRelationsCore_changed (run : ProbeRunner) (e : Ent) (rels : List RelID) (w : World)
    (hl : w.isLocked = false) (ha : w.alive e = true) (hne : rels.isEmpty = false)
    {oldT row : Nat} (hix : w.index e.id = (oldT, row)) {newRels : List RelID} {cm : Mask}
    (hx : getExchangeTargets (w.tbl oldT) rels w = .ok (newRels, true, cm) w) {nt : Nat} {w1 : World}
    (hgo : getOrCreate (w.tbl oldT).arch newRels w = .ok nt w1)
    (hno1 : ∀ (evt : Nat), w1.obs.hasObservers evt = false) :
    setRelationsCore run e rels w =
      .ok () (registerW (addMove w1 e oldT row nt (w1.arch (w.tbl oldT).arch).mask) rels) := by
  simp only [setRelationsCore, bind, M.bind, checkLocked_unlocked w hl, M.get, M.assert, ha, hne,
    if_true, Bool.not_false, hix, hx, Bool.not_true, Bool.false_eq_true, if_false]
  simp only [getOrCreate, bind, M.bind] at hgo
  cases hg : getTable (w.tbl oldT).arch newRels w with
  | panic k s => rw [hg] at hgo; cases hgo
  | ok r s =>
    rw [hg] at hgo
    cases r with
    | some t =>
      simp only [pure, M.pure] at hgo
      injection hgo with e1 e2
      subst e1; subst e2
      simp only [pure, M.pure, M.bind]
      exact setRelations_tail run e rels oldT row _ _ cm _ hno1
    | none =>
      simp only at hgo
      simp only [M.bind, hgo]
      exact setRelations_tail run e rels oldT row _ _ cm _ hno1

theorem setRelationsCore_unchanged (run : ProbeRunner) (e : Ent) (rels : List RelID) (w : World)
    (hl : w.isLocked = false) (ha : w.alive e = true) (hne : rels.isEmpty = false)
    {oldT row : Nat} (hix : w.index e.id = (oldT, row)) {newRels : List RelID} {cm : Mask}
    (hx : getExchangeTargets (w.tbl oldT) rels w = .ok (newRels, false, cm) w) :
    setRelationsCore run e rels w = .ok () w := by
  simp only [setRelationsCore, bind, M.bind, checkLocked_unlocked w hl, M.get, M.assert, ha, hne,
    if_true, Bool.not_false, hix, hx, pure, M.pure]

theorem setRelationsCore_panic_get (run : ProbeRunner) (e : Ent) (rels : List RelID) (w : World)
    (hl : w.isLocked = false) (ha : w.alive e = true) (hne : rels.isEmpty = false)
    {oldT row : Nat} (hix : w.index e.id = (oldT, row)) {newRels : List RelID} {cm : Mask}
    (hx : getExchangeTargets (w.tbl oldT) rels w = .ok (newRels, true, cm) w) {k : PanicKind}
    {s : World} (hgo : getOrCreate (w.tbl oldT).arch newRels w = .panic k s) :
    setRelationsCore run e rels w = .panic k s := by
  simp only [setRelationsCore, bind, M.bind, checkLocked_unlocked w hl, M.get, M.assert, ha, hne,
    if_true, Bool.not_false, hix, hx, Bool.not_true, Bool.false_eq_true, if_false]
  simp only [getOrCreate, bind, M.bind] at hgo
  cases hg : getTable (w.tbl oldT).arch newRels w with
  | panic k' s' =>
    rw [hg] at hgo; simp only at hgo ⊢
    injection hgo with e1 e2; rw [e1, e2]
  | ok r s' =>
    rw [hg] at hgo
    cases r with
    | some t => simp only [pure, M.pure] at hgo; cases hgo
    | none =>
      simp only at hgo
      simp only [M.bind, hgo]

theorem setRelationsCore_panic_x (run : ProbeRunner) (e : Ent) (rels : List RelID) (w : World)
    (hl : w.isLocked = false) (ha : w.alive e = true) (hne : rels.isEmpty = false)
    {oldT row : Nat} (hix : w.index e.id = (oldT, row)) {k : PanicKind} {s : World}
    (hx : getExchangeTargets (w.tbl oldT) rels w = .panic k s) :
    setRelationsCore run e rels w = .panic k s := by
  simp only [setRelationsCore, bind, M.bind, checkLocked_unlocked w hl, M.get, M.assert, ha, hne,
    if_true, Bool.not_false, hix, hx]

end World

/-! ## 4. the specification of `World.setRelations` -/

namespace World

/-- **the repair of defect D19**: `setRelations` naming one relation component twice is refused,
    the world unchanged (before the repair such a call could be accepted and "move" the entity
    into its own table) -/
theorem setRelationsCore_not_nodup (run : ProbeRunner) (e : Ent) (rels : List RelID) (w : World)
    (hl : w.isLocked = false) (ha : w.alive e = true) (hne : rels.isEmpty = false)
    (h : ¬ (rels.map (·.comp)).Nodup) :
    ∃ (k : PanicKind), setRelationsCore run e rels w = .panic k w := by
  cases hix : w.index e.id with
  | mk oldT row =>
    obtain ⟨k, hk⟩ := getExchangeTargets_not_nodup (w.tbl oldT) rels w h
    exact ⟨k, setRelationsCore_panic_x run e rels w hl ha hne hix hk⟩

theorem addMove_more (w : World) (e : Ent) (oldT row newT : Nat) (keep : Mask) :
    (addMove w e oldT row newT keep).relationArchetypes = w.relationArchetypes ∧
    (addMove w e oldT row newT keep).cache = w.cache := by
  constructor <;>
  · simp only [addMove, moveRowW]
    split <;> rfl

end World

/-- `targetOf` says that the entity has relation component `c`: its table, the column, the flag -/
theorem targetOf_isSome {w : World} {i : Nat} {c : Comp} (h : (targetOf w i c).isSome = true) :
    ∃ (t r k : Nat) (T : Table), w.entities[i]? = some (t, r) ∧ t ≠ maxU32 ∧
      w.tables[t]? = some T ∧ T.colIdx c = some k ∧ T.isRel.getD k false = true := by
  simp only [targetOf] at h
  cases hx : w.entities[i]? with
  | none => rw [hx] at h; cases h
  | some p =>
    obtain ⟨t, r⟩ := p
    rw [hx] at h
    simp only at h
    by_cases ht : t = maxU32
    · rw [if_pos ht] at h; cases h
    · rw [if_neg ht] at h
      cases hT : w.tables[t]? with
      | none => rw [hT] at h; cases h
      | some T =>
        rw [hT] at h
        simp only [Option.bind_some, Table.targetAt] at h
        cases hc : T.colIdx c with
        | none => rw [hc] at h; cases h
        | some k =>
          rw [hc] at h
          simp only [Option.bind_some] at h
          split at h
          · rename_i hk
            exact ⟨t, r, k, T, rfl, ht, hT, hc, hk⟩
          · cases h

/-- What an accepted `setRelations e rels` guarantees (`w` before, `w'` after). -/
structure SetRelPost (w : World) (fl : List Nat) (e : Ent) (rels : List RelID) (w' : World) :
    Prop where
  tinv : TInv w' fl
  aliveSame : ∀ (x : Ent), w'.alive x = w.alive x
  /-- an accepted call named only zero or alive targets -/
  valid : ∀ (r : RelID), r ∈ rels → r.target.isZero = true ∨ w.alive r.target = true
  /-- the entity's target for every assigned component is the target given -/
  targets : ∀ (r : RelID), r ∈ rels → targetOf w' e.id r.comp = some r.target
  /-- its other targets are kept -/
  otherTargets : ∀ (c : Comp), (∀ (r : RelID), r ∈ rels → r.comp ≠ c) →
    targetOf w' e.id c = targetOf w e.id c
  /-- it keeps its components and values -/
  self : SameEnt w w' e.id
  /-- every other entity keeps components, values and targets -/
  frame : ∀ (j : Nat), j ≠ e.id → SameEnt w w' j ∧ ∀ (c : Comp), targetOf w' j c = targetOf w j c
  obs : w'.obs = w.obs
  locks : w'.locks = w.locks
  kinds : w'.kinds = w.kinds
  tablesLen : w'.tables.length ≤ w.tables.length + 1
  entitiesLen : w'.entities.length = w.entities.length

/-- the two halves of `setRelationsCore_valid` / `setRelationsCore_spec` in one proof: an accepted
    call named only zero or alive targets (whatever their IDs), and — if the IDs of the targets lie
    inside the pool slice — `SetRelPost` -/
theorem setRelationsCore_core (run : ProbeRunner) {w : World} {fl : List Nat} (h : TInv w fl)
    (hl : w.isLocked = false) (hno : ∀ (evt : Nat), w.obs.hasObservers evt = false) {e : Ent}
    (h2 : 2 ≤ e.id) (hnf : e.id ∉ fl) (ha : w.alive e = true) (hin : e.id < w.pool.ents.length)
    {rels : List RelID}
    (hne : rels.isEmpty = false) (hnd : (rels.map (·.comp)).Nodup)
    (hhas : ∀ (r : RelID), r ∈ rels → (targetOf w e.id r.comp).isSome = true)
    (hfew : w.tables.length < maxU32) (hrows : w.entities.length + 1 < 2 ^ 32)
    {w' : World} (hok : setRelationsCore run e rels w = .ok () w') :
    (∀ (r : RelID), r ∈ rels → r.target.isZero = true ∨ w.alive r.target = true) ∧
    ((∀ (r : RelID), r ∈ rels → r.target.id < w.pool.ents.length) → SetRelPost w fl e rels w') := by
  obtain ⟨oldT, row, he, htm, _⟩ := h.link.live_entry h2 hnf ha hin
  have hix := index_of_get he
  have hI := h.link.idx
  obtain ⟨hT, hrow, hid⟩ := hI.indexed he htm
  have hlt := lt_of_get hT
  have hS := h.rel.sinv.toSInvMid
  have hTf : (w.tbl oldT).isFree = false := by
    cases hf : (w.tbl oldT).isFree with
    | false => rfl
    | true => have := h.freeEmpty oldT _ hT hf; omega
  have hnd' := hS.ids_nodup hT
  have hrl := hS.isRel_len hT
  have hTex := h.rel.aux.rels oldT _ hT hTf
  -- every relation names a relation column of the entity's table
  have hcols : ∀ (r : RelID), r ∈ rels → ∃ (i : Nat), (w.tbl oldT).colIdx r.comp = some i ∧
      (w.tbl oldT).isRel.getD i false = true := by
    intro r hr
    obtain ⟨t, r', k, T, h1, _, h3, h4, h5⟩ := targetOf_isSome (hhas r hr)
    rw [he] at h1
    obtain ⟨rfl, rfl⟩ := Prod.mk.inj (Option.some.inj h1)
    rw [hT] at h3
    obtain rfl := Option.some.inj h3
    exact ⟨k, h4, h5⟩
  -- the edited target list
  have hts : ∀ (r : RelID), r ∈ rels → ∀ (i : Nat), (w.tbl oldT).colIdx r.comp = some i →
      (setTargets (w.tbl oldT).colIdx rels (w.tbl oldT).targets).getD i Ent.zero = r.target := by
    intro r hr i hi
    apply setTargets_getD_eq
    · rw [hTex.tlen]; exact Table.colIdx_lt hi
    · intro r' hr' hc'
      have : r'.comp = r.comp := colIdx_inj hc' hi
      rw [eq_of_nodup_map (·.comp) rels hnd r' r hr' hr this]
    · exact Or.inl ⟨r, hr, hi⟩
  have hkeep : ∀ (c : Comp), (∀ (r : RelID), r ∈ rels → r.comp ≠ c) → ∀ (i : Nat),
      (w.tbl oldT).colIdx c = some i →
      (setTargets (w.tbl oldT).colIdx rels (w.tbl oldT).targets).getD i Ent.zero =
        (w.tbl oldT).targets.getD i Ent.zero := by
    intro c hc i hi
    apply setTargets_getD_keep
    intro r hr hri
    exact hc r hr (colIdx_inj hri hi)
  have hlen' : (setTargets (w.tbl oldT).colIdx rels (w.tbl oldT).targets).length =
      (w.tbl oldT).ids.length := by rw [setTargets_length, hTex.tlen]
  obtain ⟨ch, cm, hx, hfalse, htrue⟩ := getExchangeTargets_spec (w.tbl oldT) rels w hcols hnd
  cases ch with
  | false =>
    -- nothing changes
    rw [setRelationsCore_unchanged run e rels w hl ha hne hix hx] at hok
    injection hok with _ hw
    subst hw
    have heq := hfalse rfl
    have htof : ∀ (r : RelID), r ∈ rels → targetOf w e.id r.comp = some r.target := by
      intro r hr
      obtain ⟨i, hi, hir⟩ := hcols r hr
      rw [targetOf_of_entry he htm hT, Table.targetAt_of_col hi hir, ← hts r hr i hi, heq]
    have hv0 : ∀ (r : RelID), r ∈ rels → r.target.isZero = true ∨ w.alive r.target = true := by
      intro r hr
      obtain ⟨i, hi, hir⟩ := hcols r hr
      have := h.rel.aux.targets oldT _ hT hTf i hir
      rw [← heq, hts r hr i hi] at this
      exact this
    refine ⟨hv0, fun _ => ?_⟩
    exact
      { tinv := h, aliveSame := fun _ => rfl
        valid := hv0
        targets := htof
        otherTargets := fun _ _ => rfl
        self := ⟨fun _ => rfl, rfl⟩
        frame := fun _ _ => ⟨⟨fun _ => rfl, rfl⟩, fun _ => rfl⟩
        obs := rfl, locks := rfl, kinds := rfl, tablesLen := Nat.le_succ _, entitiesLen := rfl }
  | true =>
    simp only [if_true] at hx
    obtain ⟨r1, hr1, i1, hi1, hne1⟩ := htrue rfl
    have hi1r : (w.tbl oldT).isRel.getD i1 false = true := by
      obtain ⟨i, hi, hir⟩ := hcols r1 hr1
      rw [hi1] at hi
      obtain rfl := Option.some.inj hi
      exact hir
    have hrelA : (w.arch (w.tbl oldT).arch).hasRelations = true := by
      obtain ⟨A, hA, _, e2, _⟩ := hS.tblArch oldT _ hT
      rw [arch_of_get hA]
      exact (hS.astruct _ A hA).hasRelations_of_rel (by rw [← e2]; exact hi1r)
    cases hgo : getOrCreate (w.tbl oldT).arch
        (colRels (w.tbl oldT).ids (setTargets (w.tbl oldT).colIdx rels (w.tbl oldT).targets)
          (w.tbl oldT).isRel) w with
    | panic k s =>
      rw [setRelationsCore_panic_get run e rels w hl ha hne hix hx hgo] at hok
      cases hok
    | ok nt w1 =>
      obtain ⟨rel1, hI1, hF1, hE1, cg, hvalid⟩ := relGet_of_ok (rels0 := rels) h.rel hI
        (h.flags.upTo rels) h.freeEmpty hlt rfl hTf hrelA hlen'
        ⟨i1, hi1r, by rw [hts r1 hr1 i1 hi1]; exact hne1⟩
        (by
          intro i hi hz
          rcases setTargets_getD_cases (w.tbl oldT).colIdx i Ent.zero rels (w.tbl oldT).targets with k | ⟨r, hr, k⟩
          · rw [k] at hz ⊢
            exact Or.inl (h.flags oldT _ hT hTf i hi hz)
          · exact Or.inr ⟨r, hr, k.symm⟩) hgo
      have hno1 : ∀ (evt : Nat), w1.obs.hasObservers evt = false := by
        intro evt; rw [cg.obs]; exact hno evt
      rw [setRelationsCore_changed run e rels w hl ha hne hix hx hgo hno1] at hok
      injection hok with _ hw
      subst hw
      -- the world after the move
      have hne' : oldT ≠ nt := Ne.symm cg.ntNe
      have he1 : w1.entities[e.id]? = some (oldT, row) := by rw [cg.entities]; exact he
      have hel1 : e.id < w1.entities.length := (List.getElem?_eq_some_iff.1 he1).1
      have hlt1 : oldT < w1.tables.length := Nat.lt_of_lt_of_le hlt cg.tablesLe
      have htb1 : w1.tbl oldT = w.tbl oldT := tbl_eq_of_get (cg.others oldT hne')
      have hb1 : (w1.tbl nt).len + 1 < 2 ^ 32 := by
        have := hI1.rows_le nt
        rw [cg.entities] at this; omega
      obtain ⟨fp, fk, fa, fu⟩ := addMove_fields w1 e oldT row nt (w1.arch (w.tbl oldT).arch).mask
      obtain ⟨fra, fc⟩ := addMove_more w1 e oldT row nt (w1.arch (w.tbl oldT).arch).mask
      obtain ⟨tl, t1, t2, t3⟩ := addMove_tbl w1 e oldT row nt (w1.arch (w.tbl oldT).arch).mask hne'
        cg.ntLt hlt1 hel1
      have hI2 := hI1.addMove (w1.arch (w.tbl oldT).arch).mask hne' he1 htm cg.ntLt hb1
      have hL := addMove_lookup hI1 (w1.arch (w.tbl oldT).arch).mask hne' he1 htm cg.ntLt hb1
      have ms12 : MetaStep w1 (addMove w1 e oldT row nt (w1.arch (w.tbl oldT).arch).mask) := by
        refine ⟨fa, fk, fra, fc, tl, fun t _ => ?_⟩
        by_cases e1 : t = oldT
        · subst e1; rw [t1]; exact Table.remove_sameMeta _ _
        · by_cases e2 : t = nt
          · subst e2; rw [t2]
            exact (Table.add_sameMeta _ _).trans (copyRow_sameMeta _ _ _ _ _)
          · rw [t3 t e1 e2]; exact Table.SameMeta.refl _
      have ms23 := registerW_metaStep (addMove w1 e oldT row nt (w1.arch (w.tbl oldT).arch).mask) rels
      have hal : ∀ (x : Ent), (registerW (addMove w1 e oldT row nt
          (w1.arch (w.tbl oldT).arch).mask) rels).alive x = w.alive x := by
        intro x
        show (addMove w1 e oldT row nt (w1.arch (w.tbl oldT).arch).mask).pool.alive x = w.pool.alive x
        rw [fp, cg.pool]
      have hntm : nt ≠ maxU32 := by have := cg.ntLt; have := cg.lenB; omega
      have hidxSame : IdxSame w1 (addMove w1 e oldT row nt (w1.arch (w.tbl oldT).arch).mask) := by
        refine ⟨addMove_entities_len _ _ _ _ _ _, fun i => ?_⟩
        rw [hL i]
        by_cases e1 : i = e.id
        · rw [if_pos e1, e1]
          exact Or.inr ⟨oldT, row, nt, _, he1, htm, rfl, hntm⟩
        · rw [if_neg e1]
          split
          · rename_i hc
            refine Or.inr ⟨oldT, (w1.tbl oldT).len - 1, oldT, row, ?_, htm, rfl, htm⟩
            rw [hc.2]
            exact hI1.rowIdx oldT _ _ (get_of_lt hlt1) (by rw [htb1]; omega)
          · exact Or.inl rfl
      have link1 : PLink w1 fl := h.link.transfer hI1 cg.pool (IdxSame.of_eq cg.entities)
        (by rw [cg.isTarget]) (by have := cg.lenB; omega)
      have link3 : PLink (registerW (addMove w1 e oldT row nt (w1.arch (w.tbl oldT).arch).mask) rels) fl :=
        (link1.transfer hI2 fp hidxSame (by rw [fu.isTarget]) (by rw [tl]; have := cg.lenB; omega)).congr
          (hI2.congr rfl rfl) rfl rfl (flagFold_length rels _) rfl
      have rel3 : RelInv (registerW (addMove w1 e oldT row nt (w1.arch (w.tbl oldT).arch).mask) rels) :=
        rel1.of_metaStep (ms12.trans ms23) (fun x hx => by
          show (addMove w1 e oldT row nt (w1.arch (w.tbl oldT).arch).mask).pool.alive x = true
          rw [fp]; exact hx)
      have hflag2 : FlagsOKUpTo (addMove w1 e oldT row nt (w1.arch (w.tbl oldT).arch).mask) rels :=
        hF1.of_metaStep ms12 (fun i hi => by rw [fu.isTarget]; exact hi)
      have hvalidR : ∀ (r : RelID), r ∈ rels → r.target.isZero = true ∨ w.alive r.target = true := by
        intro r hr
        obtain ⟨i, hi, hir⟩ := hcols r hr
        have := hvalid i hir
        rw [hts r hr i hi] at this
        exact this
      refine ⟨hvalidR, fun htin => ?_⟩
      have hflag3 : FlagsOK (registerW (addMove w1 e oldT row nt (w1.arch (w.tbl oldT).arch).mask) rels) := by
        apply hflag2.register
        intro r hr hz
        rcases hvalidR r hr with k | k
        · rw [k] at hz; cases hz
        · have := h.link.lt_of_in (htin r hr)
          rw [fu.isTarget, cg.isTarget, h.link.tgtLen]
          exact this
      have hfree3 : FreeEmpty (registerW (addMove w1 e oldT row nt (w1.arch (w.tbl oldT).arch).mask) rels) := by
        intro t0 T0 hT0 hf
        have hT0' : (addMove w1 e oldT row nt (w1.arch (w.tbl oldT).arch).mask).tables[t0]? = some T0 := hT0
        have hlt0 : t0 < w1.tables.length := by rw [← tl]; exact lt_of_get hT0'
        have hm := (ms12.tmeta t0 hlt0).isFree
        rw [tbl_of_get hT0'] at hm
        by_cases e1 : t0 = oldT
        · subst e1
          rw [hm, htb1, hTf] at hf; cases hf
        · by_cases e2 : t0 = nt
          · subst e2
            rw [hm, cg.ntFree] at hf; cases hf
          · have := t3 t0 e1 e2
            rw [tbl_of_get hT0'] at this
            rw [this]
            exact hE1 t0 _ (get_of_lt hlt0) (by rw [← this]; exact hf)
      -- frames
      have f1 : ∀ (j : Nat), SameEnt w w1 j ∧ ∀ (c : Comp), targetOf w1 j c = targetOf w j c := by
        apply frame_of_rows hI cg.entities
        intro t Tt hTt hpos
        by_cases e0 : t = nt
        · subst e0
          rcases cg.ntKeep (lt_of_get hTt) with k | k
          · exact ⟨Tt, by rw [k]; exact hTt, rfl, rfl, rfl, rfl⟩
          · have := h.freeEmpty t Tt hTt (by rw [← tbl_of_get hTt]; exact k)
            omega
        · exact ⟨Tt, by rw [cg.others t e0]; exact hTt, rfl, rfl, rfl, rfl⟩
      have hE3 : (registerW (addMove w1 e oldT row nt (w1.arch (w.tbl oldT).arch).mask) rels).entities =
          (addMove w1 e oldT row nt (w1.arch (w.tbl oldT).arch).mask).entities := rfl
      have hT3 : (registerW (addMove w1 e oldT row nt (w1.arch (w.tbl oldT).arch).mask) rels).tables =
          (addMove w1 e oldT row nt (w1.arch (w.tbl oldT).arch).mask).tables := rfl
      have hent3 : (registerW (addMove w1 e oldT row nt (w1.arch (w.tbl oldT).arch).mask)
          rels).entities[e.id]? = some (nt, (w1.tbl nt).len) := by
        rw [hE3, hL, if_pos rfl]
      have hTn3 := get_of_lt (show nt < (registerW (addMove w1 e oldT row nt
        (w1.arch (w.tbl oldT).arch).mask) rels).tables.length by rw [hT3, tl]; exact cg.ntLt)
      have hmeta_nt := (ms12.trans ms23).tmeta nt cg.ntLt
      -- the targets of `e` in its new table
      have htgtE : ∀ (c : Comp), targetOf (registerW (addMove w1 e oldT row nt
          (w1.arch (w.tbl oldT).arch).mask) rels) e.id c = (w1.tbl nt).targetAt c := by
        intro c
        rw [targetOf_of_entry hent3 hntm hTn3, Table.targetAt_sameMeta hmeta_nt]
      have hcolNt : ∀ (c : Comp), (w1.tbl nt).colIdx c = (w.tbl oldT).colIdx c := by
        intro c; simp only [Table.colIdx, cg.ntIds]
      refine
        { tinv := ⟨rel3, hflag3, hfree3, link3, by
            show (addMove w1 e oldT row nt (w1.arch (w.tbl oldT).arch).mask).kinds.length ≤
              (addMove w1 e oldT row nt (w1.arch (w.tbl oldT).arch).mask).maxComps ∧
              (addMove w1 e oldT row nt (w1.arch (w.tbl oldT).arch).mask).maxComps ≤ 256
            rw [fk, fu.maxComps, cg.kinds, cg.maxComps]; exact h.kindsLe⟩
          aliveSame := hal
          valid := hvalidR
          targets := ?_
          otherTargets := ?_
          self := ?_
          frame := ?_
          obs := by
            show (addMove w1 e oldT row nt (w1.arch (w.tbl oldT).arch).mask).obs = w.obs
            rw [fu.obs, cg.obs]
          locks := by
            show (addMove w1 e oldT row nt (w1.arch (w.tbl oldT).arch).mask).locks = w.locks
            rw [fu.locks, cg.locks]
          kinds := by
            show (addMove w1 e oldT row nt (w1.arch (w.tbl oldT).arch).mask).kinds = w.kinds
            rw [fk, cg.kinds]
          tablesLen := by rw [hT3, tl]; exact cg.lenB
          entitiesLen := by rw [hE3, addMove_entities_len, cg.entities] }
      · intro r hr
        obtain ⟨i, hi, hir⟩ := hcols r hr
        rw [htgtE, Table.targetAt_of_col (by rw [hcolNt]; exact hi) (by rw [cg.ntIsRel]; exact hir),
          cg.ntTgt i hir, hts r hr i hi]
      · intro c hc
        rw [htgtE, targetOf_of_entry he htm hT]
        simp only [Table.targetAt, hcolNt, cg.ntIsRel]
        cases hci : (w.tbl oldT).colIdx c with
        | none => rfl
        | some i =>
          simp only [Option.bind_some]
          split
          · rename_i hir
            rw [cg.ntTgt i hir, hkeep c hc i hci]
          · rfl
      · -- `e` keeps components and values
        have hzst : ∀ (c : Comp) (i j : Nat), (w1.tbl oldT).colIdx c = some i →
            (w1.tbl nt).colIdx c = some j → (w1.tbl nt).zst.getD j false = (w1.tbl oldT).zst.getD i false := by
          intro c i j h1 h2
          rw [hcolNt, ← htb1, h1] at h2
          obtain rfl := Option.some.inj h2
          rw [cg.ntZst, htb1]
        have hmask : ∀ (c : Comp), c ∈ (w.tbl oldT).ids →
            (w1.arch (w.tbl oldT).arch).mask.get c = true := by
          intro c hc
          obtain ⟨A1, hA1, j1, _⟩ := rel1.sinv.tblArch nt _ (get_of_lt cg.ntLt)
          rw [cg.ntArch] at hA1
          rw [arch_of_get hA1]
          exact (rel1.sinv.toSInvMid.mem_comps hA1 c).1 (by rw [← j1, cg.ntIds]; exact hc)
        have s1 := (f1 e.id).1
        constructor
        · intro c
          rw [← s1.1 c]
          show valOf (addMove w1 e oldT row nt (w1.arch (w.tbl oldT).arch).mask) e.id c = _
          by_cases hc : c ∈ (w.tbl oldT).ids
          · have hhas1 : (w1.tbl nt).has c = true := by
              rw [Table.has_iff_mem, cg.ntIds]; exact hc
            rw [move_keeps_values hI1 (w1.arch (w.tbl oldT).arch).mask hne' he1 htm cg.ntLt hntm hb1
              hzst hhas1, if_pos ⟨hmask c hc, by rw [htb1, Table.has_iff_mem]; exact hc⟩]
          · -- not a component: both read `none`
            have h1 : valOf w1 e.id c = none := by
              simp only [valOf, he1, htm, if_false, get_of_lt hlt1, Option.bind_some, Table.getComp]
              rw [htb1]
              cases hci : (w.tbl oldT).colIdx c with
              | none => rfl
              | some i => exact absurd (colIdx_some_iff_mem.1 ⟨i, hci⟩) hc
            have h2 : valOf (addMove w1 e oldT row nt (w1.arch (w.tbl oldT).arch).mask) e.id c = none := by
              have hent2 : (addMove w1 e oldT row nt (w1.arch (w.tbl oldT).arch).mask).entities[e.id]? =
                  some (nt, (w1.tbl nt).len) := by rw [hL, if_pos rfl]
              have hTn2 := get_of_lt (show nt < (addMove w1 e oldT row nt
                (w1.arch (w.tbl oldT).arch).mask).tables.length by rw [tl]; exact cg.ntLt)
              simp only [valOf, hent2, hntm, if_false, hTn2, Option.bind_some, Table.getComp]
              have : ((addMove w1 e oldT row nt (w1.arch (w.tbl oldT).arch).mask).tbl nt).colIdx c = none := by
                simp only [Table.colIdx, (ms12.tmeta nt cg.ntLt).ids, cg.ntIds]
                cases hci : (w.tbl oldT).colIdx c with
                | none => simpa only [Table.colIdx] using hci
                | some i => exact absurd (colIdx_some_iff_mem.1 ⟨i, hci⟩) hc
              rw [this]; rfl
            rw [h1, h2]
        · rw [← s1.2]
          show compsOf (addMove w1 e oldT row nt (w1.arch (w.tbl oldT).arch).mask) e.id = _
          have hent2 : (addMove w1 e oldT row nt (w1.arch (w.tbl oldT).arch).mask).entities[e.id]? =
              some (nt, (w1.tbl nt).len) := by rw [hL, if_pos rfl]
          have hTn2 := get_of_lt (show nt < (addMove w1 e oldT row nt
            (w1.arch (w.tbl oldT).arch).mask).tables.length by rw [tl]; exact cg.ntLt)
          simp only [compsOf, hent2, hntm, if_false, hTn2, Option.map_some, he1, htm,
            get_of_lt hlt1, (ms12.tmeta nt cg.ntLt).ids, cg.ntIds, htb1]
      · intro j hj
        obtain ⟨s1, g1⟩ := f1 j
        have mf := move_frame hI1 (w1.arch (w.tbl oldT).arch).mask hne' he1 htm cg.ntLt hb1 hj
        refine ⟨s1.trans ⟨mf.1, mf.2⟩, fun c => ?_⟩
        rw [← g1 c]
        show targetOf (registerW (addMove w1 e oldT row nt (w1.arch (w.tbl oldT).arch).mask) rels) j c = _
        have hLj := hL j
        rw [if_neg hj] at hLj
        split at hLj
        · rename_i hc
          have hold : w1.entities[j]? = some (oldT, (w1.tbl oldT).len - 1) := by
            rw [hc.2]
            exact hI1.rowIdx oldT _ _ (get_of_lt hlt1) (by rw [htb1]; omega)
          have hTo3 := get_of_lt (show oldT < (registerW (addMove w1 e oldT row nt
            (w1.arch (w.tbl oldT).arch).mask) rels).tables.length by rw [hT3, tl]; exact hlt1)
          rw [targetOf_of_entry (by rw [hE3]; exact hLj) htm hTo3,
            targetOf_of_entry hold htm (get_of_lt hlt1)]
          exact Table.targetAt_sameMeta ((ms12.trans ms23).tmeta oldT hlt1) c
        · exact (ms12.trans ms23).targetOf (by rw [hE3]; exact hLj) c

/-- **an accepted `setRelations e rels` named only zero or alive targets** (no condition on the
    IDs of the targets) -/
theorem setRelationsCore_valid (run : ProbeRunner) {w : World} {fl : List Nat} (h : TInv w fl)
    (hl : w.isLocked = false) (hno : ∀ (evt : Nat), w.obs.hasObservers evt = false) {e : Ent}
    (h2 : 2 ≤ e.id) (hnf : e.id ∉ fl) (ha : w.alive e = true) (hin : e.id < w.pool.ents.length)
    {rels : List RelID}
    (hne : rels.isEmpty = false) (hnd : (rels.map (·.comp)).Nodup)
    (hhas : ∀ (r : RelID), r ∈ rels → (targetOf w e.id r.comp).isSome = true)
    (hfew : w.tables.length < maxU32) (hrows : w.entities.length + 1 < 2 ^ 32)
    {w' : World} (hok : setRelationsCore run e rels w = .ok () w') :
    ∀ (r : RelID), r ∈ rels → r.target.isZero = true ∨ w.alive r.target = true :=
  (setRelationsCore_core run h hl hno h2 hnf ha hin hne hnd hhas hfew hrows hok).1

/-- **C04, assignment**: an accepted `setRelations e rels` for a live entity `e` (ID inside the
    pool slice) that has the relation components named (none twice), with targets whose IDs lie
    inside the pool slice, no observers: all invariants are kept, `e` has the targets named, keeps
    its other targets, components and values, no other entity changes. -/
theorem setRelationsCore_spec (run : ProbeRunner) {w : World} {fl : List Nat} (h : TInv w fl)
    (hl : w.isLocked = false) (hno : ∀ (evt : Nat), w.obs.hasObservers evt = false) {e : Ent}
    (h2 : 2 ≤ e.id) (hnf : e.id ∉ fl) (ha : w.alive e = true) (hin : e.id < w.pool.ents.length)
    {rels : List RelID}
    (hne : rels.isEmpty = false) (hnd : (rels.map (·.comp)).Nodup)
    (hhas : ∀ (r : RelID), r ∈ rels → (targetOf w e.id r.comp).isSome = true)
    (htin : ∀ (r : RelID), r ∈ rels → r.target.id < w.pool.ents.length)
    (hfew : w.tables.length < maxU32) (hrows : w.entities.length + 1 < 2 ^ 32)
    {w' : World} (hok : setRelationsCore run e rels w = .ok () w') : SetRelPost w fl e rels w' :=
  (setRelationsCore_core run h hl hno h2 hnf ha hin hne hnd hhas hfew hrows hok).2 htin

/-- an accepted `SetRelations` (any path) named only zero or alive targets -/
theorem opSetRelations_valid (run : ProbeRunner) (p : Path) {w : World} {fl : List Nat}
    (h : TInv w fl) (hl : w.isLocked = false) (hno : ∀ (evt : Nat), w.obs.hasObservers evt = false)
    {e : Ent} (h2 : 2 ≤ e.id) (hnf : e.id ∉ fl) (ha : w.alive e = true)
    (hin : e.id < w.pool.ents.length) {mapperIds : List Comp}
    {rels : List RelID} (hne : rels.isEmpty = false) (hnd : (rels.map (·.comp)).Nodup)
    (hhas : ∀ (r : RelID), r ∈ rels → (targetOf w e.id r.comp).isSome = true)
    (hfew : w.tables.length < maxU32) (hrows : w.entities.length + 1 < 2 ^ 32)
    {w' : World} (hok : opSetRelations run p e mapperIds rels w = .ok () w') :
    ∀ (r : RelID), r ∈ rels → r.target.isZero = true ∨ w.alive r.target = true := by
  have hpre : preCheck p.setRelCheck mapperIds rels w = .ok () w := by
    rcases preCheck_cases p.setRelCheck mapperIds rels w with h1 | ⟨k, h1⟩
    · exact h1
    · simp [opSetRelations, bind, M.bind, h1] at hok
  simp only [opSetRelations, bind, M.bind, hpre] at hok
  exact setRelationsCore_valid run h hl hno h2 hnf ha hin hne hnd hhas hfew hrows hok

/-- **C04, assignment through the API** (`SetRelations` on any path) -/
theorem opSetRelations_spec (run : ProbeRunner) (p : Path) {w : World} {fl : List Nat}
    (h : TInv w fl) (hl : w.isLocked = false) (hno : ∀ (evt : Nat), w.obs.hasObservers evt = false)
    {e : Ent} (h2 : 2 ≤ e.id) (hnf : e.id ∉ fl) (ha : w.alive e = true)
    (hin : e.id < w.pool.ents.length) {mapperIds : List Comp}
    {rels : List RelID} (hne : rels.isEmpty = false) (hnd : (rels.map (·.comp)).Nodup)
    (hhas : ∀ (r : RelID), r ∈ rels → (targetOf w e.id r.comp).isSome = true)
    (htin : ∀ (r : RelID), r ∈ rels → r.target.id < w.pool.ents.length)
    (hfew : w.tables.length < maxU32) (hrows : w.entities.length + 1 < 2 ^ 32)
    {w' : World} (hok : opSetRelations run p e mapperIds rels w = .ok () w') :
    SetRelPost w fl e rels w' := by
  have hpre : preCheck p.setRelCheck mapperIds rels w = .ok () w := by
    rcases preCheck_cases p.setRelCheck mapperIds rels w with h1 | ⟨k, h1⟩
    · exact h1
    · simp [opSetRelations, bind, M.bind, h1] at hok
  simp only [opSetRelations, bind, M.bind, hpre] at hok
  exact setRelationsCore_spec run h hl hno h2 hnf ha hin hne hnd hhas htin hfew hrows hok

/-- **rejection** (every path, since the repair of the `Unsafe` API): `SetRelations` naming a
    dead target is refused with `deadTarget`, the world unchanged.  The relations must name
    relation components — and, through `MapN` (`.typed`) only, components of the mapper —,
    otherwise an earlier relation in the list may be refused for that reason first. -/
theorem opSetRelations_deadTarget (run : ProbeRunner) (p : Path) (e : Ent)
    (mapperIds : List Comp) (rels : List RelID) (w : World)
    (hv : ∀ (r : RelID), r ∈ rels →
      w.isRelComp r.comp = true ∧ (p = .typed → (Mask.ofList mapperIds).get r.comp = true))
    (hd : ∃ (r : RelID), r ∈ rels ∧ r.target.isZero = false ∧ w.alive r.target = false) :
    opSetRelations run p e mapperIds rels w = .panic .deadTarget w := by
  have := preCheck_deadTarget' p.setRelCheck mapperIds w rels
    (fun r hr => ⟨(hv r hr).1, fun hp => (hv r hr).2 (by cases p <;> first | rfl | exact absurd rfl hp)⟩) hd
  simp only [opSetRelations, bind, M.bind, this]

/-! ## 5. totality: a valid `setRelations` never fails -/

/-- under the full relation-index invariant a table listed for a key is active and targets the
    key in that column -/
theorem Archetype.IndexInv.listed {a : Archetype} {tgt : Nat → List Ent} (h : a.IndexInv tgt)
    {i : Nat} (hi : a.isRel.getD i false = true) {k : Nat} {ts : TableIDs}
    (hf : AL.find? (a.relationTables.getD i []) k = some ts) {t : Nat} (ht : t ∈ ts.tables) :
    t ∈ a.tables.tables ∧ ((tgt t).getD i Ent.zero).id = k :=
  ((h.rel i hi).mem_of_find? hf t).1 ht

/-- `getOrCreate` on the relation list read off edited targets that are all zero or alive
    never panics -/
theorem relGet_total {w : World} {a tid : Nat} {ts' : List Ent} (hR : RelInv w)
    (hlt : tid < w.tables.length) (hTa : (w.tbl tid).arch = a)
    (hrelA : (w.arch a).hasRelations = true) (hl : ts'.length = (w.tbl tid).ids.length)
    (hgood : ∀ (i : Nat), (w.tbl tid).isRel.getD i false = true →
      (ts'.getD i Ent.zero).isZero = true ∨ w.alive (ts'.getD i Ent.zero) = true) :
    ∃ (nt : Nat) (w1 : World),
      getOrCreate a (colRels (w.tbl tid).ids ts' (w.tbl tid).isRel) w = .ok nt w1 := by
  have hS := hR.sinv.toSInvMid
  have hT := get_of_lt hlt
  obtain ⟨A, hA, i1, i2, i3, _⟩ := hS.tblArch tid _ hT
  rw [hTa] at hA
  have hAe : w.arch a = A := arch_of_get hA
  have halt := alt_of_get hA
  have hnd := hS.ids_nodup hT
  have hrl := hS.isRel_len hT
  obtain ⟨f1, f2, f3, f4⟩ := colRels_facts (ts := ts') hnd hl hrl
  have hnum : A.numRel = (colRels (w.tbl tid).ids ts' (w.tbl tid).isRel).length := by
    rw [f2, (hS.astruct a A hA).numRelEq, i2]
  cases hall : colRels (w.tbl tid).ids ts' (w.tbl tid).isRel with
  | nil =>
    rw [hall] at hnum
    rw [hAe] at hrelA
    simp [Archetype.hasRelations, hnum] at hrelA
  | cons r0 rest =>
    have hr0 : r0 ∈ colRels (w.tbl tid).ids ts' (w.tbl tid).isRel := by rw [hall]; exact List.mem_cons_self
    obtain ⟨ic, c1, c2, _⟩ := f3 r0 hr0
    have hcolA : (w.arch a).colIdx r0.comp = some ic := by
      rw [hAe, ← colIdx_fun_eq i1]; exact Table.colIdx_of_get hnd c1
    have hlenA : (w.arch a).numRel ≤ (r0 :: rest).length := by rw [hAe, hnum, hall]; exact Nat.le_refl _
    have htotal : ∃ (r : Option Nat), getTable a (r0 :: rest) w = .ok r w := by
      apply getTable_rel_total hrelA hlenA hcolA
        (by rw [← hall]; exact colRels_comps_nodup hnd _ _)
      intro ts hf t ht
      rw [hAe] at hf
      have hact := ((hR.rinv a A hA).listed (by rw [← i2]; exact c2) hf ht).1
      obtain ⟨Tt, hTt, hTta⟩ := hS.owned a A t hA (Or.inl hact)
      obtain ⟨A', hA', j1, j2, _, _⟩ := hS.tblArch t Tt hTt
      rw [hTta, hA] at hA'
      obtain rfl := Option.some.inj hA'
      have hfree := (hS.member t Tt hTt).1
      rw [hTta, hAe] at hfree
      rw [tbl_of_get hTt]
      apply Table.matchesExact_total
      · have := (hR.aux.rels t Tt hTt (hfree.2 hact)).length_le (hS.isRel_len hTt)
        rw [j2, ← i2] at this
        rw [← hall, f2]; exact this
      · intro r hr j hj
        rw [← hall] at hr
        obtain ⟨i, a1, a2, _⟩ := f3 r hr
        have hj' := Table.colIdx_get hj
        rw [j1, ← i1] at hj'
        have := Table.colIdx_of_get hnd a1
        rw [Table.colIdx_of_get hnd hj'] at this
        obtain rfl := Option.some.inj this
        rw [j2, ← i2]; exact a2
    obtain ⟨res, hres⟩ := htotal
    cases res with
    | some nt => exact ⟨nt, w, getOrCreate_found hres⟩
    | none =>
      have hcols : ∀ (r : RelID), r ∈ r0 :: rest → ((w.arch a).colIdx r.comp).isSome = true := by
        intro r hr
        rw [← hall] at hr
        obtain ⟨i, a1, _, _⟩ := f3 r hr
        rw [hAe, ← colIdx_fun_eq i1, Table.colIdx_of_get hnd a1]; rfl
      have hvalid : RelsValid w (r0 :: rest) := by
        intro r hr
        rw [← hall] at hr
        obtain ⟨i, a1, a2, a3⟩ := f3 r hr
        exact ⟨hS.isRelComp_of_col hT a1 a2, by rw [← a3]; exact hgood i a2⟩
      obtain ⟨nt, w1, hct, _⟩ := hS.createTable_total hR.aux.cacheRels halt
        (fun hf => by rw [hrelA] at hf; cases hf) hlenA hcols (by rw [← hall]; exact f1) hvalid
      exact ⟨nt, w1, getOrCreate_created hres hct⟩

/-- **a valid `setRelations` never fails**: live entity, relation components it has, none
    twice, targets zero or alive, no observers -/
theorem setRelationsCore_total (run : ProbeRunner) {w : World} {fl : List Nat} (h : TInv w fl)
    (hl : w.isLocked = false) (hno : ∀ (evt : Nat), w.obs.hasObservers evt = false) {e : Ent}
    (h2 : 2 ≤ e.id) (hnf : e.id ∉ fl) (ha : w.alive e = true) (hin : e.id < w.pool.ents.length)
    {rels : List RelID}
    (hne : rels.isEmpty = false) (hnd : (rels.map (·.comp)).Nodup)
    (hhas : ∀ (r : RelID), r ∈ rels → (targetOf w e.id r.comp).isSome = true)
    (hval : ∀ (r : RelID), r ∈ rels → r.target.isZero = true ∨ w.alive r.target = true) :
    ∃ (w' : World), setRelationsCore run e rels w = .ok () w' := by
  obtain ⟨oldT, row, he, htm, _⟩ := h.link.live_entry h2 hnf ha hin
  have hix := index_of_get he
  obtain ⟨hT, hrow, _⟩ := h.link.idx.indexed he htm
  have hlt := lt_of_get hT
  have hS := h.rel.sinv.toSInvMid
  have hTf : (w.tbl oldT).isFree = false := by
    cases hf : (w.tbl oldT).isFree with
    | false => rfl
    | true => have := h.freeEmpty oldT _ hT hf; omega
  have hTex := h.rel.aux.rels oldT _ hT hTf
  have hcols : ∀ (r : RelID), r ∈ rels → ∃ (i : Nat), (w.tbl oldT).colIdx r.comp = some i ∧
      (w.tbl oldT).isRel.getD i false = true := by
    intro r hr
    obtain ⟨t, r', k, T, h1, _, h3, h4, h5⟩ := targetOf_isSome (hhas r hr)
    rw [he] at h1
    obtain ⟨rfl, rfl⟩ := Prod.mk.inj (Option.some.inj h1)
    rw [hT] at h3
    obtain rfl := Option.some.inj h3
    exact ⟨k, h4, h5⟩
  obtain ⟨ch, cm, hx, _, htrue⟩ := getExchangeTargets_spec (w.tbl oldT) rels w hcols hnd
  cases ch with
  | false => exact ⟨w, setRelationsCore_unchanged run e rels w hl ha hne hix hx⟩
  | true =>
    simp only [if_true] at hx
    obtain ⟨r1, hr1, i1, hi1, _⟩ := htrue rfl
    have hi1r : (w.tbl oldT).isRel.getD i1 false = true := by
      obtain ⟨i, hi, hir⟩ := hcols r1 hr1
      rw [hi1] at hi
      obtain rfl := Option.some.inj hi
      exact hir
    have hrelA : (w.arch (w.tbl oldT).arch).hasRelations = true := by
      obtain ⟨A, hA, _, e2, _⟩ := hS.tblArch oldT _ hT
      rw [arch_of_get hA]
      exact (hS.astruct _ A hA).hasRelations_of_rel (by rw [← e2]; exact hi1r)
    obtain ⟨nt, w1, hgo⟩ := relGet_total (ts' := setTargets (w.tbl oldT).colIdx rels (w.tbl oldT).targets)
      h.rel hlt rfl hrelA (by rw [setTargets_length, hTex.tlen]) (by
        intro i hi
        rcases setTargets_getD_cases (w.tbl oldT).colIdx i Ent.zero rels (w.tbl oldT).targets with k | ⟨r, hr, k⟩
        · rw [k]; exact h.rel.aux.targets oldT _ hT hTf i hi
        · rw [k]; exact hval r hr)
    have hno1 : ∀ (evt : Nat), w1.obs.hasObservers evt = false := by
      intro evt
      have : w1.obs = w.obs := by
        simp only [getOrCreate, bind, M.bind] at hgo
        cases hg : getTable (w.tbl oldT).arch _ w with
        | panic k s => rw [hg] at hgo; cases hgo
        | ok r s =>
          have hs : w = s := (getTable_ok_state hg).symm
          subst hs
          rw [hg] at hgo
          cases r with
          | some t =>
            simp only [pure, M.pure] at hgo
            injection hgo with _ e2
            rw [← e2]
          | none => exact (createTable_untouched hgo).obs
      rw [this]; exact hno evt
    exact ⟨_, setRelationsCore_changed run e rels w hl ha hne hix hx hgo hno1⟩

/-- iterating: an accepted `SetRelations` on an entity that sits in a table keeps `Good` -/
theorem Good.setRelations (run : ProbeRunner) (p : Path) {w : World} (h : Good w) {e : Ent}
    (ha : w.alive e = true) (hidx : (w.index e.id).1 ≠ maxU32) (hlt : e.id < w.entities.length)
    {mapperIds : List Comp} {rels : List RelID} (hne : rels.isEmpty = false)
    (hnd : (rels.map (·.comp)).Nodup)
    (hhas : ∀ (r : RelID), r ∈ rels → (targetOf w e.id r.comp).isSome = true)
    (htin : ∀ (r : RelID), r ∈ rels → r.target.id < w.pool.ents.length)
    (hfew : w.tables.length < maxU32) (hrows : w.entities.length + 1 < 2 ^ 32)
    (hnp : panicOf (opSetRelations run p e mapperIds rels w) = none) :
    Good (opSetRelations run p e mapperIds rels w).state := by
  obtain ⟨fl, ht, hl, hno⟩ := h
  have hent : w.entities[e.id]? = some ((w.index e.id).1, (w.index e.id).2) := by
    simp only [World.index, List.getD_eq_getElem?_getD, List.getElem?_eq_getElem hlt,
      Option.getD_some]
  obtain ⟨h2, hnf⟩ := ht.link.indexed_live hent hidx
  obtain ⟨u, hr⟩ := ok_of_panicOf hnp
  have post := opSetRelations_spec run p ht hl hno h2 hnf ha
    (by rw [← ht.link.lenEq]; exact hlt) hne hnd hhas htin hfew hrows hr
  exact ⟨fl, post.tinv, by show (opSetRelations run p e mapperIds rels w).state.locks.isLocked = false
                           rw [post.locks]; exact hl,
    fun evt => by rw [post.obs]; exact hno evt⟩

/-! ## the lookups of `SetRelations` neither read nor write observers, log and lock

(the frame vocabulary is that of Ark/Proofs/CallbacksFrame.lean; used by the event theorems of
Ark/Proofs/CallbacksRel.lean and by the normal form of `setRelationsBatch`,
Ark/Proofs/BatchRelSet.lean) -/

namespace World

theorem frames_getOrCreate (a : Nat) (rels : List RelID) : Frames (getOrCreate a rels) := by
  unfold getOrCreate
  refine Frames.bind (frames_getTable _ _) fun r => ?_
  cases r with
  | some t => exact Frames.pure _
  | none => exact frames_createTable _ _

theorem getExchangeTargets_go_any (T : Table) (w w' : World) : ∀ (rels : List RelID)
    (ts : List Ent) (ch : Bool) (cm : Mask) (seen : List Comp),
    getExchangeTargets.go T w' ts ch cm seen rels
      = (getExchangeTargets.go T w ts ch cm seen rels).mapS fun _ => w'
  | [], _, _, _, _ => rfl
  | r :: rest, ts, ch, cm, seen => by
    simp only [getExchangeTargets.go]
    split
    · rfl
    · split
      · rfl
      · split
        · rfl
        · split
          · exact getExchangeTargets_go_any T w w' rest _ _ _ _
          · exact getExchangeTargets_go_any T w w' rest _ _ _ _

/-- `getExchangeTargets` only passes the world through -/
theorem getExchangeTargets_any (T : Table) (rels : List RelID) (w w' : World) :
    getExchangeTargets T rels w' = (getExchangeTargets T rels w).mapS fun _ => w' := by
  unfold getExchangeTargets
  rw [getExchangeTargets_go_any T w w']
  cases getExchangeTargets.go T w T.targets false Mask.empty [] rels with
  | panic k s => rfl
  | ok r s =>
    obtain ⟨ts, ch, cm⟩ := r
    simp only [Res.mapS_ok]
    cases ch <;> rfl

theorem getExchangeTargets_state (T : Table) (rels : List RelID) (w : World) :
    (getExchangeTargets T rels w).state = w := by
  unfold getExchangeTargets
  have := getExchangeTargets_go_state T w rels T.targets false Mask.empty []
  cases hr : getExchangeTargets.go T w T.targets false Mask.empty [] rels with
  | panic k s => rw [hr] at this; exact this
  | ok r s =>
    rw [hr] at this
    obtain ⟨ts, ch, cm⟩ := r
    simp only [Res.state] at this
    subst this
    cases ch <;> rfl

end World

end Ark
