/-
  Ark.Proofs.RelRefineBatchXMore — world-level facts about the exchange batch over relation tables
  that the refinement machine needs beyond `XchgAllPost` (Ark/Proofs/RelExchangeBatchSpec.lean):

  * `exchangeBatch_rel_more` — a valid `exchangeBatch` (callback `nil`) keeps the entity pool and
    the mask width and creates at most one table and one relation archetype per selected table;
  * `opExchangeBatch_refused`, `opExchangeBatch_noComponents` — the entry point with the
    pre-validation: a relation list that fails it, and a call with both component lists empty, are
    refused with the world unchanged;
  * `xchgSeq_pool` — the single `Exchange`s never touch the entity pool.

  Kernel-only proofs, core Lean only.
-/
import Ark.Proofs.RelExchangeBatchSpec
import Ark.Proofs.RelRejects

set_option autoImplicit false

namespace Ark

open World Ark.Props.C01World QueryRel

/-! ## rows hold alive handles, through the moves -/

/-- one table move keeps "rows hold alive handles": the handles of the source rows sit behind the
    old rows of the destination, the pool is untouched -/
theorem TableMovedRel.rows {w : World} {fl : List Nat} {rels : List RelID} {src dst : Nat}
    {w' : World} (tp : TableMovedRel w fl rels src dst w') (hR : RowsAlive w) : RowsAlive w' := by
  apply rowsAlive_of_tbl
  intro t r hr
  have hal : ∀ (x : Ent), w'.alive x = w.alive x := fun x => by simp only [World.alive, tp.pool]
  by_cases h1 : t = src
  · subst h1; rw [tp.srcEmpty] at hr; omega
  · by_cases h2 : t = dst
    · subst h2
      rw [tp.dstLen] at hr
      rw [tp.dstRows r hr, hal]
      split
      · rename_i hlt; exact hR.tbl hlt
      · exact hR.tbl (by omega)
    · rw [tp.others t h1 h2] at hr ⊢
      rw [hal]; exact hR.tbl hr

/-- **the move loop keeps "rows hold alive handles"** (hypotheses of `moveLoopX_post`) -/
theorem moveLoopX_rows {fl : List Nat} {rels : List RelID} :
    ∀ (bts : List BatchTable) {W : World}, MoveSt W fl rels → MovesX W bts →
    2 * W.entities.length < 2 ^ 32 →
    (bts ≠ [] →
      ∀ (r : RelID), r ∈ rels → r.target.isZero = false → r.target.id < W.isTarget.length) →
    RowsAlive W → RowsAlive (bts.foldl (moveStepX rels) W)
  | [], _, _, _, _, _, hR => hR
  | b :: bts, W, h, ok, hent, hreg0, hR => by
    have hreg := hreg0 (List.cons_ne_nil _ _)
    have hI := h.link.idx
    have hsn : b.oldT ∉ bts.map (·.oldT) ∧ (bts.map (·.oldT)).Nodup := by
      have := ok.srcNodup; rw [List.map_cons] at this; exact List.nodup_cons.mp this
    have hbo := ok.src b List.mem_cons_self
    have hbn := ok.dst b List.mem_cons_self
    have hne : b.oldT ≠ b.newT := fun hh => ok.disj b List.mem_cons_self b List.mem_cons_self hh.symm
    have hb : (W.tbl b.newT).len + (W.tbl b.oldT).len < 2 ^ 32 := by
      have h1 := hI.rows_le b.newT
      have h2 := hI.rows_le b.oldT
      omega
    have tp : TableMovedRel W fl rels b.oldT b.newT (moveStepX rels W b) :=
      h.tableMoved hne hbo hbn (ok.dstNF b List.mem_cons_self) hb hreg
    have hdstM : ∀ (b' : BatchTable), b' ∈ bts →
        Table.SameMeta (W.tbl b'.newT) ((moveStepX rels W b).tbl b'.newT) :=
      fun b' hb' => tp.ms.tmeta _ (ok.dst b' (List.mem_cons_of_mem _ hb'))
    have ok' : MovesX (moveStepX rels W b) bts :=
      ⟨hsn.2, fun b' hb' => by rw [tp.ms.len]; exact ok.src b' (List.mem_cons_of_mem _ hb'),
        fun b' hb' => by rw [tp.ms.len]; exact ok.dst b' (List.mem_cons_of_mem _ hb'),
        fun b' hb' => by
          rw [(hdstM b' hb').isFree]; exact ok.dstNF b' (List.mem_cons_of_mem _ hb'),
        fun b1 h1 b2 h2 => ok.disj b1 (List.mem_cons_of_mem _ h1) b2 (List.mem_cons_of_mem _ h2)⟩
    exact moveLoopX_rows bts tp.st ok' (by rw [tp.entitiesLen]; exact hent)
      (fun _ r hr hz => by rw [tp.isTargetLen]; exact hreg r hr hz) (tp.rows hR)

/-- what a valid `exchangeBatch` does to the fields `XchgAllPost` does not mention -/
structure XchgAllMore (w w' : World) (n : Nat) : Prop where
  pool : w'.pool = w.pool
  maxComps : w'.maxComps = w.maxComps
  relArchs : w'.relationArchetypes.length ≤ w.relationArchetypes.length + n
  tablesLen : w'.tables.length ≤ w.tables.length + n
  /-- rows hold alive handles -/
  rows : RowsAlive w → RowsAlive w'

/-- **a valid exchange batch** (hypotheses of `exchangeBatch_rel_spec`) keeps the entity pool and
    the mask width, and creates at most one table and one relation archetype per table -/
theorem exchangeBatch_rel_more (run : ProbeRunner) {w : World} {fl : List Nat} (h : TInv w fl)
    (hl : w.isLocked = false) (hno : ∀ (evt : Nat), w.obs.hasObservers evt = false)
    (fo : FilterObj) (extra : List RelID) (hc : fo.cache = none)
    (hr : RelsTyped w fo.filter (fo.rels ++ extra)) {add rem : List Comp} {rels : List RelID}
    (hne : ¬ (add = [] ∧ rem = []))
    (hpre : ∀ (t : Nat), t < w.tables.length → TblMatch w fo.filter (fo.rels ++ extra) t →
      (w.tbl t).len ≠ 0 → XchgPreM w (tmask w t) add rem rels)
    (htin : ∀ (r : RelID), r ∈ rels → r.target.id < w.pool.ents.length)
    {l1 l2 : Lock} {b : Nat} (hcyc : QueryExact.LockCycle w.locks l1 b l2)
    (hfew : 2 * w.tables.length < maxU32) (hrows : 2 * w.entities.length < 2 ^ 32)
    {w' : World} (hok : exchangeBatch run fo extra add rem rels none w = .ok () w') :
    XchgAllMore w w' w.tables.length := by
  have h0 : TInv ({ w with locks := l1 } : World) fl := h.withLocks l1
  obtain ⟨ts, hts0, S0, hok0, hnf0⟩ := getBatchTables_rel h0 fo extra hc hr
  have hS0 : SInvMid ({ w with locks := l1 } : World) := h0.rel.sinv.toSInvMid
  have hk256 : w.kinds.length ≤ 256 := Nat.le_trans h.kindsLe.1 h.kindsLe.2
  have htslen : ts.length ≤ w.tables.length :=
    BatchRel.nodup_length_le_of_lt S0.nodup (n := w.tables.length) (fun i hi => S0.lt i hi)
  have hpre0 : ∀ (t : Nat), t ∈ ts → (({ w with locks := l1 } : World).tbl t).len ≠ 0 →
      XchgPreM ({ w with locks := l1 } : World) (tmask ({ w with locks := l1 } : World) t)
        add rem rels := by
    intro t ht hlen
    exact (hpre t (S0.lt t ht) (hok0.sound t ht).2 hlen).congr rfl rfl
  obtain ⟨rr, bts, w1, i1, i2, i3, i4, i5, i6, i7, i8⟩ :=
    findLoopX_spec hS0 (fl := fl) (add := add) (rem := rem) (rels := rels) hk256 ts (false, [])
      ({ w with locks := l1 } : World) (h0.moveSt rels) (LExt.refl _)
      (fun t ht => ⟨S0.lt t ht, hnf0 t ht⟩) hpre0
      (by show w.tables.length + ts.length < maxU32; omega)
  simp only [List.nil_append] at i1
  have hno1 : ∀ (evt : Nat), w1.obs.hasObservers evt = false := by
    intro evt; rw [i3.untouched.obs]; exact hno evt
  have hneB := isEmpty_and_false hne
  have hbatch := exchangeBatch_rel_eq run fo extra add rem rels w hl hneB hcyc.lock hts0 i1 hno1
  have hsrcmem : ∀ (b0 : BatchTable), b0 ∈ bts → b0.oldT ∈ ts ∧ (w.tbl b0.oldT).len ≠ 0 := by
    intro b0 hb0
    have : b0.oldT ∈ bts.map (·.oldT) := List.mem_map_of_mem hb0
    rw [i4, List.mem_filter] at this
    refine ⟨this.1, ?_⟩
    have h2 := this.2
    simp only [bne_iff_ne, ne_eq] at h2
    exact h2
  have hokb : ∀ (b0 : BatchTable), b0 ∈ bts →
      XchgPreM ({ w with locks := l1 } : World)
        (tmask ({ w with locks := l1 } : World) b0.oldT) add rem rels :=
    fun b0 hb0 => hpre0 _ (hsrcmem b0 hb0).1 (hsrcmem b0 hb0).2
  have hsrcN : (bts.map (·.oldT)).Nodup := by
    rw [i4]; exact List.Pairwise.filter _ S0.nodup
  have mok : MovesX w1 bts := movesX_of_dest hS0 i3 hk256 hsrcN i5 hokb
  have hreg : bts ≠ [] → ∀ (r : RelID), r ∈ rels → r.target.isZero = false →
      r.target.id < w1.isTarget.length := by
    intro hb r hrm hz
    rw [i3.untouched.isTarget]
    show r.target.id < w.isTarget.length
    rw [h.link.tgtLen]; exact h.link.lt_of_in (htin r hrm)
  have ma := moveLoopX_post bts i2 mok (by rw [i3.entities]; exact hrows) hreg
  have hlocks : (registerW (bts.foldl (moveStepX rels) w1) rels).locks.unlock b = some l2 := by
    show (bts.foldl (moveStepX rels) w1).locks.unlock b = some l2
    rw [ma.locks, i3.untouched.locks]; exact hcyc.unlock
  rw [unlock_ok hlocks] at hbatch
  rw [hbatch] at hok
  injection hok with _ hw
  subst hw
  exact
    { pool := by
        show (bts.foldl (moveStepX rels) w1).pool = w.pool
        rw [ma.pool, i3.pool]
      maxComps := by
        show (bts.foldl (moveStepX rels) w1).maxComps = w.maxComps
        rw [ma.maxComps, i3.untouched.maxComps]
      relArchs := by
        show (bts.foldl (moveStepX rels) w1).relationArchetypes.length ≤ _
        rw [ma.ms.relationArchetypes]
        have : ({ w with locks := l1 } : World).relationArchetypes = w.relationArchetypes := rfl
        rw [this] at i7
        omega
      tablesLen := by
        show (bts.foldl (moveStepX rels) w1).tables.length ≤ _
        rw [ma.ms.len]
        have : ({ w with locks := l1 } : World).tables = w.tables := rfl
        rw [this] at i6
        omega
      rows := by
        intro hR
        -- after the lookups: a row in use is a row of the start world
        have hR1 : RowsAlive w1 := by
          apply rowsAlive_of_tbl
          intro t r hr
          have ht1 := World.tbl_len_pos_lt hr
          have hx := i2.link.idx.rowIdx t _ r (get_of_lt ht1) hr
          rw [i3.entities] at hx
          have htm : t ≠ maxU32 := by have := i2.link.fewTables; omega
          obtain ⟨T, hT, hrT, _⟩ := h0.link.idx.idxRow _ t r hx htm
          have hex := lt_of_get hT
          have hnf : (({ w with locks := l1 } : World).tbl t).isFree = false :=
            notFree_of_rows h0.freeEmpty hex (by rw [tbl_of_get hT]; omega)
          have heq : w1.tbl t = ({ w with locks := l1 } : World).tbl t := i3.tbl hex hnf
          rw [heq] at hr ⊢
          have hal : w1.alive ((({ w with locks := l1 } : World).tbl t).getEntity r) =
              w.alive ((w.tbl t).getEntity r) := by
            simp only [World.alive, i3.pool]; rfl
          rw [hal]
          exact hR.tbl hr
        have hR2 := moveLoopX_rows bts i2 mok (by rw [i3.entities]; exact hrows) hreg hR1
        exact fun t T r hT hr => hR2 t T r hT hr }

namespace World

/-- a relation list that fails the pre-validation is refused before anything is touched -/
theorem opExchangeBatch_refused (run : ProbeRunner) (p : Path) (fo : FilterObj)
    (extra : List RelID) (add rem : List Comp) (rels : List RelID)
    (vals : Option (List (Comp × Val))) (w : World) {k : PanicKind}
    (h : relsVerdict w (checkMask p add) rels = some k) :
    opExchangeBatch run p fo extra add rem rels vals w = .panic k w := by
  have hpre : preCheck p add rels w = .panic k w := by rw [preCheck_eq, h]
  simp only [opExchangeBatch, bind, M.bind, hpre]

/-- a batch with both component lists empty is refused before anything is touched (by the
    pre-validation if the relation list fails it, else with `noComponents`) -/
theorem opExchangeBatch_noComponents (run : ProbeRunner) (p : Path) (fo : FilterObj)
    (extra : List RelID) (rels : List RelID) (vals : Option (List (Comp × Val))) (w : World)
    (hl : w.isLocked = false) :
    ∃ (k : PanicKind), opExchangeBatch run p fo extra [] [] rels vals w = .panic k w := by
  rcases preCheck_cases p [] rels w with h1 | ⟨k, h1⟩
  · refine ⟨.noComponents, ?_⟩
    simp only [opExchangeBatch, bind, M.bind, h1, exchangeBatch, checkLocked_unlocked w hl,
      M.assert, List.isEmpty_nil, Bool.and_self, Bool.not_true, Bool.false_eq_true, if_false]
  · exact ⟨k, by simp only [opExchangeBatch, bind, M.bind, h1]⟩

end World

/-- **the single `Exchange`s keep the entity pool** (hypotheses of `xchgSeq_post`) -/
theorem xchgSeq_pool (run : ProbeRunner) (p : Path) {add rem : List Comp} {rels : List RelID} :
    ∀ (l : List Ent) {w : World} {fl : List Nat}, TInv w fl → w.isLocked = false →
    (∀ (evt : Nat), w.obs.hasObservers evt = false) →
    (∀ (e : Ent), e ∈ l → 2 ≤ e.id ∧ e.id ∉ fl ∧ w.alive e = true ∧ XchgPre w e add rem rels) →
    (∀ (e : Ent), e ∈ l → e.id < w.pool.ents.length) →
    (l.map (·.id)).Nodup →
    (∀ (r : RelID), r ∈ rels → r.target.id < w.pool.ents.length) →
    w.tables.length + l.length < maxU32 → w.entities.length + 1 < 2 ^ 32 →
    ∀ (w'' : World), xchgSeq run p add rem rels l w = .ok () w'' → w''.pool = w.pool
  | [], w, fl, _, _, _, _, _, _, _, _, _, w'', hs => by
    simp only [xchgSeq, M.forM', pure, M.pure] at hs
    injection hs with _ hw
    rw [← hw]
  | e :: l, w, fl, h, hl, hno, hlive, hlin, hndi, htin, hfew, hrows, w'', hs => by
    obtain ⟨h2, hnf, ha, hp⟩ := hlive e List.mem_cons_self
    have hsl := hlin e List.mem_cons_self
    have hnd' : e.id ∉ l.map (·.id) ∧ (l.map (·.id)).Nodup := by
      rw [List.map_cons] at hndi; exact List.nodup_cons.mp hndi
    simp only [List.length_cons] at hfew
    obtain ⟨w1, hok, sp⟩ := opExchange_rel_spec run p h hl hno h2 hnf ha hsl hp [] htin (by omega)
      hrows
    have hplen : w1.pool.ents.length = w.pool.ents.length := by rw [sp.pool]
    have hne' : ∀ (e' : Ent), e' ∈ l → e'.id ≠ e.id := by
      intro e' he' heq
      exact hnd'.1 (heq ▸ List.mem_map_of_mem he')
    have hlive1 : ∀ (e' : Ent), e' ∈ l → 2 ≤ e'.id ∧ e'.id ∉ fl ∧ w1.alive e' = true ∧
        XchgPre w1 e' add rem rels := by
      intro e' he'
      obtain ⟨a, b, c, d⟩ := hlive e' (List.mem_cons_of_mem _ he')
      have c1 : w1.alive e' = true := by rw [sp.aliveSame]; exact c
      have d1 := hlin e' (List.mem_cons_of_mem _ he')
      exact ⟨a, b, c1, d.congr
        (maskOf_get_eq h sp.tinv a b c d1 b c1 (by rw [hplen]; exact d1)
          (sp.frame e'.id (hne' e' he')).1.2) sp.kinds sp.pool⟩
    simp only [xchgSeq, M.forM', bind, M.bind, hok] at hs
    have ih := xchgSeq_pool run p l sp.tinv
      (by show w1.locks.isLocked = false; rw [sp.locks]; exact hl)
      (fun evt => by rw [sp.obs]; exact hno evt) hlive1
      (fun e' he' => by rw [hplen]; exact hlin e' (List.mem_cons_of_mem _ he')) hnd'.2
      (fun r hr => by rw [hplen]; exact htin r hr)
      (by have := sp.tablesLen; omega) (by rw [sp.entitiesLen]; exact hrows) w'' hs
    exact ih.trans sp.pool

end Ark
