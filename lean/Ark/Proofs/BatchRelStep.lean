/-
  Ark.Proofs.BatchRelStep — C06 + C04 with relations, part 2: one iteration of the inner loop of
  `cleanupArchetypes g` while the dead targets `D ∋ g` are pending (`cleanTable_stepD`, the
  multi-target form of `cleanTable_step` of `Ark.Proofs.TargetsStep`): the rows of a table with a
  column targeting `g` move to the table with EVERY dead target replaced by the zero entity, the
  table is freed.
  * `TgtStepP p o o'` / `CleanFrameD w0 w` — what the entities see: a target is kept or, if it is
    dead, reset (`Option.map (zeroDead p)`);
  * `freeW_stepD` — the freeing block;
  * `cleanTable_stepD` — the iteration, with `QKeep`.
  Kernel-only proofs, core Lean only.
-/
import Ark.Proofs.BatchRelClean

set_option autoImplicit false

namespace Ark

open World Ark.Props.C01World QueryRel

/-! ## 1. what the entities see of the cleanup -/

/-- one step of the cleanup changes a target not at all, or resets it if it is dead -/
def TgtStepP (p : Pool) (o o' : Option Ent) : Prop := o' = o ∨ o' = o.map (zeroDead p)

theorem TgtStepP.refl (p : Pool) (o : Option Ent) : TgtStepP p o o := Or.inl rfl

theorem TgtStepP.trans {p : Pool} {a b c : Option Ent} (h1 : TgtStepP p a b)
    (h2 : TgtStepP p b c) : TgtStepP p a c := by
  rcases h1 with rfl | rfl
  · exact h2
  · rcases h2 with rfl | rfl
    · exact Or.inr rfl
    · right
      cases a with
      | none => rfl
      | some x => simp only [Option.map_some, zeroDead_idem]

/-- how a world `w` reached during the cleanup relates to the world `w0` it started from -/
structure CleanFrameD (w0 w : World) : Prop where
  pool : w.pool = w0.pool
  isTarget : w.isTarget = w0.isTarget
  kinds : w.kinds = w0.kinds
  maxComps : w.maxComps = w0.maxComps
  relationArchetypes : w.relationArchetypes = w0.relationArchetypes
  obs : w.obs = w0.obs
  locks : w.locks = w0.locks
  archLen : w.archetypes.length = w0.archetypes.length
  idxSame : IdxSame w0 w
  same : ∀ (j : Nat), SameEnt w0 w j
  tgt : ∀ (j : Nat) (c : Comp), TgtStepP w0.pool (targetOf w0 j c) (targetOf w j c)
  tablesLe : w0.tables.length ≤ w.tables.length

theorem CleanFrameD.refl (w : World) : CleanFrameD w w :=
  ⟨rfl, rfl, rfl, rfl, rfl, rfl, rfl, rfl, IdxSame.refl w,
    fun _ => ⟨fun _ => rfl, rfl⟩, fun _ _ => TgtStepP.refl _ _, Nat.le_refl _⟩

theorem CleanFrameD.trans {a b c : World} (h1 : CleanFrameD a b) (h2 : CleanFrameD b c) :
    CleanFrameD a c :=
  ⟨h2.pool.trans h1.pool, h2.isTarget.trans h1.isTarget, h2.kinds.trans h1.kinds,
    h2.maxComps.trans h1.maxComps, h2.relationArchetypes.trans h1.relationArchetypes,
    h2.obs.trans h1.obs, h2.locks.trans h1.locks, h2.archLen.trans h1.archLen,
    h1.idxSame.trans h2.idxSame, fun j => (h1.same j).trans (h2.same j),
    fun j c => (h1.tgt j c).trans (by have := h2.tgt j c; rw [h1.pool] at this; exact this),
    Nat.le_trans h1.tablesLe h2.tablesLe⟩

/-! ## 2. the freeing block -/

/-- **the freeing block**: `FreeTable` on the archetype, `isFree := true` on the (empty, active)
    table, `cache.removeTable` — keeps the cleanup invariants -/
theorem freeW_stepD {D : List Ent} {g : Ent} {a tid : Nat} {w : World} (hB : CleanBaseD D w)
    (hX : RInvExcept w a g.id) (ha : a < w.archetypes.length)
    (hact : tid ∈ (w.arch a).tables.tables) (hrelA : (w.arch a).hasRelations = true)
    (hlen0 : (w.tbl tid).len = 0)
    (hsingle : (w.arch a).numRel ≤ 1 → ∀ (i : Nat), (w.arch a).isRel.getD i false = true →
      ((w.tbl tid).targets.getD i Ent.zero).id = g.id) :
    CleanBaseD D (freeW w a tid) ∧ RInvExcept (freeW w a tid) a g.id ∧ Freed w (freeW w a tid) a tid := by
  have hS := hB.sinv.toSInvMid
  have hA := aget_of_lt ha
  obtain ⟨T, hT, hTa⟩ := hS.owned a _ tid hA (Or.inl hact)
  have hTe := tbl_of_get hT
  have hlt := lt_of_get hT
  have hTa' : (w.tbl tid).arch = a := by rw [hTe]; exact hTa
  have hmem := hS.member tid T hT
  rw [hTa] at hmem
  have hTf : (w.tbl tid).isFree = false := by rw [hTe]; exact hmem.1.2 hact
  have hnf : tid ∉ (w.arch a).freeTables := by
    intro hin
    have := hmem.2.2 hin
    rw [← hTe, hTf] at this; cases this
  have hstruct := hS.astruct a _ hA
  -- the world before `cache.removeTable`
  have hsh : StepShape w ((w.modArch a fun A => A.freeTable tid).modTbl tid fun T => { T with isFree := true })
      tid { w.tbl tid with isFree := true } ((w.arch a).freeTable tid) := by
    refine
      { lt := hlt
        tables := rfl
        archs := by rw [hTa']; rfl
        kinds := rfl
        id := rfl, arch := rfl, ids := rfl, isRel := rfl, zst := rfl, targets := rfl, relIDs := rfl
        arel := by rw [hTa']; exact Archetype.freeTable_archRel _ _
        astruct := hstruct.freeTable tid hnf
        mem := ?_
        other := ?_
        nonRel := ?_ }
    · refine ⟨⟨fun e => Bool.noConfusion e, fun hin => ?_⟩, ⟨fun _ => ?_, fun _ => rfl⟩⟩
      · rw [Archetype.freeTable_tables, hstruct.tablesWF.mem_remove] at hin
        exact absurd rfl hin.2
      · rw [Archetype.freeTable_freeTables]; simp
    · intro t0 e
      rw [hTa']
      refine ⟨?_, ?_⟩
      · rw [Archetype.freeTable_tables, hstruct.tablesWF.mem_remove]
        exact ⟨fun hin => hin.1, fun hin => ⟨hin, e⟩⟩
      · rw [Archetype.freeTable_freeTables]; simp [e]
    · intro hno
      rw [hTa', hrelA] at hno; cases hno
  have hsinv1 := hsh.sinv hB.sinv
  have hfields := cacheRemoveTable_fields
    ((w.modArch a fun A => A.freeTable tid).modTbl tid fun T => { T with isFree := true }) tid
  have htab : (freeW w a tid).tables = w.tables.set tid { w.tbl tid with isFree := true } := rfl
  have harch : (freeW w a tid).archetypes = w.archetypes.set a ((w.arch a).freeTable tid) := rfl
  have harchA : (freeW w a tid).arch a = (w.arch a).freeTable tid := by
    simp only [arch, harch, List.getD_eq_getElem?_getD, List.getElem?_set_self ha, Option.getD_some]
  have hget : ∀ (t0 : Nat) (T0 : Table), (freeW w a tid).tables[t0]? = some T0 →
      (t0 = tid ∧ T0 = { w.tbl tid with isFree := true }) ∨ (t0 ≠ tid ∧ w.tables[t0]? = some T0) := by
    intro t0 T0 h0
    rw [htab] at h0
    by_cases e : t0 = tid
    · subst e
      rw [List.getElem?_set_self hlt] at h0
      exact Or.inl ⟨rfl, (Option.some.inj h0).symm⟩
    · rw [List.getElem?_set_ne (fun x => e x.symm)] at h0
      exact Or.inr ⟨e, h0⟩
  have htgfun : (fun t => ((freeW w a tid).tbl t).targets) = fun t => (w.tbl t).targets := by
    funext t
    by_cases e : t = tid
    · subst e
      have : (freeW w a t).tbl t = { w.tbl t with isFree := true } :=
        tbl_of_get (by rw [htab]; exact List.getElem?_set_self hlt)
      rw [this]
    · have : (freeW w a tid).tbl t = w.tbl t := by
        simp only [tbl, htab, List.getD_eq_getElem?_getD, List.getElem?_set_ne (fun x => e x.symm)]
      rw [this]
  refine ⟨?_, ?_, ?_⟩
  · refine
      { idx := ?_
        sinv := hsinv1.congr rfl rfl rfl
        tgts := ?_
        rels := ?_
        cacheRels := cacheRemoveTable_relsOK hB.cacheRels tid
        flags := ?_
        freeEmpty := ?_
        relArchs := ?_ }
    · have := hB.idx.of_same_rows tid { w.tbl tid with isFree := true }
        (Table.setFree_shape (hB.idx.shape tid _ (get_of_lt hlt)) true) rfl rfl (fun _ _ => rfl)
      exact this.congr rfl rfl
    · intro t0 T0 h0 hf i hi
      rcases hget t0 T0 h0 with ⟨_, rfl⟩ | ⟨_, h1⟩
      · cases hf
      · exact hB.tgts t0 T0 h1 hf i hi
    · intro t0 T0 h0 hf
      rcases hget t0 T0 h0 with ⟨_, rfl⟩ | ⟨_, h1⟩
      · cases hf
      · exact hB.rels t0 T0 h1 hf
    · intro t0 T0 h0 hf i hi hz
      rcases hget t0 T0 h0 with ⟨_, rfl⟩ | ⟨_, h1⟩
      · cases hf
      · exact hB.flags t0 T0 h1 hf i hi hz
    · intro t0 T0 h0 hf
      rcases hget t0 T0 h0 with ⟨_, rfl⟩ | ⟨_, h1⟩
      · exact hlen0
      · exact hB.freeEmpty t0 T0 h1 hf
    · intro b B hB' hrel
      show b ∈ w.relationArchetypes
      rw [harch] at hB'
      by_cases e : b = a
      · subst e
        rw [List.getElem?_set_self ha] at hB'
        obtain rfl := Option.some.inj hB'
        apply hB.relArchs b _ hA
        simpa only [Archetype.hasRelations, Archetype.freeTable_numRel] using hrel
      · rw [List.getElem?_set_ne (fun x => e x.symm)] at hB'
        exact hB.relArchs b B hB' hrel
  · constructor
    · intro A1 hA1
      rw [harch, List.getElem?_set_self ha] at hA1
      obtain rfl := Option.some.inj hA1
      rw [htgfun]
      exact (hX.1 _ hA).freeTable tid hnf hsingle
    · intro b B hb hB'
      rw [harch, List.getElem?_set_ne (fun x => hb x.symm)] at hB'
      rw [htgfun]
      exact hX.2 b B hb hB'
  · exact
      { entities := rfl, pool := rfl, isTarget := rfl, kinds := rfl, maxComps := rfl,
        relationArchetypes := rfl, obs := rfl, locks := rfl, tables := htab, archA := harchA,
        archLen := by rw [harch, List.length_set]
        otherArchs := fun b hb => by rw [harch, List.getElem?_set_ne (fun x => hb x.symm)] }

/-! ## 3. one iteration of the inner loop -/

theorem targetAt_zeroDead {p : Pool} {T N : Table} (hids : N.ids = T.ids) (hrel : N.isRel = T.isRel)
    (htg : ∀ (i : Nat), T.isRel.getD i false = true →
      N.targets.getD i Ent.zero = zeroDead p (T.targets.getD i Ent.zero)) (c : Comp) :
    N.targetAt c = (T.targetAt c).map (zeroDead p) := by
  simp only [Table.targetAt, Table.colIdx, hids, hrel]
  split
  · simp only [Option.bind_some]
    split
    · rename_i hr
      rw [htg _ hr]; rfl
    · rfl
  · rfl

/-- what one iteration of the inner loop of `cleanupArchetypes g` (table `tid` of archetype `a`)
    guarantees -/
structure CleanStepD (D : List Ent) (g : Ent) (a tid : Nat) (w w' : World) : Prop where
  base : CleanBaseD D w'
  exc : RInvExcept w' a g.id
  frame : CleanFrameD w w'
  /-- an active table afterwards is an old one other than `tid` with its targets, or has no
      column targeting `g` -/
  act : ∀ (t : Nat), t ∈ (w'.arch a).tables.tables →
    (t ∈ (w.arch a).tables.tables ∧ t ≠ tid ∧ (w'.tbl t).targets = (w.tbl t).targets) ∨
    (∀ (i : Nat), (w.arch a).isRel.getD i false = true →
      ((w'.tbl t).targets.getD i Ent.zero).id ≠ g.id)
  keep : ∀ (t : Nat), t ∈ (w.arch a).tables.tables → t ≠ tid →
    t ∈ (w'.arch a).tables.tables ∧ (w'.tbl t).targets = (w.tbl t).targets
  isRel : (w'.arch a).isRel = (w.arch a).isRel
  otherArchs : ∀ (b : Nat), b ≠ a → w'.archetypes[b]? = w.archetypes[b]?
  hasFree : (w'.arch a).freeTables ≠ []
  lenB : w'.tables.length ≤ w.tables.length + 1
  lenFresh : w'.tables.length = w.tables.length + 1 → (w.arch a).freeTables = []

theorem cleanTable_stepD {D : List Ent} {g : Ent} {a tid : Nat} {w : World} (hB : CleanBaseD D w)
    (hD : DeadSet w.pool D) (hg : g ∈ D)
    (hX : RInvExcept w a g.id) (ha : a < w.archetypes.length)
    (hact : tid ∈ (w.arch a).tables.tables)
    (htg : ∃ (i0 : Nat), (w.arch a).isRel.getD i0 false = true ∧
      ((w.tbl tid).targets.getD i0 Ent.zero).id = g.id)
    (hfew : w.tables.length + 1 ≤ maxU32) (hrows : 2 * w.entities.length < 2 ^ 32) :
    ∃ (w' : World), cleanTable g a tid w = .ok () w' ∧ CleanStepD D g a tid w w' ∧ QKeep w w' := by
  have hg0 : g.id ≠ 0 := hD.nz g hg
  have hS := hB.sinv.toSInvMid
  have hA := aget_of_lt ha
  obtain ⟨T, hT, hTa⟩ := hS.owned a _ tid hA (Or.inl hact)
  have hTe := tbl_of_get hT
  have hlt := lt_of_get hT
  have hTa' : (w.tbl tid).arch = a := by rw [hTe]; exact hTa
  have hmem := hS.member tid T hT
  rw [hTa] at hmem
  have hTf : (w.tbl tid).isFree = false := by rw [hTe]; exact hmem.1.2 hact
  obtain ⟨A', hA', i1, i2, i3, _⟩ := hS.tblArch tid _ (get_of_lt hlt)
  rw [hTa', hA] at hA'
  obtain rfl := Option.some.inj hA'
  have hnd := hS.ids_nodup (get_of_lt hlt)
  have hrl := hS.isRel_len (get_of_lt hlt)
  have hTex := hB.rels tid _ (get_of_lt hlt) hTf
  have hokt : ∀ (i : Nat), (w.tbl tid).isRel.getD i false = true →
      OKTs w D ((w.tbl tid).targets.getD i Ent.zero) :=
    fun i hi => hB.tgts tid _ (get_of_lt hlt) hTf i hi
  obtain ⟨i0, hi0, hid0⟩ := htg
  have hi0' : (w.tbl tid).isRel.getD i0 false = true := by rw [i2]; exact hi0
  have hrelA : (w.arch a).hasRelations = true := (hS.astruct a _ hA).hasRelations_of_rel hi0
  have hsingle : (w.arch a).numRel ≤ 1 → ∀ (i : Nat), (w.arch a).isRel.getD i false = true →
      ((w.tbl tid).targets.getD i Ent.zero).id = g.id := by
    intro h1 i hi
    have := getD_true_unique (w.arch a).isRel (by rw [← (hS.astruct a _ hA).numRelEq]; exact h1) i i0 hi hi0
    rw [this]; exact hid0
  obtain ⟨c1, c2, c3⟩ := cleanRelsD_spec (g := g) hTex hnd hrl hokt hD hg
  rw [cleanTable_eq]
  by_cases hlen : (w.tbl tid).len > 0
  · -- the table has rows: find or create the destination, move, free
    rw [if_pos hlen, getExchangeTargetsUnchecked_eq _ _ c1]
    obtain ⟨nt, w1, hgo, hB1, hX1, cg, q1⟩ := cleanGetD hB hD hg hX hlt hTa' hTf ⟨i0, hi0', hid0⟩ c2 c3
    simp only [hgo]
    have htid1 : w1.tables[tid]? = w.tables[tid]? := cg.others tid (Ne.symm cg.ntNe)
    have htbl1 : w1.tbl tid = w.tbl tid := by simp only [tbl, List.getD_eq_getElem?_getD, htid1]
    have hlt1 : tid < w1.tables.length := Nat.lt_of_lt_of_le hlt cg.tablesLe
    have hlen1 : w1.tables.length ≤ maxU32 := by have := cg.lenB; omega
    have hI1 := hB1.idx
    have hrowsB : (w1.tbl nt).len + (w1.tbl tid).len < 2 ^ 32 := by
      have h1 := hI1.rows_le nt
      have h2 := hI1.rows_le tid
      rw [cg.entities] at h1 h2
      omega
    have mv := hI1.moved (src := tid) (dst := nt) (Ne.symm cg.ntNe) hlt1 cg.ntLt (by omega)
      (by have := cg.ntLt; omega) (by rw [htbl1, cg.ntIds]) (by rw [htbl1, cg.ntZst]) hrowsB
    rw [htbl1] at mv
    -- the world after the move
    have hal2 : ∀ (e : Ent), (moveEntitiesW w1 tid nt (w.tbl tid).len).alive e = w1.alive e :=
      fun e => by simp only [World.alive, mv.pool]
    have hal1 : ∀ (e : Ent), w1.alive e = w.alive e := fun e => by simp only [World.alive, cg.pool]
    have hB2 : CleanBaseD D (moveEntitiesW w1 tid nt (w.tbl tid).len) := by
      refine
        { idx := mv.idx
          sinv := hB1.sinv.of_sameMeta mv.ms.archetypes mv.ms.kinds mv.ms.len mv.ms.tmeta
          tgts := (hB1.tgts.of_metaStep mv.ms).mono ?_
          rels := hB1.rels.of_sameMeta mv.ms.len mv.ms.tmeta
          cacheRels := by intro e he; rw [mv.ms.cache] at he; exact hB1.cacheRels e he
          flags := hB1.flags.of_metaStep mv.ms (fun i hi => by rw [mv.isTarget]; exact hi)
          freeEmpty := ?_
          relArchs := by
            intro b B hB' hrel
            rw [mv.ms.archetypes] at hB'
            rw [mv.ms.relationArchetypes]
            exact hB1.relArchs b B hB' hrel }
      · intro e he
        rcases he with h1 | ⟨h1, h2⟩ | h1
        · exact Or.inl h1
        · exact Or.inr (Or.inl ⟨by rw [hal2]; exact h1, h2⟩)
        · exact Or.inr (Or.inr h1)
      · intro t0 T0 h0 hf
        by_cases e1 : t0 = tid
        · subst e1; rw [← tbl_of_get h0]; exact mv.srcLen
        · by_cases e2 : t0 = nt
          · subst e2
            have hlt0 : t0 < w1.tables.length := cg.ntLt
            have := (mv.ms.tmeta t0 hlt0).isFree
            rw [tbl_of_get h0, cg.ntFree] at this
            rw [this] at hf; cases hf
          · rw [mv.lenOther t0 e1 e2] at h0
            exact hB1.freeEmpty t0 T0 h0 hf
    have hX2 : RInvExcept (moveEntitiesW w1 tid nt (w.tbl tid).len) a g.id := by
      have hfun := targets_fun_eq mv.ms.len mv.ms.tmeta
      constructor
      · intro A1 hA1; rw [mv.ms.archetypes] at hA1; rw [hfun]; exact hX1.1 A1 hA1
      · intro b B hb hB'; rw [mv.ms.archetypes] at hB'; rw [hfun]; exact hX1.2 b B hb hB'
    have harch2 : ∀ (b : Nat), (moveEntitiesW w1 tid nt (w.tbl tid).len).arch b = w1.arch b :=
      fun b => by simp only [arch, mv.ms.archetypes]
    have ha2 : a < (moveEntitiesW w1 tid nt (w.tbl tid).len).archetypes.length := by
      rw [mv.ms.archetypes, cg.archLen]; exact ha
    have hact1 : tid ∈ (w1.arch a).tables.tables := (cg.actA tid).2 (Or.inl hact)
    have hmeta2 := mv.ms.tmeta tid hlt1
    have htg2 : ((moveEntitiesW w1 tid nt (w.tbl tid).len).tbl tid).targets = (w.tbl tid).targets := by
      rw [hmeta2.targets, htbl1]
    have hnumRel1 : (w1.arch a).numRel = (w.arch a).numRel := by
      have s1 := hB1.sinv.astruct a _ (aget_of_lt (by rw [cg.archLen]; exact ha))
      rw [s1.numRelEq, cg.archIsRel, ← (hS.astruct a _ hA).numRelEq]
    obtain ⟨hB3, hX3, fr⟩ := freeW_stepD hB2 hX2 ha2 (by rw [harch2]; exact hact1)
      (by rw [harch2]; simp only [Archetype.hasRelations, hnumRel1]; exact hrelA) mv.srcLen (by
        rw [harch2, hnumRel1, cg.archIsRel, htg2]; exact hsingle)
    have hq : QKeep w (freeW (moveEntitiesW w1 tid nt (w.tbl tid).len) a tid) := by
      have mvq := moved_qkeep hI1 (src := tid) (dst := nt) (Ne.symm cg.ntNe) hlt1 cg.ntLt hrowsB
      rw [htbl1] at mvq
      exact (q1.trans mvq).trans (freeW_qkeep _ a tid)
    refine ⟨_, rfl, ?_, hq⟩
    -- tables of the final world
    have htab3 : ∀ (t : Nat), t ≠ tid →
        (freeW (moveEntitiesW w1 tid nt (w.tbl tid).len) a tid).tbl t =
          (moveEntitiesW w1 tid nt (w.tbl tid).len).tbl t := by
      intro t ht
      exact tbl_eq_of_get (by rw [fr.tables, List.getElem?_set_ne (fun x => ht x.symm)])
    have htgt_nt : ∀ (i : Nat), (w.tbl tid).isRel.getD i false = true →
        ((freeW (moveEntitiesW w1 tid nt (w.tbl tid).len) a tid).tbl nt).targets.getD i Ent.zero =
          zeroDead w.pool ((w.tbl tid).targets.getD i Ent.zero) := by
      intro i hi
      rw [htab3 nt cg.ntNe, (mv.ms.tmeta nt cg.ntLt).targets, cg.ntTgt i hi, c3 i hi]
    have hkeepT : ∀ (t : Nat), t < w.tables.length → t ≠ tid → (w.tbl t).isFree = false →
        ((freeW (moveEntitiesW w1 tid nt (w.tbl tid).len) a tid).tbl t).targets = (w.tbl t).targets := by
      intro t htl ht hf
      have h1 : w1.tbl t = w.tbl t := by
        by_cases e : t = nt
        · subst e
          rcases cg.ntKeep htl with h1 | h1
          · simp only [tbl, List.getD_eq_getElem?_getD, h1]
          · rw [hf] at h1; cases h1
        · simp only [tbl, List.getD_eq_getElem?_getD, cg.others t e]
      rw [htab3 t ht, (mv.ms.tmeta t (Nat.lt_of_lt_of_le htl cg.tablesLe)).targets, h1]
    have hactIff : ∀ (t : Nat),
        t ∈ ((freeW (moveEntitiesW w1 tid nt (w.tbl tid).len) a tid).arch a).tables.tables ↔
          (t ∈ (w.arch a).tables.tables ∨ t = nt) ∧ t ≠ tid := by
      intro t
      have s1 := hB1.sinv.astruct a _ (aget_of_lt (by rw [cg.archLen]; exact ha))
      rw [fr.archA, harch2, Archetype.freeTable_tables, s1.tablesWF.mem_remove, cg.actA]
    have hnonfree : ∀ (t : Nat), t ∈ (w.arch a).tables.tables →
        t < w.tables.length ∧ (w.tbl t).isFree = false := by
      intro t ht
      obtain ⟨Tt, hTt, hTta⟩ := hS.owned a _ t hA (Or.inl ht)
      have := (hS.member t Tt hTt).1
      rw [hTta] at this
      exact ⟨lt_of_get hTt, by rw [tbl_of_get hTt]; exact this.2 ht⟩
    -- the frame
    have f1 : ∀ (j : Nat), SameEnt w w1 j ∧ ∀ (c : Comp), targetOf w1 j c = targetOf w j c := by
      apply frame_of_rows hB.idx cg.entities
      intro t Tt hTt hpos
      by_cases e : t = nt
      · subst e
        rcases cg.ntKeep (lt_of_get hTt) with h1 | h1
        · exact ⟨Tt, by rw [h1]; exact hTt, rfl, rfl, rfl, rfl⟩
        · have := hB.freeEmpty t Tt hTt (by rw [← tbl_of_get hTt]; exact h1)
          omega
      · exact ⟨Tt, by rw [cg.others t e]; exact hTt, rfl, rfl, rfl, rfl⟩
    have f3 : ∀ (j : Nat), SameEnt (moveEntitiesW w1 tid nt (w.tbl tid).len)
        (freeW (moveEntitiesW w1 tid nt (w.tbl tid).len) a tid) j ∧ ∀ (c : Comp),
        targetOf (freeW (moveEntitiesW w1 tid nt (w.tbl tid).len) a tid) j c =
          targetOf (moveEntitiesW w1 tid nt (w.tbl tid).len) j c := by
      apply frame_of_rows hB2.idx fr.entities
      intro t Tt hTt _
      rw [fr.tables]
      by_cases e : t = tid
      · subst e
        rw [List.getElem?_set_self (lt_of_get hTt), tbl_of_get hTt]
        exact ⟨_, rfl, rfl, rfl, rfl, rfl⟩
      · rw [List.getElem?_set_ne (fun x => e x.symm)]
        exact ⟨Tt, hTt, rfl, rfl, rfl, rfl⟩
    have hframe : CleanFrameD w (freeW (moveEntitiesW w1 tid nt (w.tbl tid).len) a tid) := by
      refine
        { pool := by rw [fr.pool, mv.pool, cg.pool]
          isTarget := by rw [fr.isTarget, mv.isTarget, cg.isTarget]
          kinds := by rw [fr.kinds, mv.ms.kinds, cg.kinds]
          maxComps := by rw [fr.maxComps, mv.maxComps, cg.maxComps]
          relationArchetypes := by rw [fr.relationArchetypes, mv.ms.relationArchetypes, cg.relationArchetypes]
          obs := by rw [fr.obs, mv.obs, cg.obs]
          locks := by rw [fr.locks, mv.locks, cg.locks]
          archLen := by rw [fr.archLen, mv.ms.archetypes, cg.archLen]
          idxSame := ((IdxSame.of_eq cg.entities).trans mv.idxSame).trans (IdxSame.of_eq fr.entities)
          same := fun j => ((f1 j).1.trans (mv.same j)).trans (f3 j).1
          tgt := ?_
          tablesLe := by
            rw [fr.tables, List.length_set, mv.ms.len]; exact cg.tablesLe }
      intro j c
      rw [(f3 j).2 c, ← (f1 j).2 c]
      by_cases hin : ∃ (r : Nat), w1.entities[j]? = some (tid, r)
      · obtain ⟨r, hr⟩ := hin
        right
        rw [mv.tgtIn j r hr c, targetOf_of_entry hr (by omega) (get_of_lt hlt1), htbl1]
        exact targetAt_zeroDead cg.ntIds cg.ntIsRel (fun i hi => by rw [cg.ntTgt i hi, c3 i hi]) c
      · left
        exact mv.tgtOut j (fun r hr => hin ⟨r, hr⟩) c
    refine
      { base := hB3, exc := hX3, frame := hframe
        act := ?_, keep := ?_
        isRel := by rw [fr.archA, Archetype.freeTable_isRel, harch2, cg.archIsRel]
        otherArchs := fun b hb => by rw [fr.otherArchs b hb, mv.ms.archetypes, cg.otherArchs b hb]
        hasFree := by rw [fr.archA, Archetype.freeTable_freeTables]; simp
        lenB := by rw [fr.tables, List.length_set, mv.ms.len]; exact cg.lenB
        lenFresh := by
          rw [fr.tables, List.length_set, mv.ms.len]; exact cg.lenFresh }
    · intro t ht
      obtain ⟨h1, h2⟩ := (hactIff t).1 ht
      by_cases e : t = nt
      · right
        subst e
        intro i hi
        have hi' : (w.tbl tid).isRel.getD i false = true := by rw [i2]; exact hi
        rw [htgt_nt i hi']
        exact (hokt i hi').zeroDead_id_ne hD hg
      · left
        rcases h1 with h1 | h1
        · obtain ⟨k1, k2⟩ := hnonfree t h1
          exact ⟨h1, h2, hkeepT t k1 h2 k2⟩
        · exact absurd h1 e
    · intro t ht hne
      obtain ⟨k1, k2⟩ := hnonfree t ht
      exact ⟨(hactIff t).2 ⟨Or.inl ht, hne⟩, hkeepT t k1 hne k2⟩
  · -- the table is empty: free it
    rw [if_neg hlen]
    have hlen0 : (w.tbl tid).len = 0 := by omega
    obtain ⟨hB3, hX3, fr⟩ := freeW_stepD hB hX ha hact hrelA hlen0 hsingle
    refine ⟨_, rfl, ?_, freeW_qkeep w a tid⟩
    have htab3 : ∀ (t : Nat), t ≠ tid → (freeW w a tid).tbl t = w.tbl t := by
      intro t ht
      exact tbl_eq_of_get (by rw [fr.tables, List.getElem?_set_ne (fun x => ht x.symm)])
    have f3 : ∀ (j : Nat), SameEnt w (freeW w a tid) j ∧ ∀ (c : Comp),
        targetOf (freeW w a tid) j c = targetOf w j c := by
      apply frame_of_rows hB.idx fr.entities
      intro t Tt hTt _
      rw [fr.tables]
      by_cases e : t = tid
      · subst e
        rw [List.getElem?_set_self (lt_of_get hTt), tbl_of_get hTt]
        exact ⟨_, rfl, rfl, rfl, rfl, rfl⟩
      · rw [List.getElem?_set_ne (fun x => e x.symm)]
        exact ⟨Tt, hTt, rfl, rfl, rfl, rfl⟩
    have hactIff : ∀ (t : Nat), t ∈ ((freeW w a tid).arch a).tables.tables ↔
        t ∈ (w.arch a).tables.tables ∧ t ≠ tid := by
      intro t
      rw [fr.archA, Archetype.freeTable_tables, (hS.astruct a _ hA).tablesWF.mem_remove]
    refine
      { base := hB3, exc := hX3
        frame :=
          { pool := fr.pool, isTarget := fr.isTarget, kinds := fr.kinds, maxComps := fr.maxComps,
            relationArchetypes := fr.relationArchetypes, obs := fr.obs, locks := fr.locks,
            archLen := fr.archLen, idxSame := IdxSame.of_eq fr.entities,
            same := fun j => (f3 j).1, tgt := fun j c => Or.inl ((f3 j).2 c),
            tablesLe := by rw [fr.tables, List.length_set]; exact Nat.le_refl _ }
        act := ?_, keep := ?_
        isRel := by rw [fr.archA, Archetype.freeTable_isRel]
        otherArchs := fr.otherArchs
        hasFree := by rw [fr.archA, Archetype.freeTable_freeTables]; simp
        lenB := by rw [fr.tables, List.length_set]; exact Nat.le_succ _
        lenFresh := by rw [fr.tables, List.length_set]; intro h; omega }
    · intro t ht
      obtain ⟨h1, h2⟩ := (hactIff t).1 ht
      exact Or.inl ⟨h1, h2, by rw [htab3 t h2]⟩
    · intro t ht hne
      exact ⟨(hactIff t).2 ⟨ht, hne⟩, by rw [htab3 t hne]⟩

end Ark
