/-
  Ark.Proofs.TargetsMove — C04 at world level, part 3: the building blocks of
  `cleanupArchetypes`:
  * `forM'_hoare` — the loop rule for `M.forM'`;
  * `TargetsSat P w` — every relation column of every non-free table satisfies `P`;
  * `moveEntities` seen by the entities (`Moved`): every entity keeps components and values, the
    moved ones read their targets from the destination table;
  * `getExchangeTargetsUnchecked` = `colRels` of the edited target list;
  * `getTable` for an archetype with relation columns: totality and what a found table holds.
  Kernel-only proofs, core Lean only.
-/
import Ark.Proofs.TargetsCreate

set_option autoImplicit false

namespace Ark

open World Ark.Props.C01World

/-! ## 1. the loop rule -/

/-- a loop whose body keeps an invariant indexed by the remaining work never panics and ends
    with the invariant of the empty list -/
theorem forM'_hoare {σ α : Type} (f : α → M σ Unit) (I : List α → σ → Prop)
    (hstep : ∀ (x : α) (rest : List α) (s : σ), I (x :: rest) s →
      ∃ (s' : σ), f x s = .ok () s' ∧ I rest s') :
    ∀ (xs : List α) (s : σ), I xs s → ∃ (s' : σ), M.forM' xs f s = .ok () s' ∧ I [] s'
  | [], s, h => ⟨s, rfl, h⟩
  | x :: rest, s, h => by
    obtain ⟨s1, h1, h2⟩ := hstep x rest s h
    obtain ⟨s2, h3, h4⟩ := forM'_hoare f I hstep rest s1 h2
    exact ⟨s2, by simp only [M.forM', bind, M.bind, h1, h3], h4⟩

/-! ## 2. `TargetsSat` -/

/-- every relation column of every non-free table holds a target satisfying `P` -/
def TargetsSat (P : Ent → Prop) (w : World) : Prop :=
  ∀ (t : Nat) (T : Table), w.tables[t]? = some T → T.isFree = false →
    ∀ (i : Nat), T.isRel.getD i false = true → P (T.targets.getD i Ent.zero)

theorem targetsOK_iff (w : World) :
    TargetsOK w ↔ TargetsSat (fun h => h.isZero = true ∨ w.alive h = true) w := Iff.rfl

theorem TargetsSat.mono {P Q : Ent → Prop} {w : World} (h : TargetsSat P w)
    (hpq : ∀ (e : Ent), P e → Q e) : TargetsSat Q w :=
  fun t T hT hf i hi => hpq _ (h t T hT hf i hi)

theorem TargetsSat.of_metaStep {P : Ent → Prop} {w w' : World} (h : TargetsSat P w)
    (ms : MetaStep w w') : TargetsSat P w' := by
  intro t T hT hf i hi
  obtain ⟨hlt, rfl, hT0⟩ := get_sameMeta ms.len hT
  have sm := ms.tmeta t hlt
  rw [sm.targets]
  rw [sm.isFree] at hf; rw [sm.isRel] at hi
  exact h t _ hT0 hf i hi

theorem TargetsSat.created {P : Ent → Prop} {w w' : World} (h : TargetsSat P w) {a : Nat}
    {rels : List RelID} {t : Nat} (ct : CreatedTable w w' a rels t) (hz : P Ent.zero)
    (hr : ∀ (r : RelID), r ∈ rels → P r.target) : TargetsSat P w' := by
  obtain ⟨hTt, _, _, _, _, _⟩ := ct.tbl
  intro t0 T0 hT0 hf i hi
  by_cases h0 : t0 = t
  · subst h0
    rw [hTt] at hT0
    obtain rfl := Option.some.inj hT0
    rcases ct.target_cases i with hzz | ⟨r, hr', he⟩
    · rw [hzz]; exact hz
    · rw [he]; exact hr r hr'
  · rw [ct.others t0 h0] at hT0
    exact h t0 T0 hT0 hf i hi

/-! ## 3. table facts -/

namespace Table

theorem addAll_sameMeta (T src : Table) (n : Nat) : SameMeta T (T.addAll src n) := by
  simp only [Table.addAll, Table.alloc, Table.extend]
  split <;> exact ⟨rfl, rfl, rfl, rfl, rfl, rfl, rfl, rfl⟩

theorem reset_sameMeta (T : Table) : SameMeta T T.reset := ⟨rfl, rfl, rfl, rfl, rfl, rfl, rfl, rfl⟩

theorem targetAt_of_col {T : Table} {c : Comp} {i : Nat} (hc : T.colIdx c = some i)
    (hr : T.isRel.getD i false = true) : T.targetAt c = some (T.targets.getD i Ent.zero) := by
  simp only [targetAt, hc, Option.bind_some, hr, if_true]

end Table

namespace World

theorem getExchangeTargetsUnchecked_eq (T : Table) (rels : List RelID)
    (h : ∀ (r : RelID), r ∈ rels → (T.colIdx r.comp).isSome = true) :
    getExchangeTargetsUnchecked T rels =
      some (colRels T.ids (setTargets T.colIdx rels T.targets) T.isRel) := by
  unfold getExchangeTargetsUnchecked
  have : (rels.all fun r => (T.colIdx r.comp).isSome) = true := List.all_eq_true.2 h
  rw [this]
  rfl

end World

/-! ## 4. `moveEntities` seen by the entities -/

/-- what `moveEntities src dst (len src)` guarantees -/
structure Moved (w w' : World) (src dst : Nat) : Prop where
  idx : IdxInv w'
  ms : MetaStep w w'
  pool : w'.pool = w.pool
  isTarget : w'.isTarget = w.isTarget
  obs : w'.obs = w.obs
  locks : w'.locks = w.locks
  maxComps : w'.maxComps = w.maxComps
  idxSame : IdxSame w w'
  srcLen : (w'.tbl src).len = 0
  lenOther : ∀ (t : Nat), t ≠ src → t ≠ dst → w'.tables[t]? = w.tables[t]?
  /-- every entity keeps components and values -/
  same : ∀ (j : Nat), SameEnt w w' j
  /-- a moved entity reads its targets from the destination table -/
  tgtIn : ∀ (j r : Nat), w.entities[j]? = some (src, r) → ∀ (c : Comp),
    targetOf w' j c = (w.tbl dst).targetAt c
  /-- every other entity reads the same targets -/
  tgtOut : ∀ (j : Nat), (∀ (r : Nat), w.entities[j]? ≠ some (src, r)) → ∀ (c : Comp),
    targetOf w' j c = targetOf w j c

namespace World

theorem moveEntitiesW_def (w : World) (src dst count : Nat) :
    moveEntitiesW w src dst count =
      ((List.range (((w.modTbl dst fun D => D.addAll (w.tbl src) count).tbl dst).len -
          (w.tbl dst).len)).foldl (idxStep dst (w.tbl dst).len)
        (w.modTbl dst fun D => D.addAll (w.tbl src) count)).modTbl src Table.reset := rfl

theorem moveEntitiesW_keep {β : Type} (p : World → β)
    (h1 : ∀ (w : World) (t : Nat) (T : Table), p (w.setTbl t T) = p w)
    (h2 : ∀ (w : World) (dst base k : Nat), p (idxStep dst base w k) = p w)
    (w : World) (src dst count : Nat) : p (moveEntitiesW w src dst count) = p w := by
  rw [moveEntitiesW_def]
  simp only [modTbl]
  rw [h1, foldl_keep _ p (fun w k => h2 w _ _ k), h1]

theorem moveEntitiesW_fields (w : World) (src dst count : Nat) :
    (moveEntitiesW w src dst count).archetypes = w.archetypes ∧
    (moveEntitiesW w src dst count).kinds = w.kinds ∧
    (moveEntitiesW w src dst count).relationArchetypes = w.relationArchetypes ∧
    (moveEntitiesW w src dst count).cache = w.cache ∧
    (moveEntitiesW w src dst count).pool = w.pool ∧
    (moveEntitiesW w src dst count).isTarget = w.isTarget ∧
    (moveEntitiesW w src dst count).obs = w.obs ∧
    (moveEntitiesW w src dst count).locks = w.locks ∧
    (moveEntitiesW w src dst count).maxComps = w.maxComps :=
  ⟨moveEntitiesW_keep (·.archetypes) (fun _ _ _ => rfl) (fun _ _ _ _ => rfl) w src dst count,
   moveEntitiesW_keep (·.kinds) (fun _ _ _ => rfl) (fun _ _ _ _ => rfl) w src dst count,
   moveEntitiesW_keep (·.relationArchetypes) (fun _ _ _ => rfl) (fun _ _ _ _ => rfl) w src dst count,
   moveEntitiesW_keep (·.cache) (fun _ _ _ => rfl) (fun _ _ _ _ => rfl) w src dst count,
   moveEntitiesW_keep (·.pool) (fun _ _ _ => rfl) (fun _ _ _ _ => rfl) w src dst count,
   moveEntitiesW_keep (·.isTarget) (fun _ _ _ => rfl) (fun _ _ _ _ => rfl) w src dst count,
   moveEntitiesW_keep (·.obs) (fun _ _ _ => rfl) (fun _ _ _ _ => rfl) w src dst count,
   moveEntitiesW_keep (·.locks) (fun _ _ _ => rfl) (fun _ _ _ _ => rfl) w src dst count,
   moveEntitiesW_keep (·.maxComps) (fun _ _ _ => rfl) (fun _ _ _ _ => rfl) w src dst count⟩

end World

/-- **`moveEntities` seen by the entities** (`src ≠ dst`, all rows of `src`, same layout) -/
theorem IdxInv.moved {w : World} (h : IdxInv w) {src dst : Nat} (hne : src ≠ dst)
    (hs : src < w.tables.length) (hd : dst < w.tables.length) (hsm : src ≠ maxU32)
    (hdm : dst ≠ maxU32) (hids : (w.tbl src).ids = (w.tbl dst).ids)
    (hzst : (w.tbl src).zst = (w.tbl dst).zst)
    (hb : (w.tbl dst).len + (w.tbl src).len < 2 ^ 32) :
    Moved w (moveEntitiesW w src dst (w.tbl src).len) src dst := by
  obtain ⟨hTS, hE⟩ := moveEntitiesW_spec w src dst (w.tbl src).len hne hd
  obtain ⟨fa, fk, fra, fc, fp, fit, fo, fl, fm⟩ := moveEntitiesW_fields w src dst (w.tbl src).len
  have hS := get_of_lt hs
  have hD := get_of_lt hd
  have hSs := h.shape src _ hS
  have hDs := h.shape dst _ hD
  have hf : ∀ (k : Nat), k < (w.tbl src).len →
      ((w.tbl dst).addAll (w.tbl src) (w.tbl src).len).getEntity ((w.tbl dst).len + k) =
        (w.tbl src).getEntity k := by
    intro k hk
    rw [Table.addAll_getEntity hDs hSs _ (Nat.le_refl _) hb _ (by omega), if_neg (by omega)]
    congr 1; omega
  have hsrcIdx : ∀ (k : Nat), k < (w.tbl src).len →
      w.entities[((w.tbl src).getEntity k).id]? = some (src, k) :=
    fun k hk => h.rowIdx src _ k hS hk
  have hL1 : ∀ (k : Nat), k < (w.tbl src).len →
      (moveEntitiesW w src dst (w.tbl src).len).entities[((w.tbl src).getEntity k).id]? =
        some (dst, (w.tbl dst).len + k) := by
    intro k hk
    rw [hE]
    apply foldl_set_hit _ (fun k => (dst, (w.tbl dst).len + k)) _ k (w.tbl src).len _ hk
      (by rw [hf k hk])
    · intro k' hk' hkk heq
      rw [hf k' hk'] at heq
      exact hkk (h.row_inj hS hS hk' hk heq).2
    · have := hsrcIdx k hk
      rcases Nat.lt_or_ge ((w.tbl src).getEntity k).id w.entities.length with h1 | h1
      · exact h1
      · rw [List.getElem?_eq_none h1] at this; cases this
  have hL2 : ∀ (i : Nat), (∀ (k : Nat), k < (w.tbl src).len → ((w.tbl src).getEntity k).id ≠ i) →
      (moveEntitiesW w src dst (w.tbl src).len).entities[i]? = w.entities[i]? := by
    intro i hi
    rw [hE]
    apply foldl_set_miss
    intro k hk
    rw [hf k hk]; exact hi k hk
  have hTsrc : (moveEntitiesW w src dst (w.tbl src).len).tables[src]? = some (w.tbl src).reset := by
    rw [hTS]; exact List.getElem?_set_self (by rw [List.length_set]; exact hs)
  have hTdst : (moveEntitiesW w src dst (w.tbl src).len).tables[dst]? =
      some ((w.tbl dst).addAll (w.tbl src) (w.tbl src).len) := by
    rw [hTS, List.getElem?_set_ne hne]; exact List.getElem?_set_self hd
  have hToth : ∀ (t : Nat), t ≠ src → t ≠ dst →
      (moveEntitiesW w src dst (w.tbl src).len).tables[t]? = w.tables[t]? := by
    intro t h1 h2
    rw [hTS, List.getElem?_set_ne (Ne.symm h1), List.getElem?_set_ne (Ne.symm h2)]
  have hlenT : (moveEntitiesW w src dst (w.tbl src).len).tables.length = w.tables.length := by
    rw [hTS, List.length_set, List.length_set]
  have hms : MetaStep w (moveEntitiesW w src dst (w.tbl src).len) := by
    refine ⟨fa, fk, fra, fc, hlenT, fun t _ => ?_⟩
    by_cases h1 : t = src
    · subst h1; rw [tbl_of_get hTsrc]; exact Table.reset_sameMeta _
    · by_cases h2 : t = dst
      · subst h2; rw [tbl_of_get hTdst]; exact Table.addAll_sameMeta _ _ _
      · have : (moveEntitiesW w src dst (w.tbl src).len).tbl t = w.tbl t := by
          show (moveEntitiesW w src dst (w.tbl src).len).tables.getD t default = w.tables.getD t default
          rw [List.getD_eq_getElem?_getD, List.getD_eq_getElem?_getD, hToth t h1 h2]
        rw [this]; exact Table.SameMeta.refl _
  -- an entity sits in `src` iff its ID is one of the moved IDs
  have hin : ∀ (j r : Nat), w.entities[j]? = some (src, r) →
      r < (w.tbl src).len ∧ ((w.tbl src).getEntity r).id = j := by
    intro j r hj
    obtain ⟨_, hr, hid⟩ := h.indexed hj hsm
    exact ⟨hr, hid⟩
  have hout : ∀ (j : Nat), (∀ (r : Nat), w.entities[j]? ≠ some (src, r)) →
      ∀ (k : Nat), k < (w.tbl src).len → ((w.tbl src).getEntity k).id ≠ j := by
    intro j hj k hk heq
    exact hj k (heq ▸ hsrcIdx k hk)
  have hcellD : ∀ (i r : Nat), r < (w.tbl dst).len →
      ((w.tbl dst).addAll (w.tbl src) (w.tbl src).len).cell i r = (w.tbl dst).cell i r := by
    intro i r hr
    rw [Table.addAll_cell hDs hSs hids _ (Nat.le_refl _) hb, if_pos hr]
  have hcellS : ∀ (i r : Nat), r < (w.tbl src).len →
      ((w.tbl dst).addAll (w.tbl src) (w.tbl src).len).cell i ((w.tbl dst).len + r) =
        (w.tbl src).cell i r := by
    intro i r hr
    rw [Table.addAll_cell hDs hSs hids _ (Nat.le_refl _) hb, if_neg (by omega), if_pos (by omega)]
    congr 1; omega
  have hidsD : ((w.tbl dst).addAll (w.tbl src) (w.tbl src).len).ids = (w.tbl dst).ids :=
    (Table.addAll_sameMeta _ _ _).ids
  refine
    { idx := h.moveEntities hne hs hd rfl hids hzst hb
      ms := hms, pool := fp, isTarget := fit, obs := fo, locks := fl, maxComps := fm
      idxSame := ⟨by rw [hE, foldl_set_length], fun i => ?_⟩
      srcLen := by rw [tbl_of_get hTsrc]; rfl
      lenOther := hToth
      same := fun j => ?_
      tgtIn := fun j r hj c => ?_
      tgtOut := fun j hj c => ?_ }
  · by_cases hex : ∃ (k : Nat), k < (w.tbl src).len ∧ ((w.tbl src).getEntity k).id = i
    · obtain ⟨k, hk, rfl⟩ := hex
      exact Or.inr ⟨src, k, dst, _, hsrcIdx k hk, hsm, hL1 k hk, hdm⟩
    · exact Or.inl (hL2 i (fun k hk heq => hex ⟨k, hk, heq⟩))
  · cases hx : w.entities[j]? with
    | none =>
      refine same_of_entry ?_ (fun t r hh => by rw [hx] at hh; cases hh)
      exact hL2 j (hout j (fun r hh => by rw [hx] at hh; cases hh))
    | some p =>
      obtain ⟨tj, r⟩ := p
      by_cases ht : tj = maxU32
      · refine same_of_entry ?_ (fun t r hh => by rw [hx] at hh; cases hh; exact ht)
        exact hL2 j (hout j (fun r' hh => by
          rw [hx] at hh; exact hsm (ht ▸ (Prod.mk.inj (Option.some.inj hh)).1).symm))
      · obtain ⟨T, hT, hr, hid⟩ := h.idxRow j tj r hx ht
        have hTe := tbl_of_get hT
        by_cases h1 : tj = src
        · subst h1
          obtain ⟨hr', hid'⟩ := hin j r hx
          have hnew := hL1 r hr'
          rw [hid'] at hnew
          refine same_of_rows hx hnew ht hdm hT hTdst (by rw [hidsD, ← hids, hTe]) (fun i => ?_)
          rw [hcellS i r hr', hTe]
        · have hkeep := hL2 j (hout j (fun r' hh => by
            rw [hx] at hh; exact h1 (Prod.mk.inj (Option.some.inj hh)).1))
          rw [hx] at hkeep
          by_cases h2 : tj = dst
          · subst h2
            refine same_of_rows hx hkeep ht ht hT hTdst (by rw [hidsD, hTe]) (fun i => ?_)
            rw [hcellD i r (by rw [hTe]; exact hr), hTe]
          · exact same_of_rows hx hkeep ht ht hT (by rw [hToth tj h1 h2]; exact hT) rfl
              (fun _ => rfl)
  · obtain ⟨hr', hid'⟩ := hin j r hj
    have hnew := hL1 r hr'
    rw [hid'] at hnew
    rw [targetOf_of_entry hnew hdm hTdst, Table.targetAt_sameMeta (Table.addAll_sameMeta _ _ _)]
  · have hkeep := hL2 j (hout j hj)
    exact hms.targetOf hkeep c

/-! ## 5. `getTable` in an archetype with relation columns -/

namespace World

/-- **`getTable` refuses a relation list naming one relation component twice** (repair of defect
    D26) — when the archetype has relation columns and an active table, and the count check
    passes: `relTwice`, the world unchanged.  (Without an active table `getTable` answers "no
    table" before any check, and `createTable` refuses the list — `createTable_rejects_twice`.) -/
theorem getTable_rel_twice {w : World} {a : Nat} {rels : List RelID}
    (hr : (w.arch a).hasRelations = true) (hne : (w.arch a).tables.tables.isEmpty = false)
    (hlen : (w.arch a).numRel ≤ rels.length) (hd : ¬ (rels.map (·.comp)).Nodup) :
    getTable a rels w = .panic .relTwice w := by
  unfold getTable
  simp only [hr, hne, Bool.not_true, Bool.false_eq_true, if_false,
    if_neg (show ¬ rels.length < (w.arch a).numRel by omega),
    (namedTwice_nil_eq_true_iff rels).mpr hd, if_true]

/-- a relation list `getTable` finds a table for, in an archetype with relation columns, names
    no relation component twice (since the repair of defect D26) -/
theorem getTable_some_nodup {w w' : World} {a : Nat} {rels : List RelID} {t : Nat}
    (hr : (w.arch a).hasRelations = true) (h : getTable a rels w = .ok (some t) w') :
    (rels.map (·.comp)).Nodup := by
  apply Classical.byContradiction
  intro hd
  unfold getTable at h
  simp only [hr, Bool.not_true, Bool.false_eq_true, if_false,
    (namedTwice_nil_eq_true_iff rels).mpr hd, if_true] at h
  split at h
  · cases h
  · split at h <;> cases h

/-- `getTable` for an archetype with relation columns, normal form: the scan of the tables
    listed under the first relation's target -/
theorem getTable_rel_eq {w : World} {a : Nat} {r0 : RelID} {rest : List RelID} {i : Nat}
    (hr : (w.arch a).hasRelations = true) (hlen : (w.arch a).numRel ≤ (r0 :: rest).length)
    (hcol : (w.arch a).colIdx r0.comp = some i)
    (hnd : ((r0 :: rest).map (·.comp)).Nodup) :
    getTable a (r0 :: rest) w =
      if (w.arch a).tables.tables.isEmpty then .ok none w
      else match AL.find? ((w.arch a).relationTables.getD i []) r0.target.id with
        | none => .ok none w
        | some ts => getTable.go (r0 :: rest) w ts.tables := by
  unfold getTable
  simp only [hr, Bool.not_true, Bool.false_eq_true, if_false, hcol,
    (namedTwice_nil_eq_false_iff (r0 :: rest)).mpr hnd]
  by_cases he : (w.arch a).tables.tables.isEmpty = true
  · simp only [he, if_true]
  · rw [if_neg he, if_neg he, if_neg (show ¬ (r0 :: rest).length < (w.arch a).numRel by omega)]
    cases AL.find? ((w.arch a).relationTables.getD i []) r0.target.id <;> rfl

theorem getTable_rel_total {w : World} {a : Nat} {r0 : RelID} {rest : List RelID} {i : Nat}
    (hr : (w.arch a).hasRelations = true) (hlen : (w.arch a).numRel ≤ (r0 :: rest).length)
    (hcol : (w.arch a).colIdx r0.comp = some i)
    (hnd : ((r0 :: rest).map (·.comp)).Nodup)
    (hlist : ∀ (ts : TableIDs),
      AL.find? ((w.arch a).relationTables.getD i []) r0.target.id = some ts → ∀ (t : Nat),
      t ∈ ts.tables → (w.tbl t).matchesExact (r0 :: rest) = .yes ∨
        (w.tbl t).matchesExact (r0 :: rest) = .no) :
    ∃ (r : Option Nat), getTable a (r0 :: rest) w = .ok r w := by
  rw [getTable_rel_eq hr hlen hcol hnd]
  split
  · exact ⟨none, rfl⟩
  · cases hf : AL.find? ((w.arch a).relationTables.getD i []) r0.target.id with
    | none => exact ⟨none, rfl⟩
    | some ts => exact getTable_go_total _ w ts.tables (hlist ts hf)

theorem getTable_rel_some {w w' : World} {a : Nat} {r0 : RelID} {rest : List RelID} {i t : Nat}
    (hr : (w.arch a).hasRelations = true) (hlen : (w.arch a).numRel ≤ (r0 :: rest).length)
    (hcol : (w.arch a).colIdx r0.comp = some i)
    (h : getTable a (r0 :: rest) w = .ok (some t) w') :
    ∃ (ts : TableIDs), AL.find? ((w.arch a).relationTables.getD i []) r0.target.id = some ts ∧
      t ∈ ts.tables := by
  rw [getTable_rel_eq hr hlen hcol (getTable_some_nodup hr h)] at h
  split at h
  · cases h
  · cases hf : AL.find? ((w.arch a).relationTables.getD i []) r0.target.id with
    | none => rw [hf] at h; cases h
    | some ts =>
      rw [hf] at h
      exact ⟨ts, rfl, (getTable_go_spec _ w ts.tables).2 t w' h⟩

end World

end Ark
