/-
  Ark.Proofs.RefineBatchHist — the invariant of the refinement machine WITH batch steps holds along
  every history that stays within the size bounds.

  * `grow`, `need`, `Fits`, `budget` — the size bound of a history, adapted to batches.  A pair
    `(T, E)` bounds the number of tables and of index slots; a single operation needs `T < 2^32−1`,
    `E+1 < 2^32` and costs `(1, 1)`; `newb n` needs room for `n` rows and costs `(max n 1, n)` (it
    creates at most ONE table, `newb_tables_le`, the budget is not sharp there); `delb` needs and
    costs nothing; `xchgb` creates at most one table per selected table, so it needs `2·T < 2^32−1`
    (and `2·E < 2^32`, the bound of the move loop) and at most doubles `T`.  `Fits b ops`: every
    operation of `ops` finds what it needs, starting from the budget `b`.  `NewWorld` is `(1, 2)`.
  * `stepB_goal` — one step: the invariant `HInvB` is kept, the sizes stay within the budget, an
    expressible operation whose precondition fails is rejected with NOTHING changed (world,
    issued handles, specification), one whose precondition holds succeeds.
  * `runB_inv`, `reachB_inv`, `reachB_sized` — along histories.
  * `fits_of_cost` — for histories without exchange batches the bound is the sum of the costs:
    `cost ops < 2^32 − 2`, where a single operation costs 1, `newb n` costs `max n 1`, `delb` 0.
    (For `ops.map .base` this is the bound `ops.length < 2^32 − 2` of `Refine.reach_hinv`.)
  * `fits_of_cost_x` — with `k` exchange batches: `(1 + cost ops) · 2^k < 2^32 − 1` and
    `2 · (2 + cost ops) < 2^32`.

  Kernel-only proofs, core Lean only.
-/
import Ark.Proofs.RefineBatchNew
import Ark.Proofs.RefineBatchXchg

set_option autoImplicit false

namespace Ark

open World Ark.Props.C01World

namespace RefineB

open Refine

/-! ## the size budget -/

/-- what a step may add to (tables, index slots) -/
def grow (b : Nat × Nat) : OpB → Nat × Nat
  | .base _ => (b.1 + 1, b.2 + 1)
  | .newb _ n _ _ => (b.1 + max n 1, b.2 + n)
  | .delb _ => b
  | .xchgb _ _ _ _ _ => (2 * b.1, b.2)

/-- what a step needs of the budget -/
def need (b : Nat × Nat) : OpB → Prop
  | .base _ => b.1 < maxU32 ∧ b.2 + 1 < 2 ^ 32
  | .newb _ n _ _ => b.1 < maxU32 ∧ b.1 + n ≤ maxU32 ∧ b.2 + n < 2 ^ 32
  | .delb _ => True
  | .xchgb _ _ _ _ _ => 2 * b.1 < maxU32 ∧ 2 * b.2 < 2 ^ 32

instance (b : Nat × Nat) (op : OpB) : Decidable (need b op) := by
  cases op <;> simp only [need] <;> exact inferInstance

/-- every operation of the history finds the room it needs -/
def Fits (b : Nat × Nat) : List OpB → Prop
  | [] => True
  | op :: ops => need b op ∧ Fits (grow b op) ops

def Fits.dec : ∀ (ops : List OpB) (b : Nat × Nat), Decidable (Fits b ops)
  | [], _ => isTrue trivial
  | op :: ops, b =>
    have : Decidable (Fits (grow b op) ops) := Fits.dec ops (grow b op)
    inferInstanceAs (Decidable (need b op ∧ Fits (grow b op) ops))

instance (b : Nat × Nat) (ops : List OpB) : Decidable (Fits b ops) := Fits.dec ops b

/-- the budget after a history -/
def budget (b : Nat × Nat) (ops : List OpB) : Nat × Nat := ops.foldl grow b

theorem fits_append (b : Nat × Nat) (l1 l2 : List OpB) :
    Fits b (l1 ++ l2) ↔ Fits b l1 ∧ Fits (budget b l1) l2 := by
  induction l1 generalizing b with
  | nil => simp [Fits, budget]
  | cons op l1 ih =>
    simp only [List.cons_append, Fits, budget, List.foldl_cons]
    rw [ih]
    exact and_assoc.symm

theorem fits_snoc (b : Nat × Nat) (ops : List OpB) (op : OpB) :
    Fits b (ops ++ [op]) ↔ Fits b ops ∧ need (budget b ops) op := by
  rw [fits_append]
  simp [Fits]

/-- the sizes of the world are within the budget -/
def Sized (s : St) (b : Nat × Nat) : Prop :=
  s.w.tables.length ≤ b.1 ∧ s.w.entities.length ≤ b.2

theorem selTables_length_le {w : World} {fl : List Nat} (h : CInv w fl) (f : Filter) :
    (selTables w f).length ≤ w.tables.length := by
  have S := selTables_tableSet h f
  have := List.Nodup.length_le_of_subset S.nodup
    (fun t ht => List.mem_range.mpr (S.lt t ht) : selTables w f ⊆ List.range w.tables.length)
  simpa using this

/-- the budget provides the room a step needs -/
theorem room_of_need {s : St} {fl : List Nat} (H : HInvB s fl) {b : Nat × Nat} (hs : Sized s b)
    (op : OpB) (hn : need b op) : Room s op := by
  obtain ⟨h1, h2⟩ := hs
  cases op with
  | base op => exact ⟨by have := hn.1; omega, by have := hn.2; omega⟩
  | newb p n ids vals =>
    obtain ⟨a, b', c⟩ := hn
    exact ⟨by omega, by omega, by omega⟩
  | delb f => trivial
  | xchgb p f add vals rem =>
    obtain ⟨a, b'⟩ := hn
    have := selTables_length_le H.hinv.cinv f
    exact ⟨by omega, by omega⟩

/-! ## one step -/

theorem execB_base (run : ProbeRunner) (w : World) (op : Op) :
    execB run w (.base op) =
      match exec run w op with
      | .ok r w' => .ok r.toList w'
      | .panic k w' => .panic k w' := rfl

/-- **one step of the machine**, single or batch -/
theorem stepB_goal (run : ProbeRunner) {s : St} {fl : List Nat} (H : HInvB s fl) {b : Nat × Nat}
    (hs : Sized s b) (op : OpB) (hn : need b op) :
    (∃ fl', HInvB (stepB run s op) fl') ∧ Sized (stepB run s op) (grow b op) ∧
    (guardB s op = true → ¬ preB s.ss op →
      (∃ k, execB run s.w op = .panic k s.w) ∧ stepB run s op = s) ∧
    (guardB s op = true → preB s.ss op → ∃ r w', execB run s.w op = .ok r w') := by
  have hroom := room_of_need H hs op hn
  obtain ⟨h1, h2⟩ := hs
  cases op with
  | base op =>
    obtain ⟨hfew, hent⟩ := hroom
    obtain ⟨⟨fl1, g0⟩, g1, g2, grej, gok, _⟩ := step_goal run H.hinv hfew hent op
    refine ⟨⟨fl1, g0, step_yinv run H.hinv hfew hent op H.yinv⟩,
      ⟨by show (step run s op).w.tables.length ≤ b.1 + 1; omega,
       by show (step run s op).w.entities.length ≤ b.2 + 1; omega⟩, ?_, ?_⟩
    · intro hg hnp
      obtain ⟨k, hk⟩ := grej hg hnp
      refine ⟨⟨k, by rw [execB_base, hk]⟩, ?_⟩
      show step run s op = s
      rw [step_of_guard hg, hk]
      simp only [Res.state, retOf, issuedAfter, specStep_of_not_pre _ _ op hnp]
    · intro hg hp
      obtain ⟨r, w', hex⟩ := gok hg hp
      exact ⟨r.toList, w', by rw [execB_base, hex]⟩
  | newb p n ids vals =>
    obtain ⟨g0, g1, g2, grej, gok⟩ := step_newb run H p n ids vals hroom
    refine ⟨g0, ⟨by show _ ≤ b.1 + max n 1; omega, by show _ ≤ b.2 + n; omega⟩, grej, ?_⟩
    intro hg hp
    obtain ⟨es, w', hex, _⟩ := gok hg hp
    exact ⟨es, w', hex⟩
  | delb f =>
    obtain ⟨w', hop, hst, post, _, g0⟩ := step_delb run H f
    refine ⟨⟨_, g0⟩, ?_, fun _ hnp => absurd trivial hnp, fun _ _ => ⟨[], w', by simp only [execB, hop]⟩⟩
    rw [hst]
    exact ⟨by show w'.tables.length ≤ b.1; rw [post.tablesLen]; exact h1,
      by show w'.entities.length ≤ b.2; rw [post.entitiesLen]; exact h2⟩
  | xchgb p f add vals rem =>
    obtain ⟨g0, g1, g2, grej, gok⟩ := step_xchgb run H p f add vals rem hroom
    have hsel := selTables_length_le H.hinv.cinv f
    refine ⟨g0, ⟨by show _ ≤ 2 * b.1; omega, by show _ ≤ b.2; omega⟩, grej, ?_⟩
    intro hg hp
    obtain ⟨w', hex, _⟩ := gok hg hp
    exact ⟨[], w', hex⟩

/-! ## along histories -/

theorem runB_inv (run : ProbeRunner) (ops : List OpB) : ∀ (s : St) (fl : List Nat) (b : Nat × Nat),
    HInvB s fl → Sized s b → Fits b ops →
    ∃ fl', HInvB (runOpsB run s ops) fl' ∧ Sized (runOpsB run s ops) (budget b ops) := by
  induction ops with
  | nil => intro s fl b h hs _; exact ⟨fl, h, hs⟩
  | cons op ops ih =>
    intro s fl b h hs hf
    obtain ⟨⟨fl1, h1⟩, hs1, _, _⟩ := stepB_goal run h hs op hf.1
    exact ih _ fl1 _ h1 hs1 hf.2

theorem sized_init (cap rel : Nat) : Sized (St.init cap rel) (1, 2) :=
  ⟨Nat.le_refl _, Nat.le_refl _⟩

/-- **the invariant holds after every history of single and batch operations within the bound** -/
theorem reachB_inv (run : ProbeRunner) (cap rel : Nat) (ops : List OpB) (hf : Fits (1, 2) ops) :
    ∃ fl, HInvB (reachB run cap rel ops) fl := by
  obtain ⟨fl, h, _⟩ := runB_inv run ops _ [] (1, 2) (hinvB_init cap rel) (sized_init cap rel) hf
  exact ⟨fl, h⟩

theorem reachB_sized (run : ProbeRunner) (cap rel : Nat) (ops : List OpB) (hf : Fits (1, 2) ops) :
    Sized (reachB run cap rel ops) (budget (1, 2) ops) := by
  obtain ⟨_, _, h⟩ := runB_inv run ops _ [] (1, 2) (hinvB_init cap rel) (sized_init cap rel) hf
  exact h

/-- one more step after a history: everything `stepB_goal` says -/
theorem reachB_step (run : ProbeRunner) (cap rel : Nat) (ops : List OpB) (op : OpB)
    (hf : Fits (1, 2) (ops ++ [op])) :
    ∃ fl, HInvB (reachB run cap rel ops) fl ∧
    (∃ fl', HInvB (reachB run cap rel (ops ++ [op])) fl') ∧
    Room (reachB run cap rel ops) op ∧
    (guardB (reachB run cap rel ops) op = true → ¬ preB (reachB run cap rel ops).ss op →
      (∃ k, execB run (reachB run cap rel ops).w op = .panic k (reachB run cap rel ops).w) ∧
      reachB run cap rel (ops ++ [op]) = reachB run cap rel ops) ∧
    (guardB (reachB run cap rel ops) op = true → preB (reachB run cap rel ops).ss op →
      ∃ r w', execB run (reachB run cap rel ops).w op = .ok r w') := by
  obtain ⟨hf1, hn⟩ := (fits_snoc _ _ _).mp hf
  obtain ⟨fl, H⟩ := reachB_inv run cap rel ops hf1
  have hs := reachB_sized run cap rel ops hf1
  obtain ⟨g0, _, grej, gok⟩ := stepB_goal run H hs op hn
  rw [reachB_snoc]
  exact ⟨fl, H, g0, room_of_need H hs op hn, grej, gok⟩

/-! ## a simple sufficient bound: no exchange batch -/

/-- the cost of an operation other than an exchange batch -/
def cost : OpB → Nat
  | .base _ => 1
  | .newb _ n _ _ => max n 1
  | .delb _ => 0
  | .xchgb _ _ _ _ _ => 0

def OpB.isXchgb : OpB → Bool
  | .xchgb _ _ _ _ _ => true
  | _ => false

def totalCost (ops : List OpB) : Nat := (ops.map cost).sum

/-- **without exchange batches the bound is the sum of the costs** -/
theorem fits_of_cost : ∀ (ops : List OpB) (b : Nat × Nat), (∀ op ∈ ops, op.isXchgb = false) →
    b.1 + totalCost ops ≤ maxU32 → b.2 + totalCost ops < 2 ^ 32 → Fits b ops
  | [], _, _, _, _ => trivial
  | op :: ops, b, hx, h1, h2 => by
    have hx' : ∀ op' ∈ ops, op'.isXchgb = false := fun o ho => hx o (List.mem_cons_of_mem _ ho)
    simp only [totalCost, List.map_cons, List.sum_cons] at h1 h2
    have ih := fun b' => fits_of_cost ops b' hx'
    simp only [totalCost] at ih
    cases op with
    | base o =>
      simp only [cost] at h1 h2
      exact ⟨⟨by omega, by omega⟩, ih _ (by show b.1 + 1 + _ ≤ _; omega) (by show b.2 + 1 + _ < _; omega)⟩
    | newb p n ids vals =>
      simp only [cost] at h1 h2
      have hm : n ≤ max n 1 := Nat.le_max_left _ _
      have hm1 : 1 ≤ max n 1 := Nat.le_max_right _ _
      exact ⟨⟨by omega, by omega, by omega⟩,
        ih _ (by show b.1 + max n 1 + _ ≤ _; omega) (by show b.2 + n + _ < _; omega)⟩
    | delb f =>
      simp only [cost, Nat.zero_add] at h1 h2
      exact ⟨trivial, ih _ h1 h2⟩
    | xchgb p f add vals rem =>
      have := hx _ List.mem_cons_self
      cases this

theorem totalCost_base (ops : List Op) : totalCost (ops.map .base) = ops.length := by
  induction ops with
  | nil => rfl
  | cons op ops ih =>
    simp only [totalCost, List.map_cons, List.sum_cons, cost, List.length_cons] at ih ⊢
    omega

/-- histories of `Ark.Refine` below its bound fit -/
theorem fits_base (ops : List Op) (hlen : ops.length < 2 ^ 32 - 2) : Fits (1, 2) (ops.map .base) := by
  apply fits_of_cost
  · intro op hop
    obtain ⟨o, _, rfl⟩ := List.mem_map.mp hop
    rfl
  · rw [totalCost_base]; show 1 + ops.length ≤ maxU32; simp only [maxU32]; omega
  · rw [totalCost_base]; show 2 + ops.length < 2 ^ 32; omega

/-! ## a sufficient bound for histories with exchange batches -/

/-- the number of exchange batches of a history -/
def xcount (ops : List OpB) : Nat := (ops.filter OpB.isXchgb).length

/-- **with `k` exchange batches**: the table budget may double `k` times, so
    `(T + totalCost ops) · 2^k < 2^32 − 1` suffices for the tables, and `2·(E + totalCost ops) < 2^32`
    for the index slots (the move loop of an exchange batch needs the factor 2) -/
theorem fits_of_cost_x : ∀ (ops : List OpB) (b : Nat × Nat),
    (b.1 + totalCost ops) * 2 ^ xcount ops < maxU32 → 2 * (b.2 + totalCost ops) < 2 ^ 32 →
    Fits b ops
  | [], _, _, _ => trivial
  | op :: ops, b, h1, h2 => by
    have hpos : 0 < 2 ^ xcount ops := Nat.two_pow_pos _
    have ih := fun b' => fits_of_cost_x ops b'
    simp only [totalCost, List.map_cons, List.sum_cons] at h1 h2
    simp only [totalCost] at ih
    -- what the product bound gives for a budget that is not larger
    have hmono : ∀ (x y k : Nat), x ≤ y → y * 2 ^ k < maxU32 → x * 2 ^ k < maxU32 :=
      fun x y k hxy hy => Nat.lt_of_le_of_lt (Nat.mul_le_mul_right _ hxy) hy
    have hle : ∀ (y k : Nat), y * 2 ^ k < maxU32 → y < maxU32 := by
      intro y k hy
      have : y * 1 ≤ y * 2 ^ k := Nat.mul_le_mul_left _ (Nat.two_pow_pos _)
      omega
    cases op with
    | base o =>
      have hx : xcount (OpB.base o :: ops) = xcount ops := rfl
      rw [hx] at h1
      simp only [cost] at h1 h2
      have hb := hle _ _ h1
      exact ⟨⟨by omega, by omega⟩,
        ih _ (hmono _ _ _ (by show b.1 + 1 + _ ≤ _; omega) h1) (by show 2 * (b.2 + 1 + _) < _; omega)⟩
    | newb p n ids vals =>
      have hx : xcount (OpB.newb p n ids vals :: ops) = xcount ops := rfl
      rw [hx] at h1
      simp only [cost] at h1 h2
      have hm : n ≤ max n 1 := Nat.le_max_left _ _
      have hm1 : 1 ≤ max n 1 := Nat.le_max_right _ _
      have hb := hle _ _ h1
      exact ⟨⟨by omega, by omega, by omega⟩,
        ih _ (hmono _ _ _ (by show b.1 + max n 1 + _ ≤ _; omega) h1)
          (by show 2 * (b.2 + n + _) < _; omega)⟩
    | delb f =>
      have hx : xcount (OpB.delb f :: ops) = xcount ops := rfl
      rw [hx] at h1
      simp only [cost, Nat.zero_add] at h1 h2
      exact ⟨trivial, ih _ h1 h2⟩
    | xchgb p f add vals rem =>
      have hx : xcount (OpB.xchgb p f add vals rem :: ops) = xcount ops + 1 := rfl
      rw [hx, Nat.pow_succ] at h1
      simp only [cost, Nat.zero_add] at h1 h2
      -- (b.1 + A) * (P * 2) = 2 * ((b.1 + A) * P)
      have e1 : (b.1 + (ops.map cost).sum) * (2 ^ xcount ops * 2) =
          2 * ((b.1 + (ops.map cost).sum) * 2 ^ xcount ops) := by
        rw [← Nat.mul_assoc, Nat.mul_comm]
      rw [e1] at h1
      have hb : b.1 + (ops.map cost).sum ≤ (b.1 + (ops.map cost).sum) * 2 ^ xcount ops := by
        have := Nat.mul_le_mul_left (b.1 + (ops.map cost).sum) hpos
        omega
      refine ⟨⟨by omega, by omega⟩, ih _ ?_ h2⟩
      show (2 * b.1 + (ops.map cost).sum) * 2 ^ xcount ops < maxU32
      have e2 : (2 * (b.1 + (ops.map cost).sum)) * 2 ^ xcount ops =
          2 * ((b.1 + (ops.map cost).sum) * 2 ^ xcount ops) := Nat.mul_assoc _ _ _
      have := Nat.mul_le_mul_right (2 ^ xcount ops)
        (show 2 * b.1 + (ops.map cost).sum ≤ 2 * (b.1 + (ops.map cost).sum) by omega)
      omega

end RefineB

end Ark
