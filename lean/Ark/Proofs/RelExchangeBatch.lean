/-
  Ark.Proofs.RelExchangeBatch — the exchange batch over relation tables (C06 + C04), part 2:
  `exchangeBatch` with relations (callback `nil`, no observers) in normal form, and one table move
  under the invariants of the relation fragment.

  * `moveStepX`, `findLoopX`, `exchangeTable_rel_eq`, `exchangeBatch_rel_eq_planFirst` — without
    observers and callback the batch is: the table selection, the lookup loop (`findOrCreateTable`
    for every non-empty selected table), `Lock` (since the repair of defect D27 the lock is taken
    only after the lookup loop: `exchangeBatch_rel_findLoop_panic` — a panic of that loop leaves the
    lock as it was), the move loop (`exchangeTable` — which flags the targets of `rels` — for every
    collected move), `Unlock`;  `exchangeBatch_rel_eq` — the same with `Lock` FIRST (the order
    before the repair): still an equation of the operation, because selection and lookup loop
    neither read nor write the lock (`frames_findLoopX`); the specifications downstream are proved
    from this form;
  * `MoveSt` — the invariant of the move loop (`RelInv`, `IdxInv`, `PLink`, `FreeEmpty`, flags up to
    `rels`); `TableMovedRel` / `MoveSt.tableMoved` — one `exchangeTable src dst rels` between two
    different existing tables, `dst` not free: the invariant is kept; the entities of `src` sit in
    `dst` behind its old rows, have its columns and its relation targets, keep the values of the
    columns `src` had and read zero in the others; nobody else changes.
  Kernel-only proofs, core Lean only.
-/
import Ark.Proofs.RelExchangeLookup
import Ark.Proofs.BatchRelSetSpec

set_option autoImplicit false

namespace Ark

open World Ark.Props.C01World QueryRel

namespace World

/-! ## 1. `exchangeTable`, `exchangeBatch` with relations as pure functions -/

theorem exchangeTable_rel_eq (oldT newT : Nat) (rels : List RelID) (w : World) :
    exchangeTable oldT newT rels w =
      .ok ((w.tbl newT).len, (w.tbl oldT).len) (registerW (exchangeTableW w oldT newT) rels) :=
  rfl

/-- one iteration of the move loop of `exchangeBatch` (no callback): move the table, flag the
    targets -/
def moveStepX (rels : List RelID) (w : World) (b : BatchTable) : World :=
  registerW (exchangeTableW w b.oldT b.newT) rels

/-- the lookup loop of `exchangeBatch` -/
def findLoopX (add rem : List Comp) (rels : List RelID) :
    List Nat → Bool × List BatchTable → W (Bool × List BatchTable)
  | [], s => pure s
  | t :: ts, s => fun w =>
    if ((w.tbl t).len == 0) = true then findLoopX add rem rels ts s w
    else
      match findOrCreateTable t (w.arch (w.tbl t).arch).mask add rem rels w with
      | .ok x w' =>
        findLoopX add rem rels ts
          (if x.2.2.2 = true then (true, s.2 ++ [{ oldT := t, newT := x.1, len := (w.tbl t).len }])
            else (s.1, s.2 ++ [{ oldT := t, newT := x.1, len := (w.tbl t).len }])) w'
      | .panic k w' => .panic k w'

theorem moveStepX_obs (rels : List RelID) (w : World) (b : BatchTable) :
    (moveStepX rels w b).obs = w.obs := exchangeTableW_obs w _ _

theorem moveStepX_locks (rels : List RelID) (w : World) (b : BatchTable) :
    (moveStepX rels w b).locks = w.locks := exchangeTableW_locks w _ _

theorem foldl_moveStepX_obs (rels : List RelID) :
    ∀ (bts : List BatchTable) (w : World), (bts.foldl (moveStepX rels) w).obs = w.obs
  | [], _ => rfl
  | b :: bts, w => by rw [List.foldl_cons, foldl_moveStepX_obs rels bts, moveStepX_obs]

theorem foldl_moveStepX_locks (rels : List RelID) :
    ∀ (bts : List BatchTable) (w : World), (bts.foldl (moveStepX rels) w).locks = w.locks
  | [], _ => rfl
  | b :: bts, w => by rw [List.foldl_cons, foldl_moveStepX_locks rels bts, moveStepX_locks]

/-- the first loop of `exchangeBatch` is `findLoopX` -/
theorem forIn_findLoopX (add rem : List Comp) (rels : List RelID) :
    ∀ (ts : List Nat) (s : Bool × List BatchTable) (w : World),
    (forIn ts s (fun t (__s : Bool × List BatchTable) => (do
      let w ← (M.get : W World)
      if ((w.tbl t).len == 0) = true then pure (ForInStep.yield (__s.fst, __s.snd))
      else do
        let __x ← findOrCreateTable t (w.arch (w.tbl t).arch).mask add rem rels
        if __x.2.2.snd = true then
          pure (ForInStep.yield (true, __s.snd ++ [{ oldT := t, newT := __x.fst, len := (w.tbl t).len }]))
        else
          pure (ForInStep.yield (__s.fst, __s.snd ++ [{ oldT := t, newT := __x.fst, len := (w.tbl t).len }]))
      : W (ForInStep (Bool × List BatchTable)))) : W (Bool × List BatchTable)) w =
    findLoopX add rem rels ts s w
  | [], _, _ => rfl
  | t :: ts, s, w => by
    rw [List.forIn_cons, M.bind_apply, M.bind_apply, M.get_apply]
    simp only [findLoopX]
    cases h0 : ((w.tbl t).len == 0) with
    | true =>
      simp only [if_true, M.pure_apply]
      exact forIn_findLoopX add rem rels ts _ w
    | false =>
      simp only [Bool.false_eq_true, if_false, M.bind_apply]
      cases hf : findOrCreateTable t (w.arch (w.tbl t).arch).mask add rem rels w with
      | panic k w' => rfl
      | ok x w' =>
        simp only
        cases hx : x.2.2.2 with
        | true =>
          simp only [if_true, M.pure_apply]
          exact forIn_findLoopX add rem rels ts _ w'
        | false =>
          simp only [Bool.false_eq_true, if_false, M.pure_apply]
          exact forIn_findLoopX add rem rels ts _ w'

theorem loop2X (rels : List RelID) (bts : List BatchTable) (s : List BatchTable) (w : World) :
    ∃ s', (forIn bts s (fun (b : BatchTable) (__s : List BatchTable) => (do
      let __x ← exchangeTable b.oldT b.newT rels
      pure (ForInStep.yield
        (__s ++ [{ oldT := b.oldT, newT := b.newT, start := __x.fst, len := __x.snd }]))
      : W (ForInStep (List BatchTable)))) : W (List BatchTable)) w =
      .ok s' (bts.foldl (moveStepX rels) w) :=
  forIn_fold_exists (moveStepX rels) _ (fun b s w =>
    ⟨s ++ [BatchTable.mk b.oldT b.newT (w.tbl b.newT).len (w.tbl b.oldT).len],
      by simp only [M.bind_apply, exchangeTable_rel_eq, M.pure_apply, moveStepX]⟩) bts s w

/-- the lookup loop neither reads nor writes observers, log and lock -/
theorem frames_findLoopX (add rem : List Comp) (rels : List RelID) :
    ∀ (ts : List Nat) (s : Bool × List BatchTable), Frames (findLoopX add rem rels ts s)
  | [], s => Frames.pure s
  | t :: ts, s => by
    intro w o lg lk
    simp only [findLoopX]
    have h1 : (w.reframe o lg lk).tbl t = w.tbl t := rfl
    have h2 : ∀ a, (w.reframe o lg lk).arch a = w.arch a := fun _ => rfl
    rw [h1, h2]
    split
    · exact frames_findLoopX add rem rels ts s w o lg lk
    · rw [frames_findOrCreateTable t _ add rem rels w o lg lk]
      cases findOrCreateTable t (w.arch (w.tbl t).arch).mask add rem rels w with
      | panic k s' => rfl
      | ok x w' => exact frames_findLoopX add rem rels ts _ w' o lg lk

theorem foldl_exIdxStep_registerW (O : Table) (newT start : Nat) (rels : List RelID) :
    ∀ (l : List Nat) (w : World),
      l.foldl (exIdxStep O newT start) (registerW w rels)
        = registerW (l.foldl (exIdxStep O newT start) w) rels
  | [], _ => rfl
  | i :: l, w => by
    simp only [List.foldl_cons]
    exact foldl_exIdxStep_registerW O newT start rels l (exIdxStep O newT start w i)

/-- moving a table and flagging targets commute -/
theorem exchangeTableW_registerW (w : World) (oldT newT : Nat) (rels : List RelID) :
    exchangeTableW (registerW w rels) oldT newT = registerW (exchangeTableW w oldT newT) rels := by
  unfold exchangeTableW
  simp only []
  have h1 : ∀ t, (registerW w rels).tbl t = w.tbl t := fun _ => rfl
  have h2 : ∀ a, (registerW w rels).arch a = w.arch a := fun _ => rfl
  rw [h1, h1, h2, foldl_exIdxStep_registerW]
  rfl

/-- the move loop started after the registration of the targets is the move loop followed by it -/
theorem foldl_moveStepX_registerW (rels : List RelID) : ∀ (bts : List BatchTable) (w : World),
    bts.foldl (moveStepX rels) (registerW w rels) = registerW (bts.foldl (moveStepX rels) w) rels
  | [], _ => rfl
  | b :: bts, w => by
    simp only [List.foldl_cons]
    have : moveStepX rels (registerW w rels) b = registerW (moveStepX rels w b) rels := by
      simp only [moveStepX, exchangeTableW_registerW]
    rw [this]
    exact foldl_moveStepX_registerW rels bts (moveStepX rels w b)

/-- without observers and callback, `exchangeBatch` with relations is — in the order in which it
    runs since the repair of defect D27 —: the table selection, the lookup loop, `registerTargets`
    (ONCE, unconditionally: also when no table is selected or every selected table is empty — as
    the Go code does), `Lock`, the move loop, `Unlock` -/
theorem exchangeBatch_rel_eq_planFirst (run : ProbeRunner) (fo : FilterObj) (extra : List RelID)
    (add rem : List Comp) (rels : List RelID) (w : World) (hl : w.isLocked = false)
    (hne : (add.isEmpty && rem.isEmpty) = false) {ts : List Nat}
    (hts : getBatchTables fo extra w = .ok ts w)
    {rr : Bool} {bts : List BatchTable} {w1 : World}
    (hfind : findLoopX add rem rels ts (false, []) w = .ok (rr, bts) w1)
    {l' : Lock} {b : Nat} (hlk : w1.locks.lock = some (l', b))
    (hno : ∀ (evt : Nat), w1.obs.hasObservers evt = false) :
    exchangeBatch run fo extra add rem rels none w =
      unlock b (bts.foldl (moveStepX rels) { registerW w1 rels with locks := l' }) := by
  have hlk' : (registerW w1 rels).locks.lock = some (l', b) := hlk
  have hno1 : ∀ (evt : Nat),
      ({ registerW w1 rels with locks := l' } : World).obs.hasObservers evt = false := hno
  have hno2 : ∀ (evt : Nat),
      (bts.foldl (moveStepX rels) { registerW w1 rels with locks := l' }).obs.hasObservers evt
        = false := by
    intro evt; rw [foldl_moveStepX_obs]; exact hno evt
  obtain ⟨s2, h2⟩ := loop2X rels bts [] { registerW w1 rels with locks := l' }
  cases hr : rem.isEmpty <;> cases ha : add.isEmpty <;> rw [hr, ha] at hne <;>
  first
  | exact absurd hne (by decide)
  | (unfold exchangeBatch
     simp only [M.bind_apply, checkLocked_unlocked w hl, M.assert_apply, hr, ha, Bool.and_self,
      Bool.and_false, Bool.false_and, Bool.not_false, Bool.not_true, if_true, hts,
      forIn_findLoopX, hfind, registerTargets_eq, lock_ok hlk', M.get_apply, hno1,
      Bool.false_eq_true, if_false, h2, Bool.and_false, hno2])

/-- when the lookup loop panics, `exchangeBatch` panics with the same class and the same state:
    the lock has not been taken (the repair of defect D27) -/
theorem exchangeBatch_rel_findLoop_panic (run : ProbeRunner) (fo : FilterObj) (extra : List RelID)
    (add rem : List Comp) (rels : List RelID) (vals : Option (List (Comp × Val))) (w : World)
    (hl : w.isLocked = false) (hne : (add.isEmpty && rem.isEmpty) = false) {ts : List Nat}
    (hts : getBatchTables fo extra w = .ok ts w) {k : PanicKind} {w1 : World}
    (hfind : findLoopX add rem rels ts (false, []) w = .panic k w1) :
    exchangeBatch run fo extra add rem rels vals w = .panic k w1 := by
  cases hr : rem.isEmpty <;> cases ha : add.isEmpty <;> rw [hr, ha] at hne <;>
  first
  | exact absurd hne (by decide)
  | (unfold exchangeBatch
     simp only [M.bind_apply, checkLocked_unlocked w hl, M.assert_apply, hr, ha, Bool.and_self,
      Bool.and_false, Bool.false_and, Bool.not_false, Bool.not_true, if_true, hts,
      forIn_findLoopX, hfind])

/-- without observers and callback, `exchangeBatch` with relations is: `Lock`, the table selection,
    the lookup loop, the move loop, `registerTargets` (the registration the operation performs once
    after the lookup loop commutes with the move loop: `foldl_moveStepX_registerW`), `Unlock` — the
    order before the repair of defect D27; still an
    equation of the repaired operation, because the table selection and the lookup loop neither
    read nor write the lock (`exchangeBatch_rel_eq_planFirst` is the order in which it runs) -/
theorem exchangeBatch_rel_eq (run : ProbeRunner) (fo : FilterObj) (extra : List RelID)
    (add rem : List Comp) (rels : List RelID) (w : World) (hl : w.isLocked = false)
    (hne : (add.isEmpty && rem.isEmpty) = false) {l' : Lock} {b : Nat}
    (hlk : w.locks.lock = some (l', b)) {ts : List Nat}
    (hts : getBatchTables fo extra { w with locks := l' } = .ok ts { w with locks := l' })
    {rr : Bool} {bts : List BatchTable} {w1 : World}
    (hfind : findLoopX add rem rels ts (false, []) { w with locks := l' } = .ok (rr, bts) w1)
    (hno : ∀ (evt : Nat), w1.obs.hasObservers evt = false) :
    exchangeBatch run fo extra add rem rels none w =
      unlock b (registerW (bts.foldl (moveStepX rels) w1) rels) := by
  have hts' : getBatchTables fo extra w = .ok ts w :=
    ((frames_getBatchTables fo extra).of_reframe_ok (w := w) (o := w.obs) (lg := w.log) (lk := l')
      hts).1
  obtain ⟨hfind', hw1⟩ := (frames_findLoopX add rem rels ts (false, [])).of_reframe_ok
    (w := w) (o := w.obs) (lg := w.log) (lk := l') hfind
  have hlocks : (w1.reframe w.obs w.log w.locks).locks.lock = some (l', b) := hlk
  have hobs : w1.obs = w.obs := congrArg (·.obs) hw1
  have hno' : ∀ evt : Nat, (w1.reframe w.obs w.log w.locks).obs.hasObservers evt = false :=
    fun evt => by rw [← hobs]; exact hno evt
  have := exchangeBatch_rel_eq_planFirst run fo extra add rem rels w hl hne hts' hfind' hlocks hno'
  rw [this]
  have e : ({ registerW (w1.reframe w.obs w.log w.locks) rels with locks := l' } : World)
      = registerW w1 rels := congrArg (fun X => registerW X rels) hw1.symm
  rw [e, foldl_moveStepX_registerW]

theorem exchangeTableW_more (w : World) (oldT newT : Nat) :
    (exchangeTableW w oldT newT).relationArchetypes = w.relationArchetypes ∧
    (exchangeTableW w oldT newT).cache = w.cache ∧
    (exchangeTableW w oldT newT).filters = w.filters :=
  ⟨foldl_keep' (·.relationArchetypes) (exIdxStep (w.tbl oldT) newT (w.tbl newT).len)
      (fun _ _ => rfl) _ _,
    foldl_keep' (·.cache) (exIdxStep (w.tbl oldT) newT (w.tbl newT).len) (fun _ _ => rfl) _ _,
    foldl_keep' (·.filters) (exIdxStep (w.tbl oldT) newT (w.tbl newT).len) (fun _ _ => rfl) _ _⟩

end World

/-! ## 2. one table move under the invariants of the relation fragment -/

/-- the invariant of the move loop of the batch: everything of `TInv` except that the targets of
    `rels` need not be flagged yet -/
structure MoveSt (w : World) (fl : List Nat) (rels : List RelID) : Prop where
  rel : RelInv w
  flags : FlagsOKUpTo w rels
  freeEmpty : FreeEmpty w
  link : PLink w fl

theorem TInv.moveSt {w : World} {fl : List Nat} (h : TInv w fl) (rels : List RelID) :
    MoveSt w fl rels := ⟨h.rel, h.flags.upTo rels, h.freeEmpty, h.link⟩

/-- what `exchangeTable src dst rels` guarantees -/
structure TableMovedRel (w : World) (fl : List Nat) (rels : List RelID) (src dst : Nat)
    (w' : World) : Prop where
  st : MoveSt w' fl rels
  /-- afterwards the targets of `rels` are flagged -/
  flagsOK : FlagsOK w'
  ms : MetaStep w w'
  pool : w'.pool = w.pool
  obs : w'.obs = w.obs
  locks : w'.locks = w.locks
  maxComps : w'.maxComps = w.maxComps
  isTargetLen : w'.isTarget.length = w.isTarget.length
  flagsMono : ∀ (i : Nat), w.isTarget.getD i false = true → w'.isTarget.getD i false = true
  /-- every moved entity sits behind the old rows of the destination, has its columns and its
      relation targets; a component the source had keeps its value, the others read zero -/
  moved : ∀ (k : Nat), k < (w.tbl src).len →
    w'.entities[((w.tbl src).getEntity k).id]? = some (dst, (w.tbl dst).len + k) ∧
    compsOf w' ((w.tbl src).getEntity k).id = some (w.tbl dst).ids ∧
    (∀ (c : Comp), c ∈ (w.tbl dst).ids →
      valOf w' ((w.tbl src).getEntity k).id c =
        if c ∈ (w.tbl src).ids then valOf w ((w.tbl src).getEntity k).id c else some 0) ∧
    ∀ (c : Comp), targetOf w' ((w.tbl src).getEntity k).id c = (w.tbl dst).targetAt c
  /-- every other entity is unchanged -/
  frame : ∀ (j : Nat), (∀ (k : Nat), k < (w.tbl src).len → ((w.tbl src).getEntity k).id ≠ j) →
    SameEnt w w' j ∧ w'.entities[j]? = w.entities[j]? ∧
      ∀ (c : Comp), targetOf w' j c = targetOf w j c
  entitiesLen : w'.entities.length = w.entities.length
  srcEmpty : (w'.tbl src).len = 0
  dstLen : (w'.tbl dst).len = (w.tbl dst).len + (w.tbl src).len
  others : ∀ (t : Nat), t ≠ src → t ≠ dst → w'.tbl t = w.tbl t
  /-- the rows of the source table stay where they are in every other table's view: the handle in
      row `k` of `src` before is the handle in row `len dst + k` of `dst` after -/
  dstRows : ∀ (r : Nat), r < (w.tbl dst).len + (w.tbl src).len → (w'.tbl dst).getEntity r =
    if r < (w.tbl dst).len then (w.tbl dst).getEntity r
    else (w.tbl src).getEntity (r - (w.tbl dst).len)

/-- **one table move**: `exchangeTable src dst rels` for two existing, different tables, `dst` not
    free; the targets of `rels` index the flag array -/
theorem MoveSt.tableMoved {w : World} {fl : List Nat} {rels : List RelID} (h : MoveSt w fl rels)
    {src dst : Nat} (hne : src ≠ dst) (ho : src < w.tables.length) (hn : dst < w.tables.length)
    (hdf : (w.tbl dst).isFree = false)
    (hb : (w.tbl dst).len + (w.tbl src).len < 2 ^ 32)
    (hreg : ∀ (r : RelID), r ∈ rels → r.target.isZero = false → r.target.id < w.isTarget.length) :
    TableMovedRel w fl rels src dst (registerW (exchangeTableW w src dst) rels) := by
  have hI := h.link.idx
  have hS := h.rel.sinv.toSInvMid
  obtain ⟨hT, hE⟩ := exchangeTableW_spec w hne hn
  obtain ⟨fP, fK, fA, fI, fM, _⟩ := exchangeTableW_rest w src dst
  obtain ⟨fRA, fC, _⟩ := exchangeTableW_more w src dst
  have hOt := get_of_lt ho
  have hNt := get_of_lt hn
  have hOS := hI.shape src _ hOt
  have hNS := hI.shape dst _ hNt
  have m := rowsMoved_of_fold hI ho hT hE
  -- the destination table
  have hD0S := Table.addAllEntities_shape hNS hOS (w.tbl src).len (Nat.le_refl _) hb
  have hD0len := Table.addAllEntities_len (w.tbl dst) (w.tbl src) (w.tbl src).len
  have hrel := Table.copyCols_rel (w.tbl src) (w.arch (w.tbl dst).arch).mask (w.tbl src).len
    (w.tbl src).ids ((w.tbl dst).addAllEntities (w.tbl src) (w.tbl src).len)
  have hDS : (movedTable w src dst).Shape :=
    Table.copyCols_shape hOS _ (Nat.le_refl _) _ hD0S (by rw [hD0len]; omega)
  have hDlen : (movedTable w src dst).len = (w.tbl dst).len + (w.tbl src).len := by
    show (Table.copyCols _ _ _ _ _).len = _
    rw [hrel.len, hD0len]
  have hDsm : Table.SameMeta (w.tbl dst) (movedTable w src dst) :=
    (Table.addAllEntities_sameMeta _ _ _).trans hrel.sm
  have hDent : ∀ (r : Nat), r < (movedTable w src dst).len → (movedTable w src dst).getEntity r =
      if r < (w.tbl dst).len then (w.tbl dst).getEntity r
      else (w.tbl src).getEntity (r - (w.tbl dst).len) := by
    intro r hr
    rw [hDlen] at hr
    have : (movedTable w src dst).getEntity r =
        ((w.tbl dst).addAllEntities (w.tbl src) (w.tbl src).len).getEntity r := by
      simp only [Table.getEntity, movedTable, hrel.ents]
    rw [this]
    exact Table.addAllEntities_getEntity hNS hOS _ (Nat.le_refl _) hb r hr
  have hidx : IdxInv (exchangeTableW w src dst) :=
    IdxInv.rowsMoved hI hne ho hn hDS hDsm.id hDlen hDent m
  -- tables after the move
  have htlen : (exchangeTableW w src dst).tables.length = w.tables.length := by
    rw [hT, List.length_set, List.length_set]
  have hTn : (exchangeTableW w src dst).tables[dst]? = some (movedTable w src dst) := by
    rw [hT, List.getElem?_set_ne hne]; exact List.getElem?_set_self hn
  have hTo : (exchangeTableW w src dst).tables[src]? = some (w.tbl src).reset := by
    rw [hT]; exact List.getElem?_set_self (by rw [List.length_set]; exact ho)
  have hTother : ∀ (t : Nat), t ≠ src → t ≠ dst →
      (exchangeTableW w src dst).tables[t]? = w.tables[t]? := by
    intro t h1 h2
    rw [hT, List.getElem?_set_ne (Ne.symm h1), List.getElem?_set_ne (Ne.symm h2)]
  have htmeta : ∀ (t : Nat), t < w.tables.length →
      Table.SameMeta (w.tbl t) ((exchangeTableW w src dst).tbl t) := by
    intro t _
    by_cases h1 : t = src
    · subst h1; rw [tbl_of_get hTo]; exact ⟨rfl, rfl, rfl, rfl, rfl, rfl, rfl, rfl⟩
    · by_cases h2 : t = dst
      · subst h2; rw [tbl_of_get hTn]; exact hDsm
      · have : (exchangeTableW w src dst).tbl t = w.tbl t := by
          simp only [tbl, List.getD_eq_getElem?_getD, hTother t h1 h2]
        rw [this]; exact Table.SameMeta.refl _
  have ms1 : MetaStep w (exchangeTableW w src dst) := ⟨fA, fK, fRA, fC, htlen, htmeta⟩
  have ms : MetaStep w (registerW (exchangeTableW w src dst) rels) :=
    ms1.trans (registerW_metaStep _ rels)
  have htm : ∀ (t : Nat), t < w.tables.length → t ≠ maxU32 := by
    intro t ht; have := h.link.fewTables; omega
  have hsame : IdxSame w (exchangeTableW w src dst) := by
    refine ⟨m.entitiesLen, ?_⟩
    intro i
    by_cases hex : ∃ (k : Nat), k < (w.tbl src).len ∧ ((w.tbl src).getEntity k).id = i
    · obtain ⟨k, hk, rfl⟩ := hex
      right
      exact ⟨src, k, dst, _, hI.rowIdx src _ k hOt hk, htm src ho, m.moved k hk, htm dst hn⟩
    · left
      exact m.others i (fun k hk heq => hex ⟨k, hk, heq⟩)
  have hal : ∀ (x : Ent), (registerW (exchangeTableW w src dst) rels).alive x = w.alive x := by
    intro x
    show (exchangeTableW w src dst).pool.alive x = w.pool.alive x
    rw [fP]
  have hflagsMono : ∀ (i : Nat), w.isTarget.getD i false = true →
      (registerW (exchangeTableW w src dst) rels).isTarget.getD i false = true := by
    intro i hi
    show (rels.foldl (fun (it : List Bool) r => it.set r.target.id true)
      (exchangeTableW w src dst).isTarget).getD i false = true
    rw [fI]
    exact flagFold_mono _ _ _ hi
  have hflags1 : FlagsOKUpTo (exchangeTableW w src dst) rels :=
    h.flags.of_metaStep ms1 (fun i hi => by rw [fI]; exact hi)
  have hflagsOK : FlagsOK (registerW (exchangeTableW w src dst) rels) :=
    hflags1.register (fun r hr hz => by rw [fI]; exact hreg r hr hz)
  have hfree : FreeEmpty (registerW (exchangeTableW w src dst) rels) := by
    intro t0 T0 hT0 hf
    have hT0' : (exchangeTableW w src dst).tables[t0]? = some T0 := hT0
    by_cases h1 : t0 = src
    · subst h1
      rw [hTo] at hT0'
      rw [← Option.some.inj hT0']; rfl
    · by_cases h2 : t0 = dst
      · subst h2
        rw [hTn] at hT0'
        rw [← Option.some.inj hT0', hDsm.isFree, hdf] at hf; cases hf
      · rw [hTother t0 h1 h2] at hT0'
        exact h.freeEmpty t0 T0 hT0' hf
  have hlink : PLink (registerW (exchangeTableW w src dst) rels) fl :=
    (h.link.transfer hidx fP hsame (by rw [fI]) (by rw [htlen]; exact h.link.fewTables)).congr
      (hidx.congr rfl rfl) rfl rfl (flagFold_length rels _) rfl
  have hEnt3 : (registerW (exchangeTableW w src dst) rels).entities =
      (exchangeTableW w src dst).entities := rfl
  have hTab3 : (registerW (exchangeTableW w src dst) rels).tables =
      (exchangeTableW w src dst).tables := rfl
  have hval3 : ∀ (j : Nat) (c : Comp), valOf (registerW (exchangeTableW w src dst) rels) j c =
      valOf (exchangeTableW w src dst) j c := fun j c => valOf_congr rfl rfl j c
  have hcomp3 : ∀ (j : Nat), compsOf (registerW (exchangeTableW w src dst) rels) j =
      compsOf (exchangeTableW w src dst) j := fun j => compsOf_congr rfl rfl j
  refine
    { st := ⟨h.rel.of_metaStep ms (fun x hx => by rw [hal]; exact hx),
        hflagsOK.upTo rels, hfree, hlink⟩
      flagsOK := hflagsOK
      ms := ms
      pool := fP
      obs := exchangeTableW_obs w src dst
      locks := exchangeTableW_locks w src dst
      maxComps := fM
      isTargetLen := by
        show (rels.foldl (fun (it : List Bool) r => it.set r.target.id true)
          (exchangeTableW w src dst).isTarget).length = _
        rw [flagFold_length, fI]
      flagsMono := hflagsMono
      moved := ?_
      frame := ?_
      entitiesLen := m.entitiesLen
      srcEmpty := by
        show ((exchangeTableW w src dst).tbl src).len = 0
        rw [tbl_of_get hTo]; rfl
      dstLen := by
        show ((exchangeTableW w src dst).tbl dst).len = _
        rw [tbl_of_get hTn]; exact hDlen
      others := by
        intro t h1 h2
        show (exchangeTableW w src dst).tbl t = w.tbl t
        simp only [tbl, List.getD_eq_getElem?_getD, hTother t h1 h2]
      dstRows := by
        intro r hr
        show ((exchangeTableW w src dst).tbl dst).getEntity r = _
        rw [tbl_of_get hTn]; exact hDent r (by rw [hDlen]; exact hr) }
  · intro k hk
    have hent := m.moved k hk
    have hold := hI.rowIdx src _ k hOt hk
    refine ⟨hent, ?_, ?_, ?_⟩
    · rw [hcomp3]
      simp only [compsOf, hent, htm dst hn, if_false, hTn, Option.map_some, hDsm.ids]
    · intro c hc
      rw [hval3]
      obtain ⟨kk, hkk⟩ := colIdx_some_iff_mem.mpr hc
      have hkkD : (movedTable w src dst).colIdx c = some kk := by
        simp only [Table.colIdx, hDsm.ids]; exact hkk
      have hkkD0 : ((w.tbl dst).addAllEntities (w.tbl src) (w.tbl src).len).colIdx c = some kk := by
        simp only [Table.colIdx, (Table.addAllEntities_sameMeta _ _ _).ids]; exact hkk
      have hzD0 : ((w.tbl dst).addAllEntities (w.tbl src) (w.tbl src).len).zst = (w.tbl dst).zst :=
        (Table.addAllEntities_sameMeta _ _ _).zst
      have hzero : ((w.tbl dst).addAllEntities (w.tbl src) (w.tbl src).len).cell kk
          ((w.tbl dst).len + k) = 0 :=
        Table.addAllEntities_new_rows_zero hNS _ _ _ _ (by omega)
      have hval : valOf (exchangeTableW w src dst) ((w.tbl src).getEntity k).id c =
          some ((movedTable w src dst).cell kk ((w.tbl dst).len + k)) := by
        simp only [valOf, hent, htm dst hn, if_false, hTn, Option.bind_some, Table.getComp, hkkD,
          Option.map_some]
      rw [hval]
      have hmask : (w.arch (w.tbl dst).arch).mask.get c = true := by
        obtain ⟨A, hA, e1, _⟩ := hS.tblArch dst _ hNt
        rw [e1, (hS.comps _ A hA).1, Mask.mem_toList] at hc
        rw [arch_of_get hA]; exact hc.2
      by_cases hco : c ∈ (w.tbl src).ids
      · rw [if_pos hco]
        obtain ⟨j, hj⟩ := colIdx_some_iff_mem.mpr hco
        have hvalO : valOf w ((w.tbl src).getEntity k).id c = some ((w.tbl src).cell j k) := by
          simp only [valOf, hold, htm src ho, if_false, hOt, Option.bind_some, Table.getComp, hj,
            Option.map_some]
        rw [hvalO]
        congr 1
        cases hz : (w.tbl dst).zst.getD kk false with
        | false =>
          show (Table.copyCols _ _ _ _ _).cell kk _ = _
          rw [Table.copyCols_cell hOS _ (Nat.le_refl _) hj _ hD0S (by rw [hD0len]; omega) hkkD0
            (by rw [hzD0]; exact hz), hD0len,
            if_pos ⟨⟨hco, hmask⟩, by omega, by omega⟩]
          congr 1; omega
        | true =>
          show (Table.copyCols _ _ _ _ _).cell kk _ = _
          rw [Table.copyCols_cell_keep hOS _ (Nat.le_refl _) _ hD0S (by rw [hD0len]; omega) hkkD0
            (Or.inr (by rw [hzD0]; exact hz)), hzero]
          have hzO : (w.tbl src).zst.getD j false = true := by
            rw [hS.tbl_zst hOt hj, ← hS.tbl_zst hNt hkk]; exact hz
          exact (hOS.zst_zero j hzO k).symm
      · rw [if_neg hco]
        congr 1
        have hjn : (w.tbl src).colIdx c = none := by
          cases hj : (w.tbl src).colIdx c with
          | none => rfl
          | some j => exact absurd (colIdx_some_iff_mem.mp ⟨j, hj⟩) hco
        show (Table.copyCols _ _ _ _ _).cell kk _ = _
        rw [Table.copyCols_cell_keep hOS _ (Nat.le_refl _) _ hD0S (by rw [hD0len]; omega) hkkD0
          (Or.inl hjn), hzero]
    · intro c
      rw [targetOf_of_entry (by rw [hEnt3]; exact hent) (htm dst hn) (by rw [hTab3]; exact hTn)]
      exact Table.targetAt_sameMeta hDsm c
  · intro j hj
    have he := m.others j hj
    refine ⟨?_, by rw [hEnt3]; exact he, fun c => ms.targetOf (by rw [hEnt3]; exact he) c⟩
    have key : SameEnt w (exchangeTableW w src dst) j := by
      cases hx : w.entities[j]? with
      | none => exact same_of_entry he (fun t r hh => by rw [hx] at hh; cases hh)
      | some p =>
        obtain ⟨t, r⟩ := p
        by_cases ht : t = maxU32
        · exact same_of_entry he (fun t' r' hh => by rw [hx] at hh; cases hh; exact ht)
        · obtain ⟨hTt, hr, hid⟩ := hI.indexed hx ht
          have hto : t ≠ src := by
            intro heq; subst heq; exact hj r hr hid
          by_cases htn : t = dst
          · subst htn
            refine same_of_rows hx (by rw [he]; exact hx) ht ht hTt hTn hDsm.ids (fun i => ?_)
            show (Table.copyCols _ _ _ _ _).cell i r = _
            rw [Table.copyCols_cell_below hOS _ (Nat.le_refl _) _ hD0S (by rw [hD0len]; omega) i r
              (by rw [hD0len]; omega), Table.addAllEntities_cell, Table.alloc_cell_eq,
              Table.extend_cell_lt _ _ _ _ hr]
          · exact same_of_rows hx (by rw [he]; exact hx) ht ht hTt
              (by rw [hTother t hto htn]; exact hTt) rfl (fun _ => rfl)
    exact ⟨fun c => by rw [hval3]; exact key.1 c, by rw [hcomp3]; exact key.2⟩

end Ark
