/-
  Ark.Proofs.RefineBatchNew — the batch creation `NewBatch(n, ids…)` (no callback) as a step of the
  refinement machine (`RefineB.OpB.newb`).

  * `runOps_news` — `n` successive `NewEntity(ids…)` calls of the model are `n` steps `new p ids []`
    of the machine `Ark.Refine`.
  * `stepB_newb_eq_singles` — **for `n > 0` the batch step IS the run of the `n` single steps**:
    the same world, the same handles (issued in the same order), the same specification.
  * `step_newb` — the step keeps the invariant `HInvB`; at most `max n 1` tables (in fact at most
    one: `newb_tables_le`) and `n` index slots are created; a batch with a duplicate component is
    rejected without effect; otherwise it succeeds and returns `n` handles.  The empty batch
    (`n = 0`) still looks the table up, and creates archetype and table if they did not exist:
    no entity is affected and the specification does not move.

  Kernel-only proofs, core Lean only.
-/
import Ark.Proofs.RefineBatch

set_option autoImplicit false

namespace Ark

open World Ark.Props.C01World

namespace World

/-- a batch creation with a duplicate component is rejected like the single creation -/
theorem opNewBatch_dup (run : ProbeRunner) (p : Path) (n : Nat) (ids : List Comp)
    (vals : List (Comp × Val)) (w : World) (hl : w.isLocked = false)
    (hb : ∀ (c : Comp), c ∈ ids → c < 256) (hd : ¬ ids.Nodup) :
    opNewBatch run p n ids vals [] false w = .panic .alreadyHas w := by
  have hrej := findOrCreateTableAdd_reject' 0 Mask.empty ids [] w hb (fun hh => hd hh.1)
  cases p <;>
  simp [opNewBatch, preCheck, preCheckMap, preCheckTyped, M.forM', bind, M.bind,
    checkLocked_unlocked w hl, hrej, pure, M.pure]

end World

namespace RefineB

open Refine

theorem map_getD_range {α : Type} (es : List α) (d : α) :
    (List.range es.length).map (fun i => es.getD i d) = es := by
  apply List.ext_getElem
  · simp
  · intro i h1 h2
    simp only [List.getElem_map, List.getElem_range, List.getD_eq_getElem?_getD,
      List.getElem?_eq_getElem h2, Option.getD_some]

/-- with as many handles as creations, `specNewAll` is the fold over the handles -/
theorem specNewAll_eq_foldl (ss : SS) (p : Path) (ids : List Comp) (es : List Ent) :
    specNewAll ss p ids es es.length = es.foldl (fun ss e => specStep ss e (.new p ids [])) ss := by
  have h := List.foldl_map (f := fun i => es.getD i default)
    (g := fun ss e => specStep ss e (.new p ids [])) (l := List.range es.length) (init := ss)
  rw [map_getD_range] at h
  exact h.symm

theorem specStep_new_zst (ss : SS) (fresh : Ent) (p : Path) (ids : List Comp) (vals : Comps) :
    (specStep ss fresh (.new p ids vals)).zst = ss.zst := by
  simp only [specStep]
  split <;> rfl

/-- creations whose precondition fails leave the specification alone -/
theorem specNewAll_of_not_pre (ss : SS) (p : Path) (ids : List Comp) (fresh : List Ent) (n : Nat)
    (h : ¬ (ids.Nodup ∧ ∀ c ∈ ids, c < ss.zst.length)) : specNewAll ss p ids fresh n = ss := by
  unfold specNewAll
  induction (List.range n) with
  | nil => rfl
  | cons i l ih =>
    rw [List.foldl_cons]
    have : specStep ss (fresh.getD i default) (.new p ids []) = ss := by
      simp only [specStep]; exact if_neg h
    rw [this]; exact ih

/-- **`n` single creations of the model are `n` steps of `Ark.Refine`** -/
theorem runOps_news (run : ProbeRunner) (p : Path) (ids : List Comp) : ∀ (n : Nat) (s : St)
    (es : List Ent) (w' : World), guard s (.new p ids []) = true →
    newEntitiesSeq run p ids [] n s.w = .ok es w' →
    runOps run s (List.replicate n (.new p ids [])) =
      ⟨w', es.reverse ++ s.issued, es.foldl (fun ss e => specStep ss e (.new p ids [])) s.ss⟩
  | 0, s, es, w', _, h => by
    simp only [newEntitiesSeq, pure, M.pure] at h
    injection h with h1 h2
    subst h1; subst h2
    rfl
  | n + 1, s, es, w', hg, h => by
    simp only [newEntitiesSeq, bind, M.bind] at h
    cases h1 : opNewEntity run p ids [] [] s.w with
    | panic k w1 => rw [h1] at h; cases h
    | ok e w1 =>
      rw [h1] at h
      simp only at h
      cases h2 : newEntitiesSeq run p ids [] n w1 with
      | panic k w2 => rw [h2] at h; cases h
      | ok es1 w2 =>
        rw [h2] at h
        simp only [pure, M.pure] at h
        injection h with h3 h4
        subst h3; subst h4
        have hex : exec run s.w (.new p ids []) = .ok (some e) w1 := by simp only [exec, h1]
        have hstep : step run s (.new p ids []) =
            ⟨w1, e :: s.issued, specStep s.ss e (.new p ids [])⟩ := by
          rw [step_of_guard_nr hg rfl, hex]
          simp only [Res.state, retOf, Option.getD_some]
        have hg1 : guard (step run s (.new p ids [])) (.new p ids []) = true := by
          rw [hstep]
          simp only [Refine.guard, specStep_new_zst]
          exact hg
        show runOps run (step run s (.new p ids [])) (List.replicate n (.new p ids [])) = _
        rw [runOps_news run p ids n _ es1 w2 hg1 (by rw [hstep]; exact h2), hstep]
        simp only [List.reverse_cons, List.append_assoc, List.singleton_append, List.foldl_cons]

/-- the world after the table lookup of a batch creation has the registry, the lock and the
    component limit of the world before -/
theorem afterLookup_fields {w : World} {fl : List Nat} (h : CInv w fl) {ids : List Comp}
    (hnd : ids.Nodup) (hreg : ∀ (c : Comp), c ∈ ids → c < w.kinds.length) {r : Nat × Nat × Mask}
    {w1 : World} (hok : findOrCreateTableAdd 0 Mask.empty ids [] w = .ok r w1) :
    w1.kinds = w.kinds ∧ w1.maxComps = w.maxComps ∧ w1.locks = w.locks ∧
    w1.tables.length ≤ w.tables.length + 1 := by
  obtain ⟨t, a, w2, hok2, fc, _, _, _⟩ :=
    h.sinv.findOrCreateTableAdd_spec_new h.idx hnd hreg (fun c _ => h.noRelKinds c)
  rw [hok] at hok2
  injection hok2 with _ hw
  subst hw
  have hu := findOrCreateTableAdd_untouched hok
  exact ⟨fc.kinds, hu.maxComps, hu.locks, findOrCreateTableAdd_tables_len hok⟩

/-- **for `n > 0` the batch creation step is the run of `n` single creation steps** -/
theorem stepB_newb_eq_singles (run : ProbeRunner) {s : St} {fl : List Nat} (H : HInvB s fl)
    (p : Path) {n : Nat} (hpos : 0 < n) (ids : List Comp) (vals : Comps)
    (hroom : Room s (.newb p n ids vals)) (hg : guardB s (.newb p n ids vals) = true)
    (hp : preB s.ss (.newb p n ids vals)) :
    ∃ (es : List Ent) (w' : World),
      execB run s.w (.newb p n ids vals) = .ok es w' ∧ es.length = n ∧
      newEntitiesSeq run p ids [] n s.w = .ok es w' ∧
      stepB run s (.newb p n ids vals) = runOps run s (List.replicate n (.new p ids [])) := by
  have hC := H.hinv.cinv
  obtain ⟨hnd, hreg⟩ := hp
  have hreg' : ∀ (c : Comp), c ∈ ids → c < s.w.kinds.length := by rw [← H.hinv.zlen]; exact hreg
  obtain ⟨hfew, _, hent⟩ := hroom
  have hrows : ∀ t : Nat, (s.w.tbl t).len + n < 2 ^ 32 := by
    intro t
    have := hC.idx.rows_le t
    omega
  obtain ⟨t, start, es, w', hb, hs, hes, hlen, _, _⟩ :=
    opNewBatch_eq_singles run p hC H.hinv.unlocked hnd hreg' vals hpos hfew hrows
  have hex : execB run s.w (.newb p n ids vals) = .ok es w' := by
    simp only [execB, hb]
    rw [hes]
  have hg' : guard s (.new p ids []) = true := hg
  refine ⟨es, w', hex, hlen, hs, ?_⟩
  rw [runOps_news run p ids n s es w' hg' hs]
  show stepBatch run s (.newb p n ids vals) = _
  simp only [stepBatch, hg, if_true, hex, Res.state, retB, specStepB]
  rw [← hlen, specNewAll_eq_foldl]

/-- **the batch creation as a step of the machine** -/
theorem step_newb (run : ProbeRunner) {s : St} {fl : List Nat} (H : HInvB s fl)
    (p : Path) (n : Nat) (ids : List Comp) (vals : Comps)
    (hroom : Room s (.newb p n ids vals)) :
    (∃ fl', HInvB (stepB run s (.newb p n ids vals)) fl') ∧
    (stepB run s (.newb p n ids vals)).w.tables.length ≤ s.w.tables.length + max n 1 ∧
    (stepB run s (.newb p n ids vals)).w.entities.length ≤ s.w.entities.length + n ∧
    (guardB s (.newb p n ids vals) = true → ¬ preB s.ss (.newb p n ids vals) →
      (∃ k, execB run s.w (.newb p n ids vals) = .panic k s.w) ∧
      stepB run s (.newb p n ids vals) = s) ∧
    (guardB s (.newb p n ids vals) = true → preB s.ss (.newb p n ids vals) →
      ∃ es w', execB run s.w (.newb p n ids vals) = .ok es w' ∧ es.length = n) := by
  have hC := H.hinv.cinv
  by_cases hg : guardB s (.newb p n ids vals) = true
  case neg =>
    have : stepB run s (.newb p n ids vals) = s := by
      show stepBatch run s (.newb p n ids vals) = s
      rw [stepBatch, if_neg hg]
    rw [this]
    exact ⟨⟨fl, H⟩, Nat.le_add_right _ _, Nat.le_add_right _ _, fun h => absurd h hg,
      fun h => absurd h hg⟩
  have hreg : ∀ c ∈ ids, c < s.ss.zst.length := by
    simpa only [guardB, List.all_eq_true, decide_eq_true_eq] using hg
  have hreg' : ∀ (c : Comp), c ∈ ids → c < s.w.kinds.length := by rw [← H.hinv.zlen]; exact hreg
  by_cases hnd : ids.Nodup
  case neg =>
    -- rejected
    have hb256 : ∀ (c : Comp), c ∈ ids → c < 256 := fun c hc => hC.reg_lt_256 (hreg' c hc)
    have hop := opNewBatch_dup run p n ids vals s.w H.hinv.unlocked hb256 hnd
    have hex : execB run s.w (.newb p n ids vals) = .panic .alreadyHas s.w := by
      simp only [execB, hop]
    have hnp : ¬ (ids.Nodup ∧ ∀ c ∈ ids, c < s.ss.zst.length) := fun hh => hnd hh.1
    have hst : stepB run s (.newb p n ids vals) = s := by
      show stepBatch run s (.newb p n ids vals) = s
      simp only [stepBatch, hg, if_true, hex, Res.state, retB, specStepB, List.reverse_nil,
        List.nil_append, specNewAll_of_not_pre _ _ _ _ _ hnp]
    rw [hst]
    exact ⟨⟨fl, H⟩, Nat.le_add_right _ _, Nat.le_add_right _ _, fun _ _ => ⟨⟨_, hex⟩, rfl⟩,
      fun _ hp => absurd hp.1 hnd⟩
  have hp : preB s.ss (.newb p n ids vals) := ⟨hnd, hreg⟩
  obtain ⟨hfew, hfewn, hent⟩ := id hroom
  rcases Nat.eq_zero_or_pos n with rfl | hpos
  · -- the empty batch: the table lookup only
    obtain ⟨t, a, w1, hfoc, hb, h1, hpool, hentE, hsame⟩ :=
      opNewBatch_zero run p hC H.hinv.unlocked hnd hreg' vals hfew
    obtain ⟨hk, hmx, hlk, htl⟩ := afterLookup_fields hC hnd hreg' hfoc
    have hex : execB run s.w (.newb p 0 ids vals) = .ok [] w1 := by
      simp only [execB, hb, List.range_zero, List.map_nil]
    have hst : stepB run s (.newb p 0 ids vals) = ⟨w1, s.issued, s.ss⟩ := by
      show stepBatch run s (.newb p 0 ids vals) = _
      simp only [stepBatch, hg, if_true, hex, Res.state, retB, specStepB, List.reverse_nil,
        List.nil_append]
      rfl
    rw [hst]
    refine ⟨⟨fl, ?_, ?_⟩, htl, by show w1.entities.length ≤ _; rw [hentE]; exact Nat.le_refl _,
      fun _ hnp => absurd hp hnp, fun _ _ => ⟨[], w1, hex, rfl⟩⟩
    · exact
        { cinv := h1
          ginv := by
            have : (⟨w1, s.issued, s.ss⟩ : St).ps = s.ps := by simp only [St.ps, hpool]
            rw [this]; exact H.hinv.ginv
          unlocked := by
            show w1.locks.isLocked = false
            rw [hlk]; exact H.hinv.unlocked
          nodup := H.hinv.nodup
          zstEq := by show s.ss.zst = w1.kinds.map (·.zst); rw [hk]; exact H.hinv.zstEq
          maxc := hmx.trans H.hinv.maxc
          ok := by
            intro x cs hx
            show EntOK w1 w1.kinds.length x cs
            rw [hk]
            exact (H.hinv.ok x cs hx).frame (hsame x.id) }
    · exact ⟨H.yinv.rows.lookup (findOrCreateTableAdd_keeps hfoc), by
        show LockFree w1.locks
        rw [hlk]; exact H.yinv.lock⟩
  · -- n > 0: the run of the singles
    obtain ⟨es, w', hex, hlen, _, hst⟩ :=
      stepB_newb_eq_singles run H p hpos ids vals hroom hg hp
    rw [hst]
    have hb1 : s.w.tables.length + (List.replicate n (Op.new p ids [])).length ≤ maxU32 := by
      rw [List.length_replicate]; exact hfewn
    have hb2 : s.w.entities.length + (List.replicate n (Op.new p ids [])).length < 2 ^ 32 := by
      rw [List.length_replicate]; exact hent
    obtain ⟨fl', h', b1, b2⟩ := run_inv run _ s fl H.hinv hb1 hb2
    have y' := run_ext run YInv
      (fun s fl op r w' H hf he hg hpre X hex => yinv_step run s fl op r w' H hf he hg hpre X hex)
      _ s fl H.hinv hb1 hb2 H.yinv
    rw [List.length_replicate] at b1 b2
    refine ⟨⟨fl', h', y'⟩, ?_, b2, fun _ hnp => absurd hp hnp, fun _ _ => ⟨es, w', hex, hlen⟩⟩
    have : max n 1 = n := Nat.max_eq_left hpos
    rw [this]; exact b1

/-- **a batch creation creates at most ONE table**, whatever `n` -/
theorem newb_tables_le (run : ProbeRunner) {s : St} {fl : List Nat} (H : HInvB s fl)
    (p : Path) (n : Nat) (ids : List Comp) (vals : Comps)
    (hroom : Room s (.newb p n ids vals)) :
    (stepB run s (.newb p n ids vals)).w.tables.length ≤ s.w.tables.length + 1 := by
  have hC := H.hinv.cinv
  by_cases hg : guardB s (.newb p n ids vals) = true
  case neg =>
    have : stepB run s (.newb p n ids vals) = s := by
      show stepBatch run s (.newb p n ids vals) = s
      rw [stepBatch, if_neg hg]
    rw [this]; exact Nat.le_succ _
  by_cases hp : preB s.ss (.newb p n ids vals)
  case neg =>
    rw [((step_newb run H p n ids vals hroom).2.2.2.1 hg hp).2]; exact Nat.le_succ _
  obtain ⟨hnd, hreg⟩ := hp
  have hreg' : ∀ (c : Comp), c ∈ ids → c < s.w.kinds.length := by rw [← H.hinv.zlen]; exact hreg
  obtain ⟨hfew, _, hent⟩ := hroom
  obtain ⟨t, a, w1, hfoc, h1, _, bt, hsame, hnew, _⟩ := cinv_afterLookup hC hnd hreg' hfew
  have hb : (w1.tbl t).len + n < 2 ^ 32 := by
    rcases Nat.lt_or_ge t s.w.tables.length with hh | hh
    · rw [hsame t hh]; have := hC.idx.rows_le t; omega
    · rw [hnew hh]; have := hC.idx.rows_le 0; omega
  have hS := h1.idx.shape t _ (get_of_lt bt.tlt)
  have hbatch := opNewBatch_eq run p n ids vals s.w H.hinv.unlocked hfoc h1.noObs
  rw [createEntitiesW_eq_placeN n bt.tlt hS h1.noTargets hb] at hbatch
  have hw : (stepB run s (.newb p n ids vals)).w = placeN w1 t n := by
    show (stepBatch run s (.newb p n ids vals)).w = _
    simp only [stepBatch, hg, if_true, execB, hbatch, Res.state]
  rw [hw, placeN_tables_len]
  exact (afterLookup_fields hC hnd hreg' hfoc).2.2.2

end RefineB

end Ark
