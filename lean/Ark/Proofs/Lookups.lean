/-
  Ark.Proofs.Lookups — a proof principle for the three table lookups of `storage.go`
  (`findOrCreateTableAdd`, `findOrCreateTableRemove`, `findOrCreateTable`).

  Each lookup is: a mask walk (which never changes the world), `findOrCreateArch`, `getTable`
  (which never changes the world) and, if no table was found, `createTable`.  Hence

  * `lookup_induct` — a transitive relation between worlds that holds across
    `findOrCreateArch` and across `createTable` holds across every successful lookup.

  It is used for the component index (`Ark.Proofs.CompIndex`), for the rows in use and the pool
  (`Ark.Proofs.RowsAlive`) and for the filter cache (`Ark.Proofs.QueryHist`); most operations
  reach `createArchetype` / `createTable` only through these lookups, so a new invariant needs
  the two primitive cases only.

  Kernel-only proofs, core Lean only.
-/
import Ark.Proofs.RefineOps

set_option autoImplicit false

namespace Ark
namespace World

/-! ## the mask walks never change the world

(`graphFindRemove_go_state`, `graphFind_go_state`, `graphFind_ok_state` are in
Ark/Proofs/RefineOps.lean) -/

theorem graphFindRemove_ok_state {startMask m : Mask} {rem : List Comp} {w w' : World}
    (h : graphFindRemove startMask rem w = .ok m w') : w' = w :=
  graphFindRemove_go_state w rem startMask m w' h

end World

open World

/-- **generic principle for the table lookups**: a transitive relation between worlds that
    holds across `findOrCreateArch` and across `createTable` holds across
    `findOrCreateTableAdd`, `findOrCreateTableRemove` and `findOrCreateTable` (on success). -/
theorem lookup_induct (R : World → World → Prop)
    (htrans : ∀ {a b c : World}, R a b → R b c → R a c)
    (harch : ∀ {mask : Mask} {w w' : World} {a : Nat},
      World.findOrCreateArch mask w = .ok a w' → R w w')
    (htab : ∀ {a : Nat} {rels : List RelID} {w w' : World} {t : Nat},
      World.createTable a rels w = .ok t w' → R w w') :
    (∀ {oldT : Nat} {startMask : Mask} {add : List Comp} {rels : List RelID} {w w' : World}
        {r : Nat × Nat × Mask},
        World.findOrCreateTableAdd oldT startMask add rels w = .ok r w' → R w w') ∧
    (∀ {oldT : Nat} {startMask : Mask} {rem : List Comp} {w w' : World}
        {r : Nat × Nat × Mask × Bool},
        World.findOrCreateTableRemove oldT startMask rem w = .ok r w' → R w w') ∧
    (∀ {oldT : Nat} {startMask : Mask} {add rem : List Comp} {rels : List RelID} {w w' : World}
        {r : Nat × Nat × Mask × Bool},
        World.findOrCreateTable oldT startMask add rem rels w = .ok r w' → R w w') := by
  refine ⟨?_, ?_, ?_⟩
  · intro oldT startMask add rels w w' r hok
    obtain ⟨t, a, mask⟩ := r
    have hg : graphFindAdd startMask add w = .ok (add.foldl Mask.set startMask) w := by
      rcases graphFindAdd_cases startMask add w with hg | ⟨hg, _⟩
      · exact hg
      · simp only [World.findOrCreateTableAdd, bind, M.bind, hg] at hok; cases hok
    cases ha : World.findOrCreateArch (add.foldl Mask.set startMask) w with
    | panic k s => simp only [World.findOrCreateTableAdd, bind, M.bind, hg, ha] at hok; cases hok
    | ok a1 w1 =>
      obtain ⟨_, _, hbr⟩ := findOrCreateTableAdd_ok_inv hg ha hok
      rcases hbr with ⟨_, rfl⟩ | ⟨_, hct⟩
      · exact harch ha
      · exact htrans (harch ha) (htab hct)
  · intro oldT startMask rem w w' r hok
    simp only [World.findOrCreateTableRemove, bind, M.bind] at hok
    cases hg : graphFindRemove startMask rem w with
    | panic k s => rw [hg] at hok; cases hok
    | ok m s =>
      have hs := graphFindRemove_ok_state hg
      subst hs
      rw [hg] at hok
      simp only at hok
      cases ha : World.findOrCreateArch m s with
      | panic k s1 => rw [ha] at hok; cases hok
      | ok a w1 =>
        rw [ha] at hok
        simp only [M.get] at hok
        cases hgt : getTable a ((w1.tbl oldT).relIDs.filter fun r => m.get r.comp) w1 with
        | panic k s2 => rw [hgt] at hok; cases hok
        | ok ot s2 =>
          have hs2 := getTable_ok_state hgt
          subst hs2
          rw [hgt] at hok
          cases ot with
          | some t =>
            simp only [pure, M.pure] at hok
            injection hok with _ hw; subst hw; exact harch ha
          | none =>
            simp only at hok
            cases hct : World.createTable a ((s2.tbl oldT).relIDs.filter fun r => m.get r.comp) s2 with
            | panic k s3 => simp only [M.bind, hct] at hok; cases hok
            | ok t s3 =>
              simp only [M.bind, hct, pure, M.pure] at hok
              injection hok with _ hw; subst hw
              exact htrans (harch ha) (htab hct)
  · intro oldT startMask add rem rels w w' r hok
    simp only [World.findOrCreateTable, bind, M.bind] at hok
    cases hg : graphFind startMask startMask add rem w with
    | panic k s => rw [hg] at hok; cases hok
    | ok m s =>
      have hs := graphFind_ok_state hg
      subst hs
      rw [hg] at hok
      simp only at hok
      cases ha : World.findOrCreateArch m s with
      | panic k s1 => rw [ha] at hok; cases hok
      | ok a w1 =>
        rw [ha] at hok
        simp only [M.get] at hok
        generalize hall : (if (!rem.isEmpty) = true then
            ((w1.tbl oldT).relIDs.filter (fun r => m.get r.comp) ++ rels,
              (w1.tbl oldT).relIDs.any fun r => !m.get r.comp)
          else (relsForAdd (w1.tbl oldT) rels, false)) = p at hok
        obtain ⟨all, rr⟩ := p
        simp only at hok
        cases hgt : getTable a all w1 with
        | panic k s2 => rw [hgt] at hok; cases hok
        | ok ot s2 =>
          have hs2 := getTable_ok_state hgt
          subst hs2
          rw [hgt] at hok
          cases ot with
          | some t =>
            simp only [pure, M.pure] at hok
            injection hok with _ hw; subst hw; exact harch ha
          | none =>
            simp only at hok
            cases hct : World.createTable a all s2 with
            | panic k s3 => simp only [M.bind, hct] at hok; cases hok
            | ok t s3 =>
              simp only [M.bind, hct, pure, M.pure] at hok
              injection hok with _ hw; subst hw
              exact htrans (harch ha) (htab hct)

end Ark
