/-
  Ark.Proofs.RelRefine2Copy — `CopyEntity` in a world WITH relation components (C01 / C04 at world
  level; the counterpart of `CInv.copied` / `opCopyEntity_spec` of `Ark.Proofs.RefineOps` for the
  joint invariant `TInv`).

  `TInv.copied` / `opCopyEntity_rel_spec`: `CopyEntity(src)` of a live entity never fails (no
  observers), keeps all invariants, returns a fresh handle placed in `src`'s table — so the copy
  has the components, the values AND the relation targets of `src` —, changes no other entity,
  creates no table, and keeps the filter-side state (`QKeep`, `CKeep`: the copy sits in a table
  that is cached already).
  Kernel-only proofs, core Lean only.
-/
import Ark.Proofs.RelRefine2Inv

set_option autoImplicit false

namespace Ark
namespace RelRefine2

open World Ark.Props.C01World QueryRel QueryExact

/-- What `CopyEntity(src)` guarantees in a world with relations (`w` before, `w'` after, `e` the
    copy). -/
structure CopyRelPost (w : World) (fl : List Nat) (src e : Ent) (w' : World) : Prop where
  /-- all invariants are kept; the free list loses its head (if any) -/
  tinv : TInv w' fl.tail
  pool : w'.pool = (w.pool.get).1
  locks : w'.locks = w.locks
  obs : w'.obs = w.obs
  kinds : w'.kinds = w.kinds
  maxComps : w'.maxComps = w.maxComps
  /-- the copy has the component set of the source, … -/
  comps : compsOf w' e.id = compsOf w src.id
  /-- … the value of every component of the source, … -/
  vals : ∀ (c : Comp), valOf w' e.id c = valOf w src.id c
  /-- … and the relation targets of the source -/
  targets : ∀ (c : Comp), targetOf w' e.id c = targetOf w src.id c
  /-- every other entity (the source among them) keeps components, values and targets -/
  frame : ∀ (j : Nat), j ≠ e.id → SameEnt w w' j ∧ ∀ (c : Comp), targetOf w' j c = targetOf w j c
  tablesLen : w'.tables.length = w.tables.length
  relArchs : w'.relationArchetypes = w.relationArchetypes
  entitiesLen : w'.entities.length ≤ w.entities.length + 1
  qkeep : QKeep w w'
  ckeep : CKeep w w'

/-- **the copy**: placement of a fresh handle in the table of the live entity `src`, then the
    copy loop -/
theorem _root_.Ark.TInv.copied {w : World} {fl : List Nat} (h : TInv w fl) {src : Ent}
    (h2 : 2 ≤ src.id) (hnf : src.id ∉ fl) (ha : w.alive src = true) (hsl : src.id < w.pool.ents.length)
    (hrows : w.entities.length + 1 < 2 ^ 32) :
    ∃ (t row : Nat), w.index src.id = (t, row) ∧
      CopyRelPost w fl src (w.pool.get).2 (copiedW (placedW w t false) t row (w.tbl t).len) := by
  obtain ⟨t, row, he, ht, _⟩ := h.link.live_entry h2 hnf ha hsl
  refine ⟨t, row, index_of_get he, ?_⟩
  have hI := h.link.idx
  obtain ⟨hTt, hrow, hid⟩ := hI.indexed he ht
  have hlt := lt_of_get hTt
  have hb : (w.tbl t).len + 1 < 2 ^ 32 := by have := hI.rows_le t; omega
  have pp := h.link.placed hlt false hb
  have ms2 := placedW_metaStep w t false
  -- the placed world
  have hlt1 : t < (placedW w t false).tables.length := by rw [ms2.len]; exact hlt
  have hT1 : (placedW w t false).tbl t = ((w.tbl t).add (w.pool.get).2).1 := by
    apply tbl_of_get
    rw [pp.tables]
    exact List.getElem?_set_self hlt
  have hSt := hI.shape t _ hTt
  have hS1 : ((w.tbl t).add (w.pool.get).2).1.Shape := Table.add_shape hSt _ hb
  have hne : row ≠ (w.tbl t).len := by omega
  have hidx1 : (w.tbl t).len < ((w.tbl t).add (w.pool.get).2).1.len := by
    rw [Table.add_fst_len]; omega
  obtain ⟨hw, hcells⟩ := Table.copyCells_spec row (w.tbl t).len hne
    (List.range ((w.tbl t).add (w.pool.get).2).1.ids.length) _ hS1 hidx1
    (fun i hi => List.mem_range.mp hi)
  have hCW : copiedW (placedW w t false) t row (w.tbl t).len =
      (placedW w t false).setTbl t
        ((List.range ((w.tbl t).add (w.pool.get).2).1.ids.length).foldl
          (fun T i => T.setCell i (w.tbl t).len (T.cell i row))
          ((w.tbl t).add (w.pool.get).2).1) := by
    simp only [copiedW, modTbl, hT1]
  have hentE : (placedW w t false).entities[(w.pool.get).2.id]? = some (t, (w.tbl t).len) := by
    rw [pp.lookup, if_pos rfl]
  have hnewRow : (((placedW w t false).tbl t).getEntity (w.tbl t).len).id = (w.pool.get).2.id := by
    rw [hT1]
    have := Table.add_getEntity_new hSt (w.pool.get).2 hb
    rw [Table.add_snd] at this
    rw [this]
  rw [← hT1] at hw
  have hI2 : IdxInv (copiedW (placedW w t false) t row (w.tbl t).len) := by
    rw [hCW, ← hT1]
    exact pp.link.idx.of_same_rows t _ (hw.shape (by rw [hT1]; exact hS1)) hw.id hw.len
      (fun r _ => hw.getEntity r)
  have hlen2 : (copiedW (placedW w t false) t row (w.tbl t).len).tables.length =
      (placedW w t false).tables.length := by
    rw [hCW, setTbl_tables, List.length_set]
  have htbl2 : (copiedW (placedW w t false) t row (w.tbl t).len).tbl t =
      (List.range ((w.tbl t).add (w.pool.get).2).1.ids.length).foldl
          (fun T i => T.setCell i (w.tbl t).len (T.cell i row))
          ((w.tbl t).add (w.pool.get).2).1 := by
    rw [hCW, setTbl_tbl_self _ hlt1]
  have hsm : Table.SameMeta ((placedW w t false).tbl t)
      ((List.range ((w.tbl t).add (w.pool.get).2).1.ids.length).foldl
          (fun T i => T.setCell i (w.tbl t).len (T.cell i row))
          ((w.tbl t).add (w.pool.get).2).1) := by
    rw [hT1]
    exact Table.foldl_sameMeta _ (fun T i => Table.setCell_sameMeta T i _ _) _ _
  have msC : MetaStep (placedW w t false) (copiedW (placedW w t false) t row (w.tbl t).len) :=
    MetaStep.of_set rfl rfl rfl rfl (by rw [hCW]; rfl) (fun _ => hsm)
  have ms := ms2.trans msC
  have hal : ∀ (x : Ent), (copiedW (placedW w t false) t row (w.tbl t).len).alive x =
      (placedW w t false).alive x := fun _ => rfl
  -- the source's table is not free
  have hTf : (w.tbl t).isFree = false := by
    cases hf : (w.tbl t).isFree with
    | false => rfl
    | true => have := h.freeEmpty t _ hTt hf; omega
  have hfree2 : FreeEmpty (placedW w t false) :=
    h.freeEmpty.of_set pp.tables (fun hf => by
      rw [(Table.add_sameMeta _ _).isFree, hTf] at hf; cases hf)
  have hfree3 : FreeEmpty (copiedW (placedW w t false) t row (w.tbl t).len) :=
    hfree2.of_set (t := t) (by rw [hCW]; rfl) (fun hf => by
      rw [hsm.isFree, hT1, (Table.add_sameMeta _ _).isFree, hTf] at hf; cases hf)
  have htm : t ≠ maxU32 := ht
  have hent2 : (copiedW (placedW w t false) t row (w.tbl t).len).entities[(w.pool.get).2.id]? =
      some (t, (w.tbl t).len) := hentE
  have htab2 : (copiedW (placedW w t false) t row (w.tbl t).len).tables[t]? =
      some ((copiedW (placedW w t false) t row (w.tbl t).len).tbl t) :=
    get_of_lt (by rw [hlen2]; exact hlt1)
  have hids2 : ((copiedW (placedW w t false) t row (w.tbl t).len).tbl t).ids = (w.tbl t).ids := by
    rw [htbl2, ← hT1, hw.ids, hT1, Table.add_ids]
  have hFr2 : ∀ (j : Nat), j ≠ (w.pool.get).2.id →
      SameEnt (placedW w t false) (copiedW (placedW w t false) t row (w.tbl t).len) j := by
    intro j hj
    rw [hCW, ← hT1]
    exact same_write pp.link.idx hw (by rw [hnewRow]; exact fun hh => hj hh.symm)
  exact
    { tinv :=
        { rel := h.rel.of_metaStep_in h.targetsIn ms
            (fun x hxin hx => by rw [hal]; exact pp.aliveMono x hxin hx)
          flags := (h.flags.of_metaStep ms2 (placedW_flags_mono w t)).of_metaStep msC
            (fun _ hi => hi)
          freeEmpty := hfree3
          link := pp.link.congr hI2 rfl rfl rfl hlen2
          kindsLe := by
            show (placedW w t false).kinds.length ≤ (placedW w t false).maxComps ∧
              (placedW w t false).maxComps ≤ 256
            rw [(placedW_fields w t false).1, (placedW_fields w t false).2.2]
            exact h.kindsLe }
      pool := placedW_pool w t false
      locks := placedW_locks w t false
      obs := placedW_obs w t false
      kinds := (placedW_fields w t false).1
      maxComps := (placedW_fields w t false).2.2
      comps := by
        simp only [compsOf, hent2, htm, if_false, htab2, Option.map_some, hids2, he, hTt]
      vals := by
        intro c
        simp only [valOf, hent2, htm, if_false, htab2, Option.bind_some, he, hTt, Table.getComp,
          Table.colIdx, hids2]
        split
        · rename_i hj
          simp only [Option.map_some, Option.some.injEq]
          rw [htbl2, hcells _ (List.mem_range.mpr (by rw [Table.add_ids]; exact hj)),
            Table.add_cell_lt _ _ _ _ hrow]
        · rfl
      targets := by
        intro c
        rw [targetOf_of_entry hent2 htm htab2, targetOf_of_entry he ht hTt]
        exact Table.targetAt_sameMeta (ms.tmeta t hlt) c
      frame := by
        intro j hj
        refine ⟨(pp.frame j hj).trans (hFr2 j hj), fun c => ?_⟩
        exact ms.targetOf (by
          show (placedW w t false).entities[j]? = w.entities[j]?
          rw [pp.lookup, if_neg hj]) c
      tablesLen := ms.len
      relArchs := ms.relationArchetypes
      entitiesLen := by
        show (placedW w t false).entities.length ≤ _
        rw [(placedW_place w t false).1, place_entities]
        split
        · simp
        · simp
      qkeep :=
        ⟨fun hr => (rowsAlive_placed hr h.link hlt false hb).copied t row (w.tbl t).len,
         fun hc => (hc.of_frame (placedW_ciFrame w t false)).of_frame ⟨rfl, rfl, rfl, fun _ => rfl⟩,
         fun hce => (hce.of_eq (placedW_cache w t false)).of_eq rfl⟩
      ckeep := (placedW_ckeep w t false).trans (CKeep.of_metaStep msC rfl) }

/-- **C01 + C04, `CopyEntity`** in a world with relations: for a live entity, no observers, on
    an unlocked world it never fails; see `CopyRelPost` -/
theorem opCopyEntity_rel_spec (run : ProbeRunner) {w : World} {fl : List Nat} (h : TInv w fl)
    (hl : w.isLocked = false) (hno : ∀ (evt : Nat), w.obs.hasObservers evt = false) {src : Ent}
    (h2 : 2 ≤ src.id) (hnf : src.id ∉ fl) (ha : w.alive src = true) (hsl : src.id < w.pool.ents.length)
    (hrows : w.entities.length + 1 < 2 ^ 32) :
    ∃ (w' : World), opCopyEntity run src w = .ok (w.pool.get).2 w' ∧
      CopyRelPost w fl src (w.pool.get).2 w' := by
  obtain ⟨t, row, hix, cp⟩ := h.copied h2 hnf ha hsl hrows
  exact ⟨_, opCopyEntity_eq run w src hl ha hix hno, cp⟩

end RelRefine2
end Ark
