/-
  Ark.Proofs.RelExchangeSpec — C01 + C04 at world level: `Exchange(e, add, rem, rels)` in a world WITH
  relation components, part 2: the specification of `World.exchange` (`exchangeCore`).

  * `XchgPre` — the documented preconditions of `Exchange` on a live entity: not both lists empty;
    `rem` distinct components of `e`; `add` distinct registered components `e` lacks; `rels` names
    every relation component among `add` exactly once and nothing else, with zero or alive targets;
  * `XchgCorePost` / `exchangeCore_rel_spec` — from any `TInv` world (unlocked, no observers): a call
    satisfying `XchgPre` never fails; `TInv` is kept; `e` has the components `(current \ rem) ∪ add`;
    kept components keep values and targets, added ones read zero and have the targets given, removed
    ones are gone, `e` has no other target; nobody else changes.

  `Exchange` through the access paths (with the writes) and the rejections are in
  `Ark/Proofs/RelExchangeOp.lean`.
  Kernel-only proofs, core Lean only.
-/
import Ark.Proofs.RelExchange

set_option autoImplicit false

namespace Ark

open World Ark.Props.C01World

/-- **the documented preconditions of `Exchange(e, add, rem, rels)`** on a live entity `e` -/
structure XchgPre (w : World) (e : Ent) (add rem : List Comp) (rels : List RelID) : Prop where
  /-- at least one of the lists is non-empty -/
  nonempty : ¬ (add = [] ∧ rem = [])
  remNodup : rem.Nodup
  /-- `rem ⊆ current` -/
  remHas : ∀ (c : Comp), c ∈ rem → (w.maskOf e).get c = true
  addNodup : add.Nodup
  addReg : ∀ (c : Comp), c ∈ add → c < w.kinds.length
  /-- `add ∩ current = ∅` -/
  addNew : ∀ (c : Comp), c ∈ add → (w.maskOf e).get c = false
  /-- no relation component named twice -/
  relsNodup : (rels.map (·.comp)).Nodup
  /-- relation targets are given for added components only … -/
  relsIn : ∀ (r : RelID), r ∈ rels → r.comp ∈ add
  /-- … that are relation components … -/
  relsRel : ∀ (r : RelID), r ∈ rels → w.isRelComp r.comp = true
  /-- … and for every added relation component -/
  relsAll : ∀ (c : Comp), c ∈ add → w.isRelComp c = true → c ∈ rels.map (·.comp)
  /-- the targets are the zero entity or alive -/
  targets : ∀ (r : RelID), r ∈ rels → r.target.isZero = true ∨ w.alive r.target = true

/-- the shape of the world after `World.exchange`: the lookup tail of `findOrCreateTableAdd` from the
    root table for the new mask `m` with the relation list `L` (result `w1`, table `t`), the row of
    `e` moved from its table `oldT` to `t`, the given targets flagged -/
def XchgShape (w : World) (e : Ent) (rels : List RelID) (w' : World) : Prop :=
  ∃ (oldT row t a : Nat) (m : Mask) (L : List RelID) (w1 : World),
    w.entities[e.id]? = some (oldT, row) ∧ oldT ≠ maxU32 ∧ oldT ≠ t ∧
    (∀ (c : Nat), m.get c = true → c < w.kinds.length) ∧
    World.findOrCreateTableAdd 0 m [] L w = .ok (t, a, m) w1 ∧
    w' = registerW (addMove w1 e oldT row t m) rels

/-- What `World.exchange(e, add, rem, rels)` guarantees (`w` before, `w'` after). -/
structure XchgCorePost (w : World) (fl : List Nat) (e : Ent) (add rem : List Comp)
    (rels : List RelID) (w' : World) : Prop where
  tinv : TInv w' fl
  shape : XchgShape w e rels w'
  pool : w'.pool = w.pool
  obs : w'.obs = w.obs
  locks : w'.locks = w.locks
  kinds : w'.kinds = w.kinds
  maxComps : w'.maxComps = w.maxComps
  relArchs : w'.relationArchetypes.length ≤ w.relationArchetypes.length + 1
  /-- the old components without the removed ones, plus the added ones, ascending -/
  comps : ∀ (cs : List Comp), compsOf w e.id = some cs →
    compsOf w' e.id =
      some (Refine.sortedIds w.kinds.length ((cs.filter fun c => decide (c ∉ rem)) ++ add))
  /-- the components that stay keep their values -/
  kept : ∀ (c : Comp) (v : Val), valOf w e.id c = some v → c ∉ rem → valOf w' e.id c = some v
  /-- the added components read the zero value -/
  added : ∀ (c : Comp), c ∈ add → valOf w' e.id c = some 0
  /-- the removed components are gone, with their targets -/
  gone : ∀ (c : Comp), c ∈ rem → valOf w' e.id c = none ∧ targetOf w' e.id c = none
  /-- the added relation components have the targets given -/
  targets : ∀ (r : RelID), r ∈ rels → targetOf w' e.id r.comp = some r.target
  /-- the relation components that stay keep their targets -/
  oldTargets : ∀ (c : Comp) (x : Ent), targetOf w e.id c = some x → c ∉ rem →
    targetOf w' e.id c = some x
  /-- the entity has no other target -/
  targetsOnly : ∀ (c : Comp) (x : Ent), targetOf w' e.id c = some x →
    (c ∉ rem ∧ targetOf w e.id c = some x) ∨ (⟨c, x⟩ : RelID) ∈ rels
  /-- every other entity keeps components, values and targets -/
  frame : ∀ (j : Nat), j ≠ e.id → SameEnt w w' j ∧ ∀ (c : Comp), targetOf w' j c = targetOf w j c
  tablesLen : w'.tables.length ≤ w.tables.length + 1
  entitiesLen : w'.entities.length = w.entities.length

/-- **C01 + C04, `World.exchange`**: for a live entity `e` (ID inside the pool slice) and arguments
    satisfying `XchgPre` whose targets have IDs inside the pool slice, in a `TInv` world, unlocked,
    no observers: the call never fails, returns the old and the new mask, and guarantees
    `XchgCorePost`. -/
theorem exchangeCore_rel_spec (run : ProbeRunner) {w : World} {fl : List Nat} (h : TInv w fl)
    (hl : w.isLocked = false) (hno : ∀ (evt : Nat), w.obs.hasObservers evt = false) {e : Ent}
    (h2 : 2 ≤ e.id) (hnf : e.id ∉ fl) (ha : w.alive e = true) (hsl : e.id < w.pool.ents.length)
    {add rem : List Comp} {rels : List RelID} (hp : XchgPre w e add rem rels)
    (htin : ∀ (r : RelID), r ∈ rels → r.target.id < w.pool.ents.length)
    (hfew : w.tables.length < maxU32) (hrows : w.entities.length + 1 < 2 ^ 32) :
    ∃ (w' : World),
      exchangeCore run e add rem rels w =
        .ok (w.maskOf e, add.foldl Mask.set (rem.foldl Mask.clear (w.maskOf e))) w' ∧
      XchgCorePost w fl e add rem rels w' := by
  obtain ⟨hne, hrnd, hpres, hand, hreg, hnew, hrelnd, hin, hrc, hall, hval⟩ := hp
  obtain ⟨oldT, row, he, htm, _⟩ := h.link.live_entry h2 hnf ha hsl
  have hix := index_of_get he
  have hI := h.link.idx
  obtain ⟨hT, hrow, hid⟩ := hI.indexed he htm
  have hlt := lt_of_get hT
  have hSS := h.rel.sinv
  have hS := hSS.toSInvMid
  have hTf : (w.tbl oldT).isFree = false := by
    cases hf : (w.tbl oldT).isFree with
    | false => rfl
    | true => have := h.freeEmpty oldT _ hT hf; omega
  obtain ⟨A, hA, i1, i2, i3, _⟩ := hS.tblArch oldT _ hT
  have hAe := arch_of_get hA
  have hTex := h.rel.aux.rels oldT _ hT hTf
  have hmo : w.maskOf e = (w.arch (w.tbl oldT).arch).mask := by simp only [maskOf, hix]
  have hk256 : w.kinds.length ≤ 256 := Nat.le_trans h.kindsLe.1 h.kindsLe.2
  have hb256 : ∀ (c : Comp), c ∈ add → c < 256 := fun c hc => Nat.lt_of_lt_of_le (hreg c hc) hk256
  have holdIds : ∀ (c : Comp), c ∈ (w.tbl oldT).ids ↔ A.mask.get c = true := by
    intro c; rw [i1]; exact hS.mem_comps hA c
  have hpres' : ∀ (c : Comp), c ∈ rem → A.mask.get c = true :=
    fun c hc => by rw [← hAe, ← hmo]; exact hpres c hc
  have hnew' : ∀ (c : Comp), c ∈ add → A.mask.get c = false :=
    fun c hc => by rw [← hAe, ← hmo]; exact hnew c hc
  have hg := graphFind_ok (w.arch (w.tbl oldT).arch).mask add rem w hb256 hrnd
    (fun c hc => by rw [hAe]; exact hpres' c hc) hand (fun c hc => by rw [hAe]; exact hnew' c hc)
  -- the mask after the walk, abstractly
  obtain ⟨m, hm⟩ : ∃ (m : Mask),
      m = add.foldl Mask.set (rem.foldl Mask.clear (w.arch (w.tbl oldT).arch).mask) := ⟨_, rfl⟩
  rw [← hm] at hg
  have mget : ∀ (c : Comp), m.get c =
      ((A.mask.get c && !decide (c ∈ rem)) || (decide (c < 256) && decide (c ∈ add))) := by
    intro c; rw [hm, Mask.get_ofList_foldl, Mask.get_foldl_clear, hAe]
  have mgetP : ∀ (c : Comp), m.get c = true ↔ ((A.mask.get c = true ∧ c ∉ rem) ∨ c ∈ add) := by
    intro c
    rw [mget]
    constructor
    · intro hh
      simp only [Bool.or_eq_true, Bool.and_eq_true, Bool.not_eq_true', decide_eq_false_iff_not,
        decide_eq_true_eq] at hh
      rcases hh with k | k
      · exact Or.inl k
      · exact Or.inr k.2
    · rintro (k | k)
      · simp [k.1, k.2]
      · simp [hb256 c k, k]
  have hroot : (w.tbl 0).relIDs = [] :=
    hS.relIDs_nil (get_of_lt hSS.root.1) (by rw [hSS.root.2.1]; exact hS.root_noRel)
  have hmreg : ∀ (c : Nat), m.get c = true → c < w.kinds.length := by
    intro c hc
    rcases (mgetP c).1 hc with k | k
    · exact hS.maskReg _ A hA c k.1
    · exact hreg c k
  -- the listed relations of the old table sit on components of its mask
  have hom : ∀ (r : RelID), r ∈ (w.tbl oldT).relIDs → A.mask.get r.comp = true := by
    intro r hr
    obtain ⟨i, hi, _⟩ := hS.relCols oldT _ hT r hr
    exact (hS.mem_comps hA r.comp).1 (by rw [← i1]; exact List.mem_of_getElem? hi)
  have hkeptMem : ∀ (r : RelID),
      r ∈ ((w.tbl oldT).relIDs.filter fun r => m.get r.comp) ↔
      r ∈ (w.tbl oldT).relIDs ∧ m.get r.comp = true := by
    intro r; rw [List.mem_filter]
  have hkeptNr : ∀ (r : RelID), r ∈ (w.tbl oldT).relIDs → m.get r.comp = true → r.comp ∉ rem := by
    intro r hr hmr
    rcases (mgetP r.comp).1 hmr with k | k
    · exact k.2
    · have := hnew' r.comp k
      rw [hom r hr] at this; cases this
  have hxr : xchgRels (w.tbl oldT) m rem rels =
      ((w.tbl oldT).relIDs.filter fun r => m.get r.comp) ++ rels := by
    apply xchgRels_eq
    intro hre r hr
    rw [mget, hom r hr, hre]; rfl
  -- the lookup succeeds
  obtain ⟨a, w1', ha', ht', hlook⟩ := h.rel.lookup_total hmreg
    (L := ((w.tbl oldT).relIDs.filter fun r => m.get r.comp) ++ rels)
    (by
      intro r hr
      rcases List.mem_append.1 hr with k | k
      · exact ((hkeptMem r).1 k).2
      · exact (mgetP r.comp).2 (Or.inr (hin r k)))
    (by
      intro c hc hrel
      rw [List.map_append, List.mem_append]
      rcases (mgetP c).1 hc with k | k
      · left
        have hc0 : c ∈ (w.tbl oldT).ids := (holdIds c).2 k.1
        obtain ⟨j, hj⟩ := List.getElem?_of_mem hc0
        have hjr : (w.tbl oldT).isRel.getD j false = true := by
          have hj' := hj
          rw [i1] at hj'
          rw [i2, (hS.kindsOf _ A j c hA hj').1]; exact hrel
        exact List.mem_map.2 ⟨_, (hkeptMem _).2 ⟨hTex.complete j c hj hjr, hc⟩, rfl⟩
      · exact Or.inr (hall c k hrel))
    (by
      rw [List.map_append, List.nodup_append]
      refine ⟨(hTex.nodup).sublist (List.Sublist.map _ List.filter_sublist), hrelnd, ?_⟩
      intro c hc1 c' hc2 heq
      obtain ⟨r1, hr1, rfl⟩ := List.mem_map.1 hc1
      obtain ⟨r2, hr2, rfl⟩ := List.mem_map.1 hc2
      have k1 := hom r1 ((hkeptMem r1).1 hr1).1
      have k2 := hnew' r2.comp (hin r2 hr2)
      rw [← heq, k1] at k2; cases k2)
    (by
      intro r hr
      rcases List.mem_append.1 hr with k | k
      · obtain ⟨i, k1, k2, k3⟩ := hTex.sound r ((hkeptMem r).1 k).1
        refine ⟨hS.isRelComp_of_col hT k1 k2, ?_⟩
        rw [← k3]; exact h.rel.aux.targets oldT _ hT hTf i k2
      · exact ⟨hrc r k, hval r k⟩)
  have hrf : relsForAdd (w1'.tbl 0) (((w.tbl oldT).relIDs.filter fun r => m.get r.comp) ++ rels) =
      ((w.tbl oldT).relIDs.filter fun r => m.get r.comp) ++ rels := by
    have : w1'.tbl 0 = w.tbl 0 := by simp only [tbl, ht']
    rw [this, relsForAdd_eq, hroot, List.nil_append]
  obtain ⟨t, w1, hadd⟩ : ∃ (t : Nat) (w1 : World),
      findOrCreateTableAdd 0 m [] (((w.tbl oldT).relIDs.filter fun r => m.get r.comp) ++ rels) w =
        .ok (t, a, m) w1 := by
    rcases hlook with ⟨t, hres⟩ | ⟨hres, t, w', hct⟩
    · exact ⟨t, w1', by
        simp only [World.findOrCreateTableAdd, bind, M.bind, graphFindAdd, graphFindAdd.go, ha',
          M.get, hrf, hres, pure, M.pure]⟩
    · exact ⟨t, w', by
        simp only [World.findOrCreateTableAdd, bind, M.bind, graphFindAdd, graphFindAdd.go, ha',
          M.get, hrf, hres, hct, pure, M.pure]⟩
  have hf : findOrCreateTable oldT (w.arch (w.tbl oldT).arch).mask add rem rels w =
      .ok (t, a, m, xchgRelRemoved (w.tbl oldT) m rem) w1 := by
    rw [findOrCreateTable_eq_add_rel oldT _ _ add rem rels w hg hroot, hxr, hadd]
  -- what the lookup guarantees
  obtain ⟨_, ar⟩ := h.rel.findOrCreateTableAdd' h.flags h.freeEmpty hmreg
    (fun c hc => by cases hc) hSS.root.1 hS.root_notFree
    (by
      rw [hroot, List.nil_append, List.map_append, List.nodup_append]
      refine ⟨(hTex.nodup).sublist (List.Sublist.map _ List.filter_sublist), hrelnd, ?_⟩
      intro c hc1 c' hc2 heq
      obtain ⟨r1, hr1, rfl⟩ := List.mem_map.1 hc1
      obtain ⟨r2, hr2, rfl⟩ := List.mem_map.1 hc2
      have k1 := hom r1 ((hkeptMem r1).1 hr1).1
      have k2 := hnew' r2.comp (hin r2 hr2)
      rw [← heq, k1] at k2; cases k2) hadd
  have hra := findOrCreateTableAdd_relArchs hSS hmreg (fun c hc => by cases hc) hadd
  have foc := ar.foc
  have hu := ar.untouched
  have hne' : oldT ≠ t := by
    refine Ne.symm (foc.ne_old hSS hlt ?_)
    rw [hAe]
    intro heq
    cases hadd' : add with
    | cons c rest =>
      have hc : c ∈ add := by rw [hadd']; exact List.mem_cons_self
      have k1 := (mgetP c).2 (Or.inr hc)
      rw [heq, hnew' c hc] at k1; cases k1
    | nil =>
      cases hrem' : rem with
      | nil => exact hne ⟨hadd', hrem'⟩
      | cons c rest =>
        have hc : c ∈ rem := by rw [hrem']; exact List.mem_cons_self
        have k1 := hpres' c hc
        rw [← heq] at k1
        rcases (mgetP c).1 k1 with k | k
        · exact k.2 hc
        · rw [hadd'] at k; cases k
  have hI1 : IdxInv w1 := foc.idx hI
  have link1 : PLink w1 fl :=
    h.link.transfer hI1 foc.pool (IdxSame.of_eq foc.entities) (by rw [hu.isTarget])
      (by have := ar.tablesLen; omega)
  have he1 : w1.entities[e.id]? = some (oldT, row) := by rw [foc.entities]; exact he
  have hof1 : (w1.tbl oldT).isFree = false := by
    have := foc.others oldT hlt hne'
    rw [tbl_eq_of_get this]; exact hTf
  have htb1 : w1.tbl oldT = w.tbl oldT := tbl_eq_of_get (foc.others oldT hlt hne')
  have hb1 : (w1.tbl t).len + 1 < 2 ^ 32 := by
    have := hI1.rows_le t
    rw [foc.entities] at this; omega
  have hTt := get_of_lt foc.tblLt
  have hal1 : ∀ (x : Ent), w1.alive x = w.alive x := fun x => by simp only [World.alive, foc.pool]
  have hrc1 : ∀ (c : Comp), w1.isRelComp c = w.isRelComp c := fun c => by
    simp only [World.isRelComp, foc.kinds]
  -- the kept relations were flagged before
  have hF1 : FlagsOKUpTo w1 rels := by
    intro t0 T0 hT0 hf0 i hi hz
    rcases ar.flags t0 T0 hT0 hf0 i hi hz with k | ⟨r, hr, k⟩
    · exact Or.inl k
    · rcases List.mem_append.1 hr with k' | k'
      · left
        obtain ⟨j, _, k2, k3⟩ := hTex.sound r ((hkeptMem r).1 k').1
        rw [← k, ← k3] at hz ⊢
        rw [hu.isTarget]
        exact h.flags oldT _ hT hTf j k2 hz
      · exact Or.inr ⟨r, k', k⟩
  have mt := movedTail (rels := rels) m ar.rel hF1 ar.freeEmpty link1 he1 htm hne' foc.tblLt
    foc.tblFree hof1 hb1 (by
      intro r hr hz
      rcases hval r hr with k | k
      · rw [k] at hz; cases hz
      · have := h.link.lt_of_in (htin r hr)
        rw [hu.isTarget, h.link.tgtLen]; exact this)
  have hno1 : ∀ (evt : Nat), w1.obs.hasObservers evt = false := by
    intro evt; rw [hu.obs]; exact hno evt
  have hcore := exchangeCore_rel_eq run e add rem rels w hl ha hne hix hf hno1
  obtain ⟨fp, fk, fa, fu⟩ := addMove_fields w1 e oldT row t m
  obtain ⟨fra, _⟩ := addMove_more w1 e oldT row t m
  have harch : ((registerW (addMove w1 e oldT row t m) rels).arch a).mask = m := by
    have : (registerW (addMove w1 e oldT row t m) rels).arch a = w1.arch a := by
      show (addMove w1 e oldT row t m).archetypes.getD a default = w1.archetypes.getD a default
      rw [fa]
    rw [this]; exact foc.archMask
  refine ⟨registerW (addMove w1 e oldT row t m) rels, by rw [hcore, harch, hmo, ← hm], ?_⟩
  have hntm : t ≠ maxU32 := by have := foc.tblLt; have := ar.tablesLen; omega
  have f1 := ar.frame hI h.freeEmpty
  have hzst : ∀ (c' : Comp) (i' j' : Nat), (w1.tbl oldT).colIdx c' = some i' →
      (w1.tbl t).colIdx c' = some j' →
      (w1.tbl t).zst.getD j' false = (w1.tbl oldT).zst.getD i' false := by
    intro c' i' j' k1 k2
    rw [foc.sinv.toSInvMid.tbl_zst hTt k2,
      foc.sinv.toSInvMid.tbl_zst (get_of_lt (Nat.lt_of_lt_of_le hlt foc.tablesLen)) k1]
  have hnewIds : ∀ (c : Comp), c ∈ (w1.tbl t).ids ↔ ((A.mask.get c = true ∧ c ∉ rem) ∨ c ∈ add) := by
    intro c
    rw [foc.tblIds, Mask.mem_toList, ← mgetP]
    exact ⟨fun hh => hh.2, fun hh => ⟨hmreg c hh, hh⟩⟩
  have hval3 : ∀ (c : Comp),
      valOf (registerW (addMove w1 e oldT row t m) rels) e.id c =
        valOf (addMove w1 e oldT row t m) e.id c := fun c => valOf_congr rfl rfl e.id c
  -- every relation handed to the lookup is stored in its column of the new table
  have hcolOf : ∀ (r : RelID),
      r ∈ ((w.tbl oldT).relIDs.filter fun r => m.get r.comp) ++ rels → w.isRelComp r.comp = true →
      ∀ (j : Nat), (w1.tbl t).colIdx r.comp = some j →
        (w1.tbl t).isRel.getD j false = true ∧ (w1.tbl t).targets.getD j Ent.zero = r.target := by
    intro r hr hrcr j hj
    exact ar.tgt r (by rw [hroot, List.nil_append]; exact hr) hrcr j hj
  -- the targets of the entity after the call, read from the new table
  have htgtSelf : ∀ (c : Comp), targetOf (registerW (addMove w1 e oldT row t m) rels) e.id c =
      (w1.tbl t).targetAt c := mt.tgtSelf
  -- an old target is the target of a listed relation of the old table
  have holdTgt : ∀ (c : Comp) (x : Ent), targetOf w e.id c = some x →
      ∃ (i : Nat), (w.tbl oldT).colIdx c = some i ∧ (w.tbl oldT).isRel.getD i false = true ∧
        (w.tbl oldT).targets.getD i Ent.zero = x := by
    intro c x hx
    rw [targetOf_of_entry he htm hT] at hx
    simp only [Table.targetAt] at hx
    cases hci : (w.tbl oldT).colIdx c with
    | none => rw [hci] at hx; cases hx
    | some i =>
      rw [hci] at hx
      simp only [Option.bind_some] at hx
      split at hx
      · rename_i hir
        exact ⟨i, rfl, hir, Option.some.inj hx⟩
      · cases hx
  have hTgtOnly : ∀ (c : Comp) (x : Ent),
      targetOf (registerW (addMove w1 e oldT row t m) rels) e.id c = some x →
      (c ∉ rem ∧ targetOf w e.id c = some x) ∨ (⟨c, x⟩ : RelID) ∈ rels := by
    intro c x hx
    rw [htgtSelf] at hx
    simp only [Table.targetAt] at hx
    cases hcj : (w1.tbl t).colIdx c with
    | none => rw [hcj] at hx; cases hx
    | some j =>
      rw [hcj] at hx
      simp only [Option.bind_some] at hx
      split at hx
      · rename_i hjr
        have hxj : (w1.tbl t).targets.getD j Ent.zero = x := Option.some.inj hx
        have hrcc : w.isRelComp c = true := by
          rw [← hrc1]; exact foc.sinv.toSInvMid.isRelComp_of_col hTt (Table.colIdx_get hcj) hjr
        have hcnew : c ∈ (w1.tbl t).ids := colIdx_some_iff_mem.1 ⟨j, hcj⟩
        rcases (hnewIds c).1 hcnew with k | k
        · left
          refine ⟨k.2, ?_⟩
          have hc0 : c ∈ (w.tbl oldT).ids := (holdIds c).2 k.1
          obtain ⟨i, hi⟩ := colIdx_some_iff_mem.mpr hc0
          have hi' := Table.colIdx_get hi
          have hir : (w.tbl oldT).isRel.getD i false = true := by
            have hi'' := hi'
            rw [i1] at hi''
            rw [i2, (hS.kindsOf _ A i c hA hi'').1]; exact hrcc
          have hmem := hTex.complete i c hi' hir
          have hmc : m.get c = true := (mgetP c).2 (Or.inl k)
          obtain ⟨_, k3⟩ := hcolOf ⟨c, (w.tbl oldT).targets.getD i Ent.zero⟩
            (List.mem_append_left _ ((hkeptMem _).2 ⟨hmem, hmc⟩)) hrcc j hcj
          rw [targetOf_of_entry he htm hT, Table.targetAt_of_col hi hir, ← hxj, k3]
        · right
          obtain ⟨r, hr, hrc'⟩ := List.mem_map.1 (hall c k hrcc)
          obtain ⟨_, k3⟩ := hcolOf r (List.mem_append_right _ hr) (hrc r hr) j (by rw [hrc']; exact hcj)
          have : r = ⟨c, x⟩ := by
            cases r with
            | mk rc rt =>
              simp only at hrc' k3
              rw [hrc', ← hxj, k3]
          rw [← this]; exact hr
      · cases hx
  exact
    { tinv := ⟨mt.rel, mt.flags, mt.freeEmpty, mt.link, by
        show (addMove w1 e oldT row t m).kinds.length ≤ (addMove w1 e oldT row t m).maxComps ∧
          (addMove w1 e oldT row t m).maxComps ≤ 256
        rw [fk, fu.maxComps, foc.kinds, hu.maxComps]
        exact h.kindsLe⟩
      shape := ⟨oldT, row, t, a, m, _, w1, he, htm, hne', hmreg, hadd, rfl⟩
      pool := by
        show (addMove w1 e oldT row t m).pool = w.pool
        rw [fp, foc.pool]
      obs := by rw [mt.obs, hu.obs]
      locks := by rw [mt.locks, hu.locks]
      kinds := by rw [mt.kinds, foc.kinds]
      maxComps := by rw [mt.maxComps, hu.maxComps]
      relArchs := by
        show (addMove w1 e oldT row t m).relationArchetypes.length ≤ _
        rw [fra]; exact hra
      comps := by
        intro cs hcs
        have hcs' : cs = (w.tbl oldT).ids := by
          simp only [compsOf, he, htm, if_false, hT, Option.map_some] at hcs
          exact (Option.some.inj hcs).symm
        have hT3 := get_of_lt (show t < (registerW (addMove w1 e oldT row t m) rels).tables.length by
          rw [mt.tablesLen]; exact foc.tblLt)
        simp only [compsOf, mt.entry, hntm, if_false, hT3, Option.map_some]
        rw [(mt.tmeta t foc.tblLt).ids, foc.tblIds]
        congr 1
        apply Refine.toList_eq_sortedIds
        intro c _
        rw [mgetP, hcs', List.mem_append, List.mem_filter, holdIds c]
        simp
      kept := by
        intro c v hv hnr
        have hcio : ∃ (i : Nat), (w.tbl oldT).colIdx c = some i := by
          simp only [valOf, he, htm, if_false, hT, Option.bind_some, Table.getComp] at hv
          cases hci : (w.tbl oldT).colIdx c with
          | none => rw [hci] at hv; cases hv
          | some i => exact ⟨i, rfl⟩
        obtain ⟨i, hci⟩ := hcio
        have hcold : c ∈ (w.tbl oldT).ids := colIdx_some_iff_mem.1 ⟨i, hci⟩
        have hmaskc : m.get c = true := (mgetP c).2 (Or.inl ⟨(holdIds c).1 hcold, hnr⟩)
        have hcnew : (w1.tbl t).has c = true := by
          rw [Table.has_iff_mem, hnewIds]; exact Or.inl ⟨(holdIds c).1 hcold, hnr⟩
        have hmv := move_keeps_values hI1 m hne' he1 htm foc.tblLt hntm hb1 hzst hcnew
        rw [if_pos ⟨hmaskc, by rw [htb1, Table.has_iff_mem]; exact hcold⟩] at hmv
        have hv1 : valOf w1 e.id c = some v := by rw [(f1 e.id).1.1 c]; exact hv
        rw [hval3, hmv, hv1]
      added := by
        intro c hc
        have hnm : c ∉ (w.tbl oldT).ids := fun hh => by
          have := hnew' c hc
          rw [(holdIds c).1 hh] at this; cases this
        have hcnew : (w1.tbl t).has c = true := by
          rw [Table.has_iff_mem, hnewIds]; exact Or.inr hc
        have hmv := move_keeps_values hI1 m hne' he1 htm foc.tblLt hntm hb1 hzst hcnew
        rw [if_neg (fun hh => hnm (by rw [← htb1]; exact Table.has_iff_mem.1 hh.2))] at hmv
        rw [hval3, hmv]
      gone := by
        intro c hc
        have hnc : c ∉ (w1.tbl t).ids := by
          intro hh
          rcases (hnewIds c).1 hh with k | k
          · exact k.2 hc
          · have := hnew' c k
            rw [hpres' c hc] at this; cases this
        have hT3 := get_of_lt (show t < (registerW (addMove w1 e oldT row t m) rels).tables.length by
          rw [mt.tablesLen]; exact foc.tblLt)
        constructor
        · apply valOf_none_of_comps (cs := (w1.tbl t).ids)
          · simp only [compsOf, mt.entry, hntm, if_false, hT3, Option.map_some]
            rw [(mt.tmeta t foc.tblLt).ids]
          · exact hnc
        · cases hx : targetOf (registerW (addMove w1 e oldT row t m) rels) e.id c with
          | none => rfl
          | some x =>
            exfalso
            rcases hTgtOnly c x hx with k | k
            · exact k.1 hc
            · have := hnew' c (hin _ k)
              rw [hpres' c hc] at this; cases this
      targets := by
        intro r hr
        have hc : r.comp ∈ (w1.tbl t).ids := (hnewIds r.comp).2 (Or.inr (hin r hr))
        obtain ⟨j, hj⟩ := colIdx_some_iff_mem.mpr hc
        obtain ⟨k2, k3⟩ := hcolOf r (List.mem_append_right _ hr) (hrc r hr) j hj
        rw [htgtSelf, Table.targetAt_of_col hj k2, k3]
      oldTargets := by
        intro c x hx hnr
        obtain ⟨i, hci, hir, hxi⟩ := holdTgt c x hx
        have hmem := hTex.complete i c (Table.colIdx_get hci) hir
        rw [hxi] at hmem
        have hrcc : w.isRelComp c = true := hS.isRelComp_of_col hT (Table.colIdx_get hci) hir
        have hcold : c ∈ (w.tbl oldT).ids := colIdx_some_iff_mem.1 ⟨i, hci⟩
        have hmaskc : m.get c = true := (mgetP c).2 (Or.inl ⟨(holdIds c).1 hcold, hnr⟩)
        have hcnew : c ∈ (w1.tbl t).ids := (hnewIds c).2 (Or.inl ⟨(holdIds c).1 hcold, hnr⟩)
        obtain ⟨j, hj⟩ := colIdx_some_iff_mem.mpr hcnew
        obtain ⟨k2, k3⟩ := hcolOf ⟨c, x⟩
          (List.mem_append_left _ ((hkeptMem _).2 ⟨hmem, hmaskc⟩)) hrcc j hj
        rw [htgtSelf, Table.targetAt_of_col hj k2, k3]
      targetsOnly := hTgtOnly
      frame := by
        intro j hj
        obtain ⟨s1, g1⟩ := f1 j
        obtain ⟨s2, g2⟩ := mt.frame j hj
        exact ⟨s1.trans s2, fun c => by rw [← g1 c]; exact g2 c⟩
      tablesLen := by rw [mt.tablesLen]; exact ar.tablesLen
      entitiesLen := by rw [mt.entitiesLen, foc.entities] }

end Ark
