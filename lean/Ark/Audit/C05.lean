import Ark.Props.C05

#print axioms Ark.Props.C05.tableIDs_empty
#print axioms Ark.Props.C05.tableIDs_ofList
#print axioms Ark.Props.C05.tableIDs_append
#print axioms Ark.Props.C05.tableIDs_remove
#print axioms Ark.Props.C05.tableIDs_remove_mem
#print axioms Ark.Props.C05.tableIDs_remove_absent
#print axioms Ark.Props.C05.uncached_walk_selects_exactly
#print axioms Ark.Props.C05.cached_eq_uncached
#print axioms Ark.Props.C05.cache_inv_init
#print axioms Ark.Props.C05.cache_inv_register
#print axioms Ark.Props.C05.cache_inv_unregister
#print axioms Ark.Props.C05.cache_inv_table_added
#print axioms Ark.Props.C05.cache_inv_table_removed
#print axioms Ark.Props.C05.cache_inv_reset
