import Ark.Props.C05

#print axioms Ark.Props.C05.tableIDs_empty
#print axioms Ark.Props.C05.tableIDs_ofList
#print axioms Ark.Props.C05.tableIDs_append
#print axioms Ark.Props.C05.tableIDs_remove
#print axioms Ark.Props.C05.tableIDs_remove_mem
#print axioms Ark.Props.C05.tableIDs_remove_absent
