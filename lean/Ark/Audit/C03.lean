import Ark.Props.C03

#print axioms Ark.Props.C03.filter_matches_as_in_source
#print axioms Ark.Props.C03.filter_matches_setlevel
#print axioms Ark.Props.C03.exclusive_matches_exactly
#print axioms Ark.Props.C03.relation_lookup_complete
#print axioms Ark.Props.C03.relation_lookup_all
