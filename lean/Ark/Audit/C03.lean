import Ark.Props.C03

#print axioms Ark.Props.C03.filter_matches_as_in_source
#print axioms Ark.Props.C03.filter_matches_setlevel
#print axioms Ark.Props.C03.exclusive_matches_exactly
#print axioms Ark.Props.C03.relation_lookup_complete
#print axioms Ark.Props.C03.relation_lookup_all
#print axioms Ark.Props.C03.drain_visits_selected_rows
#print axioms Ark.Props.C03.count_eq_visits
#print axioms Ark.Props.C03.entityAt_eq_visit
#print axioms Ark.Props.C03.visits_nodup
#print axioms Ark.Props.C03.drain_closes_and_unlocks
#print axioms Ark.Props.C03.words_mask256_contains
#print axioms Ark.Props.C03.words_mask256_containsAny
#print axioms Ark.Props.C03.words_mask256_not
#print axioms Ark.Props.C03.words_mask256_get
#print axioms Ark.Props.C03.words_mask256_ofIDs
#print axioms Ark.Props.C03.words_mask64_contains
#print axioms Ark.Props.C03.words_mask64_containsAny
#print axioms Ark.Props.C03.words_mask64_not
#print axioms Ark.Props.C03.src_idx_addTable
#print axioms Ark.Props.C03.src_idx_removeTarget
#print axioms Ark.Props.C03.src_idx_getFreeTable
#print axioms Ark.Props.C03.src_idx_hasRelations
#print axioms Ark.Props.C03.src_idx_freeAllTables
#print axioms Ark.Props.C03.src_idx_freeAllTables_storage
#print axioms Ark.Props.C03.src_idx_markFree
