import Ark.Props.C07
import Ark.Props.C07Src

#print axioms Ark.Props.C07.reach_inv
#print axioms Ark.Props.C07.locks_exact
#print axioms Ark.Props.C07.isLocked_iff
#print axioms Ark.Props.C07.lock_fresh
#print axioms Ark.Props.C07.lock_succeeds_iff
#print axioms Ark.Props.C07.unlock_succeeds_iff
#print axioms Ark.Props.C07.unlock_fail_unchanged
#print axioms Ark.Props.C07.lock_fail_unchanged
#print axioms Ark.Props.C07.unlock_returns
#print axioms Ark.Props.C07.unlocked_after_all_returned
#print axioms Ark.Props.C07.count_exact
#print axioms Ark.Props.C07.opNewEntity0_locked
#print axioms Ark.Props.C07.newEntityCore_locked
#print axioms Ark.Props.C07.addCore_locked
#print axioms Ark.Props.C07.removeCore_locked
#print axioms Ark.Props.C07.exchangeCore_locked
#print axioms Ark.Props.C07.setRelationsCore_locked
#print axioms Ark.Props.C07.opRemoveEntity_locked
#print axioms Ark.Props.C07.opCopyEntity_locked
#print axioms Ark.Props.C07.opNewEntities_locked
#print axioms Ark.Props.C07.opNewBatch_locked
#print axioms Ark.Props.C07.exchangeBatch_locked
#print axioms Ark.Props.C07.setRelationsBatch_locked
#print axioms Ark.Props.C07.opRemoveEntities_locked
#print axioms Ark.Props.C07.opReset_locked
#print axioms Ark.Props.C07.opShrink_locked
#print axioms Ark.Props.C07.registerComponent_locked
#print axioms Ark.Props.C07.lock_checked_first_in_source
#print axioms Ark.Props.C07Src.src_bitPool_get
#print axioms Ark.Props.C07Src.src_bitPool_recycle
#print axioms Ark.Props.C07Src.src_bitPool_reset
