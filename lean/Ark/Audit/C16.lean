import Ark.Props.C16

#print axioms Ark.Props.C16.observer_reset_loop_as_in_source
#print axioms Ark.Props.C16.observer_reset_covers_all_events
#print axioms Ark.Props.C16.reset_kills_old_handles
#print axioms Ark.Props.C16.reset_locked
#print axioms Ark.Props.C16.pool_reset_core
#print axioms Ark.Props.C16.lock_reset
