import Ark.Props.C10

#print axioms Ark.Props.C10.alive_checked_before_use
#print axioms Ark.Props.C10.alive_guard_surface
#print axioms Ark.Props.C10.lock_checked_first
#print axioms Ark.Props.C10.addCore_dead
#print axioms Ark.Props.C10.removeCore_dead
#print axioms Ark.Props.C10.exchangeCore_dead
#print axioms Ark.Props.C10.setRelationsCore_dead
#print axioms Ark.Props.C10.opRemoveEntity_dead
#print axioms Ark.Props.C10.opCopyEntity_dead
#print axioms Ark.Props.C10.opSet_dead
#print axioms Ark.Props.C10.addCore_noComponents
#print axioms Ark.Props.C10.removeCore_noComponents
#print axioms Ark.Props.C10.exchangeCore_noComponents
#print axioms Ark.Props.C10.setRelationsCore_noRelations
#print axioms Ark.Props.C10.graphFindAdd_already
#print axioms Ark.Props.C10.graphFindRemove_missing
#print axioms Ark.Props.C10.addCore_locked
#print axioms Ark.Props.C10.opRemoveEntity_locked
