import Ark.Props.C14

#print axioms Ark.Props.C14.arity_wiring_correct
#print axioms Ark.Props.C14.generated_files_are_template_instances
