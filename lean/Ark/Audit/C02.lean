import Ark.Props.C02
import Ark.Props.C02Src

#print axioms Ark.Props.C02.fresh_handle
#print axioms Ark.Props.C02.alive_exact
#print axioms Ark.Props.C02.dead_stays_dead
#print axioms Ark.Props.C02.count_exact
#print axioms Ark.Props.C02.live_unique
#print axioms Ark.Props.C02.reset_kills
#print axioms Ark.Props.C02.alive_exact_world
#print axioms Ark.Props.C02.count_world
#print axioms Ark.Props.C02.handles_fresh_world
#print axioms Ark.Props.C02Src.src_pool_getNew
#print axioms Ark.Props.C02Src.src_pool_get
#print axioms Ark.Props.C02Src.src_pool_recycle
#print axioms Ark.Props.C02Src.src_pool_reset
#print axioms Ark.Props.C02Src.src_pool_len
#print axioms Ark.Props.C02Src.src_pool_cap
