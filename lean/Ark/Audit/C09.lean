import Ark.Props.C09

#print axioms Ark.Props.C09.event_order_in_source
#print axioms Ark.Props.C09.callbacks_cannot_change_structure_when_locked
#print axioms Ark.Props.C09.callback_set_exact
#print axioms Ark.Props.C09.world_add_sees
#print axioms Ark.Props.C09.world_newEntity_sees
#print axioms Ark.Props.C09.world_newEntity0_sees
#print axioms Ark.Props.C09.world_copyEntity_sees
#print axioms Ark.Props.C09.world_set_sees
#print axioms Ark.Props.C09.world_emit_sees
#print axioms Ark.Props.C09.world_remove_sees
#print axioms Ark.Props.C09.world_removeEntity_sees
#print axioms Ark.Props.C09.world_exchange_sees
#print axioms Ark.Props.C09.world_exact_visits_once
#print axioms Ark.Props.C09.world_exact_visits_none
#print axioms Ark.Props.C09.world_query_probe_in_removal_callback
#print axioms Ark.Props.C09.world_harness_runner
#print axioms Ark.Props.C09.batch_batch_idiom_loses_no_callback
#print axioms Ark.Props.C09.batch_newBatch_callbacks
#print axioms Ark.Props.C09.batch_removeEntities_callbacks
#print axioms Ark.Props.C09.batch_exchangeBatch_callbacks
#print axioms Ark.Props.C09.rel_setRelations_sees
#print axioms Ark.Props.C09.rel_newEntity_rel_sees
#print axioms Ark.Props.C09.rel_add_rel_sees
#print axioms Ark.Props.C09.rel_remove_rel_sees
#print axioms Ark.Props.C09.rel_removeEntity_rel_sees
#print axioms Ark.Props.C09.rel_round_log_blind
