import Ark.Props.C09

#print axioms Ark.Props.C09.event_order_in_source
#print axioms Ark.Props.C09.callbacks_cannot_change_structure_when_locked
#print axioms Ark.Props.C09.callback_set_exact
