import Ark.Props.C17

#print axioms Ark.Props.C17.getU32_putU32
#print axioms Ark.Props.C17.unmarshal_marshal
#print axioms Ark.Props.C17.appendBinary_eq
#print axioms Ark.Props.C17.unmarshal_append
#print axioms Ark.Props.C17.unmarshal_none_iff
#print axioms Ark.Props.C17.marshal_injective
#print axioms Ark.Props.C17.unmarshalJSON_marshalJSON
#print axioms Ark.Props.C17.get_core
#print axioms Ark.Props.C17.recycle_core
#print axioms Ark.Props.C17.gets_agree
#print axioms Ark.Props.C17.alive_core
#print axioms Ark.Props.C17.load_core
#print axioms Ark.Props.C17.load_alive_agree
#print axioms Ark.Props.C17.load_alive_beyond
#print axioms Ark.Props.C17.load_gets_agree
#print axioms Ark.Props.C17.load_locked
#print axioms Ark.Props.C17.load_notEmpty
#print axioms Ark.Props.C17.hist_dump_spec
#print axioms Ark.Props.C17.hist_dump_load_alive_and_handles
#print axioms Ark.Props.C17.hist_dump_load_creations
#print axioms Ark.Props.C17.hist_creation_handle
#print axioms Ark.Props.C17.hist_loaded_world
#print axioms Ark.Props.C17.hist_loaded_world_normalised
#print axioms Ark.Props.C17.hist_loaded_index_deviates
