import Ark.Props.C10Rel

#print axioms Ark.Props.C10Rel.preCheck_is_verdict
#print axioms Ark.Props.C10Rel.relation_passes_iff
#print axioms Ark.Props.C10Rel.newEntity_refused
#print axioms Ark.Props.C10Rel.add_refused
#print axioms Ark.Props.C10Rel.exchange_refused
#print axioms Ark.Props.C10Rel.setRelations_refused
#print axioms Ark.Props.C10Rel.newEntity_removed_target
#print axioms Ark.Props.C10Rel.newEntity_removed_target_exact
#print axioms Ark.Props.C10Rel.newEntity_not_added
#print axioms Ark.Props.C10Rel.add_removed_target
#print axioms Ark.Props.C10Rel.add_removed_target_exact
#print axioms Ark.Props.C10Rel.add_not_added
#print axioms Ark.Props.C10Rel.exchange_removed_target
#print axioms Ark.Props.C10Rel.exchange_removed_target_exact
#print axioms Ark.Props.C10Rel.exchange_not_added
#print axioms Ark.Props.C10Rel.setRelations_removed_target
#print axioms Ark.Props.C10Rel.setRelations_removed_target_exact
#print axioms Ark.Props.C10Rel.setRelations_unsafe_passes_iff
#print axioms Ark.Props.C10Rel.setRelations_not_in_mapper
#print axioms Ark.Props.C10Rel.newEntity_relTwice
#print axioms Ark.Props.C10Rel.add_relTwice
#print axioms Ark.Props.C10Rel.getTable_relTwice
#print axioms Ark.Props.C10Rel.lookup_accepted_names_no_component_twice
