import Ark.Props.C18

#print axioms Ark.Props.C18.toTypes_total
#print axioms Ark.Props.C18.toTypes_eq_toList
#print axioms Ark.Props.C18.register_sequential
#print axioms Ark.Props.C18.register_full
#print axioms Ark.Props.C18.register_locked
#print axioms Ark.Props.C18.resources_map
#print axioms Ark.Props.C18.words_mask256_get
#print axioms Ark.Props.C18.words_mask256_get_inRange
#print axioms Ark.Props.C18.words_mask256_totalBitsSet
#print axioms Ark.Props.C18.words_mask64_get
#print axioms Ark.Props.C18.words_mask64_totalBitsSet
