import Ark.Props.C01

#print axioms Ark.Props.C01.write_then_read
#print axioms Ark.Props.C01.swap_remove_moves_only_last
#print axioms Ark.Props.C01.growth_preserves_rows
#print axioms Ark.Props.C01.shrink_preserves_rows
#print axioms Ark.Props.C01.bulk_move_is_rowwise
#print axioms Ark.Props.C01.column_copy_is_rowwise
#print axioms Ark.Props.C01.table_shape_reachable
#print axioms Ark.Props.C01.extend_as_in_source
#print axioms Ark.Props.C01.index_inv_init
#print axioms Ark.Props.C01.index_inv_create
#print axioms Ark.Props.C01.index_inv_move
#print axioms Ark.Props.C01.index_inv_remove
#print axioms Ark.Props.C01.index_inv_batch_move
#print axioms Ark.Props.C01.index_inv_batch_create
#print axioms Ark.Props.C01.index_inv_write
#print axioms Ark.Props.C01.index_inv_new_table
#print axioms Ark.Props.C01.move_frame
#print axioms Ark.Props.C01.move_keeps_values
#print axioms Ark.Props.C01.remove_frame
#print axioms Ark.Props.C01.write_frame
