import Ark.Props.C01

#print axioms Ark.Props.C01.write_then_read
#print axioms Ark.Props.C01.swap_remove_moves_only_last
#print axioms Ark.Props.C01.growth_preserves_rows
#print axioms Ark.Props.C01.shrink_preserves_rows
#print axioms Ark.Props.C01.bulk_move_is_rowwise
#print axioms Ark.Props.C01.column_copy_is_rowwise
#print axioms Ark.Props.C01.table_shape_reachable
#print axioms Ark.Props.C01.extend_as_in_source
