import Ark.Props.C13

#print axioms Ark.Props.C13.filter_fields_guarded
#print axioms Ark.Props.C13.interleavings_keep_lock_exact
#print axioms Ark.Props.C13.unlocked_after_all_closed
#print axioms Ark.Props.C13.up_to_64_open
