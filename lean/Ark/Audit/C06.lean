import Ark.Props.C06

#print axioms Ark.Props.C06.bulk_move_rowwise
#print axioms Ark.Props.C06.bulk_move_entities
#print axioms Ark.Props.C06.bulk_move_len
#print axioms Ark.Props.C06.column_copy_rowwise
#print axioms Ark.Props.C06.source_emptied
#print axioms Ark.Props.C06.batch_locked_rejected
#print axioms Ark.Props.C06.batch_event_order_in_source
