import Ark.Props.C04

#print axioms Ark.Props.C04.index_new
#print axioms Ark.Props.C04.index_addTable
#print axioms Ark.Props.C04.index_recycle
#print axioms Ark.Props.C04.index_shrink_free
#print axioms Ark.Props.C04.index_cleanup_free
#print axioms Ark.Props.C04.index_cleanup_done
#print axioms Ark.Props.C04.index_removeTarget
#print axioms Ark.Props.C04.free_alone_breaks
#print axioms Ark.Props.C04.src_newTableIDs
#print axioms Ark.Props.C04.src_tableIDs_append
#print axioms Ark.Props.C04.src_tableIDs_remove
#print axioms Ark.Props.C04.src_tableIDs_clear
#print axioms Ark.Props.C04.src_addTable
#print axioms Ark.Props.C04.src_removeTarget
#print axioms Ark.Props.C04.src_getFreeTable
#print axioms Ark.Props.C04.src_hasRelations
#print axioms Ark.Props.C04.src_freeTable
#print axioms Ark.Props.C04.src_removeTableRelations
