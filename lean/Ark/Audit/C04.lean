import Ark.Props.C04

#print axioms Ark.Props.C04.index_new
#print axioms Ark.Props.C04.index_addTable
#print axioms Ark.Props.C04.index_recycle
#print axioms Ark.Props.C04.index_shrink_free
#print axioms Ark.Props.C04.index_cleanup_free
#print axioms Ark.Props.C04.index_cleanup_done
#print axioms Ark.Props.C04.index_removeTarget
#print axioms Ark.Props.C04.free_alone_breaks
