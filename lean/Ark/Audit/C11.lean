import Ark.Props.C11

#print axioms Ark.Props.C11.step_len_le
#print axioms Ark.Props.C11.step_shape
#print axioms Ark.Props.C11.run_shape
#print axioms Ark.Props.C11.shape_reachable
#print axioms Ark.Props.C11.uninit_add_reads_zero
#print axioms Ark.Props.C11.uninit_add_getComp_zero
#print axioms Ark.Props.C11.uninit_add_reads_zero_history
#print axioms Ark.Props.C11.uninit_alloc_reads_zero
#print axioms Ark.Props.C11.reset_reads_zero
#print axioms Ark.Props.C11.moves_preserve_values
#print axioms Ark.Props.C11.write_read
