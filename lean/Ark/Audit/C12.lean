import Ark.Props.C12

#print axioms Ark.Props.C12.map_ranges_only_in_freeTable
#print axioms Ark.Props.C12.freeTable_loops_pointwise
