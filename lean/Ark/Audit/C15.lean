import Ark.Props.C15
import Ark.Props.C15Src

#print axioms Ark.Props.C15.shrink_decides_as_in_source
#print axioms Ark.Props.C15.canShrink_decides_as_in_source
#print axioms Ark.Props.C15.canShrink_iff_shrinks_in_source
#print axioms Ark.Props.C15.shrink_rows_unchanged
#print axioms Ark.Props.C15.shrink_capacity
#print axioms Ark.Props.C15.shrink_len
#print axioms Ark.Props.C15.shrink_len_le_cap
#print axioms Ark.Props.C15.shrink_shape
#print axioms Ark.Props.C15.shrink_free_keeps_index
#print axioms Ark.Props.C15.shrink_locked
#print axioms Ark.Props.C15.shrink_idempotent
#print axioms Ark.Props.C15.shrink_idempotent_in_source
#print axioms Ark.Props.C15.world_shrink_is_pure
#print axioms Ark.Props.C15.world_shrink_invisible
#print axioms Ark.Props.C15.world_shrinkRel_frame
#print axioms Ark.Props.C15.world_shrinkRel_table
#print axioms Ark.Props.C15.world_shrinkRel_arch_cache
#print axioms Ark.Props.C15.world_shrinkRel_getRelation
#print axioms Ark.Props.C15.world_shrinkRel_alive
#print axioms Ark.Props.C15.world_shrink_keeps_structure
#print axioms Ark.Props.C15.world_shrink_caps
#print axioms Ark.Props.C15.world_shrink_unbounded_no_work
#print axioms Ark.Props.C15.world_shrink_result_exact
#print axioms Ark.Props.C15.world_shrink_bounded_one_step
#print axioms Ark.Props.C15.world_shrink_progress
#print axioms Ark.Props.C15.world_shrink_converges
#print axioms Ark.Props.C15.world_shrink_converges_fuel
#print axioms Ark.Props.C15.world_shrink_converges_structure
#print axioms Ark.Props.C15.src_freeTable
#print axioms Ark.Props.C15.src_removeTableRelations
#print axioms Ark.Props.C15.src_getFreeTable
#print axioms Ark.Props.C15Src.src_shrink_stops_only_after_work
#print axioms Ark.Props.C15Src.src_shrink_zero_limit
#print axioms Ark.Props.C15Src.src_shrink_positive_limit
