import Ark.Props.C15

#print axioms Ark.Props.C15.shrink_decides_as_in_source
#print axioms Ark.Props.C15.canShrink_decides_as_in_source
#print axioms Ark.Props.C15.shrink_rows_unchanged
#print axioms Ark.Props.C15.shrink_capacity
#print axioms Ark.Props.C15.shrink_len
#print axioms Ark.Props.C15.shrink_len_le_cap
#print axioms Ark.Props.C15.shrink_shape
#print axioms Ark.Props.C15.shrink_free_keeps_index
#print axioms Ark.Props.C15.shrink_locked
#print axioms Ark.Props.C15.shrink_idempotent
